/- GENERATED on every run by vlib/srctrans.py from the typed clang AST of /repo/src/*.cpp — do not edit. -/
import AsamCmp.Src.Sem
set_option linter.unusedVariables false
namespace AsamCmp.SrcGen
open AsamCmp AsamCmp.Src

/-- `ASAM::CMP::swapEndian` (line 35) -/
def swapEndian_u16 (a_value : Nat) : Option Nat := do
  let t1 ← sshr 32 (a_value &&& 65280) 8
  let t2 ← sshl 32 (a_value &&& 255) 8
  pure ((t1 ||| t2) % 65536)

/-- `ASAM::CMP::AnalogPayload::Header::getFlags` (line 5) -/
def AnalogPayload_Header_getFlags (m : Bytes) (this_ : Nat) : Option Nat := do
  let t1 ← rd m this_ 2
  let t2 ← swapEndian_u16 t1
  pure t2

/-- `ASAM::CMP::AnalogPayload::Header::getSampleDt` (line 15) -/
def AnalogPayload_Header_getSampleDt (m : Bytes) (this_ : Nat) : Option Nat := do
  let t1 ← rd m this_ 2
  pure ((t1 &&& 768) % 65536)

/-- `ASAM::CMP::AnalogPayload::Header::getUnit` (line 26) -/
def AnalogPayload_Header_getUnit (m : Bytes) (this_ : Nat) : Option Nat := do
  let t1 ← rd m (this_ + 3) 1
  pure t1

/-- `ASAM::CMP::AnalogPayload::Header::setFlags` (line 10) -/
def AnalogPayload_Header_setFlags (m : Bytes) (this_ : Nat) (a_newFlags : Nat) : Option Bytes := do
  let t1 ← swapEndian_u16 a_newFlags
  let m ← wr m this_ 2 t1
  pure m

/-- `ASAM::CMP::to_underlying` (line 67) -/
def to_underlying_u16 (a_value : Nat) : Option Nat := do
  pure a_value

/-- `ASAM::CMP::AnalogPayload::Header::setSampleDt` (line 20) -/
def AnalogPayload_Header_setSampleDt (m : Bytes) (this_ : Nat) (a_sampleDt : Nat) : Option Bytes := do
  let t1 ← rd m this_ 2
  let m ← wr m this_ 2 ((t1 &&& (bnot 32 768)) % 65536)
  let t2 ← to_underlying_u16 a_sampleDt
  let t3 ← rd m this_ 2
  let m ← wr m this_ 2 ((t3 ||| t2) % 65536)
  pure m

/-- `ASAM::CMP::to_underlying` (line 67) -/
def to_underlying_u8 (a_value : Nat) : Option Nat := do
  pure a_value

/-- `ASAM::CMP::AnalogPayload::Header::setUnit` (line 31) -/
def AnalogPayload_Header_setUnit (m : Bytes) (this_ : Nat) (a_newUnit : Nat) : Option Bytes := do
  let t1 ← to_underlying_u8 a_newUnit
  let m ← wr m (this_ + 3) 1 t1
  pure m

/-- `ASAM::CMP::Payload::getLength` (line 71) -/
def Payload_getLength (pd_ pdsize_ : Nat) (this_ : Nat) : Option Nat := do
  pure pdsize_

/-- `ASAM::CMP::AnalogPayload::getHeader` (line 159) -/
def AnalogPayload_getHeader_v (pd_ pdsize_ : Nat) (this_ : Nat) : Option Nat := do
  pure pd_

/-- `ASAM::CMP::AnalogPayload::getSamplesCount` (line 136) -/
def AnalogPayload_getSamplesCount (m : Bytes) (pd_ pdsize_ : Nat) (this_ : Nat) : Option Nat := do
  let t1 ← Payload_getLength pd_ pdsize_ this_
  let v_samplesSize := (usub 64 t1 16)
  let t2 ← AnalogPayload_getHeader_v pd_ pdsize_ this_
  let t3 ← AnalogPayload_Header_getSampleDt m t2
  let t6 ← (if (t3 == 0) then (do let t4 ← udiv 64 v_samplesSize 2; pure t4) else (do let t5 ← udiv 64 v_samplesSize 4; pure t5))
  pure t6

/-- `ASAM::CMP::AnalogPayload::getData` (line 142) -/
def AnalogPayload_getData (m : Bytes) (pd_ pdsize_ : Nat) (this_ : Nat) : Option Nat := do
  let t1 ← AnalogPayload_getSamplesCount m pd_ pdsize_ this_
  pure (if (t1 != 0) then (pd_ + 16) else 0)

/-- `ASAM::CMP::AnalogPayload::getFlags` (line 76) -/
def AnalogPayload_getFlags (m : Bytes) (pd_ pdsize_ : Nat) (this_ : Nat) : Option Nat := do
  let t1 ← AnalogPayload_getHeader_v pd_ pdsize_ this_
  let t2 ← AnalogPayload_Header_getFlags m t1
  pure t2

/-- `ASAM::CMP::AnalogPayload::getHeader` (line 164) -/
def AnalogPayload_getHeader_v2 (pd_ pdsize_ : Nat) (this_ : Nat) : Option Nat := do
  pure pd_

/-- `ASAM::CMP::AnalogPayload::getSampleDt` (line 86) -/
def AnalogPayload_getSampleDt (m : Bytes) (pd_ pdsize_ : Nat) (this_ : Nat) : Option Nat := do
  let t1 ← AnalogPayload_getHeader_v pd_ pdsize_ this_
  let t2 ← AnalogPayload_Header_getSampleDt m t1
  pure t2

/-- `ASAM::CMP::AnalogPayload::getUnit` (line 96) -/
def AnalogPayload_getUnit (m : Bytes) (pd_ pdsize_ : Nat) (this_ : Nat) : Option Nat := do
  let t1 ← AnalogPayload_getHeader_v pd_ pdsize_ this_
  let t2 ← AnalogPayload_Header_getUnit m t1
  pure t2

/-- `ASAM::CMP::AnalogPayload::isValidPayload` (line 152) -/
def AnalogPayload_isValidPayload (m : Bytes) (a_data : Nat) (a_size : Nat) : Option Bool := do
  let v_header := a_data
  let t4 ← (if (decide (a_size ≥ 16)) then (do let t1 ← AnalogPayload_Header_getSampleDt m v_header; let t3 ← (if (t1 == 0) then pure true else (do let t2 ← AnalogPayload_Header_getSampleDt m v_header; pure (t2 == 256))); pure t3) else pure false)
  pure t4

/-- `ASAM::CMP::Payload::setData` (line 71) -/
def Payload_setData_x_u64 (m : Bytes) (this_ : Nat) (x_data : Bytes) (a_size : Nat) : Option Bytes := do
  let m := resize m (uadd 64 16 a_size)
  let m ← wrBytes m (0 + 16) x_data a_size
  pure m

/-- `ASAM::CMP::AnalogPayload::setData` (line 147) -/
def AnalogPayload_setData (m : Bytes) (this_ : Nat) (x_data : Bytes) (a_size : Nat) : Option Bytes := do
  let m ← Payload_setData_x_u64 m this_ x_data a_size
  pure m

/-- `ASAM::CMP::AnalogPayload::setFlags` (line 81) -/
def AnalogPayload_setFlags (m : Bytes) (pd_ pdsize_ : Nat) (this_ : Nat) (a_flags : Nat) : Option Bytes := do
  let t1 ← AnalogPayload_getHeader_v2 pd_ pdsize_ this_
  let m ← AnalogPayload_Header_setFlags m t1 a_flags
  pure m

/-- `ASAM::CMP::AnalogPayload::setSampleDt` (line 91) -/
def AnalogPayload_setSampleDt (m : Bytes) (pd_ pdsize_ : Nat) (this_ : Nat) (a_sampleDt : Nat) : Option Bytes := do
  let t1 ← AnalogPayload_getHeader_v2 pd_ pdsize_ this_
  let m ← AnalogPayload_Header_setSampleDt m t1 a_sampleDt
  pure m

/-- `ASAM::CMP::AnalogPayload::setUnit` (line 101) -/
def AnalogPayload_setUnit (m : Bytes) (pd_ pdsize_ : Nat) (this_ : Nat) (a_unit : Nat) : Option Bytes := do
  let t1 ← AnalogPayload_getHeader_v2 pd_ pdsize_ this_
  let m ← AnalogPayload_Header_setUnit m t1 a_unit
  pure m

/-- `ASAM::CMP::CanPayloadBase::getHeader` (line 275) -/
def CanPayloadBase_getHeader_v (pd_ pdsize_ : Nat) (this_ : Nat) : Option Nat := do
  pure pd_

/-- `ASAM::CMP::swapEndian` (line 40) -/
def swapEndian_u32 (a_value : Nat) : Option Nat := do
  let t1 ← ushr 32 (a_value &&& 4278190080) 24
  let t2 ← ushr 32 (a_value &&& 16711680) 8
  let t3 ← ushl 32 (a_value &&& 65280) 8
  let t4 ← ushl 32 (a_value &&& 255) 24
  pure (((t1 ||| t2) ||| t3) ||| t4)

/-- `ASAM::CMP::CanPayloadBase::Header::getCrcSbc` (line 90) -/
def CanPayloadBase_Header_getCrcSbc (m : Bytes) (this_ : Nat) : Option Nat := do
  let t1 ← rd m (this_ + 8) 4
  let t2 ← swapEndian_u32 (t1 &&& 4294909696)
  pure t2

/-- `ASAM::CMP::CanFdPayload::getCrc` (line 26) -/
def CanFdPayload_getCrc (m : Bytes) (pd_ pdsize_ : Nat) (this_ : Nat) : Option Nat := do
  let t1 ← CanPayloadBase_getHeader_v pd_ pdsize_ this_
  let t2 ← CanPayloadBase_Header_getCrcSbc m t1
  pure t2

/-- `ASAM::CMP::CanPayloadBase::Header::getRtrRrs` (line 49) -/
def CanPayloadBase_Header_getRtrRrs (m : Bytes) (this_ : Nat) : Option Bool := do
  let t1 ← rd m (this_ + 4) 4
  pure ((t1 &&& 64) != 0)

/-- `ASAM::CMP::CanFdPayload::getRrs` (line 16) -/
def CanFdPayload_getRrs (m : Bytes) (pd_ pdsize_ : Nat) (this_ : Nat) : Option Bool := do
  let t1 ← CanPayloadBase_getHeader_v pd_ pdsize_ this_
  let t2 ← CanPayloadBase_Header_getRtrRrs m t1
  pure t2

/-- `ASAM::CMP::CanPayloadBase::Header::getSbc` (line 101) -/
def CanPayloadBase_Header_getSbc (m : Bytes) (this_ : Nat) : Option Nat := do
  let t1 ← rd m (this_ + 8) 4
  let t2 ← swapEndian_u32 (t1 &&& 57344)
  let t3 ← ushr 32 t2 21
  pure (t3 % 256)

/-- `ASAM::CMP::CanFdPayload::getSbc` (line 36) -/
def CanFdPayload_getSbc (m : Bytes) (pd_ pdsize_ : Nat) (this_ : Nat) : Option Nat := do
  let t1 ← CanPayloadBase_getHeader_v pd_ pdsize_ this_
  let t2 ← CanPayloadBase_Header_getSbc m t1
  pure t2

/-- `ASAM::CMP::CanPayloadBase::Header::getSbcParity` (line 112) -/
def CanPayloadBase_Header_getSbcParity (m : Bytes) (this_ : Nat) : Option Bool := do
  let t1 ← rd m (this_ + 8) 4
  pure ((t1 &&& 1) != 0)

/-- `ASAM::CMP::CanFdPayload::getSbcParity` (line 46) -/
def CanFdPayload_getSbcParity (m : Bytes) (pd_ pdsize_ : Nat) (this_ : Nat) : Option Bool := do
  let t1 ← CanPayloadBase_getHeader_v pd_ pdsize_ this_
  let t2 ← CanPayloadBase_Header_getSbcParity m t1
  pure t2

/-- `ASAM::CMP::CanPayloadBase::Header::getSbcSupport` (line 122) -/
def CanPayloadBase_Header_getSbcSupport (m : Bytes) (this_ : Nat) : Option Bool := do
  let t1 ← rd m (this_ + 8) 4
  pure ((t1 &&& 64) != 0)

/-- `ASAM::CMP::CanFdPayload::getSbcSupport` (line 56) -/
def CanFdPayload_getSbcSupport (m : Bytes) (pd_ pdsize_ : Nat) (this_ : Nat) : Option Bool := do
  let t1 ← CanPayloadBase_getHeader_v pd_ pdsize_ this_
  let t2 ← CanPayloadBase_Header_getSbcSupport m t1
  pure t2

/-- `ASAM::CMP::CanPayloadBase::getHeader` (line 280) -/
def CanPayloadBase_getHeader_v2 (pd_ pdsize_ : Nat) (this_ : Nat) : Option Nat := do
  pure pd_

/-- `ASAM::CMP::CanPayloadBase::Header::setCrcSbc` (line 95) -/
def CanPayloadBase_Header_setCrcSbc (m : Bytes) (this_ : Nat) (a_newCrcSbc : Nat) : Option Bytes := do
  let t1 ← rd m (this_ + 8) 4
  let m ← wr m (this_ + 8) 4 (t1 &&& (bnot 32 4294909696))
  let t2 ← swapEndian_u32 a_newCrcSbc
  let t3 ← rd m (this_ + 8) 4
  let m ← wr m (this_ + 8) 4 (t3 ||| t2)
  pure m

/-- `ASAM::CMP::CanFdPayload::setCrc` (line 31) -/
def CanFdPayload_setCrc (m : Bytes) (pd_ pdsize_ : Nat) (this_ : Nat) (a_newCrcSbc : Nat) : Option Bytes := do
  let t1 ← CanPayloadBase_getHeader_v2 pd_ pdsize_ this_
  let m ← CanPayloadBase_Header_setCrcSbc m t1 a_newCrcSbc
  pure m

/-- `ASAM::CMP::CanPayloadBase::Header::setRtrRrs` (line 54) -/
def CanPayloadBase_Header_setRtrRrs (m : Bytes) (this_ : Nat) (a_rtrRrs : Bool) : Option Bytes := do
  let t3 ← (if a_rtrRrs then (do let t1 ← rd m (this_ + 4) 4; pure (t1 ||| 64)) else (do let t2 ← rd m (this_ + 4) 4; pure (t2 &&& (bnot 32 64))))
  let m ← wr m (this_ + 4) 4 t3
  pure m

/-- `ASAM::CMP::CanFdPayload::setRrs` (line 21) -/
def CanFdPayload_setRrs (m : Bytes) (pd_ pdsize_ : Nat) (this_ : Nat) (a_rrs : Bool) : Option Bytes := do
  let t1 ← CanPayloadBase_getHeader_v2 pd_ pdsize_ this_
  let m ← CanPayloadBase_Header_setRtrRrs m t1 a_rrs
  pure m

/-- `ASAM::CMP::CanPayloadBase::Header::setSbc` (line 106) -/
def CanPayloadBase_Header_setSbc (m : Bytes) (this_ : Nat) (a_sbc : Nat) : Option Bytes := do
  let t1 ← rd m (this_ + 8) 4
  let m ← wr m (this_ + 8) 4 (t1 &&& (bnot 32 57344))
  let t2 ← ushl 32 a_sbc 21
  let t3 ← swapEndian_u32 t2
  let t4 ← rd m (this_ + 8) 4
  let m ← wr m (this_ + 8) 4 (t4 ||| t3)
  pure m

/-- `ASAM::CMP::CanFdPayload::setSbc` (line 41) -/
def CanFdPayload_setSbc (m : Bytes) (pd_ pdsize_ : Nat) (this_ : Nat) (a_sbc : Nat) : Option Bytes := do
  let t1 ← CanPayloadBase_getHeader_v2 pd_ pdsize_ this_
  let m ← CanPayloadBase_Header_setSbc m t1 a_sbc
  pure m

/-- `ASAM::CMP::CanPayloadBase::Header::setSbcParity` (line 117) -/
def CanPayloadBase_Header_setSbcParity (m : Bytes) (this_ : Nat) (a_parity : Bool) : Option Bytes := do
  let t3 ← (if a_parity then (do let t1 ← rd m (this_ + 8) 4; pure (t1 ||| 1)) else (do let t2 ← rd m (this_ + 8) 4; pure (t2 &&& (bnot 32 1))))
  let m ← wr m (this_ + 8) 4 t3
  pure m

/-- `ASAM::CMP::CanFdPayload::setSbcParity` (line 51) -/
def CanFdPayload_setSbcParity (m : Bytes) (pd_ pdsize_ : Nat) (this_ : Nat) (a_parity : Bool) : Option Bytes := do
  let t1 ← CanPayloadBase_getHeader_v2 pd_ pdsize_ this_
  let m ← CanPayloadBase_Header_setSbcParity m t1 a_parity
  pure m

/-- `ASAM::CMP::CanPayloadBase::Header::setSbcSupport` (line 127) -/
def CanPayloadBase_Header_setSbcSupport (m : Bytes) (this_ : Nat) (a_support : Bool) : Option Bytes := do
  let t3 ← (if a_support then (do let t1 ← rd m (this_ + 8) 4; pure (t1 ||| 64)) else (do let t2 ← rd m (this_ + 8) 4; pure (t2 &&& (bnot 32 64))))
  let m ← wr m (this_ + 8) 4 t3
  pure m

/-- `ASAM::CMP::CanFdPayload::setSbcSupport` (line 61) -/
def CanFdPayload_setSbcSupport (m : Bytes) (pd_ pdsize_ : Nat) (this_ : Nat) (a_support : Bool) : Option Bytes := do
  let t1 ← CanPayloadBase_getHeader_v2 pd_ pdsize_ this_
  let m ← CanPayloadBase_Header_setSbcSupport m t1 a_support
  pure m

/-- `ASAM::CMP::CanPayloadBase::Header::getCrc` (line 69) -/
def CanPayloadBase_Header_getCrc (m : Bytes) (this_ : Nat) : Option Nat := do
  let t1 ← rd m (this_ + 8) 4
  let t2 ← swapEndian_u32 (t1 &&& 4286513152)
  pure (t2 % 65536)

/-- `ASAM::CMP::CanPayload::getCrc` (line 25) -/
def CanPayload_getCrc (m : Bytes) (pd_ pdsize_ : Nat) (this_ : Nat) : Option Nat := do
  let t1 ← CanPayloadBase_getHeader_v pd_ pdsize_ this_
  let t2 ← CanPayloadBase_Header_getCrc m t1
  pure t2

/-- `ASAM::CMP::CanPayload::getRtr` (line 15) -/
def CanPayload_getRtr (m : Bytes) (pd_ pdsize_ : Nat) (this_ : Nat) : Option Bool := do
  let t1 ← CanPayloadBase_getHeader_v pd_ pdsize_ this_
  let t2 ← CanPayloadBase_Header_getRtrRrs m t1
  pure t2

/-- `ASAM::CMP::CanPayloadBase::Header::setCrc` (line 74) -/
def CanPayloadBase_Header_setCrc (m : Bytes) (this_ : Nat) (a_newCrc : Nat) : Option Bytes := do
  let t1 ← rd m (this_ + 8) 4
  let m ← wr m (this_ + 8) 4 (t1 &&& (bnot 32 4286513152))
  let t2 ← swapEndian_u32 a_newCrc
  let t3 ← rd m (this_ + 8) 4
  let m ← wr m (this_ + 8) 4 (t3 ||| t2)
  pure m

/-- `ASAM::CMP::CanPayload::setCrc` (line 30) -/
def CanPayload_setCrc (m : Bytes) (pd_ pdsize_ : Nat) (this_ : Nat) (a_crc : Nat) : Option Bytes := do
  let t1 ← CanPayloadBase_getHeader_v2 pd_ pdsize_ this_
  let m ← CanPayloadBase_Header_setCrc m t1 a_crc
  pure m

/-- `ASAM::CMP::CanPayload::setRtr` (line 20) -/
def CanPayload_setRtr (m : Bytes) (pd_ pdsize_ : Nat) (this_ : Nat) (a_rtr : Bool) : Option Bytes := do
  let t1 ← CanPayloadBase_getHeader_v2 pd_ pdsize_ this_
  let m ← CanPayloadBase_Header_setRtrRrs m t1 a_rtr
  pure m

/-- `ASAM::CMP::CanPayloadBase::Header::getCrcSupport` (line 80) -/
def CanPayloadBase_Header_getCrcSupport (m : Bytes) (this_ : Nat) : Option Bool := do
  let t1 ← rd m (this_ + 8) 4
  pure ((t1 &&& 128) != 0)

/-- `ASAM::CMP::CanPayloadBase::Header::getDataLength` (line 157) -/
def CanPayloadBase_Header_getDataLength (m : Bytes) (this_ : Nat) : Option Nat := do
  let t1 ← rd m (this_ + 15) 1
  pure t1

/-- `ASAM::CMP::CanPayloadBase::Header::getDlc` (line 147) -/
def CanPayloadBase_Header_getDlc (m : Bytes) (this_ : Nat) : Option Nat := do
  let t1 ← rd m (this_ + 14) 1
  pure t1

/-- `ASAM::CMP::CanPayloadBase::Header::getErrorPosition` (line 132) -/
def CanPayloadBase_Header_getErrorPosition (m : Bytes) (this_ : Nat) : Option Nat := do
  let t1 ← rd m (this_ + 12) 2
  let t2 ← swapEndian_u16 t1
  pure t2

/-- `ASAM::CMP::CanPayloadBase::Header::getFlags` (line 5) -/
def CanPayloadBase_Header_getFlags (m : Bytes) (this_ : Nat) : Option Nat := do
  let t1 ← rd m this_ 2
  let t2 ← swapEndian_u16 t1
  pure t2

/-- `ASAM::CMP::CanPayloadBase::Header::getFlag` (line 15) -/
def CanPayloadBase_Header_getFlag (m : Bytes) (this_ : Nat) (a_mask : Nat) : Option Bool := do
  let t1 ← CanPayloadBase_Header_getFlags m this_
  pure ((t1 &&& a_mask) != 0)

/-- `ASAM::CMP::CanPayloadBase::Header::getId` (line 28) -/
def CanPayloadBase_Header_getId (m : Bytes) (this_ : Nat) : Option Nat := do
  let t1 ← rd m (this_ + 4) 4
  let t2 ← swapEndian_u32 (t1 &&& 4294967071)
  pure t2

/-- `ASAM::CMP::CanPayloadBase::Header::getIde` (line 59) -/
def CanPayloadBase_Header_getIde (m : Bytes) (this_ : Nat) : Option Bool := do
  let t1 ← rd m (this_ + 4) 4
  pure ((t1 &&& 128) != 0)

/-- `ASAM::CMP::CanPayloadBase::Header::getRsvd` (line 39) -/
def CanPayloadBase_Header_getRsvd (m : Bytes) (this_ : Nat) : Option Bool := do
  let t1 ← rd m (this_ + 4) 4
  pure ((t1 &&& 32) != 0)

/-- `ASAM::CMP::CanPayloadBase::Header::hasError` (line 142) -/
def CanPayloadBase_Header_hasError (m : Bytes) (this_ : Nat) : Option Bool := do
  let t1 ← rd m this_ 2
  let t3 ← (if ((t1 &&& 65283) != 0) then pure true else (do let t2 ← rd m (this_ + 12) 2; pure (t2 != 0)))
  pure t3

/-- `ASAM::CMP::CanPayloadBase::Header::setCrcSupport` (line 85) -/
def CanPayloadBase_Header_setCrcSupport (m : Bytes) (this_ : Nat) (a_support : Bool) : Option Bytes := do
  let t3 ← (if a_support then (do let t1 ← rd m (this_ + 8) 4; pure (t1 ||| 128)) else (do let t2 ← rd m (this_ + 8) 4; pure (t2 &&& (bnot 32 128))))
  let m ← wr m (this_ + 8) 4 t3
  pure m

/-- `ASAM::CMP::CanPayloadBase::Header::setDataLength` (line 162) -/
def CanPayloadBase_Header_setDataLength (m : Bytes) (this_ : Nat) (a_length : Nat) : Option Bytes := do
  let m ← wr m (this_ + 15) 1 a_length
  pure m

/-- `ASAM::CMP::CanPayloadBase::Header::setDlc` (line 152) -/
def CanPayloadBase_Header_setDlc (m : Bytes) (this_ : Nat) (a_newDlc : Nat) : Option Bytes := do
  let m ← wr m (this_ + 14) 1 a_newDlc
  pure m

/-- `ASAM::CMP::CanPayloadBase::Header::setErrorPosition` (line 137) -/
def CanPayloadBase_Header_setErrorPosition (m : Bytes) (this_ : Nat) (a_position : Nat) : Option Bytes := do
  let t1 ← swapEndian_u16 a_position
  let m ← wr m (this_ + 12) 2 t1
  pure m

/-- `ASAM::CMP::CanPayloadBase::Header::setFlags` (line 10) -/
def CanPayloadBase_Header_setFlags (m : Bytes) (this_ : Nat) (a_newFlags : Nat) : Option Bytes := do
  let t1 ← swapEndian_u16 a_newFlags
  let m ← wr m this_ 2 t1
  pure m

/-- `ASAM::CMP::CanPayloadBase::Header::setFlag` (line 20) -/
def CanPayloadBase_Header_setFlag (m : Bytes) (this_ : Nat) (a_mask : Nat) (a_value : Bool) : Option Bytes := do
  if a_value then
    let t1 ← CanPayloadBase_Header_getFlags m this_
    let m ← CanPayloadBase_Header_setFlags m this_ ((t1 ||| a_mask) % 65536)
    pure m
  else
    let t2 ← CanPayloadBase_Header_getFlags m this_
    let m ← CanPayloadBase_Header_setFlags m this_ ((t2 &&& (bnot 32 a_mask)) % 65536)
    pure m

/-- `ASAM::CMP::CanPayloadBase::Header::setId` (line 33) -/
def CanPayloadBase_Header_setId (m : Bytes) (this_ : Nat) (a_newId : Nat) : Option Bytes := do
  let t1 ← rd m (this_ + 4) 4
  let m ← wr m (this_ + 4) 4 (t1 &&& (bnot 32 4294967071))
  let t2 ← swapEndian_u32 a_newId
  let t3 ← rd m (this_ + 4) 4
  let m ← wr m (this_ + 4) 4 (t3 ||| t2)
  pure m

/-- `ASAM::CMP::CanPayloadBase::Header::setIde` (line 64) -/
def CanPayloadBase_Header_setIde (m : Bytes) (this_ : Nat) (a_ide : Bool) : Option Bytes := do
  let t3 ← (if a_ide then (do let t1 ← rd m (this_ + 4) 4; pure (t1 ||| 128)) else (do let t2 ← rd m (this_ + 4) 4; pure (t2 &&& (bnot 32 128))))
  let m ← wr m (this_ + 4) 4 t3
  pure m

/-- `ASAM::CMP::CanPayloadBase::Header::setRsvd` (line 44) -/
def CanPayloadBase_Header_setRsvd (m : Bytes) (this_ : Nat) (a_rsvd : Bool) : Option Bytes := do
  let t3 ← (if a_rsvd then (do let t1 ← rd m (this_ + 4) 4; pure (t1 ||| 32)) else (do let t2 ← rd m (this_ + 4) 4; pure (t2 &&& (bnot 32 32))))
  let m ← wr m (this_ + 4) 4 t3
  pure m

/-- `ASAM::CMP::CanPayloadBase::encodeDlc` (line 285) -/
def CanPayloadBase_encodeDlc (this_ : Nat) (a_dataLength : Nat) : Option Nat := do
  if (sle 32 a_dataLength 8) then
    pure a_dataLength
  else
    if (sle 32 a_dataLength 12) then
      pure 9
    else
      if (sle 32 a_dataLength 16) then
        pure 10
      else
        if (sle 32 a_dataLength 20) then
          pure 11
        else
          if (sle 32 a_dataLength 24) then
            pure 12
          else
            if (sle 32 a_dataLength 32) then
              pure 13
            else
              if (sle 32 a_dataLength 48) then
                pure 14
              else
                pure 15

/-- `ASAM::CMP::CanPayloadBase::getCrcSupport` (line 217) -/
def CanPayloadBase_getCrcSupport (m : Bytes) (pd_ pdsize_ : Nat) (this_ : Nat) : Option Bool := do
  let t1 ← CanPayloadBase_getHeader_v pd_ pdsize_ this_
  let t2 ← CanPayloadBase_Header_getCrcSupport m t1
  pure t2

/-- `ASAM::CMP::CanPayloadBase::getDataLength` (line 242) -/
def CanPayloadBase_getDataLength (m : Bytes) (pd_ pdsize_ : Nat) (this_ : Nat) : Option Nat := do
  let t1 ← CanPayloadBase_getHeader_v pd_ pdsize_ this_
  let t2 ← CanPayloadBase_Header_getDataLength m t1
  pure t2

/-- `ASAM::CMP::CanPayloadBase::getData` (line 247) -/
def CanPayloadBase_getData (m : Bytes) (pd_ pdsize_ : Nat) (this_ : Nat) : Option Nat := do
  let t1 ← CanPayloadBase_getDataLength m pd_ pdsize_ this_
  pure (if (t1 != 0) then (pd_ + 16) else 0)

/-- `ASAM::CMP::CanPayloadBase::getDlc` (line 237) -/
def CanPayloadBase_getDlc (m : Bytes) (pd_ pdsize_ : Nat) (this_ : Nat) : Option Nat := do
  let t1 ← CanPayloadBase_getHeader_v pd_ pdsize_ this_
  let t2 ← CanPayloadBase_Header_getDlc m t1
  pure t2

/-- `ASAM::CMP::CanPayloadBase::getErrorPosition` (line 227) -/
def CanPayloadBase_getErrorPosition (m : Bytes) (pd_ pdsize_ : Nat) (this_ : Nat) : Option Nat := do
  let t1 ← CanPayloadBase_getHeader_v pd_ pdsize_ this_
  let t2 ← CanPayloadBase_Header_getErrorPosition m t1
  pure t2

/-- `ASAM::CMP::CanPayloadBase::getFlag` (line 177) -/
def CanPayloadBase_getFlag (m : Bytes) (pd_ pdsize_ : Nat) (this_ : Nat) (a_mask : Nat) : Option Bool := do
  let t1 ← CanPayloadBase_getHeader_v pd_ pdsize_ this_
  let t2 ← CanPayloadBase_Header_getFlag m t1 a_mask
  pure t2

/-- `ASAM::CMP::CanPayloadBase::getFlags` (line 167) -/
def CanPayloadBase_getFlags (m : Bytes) (pd_ pdsize_ : Nat) (this_ : Nat) : Option Nat := do
  let t1 ← CanPayloadBase_getHeader_v pd_ pdsize_ this_
  let t2 ← CanPayloadBase_Header_getFlags m t1
  pure t2

/-- `ASAM::CMP::CanPayloadBase::getId` (line 187) -/
def CanPayloadBase_getId (m : Bytes) (pd_ pdsize_ : Nat) (this_ : Nat) : Option Nat := do
  let t1 ← CanPayloadBase_getHeader_v pd_ pdsize_ this_
  let t2 ← CanPayloadBase_Header_getId m t1
  pure t2

/-- `ASAM::CMP::CanPayloadBase::getIde` (line 207) -/
def CanPayloadBase_getIde (m : Bytes) (pd_ pdsize_ : Nat) (this_ : Nat) : Option Bool := do
  let t1 ← CanPayloadBase_getHeader_v pd_ pdsize_ this_
  let t2 ← CanPayloadBase_Header_getIde m t1
  pure t2

/-- `ASAM::CMP::CanPayloadBase::getRsvd` (line 197) -/
def CanPayloadBase_getRsvd (m : Bytes) (pd_ pdsize_ : Nat) (this_ : Nat) : Option Bool := do
  let t1 ← CanPayloadBase_getHeader_v pd_ pdsize_ this_
  let t2 ← CanPayloadBase_Header_getRsvd m t1
  pure t2

/-- `ASAM::CMP::CanPayloadBase::isValidPayload` (line 259) -/
def CanPayloadBase_isValidPayload (m : Bytes) (a_data : Nat) (a_size : Nat) : Option Bool := do
  let v_header := a_data
  let t2 ← (if (decide (a_size ≥ 16)) then (do let t1 ← CanPayloadBase_Header_hasError m v_header; pure (!t1)) else pure false)
  let t4 ← (if t2 then (do let t3 ← CanPayloadBase_Header_getDataLength m v_header; pure (decide (t3 ≤ (usub 64 a_size 16)))) else pure false)
  pure t4

/-- `ASAM::CMP::CanPayloadBase::setCrcSupport` (line 222) -/
def CanPayloadBase_setCrcSupport (m : Bytes) (pd_ pdsize_ : Nat) (this_ : Nat) (a_support : Bool) : Option Bytes := do
  let t1 ← CanPayloadBase_getHeader_v2 pd_ pdsize_ this_
  let m ← CanPayloadBase_Header_setCrcSupport m t1 a_support
  pure m

/-- `ASAM::CMP::Payload::setData` (line 71) -/
def Payload_setData_x_u642 (m : Bytes) (this_ : Nat) (x_data : Bytes) (a_size : Nat) : Option Bytes := do
  let m := resize m (uadd 64 16 a_size)
  let m ← wrBytes m (0 + 16) x_data a_size
  pure m

/-- `ASAM::CMP::CanPayloadBase::setData` (line 252) -/
def CanPayloadBase_setData (m : Bytes) (this_ : Nat) (x_data : Bytes) (a_dataLength : Nat) : Option Bytes := do
  let m ← Payload_setData_x_u642 m this_ x_data a_dataLength
  let t1 ← CanPayloadBase_getHeader_v2 0 m.length this_
  let m ← CanPayloadBase_Header_setDataLength m t1 a_dataLength
  let t2 ← CanPayloadBase_getHeader_v2 0 m.length this_
  let t3 ← CanPayloadBase_encodeDlc this_ a_dataLength
  let m ← CanPayloadBase_Header_setDlc m t2 t3
  pure m

/-- `ASAM::CMP::CanPayloadBase::setErrorPosition` (line 232) -/
def CanPayloadBase_setErrorPosition (m : Bytes) (pd_ pdsize_ : Nat) (this_ : Nat) (a_position : Nat) : Option Bytes := do
  let t1 ← CanPayloadBase_getHeader_v2 pd_ pdsize_ this_
  let m ← CanPayloadBase_Header_setErrorPosition m t1 a_position
  pure m

/-- `ASAM::CMP::CanPayloadBase::setFlag` (line 182) -/
def CanPayloadBase_setFlag (m : Bytes) (pd_ pdsize_ : Nat) (this_ : Nat) (a_mask : Nat) (a_value : Bool) : Option Bytes := do
  let t1 ← CanPayloadBase_getHeader_v2 pd_ pdsize_ this_
  let m ← CanPayloadBase_Header_setFlag m t1 a_mask a_value
  pure m

/-- `ASAM::CMP::CanPayloadBase::setFlags` (line 172) -/
def CanPayloadBase_setFlags (m : Bytes) (pd_ pdsize_ : Nat) (this_ : Nat) (a_flags : Nat) : Option Bytes := do
  let t1 ← CanPayloadBase_getHeader_v2 pd_ pdsize_ this_
  let m ← CanPayloadBase_Header_setFlags m t1 a_flags
  pure m

/-- `ASAM::CMP::CanPayloadBase::setId` (line 192) -/
def CanPayloadBase_setId (m : Bytes) (pd_ pdsize_ : Nat) (this_ : Nat) (a_id : Nat) : Option Bytes := do
  let t1 ← CanPayloadBase_getHeader_v2 pd_ pdsize_ this_
  let m ← CanPayloadBase_Header_setId m t1 a_id
  pure m

/-- `ASAM::CMP::CanPayloadBase::setIde` (line 212) -/
def CanPayloadBase_setIde (m : Bytes) (pd_ pdsize_ : Nat) (this_ : Nat) (a_ide : Bool) : Option Bytes := do
  let t1 ← CanPayloadBase_getHeader_v2 pd_ pdsize_ this_
  let m ← CanPayloadBase_Header_setIde m t1 a_ide
  pure m

/-- `ASAM::CMP::CanPayloadBase::setRsvd` (line 202) -/
def CanPayloadBase_setRsvd (m : Bytes) (pd_ pdsize_ : Nat) (this_ : Nat) (a_rsvd : Bool) : Option Bytes := do
  let t1 ← CanPayloadBase_getHeader_v2 pd_ pdsize_ this_
  let m ← CanPayloadBase_Header_setRsvd m t1 a_rsvd
  pure m

/-- `ASAM::CMP::CaptureModulePayload::Header::getCurrentUtcOffset` (line 37) -/
def CaptureModulePayload_Header_getCurrentUtcOffset (m : Bytes) (this_ : Nat) : Option Nat := do
  let t1 ← rd m (this_ + 20) 2
  let t2 ← swapEndian_u16 t1
  pure t2

/-- `ASAM::CMP::CaptureModulePayload::Header::getDomainNumber` (line 57) -/
def CaptureModulePayload_Header_getDomainNumber (m : Bytes) (this_ : Nat) : Option Nat := do
  let t1 ← rd m (this_ + 23) 1
  pure t1

/-- `ASAM::CMP::CaptureModulePayload::Header::getGmClockQuality` (line 27) -/
def CaptureModulePayload_Header_getGmClockQuality (m : Bytes) (this_ : Nat) : Option Nat := do
  let t1 ← rd m (this_ + 16) 4
  let t2 ← swapEndian_u32 t1
  pure t2

/-- `ASAM::CMP::swapEndian` (line 45) -/
def swapEndian_u64 (a_value : Nat) : Option Nat := do
  let t1 ← ushr 64 (a_value &&& 18374686479671623680) 56
  let t2 ← ushr 64 (a_value &&& 71776119061217280) 40
  let t3 ← ushr 64 (a_value &&& 280375465082880) 24
  let t4 ← ushr 64 (a_value &&& 1095216660480) 8
  let t5 ← ushl 64 (a_value &&& 4278190080) 8
  let t6 ← ushl 64 (a_value &&& 16711680) 24
  let t7 ← ushl 64 (a_value &&& 65280) 40
  let t8 ← ushl 64 (a_value &&& 255) 56
  pure (((((((t1 ||| t2) ||| t3) ||| t4) ||| t5) ||| t6) ||| t7) ||| t8)

/-- `ASAM::CMP::CaptureModulePayload::Header::getGmIdentity` (line 17) -/
def CaptureModulePayload_Header_getGmIdentity (m : Bytes) (this_ : Nat) : Option Nat := do
  let t1 ← rd m (this_ + 8) 8
  let t2 ← swapEndian_u64 t1
  pure t2

/-- `ASAM::CMP::CaptureModulePayload::Header::getGptpFlags` (line 67) -/
def CaptureModulePayload_Header_getGptpFlags (m : Bytes) (this_ : Nat) : Option Nat := do
  let t1 ← rd m (this_ + 25) 1
  pure t1

/-- `ASAM::CMP::CaptureModulePayload::Header::getTimeSource` (line 47) -/
def CaptureModulePayload_Header_getTimeSource (m : Bytes) (this_ : Nat) : Option Nat := do
  let t1 ← rd m (this_ + 22) 1
  pure t1

/-- `ASAM::CMP::CaptureModulePayload::Header::getUptime` (line 7) -/
def CaptureModulePayload_Header_getUptime (m : Bytes) (this_ : Nat) : Option Nat := do
  let t1 ← rd m this_ 8
  let t2 ← swapEndian_u64 t1
  pure t2

/-- `ASAM::CMP::CaptureModulePayload::Header::setCurrentUtcOffset` (line 42) -/
def CaptureModulePayload_Header_setCurrentUtcOffset (m : Bytes) (this_ : Nat) (a_offset : Nat) : Option Bytes := do
  let t1 ← swapEndian_u16 a_offset
  let m ← wr m (this_ + 20) 2 t1
  pure m

/-- `ASAM::CMP::CaptureModulePayload::Header::setDomainNumber` (line 62) -/
def CaptureModulePayload_Header_setDomainNumber (m : Bytes) (this_ : Nat) (a_number : Nat) : Option Bytes := do
  let m ← wr m (this_ + 23) 1 a_number
  pure m

/-- `ASAM::CMP::CaptureModulePayload::Header::setGmClockQuality` (line 32) -/
def CaptureModulePayload_Header_setGmClockQuality (m : Bytes) (this_ : Nat) (a_quality : Nat) : Option Bytes := do
  let t1 ← swapEndian_u32 a_quality
  let m ← wr m (this_ + 16) 4 t1
  pure m

/-- `ASAM::CMP::CaptureModulePayload::Header::setGmIdentity` (line 22) -/
def CaptureModulePayload_Header_setGmIdentity (m : Bytes) (this_ : Nat) (a_identity : Nat) : Option Bytes := do
  let t1 ← swapEndian_u64 a_identity
  let m ← wr m (this_ + 8) 8 t1
  pure m

/-- `ASAM::CMP::CaptureModulePayload::Header::setGptpFlags` (line 72) -/
def CaptureModulePayload_Header_setGptpFlags (m : Bytes) (this_ : Nat) (a_flags : Nat) : Option Bytes := do
  let m ← wr m (this_ + 25) 1 a_flags
  pure m

/-- `ASAM::CMP::CaptureModulePayload::Header::setTimeSource` (line 52) -/
def CaptureModulePayload_Header_setTimeSource (m : Bytes) (this_ : Nat) (a_source : Nat) : Option Bytes := do
  let m ← wr m (this_ + 22) 1 a_source
  pure m

/-- `ASAM::CMP::CaptureModulePayload::Header::setUptime` (line 12) -/
def CaptureModulePayload_Header_setUptime (m : Bytes) (this_ : Nat) (a_newUptime : Nat) : Option Bytes := do
  let t1 ← swapEndian_u64 a_newUptime
  let m ← wr m this_ 8 t1
  pure m

/-- `ASAM::CMP::CaptureModulePayload::fillWithString` (line 285) -/
def CaptureModulePayload_fillWithString (m : Bytes) (this_ : Nat) (a_ptr : Nat) (x_str : Bytes) : Option (Bytes × Nat) := do
  let t1 ← sadd 32 (x_str.length % 65536) 1
  let v_length := (t1 % 65536)
  let t2 ← smod 32 v_length 2
  if (t2 != 0) then
    let t3 ← sadd 32 v_length 1
    let v_length := (t3 % 65536)
    let t4 ← swapEndian_u16 v_length
    let v_swappedLength := t4
    let m ← wrBytes m a_ptr (leEnc 2 v_swappedLength) 2
    let a_ptr := (a_ptr + 2)
    let m ← wrBytes m a_ptr x_str x_str.length
    let a_ptr := (a_ptr + x_str.length)
    let m ← wrBytes m a_ptr ([0, 0] : Bytes) (usub 64 v_length x_str.length)
    let a_ptr := (a_ptr + (usub 64 v_length x_str.length))
    pure (m, a_ptr)
  else
    let t5 ← swapEndian_u16 v_length
    let v_swappedLength := t5
    let m ← wrBytes m a_ptr (leEnc 2 v_swappedLength) 2
    let a_ptr := (a_ptr + 2)
    let m ← wrBytes m a_ptr x_str x_str.length
    let a_ptr := (a_ptr + x_str.length)
    let m ← wrBytes m a_ptr ([0, 0] : Bytes) (usub 64 v_length x_str.length)
    let a_ptr := (a_ptr + (usub 64 v_length x_str.length))
    pure (m, a_ptr)

/-- `ASAM::CMP::CaptureModulePayload::getHeader` (line 275) -/
def CaptureModulePayload_getHeader_v (pd_ pdsize_ : Nat) (this_ : Nat) : Option Nat := do
  pure pd_

/-- `ASAM::CMP::CaptureModulePayload::getCurrentUtcOffset` (line 117) -/
def CaptureModulePayload_getCurrentUtcOffset (m : Bytes) (pd_ pdsize_ : Nat) (this_ : Nat) : Option Nat := do
  let t1 ← CaptureModulePayload_getHeader_v pd_ pdsize_ this_
  let t2 ← CaptureModulePayload_Header_getCurrentUtcOffset m t1
  pure t2

/-- `ASAM::CMP::CaptureModulePayload::initStringView` (line 302) -/
def CaptureModulePayload_initStringView (m : Bytes) (a_ptr : Nat) (a_str : Nat × Nat) : Option (Nat × (Nat × Nat)) := do
  let t1 ← rd m a_ptr 2
  let t2 ← swapEndian_u16 t1
  let v_length := t2
  let a_ptr := (a_ptr + 2)
  let a_str := (a_ptr, v_length)
  let t3 ← nonneg 32 v_length
  let a_ptr := (a_ptr + t3)
  pure (a_ptr, a_str)

/-- `ASAM::CMP::CaptureModulePayload::removeTrailingNulls` (line 312) -/
def CaptureModulePayload_removeTrailingNulls (m : Bytes) (a_str : Nat × Nat) : Option (Nat × Nat) := do
  let t1 ← svFind m a_str (0 % 256)
  let v_trim_pos := t1
  if (v_trim_pos != 18446744073709551615) then
    let t2 ← svRemoveSuffix a_str (usub 64 a_str.2 v_trim_pos)
    let a_str := t2
    pure a_str
  else
    pure a_str

/-- `ASAM::CMP::CaptureModulePayload::getDeviceDescription` (line 157) -/
def CaptureModulePayload_getDeviceDescription (m : Bytes) (pd_ pdsize_ : Nat) (this_ : Nat) : Option (Nat × Nat) := do
  let v_deviceDescription := ((0, 0) : Nat × Nat)
  let (t1, v_deviceDescription) ← CaptureModulePayload_initStringView m (pd_ + 26) v_deviceDescription
  let t2 ← CaptureModulePayload_removeTrailingNulls m v_deviceDescription
  pure t2

/-- `ASAM::CMP::CaptureModulePayload::getDomainNumber` (line 137) -/
def CaptureModulePayload_getDomainNumber (m : Bytes) (pd_ pdsize_ : Nat) (this_ : Nat) : Option Nat := do
  let t1 ← CaptureModulePayload_getHeader_v pd_ pdsize_ this_
  let t2 ← CaptureModulePayload_Header_getDomainNumber m t1
  pure t2

/-- `ASAM::CMP::CaptureModulePayload::getGmClockQuality` (line 107) -/
def CaptureModulePayload_getGmClockQuality (m : Bytes) (pd_ pdsize_ : Nat) (this_ : Nat) : Option Nat := do
  let t1 ← CaptureModulePayload_getHeader_v pd_ pdsize_ this_
  let t2 ← CaptureModulePayload_Header_getGmClockQuality m t1
  pure t2

/-- `ASAM::CMP::CaptureModulePayload::getGmIdentity` (line 97) -/
def CaptureModulePayload_getGmIdentity (m : Bytes) (pd_ pdsize_ : Nat) (this_ : Nat) : Option Nat := do
  let t1 ← CaptureModulePayload_getHeader_v pd_ pdsize_ this_
  let t2 ← CaptureModulePayload_Header_getGmIdentity m t1
  pure t2

/-- `ASAM::CMP::CaptureModulePayload::getGptpFlags` (line 147) -/
def CaptureModulePayload_getGptpFlags (m : Bytes) (pd_ pdsize_ : Nat) (this_ : Nat) : Option Nat := do
  let t1 ← CaptureModulePayload_getHeader_v pd_ pdsize_ this_
  let t2 ← CaptureModulePayload_Header_getGptpFlags m t1
  pure t2

/-- `ASAM::CMP::CaptureModulePayload::getHardwareVersion` (line 172) -/
def CaptureModulePayload_getHardwareVersion (m : Bytes) (pd_ pdsize_ : Nat) (this_ : Nat) : Option (Nat × Nat) := do
  let v_hardwareVersion := ((0, 0) : Nat × Nat)
  let (t1, v_hardwareVersion) ← CaptureModulePayload_initStringView m (pd_ + 26) v_hardwareVersion
  let v_ptr := t1
  let (t2, v_hardwareVersion) ← CaptureModulePayload_initStringView m v_ptr v_hardwareVersion
  let v_ptr := t2
  let (t3, v_hardwareVersion) ← CaptureModulePayload_initStringView m v_ptr v_hardwareVersion
  let t4 ← CaptureModulePayload_removeTrailingNulls m v_hardwareVersion
  pure t4

/-- `ASAM::CMP::CaptureModulePayload::getHeader` (line 280) -/
def CaptureModulePayload_getHeader_v2 (pd_ pdsize_ : Nat) (this_ : Nat) : Option Nat := do
  pure pd_

/-- `ASAM::CMP::CaptureModulePayload::getSerialNumber` (line 164) -/
def CaptureModulePayload_getSerialNumber (m : Bytes) (pd_ pdsize_ : Nat) (this_ : Nat) : Option (Nat × Nat) := do
  let v_serialNumber := ((0, 0) : Nat × Nat)
  let (t1, v_serialNumber) ← CaptureModulePayload_initStringView m (pd_ + 26) v_serialNumber
  let v_ptr := t1
  let (t2, v_serialNumber) ← CaptureModulePayload_initStringView m v_ptr v_serialNumber
  let t3 ← CaptureModulePayload_removeTrailingNulls m v_serialNumber
  pure t3

/-- `ASAM::CMP::CaptureModulePayload::getSoftwareVersion` (line 181) -/
def CaptureModulePayload_getSoftwareVersion (m : Bytes) (pd_ pdsize_ : Nat) (this_ : Nat) : Option (Nat × Nat) := do
  let v_softwareVersion := ((0, 0) : Nat × Nat)
  let (t1, v_softwareVersion) ← CaptureModulePayload_initStringView m (pd_ + 26) v_softwareVersion
  let v_ptr := t1
  let (t2, v_softwareVersion) ← CaptureModulePayload_initStringView m v_ptr v_softwareVersion
  let v_ptr := t2
  let (t3, v_softwareVersion) ← CaptureModulePayload_initStringView m v_ptr v_softwareVersion
  let v_ptr := t3
  let (t4, v_softwareVersion) ← CaptureModulePayload_initStringView m v_ptr v_softwareVersion
  let t5 ← CaptureModulePayload_removeTrailingNulls m v_softwareVersion
  pure t5

/-- `ASAM::CMP::CaptureModulePayload::getTimeSource` (line 127) -/
def CaptureModulePayload_getTimeSource (m : Bytes) (pd_ pdsize_ : Nat) (this_ : Nat) : Option Nat := do
  let t1 ← CaptureModulePayload_getHeader_v pd_ pdsize_ this_
  let t2 ← CaptureModulePayload_Header_getTimeSource m t1
  pure t2

/-- `ASAM::CMP::CaptureModulePayload::getUptime` (line 87) -/
def CaptureModulePayload_getUptime (m : Bytes) (pd_ pdsize_ : Nat) (this_ : Nat) : Option Nat := do
  let t1 ← CaptureModulePayload_getHeader_v pd_ pdsize_ this_
  let t2 ← CaptureModulePayload_Header_getUptime m t1
  pure t2

/-- `ASAM::CMP::CaptureModulePayload::getVendorData` (line 203) -/
def CaptureModulePayload_getVendorData (m : Bytes) (pd_ pdsize_ : Nat) (this_ : Nat) : Option Nat := do
  let v_vendorData := ((0, 0) : Nat × Nat)
  let (t1, v_vendorData) ← CaptureModulePayload_initStringView m (pd_ + 26) v_vendorData
  let v_ptr := t1
  let (t2, v_vendorData) ← CaptureModulePayload_initStringView m v_ptr v_vendorData
  let v_ptr := t2
  let (t3, v_vendorData) ← CaptureModulePayload_initStringView m v_ptr v_vendorData
  let v_ptr := t3
  let (t4, v_vendorData) ← CaptureModulePayload_initStringView m v_ptr v_vendorData
  let v_ptr := t4
  let (t5, v_vendorData) ← CaptureModulePayload_initStringView m v_ptr v_vendorData
  pure v_vendorData.1

/-- `ASAM::CMP::CaptureModulePayload::getVendorDataLength` (line 191) -/
def CaptureModulePayload_getVendorDataLength (m : Bytes) (pd_ pdsize_ : Nat) (this_ : Nat) : Option Nat := do
  let v_vendorData := ((0, 0) : Nat × Nat)
  let (t1, v_vendorData) ← CaptureModulePayload_initStringView m (pd_ + 26) v_vendorData
  let v_ptr := t1
  let (t2, v_vendorData) ← CaptureModulePayload_initStringView m v_ptr v_vendorData
  let v_ptr := t2
  let (t3, v_vendorData) ← CaptureModulePayload_initStringView m v_ptr v_vendorData
  let v_ptr := t3
  let (t4, v_vendorData) ← CaptureModulePayload_initStringView m v_ptr v_vendorData
  let v_ptr := t4
  let (t5, v_vendorData) ← CaptureModulePayload_initStringView m v_ptr v_vendorData
  pure (v_vendorData.2 % 65536)

/-- `ASAM::CMP::CaptureModulePayload::getVendorDataStringView` (line 215) -/
def CaptureModulePayload_getVendorDataStringView (m : Bytes) (pd_ pdsize_ : Nat) (this_ : Nat) : Option (Nat × Nat) := do
  let v_vendorData := ((0, 0) : Nat × Nat)
  let (t1, v_vendorData) ← CaptureModulePayload_initStringView m (pd_ + 26) v_vendorData
  let v_ptr := t1
  let (t2, v_vendorData) ← CaptureModulePayload_initStringView m v_ptr v_vendorData
  let v_ptr := t2
  let (t3, v_vendorData) ← CaptureModulePayload_initStringView m v_ptr v_vendorData
  let v_ptr := t3
  let (t4, v_vendorData) ← CaptureModulePayload_initStringView m v_ptr v_vendorData
  let v_ptr := t4
  let (t5, v_vendorData) ← CaptureModulePayload_initStringView m v_ptr v_vendorData
  pure v_vendorData

/-- `ASAM::CMP::CaptureModulePayload::isValidPayload` (line 255) -/
def CaptureModulePayload_isValidPayload (m : Bytes) (a_data : Nat) (a_size : Nat) : Option Bool := do
  if (decide (a_size < 26)) then
    pure false
  else
    let v_pos := 26
    let v_i := 0
    if (decide ((usub 64 a_size v_pos) < 2)) then
      pure false
    else
      let t1 ← rd m (a_data + v_pos) 1
      let t2 ← ushl 64 t1 8
      let t3 ← rd m (a_data + (uadd 64 v_pos 1)) 1
      let v_length := (t2 ||| t3)
      let v_pos := (uadd 64 v_pos 2)
      if (decide ((usub 64 a_size v_pos) < v_length)) then
        pure false
      else
        let v_pos := (uadd 64 v_pos v_length)
        let v_i := 1
        if (decide ((usub 64 a_size v_pos) < 2)) then
          pure false
        else
          let t4 ← rd m (a_data + v_pos) 1
          let t5 ← ushl 64 t4 8
          let t6 ← rd m (a_data + (uadd 64 v_pos 1)) 1
          let v_length := (t5 ||| t6)
          let v_pos := (uadd 64 v_pos 2)
          if (decide ((usub 64 a_size v_pos) < v_length)) then
            pure false
          else
            let v_pos := (uadd 64 v_pos v_length)
            let v_i := 2
            if (decide ((usub 64 a_size v_pos) < 2)) then
              pure false
            else
              let t7 ← rd m (a_data + v_pos) 1
              let t8 ← ushl 64 t7 8
              let t9 ← rd m (a_data + (uadd 64 v_pos 1)) 1
              let v_length := (t8 ||| t9)
              let v_pos := (uadd 64 v_pos 2)
              if (decide ((usub 64 a_size v_pos) < v_length)) then
                pure false
              else
                let v_pos := (uadd 64 v_pos v_length)
                let v_i := 3
                if (decide ((usub 64 a_size v_pos) < 2)) then
                  pure false
                else
                  let t10 ← rd m (a_data + v_pos) 1
                  let t11 ← ushl 64 t10 8
                  let t12 ← rd m (a_data + (uadd 64 v_pos 1)) 1
                  let v_length := (t11 ||| t12)
                  let v_pos := (uadd 64 v_pos 2)
                  if (decide ((usub 64 a_size v_pos) < v_length)) then
                    pure false
                  else
                    let v_pos := (uadd 64 v_pos v_length)
                    let v_i := 4
                    if (decide ((usub 64 a_size v_pos) < 2)) then
                      pure false
                    else
                      let t13 ← rd m (a_data + v_pos) 1
                      let t14 ← ushl 64 t13 8
                      let t15 ← rd m (a_data + (uadd 64 v_pos 1)) 1
                      let v_length := (t14 ||| t15)
                      let v_pos := (uadd 64 v_pos 2)
                      if (decide ((usub 64 a_size v_pos) < v_length)) then
                        pure false
                      else
                        let v_pos := (uadd 64 v_pos v_length)
                        pure true

/-- `ASAM::CMP::CaptureModulePayload::setCurrentUtcOffset` (line 122) -/
def CaptureModulePayload_setCurrentUtcOffset (m : Bytes) (pd_ pdsize_ : Nat) (this_ : Nat) (a_offset : Nat) : Option Bytes := do
  let t1 ← CaptureModulePayload_getHeader_v2 pd_ pdsize_ this_
  let m ← CaptureModulePayload_Header_setCurrentUtcOffset m t1 a_offset
  pure m

/-- `ASAM::CMP::CaptureModulePayload::setData` (line 227) -/
def CaptureModulePayload_setData (m : Bytes) (this_ : Nat) (x_deviceDescription : Bytes) (x_serialNumber : Bytes) (x_hardwareVersion : Bytes) (x_softwareVersion : Bytes) (x_vendorData : Bytes) : Option Bytes := do
  let v_maxNullsCount := 8
  let v_payloadSize := (uadd 64 (uadd 64 (uadd 64 (uadd 64 (uadd 64 (uadd 64 36 x_deviceDescription.length) x_serialNumber.length) x_hardwareVersion.length) x_softwareVersion.length) x_vendorData.length) v_maxNullsCount)
  let m := resize m v_payloadSize
  let v_ptr := (0 + 26)
  let (m, t1) ← CaptureModulePayload_fillWithString m this_ v_ptr x_deviceDescription
  let v_ptr := t1
  let (m, t2) ← CaptureModulePayload_fillWithString m this_ v_ptr x_serialNumber
  let v_ptr := t2
  let (m, t3) ← CaptureModulePayload_fillWithString m this_ v_ptr x_hardwareVersion
  let v_ptr := t3
  let (m, t4) ← CaptureModulePayload_fillWithString m this_ v_ptr x_softwareVersion
  let v_ptr := t4
  let v_length := (x_vendorData.length % 65536)
  let t5 ← swapEndian_u16 v_length
  let v_swappedLength := t5
  let m ← wrBytes m v_ptr (leEnc 2 v_swappedLength) 2
  let v_ptr := (v_ptr + 2)
  let m ← wrBytes m v_ptr x_vendorData x_vendorData.length
  let v_ptr := (v_ptr + x_vendorData.length)
  let t6 ← psub v_ptr 0
  let v_newSize := t6
  let m := resize m v_newSize
  pure m

/-- `ASAM::CMP::CaptureModulePayload::setDomainNumber` (line 142) -/
def CaptureModulePayload_setDomainNumber (m : Bytes) (pd_ pdsize_ : Nat) (this_ : Nat) (a_number : Nat) : Option Bytes := do
  let t1 ← CaptureModulePayload_getHeader_v2 pd_ pdsize_ this_
  let m ← CaptureModulePayload_Header_setDomainNumber m t1 a_number
  pure m

/-- `ASAM::CMP::CaptureModulePayload::setGmClockQuality` (line 112) -/
def CaptureModulePayload_setGmClockQuality (m : Bytes) (pd_ pdsize_ : Nat) (this_ : Nat) (a_quality : Nat) : Option Bytes := do
  let t1 ← CaptureModulePayload_getHeader_v2 pd_ pdsize_ this_
  let m ← CaptureModulePayload_Header_setGmClockQuality m t1 a_quality
  pure m

/-- `ASAM::CMP::CaptureModulePayload::setGmIdentity` (line 102) -/
def CaptureModulePayload_setGmIdentity (m : Bytes) (pd_ pdsize_ : Nat) (this_ : Nat) (a_identity : Nat) : Option Bytes := do
  let t1 ← CaptureModulePayload_getHeader_v2 pd_ pdsize_ this_
  let m ← CaptureModulePayload_Header_setGmIdentity m t1 a_identity
  pure m

/-- `ASAM::CMP::CaptureModulePayload::setGptpFlags` (line 152) -/
def CaptureModulePayload_setGptpFlags (m : Bytes) (pd_ pdsize_ : Nat) (this_ : Nat) (a_flags : Nat) : Option Bytes := do
  let t1 ← CaptureModulePayload_getHeader_v2 pd_ pdsize_ this_
  let m ← CaptureModulePayload_Header_setGptpFlags m t1 a_flags
  pure m

/-- `ASAM::CMP::CaptureModulePayload::setTimeSource` (line 132) -/
def CaptureModulePayload_setTimeSource (m : Bytes) (pd_ pdsize_ : Nat) (this_ : Nat) (a_source : Nat) : Option Bytes := do
  let t1 ← CaptureModulePayload_getHeader_v2 pd_ pdsize_ this_
  let m ← CaptureModulePayload_Header_setTimeSource m t1 a_source
  pure m

/-- `ASAM::CMP::CaptureModulePayload::setUptime` (line 92) -/
def CaptureModulePayload_setUptime (m : Bytes) (pd_ pdsize_ : Nat) (this_ : Nat) (a_newUptime : Nat) : Option Bytes := do
  let t1 ← CaptureModulePayload_getHeader_v2 pd_ pdsize_ this_
  let m ← CaptureModulePayload_Header_setUptime m t1 a_newUptime
  pure m

/-- `ASAM::CMP::CmpHeader::getDeviceId` (line 15) -/
def CmpHeader_getDeviceId (m : Bytes) (this_ : Nat) : Option Nat := do
  let t1 ← rd m (this_ + 2) 2
  let t2 ← swapEndian_u16 t1
  pure t2

/-- `ASAM::CMP::CmpHeader::getMessageType` (line 25) -/
def CmpHeader_getMessageType (m : Bytes) (this_ : Nat) : Option Nat := do
  let t1 ← rd m (this_ + 4) 1
  pure t1

/-- `ASAM::CMP::CmpHeader::getSequenceCounter` (line 45) -/
def CmpHeader_getSequenceCounter (m : Bytes) (this_ : Nat) : Option Nat := do
  let t1 ← rd m (this_ + 6) 2
  let t2 ← swapEndian_u16 t1
  pure t2

/-- `ASAM::CMP::CmpHeader::getStreamId` (line 35) -/
def CmpHeader_getStreamId (m : Bytes) (this_ : Nat) : Option Nat := do
  let t1 ← rd m (this_ + 5) 1
  pure t1

/-- `ASAM::CMP::CmpHeader::getVersion` (line 5) -/
def CmpHeader_getVersion (m : Bytes) (this_ : Nat) : Option Nat := do
  let t1 ← rd m this_ 1
  pure t1

/-- `ASAM::CMP::CmpHeader::setDeviceId` (line 20) -/
def CmpHeader_setDeviceId (m : Bytes) (this_ : Nat) (a_id : Nat) : Option Bytes := do
  let t1 ← swapEndian_u16 a_id
  let m ← wr m (this_ + 2) 2 t1
  pure m

/-- `ASAM::CMP::to_underlying` (line 67) -/
def to_underlying_u82 (a_value : Nat) : Option Nat := do
  pure a_value

/-- `ASAM::CMP::CmpHeader::setMessageType` (line 30) -/
def CmpHeader_setMessageType (m : Bytes) (this_ : Nat) (a_type : Nat) : Option Bytes := do
  let t1 ← to_underlying_u82 a_type
  let m ← wr m (this_ + 4) 1 t1
  pure m

/-- `ASAM::CMP::CmpHeader::setSequenceCounter` (line 50) -/
def CmpHeader_setSequenceCounter (m : Bytes) (this_ : Nat) (a_counter : Nat) : Option Bytes := do
  let t1 ← swapEndian_u16 a_counter
  let m ← wr m (this_ + 6) 2 t1
  pure m

/-- `ASAM::CMP::CmpHeader::setStreamId` (line 40) -/
def CmpHeader_setStreamId (m : Bytes) (this_ : Nat) (a_id : Nat) : Option Bytes := do
  let m ← wr m (this_ + 5) 1 a_id
  pure m

/-- `ASAM::CMP::CmpHeader::setVersion` (line 10) -/
def CmpHeader_setVersion (m : Bytes) (this_ : Nat) (a_newVersion : Nat) : Option Bytes := do
  let m ← wr m this_ 1 a_newVersion
  pure m

/-- `ASAM::CMP::MessageHeader::getPayloadLength` (line 77) -/
def MessageHeader_getPayloadLength (m : Bytes) (this_ : Nat) : Option Nat := do
  let t1 ← rd m (this_ + 14) 2
  let t2 ← swapEndian_u16 t1
  pure t2

/-- `ASAM::CMP::to_underlying` (line 67) -/
def to_underlying_u83 (a_value : Nat) : Option Nat := do
  pure a_value

/-- `ASAM::CMP::MessageHeader::getSegmentType` (line 56) -/
def MessageHeader_getSegmentType (m : Bytes) (this_ : Nat) : Option Nat := do
  let t1 ← rd m (this_ + 12) 1
  let t2 ← to_underlying_u83 12
  pure ((t1 &&& t2) % 256)

/-- `ASAM::CMP::Decoder::SegmentedPacket::isValidSegmentType` (line 157) -/
def Decoder_SegmentedPacket_isValidSegmentType (m : Bytes) (this_ : Nat) (a_type : Nat) : Option Bool := do
  let t1 ← rd m (this_ + 24) 1
  let sw2 := t1
  if sw2 == 0 || sw2 == 12 then
    pure ((a_type == 0) || (a_type == 4))
  else if sw2 == 4 || sw2 == 8 then
    pure ((a_type == 8) || (a_type == 12))
  else
    pure false

/-- `ASAM::CMP::Decoder::SegmentedPacket::isAssembled` (line 140) -/
def Decoder_SegmentedPacket_isAssembled (m : Bytes) (this_ : Nat) : Option Bool := do
  let t1 ← rd m (this_ + 24) 1
  pure (t1 == 12)

/-- `ASAM::CMP::Decoder::isFirstSegment` (line 96) -/
def Decoder_isFirstSegment (m : Bytes) (a_data : Nat) (a_anon1 : Nat) : Option Bool := do
  let t2 ← MessageHeader_getSegmentType m a_data
  pure (t2 == 4)

/-- `ASAM::CMP::Decoder::isSegmentedPacket` (line 91) -/
def Decoder_isSegmentedPacket (m : Bytes) (a_data : Nat) (a_anon1 : Nat) : Option Bool := do
  let t2 ← MessageHeader_getSegmentType m a_data
  pure (t2 != 0)

/-- `ASAM::CMP::Encoder::buildSegmentationFlag` (line 163) -/
def Encoder_buildSegmentationFlag (this_ : Nat) (a_isSegmented : Bool) (a_segmentInd : Nat) (a_bytesToAdd : Nat) (a_payloadSize : Nat) (a_currentPayloadPos : Nat) : Option Nat := do
  let v_segmentationFlag := 0
  if a_isSegmented then
    if (a_segmentInd == 0) then
      let v_segmentationFlag := 4
      pure v_segmentationFlag
    else
      let v_segmentationFlag := (if ((uadd 64 a_currentPayloadPos a_bytesToAdd) == a_payloadSize) then 12 else 8)
      pure v_segmentationFlag
  else
    pure v_segmentationFlag

/-- `ASAM::CMP::Encoder::getDeviceId` (line 21) -/
def Encoder_getDeviceId (m : Bytes) (this_ : Nat) : Option Nat := do
  let t1 ← rd m (this_ + 16) 2
  pure t1

/-- `ASAM::CMP::Encoder::getSequenceCounter` (line 45) -/
def Encoder_getSequenceCounter (m : Bytes) (this_ : Nat) : Option Nat := do
  let t1 ← rd m (this_ + 56) 2
  pure t1

/-- `ASAM::CMP::Encoder::getStreamId` (line 26) -/
def Encoder_getStreamId (m : Bytes) (this_ : Nat) : Option Nat := do
  let t1 ← rd m (this_ + 18) 1
  pure t1

/-- `ASAM::CMP::Encoder::restart` (line 98) -/
def Encoder_restart (m : Bytes) (this_ : Nat) : Option Bytes := do
  let m ← wr m (this_ + 56) 2 0
  pure m

/-- `ASAM::CMP::EthernetPayload::Header::getDataLength` (line 28) -/
def EthernetPayload_Header_getDataLength (m : Bytes) (this_ : Nat) : Option Nat := do
  let t1 ← rd m (this_ + 4) 2
  let t2 ← swapEndian_u16 t1
  pure t2

/-- `ASAM::CMP::EthernetPayload::Header::getFlags` (line 5) -/
def EthernetPayload_Header_getFlags (m : Bytes) (this_ : Nat) : Option Nat := do
  let t1 ← rd m this_ 2
  let t2 ← swapEndian_u16 t1
  pure t2

/-- `ASAM::CMP::EthernetPayload::Header::getFlag` (line 15) -/
def EthernetPayload_Header_getFlag (m : Bytes) (this_ : Nat) (a_mask : Nat) : Option Bool := do
  let t1 ← EthernetPayload_Header_getFlags m this_
  pure ((t1 &&& a_mask) != 0)

/-- `ASAM::CMP::EthernetPayload::Header::setDataLength` (line 33) -/
def EthernetPayload_Header_setDataLength (m : Bytes) (this_ : Nat) (a_newDataLength : Nat) : Option Bytes := do
  let t1 ← swapEndian_u16 a_newDataLength
  let m ← wr m (this_ + 4) 2 t1
  pure m

/-- `ASAM::CMP::EthernetPayload::Header::setFlags` (line 10) -/
def EthernetPayload_Header_setFlags (m : Bytes) (this_ : Nat) (a_newFlags : Nat) : Option Bytes := do
  let t1 ← swapEndian_u16 a_newFlags
  let m ← wr m this_ 2 t1
  pure m

/-- `ASAM::CMP::EthernetPayload::Header::setFlag` (line 20) -/
def EthernetPayload_Header_setFlag (m : Bytes) (this_ : Nat) (a_mask : Nat) (a_value : Bool) : Option Bytes := do
  if a_value then
    let t1 ← EthernetPayload_Header_getFlags m this_
    let m ← EthernetPayload_Header_setFlags m this_ ((t1 ||| a_mask) % 65536)
    pure m
  else
    let t2 ← EthernetPayload_Header_getFlags m this_
    let m ← EthernetPayload_Header_setFlags m this_ ((t2 &&& (bnot 32 a_mask)) % 65536)
    pure m

/-- `ASAM::CMP::EthernetPayload::getHeader` (line 90) -/
def EthernetPayload_getHeader_v (pd_ pdsize_ : Nat) (this_ : Nat) : Option Nat := do
  pure pd_

/-- `ASAM::CMP::EthernetPayload::getDataLength` (line 68) -/
def EthernetPayload_getDataLength (m : Bytes) (pd_ pdsize_ : Nat) (this_ : Nat) : Option Nat := do
  let t1 ← EthernetPayload_getHeader_v pd_ pdsize_ this_
  let t2 ← EthernetPayload_Header_getDataLength m t1
  pure t2

/-- `ASAM::CMP::EthernetPayload::getData` (line 73) -/
def EthernetPayload_getData (m : Bytes) (pd_ pdsize_ : Nat) (this_ : Nat) : Option Nat := do
  let t1 ← EthernetPayload_getDataLength m pd_ pdsize_ this_
  pure (if (t1 != 0) then (pd_ + 6) else 0)

/-- `ASAM::CMP::EthernetPayload::getFlag` (line 58) -/
def EthernetPayload_getFlag (m : Bytes) (pd_ pdsize_ : Nat) (this_ : Nat) (a_mask : Nat) : Option Bool := do
  let t1 ← EthernetPayload_getHeader_v pd_ pdsize_ this_
  let t2 ← EthernetPayload_Header_getFlag m t1 a_mask
  pure t2

/-- `ASAM::CMP::EthernetPayload::getFlags` (line 48) -/
def EthernetPayload_getFlags (m : Bytes) (pd_ pdsize_ : Nat) (this_ : Nat) : Option Nat := do
  let t1 ← EthernetPayload_getHeader_v pd_ pdsize_ this_
  let t2 ← EthernetPayload_Header_getFlags m t1
  pure t2

/-- `ASAM::CMP::EthernetPayload::getHeader` (line 95) -/
def EthernetPayload_getHeader_v2 (pd_ pdsize_ : Nat) (this_ : Nat) : Option Nat := do
  pure pd_

/-- `ASAM::CMP::EthernetPayload::isValidPayload` (line 84) -/
def EthernetPayload_isValidPayload (m : Bytes) (a_data : Nat) (a_size : Nat) : Option Bool := do
  let v_header := a_data
  let t2 ← (if (decide (a_size ≥ 6)) then (do let t1 ← EthernetPayload_Header_getFlags m v_header; pure ((t1 &&& 59) == 0)) else pure false)
  let t4 ← (if t2 then (do let t3 ← EthernetPayload_Header_getDataLength m v_header; pure (decide (t3 ≤ (usub 64 a_size 6)))) else pure false)
  pure t4

/-- `ASAM::CMP::Payload::setData` (line 71) -/
def Payload_setData_x_u643 (m : Bytes) (this_ : Nat) (x_data : Bytes) (a_size : Nat) : Option Bytes := do
  let m := resize m (uadd 64 6 a_size)
  let m ← wrBytes m (0 + 6) x_data a_size
  pure m

/-- `ASAM::CMP::EthernetPayload::setData` (line 78) -/
def EthernetPayload_setData (m : Bytes) (this_ : Nat) (x_data : Bytes) (a_dataLength : Nat) : Option Bytes := do
  let m ← Payload_setData_x_u643 m this_ x_data a_dataLength
  let t1 ← EthernetPayload_getHeader_v2 0 m.length this_
  let m ← EthernetPayload_Header_setDataLength m t1 a_dataLength
  pure m

/-- `ASAM::CMP::EthernetPayload::setFlag` (line 63) -/
def EthernetPayload_setFlag (m : Bytes) (pd_ pdsize_ : Nat) (this_ : Nat) (a_mask : Nat) (a_value : Bool) : Option Bytes := do
  let t1 ← EthernetPayload_getHeader_v2 pd_ pdsize_ this_
  let m ← EthernetPayload_Header_setFlag m t1 a_mask a_value
  pure m

/-- `ASAM::CMP::EthernetPayload::setFlags` (line 53) -/
def EthernetPayload_setFlags (m : Bytes) (pd_ pdsize_ : Nat) (this_ : Nat) (a_newFlags : Nat) : Option Bytes := do
  let t1 ← EthernetPayload_getHeader_v2 pd_ pdsize_ this_
  let m ← EthernetPayload_Header_setFlags m t1 a_newFlags
  pure m

/-- `ASAM::CMP::InterfacePayload::Header::getErrorsTotalRx` (line 55) -/
def InterfacePayload_Header_getErrorsTotalRx (m : Bytes) (this_ : Nat) : Option Nat := do
  let t1 ← rd m (this_ + 20) 4
  let t2 ← swapEndian_u32 t1
  pure t2

/-- `ASAM::CMP::InterfacePayload::Header::getErrorsTotalTx` (line 65) -/
def InterfacePayload_Header_getErrorsTotalTx (m : Bytes) (this_ : Nat) : Option Nat := do
  let t1 ← rd m (this_ + 24) 4
  let t2 ← swapEndian_u32 t1
  pure t2

/-- `ASAM::CMP::InterfacePayload::Header::getFeatureSupportBitmask` (line 95) -/
def InterfacePayload_Header_getFeatureSupportBitmask (m : Bytes) (this_ : Nat) : Option Nat := do
  let t1 ← rd m (this_ + 32) 4
  let t2 ← swapEndian_u32 t1
  pure t2

/-- `ASAM::CMP::InterfacePayload::Header::getInterfaceId` (line 5) -/
def InterfacePayload_Header_getInterfaceId (m : Bytes) (this_ : Nat) : Option Nat := do
  let t1 ← rd m this_ 4
  let t2 ← swapEndian_u32 t1
  pure t2

/-- `ASAM::CMP::InterfacePayload::Header::getInterfaceStatus` (line 85) -/
def InterfacePayload_Header_getInterfaceStatus (m : Bytes) (this_ : Nat) : Option Nat := do
  let t1 ← rd m (this_ + 29) 1
  pure t1

/-- `ASAM::CMP::InterfacePayload::Header::getInterfaceType` (line 75) -/
def InterfacePayload_Header_getInterfaceType (m : Bytes) (this_ : Nat) : Option Nat := do
  let t1 ← rd m (this_ + 28) 1
  pure t1

/-- `ASAM::CMP::InterfacePayload::Header::getMsgDroppedRx` (line 35) -/
def InterfacePayload_Header_getMsgDroppedRx (m : Bytes) (this_ : Nat) : Option Nat := do
  let t1 ← rd m (this_ + 12) 4
  let t2 ← swapEndian_u32 t1
  pure t2

/-- `ASAM::CMP::InterfacePayload::Header::getMsgDroppedTx` (line 45) -/
def InterfacePayload_Header_getMsgDroppedTx (m : Bytes) (this_ : Nat) : Option Nat := do
  let t1 ← rd m (this_ + 16) 4
  let t2 ← swapEndian_u32 t1
  pure t2

/-- `ASAM::CMP::InterfacePayload::Header::getMsgTotalRx` (line 15) -/
def InterfacePayload_Header_getMsgTotalRx (m : Bytes) (this_ : Nat) : Option Nat := do
  let t1 ← rd m (this_ + 4) 4
  let t2 ← swapEndian_u32 t1
  pure t2

/-- `ASAM::CMP::InterfacePayload::Header::getMsgTotalTx` (line 25) -/
def InterfacePayload_Header_getMsgTotalTx (m : Bytes) (this_ : Nat) : Option Nat := do
  let t1 ← rd m (this_ + 8) 4
  let t2 ← swapEndian_u32 t1
  pure t2

/-- `ASAM::CMP::InterfacePayload::Header::setErrorsTotalRx` (line 60) -/
def InterfacePayload_Header_setErrorsTotalRx (m : Bytes) (this_ : Nat) (a_errorsTotal : Nat) : Option Bytes := do
  let t1 ← swapEndian_u32 a_errorsTotal
  let m ← wr m (this_ + 20) 4 t1
  pure m

/-- `ASAM::CMP::InterfacePayload::Header::setErrorsTotalTx` (line 70) -/
def InterfacePayload_Header_setErrorsTotalTx (m : Bytes) (this_ : Nat) (a_errorsTotal : Nat) : Option Bytes := do
  let t1 ← swapEndian_u32 a_errorsTotal
  let m ← wr m (this_ + 24) 4 t1
  pure m

/-- `ASAM::CMP::InterfacePayload::Header::setFeatureSupportBitmask` (line 100) -/
def InterfacePayload_Header_setFeatureSupportBitmask (m : Bytes) (this_ : Nat) (a_bitmask : Nat) : Option Bytes := do
  let t1 ← swapEndian_u32 a_bitmask
  let m ← wr m (this_ + 32) 4 t1
  pure m

/-- `ASAM::CMP::InterfacePayload::Header::setInterfaceId` (line 10) -/
def InterfacePayload_Header_setInterfaceId (m : Bytes) (this_ : Nat) (a_id : Nat) : Option Bytes := do
  let t1 ← swapEndian_u32 a_id
  let m ← wr m this_ 4 t1
  pure m

/-- `ASAM::CMP::to_underlying` (line 67) -/
def to_underlying_u84 (a_value : Nat) : Option Nat := do
  pure a_value

/-- `ASAM::CMP::InterfacePayload::Header::setInterfaceStatus` (line 90) -/
def InterfacePayload_Header_setInterfaceStatus (m : Bytes) (this_ : Nat) (a_status : Nat) : Option Bytes := do
  let t1 ← to_underlying_u84 a_status
  let m ← wr m (this_ + 29) 1 t1
  pure m

/-- `ASAM::CMP::InterfacePayload::Header::setInterfaceType` (line 80) -/
def InterfacePayload_Header_setInterfaceType (m : Bytes) (this_ : Nat) (a_ifType : Nat) : Option Bytes := do
  let m ← wr m (this_ + 28) 1 a_ifType
  pure m

/-- `ASAM::CMP::InterfacePayload::Header::setMsgDroppedRx` (line 40) -/
def InterfacePayload_Header_setMsgDroppedRx (m : Bytes) (this_ : Nat) (a_msgDropped : Nat) : Option Bytes := do
  let t1 ← swapEndian_u32 a_msgDropped
  let m ← wr m (this_ + 12) 4 t1
  pure m

/-- `ASAM::CMP::InterfacePayload::Header::setMsgDroppedTx` (line 50) -/
def InterfacePayload_Header_setMsgDroppedTx (m : Bytes) (this_ : Nat) (a_msgDropped : Nat) : Option Bytes := do
  let t1 ← swapEndian_u32 a_msgDropped
  let m ← wr m (this_ + 16) 4 t1
  pure m

/-- `ASAM::CMP::InterfacePayload::Header::setMsgTotalRx` (line 20) -/
def InterfacePayload_Header_setMsgTotalRx (m : Bytes) (this_ : Nat) (a_msgTotal : Nat) : Option Bytes := do
  let t1 ← swapEndian_u32 a_msgTotal
  let m ← wr m (this_ + 4) 4 t1
  pure m

/-- `ASAM::CMP::InterfacePayload::Header::setMsgTotalTx` (line 30) -/
def InterfacePayload_Header_setMsgTotalTx (m : Bytes) (this_ : Nat) (a_msgTotal : Nat) : Option Bytes := do
  let t1 ← swapEndian_u32 a_msgTotal
  let m ← wr m (this_ + 8) 4 t1
  pure m

/-- `ASAM::CMP::InterfacePayload::getHeader` (line 281) -/
def InterfacePayload_getHeader_v (pd_ pdsize_ : Nat) (this_ : Nat) : Option Nat := do
  pure pd_

/-- `ASAM::CMP::InterfacePayload::getErrorsTotalRx` (line 165) -/
def InterfacePayload_getErrorsTotalRx (m : Bytes) (pd_ pdsize_ : Nat) (this_ : Nat) : Option Nat := do
  let t1 ← InterfacePayload_getHeader_v pd_ pdsize_ this_
  let t2 ← InterfacePayload_Header_getErrorsTotalRx m t1
  pure t2

/-- `ASAM::CMP::InterfacePayload::getErrorsTotalTx` (line 175) -/
def InterfacePayload_getErrorsTotalTx (m : Bytes) (pd_ pdsize_ : Nat) (this_ : Nat) : Option Nat := do
  let t1 ← InterfacePayload_getHeader_v pd_ pdsize_ this_
  let t2 ← InterfacePayload_Header_getErrorsTotalTx m t1
  pure t2

/-- `ASAM::CMP::InterfacePayload::getFeatureSupportBitmask` (line 205) -/
def InterfacePayload_getFeatureSupportBitmask (m : Bytes) (pd_ pdsize_ : Nat) (this_ : Nat) : Option Nat := do
  let t1 ← InterfacePayload_getHeader_v pd_ pdsize_ this_
  let t2 ← InterfacePayload_Header_getFeatureSupportBitmask m t1
  pure t2

/-- `ASAM::CMP::InterfacePayload::getHeader` (line 286) -/
def InterfacePayload_getHeader_v2 (pd_ pdsize_ : Nat) (this_ : Nat) : Option Nat := do
  pure pd_

/-- `ASAM::CMP::InterfacePayload::getInterfaceId` (line 115) -/
def InterfacePayload_getInterfaceId (m : Bytes) (pd_ pdsize_ : Nat) (this_ : Nat) : Option Nat := do
  let t1 ← InterfacePayload_getHeader_v pd_ pdsize_ this_
  let t2 ← InterfacePayload_Header_getInterfaceId m t1
  pure t2

/-- `ASAM::CMP::InterfacePayload::getInterfaceStatus` (line 195) -/
def InterfacePayload_getInterfaceStatus (m : Bytes) (pd_ pdsize_ : Nat) (this_ : Nat) : Option Nat := do
  let t1 ← InterfacePayload_getHeader_v pd_ pdsize_ this_
  let t2 ← InterfacePayload_Header_getInterfaceStatus m t1
  pure t2

/-- `ASAM::CMP::InterfacePayload::getInterfaceType` (line 185) -/
def InterfacePayload_getInterfaceType (m : Bytes) (pd_ pdsize_ : Nat) (this_ : Nat) : Option Nat := do
  let t1 ← InterfacePayload_getHeader_v pd_ pdsize_ this_
  let t2 ← InterfacePayload_Header_getInterfaceType m t1
  pure t2

/-- `ASAM::CMP::InterfacePayload::getMsgDroppedRx` (line 145) -/
def InterfacePayload_getMsgDroppedRx (m : Bytes) (pd_ pdsize_ : Nat) (this_ : Nat) : Option Nat := do
  let t1 ← InterfacePayload_getHeader_v pd_ pdsize_ this_
  let t2 ← InterfacePayload_Header_getMsgDroppedRx m t1
  pure t2

/-- `ASAM::CMP::InterfacePayload::getMsgDroppedTx` (line 155) -/
def InterfacePayload_getMsgDroppedTx (m : Bytes) (pd_ pdsize_ : Nat) (this_ : Nat) : Option Nat := do
  let t1 ← InterfacePayload_getHeader_v pd_ pdsize_ this_
  let t2 ← InterfacePayload_Header_getMsgDroppedTx m t1
  pure t2

/-- `ASAM::CMP::InterfacePayload::getMsgTotalRx` (line 125) -/
def InterfacePayload_getMsgTotalRx (m : Bytes) (pd_ pdsize_ : Nat) (this_ : Nat) : Option Nat := do
  let t1 ← InterfacePayload_getHeader_v pd_ pdsize_ this_
  let t2 ← InterfacePayload_Header_getMsgTotalRx m t1
  pure t2

/-- `ASAM::CMP::InterfacePayload::getMsgTotalTx` (line 135) -/
def InterfacePayload_getMsgTotalTx (m : Bytes) (pd_ pdsize_ : Nat) (this_ : Nat) : Option Nat := do
  let t1 ← InterfacePayload_getHeader_v pd_ pdsize_ this_
  let t2 ← InterfacePayload_Header_getMsgTotalTx m t1
  pure t2

/-- `ASAM::CMP::InterfacePayload::getStreamIdCountPtr` (line 291) -/
def InterfacePayload_getStreamIdCountPtr (pd_ pdsize_ : Nat) (this_ : Nat) : Option Nat := do
  pure (pd_ + 36)

/-- `ASAM::CMP::InterfacePayload::toUint16` (line 306) -/
def InterfacePayload_toUint16 (m : Bytes) (this_ : Nat) (a_ptr : Nat) : Option Nat := do
  let t1 ← rd m a_ptr 2
  let t2 ← swapEndian_u16 t1
  pure t2

/-- `ASAM::CMP::InterfacePayload::getStreamIdsCount` (line 215) -/
def InterfacePayload_getStreamIdsCount (m : Bytes) (pd_ pdsize_ : Nat) (this_ : Nat) : Option Nat := do
  let t1 ← InterfacePayload_getStreamIdCountPtr pd_ pdsize_ this_
  let t2 ← InterfacePayload_toUint16 m this_ t1
  pure t2

/-- `ASAM::CMP::InterfacePayload::getStreamIds` (line 220) -/
def InterfacePayload_getStreamIds (m : Bytes) (pd_ pdsize_ : Nat) (this_ : Nat) : Option Nat := do
  let t1 ← InterfacePayload_getStreamIdsCount m pd_ pdsize_ this_
  let t3 ← (if (t1 != 0) then (do let t2 ← InterfacePayload_getStreamIdCountPtr pd_ pdsize_ this_; pure (t2 + 2)) else (do pure 0))
  pure t3

/-- `ASAM::CMP::InterfacePayload::getVendorDataLengthPtr` (line 296) -/
def InterfacePayload_getVendorDataLengthPtr (m : Bytes) (pd_ pdsize_ : Nat) (this_ : Nat) : Option Nat := do
  let t1 ← InterfacePayload_getStreamIdCountPtr pd_ pdsize_ this_
  let v_countPtr := t1
  let t2 ← InterfacePayload_toUint16 m this_ v_countPtr
  let v_count := t2
  let t3 ← umod 64 v_count 2
  if (t3 != 0) then
    let v_count := (uadd 64 v_count 1)
    pure ((v_countPtr + 2) + v_count)
  else
    pure ((v_countPtr + 2) + v_count)

/-- `ASAM::CMP::InterfacePayload::getVendorDataLength` (line 225) -/
def InterfacePayload_getVendorDataLength (m : Bytes) (pd_ pdsize_ : Nat) (this_ : Nat) : Option Nat := do
  let t1 ← InterfacePayload_getVendorDataLengthPtr m pd_ pdsize_ this_
  let t2 ← InterfacePayload_toUint16 m this_ t1
  pure t2

/-- `ASAM::CMP::InterfacePayload::getVendorData` (line 230) -/
def InterfacePayload_getVendorData (m : Bytes) (pd_ pdsize_ : Nat) (this_ : Nat) : Option Nat := do
  let t1 ← InterfacePayload_getVendorDataLength m pd_ pdsize_ this_
  let t3 ← (if (t1 != 0) then (do let t2 ← InterfacePayload_getVendorDataLengthPtr m pd_ pdsize_ this_; pure (t2 + 2)) else (do pure 0))
  pure t3

/-- `ASAM::CMP::InterfacePayload::isValidPayload` (line 263) -/
def InterfacePayload_isValidPayload (m : Bytes) (a_data : Nat) (a_size : Nat) : Option Bool := do
  let v_header := a_data
  let t2 ← (if (decide (a_size < 40)) then pure true else (do let t1 ← InterfacePayload_Header_getInterfaceStatus m v_header; pure (decide (t1 > 2))))
  if t2 then
    pure false
  else
    let v_pos := 36
    let t3 ← rd m (a_data + v_pos) 1
    let t4 ← ushl 64 t3 8
    let t5 ← rd m (a_data + (uadd 64 v_pos 1)) 1
    let v_count := (t4 ||| t5)
    let t6 ← umod 64 v_count 2
    let v_count := (uadd 64 v_count t6)
    let v_pos := (uadd 64 v_pos 2)
    if (decide ((usub 64 a_size v_pos) < (uadd 64 v_count 2))) then
      pure false
    else
      let v_pos := (uadd 64 v_pos v_count)
      let t7 ← rd m (a_data + v_pos) 1
      let t8 ← ushl 64 t7 8
      let t9 ← rd m (a_data + (uadd 64 v_pos 1)) 1
      let v_vendorDataLength := (t8 ||| t9)
      pure (decide (v_vendorDataLength ≤ (usub 64 (usub 64 a_size v_pos) 2)))

/-- `ASAM::CMP::InterfacePayload::setData` (line 235) -/
def InterfacePayload_setData (m : Bytes) (this_ : Nat) (x_streamIds : Bytes) (a_streamIdsCount : Nat) (x_vendorData : Bytes) (a_vendorDataLength : Nat) : Option Bytes := do
  let v_padding := 0
  let t1 ← smod 32 a_streamIdsCount 2
  if (t1 != 0) then
    let v_padding := 1
    let v_payloadSize := (uadd 64 (uadd 64 (uadd 64 (uadd 64 38 a_streamIdsCount) v_padding) 2) a_vendorDataLength)
    let m := resize m v_payloadSize
    let v_ptr := (0 + 36)
    let t2 ← swapEndian_u16 a_streamIdsCount
    let v_swappedLength := t2
    let m ← wrBytes m v_ptr (leEnc 2 v_swappedLength) 2
    let v_ptr := (v_ptr + 2)
    let m ← wrBytes m v_ptr x_streamIds a_streamIdsCount
    let t3 ← nonneg 32 a_streamIdsCount
    let v_ptr := (v_ptr + t3)
    if (v_padding != 0) then
      let m ← wr m v_ptr 1 0
      let v_ptr := (v_ptr + v_padding)
      let t4 ← swapEndian_u16 a_vendorDataLength
      let v_swappedLength := t4
      let m ← wrBytes m v_ptr (leEnc 2 v_swappedLength) 2
      let v_ptr := (v_ptr + 2)
      let m ← wrBytes m v_ptr x_vendorData a_vendorDataLength
      pure m
    else
      let v_ptr := (v_ptr + v_padding)
      let t5 ← swapEndian_u16 a_vendorDataLength
      let v_swappedLength := t5
      let m ← wrBytes m v_ptr (leEnc 2 v_swappedLength) 2
      let v_ptr := (v_ptr + 2)
      let m ← wrBytes m v_ptr x_vendorData a_vendorDataLength
      pure m
  else
    let v_payloadSize := (uadd 64 (uadd 64 (uadd 64 (uadd 64 38 a_streamIdsCount) v_padding) 2) a_vendorDataLength)
    let m := resize m v_payloadSize
    let v_ptr := (0 + 36)
    let t6 ← swapEndian_u16 a_streamIdsCount
    let v_swappedLength := t6
    let m ← wrBytes m v_ptr (leEnc 2 v_swappedLength) 2
    let v_ptr := (v_ptr + 2)
    let m ← wrBytes m v_ptr x_streamIds a_streamIdsCount
    let t7 ← nonneg 32 a_streamIdsCount
    let v_ptr := (v_ptr + t7)
    if (v_padding != 0) then
      let m ← wr m v_ptr 1 0
      let v_ptr := (v_ptr + v_padding)
      let t8 ← swapEndian_u16 a_vendorDataLength
      let v_swappedLength := t8
      let m ← wrBytes m v_ptr (leEnc 2 v_swappedLength) 2
      let v_ptr := (v_ptr + 2)
      let m ← wrBytes m v_ptr x_vendorData a_vendorDataLength
      pure m
    else
      let v_ptr := (v_ptr + v_padding)
      let t9 ← swapEndian_u16 a_vendorDataLength
      let v_swappedLength := t9
      let m ← wrBytes m v_ptr (leEnc 2 v_swappedLength) 2
      let v_ptr := (v_ptr + 2)
      let m ← wrBytes m v_ptr x_vendorData a_vendorDataLength
      pure m

/-- `ASAM::CMP::InterfacePayload::setErrorsTotalRx` (line 170) -/
def InterfacePayload_setErrorsTotalRx (m : Bytes) (pd_ pdsize_ : Nat) (this_ : Nat) (a_errorsTotal : Nat) : Option Bytes := do
  let t1 ← InterfacePayload_getHeader_v2 pd_ pdsize_ this_
  let m ← InterfacePayload_Header_setErrorsTotalRx m t1 a_errorsTotal
  pure m

/-- `ASAM::CMP::InterfacePayload::setErrorsTotalTx` (line 180) -/
def InterfacePayload_setErrorsTotalTx (m : Bytes) (pd_ pdsize_ : Nat) (this_ : Nat) (a_errorsTotal : Nat) : Option Bytes := do
  let t1 ← InterfacePayload_getHeader_v2 pd_ pdsize_ this_
  let m ← InterfacePayload_Header_setErrorsTotalTx m t1 a_errorsTotal
  pure m

/-- `ASAM::CMP::InterfacePayload::setFeatureSupportBitmask` (line 210) -/
def InterfacePayload_setFeatureSupportBitmask (m : Bytes) (pd_ pdsize_ : Nat) (this_ : Nat) (a_bitmask : Nat) : Option Bytes := do
  let t1 ← InterfacePayload_getHeader_v2 pd_ pdsize_ this_
  let m ← InterfacePayload_Header_setFeatureSupportBitmask m t1 a_bitmask
  pure m

/-- `ASAM::CMP::InterfacePayload::setInterfaceId` (line 120) -/
def InterfacePayload_setInterfaceId (m : Bytes) (pd_ pdsize_ : Nat) (this_ : Nat) (a_id : Nat) : Option Bytes := do
  let t1 ← InterfacePayload_getHeader_v2 pd_ pdsize_ this_
  let m ← InterfacePayload_Header_setInterfaceId m t1 a_id
  pure m

/-- `ASAM::CMP::InterfacePayload::setInterfaceStatus` (line 200) -/
def InterfacePayload_setInterfaceStatus (m : Bytes) (pd_ pdsize_ : Nat) (this_ : Nat) (a_status : Nat) : Option Bytes := do
  let t1 ← InterfacePayload_getHeader_v2 pd_ pdsize_ this_
  let m ← InterfacePayload_Header_setInterfaceStatus m t1 a_status
  pure m

/-- `ASAM::CMP::InterfacePayload::setInterfaceType` (line 190) -/
def InterfacePayload_setInterfaceType (m : Bytes) (pd_ pdsize_ : Nat) (this_ : Nat) (a_ifType : Nat) : Option Bytes := do
  let t1 ← InterfacePayload_getHeader_v2 pd_ pdsize_ this_
  let m ← InterfacePayload_Header_setInterfaceType m t1 a_ifType
  pure m

/-- `ASAM::CMP::InterfacePayload::setMsgDroppedRx` (line 150) -/
def InterfacePayload_setMsgDroppedRx (m : Bytes) (pd_ pdsize_ : Nat) (this_ : Nat) (a_msgDropped : Nat) : Option Bytes := do
  let t1 ← InterfacePayload_getHeader_v2 pd_ pdsize_ this_
  let m ← InterfacePayload_Header_setMsgDroppedRx m t1 a_msgDropped
  pure m

/-- `ASAM::CMP::InterfacePayload::setMsgDroppedTx` (line 160) -/
def InterfacePayload_setMsgDroppedTx (m : Bytes) (pd_ pdsize_ : Nat) (this_ : Nat) (a_msgDropped : Nat) : Option Bytes := do
  let t1 ← InterfacePayload_getHeader_v2 pd_ pdsize_ this_
  let m ← InterfacePayload_Header_setMsgDroppedTx m t1 a_msgDropped
  pure m

/-- `ASAM::CMP::InterfacePayload::setMsgTotalRx` (line 130) -/
def InterfacePayload_setMsgTotalRx (m : Bytes) (pd_ pdsize_ : Nat) (this_ : Nat) (a_msgTotal : Nat) : Option Bytes := do
  let t1 ← InterfacePayload_getHeader_v2 pd_ pdsize_ this_
  let m ← InterfacePayload_Header_setMsgTotalRx m t1 a_msgTotal
  pure m

/-- `ASAM::CMP::InterfacePayload::setMsgTotalTx` (line 140) -/
def InterfacePayload_setMsgTotalTx (m : Bytes) (pd_ pdsize_ : Nat) (this_ : Nat) (a_msgTotal : Nat) : Option Bytes := do
  let t1 ← InterfacePayload_getHeader_v2 pd_ pdsize_ this_
  let m ← InterfacePayload_Header_setMsgTotalTx m t1 a_msgTotal
  pure m

/-- `ASAM::CMP::InterfaceStatus::getInterfaceId` (line 22) -/
def InterfaceStatus_getInterfaceId (m : Bytes) (this_ : Nat) : Option Nat := do
  let t1 ← rd m (this_ + 32) 4
  pure t1

/-- `ASAM::CMP::LinPayload::Header::getChecksum` (line 50) -/
def LinPayload_Header_getChecksum (m : Bytes) (this_ : Nat) : Option Nat := do
  let t1 ← rd m (this_ + 6) 1
  pure t1

/-- `ASAM::CMP::LinPayload::Header::getDataLength` (line 60) -/
def LinPayload_Header_getDataLength (m : Bytes) (this_ : Nat) : Option Nat := do
  let t1 ← rd m (this_ + 7) 1
  pure t1

/-- `ASAM::CMP::LinPayload::Header::getFlags` (line 5) -/
def LinPayload_Header_getFlags (m : Bytes) (this_ : Nat) : Option Nat := do
  let t1 ← rd m this_ 2
  let t2 ← swapEndian_u16 t1
  pure t2

/-- `ASAM::CMP::LinPayload::Header::getFlag` (line 15) -/
def LinPayload_Header_getFlag (m : Bytes) (this_ : Nat) (a_mask : Nat) : Option Bool := do
  let t1 ← LinPayload_Header_getFlags m this_
  pure ((t1 &&& a_mask) != 0)

/-- `ASAM::CMP::LinPayload::Header::getLinId` (line 28) -/
def LinPayload_Header_getLinId (m : Bytes) (this_ : Nat) : Option Nat := do
  let t1 ← rd m (this_ + 4) 1
  pure ((t1 &&& 63) % 256)

/-- `ASAM::CMP::LinPayload::Header::getParityBits` (line 39) -/
def LinPayload_Header_getParityBits (m : Bytes) (this_ : Nat) : Option Nat := do
  let t1 ← rd m (this_ + 4) 1
  let t2 ← sshr 32 (t1 &&& 192) 6
  pure (t2 % 256)

/-- `ASAM::CMP::LinPayload::Header::setChecksum` (line 55) -/
def LinPayload_Header_setChecksum (m : Bytes) (this_ : Nat) (a_newChecksum : Nat) : Option Bytes := do
  let m ← wr m (this_ + 6) 1 a_newChecksum
  pure m

/-- `ASAM::CMP::LinPayload::Header::setDataLength` (line 65) -/
def LinPayload_Header_setDataLength (m : Bytes) (this_ : Nat) (a_length : Nat) : Option Bytes := do
  let m ← wr m (this_ + 7) 1 a_length
  pure m

/-- `ASAM::CMP::LinPayload::Header::setFlags` (line 10) -/
def LinPayload_Header_setFlags (m : Bytes) (this_ : Nat) (a_newFlags : Nat) : Option Bytes := do
  let t1 ← swapEndian_u16 a_newFlags
  let m ← wr m this_ 2 t1
  pure m

/-- `ASAM::CMP::LinPayload::Header::setFlag` (line 20) -/
def LinPayload_Header_setFlag (m : Bytes) (this_ : Nat) (a_mask : Nat) (a_value : Bool) : Option Bytes := do
  if a_value then
    let t1 ← LinPayload_Header_getFlags m this_
    let m ← LinPayload_Header_setFlags m this_ ((t1 ||| a_mask) % 65536)
    pure m
  else
    let t2 ← LinPayload_Header_getFlags m this_
    let m ← LinPayload_Header_setFlags m this_ ((t2 &&& (bnot 32 a_mask)) % 65536)
    pure m

/-- `ASAM::CMP::LinPayload::Header::setLinId` (line 33) -/
def LinPayload_Header_setLinId (m : Bytes) (this_ : Nat) (a_id : Nat) : Option Bytes := do
  let t1 ← rd m (this_ + 4) 1
  let m ← wr m (this_ + 4) 1 ((t1 &&& (bnot 32 63)) % 256)
  let t2 ← rd m (this_ + 4) 1
  let m ← wr m (this_ + 4) 1 ((t2 ||| (a_id &&& 63)) % 256)
  pure m

/-- `ASAM::CMP::LinPayload::Header::setParityBits` (line 44) -/
def LinPayload_Header_setParityBits (m : Bytes) (this_ : Nat) (a_parity : Nat) : Option Bytes := do
  let t1 ← rd m (this_ + 4) 1
  let m ← wr m (this_ + 4) 1 ((t1 &&& (bnot 32 192)) % 256)
  let t2 ← sshl 32 a_parity 6
  let t3 ← rd m (this_ + 4) 1
  let m ← wr m (this_ + 4) 1 ((t3 ||| t2) % 256)
  pure m

/-- `ASAM::CMP::LinPayload::getHeader` (line 152) -/
def LinPayload_getHeader_v (pd_ pdsize_ : Nat) (this_ : Nat) : Option Nat := do
  pure pd_

/-- `ASAM::CMP::LinPayload::getChecksum` (line 120) -/
def LinPayload_getChecksum (m : Bytes) (pd_ pdsize_ : Nat) (this_ : Nat) : Option Nat := do
  let t1 ← LinPayload_getHeader_v pd_ pdsize_ this_
  let t2 ← LinPayload_Header_getChecksum m t1
  pure t2

/-- `ASAM::CMP::LinPayload::getDataLength` (line 130) -/
def LinPayload_getDataLength (m : Bytes) (pd_ pdsize_ : Nat) (this_ : Nat) : Option Nat := do
  let t1 ← LinPayload_getHeader_v pd_ pdsize_ this_
  let t2 ← LinPayload_Header_getDataLength m t1
  pure t2

/-- `ASAM::CMP::LinPayload::getData` (line 135) -/
def LinPayload_getData (m : Bytes) (pd_ pdsize_ : Nat) (this_ : Nat) : Option Nat := do
  let t1 ← LinPayload_getDataLength m pd_ pdsize_ this_
  pure (if (t1 != 0) then (pd_ + 8) else 0)

/-- `ASAM::CMP::LinPayload::getFlag` (line 90) -/
def LinPayload_getFlag (m : Bytes) (pd_ pdsize_ : Nat) (this_ : Nat) (a_mask : Nat) : Option Bool := do
  let t1 ← LinPayload_getHeader_v pd_ pdsize_ this_
  let t2 ← LinPayload_Header_getFlag m t1 a_mask
  pure t2

/-- `ASAM::CMP::LinPayload::getFlags` (line 80) -/
def LinPayload_getFlags (m : Bytes) (pd_ pdsize_ : Nat) (this_ : Nat) : Option Nat := do
  let t1 ← LinPayload_getHeader_v pd_ pdsize_ this_
  let t2 ← LinPayload_Header_getFlags m t1
  pure t2

/-- `ASAM::CMP::LinPayload::getHeader` (line 157) -/
def LinPayload_getHeader_v2 (pd_ pdsize_ : Nat) (this_ : Nat) : Option Nat := do
  pure pd_

/-- `ASAM::CMP::LinPayload::getLinId` (line 100) -/
def LinPayload_getLinId (m : Bytes) (pd_ pdsize_ : Nat) (this_ : Nat) : Option Nat := do
  let t1 ← LinPayload_getHeader_v pd_ pdsize_ this_
  let t2 ← LinPayload_Header_getLinId m t1
  pure t2

/-- `ASAM::CMP::LinPayload::getParityBits` (line 110) -/
def LinPayload_getParityBits (m : Bytes) (pd_ pdsize_ : Nat) (this_ : Nat) : Option Nat := do
  let t1 ← LinPayload_getHeader_v pd_ pdsize_ this_
  let t2 ← LinPayload_Header_getParityBits m t1
  pure t2

/-- `ASAM::CMP::LinPayload::isValidPayload` (line 146) -/
def LinPayload_isValidPayload (m : Bytes) (a_data : Nat) (a_size : Nat) : Option Bool := do
  let v_header := a_data
  let t2 ← (if (decide (a_size ≥ 8)) then (do let t1 ← LinPayload_Header_getDataLength m v_header; pure (decide (t1 ≤ (usub 64 a_size 8)))) else pure false)
  pure t2

/-- `ASAM::CMP::LinPayload::setChecksum` (line 125) -/
def LinPayload_setChecksum (m : Bytes) (pd_ pdsize_ : Nat) (this_ : Nat) (a_checksum : Nat) : Option Bytes := do
  let t1 ← LinPayload_getHeader_v2 pd_ pdsize_ this_
  let m ← LinPayload_Header_setChecksum m t1 a_checksum
  pure m

/-- `ASAM::CMP::Payload::setData` (line 71) -/
def Payload_setData_x_u644 (m : Bytes) (this_ : Nat) (x_data : Bytes) (a_size : Nat) : Option Bytes := do
  let m := resize m (uadd 64 8 a_size)
  let m ← wrBytes m (0 + 8) x_data a_size
  pure m

/-- `ASAM::CMP::LinPayload::setData` (line 140) -/
def LinPayload_setData (m : Bytes) (this_ : Nat) (x_data : Bytes) (a_dataLength : Nat) : Option Bytes := do
  let m ← Payload_setData_x_u644 m this_ x_data a_dataLength
  let t1 ← LinPayload_getHeader_v2 0 m.length this_
  let m ← LinPayload_Header_setDataLength m t1 a_dataLength
  pure m

/-- `ASAM::CMP::LinPayload::setFlag` (line 95) -/
def LinPayload_setFlag (m : Bytes) (pd_ pdsize_ : Nat) (this_ : Nat) (a_mask : Nat) (a_value : Bool) : Option Bytes := do
  let t1 ← LinPayload_getHeader_v2 pd_ pdsize_ this_
  let m ← LinPayload_Header_setFlag m t1 a_mask a_value
  pure m

/-- `ASAM::CMP::LinPayload::setFlags` (line 85) -/
def LinPayload_setFlags (m : Bytes) (pd_ pdsize_ : Nat) (this_ : Nat) (a_flags : Nat) : Option Bytes := do
  let t1 ← LinPayload_getHeader_v2 pd_ pdsize_ this_
  let m ← LinPayload_Header_setFlags m t1 a_flags
  pure m

/-- `ASAM::CMP::LinPayload::setLinId` (line 105) -/
def LinPayload_setLinId (m : Bytes) (pd_ pdsize_ : Nat) (this_ : Nat) (a_id : Nat) : Option Bytes := do
  let t1 ← LinPayload_getHeader_v2 pd_ pdsize_ this_
  let m ← LinPayload_Header_setLinId m t1 a_id
  pure m

/-- `ASAM::CMP::LinPayload::setParityBits` (line 115) -/
def LinPayload_setParityBits (m : Bytes) (pd_ pdsize_ : Nat) (this_ : Nat) (a_parity : Nat) : Option Bytes := do
  let t1 ← LinPayload_getHeader_v2 pd_ pdsize_ this_
  let m ← LinPayload_Header_setParityBits m t1 a_parity
  pure m

/-- `ASAM::CMP::MessageHeader::getCommonFlag` (line 46) -/
def MessageHeader_getCommonFlag (m : Bytes) (this_ : Nat) (a_mask : Nat) : Option Bool := do
  let t1 ← rd m (this_ + 12) 1
  pure ((t1 &&& a_mask) != 0)

/-- `ASAM::CMP::MessageHeader::getCommonFlags` (line 36) -/
def MessageHeader_getCommonFlags (m : Bytes) (this_ : Nat) : Option Nat := do
  let t1 ← rd m (this_ + 12) 1
  pure t1

/-- `ASAM::CMP::MessageHeader::getInterfaceId` (line 16) -/
def MessageHeader_getInterfaceId (m : Bytes) (this_ : Nat) : Option Nat := do
  let t1 ← rd m (this_ + 8) 4
  let t2 ← swapEndian_u32 t1
  pure t2

/-- `ASAM::CMP::MessageHeader::getPayloadType` (line 67) -/
def MessageHeader_getPayloadType (m : Bytes) (this_ : Nat) : Option Nat := do
  let t1 ← rd m (this_ + 13) 1
  pure t1

/-- `ASAM::CMP::MessageHeader::getTimestamp` (line 6) -/
def MessageHeader_getTimestamp (m : Bytes) (this_ : Nat) : Option Nat := do
  let t1 ← rd m this_ 8
  let t2 ← swapEndian_u64 t1
  pure t2

/-- `ASAM::CMP::MessageHeader::getVendorId` (line 26) -/
def MessageHeader_getVendorId (m : Bytes) (this_ : Nat) : Option Nat := do
  let t1 ← rd m ((this_ + 8) + 2) 2
  let t2 ← swapEndian_u16 t1
  pure t2

/-- `ASAM::CMP::MessageHeader::setCommonFlag` (line 51) -/
def MessageHeader_setCommonFlag (m : Bytes) (this_ : Nat) (a_mask : Nat) (a_value : Bool) : Option Bytes := do
  let t3 ← (if a_value then (do let t1 ← rd m (this_ + 12) 1; pure (t1 ||| a_mask)) else (do let t2 ← rd m (this_ + 12) 1; pure (t2 &&& (bnot 32 a_mask))))
  let m ← wr m (this_ + 12) 1 (t3 % 256)
  pure m

/-- `ASAM::CMP::MessageHeader::setCommonFlags` (line 41) -/
def MessageHeader_setCommonFlags (m : Bytes) (this_ : Nat) (a_newFlags : Nat) : Option Bytes := do
  let m ← wr m (this_ + 12) 1 a_newFlags
  pure m

/-- `ASAM::CMP::MessageHeader::setInterfaceId` (line 21) -/
def MessageHeader_setInterfaceId (m : Bytes) (this_ : Nat) (a_id : Nat) : Option Bytes := do
  let t1 ← swapEndian_u32 a_id
  let m ← wr m (this_ + 8) 4 t1
  pure m

/-- `ASAM::CMP::MessageHeader::setPayloadLength` (line 82) -/
def MessageHeader_setPayloadLength (m : Bytes) (this_ : Nat) (a_length : Nat) : Option Bytes := do
  let t1 ← swapEndian_u16 a_length
  let m ← wr m (this_ + 14) 2 t1
  pure m

/-- `ASAM::CMP::MessageHeader::setPayloadType` (line 72) -/
def MessageHeader_setPayloadType (m : Bytes) (this_ : Nat) (a_type : Nat) : Option Bytes := do
  let m ← wr m (this_ + 13) 1 a_type
  pure m

/-- `ASAM::CMP::to_underlying` (line 67) -/
def to_underlying_u85 (a_value : Nat) : Option Nat := do
  pure a_value

/-- `ASAM::CMP::MessageHeader::setSegmentType` (line 61) -/
def MessageHeader_setSegmentType (m : Bytes) (this_ : Nat) (a_type : Nat) : Option Bytes := do
  let t1 ← to_underlying_u83 12
  let t2 ← rd m (this_ + 12) 1
  let m ← wr m (this_ + 12) 1 ((t2 &&& (bnot 32 t1)) % 256)
  let t3 ← to_underlying_u85 a_type
  let t4 ← rd m (this_ + 12) 1
  let m ← wr m (this_ + 12) 1 ((t4 ||| t3) % 256)
  pure m

/-- `ASAM::CMP::MessageHeader::setTimestamp` (line 11) -/
def MessageHeader_setTimestamp (m : Bytes) (this_ : Nat) (a_newTimestamp : Nat) : Option Bytes := do
  let t1 ← swapEndian_u64 a_newTimestamp
  let m ← wr m this_ 8 t1
  pure m

/-- `ASAM::CMP::MessageHeader::setVendorId` (line 31) -/
def MessageHeader_setVendorId (m : Bytes) (this_ : Nat) (a_id : Nat) : Option Bytes := do
  let t1 ← swapEndian_u16 a_id
  let m ← wr m ((this_ + 8) + 2) 2 t1
  pure m

/-- `ASAM::CMP::Packet::getCommonFlag` (line 205) -/
def Packet_getCommonFlag (m : Bytes) (this_ : Nat) (a_mask : Nat) : Option Bool := do
  let t1 ← rd m (this_ + 30) 1
  pure ((t1 &&& a_mask) != 0)

/-- `ASAM::CMP::Packet::getCommonFlags` (line 195) -/
def Packet_getCommonFlags (m : Bytes) (this_ : Nat) : Option Nat := do
  let t1 ← rd m (this_ + 30) 1
  pure t1

/-- `ASAM::CMP::Packet::getDeviceId` (line 119) -/
def Packet_getDeviceId (m : Bytes) (this_ : Nat) : Option Nat := do
  let t1 ← rd m (this_ + 10) 2
  pure t1

/-- `ASAM::CMP::Packet::getInterfaceId` (line 175) -/
def Packet_getInterfaceId (m : Bytes) (this_ : Nat) : Option Nat := do
  let t1 ← rd m (this_ + 24) 4
  pure t1

/-- `ASAM::CMP::Packet::getSegmentType` (line 215) -/
def Packet_getSegmentType (m : Bytes) (this_ : Nat) : Option Nat := do
  let t1 ← rd m (this_ + 31) 1
  pure t1

/-- `ASAM::CMP::Packet::getSequenceCounter` (line 144) -/
def Packet_getSequenceCounter (m : Bytes) (this_ : Nat) : Option Nat := do
  let t1 ← rd m (this_ + 14) 2
  pure t1

/-- `ASAM::CMP::Packet::getStreamId` (line 134) -/
def Packet_getStreamId (m : Bytes) (this_ : Nat) : Option Nat := do
  let t1 ← rd m (this_ + 12) 1
  pure t1

/-- `ASAM::CMP::Packet::getTimestamp` (line 165) -/
def Packet_getTimestamp (m : Bytes) (this_ : Nat) : Option Nat := do
  let t1 ← rd m (this_ + 16) 8
  pure t1

/-- `ASAM::CMP::Packet::getVendorId` (line 185) -/
def Packet_getVendorId (m : Bytes) (this_ : Nat) : Option Nat := do
  let t1 ← rd m (this_ + 28) 2
  pure t1

/-- `ASAM::CMP::Packet::getVersion` (line 109) -/
def Packet_getVersion (m : Bytes) (this_ : Nat) : Option Nat := do
  let t1 ← rd m (this_ + 8) 1
  pure t1

/-- `ASAM::CMP::Packet::isValidPacket` (line 276) -/
def Packet_isValidPacket (m : Bytes) (a_data : Nat) (a_size : Nat) : Option Bool := do
  let v_header := a_data
  let t2 ← (if (decide (a_size ≥ 16)) then (do let t1 ← MessageHeader_getPayloadLength m v_header; pure (decide (t1 ≤ (usub 64 a_size 16)))) else pure false)
  let t4 ← (if t2 then (do let t3 ← MessageHeader_getCommonFlag m v_header 64; pure (!t3)) else pure false)
  let t6 ← (if t4 then (do let t5 ← MessageHeader_getPayloadType m v_header; pure (t5 != 0)) else pure false)
  pure t6

/-- `ASAM::CMP::Packet::setCommonFlag` (line 210) -/
def Packet_setCommonFlag (m : Bytes) (this_ : Nat) (a_mask : Nat) (a_value : Bool) : Option Bytes := do
  let t3 ← (if a_value then (do let t1 ← rd m (this_ + 30) 1; pure (t1 ||| a_mask)) else (do let t2 ← rd m (this_ + 30) 1; pure (t2 &&& (bnot 32 a_mask))))
  let m ← wr m (this_ + 30) 1 (t3 % 256)
  pure m

/-- `ASAM::CMP::Packet::setCommonFlags` (line 200) -/
def Packet_setCommonFlags (m : Bytes) (this_ : Nat) (a_flags : Nat) : Option Bytes := do
  let m ← wr m (this_ + 30) 1 a_flags
  pure m

/-- `ASAM::CMP::Packet::setDeviceId` (line 124) -/
def Packet_setDeviceId (m : Bytes) (this_ : Nat) (a_value : Nat) : Option Bytes := do
  let m ← wr m (this_ + 10) 2 a_value
  pure m

/-- `ASAM::CMP::Packet::setInterfaceId` (line 180) -/
def Packet_setInterfaceId (m : Bytes) (this_ : Nat) (a_id : Nat) : Option Bytes := do
  let m ← wr m (this_ + 24) 4 a_id
  pure m

/-- `ASAM::CMP::Packet::setSegmentType` (line 220) -/
def Packet_setSegmentType (m : Bytes) (this_ : Nat) (a_type : Nat) : Option Bytes := do
  let m ← wr m (this_ + 31) 1 a_type
  pure m

/-- `ASAM::CMP::Packet::setSequenceCounter` (line 149) -/
def Packet_setSequenceCounter (m : Bytes) (this_ : Nat) (a_counter : Nat) : Option Bytes := do
  let m ← wr m (this_ + 14) 2 a_counter
  pure m

/-- `ASAM::CMP::Packet::setStreamId` (line 139) -/
def Packet_setStreamId (m : Bytes) (this_ : Nat) (a_value : Nat) : Option Bytes := do
  let m ← wr m (this_ + 12) 1 a_value
  pure m

/-- `ASAM::CMP::Packet::setTimestamp` (line 170) -/
def Packet_setTimestamp (m : Bytes) (this_ : Nat) (a_newTimestamp : Nat) : Option Bytes := do
  let m ← wr m (this_ + 16) 8 a_newTimestamp
  pure m

/-- `ASAM::CMP::Packet::setVendorId` (line 190) -/
def Packet_setVendorId (m : Bytes) (this_ : Nat) (a_id : Nat) : Option Bytes := do
  let m ← wr m (this_ + 28) 2 a_id
  pure m

/-- `ASAM::CMP::Packet::setVersion` (line 114) -/
def Packet_setVersion (m : Bytes) (this_ : Nat) (a_value : Nat) : Option Bytes := do
  let m ← wr m (this_ + 8) 1 a_value
  pure m

/-- `ASAM::CMP::PayloadType::getMessageType` (line 83) -/
def PayloadType_getMessageType (m : Bytes) (this_ : Nat) : Option Nat := do
  let t1 ← rd m this_ 4
  let t2 ← ushr 32 (t1 &&& 65280) 8
  pure (t2 % 256)

/-- `ASAM::CMP::Payload::getMessageType` (line 41) -/
def Payload_getMessageType (m : Bytes) (this_ : Nat) : Option Nat := do
  let t1 ← PayloadType_getMessageType m (this_ + 32)
  pure t1

/-- `ASAM::CMP::Payload::getRawPayload` (line 76) -/
def Payload_getRawPayload (pd_ pdsize_ : Nat) (this_ : Nat) : Option Nat := do
  pure pd_

/-- `ASAM::CMP::PayloadType::getRawPayloadType` (line 94) -/
def PayloadType_getRawPayloadType (m : Bytes) (this_ : Nat) : Option Nat := do
  let t1 ← rd m this_ 4
  pure ((t1 &&& 255) % 256)

/-- `ASAM::CMP::Payload::getRawPayloadType` (line 51) -/
def Payload_getRawPayloadType (m : Bytes) (this_ : Nat) : Option Nat := do
  let t1 ← PayloadType_getRawPayloadType m (this_ + 32)
  pure t1

/-- `ASAM::CMP::PayloadType::isValid` (line 105) -/
def PayloadType_isValid (m : Bytes) (this_ : Nat) : Option Bool := do
  let t1 ← rd m this_ 4
  let t3 ← (if ((t1 &&& 255) != 0) then (do let t2 ← rd m this_ 4; pure ((t2 &&& 65280) != 0)) else pure false)
  pure t3

/-- `ASAM::CMP::Payload::isValid` (line 36) -/
def Payload_isValid (m : Bytes) (this_ : Nat) : Option Bool := do
  let t1 ← PayloadType_isValid m (this_ + 32)
  pure t1

/-- `ASAM::CMP::PayloadType::setMessageType` (line 88) -/
def PayloadType_setMessageType (m : Bytes) (this_ : Nat) (a_newType : Nat) : Option Bytes := do
  let t1 ← rd m this_ 4
  let m ← wr m this_ 4 (t1 &&& (bnot 32 65280))
  let t2 ← to_underlying_u82 a_newType
  let t3 ← sshl 32 t2 8
  let t4 ← rd m this_ 4
  let m ← wr m this_ 4 (t4 ||| t3)
  pure m

/-- `ASAM::CMP::Payload::setMessageType` (line 46) -/
def Payload_setMessageType (m : Bytes) (this_ : Nat) (a_newType : Nat) : Option Bytes := do
  let m ← PayloadType_setMessageType m (this_ + 32) a_newType
  pure m

/-- `ASAM::CMP::PayloadType::setRawPayloadType` (line 99) -/
def PayloadType_setRawPayloadType (m : Bytes) (this_ : Nat) (a_newType : Nat) : Option Bytes := do
  let t1 ← rd m this_ 4
  let m ← wr m this_ 4 (t1 &&& (bnot 32 255))
  let t2 ← rd m this_ 4
  let m ← wr m this_ 4 (t2 ||| a_newType)
  pure m

/-- `ASAM::CMP::Payload::setRawPayloadType` (line 56) -/
def Payload_setRawPayloadType (m : Bytes) (this_ : Nat) (a_newType : Nat) : Option Bytes := do
  let m ← PayloadType_setRawPayloadType m (this_ + 32) a_newType
  pure m

/-- `ASAM::CMP::PayloadType::getType` (line 73) -/
def PayloadType_getType (m : Bytes) (this_ : Nat) : Option Nat := do
  let t1 ← rd m this_ 4
  pure t1

/-- `ASAM::CMP::PayloadType::setType` (line 78) -/
def PayloadType_setType (m : Bytes) (this_ : Nat) (a_newType : Nat) : Option Bytes := do
  let m ← wr m this_ 4 a_newType
  pure m

/-- `ASAM::CMP::swapEndian` (line 30) -/
def swapEndian_u8 (a_value : Nat) : Option Nat := do
  pure a_value

/-- `ASAM::CMP::to_underlying` (line 67) -/
def to_underlying_u162 (a_value : Nat) : Option Nat := do
  pure a_value

/-- `ASAM::CMP::to_underlying` (line 67) -/
def to_underlying_u86 (a_value : Nat) : Option Nat := do
  pure a_value

/-- `TECMP::CanPayload::Header::getArbId` (line 7) -/
def TECMP_CanPayload_Header_getArbId (m : Bytes) (this_ : Nat) : Option Nat := do
  let t1 ← rd m this_ 4
  let t2 ← swapEndian_u32 t1
  pure t2

/-- `TECMP::CanPayload::Header::getDlc` (line 17) -/
def TECMP_CanPayload_Header_getDlc (m : Bytes) (this_ : Nat) : Option Nat := do
  let t1 ← rd m (this_ + 4) 1
  let t2 ← swapEndian_u8 t1
  pure t2

/-- `TECMP::CanPayload::Header::setArbId` (line 12) -/
def TECMP_CanPayload_Header_setArbId (m : Bytes) (this_ : Nat) (a_newArbId : Nat) : Option Bytes := do
  let t1 ← swapEndian_u32 a_newArbId
  let m ← wr m this_ 4 t1
  pure m

/-- `TECMP::CanPayload::Header::setDlc` (line 22) -/
def TECMP_CanPayload_Header_setDlc (m : Bytes) (this_ : Nat) (a_newDlc : Nat) : Option Bytes := do
  let t1 ← swapEndian_u8 a_newDlc
  let m ← wr m (this_ + 4) 1 t1
  pure m

/-- `TECMP::CanPayload::getHeader` (line 65) -/
def TECMP_CanPayload_getHeader_v (pd_ pdsize_ : Nat) (this_ : Nat) : Option Nat := do
  pure pd_

/-- `TECMP::CanPayload::getArbId` (line 27) -/
def TECMP_CanPayload_getArbId (m : Bytes) (pd_ pdsize_ : Nat) (this_ : Nat) : Option Nat := do
  let t1 ← TECMP_CanPayload_getHeader_v pd_ pdsize_ this_
  let t2 ← TECMP_CanPayload_Header_getArbId m t1
  pure t2

/-- `TECMP::CanPayload::getData` (line 57) -/
def TECMP_CanPayload_getData (pd_ pdsize_ : Nat) (this_ : Nat) : Option Nat := do
  if (decide (pdsize_ > 5)) then
    pure (pd_ + 5)
  else
    pure 0

/-- `TECMP::CanPayload::getDlc` (line 37) -/
def TECMP_CanPayload_getDlc (m : Bytes) (pd_ pdsize_ : Nat) (this_ : Nat) : Option Nat := do
  let t1 ← TECMP_CanPayload_getHeader_v pd_ pdsize_ this_
  let t2 ← TECMP_CanPayload_Header_getDlc m t1
  pure t2

/-- `TECMP::CanPayload::getHeader` (line 70) -/
def TECMP_CanPayload_getHeader_v2 (pd_ pdsize_ : Nat) (this_ : Nat) : Option Nat := do
  pure pd_

/-- `TECMP::CanPayload::setArbId` (line 32) -/
def TECMP_CanPayload_setArbId (m : Bytes) (pd_ pdsize_ : Nat) (this_ : Nat) (a_newArbId : Nat) : Option Bytes := do
  let t1 ← TECMP_CanPayload_getHeader_v2 pd_ pdsize_ this_
  let m ← TECMP_CanPayload_Header_setArbId m t1 a_newArbId
  pure m

/-- `TECMP::CanPayload::setDlc` (line 42) -/
def TECMP_CanPayload_setDlc (m : Bytes) (pd_ pdsize_ : Nat) (this_ : Nat) (a_newDlc : Nat) : Option Bytes := do
  let t1 ← TECMP_CanPayload_getHeader_v2 pd_ pdsize_ this_
  let m ← TECMP_CanPayload_Header_setDlc m t1 a_newDlc
  pure m

/-- `TECMP::CaptureModulePayload::Header::getBufferFill` (line 335) -/
def TECMP_CaptureModulePayload_Header_getBufferFill (m : Bytes) (this_ : Nat) : Option Nat := do
  let t1 ← rd m ((this_ + 12) + 6) 1
  let t2 ← swapEndian_u8 t1
  pure t2

/-- `TECMP::CaptureModulePayload::Header::getBufferSize` (line 351) -/
def TECMP_CaptureModulePayload_Header_getBufferSize (m : Bytes) (this_ : Nat) : Option Nat := do
  let t1 ← rd m ((this_ + 12) + 8) 4
  let t2 ← swapEndian_u32 t1
  pure t2

/-- `TECMP::CaptureModulePayload::Header::getChassisTemp` (line 367) -/
def TECMP_CaptureModulePayload_Header_getChassisTemp (m : Bytes) (this_ : Nat) : Option Nat := do
  let t1 ← rd m ((this_ + 12) + 22) 1
  let t2 ← swapEndian_u8 t1
  pure t2

/-- `TECMP::CaptureModulePayload::Header::getDeviceId` (line 263) -/
def TECMP_CaptureModulePayload_Header_getDeviceId (m : Bytes) (this_ : Nat) : Option Nat := do
  let t1 ← rd m (this_ + 6) 2
  let t2 ← swapEndian_u16 t1
  pure t2

/-- `TECMP::CaptureModulePayload::Header::getDeviceType` (line 247) -/
def TECMP_CaptureModulePayload_Header_getDeviceType (m : Bytes) (this_ : Nat) : Option Nat := do
  let t1 ← rd m (this_ + 2) 1
  let t2 ← swapEndian_u8 t1
  pure t2

/-- `TECMP::CaptureModulePayload::Header::getDeviceVersion` (line 239) -/
def TECMP_CaptureModulePayload_Header_getDeviceVersion (m : Bytes) (this_ : Nat) : Option Nat := do
  let t1 ← rd m (this_ + 1) 1
  let t2 ← swapEndian_u8 t1
  pure t2

/-- `TECMP::CaptureModulePayload::Header::getHwVersionMajor` (line 303) -/
def TECMP_CaptureModulePayload_Header_getHwVersionMajor (m : Bytes) (this_ : Nat) : Option Nat := do
  let t1 ← rd m ((this_ + 12) + 4) 1
  let t2 ← swapEndian_u8 t1
  pure t2

/-- `TECMP::CaptureModulePayload::Header::getHwVersionMinor` (line 311) -/
def TECMP_CaptureModulePayload_Header_getHwVersionMinor (m : Bytes) (this_ : Nat) : Option Nat := do
  let t1 ← rd m (((this_ + 12) + 4) + 1) 1
  let t2 ← swapEndian_u8 t1
  pure t2

/-- `TECMP::CaptureModulePayload::Header::getIsBufferOverflow` (line 343) -/
def TECMP_CaptureModulePayload_Header_getIsBufferOverflow (m : Bytes) (this_ : Nat) : Option Nat := do
  let t1 ← rd m ((this_ + 12) + 7) 1
  let t2 ← swapEndian_u8 t1
  pure t2

/-- `TECMP::CaptureModulePayload::Header::getLifecycle` (line 359) -/
def TECMP_CaptureModulePayload_Header_getLifecycle (m : Bytes) (this_ : Nat) : Option Nat := do
  let t1 ← rd m ((this_ + 12) + 12) 8
  let t2 ← swapEndian_u64 t1
  pure t2

/-- `TECMP::CaptureModulePayload::Header::getSerialNumber` (line 271) -/
def TECMP_CaptureModulePayload_Header_getSerialNumber (m : Bytes) (this_ : Nat) : Option Nat := do
  let t1 ← rd m (this_ + 8) 4
  let t2 ← swapEndian_u32 t1
  pure t2

/-- `TECMP::CaptureModulePayload::Header::getSilliconTemp` (line 375) -/
def TECMP_CaptureModulePayload_Header_getSilliconTemp (m : Bytes) (this_ : Nat) : Option Nat := do
  let t1 ← rd m ((this_ + 12) + 23) 1
  let t2 ← swapEndian_u8 t1
  pure t2

/-- `TECMP::CaptureModulePayload::Header::getSwVersionMajor` (line 279) -/
def TECMP_CaptureModulePayload_Header_getSwVersionMajor (m : Bytes) (this_ : Nat) : Option Nat := do
  let t1 ← rd m ((this_ + 12) + 1) 1
  let t2 ← swapEndian_u8 t1
  pure t2

/-- `TECMP::CaptureModulePayload::Header::getSwVersionMinor` (line 287) -/
def TECMP_CaptureModulePayload_Header_getSwVersionMinor (m : Bytes) (this_ : Nat) : Option Nat := do
  let t1 ← rd m (((this_ + 12) + 1) + 1) 1
  let t2 ← swapEndian_u8 t1
  pure t2

/-- `TECMP::CaptureModulePayload::Header::getSwVersionPatch` (line 295) -/
def TECMP_CaptureModulePayload_Header_getSwVersionPatch (m : Bytes) (this_ : Nat) : Option Nat := do
  let t1 ← rd m (((this_ + 12) + 1) + 2) 1
  let t2 ← swapEndian_u8 t1
  pure t2

/-- `TECMP::CaptureModulePayload::Header::getVendorDataLength` (line 255) -/
def TECMP_CaptureModulePayload_Header_getVendorDataLength (m : Bytes) (this_ : Nat) : Option Nat := do
  let t1 ← rd m (this_ + 4) 2
  let t2 ← swapEndian_u16 t1
  pure t2

/-- `TECMP::CaptureModulePayload::Header::getVendorId` (line 231) -/
def TECMP_CaptureModulePayload_Header_getVendorId (m : Bytes) (this_ : Nat) : Option Nat := do
  let t1 ← rd m this_ 1
  let t2 ← swapEndian_u8 t1
  pure t2

/-- `TECMP::CaptureModulePayload::Header::getVoltageFraction` (line 327) -/
def TECMP_CaptureModulePayload_Header_getVoltageFraction (m : Bytes) (this_ : Nat) : Option Nat := do
  let t1 ← rd m (((this_ + 12) + 20) + 1) 1
  let t2 ← swapEndian_u8 t1
  pure t2

/-- `TECMP::CaptureModulePayload::Header::getVoltageWhole` (line 319) -/
def TECMP_CaptureModulePayload_Header_getVoltageWhole (m : Bytes) (this_ : Nat) : Option Nat := do
  let t1 ← rd m ((this_ + 12) + 20) 1
  let t2 ← swapEndian_u8 t1
  pure t2

/-- `TECMP::CaptureModulePayload::Header::setBufferFill` (line 339) -/
def TECMP_CaptureModulePayload_Header_setBufferFill (m : Bytes) (this_ : Nat) (a_val : Nat) : Option Bytes := do
  let t1 ← swapEndian_u8 a_val
  let m ← wr m ((this_ + 12) + 6) 1 t1
  pure m

/-- `TECMP::CaptureModulePayload::Header::setBufferSize` (line 355) -/
def TECMP_CaptureModulePayload_Header_setBufferSize (m : Bytes) (this_ : Nat) (a_val : Nat) : Option Bytes := do
  let t1 ← swapEndian_u32 a_val
  let m ← wr m ((this_ + 12) + 8) 4 t1
  pure m

/-- `TECMP::CaptureModulePayload::Header::setChassisTemp` (line 371) -/
def TECMP_CaptureModulePayload_Header_setChassisTemp (m : Bytes) (this_ : Nat) (a_val : Nat) : Option Bytes := do
  let t1 ← swapEndian_u8 a_val
  let m ← wr m ((this_ + 12) + 22) 1 t1
  pure m

/-- `TECMP::CaptureModulePayload::Header::setDeviceId` (line 267) -/
def TECMP_CaptureModulePayload_Header_setDeviceId (m : Bytes) (this_ : Nat) (a_newDeviceId : Nat) : Option Bytes := do
  let t1 ← swapEndian_u16 a_newDeviceId
  let m ← wr m (this_ + 6) 2 t1
  pure m

/-- `TECMP::CaptureModulePayload::Header::setDeviceType` (line 251) -/
def TECMP_CaptureModulePayload_Header_setDeviceType (m : Bytes) (this_ : Nat) (a_newDeviceType : Nat) : Option Bytes := do
  let t1 ← swapEndian_u8 a_newDeviceType
  let m ← wr m (this_ + 2) 1 t1
  pure m

/-- `TECMP::CaptureModulePayload::Header::setDeviceVersion` (line 243) -/
def TECMP_CaptureModulePayload_Header_setDeviceVersion (m : Bytes) (this_ : Nat) (a_newDeviceVersion : Nat) : Option Bytes := do
  let t1 ← swapEndian_u8 a_newDeviceVersion
  let m ← wr m (this_ + 1) 1 t1
  pure m

/-- `TECMP::CaptureModulePayload::Header::setHwVersionMajor` (line 307) -/
def TECMP_CaptureModulePayload_Header_setHwVersionMajor (m : Bytes) (this_ : Nat) (a_newValue : Nat) : Option Bytes := do
  let t1 ← swapEndian_u8 a_newValue
  let m ← wr m ((this_ + 12) + 4) 1 t1
  pure m

/-- `TECMP::CaptureModulePayload::Header::setHwVersionMinor` (line 315) -/
def TECMP_CaptureModulePayload_Header_setHwVersionMinor (m : Bytes) (this_ : Nat) (a_newValue : Nat) : Option Bytes := do
  let t1 ← swapEndian_u8 a_newValue
  let m ← wr m (((this_ + 12) + 4) + 1) 1 t1
  pure m

/-- `TECMP::CaptureModulePayload::Header::setIsBufferOverflow` (line 347) -/
def TECMP_CaptureModulePayload_Header_setIsBufferOverflow (m : Bytes) (this_ : Nat) (a_val : Nat) : Option Bytes := do
  let t1 ← swapEndian_u8 a_val
  let m ← wr m ((this_ + 12) + 7) 1 t1
  pure m

/-- `TECMP::CaptureModulePayload::Header::setLifecycle` (line 363) -/
def TECMP_CaptureModulePayload_Header_setLifecycle (m : Bytes) (this_ : Nat) (a_val : Nat) : Option Bytes := do
  let t1 ← swapEndian_u64 a_val
  let m ← wr m ((this_ + 12) + 12) 8 t1
  pure m

/-- `TECMP::CaptureModulePayload::Header::setSerialNumber` (line 275) -/
def TECMP_CaptureModulePayload_Header_setSerialNumber (m : Bytes) (this_ : Nat) (a_newSerialNumber : Nat) : Option Bytes := do
  let t1 ← swapEndian_u32 a_newSerialNumber
  let m ← wr m (this_ + 8) 4 t1
  pure m

/-- `TECMP::CaptureModulePayload::Header::setSilliconTemp` (line 379) -/
def TECMP_CaptureModulePayload_Header_setSilliconTemp (m : Bytes) (this_ : Nat) (a_val : Nat) : Option Bytes := do
  let t1 ← swapEndian_u8 a_val
  let m ← wr m ((this_ + 12) + 23) 1 t1
  pure m

/-- `TECMP::CaptureModulePayload::Header::setSwVersionMajor` (line 283) -/
def TECMP_CaptureModulePayload_Header_setSwVersionMajor (m : Bytes) (this_ : Nat) (a_newValue : Nat) : Option Bytes := do
  let t1 ← swapEndian_u8 a_newValue
  let m ← wr m ((this_ + 12) + 1) 1 t1
  pure m

/-- `TECMP::CaptureModulePayload::Header::setSwVersionMinor` (line 291) -/
def TECMP_CaptureModulePayload_Header_setSwVersionMinor (m : Bytes) (this_ : Nat) (a_newValue : Nat) : Option Bytes := do
  let t1 ← swapEndian_u8 a_newValue
  let m ← wr m (((this_ + 12) + 1) + 1) 1 t1
  pure m

/-- `TECMP::CaptureModulePayload::Header::setSwVersionPatch` (line 299) -/
def TECMP_CaptureModulePayload_Header_setSwVersionPatch (m : Bytes) (this_ : Nat) (a_newValue : Nat) : Option Bytes := do
  let t1 ← swapEndian_u8 a_newValue
  let m ← wr m (((this_ + 12) + 1) + 2) 1 t1
  pure m

/-- `TECMP::CaptureModulePayload::Header::setVendorDataLength` (line 259) -/
def TECMP_CaptureModulePayload_Header_setVendorDataLength (m : Bytes) (this_ : Nat) (a_newVendorDataLength : Nat) : Option Bytes := do
  let t1 ← swapEndian_u16 a_newVendorDataLength
  let m ← wr m (this_ + 4) 2 t1
  pure m

/-- `TECMP::CaptureModulePayload::Header::setVendorId` (line 235) -/
def TECMP_CaptureModulePayload_Header_setVendorId (m : Bytes) (this_ : Nat) (a_newId : Nat) : Option Bytes := do
  let t1 ← swapEndian_u8 a_newId
  let m ← wr m this_ 1 t1
  pure m

/-- `TECMP::CaptureModulePayload::Header::setVoltageFraction` (line 331) -/
def TECMP_CaptureModulePayload_Header_setVoltageFraction (m : Bytes) (this_ : Nat) (a_newValue : Nat) : Option Bytes := do
  let t1 ← swapEndian_u8 a_newValue
  let m ← wr m (((this_ + 12) + 20) + 1) 1 t1
  pure m

/-- `TECMP::CaptureModulePayload::Header::setVoltageWhole` (line 323) -/
def TECMP_CaptureModulePayload_Header_setVoltageWhole (m : Bytes) (this_ : Nat) (a_newValue : Nat) : Option Bytes := do
  let t1 ← swapEndian_u8 a_newValue
  let m ← wr m ((this_ + 12) + 20) 1 t1
  pure m

/-- `TECMP::CaptureModulePayload::getHeader` (line 215) -/
def TECMP_CaptureModulePayload_getHeader_v (pd_ pdsize_ : Nat) (this_ : Nat) : Option Nat := do
  pure pd_

/-- `TECMP::CaptureModulePayload::getBufferFill` (line 136) -/
def TECMP_CaptureModulePayload_getBufferFill (m : Bytes) (pd_ pdsize_ : Nat) (this_ : Nat) : Option Nat := do
  let t1 ← TECMP_CaptureModulePayload_getHeader_v pd_ pdsize_ this_
  let t2 ← TECMP_CaptureModulePayload_Header_getBufferFill m t1
  pure t2

/-- `TECMP::CaptureModulePayload::getBufferSize` (line 156) -/
def TECMP_CaptureModulePayload_getBufferSize (m : Bytes) (pd_ pdsize_ : Nat) (this_ : Nat) : Option Nat := do
  let t1 ← TECMP_CaptureModulePayload_getHeader_v pd_ pdsize_ this_
  let t2 ← TECMP_CaptureModulePayload_Header_getBufferSize m t1
  pure t2

/-- `TECMP::CaptureModulePayload::getChassisTemp` (line 176) -/
def TECMP_CaptureModulePayload_getChassisTemp (m : Bytes) (pd_ pdsize_ : Nat) (this_ : Nat) : Option Nat := do
  let t1 ← TECMP_CaptureModulePayload_getHeader_v pd_ pdsize_ this_
  let t2 ← TECMP_CaptureModulePayload_Header_getChassisTemp m t1
  pure t2

/-- `TECMP::CaptureModulePayload::getDeviceId` (line 46) -/
def TECMP_CaptureModulePayload_getDeviceId (m : Bytes) (pd_ pdsize_ : Nat) (this_ : Nat) : Option Nat := do
  let t1 ← TECMP_CaptureModulePayload_getHeader_v pd_ pdsize_ this_
  let t2 ← TECMP_CaptureModulePayload_Header_getDeviceId m t1
  pure t2

/-- `TECMP::CaptureModulePayload::getDeviceType` (line 26) -/
def TECMP_CaptureModulePayload_getDeviceType (m : Bytes) (pd_ pdsize_ : Nat) (this_ : Nat) : Option Nat := do
  let t1 ← TECMP_CaptureModulePayload_getHeader_v pd_ pdsize_ this_
  let t2 ← TECMP_CaptureModulePayload_Header_getDeviceType m t1
  pure t2

/-- `TECMP::CaptureModulePayload::getDeviceVersion` (line 16) -/
def TECMP_CaptureModulePayload_getDeviceVersion (m : Bytes) (pd_ pdsize_ : Nat) (this_ : Nat) : Option Nat := do
  let t1 ← TECMP_CaptureModulePayload_getHeader_v pd_ pdsize_ this_
  let t2 ← TECMP_CaptureModulePayload_Header_getDeviceVersion m t1
  pure t2

/-- `TECMP::CaptureModulePayload::getHeader` (line 219) -/
def TECMP_CaptureModulePayload_getHeader_v2 (pd_ pdsize_ : Nat) (this_ : Nat) : Option Nat := do
  pure pd_

/-- `TECMP::CaptureModulePayload::getHwVersionMajor` (line 96) -/
def TECMP_CaptureModulePayload_getHwVersionMajor (m : Bytes) (pd_ pdsize_ : Nat) (this_ : Nat) : Option Nat := do
  let t1 ← TECMP_CaptureModulePayload_getHeader_v pd_ pdsize_ this_
  let t2 ← TECMP_CaptureModulePayload_Header_getHwVersionMajor m t1
  pure t2

/-- `TECMP::CaptureModulePayload::getHwVersionMinor` (line 106) -/
def TECMP_CaptureModulePayload_getHwVersionMinor (m : Bytes) (pd_ pdsize_ : Nat) (this_ : Nat) : Option Nat := do
  let t1 ← TECMP_CaptureModulePayload_getHeader_v pd_ pdsize_ this_
  let t2 ← TECMP_CaptureModulePayload_Header_getHwVersionMinor m t1
  pure t2

/-- `TECMP::CaptureModulePayload::getIsBufferOverflow` (line 146) -/
def TECMP_CaptureModulePayload_getIsBufferOverflow (m : Bytes) (pd_ pdsize_ : Nat) (this_ : Nat) : Option Nat := do
  let t1 ← TECMP_CaptureModulePayload_getHeader_v pd_ pdsize_ this_
  let t2 ← TECMP_CaptureModulePayload_Header_getIsBufferOverflow m t1
  pure t2

/-- `TECMP::CaptureModulePayload::getLifecycle` (line 166) -/
def TECMP_CaptureModulePayload_getLifecycle (m : Bytes) (pd_ pdsize_ : Nat) (this_ : Nat) : Option Nat := do
  let t1 ← TECMP_CaptureModulePayload_getHeader_v pd_ pdsize_ this_
  let t2 ← TECMP_CaptureModulePayload_Header_getLifecycle m t1
  pure t2

/-- `TECMP::CaptureModulePayload::getSerialNumber` (line 56) -/
def TECMP_CaptureModulePayload_getSerialNumber (m : Bytes) (pd_ pdsize_ : Nat) (this_ : Nat) : Option Nat := do
  let t1 ← TECMP_CaptureModulePayload_getHeader_v pd_ pdsize_ this_
  let t2 ← TECMP_CaptureModulePayload_Header_getSerialNumber m t1
  pure t2

/-- `TECMP::CaptureModulePayload::getSilliconTemp` (line 186) -/
def TECMP_CaptureModulePayload_getSilliconTemp (m : Bytes) (pd_ pdsize_ : Nat) (this_ : Nat) : Option Nat := do
  let t1 ← TECMP_CaptureModulePayload_getHeader_v pd_ pdsize_ this_
  let t2 ← TECMP_CaptureModulePayload_Header_getSilliconTemp m t1
  pure t2

/-- `TECMP::CaptureModulePayload::getSwVersionMajor` (line 66) -/
def TECMP_CaptureModulePayload_getSwVersionMajor (m : Bytes) (pd_ pdsize_ : Nat) (this_ : Nat) : Option Nat := do
  let t1 ← TECMP_CaptureModulePayload_getHeader_v pd_ pdsize_ this_
  let t2 ← TECMP_CaptureModulePayload_Header_getSwVersionMajor m t1
  pure t2

/-- `TECMP::CaptureModulePayload::getSwVersionMinor` (line 76) -/
def TECMP_CaptureModulePayload_getSwVersionMinor (m : Bytes) (pd_ pdsize_ : Nat) (this_ : Nat) : Option Nat := do
  let t1 ← TECMP_CaptureModulePayload_getHeader_v pd_ pdsize_ this_
  let t2 ← TECMP_CaptureModulePayload_Header_getSwVersionMinor m t1
  pure t2

/-- `TECMP::CaptureModulePayload::getSwVersionPatch` (line 86) -/
def TECMP_CaptureModulePayload_getSwVersionPatch (m : Bytes) (pd_ pdsize_ : Nat) (this_ : Nat) : Option Nat := do
  let t1 ← TECMP_CaptureModulePayload_getHeader_v pd_ pdsize_ this_
  let t2 ← TECMP_CaptureModulePayload_Header_getSwVersionPatch m t1
  pure t2

/-- `TECMP::CaptureModulePayload::getVendorDataLength` (line 36) -/
def TECMP_CaptureModulePayload_getVendorDataLength (m : Bytes) (pd_ pdsize_ : Nat) (this_ : Nat) : Option Nat := do
  let t1 ← TECMP_CaptureModulePayload_getHeader_v pd_ pdsize_ this_
  let t2 ← TECMP_CaptureModulePayload_Header_getVendorDataLength m t1
  pure t2

/-- `TECMP::CaptureModulePayload::getVendorId` (line 6) -/
def TECMP_CaptureModulePayload_getVendorId (m : Bytes) (pd_ pdsize_ : Nat) (this_ : Nat) : Option Nat := do
  let t1 ← TECMP_CaptureModulePayload_getHeader_v pd_ pdsize_ this_
  let t2 ← TECMP_CaptureModulePayload_Header_getVendorId m t1
  pure t2

/-- `TECMP::CaptureModulePayload::getVoltageFraction` (line 126) -/
def TECMP_CaptureModulePayload_getVoltageFraction (m : Bytes) (pd_ pdsize_ : Nat) (this_ : Nat) : Option Nat := do
  let t1 ← TECMP_CaptureModulePayload_getHeader_v pd_ pdsize_ this_
  let t2 ← TECMP_CaptureModulePayload_Header_getVoltageFraction m t1
  pure t2

/-- `TECMP::CaptureModulePayload::getVoltageWhole` (line 116) -/
def TECMP_CaptureModulePayload_getVoltageWhole (m : Bytes) (pd_ pdsize_ : Nat) (this_ : Nat) : Option Nat := do
  let t1 ← TECMP_CaptureModulePayload_getHeader_v pd_ pdsize_ this_
  let t2 ← TECMP_CaptureModulePayload_Header_getVoltageWhole m t1
  pure t2

/-- `TECMP::CaptureModulePayload::setBufferFill` (line 141) -/
def TECMP_CaptureModulePayload_setBufferFill (m : Bytes) (pd_ pdsize_ : Nat) (this_ : Nat) (a_val : Nat) : Option Bytes := do
  let t1 ← TECMP_CaptureModulePayload_getHeader_v2 pd_ pdsize_ this_
  let m ← TECMP_CaptureModulePayload_Header_setBufferFill m t1 a_val
  pure m

/-- `TECMP::CaptureModulePayload::setBufferSize` (line 161) -/
def TECMP_CaptureModulePayload_setBufferSize (m : Bytes) (pd_ pdsize_ : Nat) (this_ : Nat) (a_val : Nat) : Option Bytes := do
  let t1 ← TECMP_CaptureModulePayload_getHeader_v2 pd_ pdsize_ this_
  let m ← TECMP_CaptureModulePayload_Header_setBufferSize m t1 a_val
  pure m

/-- `TECMP::CaptureModulePayload::setChassisTemp` (line 181) -/
def TECMP_CaptureModulePayload_setChassisTemp (m : Bytes) (pd_ pdsize_ : Nat) (this_ : Nat) (a_val : Nat) : Option Bytes := do
  let t1 ← TECMP_CaptureModulePayload_getHeader_v2 pd_ pdsize_ this_
  let m ← TECMP_CaptureModulePayload_Header_setChassisTemp m t1 a_val
  pure m

/-- `TECMP::CaptureModulePayload::setDeviceId` (line 51) -/
def TECMP_CaptureModulePayload_setDeviceId (m : Bytes) (pd_ pdsize_ : Nat) (this_ : Nat) (a_newDeviceId : Nat) : Option Bytes := do
  let t1 ← TECMP_CaptureModulePayload_getHeader_v2 pd_ pdsize_ this_
  let m ← TECMP_CaptureModulePayload_Header_setDeviceId m t1 a_newDeviceId
  pure m

/-- `TECMP::CaptureModulePayload::setDeviceType` (line 31) -/
def TECMP_CaptureModulePayload_setDeviceType (m : Bytes) (pd_ pdsize_ : Nat) (this_ : Nat) (a_newDeviceType : Nat) : Option Bytes := do
  let t1 ← TECMP_CaptureModulePayload_getHeader_v2 pd_ pdsize_ this_
  let m ← TECMP_CaptureModulePayload_Header_setDeviceType m t1 a_newDeviceType
  pure m

/-- `TECMP::CaptureModulePayload::setDeviceVersion` (line 21) -/
def TECMP_CaptureModulePayload_setDeviceVersion (m : Bytes) (pd_ pdsize_ : Nat) (this_ : Nat) (a_newDeviceVersion : Nat) : Option Bytes := do
  let t1 ← TECMP_CaptureModulePayload_getHeader_v2 pd_ pdsize_ this_
  let m ← TECMP_CaptureModulePayload_Header_setDeviceVersion m t1 a_newDeviceVersion
  pure m

/-- `TECMP::CaptureModulePayload::setHwVersionMajor` (line 101) -/
def TECMP_CaptureModulePayload_setHwVersionMajor (m : Bytes) (pd_ pdsize_ : Nat) (this_ : Nat) (a_newValue : Nat) : Option Bytes := do
  let t1 ← TECMP_CaptureModulePayload_getHeader_v2 pd_ pdsize_ this_
  let m ← TECMP_CaptureModulePayload_Header_setHwVersionMajor m t1 a_newValue
  pure m

/-- `TECMP::CaptureModulePayload::setHwVersionMinor` (line 111) -/
def TECMP_CaptureModulePayload_setHwVersionMinor (m : Bytes) (pd_ pdsize_ : Nat) (this_ : Nat) (a_newValue : Nat) : Option Bytes := do
  let t1 ← TECMP_CaptureModulePayload_getHeader_v2 pd_ pdsize_ this_
  let m ← TECMP_CaptureModulePayload_Header_setHwVersionMinor m t1 a_newValue
  pure m

/-- `TECMP::CaptureModulePayload::setIsBufferOverflow` (line 151) -/
def TECMP_CaptureModulePayload_setIsBufferOverflow (m : Bytes) (pd_ pdsize_ : Nat) (this_ : Nat) (a_val : Nat) : Option Bytes := do
  let t1 ← TECMP_CaptureModulePayload_getHeader_v2 pd_ pdsize_ this_
  let m ← TECMP_CaptureModulePayload_Header_setIsBufferOverflow m t1 a_val
  pure m

/-- `TECMP::CaptureModulePayload::setLifecycle` (line 171) -/
def TECMP_CaptureModulePayload_setLifecycle (m : Bytes) (pd_ pdsize_ : Nat) (this_ : Nat) (a_val : Nat) : Option Bytes := do
  let t1 ← TECMP_CaptureModulePayload_getHeader_v2 pd_ pdsize_ this_
  let m ← TECMP_CaptureModulePayload_Header_setLifecycle m t1 a_val
  pure m

/-- `TECMP::CaptureModulePayload::setSerialNumber` (line 61) -/
def TECMP_CaptureModulePayload_setSerialNumber (m : Bytes) (pd_ pdsize_ : Nat) (this_ : Nat) (a_newSerialNumber : Nat) : Option Bytes := do
  let t1 ← TECMP_CaptureModulePayload_getHeader_v2 pd_ pdsize_ this_
  let m ← TECMP_CaptureModulePayload_Header_setSerialNumber m t1 a_newSerialNumber
  pure m

/-- `TECMP::CaptureModulePayload::setSilliconTemp` (line 191) -/
def TECMP_CaptureModulePayload_setSilliconTemp (m : Bytes) (pd_ pdsize_ : Nat) (this_ : Nat) (a_val : Nat) : Option Bytes := do
  let t1 ← TECMP_CaptureModulePayload_getHeader_v2 pd_ pdsize_ this_
  let m ← TECMP_CaptureModulePayload_Header_setSilliconTemp m t1 a_val
  pure m

/-- `TECMP::CaptureModulePayload::setSwVersionMajor` (line 71) -/
def TECMP_CaptureModulePayload_setSwVersionMajor (m : Bytes) (pd_ pdsize_ : Nat) (this_ : Nat) (a_newValue : Nat) : Option Bytes := do
  let t1 ← TECMP_CaptureModulePayload_getHeader_v2 pd_ pdsize_ this_
  let m ← TECMP_CaptureModulePayload_Header_setSwVersionMajor m t1 a_newValue
  pure m

/-- `TECMP::CaptureModulePayload::setSwVersionMinor` (line 81) -/
def TECMP_CaptureModulePayload_setSwVersionMinor (m : Bytes) (pd_ pdsize_ : Nat) (this_ : Nat) (a_newValue : Nat) : Option Bytes := do
  let t1 ← TECMP_CaptureModulePayload_getHeader_v2 pd_ pdsize_ this_
  let m ← TECMP_CaptureModulePayload_Header_setSwVersionMinor m t1 a_newValue
  pure m

/-- `TECMP::CaptureModulePayload::setSwVersionPatch` (line 91) -/
def TECMP_CaptureModulePayload_setSwVersionPatch (m : Bytes) (pd_ pdsize_ : Nat) (this_ : Nat) (a_newValue : Nat) : Option Bytes := do
  let t1 ← TECMP_CaptureModulePayload_getHeader_v2 pd_ pdsize_ this_
  let m ← TECMP_CaptureModulePayload_Header_setSwVersionPatch m t1 a_newValue
  pure m

/-- `TECMP::CaptureModulePayload::setVendorDataLength` (line 41) -/
def TECMP_CaptureModulePayload_setVendorDataLength (m : Bytes) (pd_ pdsize_ : Nat) (this_ : Nat) (a_newVendorDataLength : Nat) : Option Bytes := do
  let t1 ← TECMP_CaptureModulePayload_getHeader_v2 pd_ pdsize_ this_
  let m ← TECMP_CaptureModulePayload_Header_setVendorDataLength m t1 a_newVendorDataLength
  pure m

/-- `TECMP::CaptureModulePayload::setVendorId` (line 11) -/
def TECMP_CaptureModulePayload_setVendorId (m : Bytes) (pd_ pdsize_ : Nat) (this_ : Nat) (a_newId : Nat) : Option Bytes := do
  let t1 ← TECMP_CaptureModulePayload_getHeader_v2 pd_ pdsize_ this_
  let m ← TECMP_CaptureModulePayload_Header_setVendorId m t1 a_newId
  pure m

/-- `TECMP::CaptureModulePayload::setVoltageFraction` (line 131) -/
def TECMP_CaptureModulePayload_setVoltageFraction (m : Bytes) (pd_ pdsize_ : Nat) (this_ : Nat) (a_newValue : Nat) : Option Bytes := do
  let t1 ← TECMP_CaptureModulePayload_getHeader_v2 pd_ pdsize_ this_
  let m ← TECMP_CaptureModulePayload_Header_setVoltageFraction m t1 a_newValue
  pure m

/-- `TECMP::CaptureModulePayload::setVoltageWhole` (line 121) -/
def TECMP_CaptureModulePayload_setVoltageWhole (m : Bytes) (pd_ pdsize_ : Nat) (this_ : Nat) (a_newValue : Nat) : Option Bytes := do
  let t1 ← TECMP_CaptureModulePayload_getHeader_v2 pd_ pdsize_ this_
  let m ← TECMP_CaptureModulePayload_Header_setVoltageWhole m t1 a_newValue
  pure m

/-- `TECMP::CmpHeader::getDataType` (line 47) -/
def TECMP_CmpHeader_getDataType (m : Bytes) (this_ : Nat) : Option Nat := do
  let t1 ← rd m (this_ + 6) 2
  let t2 ← swapEndian_u16 t1
  pure t2

/-- `TECMP::CmpHeader::getDeviceFlags` (line 57) -/
def TECMP_CmpHeader_getDeviceFlags (m : Bytes) (this_ : Nat) : Option Nat := do
  let t1 ← rd m (this_ + 10) 2
  let t2 ← swapEndian_u16 t1
  pure t2

/-- `TECMP::CmpHeader::getDeviceId` (line 7) -/
def TECMP_CmpHeader_getDeviceId (m : Bytes) (this_ : Nat) : Option Nat := do
  let t1 ← rd m (this_ + 1) 1
  let t2 ← swapEndian_u8 t1
  pure t2

/-- `TECMP::CmpHeader::getInterfaceId` (line 66) -/
def TECMP_CmpHeader_getInterfaceId (m : Bytes) (this_ : Nat) : Option Nat := do
  let t1 ← rd m (this_ + 12) 4
  let t2 ← swapEndian_u32 t1
  pure t2

/-- `TECMP::CmpHeader::getMessageType` (line 37) -/
def TECMP_CmpHeader_getMessageType (m : Bytes) (this_ : Nat) : Option Nat := do
  let t1 ← rd m (this_ + 5) 1
  let t2 ← swapEndian_u8 t1
  pure t2

/-- `TECMP::CmpHeader::getPayloadLength` (line 82) -/
def TECMP_CmpHeader_getPayloadLength (m : Bytes) (this_ : Nat) : Option Nat := do
  let t1 ← rd m (this_ + 24) 2
  let t2 ← swapEndian_u16 t1
  pure t2

/-- `TECMP::CmpHeader::getSequenceCounter` (line 17) -/
def TECMP_CmpHeader_getSequenceCounter (m : Bytes) (this_ : Nat) : Option Nat := do
  let t1 ← rd m (this_ + 2) 2
  let t2 ← swapEndian_u16 t1
  pure t2

/-- `TECMP::CmpHeader::getTimestamp` (line 74) -/
def TECMP_CmpHeader_getTimestamp (m : Bytes) (this_ : Nat) : Option Nat := do
  let t1 ← rd m (this_ + 16) 8
  let t2 ← swapEndian_u64 t1
  pure t2

/-- `TECMP::CmpHeader::getVersion` (line 27) -/
def TECMP_CmpHeader_getVersion (m : Bytes) (this_ : Nat) : Option Nat := do
  let t1 ← rd m (this_ + 4) 1
  let t2 ← swapEndian_u8 t1
  pure t2

/-- `TECMP::CmpHeader::isValid` (line 90) -/
def TECMP_CmpHeader_isValid (m : Bytes) (this_ : Nat) : Option Bool := do
  let t1 ← rd m (this_ + 5) 1
  let t3 ← (if (t1 == 255) then pure true else (do let t2 ← rd m (this_ + 6) 2; pure (t2 == 255)))
  pure (!t3)

/-- `TECMP::CmpHeader::setDataType` (line 52) -/
def TECMP_CmpHeader_setDataType (m : Bytes) (this_ : Nat) (a_newType : Nat) : Option Bytes := do
  let t1 ← to_underlying_u162 a_newType
  let t2 ← swapEndian_u16 t1
  let m ← wr m (this_ + 6) 2 t2
  pure m

/-- `TECMP::CmpHeader::setDeviceFlags` (line 62) -/
def TECMP_CmpHeader_setDeviceFlags (m : Bytes) (this_ : Nat) (a_newFlags : Nat) : Option Bytes := do
  let t1 ← swapEndian_u16 a_newFlags
  let m ← wr m (this_ + 10) 2 t1
  pure m

/-- `TECMP::CmpHeader::setDeviceId` (line 12) -/
def TECMP_CmpHeader_setDeviceId (m : Bytes) (this_ : Nat) (a_newId : Nat) : Option Bytes := do
  let t1 ← swapEndian_u8 a_newId
  let m ← wr m (this_ + 1) 1 t1
  pure m

/-- `TECMP::CmpHeader::setInterfaceId` (line 70) -/
def TECMP_CmpHeader_setInterfaceId (m : Bytes) (this_ : Nat) (a_newId : Nat) : Option Bytes := do
  let t1 ← swapEndian_u32 a_newId
  let m ← wr m (this_ + 12) 4 t1
  pure m

/-- `TECMP::CmpHeader::setMessageType` (line 42) -/
def TECMP_CmpHeader_setMessageType (m : Bytes) (this_ : Nat) (a_newType : Nat) : Option Bytes := do
  let t1 ← to_underlying_u86 a_newType
  let m ← wr m (this_ + 5) 1 t1
  pure m

/-- `TECMP::CmpHeader::setPayloadLength` (line 86) -/
def TECMP_CmpHeader_setPayloadLength (m : Bytes) (this_ : Nat) (a_newLength : Nat) : Option Bytes := do
  let t1 ← swapEndian_u16 a_newLength
  let m ← wr m (this_ + 24) 2 t1
  pure m

/-- `TECMP::CmpHeader::setSequenceCounter` (line 22) -/
def TECMP_CmpHeader_setSequenceCounter (m : Bytes) (this_ : Nat) (a_newCounter : Nat) : Option Bytes := do
  let t1 ← swapEndian_u16 a_newCounter
  let m ← wr m (this_ + 2) 2 t1
  pure m

/-- `TECMP::CmpHeader::setTimestamp` (line 78) -/
def TECMP_CmpHeader_setTimestamp (m : Bytes) (this_ : Nat) (a_newTimestamp : Nat) : Option Bytes := do
  let t1 ← swapEndian_u64 a_newTimestamp
  let m ← wr m (this_ + 16) 8 t1
  pure m

/-- `TECMP::CmpHeader::setVersion` (line 32) -/
def TECMP_CmpHeader_setVersion (m : Bytes) (this_ : Nat) (a_newVersion : Nat) : Option Bytes := do
  let t1 ← swapEndian_u8 a_newVersion
  let m ← wr m (this_ + 4) 1 t1
  pure m

/-- `TECMP::InterfacePayload::Header::getCmType` (line 27) -/
def TECMP_InterfacePayload_Header_getCmType (m : Bytes) (this_ : Nat) : Option Nat := do
  let t1 ← rd m (this_ + 2) 1
  let t2 ← swapEndian_u8 t1
  pure t2

/-- `TECMP::InterfacePayload::Header::getCmVersion` (line 17) -/
def TECMP_InterfacePayload_Header_getCmVersion (m : Bytes) (this_ : Nat) : Option Nat := do
  let t1 ← rd m (this_ + 1) 1
  let t2 ← swapEndian_u8 t1
  pure t2

/-- `TECMP::InterfacePayload::Header::getDeviceId` (line 47) -/
def TECMP_InterfacePayload_Header_getDeviceId (m : Bytes) (this_ : Nat) : Option Nat := do
  let t1 ← rd m (this_ + 6) 2
  let t2 ← swapEndian_u16 t1
  pure t2

/-- `TECMP::InterfacePayload::Header::getErrorsTotal` (line 87) -/
def TECMP_InterfacePayload_Header_getErrorsTotal (m : Bytes) (this_ : Nat) : Option Nat := do
  let t1 ← rd m ((this_ + 12) + 8) 4
  let t2 ← swapEndian_u32 t1
  pure t2

/-- `TECMP::InterfacePayload::Header::getInterfaceId` (line 67) -/
def TECMP_InterfacePayload_Header_getInterfaceId (m : Bytes) (this_ : Nat) : Option Nat := do
  let t1 ← rd m (this_ + 12) 4
  let t2 ← swapEndian_u32 t1
  pure t2

/-- `TECMP::InterfacePayload::Header::getMessagesTotal` (line 77) -/
def TECMP_InterfacePayload_Header_getMessagesTotal (m : Bytes) (this_ : Nat) : Option Nat := do
  let t1 ← rd m ((this_ + 12) + 4) 4
  let t2 ← swapEndian_u32 t1
  pure t2

/-- `TECMP::InterfacePayload::Header::getSerialNumber` (line 57) -/
def TECMP_InterfacePayload_Header_getSerialNumber (m : Bytes) (this_ : Nat) : Option Nat := do
  let t1 ← rd m (this_ + 8) 4
  let t2 ← swapEndian_u32 t1
  pure t2

/-- `TECMP::InterfacePayload::Header::getVendorDataLength` (line 37) -/
def TECMP_InterfacePayload_Header_getVendorDataLength (m : Bytes) (this_ : Nat) : Option Nat := do
  let t1 ← rd m (this_ + 4) 2
  let t2 ← swapEndian_u16 t1
  pure t2

/-- `TECMP::InterfacePayload::Header::getVendorDataLinkQuality` (line 107) -/
def TECMP_InterfacePayload_Header_getVendorDataLinkQuality (m : Bytes) (this_ : Nat) : Option Nat := do
  let t1 ← rd m ((this_ + 24) + 1) 1
  let t2 ← swapEndian_u8 t1
  pure t2

/-- `TECMP::InterfacePayload::Header::getVendorDataLinkStatus` (line 97) -/
def TECMP_InterfacePayload_Header_getVendorDataLinkStatus (m : Bytes) (this_ : Nat) : Option Nat := do
  let t1 ← rd m (this_ + 24) 1
  let t2 ← swapEndian_u8 t1
  pure t2

/-- `TECMP::InterfacePayload::Header::getVendorDataLinkupTime` (line 117) -/
def TECMP_InterfacePayload_Header_getVendorDataLinkupTime (m : Bytes) (this_ : Nat) : Option Nat := do
  let t1 ← rd m ((this_ + 24) + 2) 2
  let t2 ← swapEndian_u16 t1
  pure t2

/-- `TECMP::InterfacePayload::Header::getVendorId` (line 7) -/
def TECMP_InterfacePayload_Header_getVendorId (m : Bytes) (this_ : Nat) : Option Nat := do
  let t1 ← rd m this_ 1
  let t2 ← swapEndian_u8 t1
  pure t2

/-- `TECMP::InterfacePayload::Header::setCmType` (line 32) -/
def TECMP_InterfacePayload_Header_setCmType (m : Bytes) (this_ : Nat) (a_value : Nat) : Option Bytes := do
  let t1 ← swapEndian_u8 a_value
  let m ← wr m (this_ + 2) 1 t1
  pure m

/-- `TECMP::InterfacePayload::Header::setCmVersion` (line 22) -/
def TECMP_InterfacePayload_Header_setCmVersion (m : Bytes) (this_ : Nat) (a_value : Nat) : Option Bytes := do
  let t1 ← swapEndian_u8 a_value
  let m ← wr m (this_ + 1) 1 t1
  pure m

/-- `TECMP::InterfacePayload::Header::setDeviceId` (line 52) -/
def TECMP_InterfacePayload_Header_setDeviceId (m : Bytes) (this_ : Nat) (a_value : Nat) : Option Bytes := do
  let t1 ← swapEndian_u16 a_value
  let m ← wr m (this_ + 6) 2 t1
  pure m

/-- `TECMP::InterfacePayload::Header::setErrorsTotal` (line 92) -/
def TECMP_InterfacePayload_Header_setErrorsTotal (m : Bytes) (this_ : Nat) (a_value : Nat) : Option Bytes := do
  let t1 ← swapEndian_u32 a_value
  let m ← wr m ((this_ + 12) + 8) 4 t1
  pure m

/-- `TECMP::InterfacePayload::Header::setInterfaceId` (line 72) -/
def TECMP_InterfacePayload_Header_setInterfaceId (m : Bytes) (this_ : Nat) (a_value : Nat) : Option Bytes := do
  let t1 ← swapEndian_u32 a_value
  let m ← wr m (this_ + 12) 4 t1
  pure m

/-- `TECMP::InterfacePayload::Header::setMessagesTotal` (line 82) -/
def TECMP_InterfacePayload_Header_setMessagesTotal (m : Bytes) (this_ : Nat) (a_value : Nat) : Option Bytes := do
  let t1 ← swapEndian_u32 a_value
  let m ← wr m ((this_ + 12) + 4) 4 t1
  pure m

/-- `TECMP::InterfacePayload::Header::setSerialNumber` (line 62) -/
def TECMP_InterfacePayload_Header_setSerialNumber (m : Bytes) (this_ : Nat) (a_value : Nat) : Option Bytes := do
  let t1 ← swapEndian_u32 a_value
  let m ← wr m (this_ + 8) 4 t1
  pure m

/-- `TECMP::InterfacePayload::Header::setVendorDataLength` (line 42) -/
def TECMP_InterfacePayload_Header_setVendorDataLength (m : Bytes) (this_ : Nat) (a_value : Nat) : Option Bytes := do
  let t1 ← swapEndian_u16 a_value
  let m ← wr m (this_ + 4) 2 t1
  pure m

/-- `TECMP::InterfacePayload::Header::setVendorDataLinkQuality` (line 112) -/
def TECMP_InterfacePayload_Header_setVendorDataLinkQuality (m : Bytes) (this_ : Nat) (a_value : Nat) : Option Bytes := do
  let t1 ← swapEndian_u8 a_value
  let m ← wr m ((this_ + 24) + 1) 1 t1
  pure m

/-- `TECMP::InterfacePayload::Header::setVendorDataLinkStatus` (line 102) -/
def TECMP_InterfacePayload_Header_setVendorDataLinkStatus (m : Bytes) (this_ : Nat) (a_value : Nat) : Option Bytes := do
  let t1 ← swapEndian_u8 a_value
  let m ← wr m (this_ + 24) 1 t1
  pure m

/-- `TECMP::InterfacePayload::Header::setVendorDataLinkupTime` (line 122) -/
def TECMP_InterfacePayload_Header_setVendorDataLinkupTime (m : Bytes) (this_ : Nat) (a_value : Nat) : Option Bytes := do
  let t1 ← swapEndian_u16 a_value
  let m ← wr m ((this_ + 24) + 2) 2 t1
  pure m

/-- `TECMP::InterfacePayload::Header::setVendorId` (line 12) -/
def TECMP_InterfacePayload_Header_setVendorId (m : Bytes) (this_ : Nat) (a_value : Nat) : Option Bytes := do
  let t1 ← swapEndian_u8 a_value
  let m ← wr m this_ 1 t1
  pure m

/-- `TECMP::InterfacePayload::getHeader` (line 257) -/
def TECMP_InterfacePayload_getHeader_v (pd_ pdsize_ : Nat) (this_ : Nat) : Option Nat := do
  pure pd_

/-- `TECMP::InterfacePayload::getCmType` (line 157) -/
def TECMP_InterfacePayload_getCmType (m : Bytes) (pd_ pdsize_ : Nat) (this_ : Nat) : Option Nat := do
  let t1 ← TECMP_InterfacePayload_getHeader_v pd_ pdsize_ this_
  let t2 ← TECMP_InterfacePayload_Header_getCmType m t1
  pure t2

/-- `TECMP::InterfacePayload::getCmVersion` (line 147) -/
def TECMP_InterfacePayload_getCmVersion (m : Bytes) (pd_ pdsize_ : Nat) (this_ : Nat) : Option Nat := do
  let t1 ← TECMP_InterfacePayload_getHeader_v pd_ pdsize_ this_
  let t2 ← TECMP_InterfacePayload_Header_getCmVersion m t1
  pure t2

/-- `TECMP::InterfacePayload::getDeviceId` (line 177) -/
def TECMP_InterfacePayload_getDeviceId (m : Bytes) (pd_ pdsize_ : Nat) (this_ : Nat) : Option Nat := do
  let t1 ← TECMP_InterfacePayload_getHeader_v pd_ pdsize_ this_
  let t2 ← TECMP_InterfacePayload_Header_getDeviceId m t1
  pure t2

/-- `TECMP::InterfacePayload::getErrorsTotal` (line 217) -/
def TECMP_InterfacePayload_getErrorsTotal (m : Bytes) (pd_ pdsize_ : Nat) (this_ : Nat) : Option Nat := do
  let t1 ← TECMP_InterfacePayload_getHeader_v pd_ pdsize_ this_
  let t2 ← TECMP_InterfacePayload_Header_getErrorsTotal m t1
  pure t2

/-- `TECMP::InterfacePayload::getHeader` (line 262) -/
def TECMP_InterfacePayload_getHeader_v2 (pd_ pdsize_ : Nat) (this_ : Nat) : Option Nat := do
  pure pd_

/-- `TECMP::InterfacePayload::getInterfaceId` (line 197) -/
def TECMP_InterfacePayload_getInterfaceId (m : Bytes) (pd_ pdsize_ : Nat) (this_ : Nat) : Option Nat := do
  let t1 ← TECMP_InterfacePayload_getHeader_v pd_ pdsize_ this_
  let t2 ← TECMP_InterfacePayload_Header_getInterfaceId m t1
  pure t2

/-- `TECMP::InterfacePayload::getMessagesTotal` (line 207) -/
def TECMP_InterfacePayload_getMessagesTotal (m : Bytes) (pd_ pdsize_ : Nat) (this_ : Nat) : Option Nat := do
  let t1 ← TECMP_InterfacePayload_getHeader_v pd_ pdsize_ this_
  let t2 ← TECMP_InterfacePayload_Header_getMessagesTotal m t1
  pure t2

/-- `TECMP::InterfacePayload::getSerialNumber` (line 187) -/
def TECMP_InterfacePayload_getSerialNumber (m : Bytes) (pd_ pdsize_ : Nat) (this_ : Nat) : Option Nat := do
  let t1 ← TECMP_InterfacePayload_getHeader_v pd_ pdsize_ this_
  let t2 ← TECMP_InterfacePayload_Header_getSerialNumber m t1
  pure t2

/-- `TECMP::InterfacePayload::getVendorDataLength` (line 167) -/
def TECMP_InterfacePayload_getVendorDataLength (m : Bytes) (pd_ pdsize_ : Nat) (this_ : Nat) : Option Nat := do
  let t1 ← TECMP_InterfacePayload_getHeader_v pd_ pdsize_ this_
  let t2 ← TECMP_InterfacePayload_Header_getVendorDataLength m t1
  pure t2

/-- `TECMP::InterfacePayload::getVendorDataLinkQuality` (line 237) -/
def TECMP_InterfacePayload_getVendorDataLinkQuality (m : Bytes) (pd_ pdsize_ : Nat) (this_ : Nat) : Option Nat := do
  let t1 ← TECMP_InterfacePayload_getHeader_v pd_ pdsize_ this_
  let t2 ← TECMP_InterfacePayload_Header_getVendorDataLinkQuality m t1
  pure t2

/-- `TECMP::InterfacePayload::getVendorDataLinkStatus` (line 227) -/
def TECMP_InterfacePayload_getVendorDataLinkStatus (m : Bytes) (pd_ pdsize_ : Nat) (this_ : Nat) : Option Nat := do
  let t1 ← TECMP_InterfacePayload_getHeader_v pd_ pdsize_ this_
  let t2 ← TECMP_InterfacePayload_Header_getVendorDataLinkStatus m t1
  pure t2

/-- `TECMP::InterfacePayload::getVendorDataLinkupTime` (line 247) -/
def TECMP_InterfacePayload_getVendorDataLinkupTime (m : Bytes) (pd_ pdsize_ : Nat) (this_ : Nat) : Option Nat := do
  let t1 ← TECMP_InterfacePayload_getHeader_v pd_ pdsize_ this_
  let t2 ← TECMP_InterfacePayload_Header_getVendorDataLinkupTime m t1
  pure t2

/-- `TECMP::InterfacePayload::getVendorId` (line 137) -/
def TECMP_InterfacePayload_getVendorId (m : Bytes) (pd_ pdsize_ : Nat) (this_ : Nat) : Option Nat := do
  let t1 ← TECMP_InterfacePayload_getHeader_v pd_ pdsize_ this_
  let t2 ← TECMP_InterfacePayload_Header_getVendorId m t1
  pure t2

/-- `TECMP::InterfacePayload::setCmType` (line 162) -/
def TECMP_InterfacePayload_setCmType (m : Bytes) (pd_ pdsize_ : Nat) (this_ : Nat) (a_value : Nat) : Option Bytes := do
  let t1 ← TECMP_InterfacePayload_getHeader_v2 pd_ pdsize_ this_
  let m ← TECMP_InterfacePayload_Header_setCmType m t1 a_value
  pure m

/-- `TECMP::InterfacePayload::setCmVersion` (line 152) -/
def TECMP_InterfacePayload_setCmVersion (m : Bytes) (pd_ pdsize_ : Nat) (this_ : Nat) (a_value : Nat) : Option Bytes := do
  let t1 ← TECMP_InterfacePayload_getHeader_v2 pd_ pdsize_ this_
  let m ← TECMP_InterfacePayload_Header_setCmVersion m t1 a_value
  pure m

/-- `TECMP::InterfacePayload::setDeviceId` (line 182) -/
def TECMP_InterfacePayload_setDeviceId (m : Bytes) (pd_ pdsize_ : Nat) (this_ : Nat) (a_value : Nat) : Option Bytes := do
  let t1 ← TECMP_InterfacePayload_getHeader_v2 pd_ pdsize_ this_
  let m ← TECMP_InterfacePayload_Header_setDeviceId m t1 a_value
  pure m

/-- `TECMP::InterfacePayload::setErrorsTotal` (line 222) -/
def TECMP_InterfacePayload_setErrorsTotal (m : Bytes) (pd_ pdsize_ : Nat) (this_ : Nat) (a_value : Nat) : Option Bytes := do
  let t1 ← TECMP_InterfacePayload_getHeader_v2 pd_ pdsize_ this_
  let m ← TECMP_InterfacePayload_Header_setErrorsTotal m t1 a_value
  pure m

/-- `TECMP::InterfacePayload::setInterfaceId` (line 202) -/
def TECMP_InterfacePayload_setInterfaceId (m : Bytes) (pd_ pdsize_ : Nat) (this_ : Nat) (a_value : Nat) : Option Bytes := do
  let t1 ← TECMP_InterfacePayload_getHeader_v2 pd_ pdsize_ this_
  let m ← TECMP_InterfacePayload_Header_setInterfaceId m t1 a_value
  pure m

/-- `TECMP::InterfacePayload::setMessagesTotal` (line 212) -/
def TECMP_InterfacePayload_setMessagesTotal (m : Bytes) (pd_ pdsize_ : Nat) (this_ : Nat) (a_value : Nat) : Option Bytes := do
  let t1 ← TECMP_InterfacePayload_getHeader_v2 pd_ pdsize_ this_
  let m ← TECMP_InterfacePayload_Header_setMessagesTotal m t1 a_value
  pure m

/-- `TECMP::InterfacePayload::setSerialNumber` (line 192) -/
def TECMP_InterfacePayload_setSerialNumber (m : Bytes) (pd_ pdsize_ : Nat) (this_ : Nat) (a_value : Nat) : Option Bytes := do
  let t1 ← TECMP_InterfacePayload_getHeader_v2 pd_ pdsize_ this_
  let m ← TECMP_InterfacePayload_Header_setSerialNumber m t1 a_value
  pure m

/-- `TECMP::InterfacePayload::setVendorDataLength` (line 172) -/
def TECMP_InterfacePayload_setVendorDataLength (m : Bytes) (pd_ pdsize_ : Nat) (this_ : Nat) (a_value : Nat) : Option Bytes := do
  let t1 ← TECMP_InterfacePayload_getHeader_v2 pd_ pdsize_ this_
  let m ← TECMP_InterfacePayload_Header_setVendorDataLength m t1 a_value
  pure m

/-- `TECMP::InterfacePayload::setVendorDataLinkQuality` (line 242) -/
def TECMP_InterfacePayload_setVendorDataLinkQuality (m : Bytes) (pd_ pdsize_ : Nat) (this_ : Nat) (a_value : Nat) : Option Bytes := do
  let t1 ← TECMP_InterfacePayload_getHeader_v2 pd_ pdsize_ this_
  let m ← TECMP_InterfacePayload_Header_setVendorDataLinkQuality m t1 a_value
  pure m

/-- `TECMP::InterfacePayload::setVendorDataLinkStatus` (line 232) -/
def TECMP_InterfacePayload_setVendorDataLinkStatus (m : Bytes) (pd_ pdsize_ : Nat) (this_ : Nat) (a_value : Nat) : Option Bytes := do
  let t1 ← TECMP_InterfacePayload_getHeader_v2 pd_ pdsize_ this_
  let m ← TECMP_InterfacePayload_Header_setVendorDataLinkStatus m t1 a_value
  pure m

/-- `TECMP::InterfacePayload::setVendorDataLinkupTime` (line 252) -/
def TECMP_InterfacePayload_setVendorDataLinkupTime (m : Bytes) (pd_ pdsize_ : Nat) (this_ : Nat) (a_value : Nat) : Option Bytes := do
  let t1 ← TECMP_InterfacePayload_getHeader_v2 pd_ pdsize_ this_
  let m ← TECMP_InterfacePayload_Header_setVendorDataLinkupTime m t1 a_value
  pure m

/-- `TECMP::InterfacePayload::setVendorId` (line 142) -/
def TECMP_InterfacePayload_setVendorId (m : Bytes) (pd_ pdsize_ : Nat) (this_ : Nat) (a_value : Nat) : Option Bytes := do
  let t1 ← TECMP_InterfacePayload_getHeader_v2 pd_ pdsize_ this_
  let m ← TECMP_InterfacePayload_Header_setVendorId m t1 a_value
  pure m

/-- `TECMP::LinPayload::Header::getDataLength` (line 14) -/
def TECMP_LinPayload_Header_getDataLength (m : Bytes) (this_ : Nat) : Option Nat := do
  let t1 ← rd m (this_ + 1) 1
  let t2 ← swapEndian_u8 t1
  pure t2

/-- `TECMP::LinPayload::Header::getPid` (line 6) -/
def TECMP_LinPayload_Header_getPid (m : Bytes) (this_ : Nat) : Option Nat := do
  let t1 ← rd m this_ 1
  let t2 ← swapEndian_u8 t1
  pure t2

/-- `TECMP::LinPayload::Header::setDataLength` (line 18) -/
def TECMP_LinPayload_Header_setDataLength (m : Bytes) (this_ : Nat) (a_newLength : Nat) : Option Bytes := do
  let t1 ← swapEndian_u8 a_newLength
  let m ← wr m (this_ + 1) 1 t1
  pure m

/-- `TECMP::LinPayload::Header::setPid` (line 10) -/
def TECMP_LinPayload_Header_setPid (m : Bytes) (this_ : Nat) (a_newPid : Nat) : Option Bytes := do
  let t1 ← swapEndian_u8 a_newPid
  let m ← wr m this_ 1 t1
  pure m

/-- `TECMP::LinPayload::getHeader` (line 61) -/
def TECMP_LinPayload_getHeader_v (pd_ pdsize_ : Nat) (this_ : Nat) : Option Nat := do
  pure pd_

/-- `TECMP::LinPayload::getCrc` (line 55) -/
def TECMP_LinPayload_getCrc (m : Bytes) (pd_ pdsize_ : Nat) (this_ : Nat) : Option Nat := do
  let t1 ← TECMP_LinPayload_getHeader_v pd_ pdsize_ this_
  let t2 ← TECMP_LinPayload_Header_getDataLength m t1
  if (decide (pdsize_ ≤ (uadd 64 2 t2))) then
    pure 0
  else
    let t3 ← TECMP_LinPayload_getHeader_v pd_ pdsize_ this_
    let t4 ← TECMP_LinPayload_Header_getDataLength m t3
    let t5 ← nonneg 32 t4
    let t6 ← rd m ((pd_ + 2) + t5) 1
    pure t6

/-- `TECMP::LinPayload::getData` (line 46) -/
def TECMP_LinPayload_getData (pd_ pdsize_ : Nat) (this_ : Nat) : Option Nat := do
  pure (pd_ + 2)

/-- `TECMP::LinPayload::getDataLength` (line 30) -/
def TECMP_LinPayload_getDataLength (m : Bytes) (pd_ pdsize_ : Nat) (this_ : Nat) : Option Nat := do
  let t1 ← TECMP_LinPayload_getHeader_v pd_ pdsize_ this_
  let t2 ← TECMP_LinPayload_Header_getDataLength m t1
  pure t2

/-- `TECMP::LinPayload::getHeader` (line 65) -/
def TECMP_LinPayload_getHeader_v2 (pd_ pdsize_ : Nat) (this_ : Nat) : Option Nat := do
  pure pd_

/-- `TECMP::LinPayload::getPid` (line 22) -/
def TECMP_LinPayload_getPid (m : Bytes) (pd_ pdsize_ : Nat) (this_ : Nat) : Option Nat := do
  let t1 ← TECMP_LinPayload_getHeader_v pd_ pdsize_ this_
  let t2 ← TECMP_LinPayload_Header_getPid m t1
  pure t2

/-- `TECMP::Payload::setData` (line 71) -/
def TECMP_Payload_setData_x_u64 (m : Bytes) (this_ : Nat) (x_data : Bytes) (a_size : Nat) : Option Bytes := do
  let m := resize m (uadd 64 2 a_size)
  let m ← wrBytes m (0 + 2) x_data a_size
  pure m

/-- `TECMP::LinPayload::setData` (line 50) -/
def TECMP_LinPayload_setData (m : Bytes) (this_ : Nat) (x_data : Bytes) (a_dataLength : Nat) : Option Bytes := do
  let m ← TECMP_Payload_setData_x_u64 m this_ x_data a_dataLength
  let t1 ← TECMP_LinPayload_getHeader_v2 0 m.length this_
  let m ← TECMP_LinPayload_Header_setDataLength m t1 a_dataLength
  pure m

/-- `TECMP::LinPayload::setDataLength` (line 34) -/
def TECMP_LinPayload_setDataLength (m : Bytes) (pd_ pdsize_ : Nat) (this_ : Nat) (a_newLength : Nat) : Option Bytes := do
  let t1 ← TECMP_LinPayload_getHeader_v2 pd_ pdsize_ this_
  let m ← TECMP_LinPayload_Header_setDataLength m t1 a_newLength
  pure m

/-- `TECMP::LinPayload::setPid` (line 26) -/
def TECMP_LinPayload_setPid (m : Bytes) (pd_ pdsize_ : Nat) (this_ : Nat) (a_newPid : Nat) : Option Bytes := do
  let t1 ← TECMP_LinPayload_getHeader_v2 pd_ pdsize_ this_
  let m ← TECMP_LinPayload_Header_setPid m t1 a_newPid
  pure m

/-- `TECMP::Payload::getLength` (line 73) -/
def TECMP_Payload_getLength (pd_ pdsize_ : Nat) (this_ : Nat) : Option Nat := do
  pure pdsize_

/-- `TECMP::PayloadType::getMessageType` (line 79) -/
def TECMP_PayloadType_getMessageType (m : Bytes) (this_ : Nat) : Option Nat := do
  let t1 ← rd m this_ 4
  let t2 ← ushr 32 (t1 &&& 65280) 8
  pure (t2 % 256)

/-- `TECMP::Payload::getMessageType` (line 43) -/
def TECMP_Payload_getMessageType (m : Bytes) (this_ : Nat) : Option Nat := do
  let t1 ← TECMP_PayloadType_getMessageType m (this_ + 32)
  pure t1

/-- `TECMP::Payload::getRawPayload` (line 78) -/
def TECMP_Payload_getRawPayload (pd_ pdsize_ : Nat) (this_ : Nat) : Option Nat := do
  pure pd_

/-- `TECMP::PayloadType::getRawPayloadType` (line 90) -/
def TECMP_PayloadType_getRawPayloadType (m : Bytes) (this_ : Nat) : Option Nat := do
  let t1 ← rd m this_ 4
  pure ((t1 &&& 255) % 256)

/-- `TECMP::Payload::getRawPayloadType` (line 53) -/
def TECMP_Payload_getRawPayloadType (m : Bytes) (this_ : Nat) : Option Nat := do
  let t1 ← TECMP_PayloadType_getRawPayloadType m (this_ + 32)
  pure t1

/-- `TECMP::PayloadType::isValid` (line 101) -/
def TECMP_PayloadType_isValid (m : Bytes) (this_ : Nat) : Option Bool := do
  let t1 ← rd m this_ 4
  pure (t1 != 65535)

/-- `TECMP::Payload::isValid` (line 38) -/
def TECMP_Payload_isValid (m : Bytes) (this_ : Nat) : Option Bool := do
  let t1 ← TECMP_PayloadType_isValid m (this_ + 32)
  pure t1

/-- `TECMP::PayloadType::setMessageType` (line 84) -/
def TECMP_PayloadType_setMessageType (m : Bytes) (this_ : Nat) (a_newType : Nat) : Option Bytes := do
  let t1 ← rd m this_ 4
  let m ← wr m this_ 4 (t1 &&& (bnot 32 65280))
  let t2 ← to_underlying_u86 a_newType
  let t3 ← sshl 32 t2 8
  let t4 ← rd m this_ 4
  let m ← wr m this_ 4 (t4 ||| t3)
  pure m

/-- `TECMP::Payload::setMessageType` (line 48) -/
def TECMP_Payload_setMessageType (m : Bytes) (this_ : Nat) (a_newType : Nat) : Option Bytes := do
  let m ← TECMP_PayloadType_setMessageType m (this_ + 32) a_newType
  pure m

/-- `TECMP::PayloadType::setRawPayloadType` (line 95) -/
def TECMP_PayloadType_setRawPayloadType (m : Bytes) (this_ : Nat) (a_newType : Nat) : Option Bytes := do
  let t1 ← rd m this_ 4
  let m ← wr m this_ 4 (t1 &&& (bnot 32 255))
  let t2 ← rd m this_ 4
  let m ← wr m this_ 4 (t2 ||| a_newType)
  pure m

/-- `TECMP::Payload::setRawPayloadType` (line 58) -/
def TECMP_Payload_setRawPayloadType (m : Bytes) (this_ : Nat) (a_newType : Nat) : Option Bytes := do
  let m ← TECMP_PayloadType_setRawPayloadType m (this_ + 32) a_newType
  pure m

/-- `TECMP::PayloadType::getType` (line 69) -/
def TECMP_PayloadType_getType (m : Bytes) (this_ : Nat) : Option Nat := do
  let t1 ← rd m this_ 4
  pure t1

/-- `TECMP::PayloadType::setType` (line 74) -/
def TECMP_PayloadType_setType (m : Bytes) (this_ : Nat) (a_newType : Nat) : Option Bytes := do
  let m ← wr m this_ 4 a_newType
  pure m

/-- functions with a body that are outside the translated subset, with the first reason -/
def untranslated : List (String × String) := [
  ("ASAM::CMP::AnalogPayload::Header::getSampleInterval float () const", "type float"),
  ("ASAM::CMP::AnalogPayload::Header::getSampleOffset float () const", "type float"),
  ("ASAM::CMP::AnalogPayload::Header::getSampleScalar float () const", "type float"),
  ("ASAM::CMP::AnalogPayload::Header::setSampleInterval void (const float)", "type const float"),
  ("ASAM::CMP::AnalogPayload::Header::setSampleOffset void (const float)", "type const float"),
  ("ASAM::CMP::AnalogPayload::Header::setSampleScalar void (const float)", "type const float"),
  ("ASAM::CMP::AnalogPayload::getSampleInterval float () const", "type float"),
  ("ASAM::CMP::AnalogPayload::getSampleOffset float () const", "type float"),
  ("ASAM::CMP::AnalogPayload::getSampleScalar float () const", "type float"),
  ("ASAM::CMP::AnalogPayload::setSampleInterval void (const float)", "type const float"),
  ("ASAM::CMP::AnalogPayload::setSampleOffset void (const float)", "type const float"),
  ("ASAM::CMP::AnalogPayload::setSampleScalar void (const float)", "type const float"),
  ("ASAM::CMP::Decoder::Endpoint::operator== bool (const ASAM::CMP::Decoder::Endpoint &) const", "reference type const ASAM::CMP::Decoder::Endpoint &"),
  ("ASAM::CMP::Decoder::EndpointHash::operator() std::size_t (const ASAM::CMP::Decoder::Endpoint &) const", "reference type const ASAM::CMP::Decoder::Endpoint &"),
  ("ASAM::CMP::Decoder::SegmentedPacket::addSegment bool (const uint8_t *, const size_t, const uint8_t, const CmpHeader::MessageType, const uint16_t)", "lvalue ImplicitCastExpr"),
  ("ASAM::CMP::Decoder::SegmentedPacket::getHeader ASAM::CMP::MessageHeader *()", "no body for callee outside the library (std / libc)"),
  ("ASAM::CMP::Decoder::SegmentedPacket::getPacket std::shared_ptr<Packet> ()", "type std::shared_ptr<Packet>"),
  ("ASAM::CMP::Decoder::SegmentedPacket::operator= ASAM::CMP::Decoder::SegmentedPacket &(ASAM::CMP::Decoder::SegmentedPacket &&) noexcept", "reference type ASAM::CMP::Decoder::SegmentedPacket &"),
  ("ASAM::CMP::Decoder::decode std::vector<std::shared_ptr<Packet>> (const void *, const std::size_t)", "type std::vector<std::shared_ptr<Packet>>"),
  ("ASAM::CMP::DeviceStatus::getIndexByInterfaceId size_t (const uint32_t) const", "type __gnu_cxx::__normal_iterator<const ASAM::CMP::InterfaceStatus *, std::vector<ASAM::CMP::InterfaceStatus>>"),
  ("ASAM::CMP::DeviceStatus::getIndexByInterfaceId::intIt::operator() bool (const ASAM::CMP::InterfaceStatus &) const", "reference type const ASAM::CMP::InterfaceStatus &"),
  ("ASAM::CMP::DeviceStatus::getInterfaceStatus ASAM::CMP::InterfaceStatus &(std::size_t)", "reference type ASAM::CMP::InterfaceStatus &"),
  ("ASAM::CMP::DeviceStatus::getInterfaceStatus const ASAM::CMP::InterfaceStatus &(std::size_t) const", "reference type const ASAM::CMP::InterfaceStatus &"),
  ("ASAM::CMP::DeviceStatus::getInterfaceStatusCount std::size_t () const", "no body for callee outside the library (std / libc)"),
  ("ASAM::CMP::DeviceStatus::getPacket ASAM::CMP::Packet &()", "reference type ASAM::CMP::Packet &"),
  ("ASAM::CMP::DeviceStatus::getPacket const ASAM::CMP::Packet &() const", "reference type const ASAM::CMP::Packet &"),
  ("ASAM::CMP::DeviceStatus::operator= ASAM::CMP::DeviceStatus &(ASAM::CMP::DeviceStatus &&) noexcept", "reference type ASAM::CMP::DeviceStatus &"),
  ("ASAM::CMP::DeviceStatus::removeInterfaceById void (uint32_t)", "type __gnu_cxx::__normal_iterator<const ASAM::CMP::InterfaceStatus *, std::vector<ASAM::CMP::InterfaceStatus>>"),
  ("ASAM::CMP::DeviceStatus::update void (const ASAM::CMP::Packet &)", "reference type const ASAM::CMP::Packet &"),
  ("ASAM::CMP::DeviceStatus::updateInterfaces void (const ASAM::CMP::Packet &)", "reference type const ASAM::CMP::Packet &"),
  ("ASAM::CMP::Encoder::addNewCMPFrame void (const ASAM::CMP::Packet &)", "reference type const ASAM::CMP::Packet &"),
  ("ASAM::CMP::Encoder::addNewDataHeader void (const ASAM::CMP::Packet &, uint16_t, ASAM::CMP::Encoder::SegmentType)", "reference type const ASAM::CMP::Packet &"),
  ("ASAM::CMP::Encoder::checkIfSegmented bool (const ASAM::CMP::Packet &)", "reference type const ASAM::CMP::Packet &"),
  ("ASAM::CMP::Encoder::clearEncodingMetadata void (bool)", "no body for callee outside the library (std / libc)"),
  ("ASAM::CMP::Encoder::closeLastFrame void ()", "lvalue ImplicitCastExpr"),
  ("ASAM::CMP::Encoder::createCmpFrameTemplate void (const ASAM::CMP::Packet &)", "reference type const ASAM::CMP::Packet &"),
  ("ASAM::CMP::Encoder::encode std::vector<std::vector<uint8_t>> (ForwardIterator, ForwardIterator, const ASAM::CMP::DataContext &)", "type std::vector<std::vector<uint8_t>>"),
  ("ASAM::CMP::Encoder::encode std::vector<std::vector<uint8_t>> (ForwardPtrIterator, ForwardPtrIterator, const ASAM::CMP::DataContext &)", "type std::vector<std::vector<uint8_t>>"),
  ("ASAM::CMP::Encoder::encode std::vector<std::vector<uint8_t>> (const ASAM::CMP::Packet &, const ASAM::CMP::DataContext &)", "type std::vector<std::vector<uint8_t>>"),
  ("ASAM::CMP::Encoder::getEncodedData std::vector<std::vector<uint8_t>> ()", "type std::vector<std::vector<uint8_t>>"),
  ("ASAM::CMP::Encoder::init void (const ASAM::CMP::DataContext &)", "reference type const ASAM::CMP::DataContext &"),
  ("ASAM::CMP::Encoder::putPacket void (const ASAM::CMP::Packet &)", "reference type const ASAM::CMP::Packet &"),
  ("ASAM::CMP::Encoder::setDeviceId void (uint16_t)", "no body for callee outside the library (std / libc)"),
  ("ASAM::CMP::Encoder::setMessageType void (const ASAM::CMP::Packet &)", "reference type const ASAM::CMP::Packet &"),
  ("ASAM::CMP::Encoder::setStreamId void (uint8_t)", "no body for callee outside the library (std / libc)"),
  ("ASAM::CMP::InterfaceStatus::getPacket ASAM::CMP::Packet &()", "reference type ASAM::CMP::Packet &"),
  ("ASAM::CMP::InterfaceStatus::getPacket const ASAM::CMP::Packet &() const", "reference type const ASAM::CMP::Packet &"),
  ("ASAM::CMP::InterfaceStatus::operator= ASAM::CMP::InterfaceStatus &(ASAM::CMP::InterfaceStatus &&) noexcept", "reference type ASAM::CMP::InterfaceStatus &"),
  ("ASAM::CMP::InterfaceStatus::update void (const ASAM::CMP::Packet &)", "reference type const ASAM::CMP::Packet &"),
  ("ASAM::CMP::Packet::create std::unique_ptr<Payload> (const ASAM::CMP::PayloadType, const uint8_t *, const size_t)", "type std::unique_ptr<Payload>"),
  ("ASAM::CMP::Packet::getMessageType CmpHeader::MessageType () const", "overloaded operator"),
  ("ASAM::CMP::Packet::getPayload ASAM::CMP::Payload &()", "reference type ASAM::CMP::Payload &"),
  ("ASAM::CMP::Packet::getPayload const ASAM::CMP::Payload &() const", "reference type const ASAM::CMP::Payload &"),
  ("ASAM::CMP::Packet::getPayloadLength uint16_t () const", "UserDefinedConversion"),
  ("ASAM::CMP::Packet::getPayloadType uint8_t () const", "overloaded operator"),
  ("ASAM::CMP::Packet::getRawCmpHeader void (void *) const", "type ASAM::CMP::CmpHeader"),
  ("ASAM::CMP::Packet::getRawMessageHeader void (void *) const", "type ASAM::CMP::MessageHeader"),
  ("ASAM::CMP::Packet::isValid bool () const", "UserDefinedConversion"),
  ("ASAM::CMP::Packet::operator= ASAM::CMP::Packet &(ASAM::CMP::Packet &&) noexcept", "reference type ASAM::CMP::Packet &"),
  ("ASAM::CMP::Packet::operator= ASAM::CMP::Packet &(const ASAM::CMP::Packet &)", "reference type ASAM::CMP::Packet &"),
  ("ASAM::CMP::Packet::setMessageHeader void (const CmpHeader::MessageType, ASAM::CMP::MessageHeader)", "type ASAM::CMP::MessageHeader"),
  ("ASAM::CMP::Packet::setPayload void (const ASAM::CMP::Payload &)", "reference type const ASAM::CMP::Payload &"),
  ("ASAM::CMP::Payload::getType ASAM::CMP::PayloadType () const", "expression CXXConstructExpr"),
  ("ASAM::CMP::Payload::setData void (const uint8_t *, const size_t)", "sizeof(Header) unknown"),
  ("ASAM::CMP::Payload::setType void (const ASAM::CMP::PayloadType)", "overloaded operator"),
  ("ASAM::CMP::PayloadType::operator= ASAM::CMP::PayloadType &(const ASAM::CMP::PayloadType &) noexcept", "reference type ASAM::CMP::PayloadType &"),
  ("ASAM::CMP::Status::clear void ()", "no body for callee outside the library (std / libc)"),
  ("ASAM::CMP::Status::getDeviceStatus ASAM::CMP::DeviceStatus &(std::size_t)", "reference type ASAM::CMP::DeviceStatus &"),
  ("ASAM::CMP::Status::getDeviceStatus const ASAM::CMP::DeviceStatus &(std::size_t) const", "reference type const ASAM::CMP::DeviceStatus &"),
  ("ASAM::CMP::Status::getDeviceStatusCount std::size_t () const", "no body for callee outside the library (std / libc)"),
  ("ASAM::CMP::Status::getIndexByDeviceId size_t (const uint16_t) const", "type __gnu_cxx::__normal_iterator<const ASAM::CMP::DeviceStatus *, std::vector<ASAM::CMP::DeviceStatus>>"),
  ("ASAM::CMP::Status::getIndexByDeviceId::devIt::operator() bool (const ASAM::CMP::DeviceStatus &) const", "reference type const ASAM::CMP::DeviceStatus &"),
  ("ASAM::CMP::Status::removeDeviceById void (uint16_t)", "type __gnu_cxx::__normal_iterator<const ASAM::CMP::DeviceStatus *, std::vector<ASAM::CMP::DeviceStatus>>"),
  ("ASAM::CMP::Status::update void (const ASAM::CMP::Packet &)", "reference type const ASAM::CMP::Packet &"),
  ("ASAM::CMP::operator!= bool (const ASAM::CMP::Packet &, const ASAM::CMP::Packet &) noexcept", "reference type const ASAM::CMP::Packet &"),
  ("ASAM::CMP::operator!= bool (const ASAM::CMP::PayloadType, const ASAM::CMP::PayloadType) noexcept", "method call on a local object"),
  ("ASAM::CMP::operator== bool (const ASAM::CMP::Packet &, const ASAM::CMP::Packet &) noexcept", "reference type const ASAM::CMP::Packet &"),
  ("ASAM::CMP::operator== bool (const ASAM::CMP::Payload &, const ASAM::CMP::Payload &) noexcept", "reference type const ASAM::CMP::Payload &"),
  ("ASAM::CMP::operator== bool (const ASAM::CMP::PayloadType, const ASAM::CMP::PayloadType) noexcept", "method call on a local object"),
  ("ASAM::CMP::swap void (ASAM::CMP::Packet &, ASAM::CMP::Packet &) noexcept", "reference type ASAM::CMP::Packet &"),
  ("ASAM::CMP::swapEndian float (const float)", "type float"),
  ("TECMP::CanPayload::getCrc uint32_t () const", "address of a local"),
  ("TECMP::CaptureModulePayload::getHwVersion std::string () const", "type std::string"),
  ("TECMP::CaptureModulePayload::getSwVersion std::string () const", "type std::string"),
  ("TECMP::CaptureModulePayload::getVoltage float () const", "type float"),
  ("TECMP::Converter::ConvertCanFdPayload PacketPtr (TECMP::CanPayload *, TECMP::Converter::PacketPtr)", "type PacketPtr"),
  ("TECMP::Converter::ConvertCanPayload PacketPtr (TECMP::CmpHeader &, const TECMP::Converter::TecmpPayloadPtr &)", "type PacketPtr"),
  ("TECMP::Converter::ConvertCaptureModulePayload PacketPtr (TECMP::CmpHeader &, const TECMP::Converter::TecmpPayloadPtr &)", "type PacketPtr"),
  ("TECMP::Converter::ConvertDataPayload PacketPtr (TECMP::CmpHeader &, const TECMP::Converter::TecmpPayloadPtr &)", "type PacketPtr"),
  ("TECMP::Converter::ConvertInterfacePayload PacketPtr (TECMP::CmpHeader &, const TECMP::Converter::TecmpPayloadPtr &)", "type PacketPtr"),
  ("TECMP::Converter::ConvertPacket PacketPtr (TECMP::CmpHeader &, const TECMP::Converter::TecmpPayloadPtr &)", "type PacketPtr"),
  ("TECMP::Converter::GetPackageFromTecmpHeader PacketPtr (const TECMP::CmpHeader &)", "type PacketPtr"),
  ("TECMP::Converter::convertLinPayload PacketPtr (TECMP::CmpHeader &, const TECMP::Converter::TecmpPayloadPtr &)", "type PacketPtr"),
  ("TECMP::Decoder::ConvertPacketsToAsam std::vector<PacketPtr> (std::vector<TecmpPayloadPtr>, TECMP::CmpHeader &)", "type std::vector<PacketPtr>"),
  ("TECMP::Decoder::Decode std::vector<PacketPtr> (const void *, const std::size_t)", "type std::vector<PacketPtr>"),
  ("TECMP::Decoder::GetCanPayload TecmpPayloadPtr (const uint8_t *, const std::size_t)", "type TecmpPayloadPtr"),
  ("TECMP::Decoder::GetCaptureModulePayload TecmpPayloadPtr (const uint8_t *, const std::size_t)", "type TecmpPayloadPtr"),
  ("TECMP::Decoder::GetDataPayload TecmpPayloadPtr (const uint8_t *, const std::size_t, TECMP::CmpHeader &)", "type TecmpPayloadPtr"),
  ("TECMP::Decoder::GetHeader TECMP::CmpHeader (const void *, const std::size_t, uint8_t **)", "type TECMP::CmpHeader"),
  ("TECMP::Decoder::GetInterfacePayload std::vector<TecmpPayloadPtr> (const uint8_t *, const std::size_t, TECMP::CmpHeader &)", "type std::vector<TecmpPayloadPtr>"),
  ("TECMP::Decoder::GetLinPayload TecmpPayloadPtr (const uint8_t *, const std::size_t)", "type TecmpPayloadPtr"),
  ("TECMP::Decoder::HandlePayload std::vector<TecmpPayloadPtr> (const uint8_t *, const std::size_t, TECMP::CmpHeader &)", "type std::vector<TecmpPayloadPtr>"),
  ("TECMP::InterfacePayload::setBusData void (const uint8_t *, const uint8_t)", "declaration outside the library"),
  ("TECMP::InterfacePayload::setGenericData void (const uint8_t *)", "declaration outside the library"),
  ("TECMP::Payload::getType TECMP::PayloadType () const", "expression CXXConstructExpr"),
  ("TECMP::Payload::setData void (const uint8_t *, const size_t)", "sizeof(Header) unknown"),
  ("TECMP::Payload::setType void (const TECMP::PayloadType)", "overloaded operator"),
  ("TECMP::PayloadType::operator= TECMP::PayloadType &(const TECMP::PayloadType &) noexcept", "reference type TECMP::PayloadType &"),
  ("TECMP::operator!= bool (const TECMP::PayloadType, const TECMP::PayloadType) noexcept", "method call on a local object"),
  ("TECMP::operator== bool (const TECMP::Payload &, const TECMP::Payload &) noexcept", "reference type const TECMP::Payload &"),
  ("TECMP::operator== bool (const TECMP::PayloadType, const TECMP::PayloadType) noexcept", "method call on a local object")
]

/-- reflected layout: sizeof of every wire record, (offset, size) of every member -/
def sizeof_AnalogPayload_Header : Nat := 16
def sizeof_CanPayloadBase_Header : Nat := 16
def sizeof_CaptureModulePayload_Header : Nat := 26
def sizeof_CmpHeader : Nat := 8
def sizeof_DataContext : Nat := 16
def sizeof_Decoder : Nat := 56
def sizeof_Decoder_Endpoint : Nat := 4
def sizeof_Decoder_SegmentedPacket : Nat := 32
def sizeof_DeviceStatus : Nat := 56
def sizeof_Encoder : Nat := 88
def sizeof_EthernetPayload_Header : Nat := 6
def sizeof_InterfacePayload_Header : Nat := 36
def sizeof_InterfaceStatus : Nat := 40
def sizeof_LinPayload_Header : Nat := 8
def sizeof_MessageHeader : Nat := 16
def sizeof_MessageHeader_Vendor : Nat := 4
def sizeof_Packet : Nat := 32
def sizeof_Payload : Nat := 40
def sizeof_PayloadType : Nat := 4
def sizeof_Status : Nat := 24
def sizeof_TECMP_CanPayload_Header : Nat := 5
def sizeof_TECMP_CaptureModulePayload_Header : Nat := 36
def sizeof_TECMP_CaptureModulePayload_Header_VendorData : Nat := 24
def sizeof_TECMP_CaptureModulePayload_Header_VendorData_HwVersion : Nat := 2
def sizeof_TECMP_CaptureModulePayload_Header_VendorData_SwVersion : Nat := 3
def sizeof_TECMP_CaptureModulePayload_Header_VendorData_Voltage : Nat := 2
def sizeof_TECMP_CmpHeader : Nat := 28
def sizeof_TECMP_InterfacePayload_Header : Nat := 28
def sizeof_TECMP_InterfacePayload_Header_BusData : Nat := 12
def sizeof_TECMP_InterfacePayload_Header_VendorData : Nat := 4
def sizeof_TECMP_LinPayload_Header : Nat := 2
def sizeof_TECMP_Payload : Nat := 40
def sizeof_TECMP_PayloadType : Nat := 4
def off_AnalogPayload_Header_flags : Nat := 0
def off_AnalogPayload_Header_reserved : Nat := 2
def off_AnalogPayload_Header_sampleInterval : Nat := 4
def off_AnalogPayload_Header_sampleOffset : Nat := 8
def off_AnalogPayload_Header_sampleScalar : Nat := 12
def off_AnalogPayload_Header_unit : Nat := 3
def off_CanPayloadBase_Header_crc : Nat := 8
def off_CanPayloadBase_Header_dataLength : Nat := 15
def off_CanPayloadBase_Header_dlc : Nat := 14
def off_CanPayloadBase_Header_errorPosition : Nat := 12
def off_CanPayloadBase_Header_flags : Nat := 0
def off_CanPayloadBase_Header_id : Nat := 4
def off_CanPayloadBase_Header_reserved : Nat := 2
def off_CaptureModulePayload_Header_currentUtcOffset : Nat := 20
def off_CaptureModulePayload_Header_domainNumber : Nat := 23
def off_CaptureModulePayload_Header_gPtpFlags : Nat := 25
def off_CaptureModulePayload_Header_gmClockQuality : Nat := 16
def off_CaptureModulePayload_Header_gmIdentity : Nat := 8
def off_CaptureModulePayload_Header_reserved : Nat := 24
def off_CaptureModulePayload_Header_timeSource : Nat := 22
def off_CaptureModulePayload_Header_uptime : Nat := 0
def off_CmpHeader_deviceId : Nat := 2
def off_CmpHeader_messageType : Nat := 4
def off_CmpHeader_reserved : Nat := 1
def off_CmpHeader_sequenceCounter : Nat := 6
def off_CmpHeader_streamId : Nat := 5
def off_CmpHeader_version : Nat := 0
def off_DataContext_maxBytesPerMessage : Nat := 8
def off_DataContext_minBytesPerMessage : Nat := 0
def off_Decoder_segmentedPackets : Nat := 0
def off_Decoder_Endpoint_deviceId : Nat := 0
def off_Decoder_Endpoint_streamId : Nat := 2
def off_Decoder_SegmentedPacket_curMessageType : Nat := 26
def off_Decoder_SegmentedPacket_curSegment : Nat := 28
def off_Decoder_SegmentedPacket_curVersion : Nat := 25
def off_Decoder_SegmentedPacket_payload : Nat := 0
def off_Decoder_SegmentedPacket_segmentType : Nat := 24
def off_DeviceStatus_devicePacket : Nat := 24
def off_DeviceStatus_interfaces : Nat := 0
def off_Encoder_bytesLeft : Nat := 48
def off_Encoder_cmpFrameTemplate : Nat := 24
def off_Encoder_cmpFrames : Nat := 64
def off_Encoder_deviceId : Nat := 16
def off_Encoder_maxBytesPerMessage : Nat := 8
def off_Encoder_messageType : Nat := 58
def off_Encoder_minBytesPerMessage : Nat := 0
def off_Encoder_sequenceCounter : Nat := 56
def off_Encoder_streamId : Nat := 18
def off_EthernetPayload_Header_dataLength : Nat := 4
def off_EthernetPayload_Header_flags : Nat := 0
def off_EthernetPayload_Header_reserved : Nat := 2
def off_InterfacePayload_Header_errorsTotalRx : Nat := 20
def off_InterfacePayload_Header_errorsTotalTx : Nat := 24
def off_InterfacePayload_Header_featureSupportBitmask : Nat := 32
def off_InterfacePayload_Header_interfaceId : Nat := 0
def off_InterfacePayload_Header_interfaceStatus : Nat := 29
def off_InterfacePayload_Header_interfaceType : Nat := 28
def off_InterfacePayload_Header_msgDroppedRx : Nat := 12
def off_InterfacePayload_Header_msgDroppedTx : Nat := 16
def off_InterfacePayload_Header_msgTotalRx : Nat := 4
def off_InterfacePayload_Header_msgTotalTx : Nat := 8
def off_InterfacePayload_Header_reserved : Nat := 30
def off_InterfaceStatus_interfaceId : Nat := 32
def off_InterfaceStatus_interfacePacket : Nat := 0
def off_LinPayload_Header_checksum : Nat := 6
def off_LinPayload_Header_dataLength : Nat := 7
def off_LinPayload_Header_flags : Nat := 0
def off_LinPayload_Header_pid : Nat := 4
def off_LinPayload_Header_reserved1 : Nat := 2
def off_LinPayload_Header_reserved2 : Nat := 5
def off_MessageHeader_commonFlags : Nat := 12
def off_MessageHeader_interfaceId : Nat := 8
def off_MessageHeader_payloadLength : Nat := 14
def off_MessageHeader_payloadType : Nat := 13
def off_MessageHeader_timestamp : Nat := 0
def off_MessageHeader_vendor : Nat := 8
def off_MessageHeader_Vendor_reserved : Nat := 0
def off_MessageHeader_Vendor_vendorId : Nat := 2
def off_Packet_commonFlags : Nat := 30
def off_Packet_deviceId : Nat := 10
def off_Packet_interfaceId : Nat := 24
def off_Packet_payload : Nat := 0
def off_Packet_segmentType : Nat := 31
def off_Packet_sequenceCounter : Nat := 14
def off_Packet_streamId : Nat := 12
def off_Packet_timestamp : Nat := 16
def off_Packet_vendorId : Nat := 28
def off_Packet_version : Nat := 8
def off_Payload_payloadData : Nat := 8
def off_Payload_type : Nat := 32
def off_PayloadType_type : Nat := 0
def off_Status_devices : Nat := 0
def off_TECMP_CanPayload_Header_arbId : Nat := 0
def off_TECMP_CanPayload_Header_dlc : Nat := 4
def off_TECMP_CaptureModulePayload_Header_deviceId : Nat := 6
def off_TECMP_CaptureModulePayload_Header_deviceType : Nat := 2
def off_TECMP_CaptureModulePayload_Header_deviceVersion : Nat := 1
def off_TECMP_CaptureModulePayload_Header_reserved : Nat := 3
def off_TECMP_CaptureModulePayload_Header_serialNumber : Nat := 8
def off_TECMP_CaptureModulePayload_Header_vendorData : Nat := 12
def off_TECMP_CaptureModulePayload_Header_vendorDataLength : Nat := 4
def off_TECMP_CaptureModulePayload_Header_vendorId : Nat := 0
def off_TECMP_CaptureModulePayload_Header_VendorData_bufferFill : Nat := 6
def off_TECMP_CaptureModulePayload_Header_VendorData_bufferSize : Nat := 8
def off_TECMP_CaptureModulePayload_Header_VendorData_chassisTemp : Nat := 22
def off_TECMP_CaptureModulePayload_Header_VendorData_hwVersion : Nat := 4
def off_TECMP_CaptureModulePayload_Header_VendorData_isBufferOverflow : Nat := 7
def off_TECMP_CaptureModulePayload_Header_VendorData_lifecycle : Nat := 12
def off_TECMP_CaptureModulePayload_Header_VendorData_reserved : Nat := 0
def off_TECMP_CaptureModulePayload_Header_VendorData_silliconTemp : Nat := 23
def off_TECMP_CaptureModulePayload_Header_VendorData_swVersion : Nat := 1
def off_TECMP_CaptureModulePayload_Header_VendorData_voltage : Nat := 20
def off_TECMP_CaptureModulePayload_Header_VendorData_HwVersion_major : Nat := 0
def off_TECMP_CaptureModulePayload_Header_VendorData_HwVersion_minor : Nat := 1
def off_TECMP_CaptureModulePayload_Header_VendorData_SwVersion_major : Nat := 0
def off_TECMP_CaptureModulePayload_Header_VendorData_SwVersion_minor : Nat := 1
def off_TECMP_CaptureModulePayload_Header_VendorData_SwVersion_patch : Nat := 2
def off_TECMP_CaptureModulePayload_Header_VendorData_Voltage_frac : Nat := 1
def off_TECMP_CaptureModulePayload_Header_VendorData_Voltage_whole : Nat := 0
def off_TECMP_CmpHeader_IsTecmp : Nat := 0
def off_TECMP_CmpHeader_dataFlags : Nat := 26
def off_TECMP_CmpHeader_dataType : Nat := 6
def off_TECMP_CmpHeader_deviceFlags : Nat := 10
def off_TECMP_CmpHeader_deviceId : Nat := 1
def off_TECMP_CmpHeader_interfaceId : Nat := 12
def off_TECMP_CmpHeader_messageType : Nat := 5
def off_TECMP_CmpHeader_payloadLength : Nat := 24
def off_TECMP_CmpHeader_reserved : Nat := 8
def off_TECMP_CmpHeader_sequenceCounter : Nat := 2
def off_TECMP_CmpHeader_timestamp : Nat := 16
def off_TECMP_CmpHeader_version : Nat := 4
def off_TECMP_InterfacePayload_Header_busData : Nat := 12
def off_TECMP_InterfacePayload_Header_cmType : Nat := 2
def off_TECMP_InterfacePayload_Header_cmVersion : Nat := 1
def off_TECMP_InterfacePayload_Header_deviceId : Nat := 6
def off_TECMP_InterfacePayload_Header_reserved : Nat := 3
def off_TECMP_InterfacePayload_Header_serialNumber : Nat := 8
def off_TECMP_InterfacePayload_Header_vendorData : Nat := 24
def off_TECMP_InterfacePayload_Header_vendorDataLength : Nat := 4
def off_TECMP_InterfacePayload_Header_vendorId : Nat := 0
def off_TECMP_InterfacePayload_Header_BusData_errorsTotal : Nat := 8
def off_TECMP_InterfacePayload_Header_BusData_interfaceId : Nat := 0
def off_TECMP_InterfacePayload_Header_BusData_messagesTotal : Nat := 4
def off_TECMP_InterfacePayload_Header_VendorData_linkQuality : Nat := 1
def off_TECMP_InterfacePayload_Header_VendorData_linkStatus : Nat := 0
def off_TECMP_InterfacePayload_Header_VendorData_linkupTime : Nat := 2
def off_TECMP_LinPayload_Header_dataLength : Nat := 1
def off_TECMP_LinPayload_Header_pid : Nat := 0
def off_TECMP_Payload_payloadData : Nat := 8
def off_TECMP_Payload_type : Nat := 32
def off_TECMP_PayloadType_type : Nat := 0

def translatedNames : List String := ["swapEndian_u16", "AnalogPayload_Header_getFlags", "AnalogPayload_Header_getSampleDt", "AnalogPayload_Header_getUnit", "AnalogPayload_Header_setFlags", "to_underlying_u16", "AnalogPayload_Header_setSampleDt", "to_underlying_u8", "AnalogPayload_Header_setUnit", "Payload_getLength", "AnalogPayload_getHeader_v", "AnalogPayload_getSamplesCount", "AnalogPayload_getData", "AnalogPayload_getFlags", "AnalogPayload_getHeader_v2", "AnalogPayload_getSampleDt", "AnalogPayload_getUnit", "AnalogPayload_isValidPayload", "Payload_setData_x_u64", "AnalogPayload_setData", "AnalogPayload_setFlags", "AnalogPayload_setSampleDt", "AnalogPayload_setUnit", "CanPayloadBase_getHeader_v", "swapEndian_u32", "CanPayloadBase_Header_getCrcSbc", "CanFdPayload_getCrc", "CanPayloadBase_Header_getRtrRrs", "CanFdPayload_getRrs", "CanPayloadBase_Header_getSbc", "CanFdPayload_getSbc", "CanPayloadBase_Header_getSbcParity", "CanFdPayload_getSbcParity", "CanPayloadBase_Header_getSbcSupport", "CanFdPayload_getSbcSupport", "CanPayloadBase_getHeader_v2", "CanPayloadBase_Header_setCrcSbc", "CanFdPayload_setCrc", "CanPayloadBase_Header_setRtrRrs", "CanFdPayload_setRrs", "CanPayloadBase_Header_setSbc", "CanFdPayload_setSbc", "CanPayloadBase_Header_setSbcParity", "CanFdPayload_setSbcParity", "CanPayloadBase_Header_setSbcSupport", "CanFdPayload_setSbcSupport", "CanPayloadBase_Header_getCrc", "CanPayload_getCrc", "CanPayload_getRtr", "CanPayloadBase_Header_setCrc", "CanPayload_setCrc", "CanPayload_setRtr", "CanPayloadBase_Header_getCrcSupport", "CanPayloadBase_Header_getDataLength", "CanPayloadBase_Header_getDlc", "CanPayloadBase_Header_getErrorPosition", "CanPayloadBase_Header_getFlags", "CanPayloadBase_Header_getFlag", "CanPayloadBase_Header_getId", "CanPayloadBase_Header_getIde", "CanPayloadBase_Header_getRsvd", "CanPayloadBase_Header_hasError", "CanPayloadBase_Header_setCrcSupport", "CanPayloadBase_Header_setDataLength", "CanPayloadBase_Header_setDlc", "CanPayloadBase_Header_setErrorPosition", "CanPayloadBase_Header_setFlags", "CanPayloadBase_Header_setFlag", "CanPayloadBase_Header_setId", "CanPayloadBase_Header_setIde", "CanPayloadBase_Header_setRsvd", "CanPayloadBase_encodeDlc", "CanPayloadBase_getCrcSupport", "CanPayloadBase_getDataLength", "CanPayloadBase_getData", "CanPayloadBase_getDlc", "CanPayloadBase_getErrorPosition", "CanPayloadBase_getFlag", "CanPayloadBase_getFlags", "CanPayloadBase_getId", "CanPayloadBase_getIde", "CanPayloadBase_getRsvd", "CanPayloadBase_isValidPayload", "CanPayloadBase_setCrcSupport", "Payload_setData_x_u642", "CanPayloadBase_setData", "CanPayloadBase_setErrorPosition", "CanPayloadBase_setFlag", "CanPayloadBase_setFlags", "CanPayloadBase_setId", "CanPayloadBase_setIde", "CanPayloadBase_setRsvd", "CaptureModulePayload_Header_getCurrentUtcOffset", "CaptureModulePayload_Header_getDomainNumber", "CaptureModulePayload_Header_getGmClockQuality", "swapEndian_u64", "CaptureModulePayload_Header_getGmIdentity", "CaptureModulePayload_Header_getGptpFlags", "CaptureModulePayload_Header_getTimeSource", "CaptureModulePayload_Header_getUptime", "CaptureModulePayload_Header_setCurrentUtcOffset", "CaptureModulePayload_Header_setDomainNumber", "CaptureModulePayload_Header_setGmClockQuality", "CaptureModulePayload_Header_setGmIdentity", "CaptureModulePayload_Header_setGptpFlags", "CaptureModulePayload_Header_setTimeSource", "CaptureModulePayload_Header_setUptime", "CaptureModulePayload_fillWithString", "CaptureModulePayload_getHeader_v", "CaptureModulePayload_getCurrentUtcOffset", "CaptureModulePayload_initStringView", "CaptureModulePayload_removeTrailingNulls", "CaptureModulePayload_getDeviceDescription", "CaptureModulePayload_getDomainNumber", "CaptureModulePayload_getGmClockQuality", "CaptureModulePayload_getGmIdentity", "CaptureModulePayload_getGptpFlags", "CaptureModulePayload_getHardwareVersion", "CaptureModulePayload_getHeader_v2", "CaptureModulePayload_getSerialNumber", "CaptureModulePayload_getSoftwareVersion", "CaptureModulePayload_getTimeSource", "CaptureModulePayload_getUptime", "CaptureModulePayload_getVendorData", "CaptureModulePayload_getVendorDataLength", "CaptureModulePayload_getVendorDataStringView", "CaptureModulePayload_isValidPayload", "CaptureModulePayload_setCurrentUtcOffset", "CaptureModulePayload_setData", "CaptureModulePayload_setDomainNumber", "CaptureModulePayload_setGmClockQuality", "CaptureModulePayload_setGmIdentity", "CaptureModulePayload_setGptpFlags", "CaptureModulePayload_setTimeSource", "CaptureModulePayload_setUptime", "CmpHeader_getDeviceId", "CmpHeader_getMessageType", "CmpHeader_getSequenceCounter", "CmpHeader_getStreamId", "CmpHeader_getVersion", "CmpHeader_setDeviceId", "to_underlying_u82", "CmpHeader_setMessageType", "CmpHeader_setSequenceCounter", "CmpHeader_setStreamId", "CmpHeader_setVersion", "MessageHeader_getPayloadLength", "to_underlying_u83", "MessageHeader_getSegmentType", "Decoder_SegmentedPacket_isValidSegmentType", "Decoder_SegmentedPacket_isAssembled", "Decoder_isFirstSegment", "Decoder_isSegmentedPacket", "Encoder_buildSegmentationFlag", "Encoder_getDeviceId", "Encoder_getSequenceCounter", "Encoder_getStreamId", "Encoder_restart", "EthernetPayload_Header_getDataLength", "EthernetPayload_Header_getFlags", "EthernetPayload_Header_getFlag", "EthernetPayload_Header_setDataLength", "EthernetPayload_Header_setFlags", "EthernetPayload_Header_setFlag", "EthernetPayload_getHeader_v", "EthernetPayload_getDataLength", "EthernetPayload_getData", "EthernetPayload_getFlag", "EthernetPayload_getFlags", "EthernetPayload_getHeader_v2", "EthernetPayload_isValidPayload", "Payload_setData_x_u643", "EthernetPayload_setData", "EthernetPayload_setFlag", "EthernetPayload_setFlags", "InterfacePayload_Header_getErrorsTotalRx", "InterfacePayload_Header_getErrorsTotalTx", "InterfacePayload_Header_getFeatureSupportBitmask", "InterfacePayload_Header_getInterfaceId", "InterfacePayload_Header_getInterfaceStatus", "InterfacePayload_Header_getInterfaceType", "InterfacePayload_Header_getMsgDroppedRx", "InterfacePayload_Header_getMsgDroppedTx", "InterfacePayload_Header_getMsgTotalRx", "InterfacePayload_Header_getMsgTotalTx", "InterfacePayload_Header_setErrorsTotalRx", "InterfacePayload_Header_setErrorsTotalTx", "InterfacePayload_Header_setFeatureSupportBitmask", "InterfacePayload_Header_setInterfaceId", "to_underlying_u84", "InterfacePayload_Header_setInterfaceStatus", "InterfacePayload_Header_setInterfaceType", "InterfacePayload_Header_setMsgDroppedRx", "InterfacePayload_Header_setMsgDroppedTx", "InterfacePayload_Header_setMsgTotalRx", "InterfacePayload_Header_setMsgTotalTx", "InterfacePayload_getHeader_v", "InterfacePayload_getErrorsTotalRx", "InterfacePayload_getErrorsTotalTx", "InterfacePayload_getFeatureSupportBitmask", "InterfacePayload_getHeader_v2", "InterfacePayload_getInterfaceId", "InterfacePayload_getInterfaceStatus", "InterfacePayload_getInterfaceType", "InterfacePayload_getMsgDroppedRx", "InterfacePayload_getMsgDroppedTx", "InterfacePayload_getMsgTotalRx", "InterfacePayload_getMsgTotalTx", "InterfacePayload_getStreamIdCountPtr", "InterfacePayload_toUint16", "InterfacePayload_getStreamIdsCount", "InterfacePayload_getStreamIds", "InterfacePayload_getVendorDataLengthPtr", "InterfacePayload_getVendorDataLength", "InterfacePayload_getVendorData", "InterfacePayload_isValidPayload", "InterfacePayload_setData", "InterfacePayload_setErrorsTotalRx", "InterfacePayload_setErrorsTotalTx", "InterfacePayload_setFeatureSupportBitmask", "InterfacePayload_setInterfaceId", "InterfacePayload_setInterfaceStatus", "InterfacePayload_setInterfaceType", "InterfacePayload_setMsgDroppedRx", "InterfacePayload_setMsgDroppedTx", "InterfacePayload_setMsgTotalRx", "InterfacePayload_setMsgTotalTx", "InterfaceStatus_getInterfaceId", "LinPayload_Header_getChecksum", "LinPayload_Header_getDataLength", "LinPayload_Header_getFlags", "LinPayload_Header_getFlag", "LinPayload_Header_getLinId", "LinPayload_Header_getParityBits", "LinPayload_Header_setChecksum", "LinPayload_Header_setDataLength", "LinPayload_Header_setFlags", "LinPayload_Header_setFlag", "LinPayload_Header_setLinId", "LinPayload_Header_setParityBits", "LinPayload_getHeader_v", "LinPayload_getChecksum", "LinPayload_getDataLength", "LinPayload_getData", "LinPayload_getFlag", "LinPayload_getFlags", "LinPayload_getHeader_v2", "LinPayload_getLinId", "LinPayload_getParityBits", "LinPayload_isValidPayload", "LinPayload_setChecksum", "Payload_setData_x_u644", "LinPayload_setData", "LinPayload_setFlag", "LinPayload_setFlags", "LinPayload_setLinId", "LinPayload_setParityBits", "MessageHeader_getCommonFlag", "MessageHeader_getCommonFlags", "MessageHeader_getInterfaceId", "MessageHeader_getPayloadType", "MessageHeader_getTimestamp", "MessageHeader_getVendorId", "MessageHeader_setCommonFlag", "MessageHeader_setCommonFlags", "MessageHeader_setInterfaceId", "MessageHeader_setPayloadLength", "MessageHeader_setPayloadType", "to_underlying_u85", "MessageHeader_setSegmentType", "MessageHeader_setTimestamp", "MessageHeader_setVendorId", "Packet_getCommonFlag", "Packet_getCommonFlags", "Packet_getDeviceId", "Packet_getInterfaceId", "Packet_getSegmentType", "Packet_getSequenceCounter", "Packet_getStreamId", "Packet_getTimestamp", "Packet_getVendorId", "Packet_getVersion", "Packet_isValidPacket", "Packet_setCommonFlag", "Packet_setCommonFlags", "Packet_setDeviceId", "Packet_setInterfaceId", "Packet_setSegmentType", "Packet_setSequenceCounter", "Packet_setStreamId", "Packet_setTimestamp", "Packet_setVendorId", "Packet_setVersion", "PayloadType_getMessageType", "Payload_getMessageType", "Payload_getRawPayload", "PayloadType_getRawPayloadType", "Payload_getRawPayloadType", "PayloadType_isValid", "Payload_isValid", "PayloadType_setMessageType", "Payload_setMessageType", "PayloadType_setRawPayloadType", "Payload_setRawPayloadType", "PayloadType_getType", "PayloadType_setType", "swapEndian_u8", "to_underlying_u162", "to_underlying_u86", "TECMP_CanPayload_Header_getArbId", "TECMP_CanPayload_Header_getDlc", "TECMP_CanPayload_Header_setArbId", "TECMP_CanPayload_Header_setDlc", "TECMP_CanPayload_getHeader_v", "TECMP_CanPayload_getArbId", "TECMP_CanPayload_getData", "TECMP_CanPayload_getDlc", "TECMP_CanPayload_getHeader_v2", "TECMP_CanPayload_setArbId", "TECMP_CanPayload_setDlc", "TECMP_CaptureModulePayload_Header_getBufferFill", "TECMP_CaptureModulePayload_Header_getBufferSize", "TECMP_CaptureModulePayload_Header_getChassisTemp", "TECMP_CaptureModulePayload_Header_getDeviceId", "TECMP_CaptureModulePayload_Header_getDeviceType", "TECMP_CaptureModulePayload_Header_getDeviceVersion", "TECMP_CaptureModulePayload_Header_getHwVersionMajor", "TECMP_CaptureModulePayload_Header_getHwVersionMinor", "TECMP_CaptureModulePayload_Header_getIsBufferOverflow", "TECMP_CaptureModulePayload_Header_getLifecycle", "TECMP_CaptureModulePayload_Header_getSerialNumber", "TECMP_CaptureModulePayload_Header_getSilliconTemp", "TECMP_CaptureModulePayload_Header_getSwVersionMajor", "TECMP_CaptureModulePayload_Header_getSwVersionMinor", "TECMP_CaptureModulePayload_Header_getSwVersionPatch", "TECMP_CaptureModulePayload_Header_getVendorDataLength", "TECMP_CaptureModulePayload_Header_getVendorId", "TECMP_CaptureModulePayload_Header_getVoltageFraction", "TECMP_CaptureModulePayload_Header_getVoltageWhole", "TECMP_CaptureModulePayload_Header_setBufferFill", "TECMP_CaptureModulePayload_Header_setBufferSize", "TECMP_CaptureModulePayload_Header_setChassisTemp", "TECMP_CaptureModulePayload_Header_setDeviceId", "TECMP_CaptureModulePayload_Header_setDeviceType", "TECMP_CaptureModulePayload_Header_setDeviceVersion", "TECMP_CaptureModulePayload_Header_setHwVersionMajor", "TECMP_CaptureModulePayload_Header_setHwVersionMinor", "TECMP_CaptureModulePayload_Header_setIsBufferOverflow", "TECMP_CaptureModulePayload_Header_setLifecycle", "TECMP_CaptureModulePayload_Header_setSerialNumber", "TECMP_CaptureModulePayload_Header_setSilliconTemp", "TECMP_CaptureModulePayload_Header_setSwVersionMajor", "TECMP_CaptureModulePayload_Header_setSwVersionMinor", "TECMP_CaptureModulePayload_Header_setSwVersionPatch", "TECMP_CaptureModulePayload_Header_setVendorDataLength", "TECMP_CaptureModulePayload_Header_setVendorId", "TECMP_CaptureModulePayload_Header_setVoltageFraction", "TECMP_CaptureModulePayload_Header_setVoltageWhole", "TECMP_CaptureModulePayload_getHeader_v", "TECMP_CaptureModulePayload_getBufferFill", "TECMP_CaptureModulePayload_getBufferSize", "TECMP_CaptureModulePayload_getChassisTemp", "TECMP_CaptureModulePayload_getDeviceId", "TECMP_CaptureModulePayload_getDeviceType", "TECMP_CaptureModulePayload_getDeviceVersion", "TECMP_CaptureModulePayload_getHeader_v2", "TECMP_CaptureModulePayload_getHwVersionMajor", "TECMP_CaptureModulePayload_getHwVersionMinor", "TECMP_CaptureModulePayload_getIsBufferOverflow", "TECMP_CaptureModulePayload_getLifecycle", "TECMP_CaptureModulePayload_getSerialNumber", "TECMP_CaptureModulePayload_getSilliconTemp", "TECMP_CaptureModulePayload_getSwVersionMajor", "TECMP_CaptureModulePayload_getSwVersionMinor", "TECMP_CaptureModulePayload_getSwVersionPatch", "TECMP_CaptureModulePayload_getVendorDataLength", "TECMP_CaptureModulePayload_getVendorId", "TECMP_CaptureModulePayload_getVoltageFraction", "TECMP_CaptureModulePayload_getVoltageWhole", "TECMP_CaptureModulePayload_setBufferFill", "TECMP_CaptureModulePayload_setBufferSize", "TECMP_CaptureModulePayload_setChassisTemp", "TECMP_CaptureModulePayload_setDeviceId", "TECMP_CaptureModulePayload_setDeviceType", "TECMP_CaptureModulePayload_setDeviceVersion", "TECMP_CaptureModulePayload_setHwVersionMajor", "TECMP_CaptureModulePayload_setHwVersionMinor", "TECMP_CaptureModulePayload_setIsBufferOverflow", "TECMP_CaptureModulePayload_setLifecycle", "TECMP_CaptureModulePayload_setSerialNumber", "TECMP_CaptureModulePayload_setSilliconTemp", "TECMP_CaptureModulePayload_setSwVersionMajor", "TECMP_CaptureModulePayload_setSwVersionMinor", "TECMP_CaptureModulePayload_setSwVersionPatch", "TECMP_CaptureModulePayload_setVendorDataLength", "TECMP_CaptureModulePayload_setVendorId", "TECMP_CaptureModulePayload_setVoltageFraction", "TECMP_CaptureModulePayload_setVoltageWhole", "TECMP_CmpHeader_getDataType", "TECMP_CmpHeader_getDeviceFlags", "TECMP_CmpHeader_getDeviceId", "TECMP_CmpHeader_getInterfaceId", "TECMP_CmpHeader_getMessageType", "TECMP_CmpHeader_getPayloadLength", "TECMP_CmpHeader_getSequenceCounter", "TECMP_CmpHeader_getTimestamp", "TECMP_CmpHeader_getVersion", "TECMP_CmpHeader_isValid", "TECMP_CmpHeader_setDataType", "TECMP_CmpHeader_setDeviceFlags", "TECMP_CmpHeader_setDeviceId", "TECMP_CmpHeader_setInterfaceId", "TECMP_CmpHeader_setMessageType", "TECMP_CmpHeader_setPayloadLength", "TECMP_CmpHeader_setSequenceCounter", "TECMP_CmpHeader_setTimestamp", "TECMP_CmpHeader_setVersion", "TECMP_InterfacePayload_Header_getCmType", "TECMP_InterfacePayload_Header_getCmVersion", "TECMP_InterfacePayload_Header_getDeviceId", "TECMP_InterfacePayload_Header_getErrorsTotal", "TECMP_InterfacePayload_Header_getInterfaceId", "TECMP_InterfacePayload_Header_getMessagesTotal", "TECMP_InterfacePayload_Header_getSerialNumber", "TECMP_InterfacePayload_Header_getVendorDataLength", "TECMP_InterfacePayload_Header_getVendorDataLinkQuality", "TECMP_InterfacePayload_Header_getVendorDataLinkStatus", "TECMP_InterfacePayload_Header_getVendorDataLinkupTime", "TECMP_InterfacePayload_Header_getVendorId", "TECMP_InterfacePayload_Header_setCmType", "TECMP_InterfacePayload_Header_setCmVersion", "TECMP_InterfacePayload_Header_setDeviceId", "TECMP_InterfacePayload_Header_setErrorsTotal", "TECMP_InterfacePayload_Header_setInterfaceId", "TECMP_InterfacePayload_Header_setMessagesTotal", "TECMP_InterfacePayload_Header_setSerialNumber", "TECMP_InterfacePayload_Header_setVendorDataLength", "TECMP_InterfacePayload_Header_setVendorDataLinkQuality", "TECMP_InterfacePayload_Header_setVendorDataLinkStatus", "TECMP_InterfacePayload_Header_setVendorDataLinkupTime", "TECMP_InterfacePayload_Header_setVendorId", "TECMP_InterfacePayload_getHeader_v", "TECMP_InterfacePayload_getCmType", "TECMP_InterfacePayload_getCmVersion", "TECMP_InterfacePayload_getDeviceId", "TECMP_InterfacePayload_getErrorsTotal", "TECMP_InterfacePayload_getHeader_v2", "TECMP_InterfacePayload_getInterfaceId", "TECMP_InterfacePayload_getMessagesTotal", "TECMP_InterfacePayload_getSerialNumber", "TECMP_InterfacePayload_getVendorDataLength", "TECMP_InterfacePayload_getVendorDataLinkQuality", "TECMP_InterfacePayload_getVendorDataLinkStatus", "TECMP_InterfacePayload_getVendorDataLinkupTime", "TECMP_InterfacePayload_getVendorId", "TECMP_InterfacePayload_setCmType", "TECMP_InterfacePayload_setCmVersion", "TECMP_InterfacePayload_setDeviceId", "TECMP_InterfacePayload_setErrorsTotal", "TECMP_InterfacePayload_setInterfaceId", "TECMP_InterfacePayload_setMessagesTotal", "TECMP_InterfacePayload_setSerialNumber", "TECMP_InterfacePayload_setVendorDataLength", "TECMP_InterfacePayload_setVendorDataLinkQuality", "TECMP_InterfacePayload_setVendorDataLinkStatus", "TECMP_InterfacePayload_setVendorDataLinkupTime", "TECMP_InterfacePayload_setVendorId", "TECMP_LinPayload_Header_getDataLength", "TECMP_LinPayload_Header_getPid", "TECMP_LinPayload_Header_setDataLength", "TECMP_LinPayload_Header_setPid", "TECMP_LinPayload_getHeader_v", "TECMP_LinPayload_getCrc", "TECMP_LinPayload_getData", "TECMP_LinPayload_getDataLength", "TECMP_LinPayload_getHeader_v2", "TECMP_LinPayload_getPid", "TECMP_Payload_setData_x_u64", "TECMP_LinPayload_setData", "TECMP_LinPayload_setDataLength", "TECMP_LinPayload_setPid", "TECMP_Payload_getLength", "TECMP_PayloadType_getMessageType", "TECMP_Payload_getMessageType", "TECMP_Payload_getRawPayload", "TECMP_PayloadType_getRawPayloadType", "TECMP_Payload_getRawPayloadType", "TECMP_PayloadType_isValid", "TECMP_Payload_isValid", "TECMP_PayloadType_setMessageType", "TECMP_Payload_setMessageType", "TECMP_PayloadType_setRawPayloadType", "TECMP_Payload_setRawPayloadType", "TECMP_PayloadType_getType", "TECMP_PayloadType_setType"]

end AsamCmp.SrcGen
