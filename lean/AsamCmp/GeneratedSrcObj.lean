/- GENERATED on every run by vlib/srcobj.py from the typed clang AST of /repo/src/encoder.cpp — do not edit. -/
import AsamCmp.GeneratedSrc
import AsamCmp.Src.Obj
set_option linter.unusedVariables false
namespace AsamCmp.SrcGen
open AsamCmp AsamCmp.Src

/-- state of `ASAM::CMP::Encoder`: one field per data member -/
structure Encoder_St where
  f_minBytesPerMessage : Nat
  f_maxBytesPerMessage : Nat
  f_deviceId : Nat
  f_streamId : Nat
  f_cmpFrameTemplate : Bytes
  f_bytesLeft : Nat
  f_sequenceCounter : Nat
  f_messageType : Nat
  f_cmpFrames : List Bytes
deriving Repr, Inhabited

/-- `ASAM::CMP::Encoder::closeLastFrame` -/
def Encoder_closeLastFrame_obj (s : Encoder_St)  : Option (Encoder_St × Unit) := do
  if (s.f_cmpFrames).isEmpty then
    pure (s, ())
  else
    let (s) ← (if (s.f_bytesLeft == (usub 64 s.f_maxBytesPerMessage 8)) then (do
        let _ ← nonEmpty s.f_cmpFrames
        let s := { s with f_cmpFrames := (s.f_cmpFrames).dropLast }
        let s := { s with f_sequenceCounter := ((s.f_sequenceCounter + 65535) % 65536) }
        pure (s))
      else (do
        let _ ← nonEmpty s.f_cmpFrames
        let _ ← nonEmpty s.f_cmpFrames
        let s := { s with f_cmpFrames := setLast s.f_cmpFrames (resize (lastD s.f_cmpFrames) (Nat.max (usub 64 ((lastD s.f_cmpFrames)).length s.f_bytesLeft) s.f_minBytesPerMessage)) }
        pure (s)))
    pure (s, ())

/-- `ASAM::CMP::Encoder::createCmpFrameTemplate` -/
def Encoder_createCmpFrameTemplate_obj (s : Encoder_St) (a_packet : PktIn) : Option (Encoder_St × Unit) := do
  let s := { s with f_cmpFrameTemplate := resize s.f_cmpFrameTemplate s.f_maxBytesPerMessage }
  let t1 ← wrBytes s.f_cmpFrameTemplate 0 a_packet.rawCmpHeader 8
  let s := { s with f_cmpFrameTemplate := t1 }
  let v_cmpHeader_off := 0
  let t2 ← CmpHeader_setDeviceId s.f_cmpFrameTemplate v_cmpHeader_off s.f_deviceId
  let s := { s with f_cmpFrameTemplate := t2 }
  let t3 ← CmpHeader_setStreamId s.f_cmpFrameTemplate v_cmpHeader_off s.f_streamId
  let s := { s with f_cmpFrameTemplate := t3 }
  pure (s, ())

/-- `ASAM::CMP::Encoder::addNewCMPFrame` -/
def Encoder_addNewCMPFrame_obj (s : Encoder_St) (a_packet : PktIn) : Option (Encoder_St × Unit) := do
  let (s, _) ← Encoder_closeLastFrame_obj s 
  let (s) ← (if (s.f_cmpFrameTemplate).isEmpty then (do
      let (s, _) ← Encoder_createCmpFrameTemplate_obj s a_packet
      pure (s))
    else (do
      pure (s)))
  let s := { s with f_cmpFrames := s.f_cmpFrames ++ [s.f_cmpFrameTemplate] }
  let _ ← nonEmpty s.f_cmpFrames
  let v_header_off := 0
  let s := { s with f_sequenceCounter := ((s.f_sequenceCounter + 1) % 65536) }
  let t1 ← CmpHeader_setSequenceCounter (lastD s.f_cmpFrames) v_header_off s.f_sequenceCounter
  let s := { s with f_cmpFrames := setLast s.f_cmpFrames t1 }
  let s := { s with f_bytesLeft := (usub 64 s.f_maxBytesPerMessage 8) }
  pure (s, ())

/-- `ASAM::CMP::Encoder::addNewDataHeader` -/
def Encoder_addNewDataHeader_obj (s : Encoder_St) (a_packet : PktIn) (a_bytesToAdd : Nat) (a_segmentationFlag : Nat) : Option (Encoder_St × Unit) := do
  let _ ← nonEmpty s.f_cmpFrames
  let _ ← nonEmpty s.f_cmpFrames
  let _ ← nonEmpty s.f_cmpFrames
  let v_header_off := (usub 64 ((lastD s.f_cmpFrames)).length s.f_bytesLeft)
  let t1 ← wrBytes (lastD s.f_cmpFrames) v_header_off a_packet.rawMsgHeader 16
  let s := { s with f_cmpFrames := setLast s.f_cmpFrames t1 }
  let t2 ← MessageHeader_setPayloadLength (lastD s.f_cmpFrames) v_header_off a_bytesToAdd
  let s := { s with f_cmpFrames := setLast s.f_cmpFrames t2 }
  let t3 ← MessageHeader_setSegmentType (lastD s.f_cmpFrames) v_header_off a_segmentationFlag
  let s := { s with f_cmpFrames := setLast s.f_cmpFrames t3 }
  let s := { s with f_bytesLeft := (usub 64 s.f_bytesLeft 16) }
  pure (s, ())

/-- `ASAM::CMP::Encoder::buildSegmentationFlag` -/
def Encoder_buildSegmentationFlag_obj (s : Encoder_St) (a_isSegmented : Bool) (a_segmentInd : Nat) (a_bytesToAdd : Nat) (a_payloadSize : Nat) (a_currentPayloadPos : Nat) : Option (Encoder_St × Nat) := do
  let v_segmentationFlag := 0
  let (s, v_segmentationFlag) ← (if a_isSegmented then (do
      let (s, v_segmentationFlag) ← (if (a_segmentInd == 0) then (do
          let v_segmentationFlag := 4
          pure (s, v_segmentationFlag))
        else (do
          let v_segmentationFlag := (if ((uadd 64 a_currentPayloadPos a_bytesToAdd) == a_payloadSize) then 12 else 8)
          pure (s, v_segmentationFlag)))
      pure (s, v_segmentationFlag))
    else (do
      pure (s, v_segmentationFlag)))
  pure (s, v_segmentationFlag)

/-- `ASAM::CMP::Encoder::checkIfSegmented` -/
def Encoder_checkIfSegmented_obj (s : Encoder_St) (a_packet : PktIn) : Option (Encoder_St × Bool) := do
  let v_isSegmented := ((!(s.f_cmpFrames).isEmpty) && (decide (s.f_bytesLeft < (uadd 64 16 a_packet.payloadLength))))
  let (s, v_isSegmented) ← (if v_isSegmented then (do
      let (s, _) ← Encoder_addNewCMPFrame_obj s a_packet
      let v_isSegmented := ((!(s.f_cmpFrames).isEmpty) && (decide (s.f_bytesLeft < (uadd 64 16 a_packet.payloadLength))))
      pure (s, v_isSegmented))
    else (do
      pure (s, v_isSegmented)))
  pure (s, v_isSegmented)

/-- `ASAM::CMP::Encoder::clearEncodingMetadata` -/
def Encoder_clearEncodingMetadata_obj (s : Encoder_St) (a_clearSequenceCounter : Bool) : Option (Encoder_St × Unit) := do
  let s := { s with f_bytesLeft := 0 }
  let s := { s with f_cmpFrames := [] }
  let s := { s with f_cmpFrameTemplate := [] }
  let (s) ← (if a_clearSequenceCounter then (do
      let s := { s with f_sequenceCounter := 0 }
      pure (s))
    else (do
      pure (s)))
  pure (s, ())

/-- `ASAM::CMP::Encoder::init` -/
def Encoder_init_obj (s : Encoder_St) (a_dataContext_minBytesPerMessage : Nat) (a_dataContext_maxBytesPerMessage : Nat) : Option (Encoder_St × Unit) := do
  let (s, _) ← Encoder_clearEncodingMetadata_obj s false
  let s := { s with f_minBytesPerMessage := a_dataContext_minBytesPerMessage }
  let s := { s with f_maxBytesPerMessage := a_dataContext_maxBytesPerMessage }
  pure (s, ())

/-- `ASAM::CMP::Encoder::setMessageType` -/
def Encoder_setMessageType_obj (s : Encoder_St) (a_packet : PktIn) : Option (Encoder_St × Unit) := do
  let s := { s with f_messageType := a_packet.messageType }
  let s := { s with f_cmpFrameTemplate := [] }
  let (s, _) ← Encoder_addNewCMPFrame_obj s a_packet
  pure (s, ())

def Encoder_putPacket_loop1 (fuel : Nat) (s : Encoder_St) (a_packet : PktIn) (v_currentPayloadPos : Nat) (v_isSegmented : Bool) (v_segmentInd : Nat) : Option (Encoder_St × Nat × Nat) :=
  match fuel with
  | 0 => none
  | fuel + 1 => do
    if (decide (v_currentPayloadPos < a_packet.payloadLength)) then
      let (s) ← (if (decide (s.f_bytesLeft < 16)) then (do
          let (s, _) ← Encoder_addNewCMPFrame_obj s a_packet
          pure (s))
        else (do
          pure (s)))
      let v_bytesToAdd := ((Nat.min (usub 64 s.f_bytesLeft 16) (usub 64 a_packet.payloadLength v_currentPayloadPos)) % 65536)
      let (s, t2) ← Encoder_buildSegmentationFlag_obj s v_isSegmented v_segmentInd v_bytesToAdd a_packet.payloadLength v_currentPayloadPos
      let v_isSegmentedFlag := t2
      let (s, _) ← Encoder_addNewDataHeader_obj s a_packet v_bytesToAdd v_isSegmentedFlag
      let _ ← nonEmpty s.f_cmpFrames
      let _ ← nonEmpty s.f_cmpFrames
      let _ ← nonEmpty s.f_cmpFrames
      let t3 ← wrBytes (lastD s.f_cmpFrames) (usub 64 ((lastD s.f_cmpFrames)).length s.f_bytesLeft) (a_packet.rawPayload.drop (0 + v_currentPayloadPos)) v_bytesToAdd
      let s := { s with f_cmpFrames := setLast s.f_cmpFrames t3 }
      let t4 ← sadd 32 v_segmentInd 1
      let v_segmentInd := t4
      let v_currentPayloadPos := (uadd 64 v_currentPayloadPos v_bytesToAdd)
      let s := { s with f_bytesLeft := (usub 64 s.f_bytesLeft v_bytesToAdd) }
      let (s) ← (if (v_isSegmentedFlag == 12) then (do
          let (s, _) ← Encoder_addNewCMPFrame_obj s a_packet
          pure (s))
        else (do
          pure (s)))
      Encoder_putPacket_loop1 fuel s a_packet v_currentPayloadPos v_isSegmented v_segmentInd
    else
      pure (s, v_currentPayloadPos, v_segmentInd)

/-- `ASAM::CMP::Encoder::putPacket` -/
def Encoder_putPacket_obj (fuel : Nat) (s : Encoder_St) (a_packet : PktIn) : Option (Encoder_St × Unit) := do
  let (s) ← (if ((s.f_cmpFrames).isEmpty || (s.f_messageType != a_packet.messageType)) then (do
      let (s, _) ← Encoder_setMessageType_obj s a_packet
      pure (s))
    else (do
      pure (s)))
  let v_currentPayloadPos := 0
  let (s, t1) ← Encoder_checkIfSegmented_obj s a_packet
  let v_isSegmented := t1
  let v_segmentInd := 0
  let (s, v_currentPayloadPos, v_segmentInd) ← Encoder_putPacket_loop1 fuel s a_packet v_currentPayloadPos v_isSegmented v_segmentInd
  pure (s, ())

/-- `ASAM::CMP::Encoder::getEncodedData` -/
def Encoder_getEncodedData_obj (s : Encoder_St)  : Option (Encoder_St × List Bytes) := do
  let (s, _) ← Encoder_closeLastFrame_obj s 
  let v_frames := s.f_cmpFrames
  let s := { s with f_cmpFrames := [] }
  let (s, _) ← Encoder_clearEncodingMetadata_obj s false
  pure (s, v_frames)

/-- `ASAM::CMP::Encoder::encode` -/
def Encoder_encode_obj (fuel : Nat) (s : Encoder_St) (a_packet : PktIn) (a_dataContext_minBytesPerMessage : Nat) (a_dataContext_maxBytesPerMessage : Nat) : Option (Encoder_St × List Bytes) := do
  let (s, _) ← Encoder_init_obj s a_dataContext_minBytesPerMessage a_dataContext_maxBytesPerMessage
  let (s, _) ← Encoder_putPacket_obj fuel s a_packet
  let (s, t1) ← Encoder_getEncodedData_obj s 
  pure (s, t1)

/-- `ASAM::CMP::Encoder::getDeviceId` -/
def Encoder_getDeviceId_obj (s : Encoder_St)  : Option (Encoder_St × Nat) := do
  pure (s, s.f_deviceId)

/-- `ASAM::CMP::Encoder::getSequenceCounter` -/
def Encoder_getSequenceCounter_obj (s : Encoder_St)  : Option (Encoder_St × Nat) := do
  pure (s, s.f_sequenceCounter)

/-- `ASAM::CMP::Encoder::getStreamId` -/
def Encoder_getStreamId_obj (s : Encoder_St)  : Option (Encoder_St × Nat) := do
  pure (s, s.f_streamId)

/-- `ASAM::CMP::Encoder::restart` -/
def Encoder_restart_obj (s : Encoder_St)  : Option (Encoder_St × Unit) := do
  let s := { s with f_sequenceCounter := 0 }
  pure (s, ())

/-- `ASAM::CMP::Encoder::setDeviceId` -/
def Encoder_setDeviceId_obj (s : Encoder_St) (a_newDeviceId : Nat) : Option (Encoder_St × Unit) := do
  let s := { s with f_deviceId := a_newDeviceId }
  let (s, _) ← Encoder_clearEncodingMetadata_obj s true
  pure (s, ())

/-- `ASAM::CMP::Encoder::setStreamId` -/
def Encoder_setStreamId_obj (s : Encoder_St) (a_newStreamId : Nat) : Option (Encoder_St × Unit) := do
  let s := { s with f_streamId := a_newStreamId }
  let (s, _) ← Encoder_clearEncodingMetadata_obj s true
  pure (s, ())

def Encoder_untranslated : List (String × String) := [("ASAM::CMP::Encoder::encode", "type ForwardPtrIterator")]

end AsamCmp.SrcGen
