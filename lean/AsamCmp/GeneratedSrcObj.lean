/- GENERATED on every run by vlib/srcobj.py from the typed clang AST of /repo/src/encoder.cpp, packet.cpp, decoder.cpp, status.cpp, device_status.cpp, interface_status.cpp — do not edit. -/
import AsamCmp.GeneratedSrc
import AsamCmp.Src.Obj
set_option linter.unusedVariables false
namespace AsamCmp.SrcGen
open AsamCmp AsamCmp.Src

/-- state of `ASAM::CMP::Encoder`: one field per data member -/
structure Encoder_St where
  f_minBytesPerMessage : Nat
  f_maxBytesPerMessage : Nat
  f_deviceId : Nat
  f_streamId : Nat
  f_cmpFrameTemplate : Bytes
  f_bytesLeft : Nat
  f_sequenceCounter : Nat
  f_messageType : Nat
  f_cmpFrames : List Bytes
deriving Repr, Inhabited

def Encoder_default : Encoder_St := { f_minBytesPerMessage := 0, f_maxBytesPerMessage := 0, f_deviceId := 0, f_streamId := 0, f_cmpFrameTemplate := [], f_bytesLeft := 0, f_sequenceCounter := 0, f_messageType := 0, f_cmpFrames := [] }

/-- `ASAM::CMP::Encoder::closeLastFrame` -/
def Encoder_closeLastFrame_obj (s : Encoder_St)  : Option (Encoder_St × Unit) := do
  if (s.f_cmpFrames).isEmpty then
    pure (s, ())
  else
    let (s) ← (if (s.f_bytesLeft == (usub 64 s.f_maxBytesPerMessage 8)) then (do
        let _ ← nonEmpty s.f_cmpFrames
        let s := { s with f_cmpFrames := (s.f_cmpFrames).dropLast }
        let s := { s with f_sequenceCounter := ((s.f_sequenceCounter + 65535) % 65536) }
        pure (s))
      else (do
        let _ ← nonEmpty s.f_cmpFrames
        let _ ← nonEmpty s.f_cmpFrames
        let s := { s with f_cmpFrames := setLast s.f_cmpFrames (resize (lastD s.f_cmpFrames) (Nat.max (usub 64 ((lastD s.f_cmpFrames)).length s.f_bytesLeft) s.f_minBytesPerMessage)) }
        pure (s)))
    pure (s, ())

/-- `ASAM::CMP::Encoder::createCmpFrameTemplate` -/
def Encoder_createCmpFrameTemplate_obj (s : Encoder_St) (a_packet : PktIn) : Option (Encoder_St × Unit) := do
  let s := { s with f_cmpFrameTemplate := resize s.f_cmpFrameTemplate s.f_maxBytesPerMessage }
  let t1 ← wrBytes s.f_cmpFrameTemplate 0 a_packet.rawCmpHeader 8
  let s := { s with f_cmpFrameTemplate := t1 }
  let v_cmpHeader_off := 0
  let t2 ← CmpHeader_setDeviceId s.f_cmpFrameTemplate v_cmpHeader_off s.f_deviceId
  let s := { s with f_cmpFrameTemplate := t2 }
  let t3 ← CmpHeader_setStreamId s.f_cmpFrameTemplate v_cmpHeader_off s.f_streamId
  let s := { s with f_cmpFrameTemplate := t3 }
  pure (s, ())

/-- `ASAM::CMP::Encoder::addNewCMPFrame` -/
def Encoder_addNewCMPFrame_obj (s : Encoder_St) (a_packet : PktIn) : Option (Encoder_St × Unit) := do
  let (s, _) ← Encoder_closeLastFrame_obj s  
  let (s) ← (if (s.f_cmpFrameTemplate).isEmpty then (do
      let (s, _) ← Encoder_createCmpFrameTemplate_obj s a_packet 
      pure (s))
    else (do
      pure (s)))
  let s := { s with f_cmpFrames := s.f_cmpFrames ++ [s.f_cmpFrameTemplate] }
  let _ ← nonEmpty s.f_cmpFrames
  let v_header_off := 0
  let s := { s with f_sequenceCounter := ((s.f_sequenceCounter + 1) % 65536) }
  let t1 ← CmpHeader_setSequenceCounter (lastD s.f_cmpFrames) v_header_off s.f_sequenceCounter
  let s := { s with f_cmpFrames := setLast s.f_cmpFrames t1 }
  let s := { s with f_bytesLeft := (usub 64 s.f_maxBytesPerMessage 8) }
  pure (s, ())

/-- `ASAM::CMP::Encoder::addNewDataHeader` -/
def Encoder_addNewDataHeader_obj (s : Encoder_St) (a_packet : PktIn) (a_bytesToAdd : Nat) (a_segmentationFlag : Nat) : Option (Encoder_St × Unit) := do
  let _ ← nonEmpty s.f_cmpFrames
  let _ ← nonEmpty s.f_cmpFrames
  let _ ← nonEmpty s.f_cmpFrames
  let v_header_off := (usub 64 ((lastD s.f_cmpFrames)).length s.f_bytesLeft)
  let t1 ← wrBytes (lastD s.f_cmpFrames) v_header_off a_packet.rawMsgHeader 16
  let s := { s with f_cmpFrames := setLast s.f_cmpFrames t1 }
  let t2 ← MessageHeader_setPayloadLength (lastD s.f_cmpFrames) v_header_off a_bytesToAdd
  let s := { s with f_cmpFrames := setLast s.f_cmpFrames t2 }
  let t3 ← MessageHeader_setSegmentType (lastD s.f_cmpFrames) v_header_off a_segmentationFlag
  let s := { s with f_cmpFrames := setLast s.f_cmpFrames t3 }
  let s := { s with f_bytesLeft := (usub 64 s.f_bytesLeft 16) }
  pure (s, ())

/-- `ASAM::CMP::Encoder::buildSegmentationFlag` -/
def Encoder_buildSegmentationFlag_obj (s : Encoder_St) (a_isSegmented : Bool) (a_segmentInd : Nat) (a_bytesToAdd : Nat) (a_payloadSize : Nat) (a_currentPayloadPos : Nat) : Option (Encoder_St × Nat) := do
  let v_segmentationFlag := 0
  let (s, v_segmentationFlag) ← (if a_isSegmented then (do
      let (s, v_segmentationFlag) ← (if (a_segmentInd == 0) then (do
          let v_segmentationFlag := 4
          pure (s, v_segmentationFlag))
        else (do
          let v_segmentationFlag := (if ((uadd 64 a_currentPayloadPos a_bytesToAdd) == a_payloadSize) then 12 else 8)
          pure (s, v_segmentationFlag)))
      pure (s, v_segmentationFlag))
    else (do
      pure (s, v_segmentationFlag)))
  pure (s, v_segmentationFlag)

/-- `ASAM::CMP::Encoder::checkIfSegmented` -/
def Encoder_checkIfSegmented_obj (s : Encoder_St) (a_packet : PktIn) : Option (Encoder_St × Bool) := do
  let v_isSegmented := ((!(s.f_cmpFrames).isEmpty) && (decide (s.f_bytesLeft < (uadd 64 16 a_packet.payloadLength))))
  let (s, v_isSegmented) ← (if v_isSegmented then (do
      let (s, _) ← Encoder_addNewCMPFrame_obj s a_packet 
      let v_isSegmented := ((!(s.f_cmpFrames).isEmpty) && (decide (s.f_bytesLeft < (uadd 64 16 a_packet.payloadLength))))
      pure (s, v_isSegmented))
    else (do
      pure (s, v_isSegmented)))
  pure (s, v_isSegmented)

/-- `ASAM::CMP::Encoder::clearEncodingMetadata` -/
def Encoder_clearEncodingMetadata_obj (s : Encoder_St) (a_clearSequenceCounter : Bool) : Option (Encoder_St × Unit) := do
  let s := { s with f_bytesLeft := 0 }
  let s := { s with f_cmpFrames := [] }
  let s := { s with f_cmpFrameTemplate := [] }
  let (s) ← (if a_clearSequenceCounter then (do
      let s := { s with f_sequenceCounter := 0 }
      pure (s))
    else (do
      pure (s)))
  pure (s, ())

/-- `ASAM::CMP::Encoder::init` -/
def Encoder_init_obj (s : Encoder_St) (a_dataContext_minBytesPerMessage : Nat) (a_dataContext_maxBytesPerMessage : Nat) : Option (Encoder_St × Unit) := do
  let (s, _) ← Encoder_clearEncodingMetadata_obj s false 
  let s := { s with f_minBytesPerMessage := a_dataContext_minBytesPerMessage }
  let s := { s with f_maxBytesPerMessage := a_dataContext_maxBytesPerMessage }
  pure (s, ())

/-- `ASAM::CMP::Encoder::setMessageType` -/
def Encoder_setMessageType_obj (s : Encoder_St) (a_packet : PktIn) : Option (Encoder_St × Unit) := do
  let s := { s with f_messageType := a_packet.messageType }
  let s := { s with f_cmpFrameTemplate := [] }
  let (s, _) ← Encoder_addNewCMPFrame_obj s a_packet 
  pure (s, ())

def Encoder_putPacket_loop1 (fuel : Nat) (s : Encoder_St) (a_packet : PktIn) (v_currentPayloadPos : Nat) (v_isSegmented : Bool) (v_segmentInd : Nat) : Option (Encoder_St × Nat × Nat) :=
  match fuel with
  | 0 => none
  | fuel + 1 => do
    if (decide (v_currentPayloadPos < a_packet.payloadLength)) then
      let (s) ← (if (decide (s.f_bytesLeft < 16)) then (do
          let (s, _) ← Encoder_addNewCMPFrame_obj s a_packet 
          pure (s))
        else (do
          pure (s)))
      let v_bytesToAdd := ((Nat.min (usub 64 s.f_bytesLeft 16) (usub 64 a_packet.payloadLength v_currentPayloadPos)) % 65536)
      let (s, t2) ← Encoder_buildSegmentationFlag_obj s v_isSegmented v_segmentInd v_bytesToAdd a_packet.payloadLength v_currentPayloadPos 
      let v_isSegmentedFlag := t2
      let (s, _) ← Encoder_addNewDataHeader_obj s a_packet v_bytesToAdd v_isSegmentedFlag 
      let _ ← nonEmpty s.f_cmpFrames
      let _ ← nonEmpty s.f_cmpFrames
      let _ ← nonEmpty s.f_cmpFrames
      let t3 ← wrBytes (lastD s.f_cmpFrames) (usub 64 ((lastD s.f_cmpFrames)).length s.f_bytesLeft) (a_packet.rawPayload.drop (0 + v_currentPayloadPos)) v_bytesToAdd
      let s := { s with f_cmpFrames := setLast s.f_cmpFrames t3 }
      let t4 ← sadd 32 v_segmentInd 1
      let v_segmentInd := t4
      let v_currentPayloadPos := (uadd 64 v_currentPayloadPos v_bytesToAdd)
      let s := { s with f_bytesLeft := (usub 64 s.f_bytesLeft v_bytesToAdd) }
      let (s) ← (if (v_isSegmentedFlag == 12) then (do
          let (s, _) ← Encoder_addNewCMPFrame_obj s a_packet 
          pure (s))
        else (do
          pure (s)))
      Encoder_putPacket_loop1 fuel s a_packet v_currentPayloadPos v_isSegmented v_segmentInd
    else
      pure (s, v_currentPayloadPos, v_segmentInd)

/-- `ASAM::CMP::Encoder::putPacket` -/
def Encoder_putPacket_obj (fuel : Nat) (s : Encoder_St) (a_packet : PktIn) : Option (Encoder_St × Unit) := do
  let (s) ← (if ((s.f_cmpFrames).isEmpty || (s.f_messageType != a_packet.messageType)) then (do
      let (s, _) ← Encoder_setMessageType_obj s a_packet 
      pure (s))
    else (do
      pure (s)))
  let v_currentPayloadPos := 0
  let (s, t1) ← Encoder_checkIfSegmented_obj s a_packet 
  let v_isSegmented := t1
  let v_segmentInd := 0
  let (s, v_currentPayloadPos, v_segmentInd) ← Encoder_putPacket_loop1 fuel s a_packet v_currentPayloadPos v_isSegmented v_segmentInd
  pure (s, ())

/-- `ASAM::CMP::Encoder::getEncodedData` -/
def Encoder_getEncodedData_obj (s : Encoder_St)  : Option (Encoder_St × List Bytes) := do
  let (s, _) ← Encoder_closeLastFrame_obj s  
  let v_frames := s.f_cmpFrames
  let s := { s with f_cmpFrames := [] }
  let (s, _) ← Encoder_clearEncodingMetadata_obj s false 
  pure (s, v_frames)

/-- `ASAM::CMP::Encoder::encode` -/
def Encoder_encode_obj (fuel : Nat) (s : Encoder_St) (a_packet : PktIn) (a_dataContext_minBytesPerMessage : Nat) (a_dataContext_maxBytesPerMessage : Nat) : Option (Encoder_St × List Bytes) := do
  let (s, _) ← Encoder_init_obj s a_dataContext_minBytesPerMessage a_dataContext_maxBytesPerMessage 
  let (s, _) ← Encoder_putPacket_obj fuel s a_packet 
  let (s, t1) ← Encoder_getEncodedData_obj s  
  pure (s, t1)

/-- `ASAM::CMP::Encoder::getDeviceId` -/
def Encoder_getDeviceId_obj (s : Encoder_St)  : Option (Encoder_St × Nat) := do
  pure (s, s.f_deviceId)

/-- `ASAM::CMP::Encoder::getSequenceCounter` -/
def Encoder_getSequenceCounter_obj (s : Encoder_St)  : Option (Encoder_St × Nat) := do
  pure (s, s.f_sequenceCounter)

/-- `ASAM::CMP::Encoder::getStreamId` -/
def Encoder_getStreamId_obj (s : Encoder_St)  : Option (Encoder_St × Nat) := do
  pure (s, s.f_streamId)

/-- `ASAM::CMP::Encoder::restart` -/
def Encoder_restart_obj (s : Encoder_St)  : Option (Encoder_St × Unit) := do
  let s := { s with f_sequenceCounter := 0 }
  pure (s, ())

/-- `ASAM::CMP::Encoder::setDeviceId` -/
def Encoder_setDeviceId_obj (s : Encoder_St) (a_newDeviceId : Nat) : Option (Encoder_St × Unit) := do
  let s := { s with f_deviceId := a_newDeviceId }
  let (s, _) ← Encoder_clearEncodingMetadata_obj s true 
  pure (s, ())

/-- `ASAM::CMP::Encoder::setStreamId` -/
def Encoder_setStreamId_obj (s : Encoder_St) (a_newStreamId : Nat) : Option (Encoder_St × Unit) := do
  let s := { s with f_streamId := a_newStreamId }
  let (s, _) ← Encoder_clearEncodingMetadata_obj s true 
  pure (s, ())

def Encoder_untranslated : List (String × String) := [("ASAM::CMP::Encoder::encode", "type ForwardPtrIterator")]

/-- `ASAM::CMP::Encoder::encode` (member template over the iterator range `[begin, end)`): the range is the list of the packets it designates -/
def Encoder_encode_range_obj (fuel : Nat) (s : Encoder_St) (r_begin_end : List PktIn) (a_dataContext_minBytesPerMessage : Nat) (a_dataContext_maxBytesPerMessage : Nat) : Option (Encoder_St × List Bytes) := do
  let (s, _) ← Encoder_init_obj s a_dataContext_minBytesPerMessage a_dataContext_maxBytesPerMessage
  let s ← r_begin_end.foldlM (fun s x => do
    let (s, _) ← Encoder_putPacket_obj fuel s x
    pure s) s
  let (s, t1) ← Encoder_getEncodedData_obj s 
  pure (s, t1)

/-- `ASAM::CMP::Encoder::encode` (member template over the iterator range `[begin, end)` of `shared_ptr<Packet>`, dereferenced unchecked): the range is the list of the packets it designates -/
def Encoder_encode_ptrRange_obj (fuel : Nat) (s : Encoder_St) (r_begin_end : List PktIn) (a_dataContext_minBytesPerMessage : Nat) (a_dataContext_maxBytesPerMessage : Nat) : Option (Encoder_St × List Bytes) := do
  let (s, _) ← Encoder_init_obj s a_dataContext_minBytesPerMessage a_dataContext_maxBytesPerMessage
  let s ← r_begin_end.foldlM (fun s x => do
    let (s, _) ← Encoder_putPacket_obj fuel s x
    pure s) s
  let (s, t1) ← Encoder_getEncodedData_obj s 
  pure (s, t1)

def Encoder_templates_untranslated : List (String × String) := []

/-- state of `ASAM::CMP::Packet`: one field per data member -/
structure Packet_St where
  f_version : Nat
  f_deviceId : Nat
  f_streamId : Nat
  f_sequenceCounter : Nat
  f_timestamp : Nat
  f_interfaceId : Nat
  f_vendorId : Nat
  f_commonFlags : Nat
  f_segmentType : Nat
deriving Repr, Inhabited

def Packet_default : Packet_St := { f_version := 1, f_deviceId := 0, f_streamId := 0, f_sequenceCounter := 0, f_timestamp := 0, f_interfaceId := 0, f_vendorId := 0, f_commonFlags := 0, f_segmentType := 0 }

/-- `ASAM::CMP::Packet::getCommonFlag` -/
def Packet_getCommonFlag_obj (s : Packet_St) (a_mask : Nat) : Option (Packet_St × Bool) := do
  pure (s, ((s.f_commonFlags &&& a_mask) != 0))

/-- `ASAM::CMP::Packet::getCommonFlags` -/
def Packet_getCommonFlags_obj (s : Packet_St)  : Option (Packet_St × Nat) := do
  pure (s, s.f_commonFlags)

/-- `ASAM::CMP::Packet::getDeviceId` -/
def Packet_getDeviceId_obj (s : Packet_St)  : Option (Packet_St × Nat) := do
  pure (s, s.f_deviceId)

/-- `ASAM::CMP::Packet::getInterfaceId` -/
def Packet_getInterfaceId_obj (s : Packet_St)  : Option (Packet_St × Nat) := do
  pure (s, s.f_interfaceId)

/-- `ASAM::CMP::Packet::getVersion` -/
def Packet_getVersion_obj (s : Packet_St)  : Option (Packet_St × Nat) := do
  pure (s, s.f_version)

/-- `ASAM::CMP::Packet::getStreamId` -/
def Packet_getStreamId_obj (s : Packet_St)  : Option (Packet_St × Nat) := do
  pure (s, s.f_streamId)

/-- `ASAM::CMP::Packet::getSequenceCounter` -/
def Packet_getSequenceCounter_obj (s : Packet_St)  : Option (Packet_St × Nat) := do
  pure (s, s.f_sequenceCounter)

/-- `ASAM::CMP::Packet::getRawCmpHeader` -/
def Packet_getRawCmpHeader_obj (s : Packet_St) (g_getMessageType : Nat) : Option (Packet_St × Bytes) := do
  let out_ := ([] : Bytes)
  let v_header := ([1, 0, 0, 0, 0, 0, 0, 0] : Bytes)
  let (s, t1) ← Packet_getVersion_obj s  
  let v_header ← CmpHeader_setVersion v_header 0 t1
  let (s, t2) ← Packet_getDeviceId_obj s  
  let v_header ← CmpHeader_setDeviceId v_header 0 t2
  let v_header ← CmpHeader_setMessageType v_header 0 g_getMessageType
  let (s, t3) ← Packet_getStreamId_obj s  
  let v_header ← CmpHeader_setStreamId v_header 0 t3
  let (s, t4) ← Packet_getSequenceCounter_obj s  
  let v_header ← CmpHeader_setSequenceCounter v_header 0 t4
  let out_ ← takeExact v_header 8
  pure (s, out_)

/-- `ASAM::CMP::Packet::getTimestamp` -/
def Packet_getTimestamp_obj (s : Packet_St)  : Option (Packet_St × Nat) := do
  pure (s, s.f_timestamp)

/-- `ASAM::CMP::Packet::getVendorId` -/
def Packet_getVendorId_obj (s : Packet_St)  : Option (Packet_St × Nat) := do
  pure (s, s.f_vendorId)

/-- `ASAM::CMP::Packet::getRawMessageHeader` -/
def Packet_getRawMessageHeader_obj (s : Packet_St) (g_getMessageType : Nat) (g_getPayloadType : Nat) (g_getPayloadLength : Nat) : Option (Packet_St × Bytes) := do
  let out_ := ([] : Bytes)
  let v_header := ([0, 0, 0, 0, 0, 0, 0, 0, 0, 0, 0, 0, 0, 0, 0, 0] : Bytes)
  let (s, t1) ← Packet_getTimestamp_obj s  
  let v_header ← MessageHeader_setTimestamp v_header 0 t1
  let v_messageType := g_getMessageType
  let sw2 := v_messageType
  if sw2 == 1 then
    let (s, t3) ← Packet_getInterfaceId_obj s  
    let v_header ← MessageHeader_setInterfaceId v_header 0 t3
    let (s, t4) ← Packet_getCommonFlags_obj s  
    let v_header ← MessageHeader_setCommonFlags v_header 0 t4
    let v_header ← MessageHeader_setPayloadType v_header 0 g_getPayloadType
    let v_header ← MessageHeader_setPayloadLength v_header 0 g_getPayloadLength
    let out_ ← takeExact v_header 16
    pure (s, out_)
  else if sw2 == 3 || sw2 == 255 then
    let (s, t5) ← Packet_getVendorId_obj s  
    let v_header ← MessageHeader_setVendorId v_header 0 t5
    let (s, t6) ← Packet_getCommonFlags_obj s  
    let v_header ← MessageHeader_setCommonFlags v_header 0 t6
    let v_header ← MessageHeader_setPayloadType v_header 0 g_getPayloadType
    let v_header ← MessageHeader_setPayloadLength v_header 0 g_getPayloadLength
    let out_ ← takeExact v_header 16
    pure (s, out_)
  else if sw2 == 2 then
    let (s, t7) ← Packet_getCommonFlags_obj s  
    let v_header ← MessageHeader_setCommonFlags v_header 0 t7
    let v_header ← MessageHeader_setPayloadType v_header 0 g_getPayloadType
    let v_header ← MessageHeader_setPayloadLength v_header 0 g_getPayloadLength
    let out_ ← takeExact v_header 16
    pure (s, out_)
  else
    let (s, t7) ← Packet_getCommonFlags_obj s  
    let v_header ← MessageHeader_setCommonFlags v_header 0 t7
    let v_header ← MessageHeader_setPayloadType v_header 0 g_getPayloadType
    let v_header ← MessageHeader_setPayloadLength v_header 0 g_getPayloadLength
    let out_ ← takeExact v_header 16
    pure (s, out_)

/-- `ASAM::CMP::Packet::getSegmentType` -/
def Packet_getSegmentType_obj (s : Packet_St)  : Option (Packet_St × Nat) := do
  pure (s, s.f_segmentType)

/-- `ASAM::CMP::Packet::isValidPacket` -/
def Packet_isValidPacket_obj (s : Packet_St) (m : Bytes) (a_data : Nat) (a_size : Nat) : Option (Packet_St × Bool) := do
  let v_header := a_data
  let t2 ← (if (decide (a_size ≥ 16)) then (do let t1 ← MessageHeader_getPayloadLength m v_header; pure (decide (t1 ≤ (usub 64 a_size 16)))) else pure false)
  let t4 ← (if t2 then (do let t3 ← MessageHeader_getCommonFlag m v_header 64; pure (!t3)) else pure false)
  let t6 ← (if t4 then (do let t5 ← MessageHeader_getPayloadType m v_header; pure (t5 != 0)) else pure false)
  pure (s, t6)

/-- `ASAM::CMP::Packet::setCommonFlag` -/
def Packet_setCommonFlag_obj (s : Packet_St) (a_mask : Nat) (a_value : Bool) : Option (Packet_St × Unit) := do
  let s := { s with f_commonFlags := ((if a_value then (s.f_commonFlags ||| a_mask) else (s.f_commonFlags &&& (bnot 32 a_mask))) % 256) }
  pure (s, ())

/-- `ASAM::CMP::Packet::setCommonFlags` -/
def Packet_setCommonFlags_obj (s : Packet_St) (a_flags : Nat) : Option (Packet_St × Unit) := do
  let s := { s with f_commonFlags := a_flags }
  pure (s, ())

/-- `ASAM::CMP::Packet::setDeviceId` -/
def Packet_setDeviceId_obj (s : Packet_St) (a_value : Nat) : Option (Packet_St × Unit) := do
  let s := { s with f_deviceId := a_value }
  pure (s, ())

/-- `ASAM::CMP::Packet::setInterfaceId` -/
def Packet_setInterfaceId_obj (s : Packet_St) (a_id : Nat) : Option (Packet_St × Unit) := do
  let s := { s with f_interfaceId := a_id }
  pure (s, ())

/-- `ASAM::CMP::Packet::setSegmentType` -/
def Packet_setSegmentType_obj (s : Packet_St) (a_type : Nat) : Option (Packet_St × Unit) := do
  let s := { s with f_segmentType := a_type }
  pure (s, ())

/-- `ASAM::CMP::Packet::setSequenceCounter` -/
def Packet_setSequenceCounter_obj (s : Packet_St) (a_counter : Nat) : Option (Packet_St × Unit) := do
  let s := { s with f_sequenceCounter := a_counter }
  pure (s, ())

/-- `ASAM::CMP::Packet::setStreamId` -/
def Packet_setStreamId_obj (s : Packet_St) (a_value : Nat) : Option (Packet_St × Unit) := do
  let s := { s with f_streamId := a_value }
  pure (s, ())

/-- `ASAM::CMP::Packet::setTimestamp` -/
def Packet_setTimestamp_obj (s : Packet_St) (a_newTimestamp : Nat) : Option (Packet_St × Unit) := do
  let s := { s with f_timestamp := a_newTimestamp }
  pure (s, ())

/-- `ASAM::CMP::Packet::setVendorId` -/
def Packet_setVendorId_obj (s : Packet_St) (a_id : Nat) : Option (Packet_St × Unit) := do
  let s := { s with f_vendorId := a_id }
  pure (s, ())

/-- `ASAM::CMP::Packet::setVersion` -/
def Packet_setVersion_obj (s : Packet_St) (a_value : Nat) : Option (Packet_St × Unit) := do
  let s := { s with f_version := a_value }
  pure (s, ())

def Packet_untranslated : List (String × String) := [("ASAM::CMP::Packet::create", "type std::unique_ptr<Payload>"), ("ASAM::CMP::Packet::getMessageType", "overloaded operator"), ("ASAM::CMP::Packet::getPayload", "reference type const ASAM::CMP::Payload &"), ("ASAM::CMP::Packet::getPayloadLength", "UserDefinedConversion"), ("ASAM::CMP::Packet::getPayloadType", "overloaded operator"), ("ASAM::CMP::Packet::isValid", "UserDefinedConversion"), ("ASAM::CMP::Packet::operator=", "reference type ASAM::CMP::Packet &"), ("ASAM::CMP::Packet::setMessageHeader", "type ASAM::CMP::MessageHeader"), ("ASAM::CMP::Packet::setPayload", "type std::vector<uint8_t>")]

/-- state of `ASAM::CMP::Decoder::SegmentedPacket`: one field per data member -/
structure Decoder_SegmentedPacket_St where
  f_payload : Bytes
  f_segmentType : Nat
  f_curVersion : Nat
  f_curMessageType : Nat
  f_curSegment : Nat
deriving Repr, Inhabited

def Decoder_SegmentedPacket_default : Decoder_SegmentedPacket_St := { f_payload := [], f_segmentType := 0, f_curVersion := 0, f_curMessageType := 0, f_curSegment := 0 }

/-- `ASAM::CMP::Decoder::SegmentedPacket::isValidSegmentType` -/
def Decoder_SegmentedPacket_isValidSegmentType_obj (s : Decoder_SegmentedPacket_St) (a_type : Nat) : Option (Decoder_SegmentedPacket_St × Bool) := do
  let sw1 := s.f_segmentType
  if sw1 == 0 || sw1 == 12 then
    pure (s, ((a_type == 0) || (a_type == 4)))
  else if sw1 == 4 || sw1 == 8 then
    pure (s, ((a_type == 8) || (a_type == 12)))
  else
    pure (s, false)

/-- `ASAM::CMP::Decoder::SegmentedPacket::addSegment` -/
def Decoder_SegmentedPacket_addSegment_obj (s : Decoder_SegmentedPacket_St) (m : Bytes) (a_data : Nat) (a_size : Nat) (a_version : Nat) (a_messageType : Nat) (a_sequenceCounter : Nat) : Option (Decoder_SegmentedPacket_St × Bool) := do
  let t2 ← (if ((s.f_curVersion != a_version) || (s.f_curMessageType != a_messageType)) then pure true else (do let t1 ← sadd 32 s.f_curSegment 1; pure (a_sequenceCounter != (t1 % 65536))))
  if t2 then
    pure (s, false)
  else
    let v_header := a_data
    let t3 ← MessageHeader_getPayloadLength m v_header
    let v_newPayloadSize := t3
    if (decide (v_newPayloadSize > (usub 64 a_size 16))) then
      pure (s, false)
    else
      let t4 ← MessageHeader_getSegmentType m v_header
      let v_type := t4
      let (s, t5) ← Decoder_SegmentedPacket_isValidSegmentType_obj s v_type 
      if (!t5) then
        pure (s, false)
      else
        let v_curPayloadSize := (s.f_payload).length
        let s := { s with f_payload := resize s.f_payload (uadd 64 v_curPayloadSize v_newPayloadSize) }
        let t6 ← wrBytes s.f_payload (0 + v_curPayloadSize) (m.drop (a_data + 16)) v_newPayloadSize
        let s := { s with f_payload := t6 }
        let t7 ← MessageHeader_setPayloadLength s.f_payload 0 ((usub 64 ((s.f_payload).length % 65536) 16) % 65536)
        let s := { s with f_payload := t7 }
        let s := { s with f_curSegment := ((s.f_curSegment + 1) % 65536) }
        let s := { s with f_segmentType := v_type }
        pure (s, true)

/-- `ASAM::CMP::Decoder::SegmentedPacket::getPacket` -/
def Decoder_SegmentedPacket_getPacket_obj (s : Decoder_SegmentedPacket_St)  : Option (Decoder_SegmentedPacket_St × PktOut) := do
  let t1 ← mkPacket s.f_curMessageType (s.f_payload.drop 0)
  let v_packet := t1
  let v_packet := { v_packet with version := s.f_curVersion }
  pure (s, v_packet)

/-- `ASAM::CMP::Decoder::SegmentedPacket::isAssembled` -/
def Decoder_SegmentedPacket_isAssembled_obj (s : Decoder_SegmentedPacket_St)  : Option (Decoder_SegmentedPacket_St × Bool) := do
  pure (s, (s.f_segmentType == 12))

/-- `ASAM::CMP::Decoder::SegmentedPacket::SegmentedPacket` -/
def Decoder_SegmentedPacket_SegmentedPacket_ctor_obj (s : Decoder_SegmentedPacket_St) (m : Bytes) (a_data : Nat) (a_size : Nat) (a_version : Nat) (a_messageType : Nat) (a_sequenceCounter : Nat) : Option (Decoder_SegmentedPacket_St × Unit) := do
  let s := { s with f_payload := [] }
  let s := { s with f_segmentType := 4 }
  let s := { s with f_curVersion := a_version }
  let s := { s with f_curMessageType := a_messageType }
  let s := { s with f_curSegment := a_sequenceCounter }
  let t1 ← MessageHeader_getPayloadLength m a_data
  let v_segmentSize := (Nat.min a_size (uadd 64 16 t1))
  let s := { s with f_payload := resize s.f_payload v_segmentSize }
  let t2 ← wrBytes s.f_payload 0 (m.drop a_data) v_segmentSize
  let s := { s with f_payload := t2 }
  pure (s, ())

def Decoder_SegmentedPacket_untranslated : List (String × String) := [("ASAM::CMP::Decoder::SegmentedPacket::getHeader", "vector member used as a scalar lvalue"), ("ASAM::CMP::Decoder::SegmentedPacket::operator=", "reference type ASAM::CMP::Decoder::SegmentedPacket &")]

/-- state of `ASAM::CMP::Decoder`: one field per data member -/
structure Decoder_St where
  f_segmentedPackets : SMap Decoder_SegmentedPacket_St
deriving Repr, Inhabited

def Decoder_default : Decoder_St := { f_segmentedPackets := [] }

def Decoder_decode_loop1 (fuel : Nat) (s : Decoder_St) (m : Bytes) (a_data : Nat) (a_size : Nat) (v_dataPtr : Nat) (v_packets : List PktOut) (v_header : Nat) (v_deviceId : Nat) (v_streamId : Nat) (v_packetPtr : Nat) (v_curSize : Nat) (v_packet : PktOut) : Option (Decoder_St × List PktOut × Nat × Nat × PktOut) :=
  match fuel with
  | 0 => none
  | fuel + 1 => do
    if (slt 32 0 v_curSize) then
      let t5 ← Packet_isValidPacket m v_packetPtr (sext 32 64 v_curSize)
      if (!t5) then
        let s := { s with f_segmentedPackets := mapErase s.f_segmentedPackets (v_deviceId, v_streamId) }
        pure (s, v_packets, v_packetPtr, v_curSize, v_packet)
      else
        let t6 ← Decoder_isSegmentedPacket m v_packetPtr (sext 32 64 v_curSize)
        if (!t6) then
          let s := { s with f_segmentedPackets := mapErase s.f_segmentedPackets (v_deviceId, v_streamId) }
          let t7 ← CmpHeader_getMessageType m v_header
          let t8 ← mkPacket t7 (m.drop v_packetPtr)
          let v_packet := t8
          let t9 ← CmpHeader_getVersion m v_header
          let v_packet := { v_packet with version := t9 }
          let v_packet := { v_packet with deviceId := v_deviceId }
          let v_packet := { v_packet with streamId := v_streamId }
          let v_packets := v_packets ++ [v_packet]
          let v_packetSize := (uadd 64 (pktPayloadLength v_packet) 16)
          let v_packetPtr := (v_packetPtr + v_packetSize)
          let t10 ← ssub 32 v_curSize (v_packetSize % 4294967296)
          let v_curSize := t10
          Decoder_decode_loop1 fuel s m a_data a_size v_dataPtr v_packets v_header v_deviceId v_streamId v_packetPtr v_curSize v_packet
        else
          let t11 ← Decoder_isFirstSegment m v_packetPtr (sext 32 64 v_curSize)
          let (s, v_packets, v_packet) ← (if t11 then (do
              let t12 ← CmpHeader_getVersion m v_header
              let t13 ← CmpHeader_getMessageType m v_header
              let t14 ← CmpHeader_getSequenceCounter m v_header
              let (v_segmentedPacket, _) ← Decoder_SegmentedPacket_SegmentedPacket_ctor_obj Decoder_SegmentedPacket_default m v_packetPtr (sext 32 64 v_curSize) t12 t13 t14
              let (mp_, _) := mapIndex s.f_segmentedPackets (v_deviceId, v_streamId) Decoder_SegmentedPacket_default
              let s := { s with f_segmentedPackets := mapPut mp_ (v_deviceId, v_streamId) v_segmentedPacket }
              pure (s, v_packets, v_packet))
            else (do
              let t15 ← CmpHeader_getVersion m v_header
              let t16 ← CmpHeader_getMessageType m v_header
              let t17 ← CmpHeader_getSequenceCounter m v_header
              let (mp_, el19) := mapIndex s.f_segmentedPackets (v_deviceId, v_streamId) Decoder_SegmentedPacket_default
              let s := { s with f_segmentedPackets := mp_ }
              let (el19, t18) ← Decoder_SegmentedPacket_addSegment_obj el19 m v_packetPtr (sext 32 64 v_curSize) t15 t16 t17
              let s := { s with f_segmentedPackets := mapPut s.f_segmentedPackets (v_deviceId, v_streamId) el19 }
              let (s, v_packets, v_packet) ← (if (!t18) then (do
                  let s := { s with f_segmentedPackets := mapErase s.f_segmentedPackets (v_deviceId, v_streamId) }
                  pure (s, v_packets, v_packet))
                else (do
                  let (mp_, el21) := mapIndex s.f_segmentedPackets (v_deviceId, v_streamId) Decoder_SegmentedPacket_default
                  let s := { s with f_segmentedPackets := mp_ }
                  let (el21, t20) ← Decoder_SegmentedPacket_isAssembled_obj el21 
                  let s := { s with f_segmentedPackets := mapPut s.f_segmentedPackets (v_deviceId, v_streamId) el21 }
                  let (s, v_packets, v_packet) ← (if t20 then (do
                      let (mp_, el23) := mapIndex s.f_segmentedPackets (v_deviceId, v_streamId) Decoder_SegmentedPacket_default
                      let s := { s with f_segmentedPackets := mp_ }
                      let (el23, t22) ← Decoder_SegmentedPacket_getPacket_obj el23 
                      let s := { s with f_segmentedPackets := mapPut s.f_segmentedPackets (v_deviceId, v_streamId) el23 }
                      let v_packet := t22
                      let v_packet := { v_packet with deviceId := v_deviceId }
                      let v_packet := { v_packet with streamId := v_streamId }
                      let v_packets := v_packets ++ [v_packet]
                      let s := { s with f_segmentedPackets := mapErase s.f_segmentedPackets (v_deviceId, v_streamId) }
                      pure (s, v_packets, v_packet))
                    else (do
                      pure (s, v_packets, v_packet)))
                  pure (s, v_packets, v_packet)))
              pure (s, v_packets, v_packet)))
          pure (s, v_packets, v_packetPtr, v_curSize, v_packet)
    else
      pure (s, v_packets, v_packetPtr, v_curSize, v_packet)

/-- `ASAM::CMP::Decoder::decode` -/
def Decoder_decode_obj (fuel : Nat) (s : Decoder_St) (m : Bytes) (a_data : Nat) (a_size : Nat) (ext_Decode : Bytes → Nat → Nat → List PktOut) : Option (Decoder_St × List PktOut) := do
  if (a_data == 0) then
    pure (s, [])
  else
    if (decide (a_size < 8)) then
      pure (s, [])
    else
      let v_dataPtr := a_data
      let t1 ← rd m v_dataPtr 1
      if (t1 == 0) then
        pure (s, ext_Decode m a_data a_size)
      else
        let v_packets := ([] : List PktOut)
        let v_header := a_data
        let t2 ← CmpHeader_getDeviceId m v_header
        let v_deviceId := t2
        let t3 ← CmpHeader_getStreamId m v_header
        let v_streamId := t3
        let t4 ← nonneg 32 1
        let v_packetPtr := (v_header + t4 * 8)
        let v_curSize := ((usub 64 a_size 8) % 4294967296)
        let v_packet := (default : PktOut)
        let (s, v_packets, v_packet) ← (if (v_curSize == 0) then (do
            let s := { s with f_segmentedPackets := mapErase s.f_segmentedPackets (v_deviceId, v_streamId) }
            pure (s, v_packets, v_packet))
          else (do
            pure (s, v_packets, v_packet)))
        let (s, v_packets, v_packetPtr, v_curSize, v_packet) ← Decoder_decode_loop1 fuel s m a_data a_size v_dataPtr v_packets v_header v_deviceId v_streamId v_packetPtr v_curSize v_packet
        pure (s, v_packets)

/-- `ASAM::CMP::Decoder::isFirstSegment` -/
def Decoder_isFirstSegment_obj (s : Decoder_St) (m : Bytes) (a_data : Nat) (a_anon1 : Nat) : Option (Decoder_St × Bool) := do
  let t2 ← MessageHeader_getSegmentType m a_data
  pure (s, (t2 == 4))

/-- `ASAM::CMP::Decoder::isSegmentedPacket` -/
def Decoder_isSegmentedPacket_obj (s : Decoder_St) (m : Bytes) (a_data : Nat) (a_anon1 : Nat) : Option (Decoder_St × Bool) := do
  let t2 ← MessageHeader_getSegmentType m a_data
  pure (s, (t2 != 0))

def Decoder_untranslated : List (String × String) := []

/-- state of `ASAM::CMP::Decoder::Endpoint`: one field per data member -/
structure Decoder_Endpoint_St where
  f_deviceId : Nat
  f_streamId : Nat
deriving Repr, Inhabited

def Decoder_Endpoint_default : Decoder_Endpoint_St := { f_deviceId := 0, f_streamId := 0 }

/-- `ASAM::CMP::Decoder::Endpoint::operator==` -/
def Decoder_Endpoint_operator___obj (s : Decoder_Endpoint_St) (a_rhs_deviceId : Nat) (a_rhs_streamId : Nat) : Option (Decoder_Endpoint_St × Bool) := do
  pure (s, ((s.f_deviceId == a_rhs_deviceId) && (s.f_streamId == a_rhs_streamId)))

def Decoder_Endpoint_untranslated : List (String × String) := []

/-- state of `ASAM::CMP::Decoder::EndpointHash`: one field per data member -/
structure Decoder_EndpointHash_St where
deriving Repr, Inhabited

def Decoder_EndpointHash_default : Decoder_EndpointHash_St := {  }

/-- `ASAM::CMP::Decoder::EndpointHash::operator()` -/
def Decoder_EndpointHash_operator___obj (s : Decoder_EndpointHash_St) (a_rhs_deviceId : Nat) (a_rhs_streamId : Nat) : Option (Decoder_EndpointHash_St × Nat) := do
  let t1 ← sshl 32 a_rhs_streamId 16
  pure (s, (sext 32 64 (a_rhs_deviceId ||| t1)))

def Decoder_EndpointHash_untranslated : List (String × String) := []

/-- state of `ASAM::CMP::InterfaceStatus`: one field per data member -/
structure InterfaceStatus_St where
  f_interfacePacket : OPkt
  f_interfaceId : Nat
deriving Repr, Inhabited

def InterfaceStatus_default : InterfaceStatus_St := { f_interfacePacket := defaultPacket, f_interfaceId := 0 }

/-- `ASAM::CMP::InterfaceStatus::getInterfaceId` -/
def InterfaceStatus_getInterfaceId_obj (s : InterfaceStatus_St)  : Option (InterfaceStatus_St × Nat) := do
  pure (s, s.f_interfaceId)

/-- `ASAM::CMP::InterfaceStatus::update` -/
def InterfaceStatus_update_obj (s : InterfaceStatus_St) (a_packet : OPkt) : Option (InterfaceStatus_St × Unit) := do
  let s := { s with f_interfaceId := (opq a_packet "getPayload.as_InterfacePayload.getInterfaceId") }
  let s := { s with f_interfacePacket := a_packet }
  pure (s, ())

def InterfaceStatus_untranslated : List (String × String) := [("ASAM::CMP::InterfaceStatus::getPacket ASAM::CMP::Packet &()", "reference type ASAM::CMP::Packet &"), ("ASAM::CMP::InterfaceStatus::getPacket const ASAM::CMP::Packet &() const", "reference type const ASAM::CMP::Packet &"), ("ASAM::CMP::InterfaceStatus::operator= ASAM::CMP::InterfaceStatus &(ASAM::CMP::", "reference type ASAM::CMP::InterfaceStatus &")]

/-- state of `ASAM::CMP::DeviceStatus`: one field per data member -/
structure DeviceStatus_St where
  f_interfaces : List InterfaceStatus_St
  f_devicePacket : OPkt
deriving Repr, Inhabited

def DeviceStatus_default : DeviceStatus_St := { f_interfaces := [], f_devicePacket := defaultPacket }

/-- `ASAM::CMP::DeviceStatus::getIndexByInterfaceId` -/
def DeviceStatus_getIndexByInterfaceId_obj (s : DeviceStatus_St) (a_interfaceId : Nat) : Option (DeviceStatus_St × Nat) := do
  pure (s, (findIdxD (fun e_ => (e_.f_interfaceId == a_interfaceId)) s.f_interfaces))

/-- `ASAM::CMP::DeviceStatus::getInterfaceStatusCount` -/
def DeviceStatus_getInterfaceStatusCount_obj (s : DeviceStatus_St)  : Option (DeviceStatus_St × Nat) := do
  pure (s, (s.f_interfaces).length)

/-- `ASAM::CMP::DeviceStatus::removeInterfaceById` -/
def DeviceStatus_removeInterfaceById_obj (s : DeviceStatus_St) (a_interfaceId : Nat) : Option (DeviceStatus_St × Unit) := do
  let (s, t1) ← DeviceStatus_getIndexByInterfaceId_obj s a_interfaceId
  let v_index := t1
  let (s, t2) ← DeviceStatus_getInterfaceStatusCount_obj s 
  let (s) ← (if (v_index != t2) then (do
      let t3 ← swapIdx s.f_interfaces v_index (usub 64 (s.f_interfaces).length 1)
      let s := { s with f_interfaces := t3 }
      let _ ← nonEmptyL s.f_interfaces
      let s := { s with f_interfaces := (s.f_interfaces).dropLast }
      pure (s))
    else (do
      pure (s)))
  pure (s, ())

/-- `ASAM::CMP::DeviceStatus::updateInterfaces` -/
def DeviceStatus_updateInterfaces_obj (s : DeviceStatus_St) (a_packet : OPkt) : Option (DeviceStatus_St × Unit) := do
  let v_newId := (opq a_packet "getPayload.as_InterfacePayload.getInterfaceId")
  let (s, t1) ← DeviceStatus_getIndexByInterfaceId_obj s v_newId
  let v_index := t1
  let (s, t2) ← DeviceStatus_getInterfaceStatusCount_obj s 
  let (s) ← (if (v_index != t2) then (do
      let el4 ← getIdx s.f_interfaces v_index
      let (el4, t3) ← InterfaceStatus_update_obj el4 a_packet
      let s := { s with f_interfaces := (s.f_interfaces).set v_index el4 }
      pure (s))
    else (do
      let v_interfaceStatus := InterfaceStatus_default
      let (v_interfaceStatus, t5) ← InterfaceStatus_update_obj v_interfaceStatus a_packet
      let s := { s with f_interfaces := s.f_interfaces ++ [v_interfaceStatus] }
      pure (s)))
  pure (s, ())

/-- `ASAM::CMP::DeviceStatus::update` -/
def DeviceStatus_update_obj (s : DeviceStatus_St) (a_packet : OPkt) : Option (DeviceStatus_St × Unit) := do
  let (s) ← (if ((opq a_packet "getPayload.getType") == 770) then (do
      let (s, _) ← DeviceStatus_updateInterfaces_obj s a_packet
      pure (s))
    else (do
      pure (s)))
  let (s) ← (if ((opq a_packet "getPayload.getType") == 769) then (do
      let s := { s with f_devicePacket := a_packet }
      pure (s))
    else (do
      pure (s)))
  pure (s, ())

def DeviceStatus_untranslated : List (String × String) := [("ASAM::CMP::DeviceStatus::getInterfaceStatus ASAM::CMP::InterfaceStatus &(std::size_t", "reference type ASAM::CMP::InterfaceStatus &"), ("ASAM::CMP::DeviceStatus::getInterfaceStatus const ASAM::CMP::InterfaceStatus &(std::", "reference type const ASAM::CMP::InterfaceStatus &"), ("ASAM::CMP::DeviceStatus::getPacket ASAM::CMP::Packet &()", "reference type ASAM::CMP::Packet &"), ("ASAM::CMP::DeviceStatus::getPacket const ASAM::CMP::Packet &() const", "reference type const ASAM::CMP::Packet &"), ("ASAM::CMP::DeviceStatus::operator= ASAM::CMP::DeviceStatus &(ASAM::CMP::Dev", "reference type ASAM::CMP::DeviceStatus &")]

/-- state of `ASAM::CMP::Status`: one field per data member -/
structure Status_St where
  f_devices : List DeviceStatus_St
deriving Repr, Inhabited

def Status_default : Status_St := { f_devices := [] }

/-- `ASAM::CMP::Status::clear` -/
def Status_clear_obj (s : Status_St)  : Option (Status_St × Unit) := do
  let s := { s with f_devices := [] }
  pure (s, ())

/-- `ASAM::CMP::Status::getDeviceStatusCount` -/
def Status_getDeviceStatusCount_obj (s : Status_St)  : Option (Status_St × Nat) := do
  pure (s, (s.f_devices).length)

/-- `ASAM::CMP::Status::getIndexByDeviceId` -/
def Status_getIndexByDeviceId_obj (s : Status_St) (a_deviceId : Nat) : Option (Status_St × Nat) := do
  pure (s, (findIdxD (fun e_ => ((opq e_.f_devicePacket "getDeviceId") == a_deviceId)) s.f_devices))

/-- `ASAM::CMP::Status::removeDeviceById` -/
def Status_removeDeviceById_obj (s : Status_St) (a_deviceId : Nat) : Option (Status_St × Unit) := do
  let (s, t1) ← Status_getIndexByDeviceId_obj s a_deviceId
  let v_index := t1
  let (s, t2) ← Status_getDeviceStatusCount_obj s 
  let (s) ← (if (v_index != t2) then (do
      let t3 ← swapIdx s.f_devices v_index (usub 64 (s.f_devices).length 1)
      let s := { s with f_devices := t3 }
      let _ ← nonEmptyL s.f_devices
      let s := { s with f_devices := (s.f_devices).dropLast }
      pure (s))
    else (do
      pure (s)))
  pure (s, ())

/-- `ASAM::CMP::Status::update` -/
def Status_update_obj (s : Status_St) (a_packet : OPkt) : Option (Status_St × Unit) := do
  let (s, t1) ← Status_getIndexByDeviceId_obj s (opq a_packet "getDeviceId")
  let v_index := t1
  let (s, t2) ← Status_getDeviceStatusCount_obj s 
  let (s) ← (if (decide (v_index < t2)) then (do
      let el4 ← getIdx s.f_devices v_index
      let (el4, t3) ← DeviceStatus_update_obj el4 a_packet
      let s := { s with f_devices := (s.f_devices).set v_index el4 }
      pure (s))
    else (do
      let (s) ← (if ((opq a_packet "getPayload.getType") == 769) then (do
          let v_deviceStatus := DeviceStatus_default
          let (v_deviceStatus, t5) ← DeviceStatus_update_obj v_deviceStatus a_packet
          let s := { s with f_devices := s.f_devices ++ [v_deviceStatus] }
          pure (s))
        else (do
          pure (s)))
      pure (s)))
  pure (s, ())

def Status_untranslated : List (String × String) := [("ASAM::CMP::Status::getDeviceStatus ASAM::CMP::DeviceStatus &(std::size_t)", "reference type ASAM::CMP::DeviceStatus &"), ("ASAM::CMP::Status::getDeviceStatus const ASAM::CMP::DeviceStatus &(std::siz", "reference type const ASAM::CMP::DeviceStatus &")]

end AsamCmp.SrcGen
