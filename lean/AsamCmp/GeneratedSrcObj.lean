/- GENERATED on every run by vlib/srcobj.py from the typed clang AST of /repo/src/encoder.cpp, packet.cpp, payload.cpp (+ payload_type.h and the payload classes' constructors), decoder.cpp, status.cpp, device_status.cpp, interface_status.cpp — do not edit. -/
import AsamCmp.GeneratedSrc
import AsamCmp.Src.Obj
set_option linter.unusedVariables false
namespace AsamCmp.SrcGen
open AsamCmp AsamCmp.Src

/-- state of `ASAM::CMP::Encoder`: one field per data member -/
structure Encoder_St where
  f_minBytesPerMessage : Nat
  f_maxBytesPerMessage : Nat
  f_deviceId : Nat
  f_streamId : Nat
  f_cmpFrameTemplate : Bytes
  f_bytesLeft : Nat
  f_sequenceCounter : Nat
  f_messageType : Nat
  f_cmpFrames : List Bytes
deriving Repr, Inhabited

def Encoder_default : Encoder_St := { f_minBytesPerMessage := 0, f_maxBytesPerMessage := 0, f_deviceId := 0, f_streamId := 0, f_cmpFrameTemplate := [], f_bytesLeft := 0, f_sequenceCounter := 0, f_messageType := 0, f_cmpFrames := [] }

/-- `ASAM::CMP::Encoder::closeLastFrame` -/
def Encoder_closeLastFrame_obj (s : Encoder_St)  : Option (Encoder_St × Unit) := do
  if (s.f_cmpFrames).isEmpty then
    pure (s, ())
  else
    let (s) ← (if (s.f_bytesLeft == (usub 64 s.f_maxBytesPerMessage 8)) then (do
        let _ ← nonEmpty s.f_cmpFrames
        let s := { s with f_cmpFrames := (s.f_cmpFrames).dropLast }
        let s := { s with f_sequenceCounter := ((s.f_sequenceCounter + 65535) % 65536) }
        pure (s))
      else (do
        let _ ← nonEmpty s.f_cmpFrames
        let _ ← nonEmpty s.f_cmpFrames
        let s := { s with f_cmpFrames := setLast s.f_cmpFrames (resize (lastD s.f_cmpFrames) (Nat.max (usub 64 ((lastD s.f_cmpFrames)).length s.f_bytesLeft) s.f_minBytesPerMessage)) }
        pure (s)))
    pure (s, ())

/-- `ASAM::CMP::Encoder::createCmpFrameTemplate` -/
def Encoder_createCmpFrameTemplate_obj (s : Encoder_St) (a_packet : PktIn) : Option (Encoder_St × Unit) := do
  let s := { s with f_cmpFrameTemplate := resize s.f_cmpFrameTemplate s.f_maxBytesPerMessage }
  let t1 ← wrBytes s.f_cmpFrameTemplate 0 a_packet.rawCmpHeader 8
  let s := { s with f_cmpFrameTemplate := t1 }
  let v_cmpHeader_off := 0
  let t2 ← CmpHeader_setDeviceId s.f_cmpFrameTemplate v_cmpHeader_off s.f_deviceId
  let s := { s with f_cmpFrameTemplate := t2 }
  let t3 ← CmpHeader_setStreamId s.f_cmpFrameTemplate v_cmpHeader_off s.f_streamId
  let s := { s with f_cmpFrameTemplate := t3 }
  pure (s, ())

/-- `ASAM::CMP::Encoder::addNewCMPFrame` -/
def Encoder_addNewCMPFrame_obj (s : Encoder_St) (a_packet : PktIn) : Option (Encoder_St × Unit) := do
  let (s, _) ← Encoder_closeLastFrame_obj s  
  let (s) ← (if (s.f_cmpFrameTemplate).isEmpty then (do
      let (s, _) ← Encoder_createCmpFrameTemplate_obj s a_packet 
      pure (s))
    else (do
      pure (s)))
  let s := { s with f_cmpFrames := s.f_cmpFrames ++ [s.f_cmpFrameTemplate] }
  let _ ← nonEmpty s.f_cmpFrames
  let v_header_off := 0
  let s := { s with f_sequenceCounter := ((s.f_sequenceCounter + 1) % 65536) }
  let t1 ← CmpHeader_setSequenceCounter (lastD s.f_cmpFrames) v_header_off s.f_sequenceCounter
  let s := { s with f_cmpFrames := setLast s.f_cmpFrames t1 }
  let s := { s with f_bytesLeft := (usub 64 s.f_maxBytesPerMessage 8) }
  pure (s, ())

/-- `ASAM::CMP::Encoder::addNewDataHeader` -/
def Encoder_addNewDataHeader_obj (s : Encoder_St) (a_packet : PktIn) (a_bytesToAdd : Nat) (a_segmentationFlag : Nat) : Option (Encoder_St × Unit) := do
  let _ ← nonEmpty s.f_cmpFrames
  let _ ← nonEmpty s.f_cmpFrames
  let _ ← nonEmpty s.f_cmpFrames
  let v_header_off := (usub 64 ((lastD s.f_cmpFrames)).length s.f_bytesLeft)
  let t1 ← wrBytes (lastD s.f_cmpFrames) v_header_off a_packet.rawMsgHeader 16
  let s := { s with f_cmpFrames := setLast s.f_cmpFrames t1 }
  let t2 ← MessageHeader_setPayloadLength (lastD s.f_cmpFrames) v_header_off a_bytesToAdd
  let s := { s with f_cmpFrames := setLast s.f_cmpFrames t2 }
  let t3 ← MessageHeader_setSegmentType (lastD s.f_cmpFrames) v_header_off a_segmentationFlag
  let s := { s with f_cmpFrames := setLast s.f_cmpFrames t3 }
  let s := { s with f_bytesLeft := (usub 64 s.f_bytesLeft 16) }
  pure (s, ())

/-- `ASAM::CMP::Encoder::buildSegmentationFlag` -/
def Encoder_buildSegmentationFlag_obj (s : Encoder_St) (a_isSegmented : Bool) (a_segmentInd : Nat) (a_bytesToAdd : Nat) (a_payloadSize : Nat) (a_currentPayloadPos : Nat) : Option (Encoder_St × Nat) := do
  let v_segmentationFlag := 0
  let (s, v_segmentationFlag) ← (if a_isSegmented then (do
      let (s, v_segmentationFlag) ← (if (a_segmentInd == 0) then (do
          let v_segmentationFlag := 4
          pure (s, v_segmentationFlag))
        else (do
          let v_segmentationFlag := (if ((uadd 64 a_currentPayloadPos a_bytesToAdd) == a_payloadSize) then 12 else 8)
          pure (s, v_segmentationFlag)))
      pure (s, v_segmentationFlag))
    else (do
      pure (s, v_segmentationFlag)))
  pure (s, v_segmentationFlag)

/-- `ASAM::CMP::Encoder::checkIfSegmented` -/
def Encoder_checkIfSegmented_obj (s : Encoder_St) (a_packet : PktIn) : Option (Encoder_St × Bool) := do
  let v_isSegmented := ((!(s.f_cmpFrames).isEmpty) && (decide (s.f_bytesLeft < (uadd 64 16 a_packet.payloadLength))))
  let (s, v_isSegmented) ← (if v_isSegmented then (do
      let (s, _) ← Encoder_addNewCMPFrame_obj s a_packet 
      let v_isSegmented := ((!(s.f_cmpFrames).isEmpty) && (decide (s.f_bytesLeft < (uadd 64 16 a_packet.payloadLength))))
      pure (s, v_isSegmented))
    else (do
      pure (s, v_isSegmented)))
  pure (s, v_isSegmented)

/-- `ASAM::CMP::Encoder::clearEncodingMetadata` -/
def Encoder_clearEncodingMetadata_obj (s : Encoder_St) (a_clearSequenceCounter : Bool) : Option (Encoder_St × Unit) := do
  let s := { s with f_bytesLeft := 0 }
  let s := { s with f_cmpFrames := [] }
  let s := { s with f_cmpFrameTemplate := [] }
  let (s) ← (if a_clearSequenceCounter then (do
      let s := { s with f_sequenceCounter := 0 }
      pure (s))
    else (do
      pure (s)))
  pure (s, ())

/-- `ASAM::CMP::Encoder::init` -/
def Encoder_init_obj (s : Encoder_St) (a_dataContext_minBytesPerMessage : Nat) (a_dataContext_maxBytesPerMessage : Nat) : Option (Encoder_St × Unit) := do
  let (s, _) ← Encoder_clearEncodingMetadata_obj s false 
  let s := { s with f_minBytesPerMessage := a_dataContext_minBytesPerMessage }
  let s := { s with f_maxBytesPerMessage := a_dataContext_maxBytesPerMessage }
  pure (s, ())

/-- `ASAM::CMP::Encoder::setMessageType` -/
def Encoder_setMessageType_obj (s : Encoder_St) (a_packet : PktIn) : Option (Encoder_St × Unit) := do
  let s := { s with f_messageType := a_packet.messageType }
  let s := { s with f_cmpFrameTemplate := [] }
  let (s, _) ← Encoder_addNewCMPFrame_obj s a_packet 
  pure (s, ())

def Encoder_putPacket_loop1 (fuel : Nat) (s : Encoder_St) (a_packet : PktIn) (v_currentPayloadPos : Nat) (v_isSegmented : Bool) (v_segmentInd : Nat) : Option (Encoder_St × Nat × Nat) :=
  match fuel with
  | 0 => none
  | fuel + 1 => do
    if (decide (v_currentPayloadPos < a_packet.payloadLength)) then
      let (s) ← (if (decide (s.f_bytesLeft < 16)) then (do
          let (s, _) ← Encoder_addNewCMPFrame_obj s a_packet 
          pure (s))
        else (do
          pure (s)))
      let v_bytesToAdd := ((Nat.min (usub 64 s.f_bytesLeft 16) (usub 64 a_packet.payloadLength v_currentPayloadPos)) % 65536)
      let (s, t2) ← Encoder_buildSegmentationFlag_obj s v_isSegmented v_segmentInd v_bytesToAdd a_packet.payloadLength v_currentPayloadPos 
      let v_isSegmentedFlag := t2
      let (s, _) ← Encoder_addNewDataHeader_obj s a_packet v_bytesToAdd v_isSegmentedFlag 
      let _ ← nonEmpty s.f_cmpFrames
      let _ ← nonEmpty s.f_cmpFrames
      let _ ← nonEmpty s.f_cmpFrames
      let t3 ← wrBytes (lastD s.f_cmpFrames) (usub 64 ((lastD s.f_cmpFrames)).length s.f_bytesLeft) (a_packet.rawPayload.drop (0 + v_currentPayloadPos)) v_bytesToAdd
      let s := { s with f_cmpFrames := setLast s.f_cmpFrames t3 }
      let t4 ← sadd 32 v_segmentInd 1
      let v_segmentInd := t4
      let v_currentPayloadPos := (uadd 64 v_currentPayloadPos v_bytesToAdd)
      let s := { s with f_bytesLeft := (usub 64 s.f_bytesLeft v_bytesToAdd) }
      let (s) ← (if (v_isSegmentedFlag == 12) then (do
          let (s, _) ← Encoder_addNewCMPFrame_obj s a_packet 
          pure (s))
        else (do
          pure (s)))
      Encoder_putPacket_loop1 fuel s a_packet v_currentPayloadPos v_isSegmented v_segmentInd
    else
      pure (s, v_currentPayloadPos, v_segmentInd)

/-- `ASAM::CMP::Encoder::putPacket` -/
def Encoder_putPacket_obj (fuel : Nat) (s : Encoder_St) (a_packet : PktIn) : Option (Encoder_St × Unit) := do
  let (s) ← (if ((s.f_cmpFrames).isEmpty || (s.f_messageType != a_packet.messageType)) then (do
      let (s, _) ← Encoder_setMessageType_obj s a_packet 
      pure (s))
    else (do
      pure (s)))
  let v_currentPayloadPos := 0
  let (s, t1) ← Encoder_checkIfSegmented_obj s a_packet 
  let v_isSegmented := t1
  let v_segmentInd := 0
  let (s, v_currentPayloadPos, v_segmentInd) ← Encoder_putPacket_loop1 fuel s a_packet v_currentPayloadPos v_isSegmented v_segmentInd
  pure (s, ())

/-- `ASAM::CMP::Encoder::getEncodedData` -/
def Encoder_getEncodedData_obj (s : Encoder_St)  : Option (Encoder_St × List Bytes) := do
  let (s, _) ← Encoder_closeLastFrame_obj s  
  let v_frames := s.f_cmpFrames
  let s := { s with f_cmpFrames := [] }
  let (s, _) ← Encoder_clearEncodingMetadata_obj s false 
  pure (s, v_frames)

/-- `ASAM::CMP::Encoder::encode` -/
def Encoder_encode_obj (fuel : Nat) (s : Encoder_St) (a_packet : PktIn) (a_dataContext_minBytesPerMessage : Nat) (a_dataContext_maxBytesPerMessage : Nat) : Option (Encoder_St × List Bytes) := do
  let (s, _) ← Encoder_init_obj s a_dataContext_minBytesPerMessage a_dataContext_maxBytesPerMessage 
  let (s, _) ← Encoder_putPacket_obj fuel s a_packet 
  let (s, t1) ← Encoder_getEncodedData_obj s  
  pure (s, t1)

/-- `ASAM::CMP::Encoder::getDeviceId` -/
def Encoder_getDeviceId_obj (s : Encoder_St)  : Option (Encoder_St × Nat) := do
  pure (s, s.f_deviceId)

/-- `ASAM::CMP::Encoder::getSequenceCounter` -/
def Encoder_getSequenceCounter_obj (s : Encoder_St)  : Option (Encoder_St × Nat) := do
  pure (s, s.f_sequenceCounter)

/-- `ASAM::CMP::Encoder::getStreamId` -/
def Encoder_getStreamId_obj (s : Encoder_St)  : Option (Encoder_St × Nat) := do
  pure (s, s.f_streamId)

/-- `ASAM::CMP::Encoder::restart` -/
def Encoder_restart_obj (s : Encoder_St)  : Option (Encoder_St × Unit) := do
  let s := { s with f_sequenceCounter := 0 }
  pure (s, ())

/-- `ASAM::CMP::Encoder::setDeviceId` -/
def Encoder_setDeviceId_obj (s : Encoder_St) (a_newDeviceId : Nat) : Option (Encoder_St × Unit) := do
  let s := { s with f_deviceId := a_newDeviceId }
  let (s, _) ← Encoder_clearEncodingMetadata_obj s true 
  pure (s, ())

/-- `ASAM::CMP::Encoder::setStreamId` -/
def Encoder_setStreamId_obj (s : Encoder_St) (a_newStreamId : Nat) : Option (Encoder_St × Unit) := do
  let s := { s with f_streamId := a_newStreamId }
  let (s, _) ← Encoder_clearEncodingMetadata_obj s true 
  pure (s, ())

def Encoder_untranslated : List (String × String) := [("ASAM::CMP::Encoder::encode", "type ForwardPtrIterator")]

/-- `ASAM::CMP::Encoder::encode` (member template over the iterator range `[begin, end)`): the range is the list of the packets it designates -/
def Encoder_encode_range_obj (fuel : Nat) (s : Encoder_St) (r_begin_end : List PktIn) (a_dataContext_minBytesPerMessage : Nat) (a_dataContext_maxBytesPerMessage : Nat) : Option (Encoder_St × List Bytes) := do
  let (s, _) ← Encoder_init_obj s a_dataContext_minBytesPerMessage a_dataContext_maxBytesPerMessage
  let s ← r_begin_end.foldlM (fun s x => do
    let (s, _) ← Encoder_putPacket_obj fuel s x
    pure s) s
  let (s, t1) ← Encoder_getEncodedData_obj s 
  pure (s, t1)

/-- `ASAM::CMP::Encoder::encode` (member template over the iterator range `[begin, end)` of `shared_ptr<Packet>`, dereferenced unchecked): the range is the list of the packets it designates -/
def Encoder_encode_ptrRange_obj (fuel : Nat) (s : Encoder_St) (r_begin_end : List PktIn) (a_dataContext_minBytesPerMessage : Nat) (a_dataContext_maxBytesPerMessage : Nat) : Option (Encoder_St × List Bytes) := do
  let (s, _) ← Encoder_init_obj s a_dataContext_minBytesPerMessage a_dataContext_maxBytesPerMessage
  let s ← r_begin_end.foldlM (fun s x => do
    let (s, _) ← Encoder_putPacket_obj fuel s x
    pure s) s
  let (s, t1) ← Encoder_getEncodedData_obj s 
  pure (s, t1)

def Encoder_templates_untranslated : List (String × String) := []

/-- state of `ASAM::CMP::Packet`: one field per data member -/
structure Packet_St where
  f_version : Nat
  f_deviceId : Nat
  f_streamId : Nat
  f_sequenceCounter : Nat
  f_timestamp : Nat
  f_interfaceId : Nat
  f_vendorId : Nat
  f_commonFlags : Nat
  f_segmentType : Nat
deriving Repr, Inhabited

def Packet_default : Packet_St := { f_version := 1, f_deviceId := 0, f_streamId := 0, f_sequenceCounter := 0, f_timestamp := 0, f_interfaceId := 0, f_vendorId := 0, f_commonFlags := 0, f_segmentType := 0 }

/-- `ASAM::CMP::Packet::getCommonFlag` -/
def Packet_getCommonFlag_obj (s : Packet_St) (a_mask : Nat) : Option (Packet_St × Bool) := do
  pure (s, ((s.f_commonFlags &&& a_mask) != 0))

/-- `ASAM::CMP::Packet::getCommonFlags` -/
def Packet_getCommonFlags_obj (s : Packet_St)  : Option (Packet_St × Nat) := do
  pure (s, s.f_commonFlags)

/-- `ASAM::CMP::Packet::getDeviceId` -/
def Packet_getDeviceId_obj (s : Packet_St)  : Option (Packet_St × Nat) := do
  pure (s, s.f_deviceId)

/-- `ASAM::CMP::Packet::getInterfaceId` -/
def Packet_getInterfaceId_obj (s : Packet_St)  : Option (Packet_St × Nat) := do
  pure (s, s.f_interfaceId)

/-- `ASAM::CMP::Packet::getVersion` -/
def Packet_getVersion_obj (s : Packet_St)  : Option (Packet_St × Nat) := do
  pure (s, s.f_version)

/-- `ASAM::CMP::Packet::getStreamId` -/
def Packet_getStreamId_obj (s : Packet_St)  : Option (Packet_St × Nat) := do
  pure (s, s.f_streamId)

/-- `ASAM::CMP::Packet::getSequenceCounter` -/
def Packet_getSequenceCounter_obj (s : Packet_St)  : Option (Packet_St × Nat) := do
  pure (s, s.f_sequenceCounter)

/-- `ASAM::CMP::Packet::getRawCmpHeader` -/
def Packet_getRawCmpHeader_obj (s : Packet_St) (g_getMessageType : Nat) : Option (Packet_St × Bytes) := do
  let out_ := ([] : Bytes)
  let v_header := ([1, 0, 0, 0, 0, 0, 0, 0] : Bytes)
  let (s, t1) ← Packet_getVersion_obj s  
  let v_header ← CmpHeader_setVersion v_header 0 t1
  let (s, t2) ← Packet_getDeviceId_obj s  
  let v_header ← CmpHeader_setDeviceId v_header 0 t2
  let v_header ← CmpHeader_setMessageType v_header 0 g_getMessageType
  let (s, t3) ← Packet_getStreamId_obj s  
  let v_header ← CmpHeader_setStreamId v_header 0 t3
  let (s, t4) ← Packet_getSequenceCounter_obj s  
  let v_header ← CmpHeader_setSequenceCounter v_header 0 t4
  let out_ ← takeExact v_header 8
  pure (s, out_)

/-- `ASAM::CMP::Packet::getTimestamp` -/
def Packet_getTimestamp_obj (s : Packet_St)  : Option (Packet_St × Nat) := do
  pure (s, s.f_timestamp)

/-- `ASAM::CMP::Packet::getVendorId` -/
def Packet_getVendorId_obj (s : Packet_St)  : Option (Packet_St × Nat) := do
  pure (s, s.f_vendorId)

/-- `ASAM::CMP::Packet::getRawMessageHeader` -/
def Packet_getRawMessageHeader_obj (s : Packet_St) (g_getMessageType : Nat) (g_getPayloadType : Nat) (g_getPayloadLength : Nat) : Option (Packet_St × Bytes) := do
  let out_ := ([] : Bytes)
  let v_header := ([0, 0, 0, 0, 0, 0, 0, 0, 0, 0, 0, 0, 0, 0, 0, 0] : Bytes)
  let (s, t1) ← Packet_getTimestamp_obj s  
  let v_header ← MessageHeader_setTimestamp v_header 0 t1
  let v_messageType := g_getMessageType
  let sw2 := v_messageType
  if sw2 == 1 then
    let (s, t3) ← Packet_getInterfaceId_obj s  
    let v_header ← MessageHeader_setInterfaceId v_header 0 t3
    let (s, t4) ← Packet_getCommonFlags_obj s  
    let v_header ← MessageHeader_setCommonFlags v_header 0 t4
    let v_header ← MessageHeader_setPayloadType v_header 0 g_getPayloadType
    let v_header ← MessageHeader_setPayloadLength v_header 0 g_getPayloadLength
    let out_ ← takeExact v_header 16
    pure (s, out_)
  else if sw2 == 3 || sw2 == 255 then
    let (s, t5) ← Packet_getVendorId_obj s  
    let v_header ← MessageHeader_setVendorId v_header 0 t5
    let (s, t6) ← Packet_getCommonFlags_obj s  
    let v_header ← MessageHeader_setCommonFlags v_header 0 t6
    let v_header ← MessageHeader_setPayloadType v_header 0 g_getPayloadType
    let v_header ← MessageHeader_setPayloadLength v_header 0 g_getPayloadLength
    let out_ ← takeExact v_header 16
    pure (s, out_)
  else if sw2 == 2 then
    let (s, t7) ← Packet_getCommonFlags_obj s  
    let v_header ← MessageHeader_setCommonFlags v_header 0 t7
    let v_header ← MessageHeader_setPayloadType v_header 0 g_getPayloadType
    let v_header ← MessageHeader_setPayloadLength v_header 0 g_getPayloadLength
    let out_ ← takeExact v_header 16
    pure (s, out_)
  else
    let (s, t7) ← Packet_getCommonFlags_obj s  
    let v_header ← MessageHeader_setCommonFlags v_header 0 t7
    let v_header ← MessageHeader_setPayloadType v_header 0 g_getPayloadType
    let v_header ← MessageHeader_setPayloadLength v_header 0 g_getPayloadLength
    let out_ ← takeExact v_header 16
    pure (s, out_)

/-- `ASAM::CMP::Packet::getSegmentType` -/
def Packet_getSegmentType_obj (s : Packet_St)  : Option (Packet_St × Nat) := do
  pure (s, s.f_segmentType)

/-- `ASAM::CMP::Packet::isValidPacket` -/
def Packet_isValidPacket_obj (s : Packet_St) (m : Bytes) (a_data : Nat) (a_size : Nat) : Option (Packet_St × Bool) := do
  let v_header := a_data
  let t2 ← (if (decide (a_size ≥ 16)) then (do let t1 ← MessageHeader_getPayloadLength m v_header; pure (decide (t1 ≤ (usub 64 a_size 16)))) else pure false)
  let t4 ← (if t2 then (do let t3 ← MessageHeader_getCommonFlag m v_header 64; pure (!t3)) else pure false)
  let t6 ← (if t4 then (do let t5 ← MessageHeader_getPayloadType m v_header; pure (t5 != 0)) else pure false)
  pure (s, t6)

/-- `ASAM::CMP::Packet::setCommonFlag` -/
def Packet_setCommonFlag_obj (s : Packet_St) (a_mask : Nat) (a_value : Bool) : Option (Packet_St × Unit) := do
  let s := { s with f_commonFlags := ((if a_value then (s.f_commonFlags ||| a_mask) else (s.f_commonFlags &&& (bnot 32 a_mask))) % 256) }
  pure (s, ())

/-- `ASAM::CMP::Packet::setCommonFlags` -/
def Packet_setCommonFlags_obj (s : Packet_St) (a_flags : Nat) : Option (Packet_St × Unit) := do
  let s := { s with f_commonFlags := a_flags }
  pure (s, ())

/-- `ASAM::CMP::Packet::setDeviceId` -/
def Packet_setDeviceId_obj (s : Packet_St) (a_value : Nat) : Option (Packet_St × Unit) := do
  let s := { s with f_deviceId := a_value }
  pure (s, ())

/-- `ASAM::CMP::Packet::setInterfaceId` -/
def Packet_setInterfaceId_obj (s : Packet_St) (a_id : Nat) : Option (Packet_St × Unit) := do
  let s := { s with f_interfaceId := a_id }
  pure (s, ())

/-- `ASAM::CMP::Packet::setSegmentType` -/
def Packet_setSegmentType_obj (s : Packet_St) (a_type : Nat) : Option (Packet_St × Unit) := do
  let s := { s with f_segmentType := a_type }
  pure (s, ())

/-- `ASAM::CMP::Packet::setSequenceCounter` -/
def Packet_setSequenceCounter_obj (s : Packet_St) (a_counter : Nat) : Option (Packet_St × Unit) := do
  let s := { s with f_sequenceCounter := a_counter }
  pure (s, ())

/-- `ASAM::CMP::Packet::setStreamId` -/
def Packet_setStreamId_obj (s : Packet_St) (a_value : Nat) : Option (Packet_St × Unit) := do
  let s := { s with f_streamId := a_value }
  pure (s, ())

/-- `ASAM::CMP::Packet::setTimestamp` -/
def Packet_setTimestamp_obj (s : Packet_St) (a_newTimestamp : Nat) : Option (Packet_St × Unit) := do
  let s := { s with f_timestamp := a_newTimestamp }
  pure (s, ())

/-- `ASAM::CMP::Packet::setVendorId` -/
def Packet_setVendorId_obj (s : Packet_St) (a_id : Nat) : Option (Packet_St × Unit) := do
  let s := { s with f_vendorId := a_id }
  pure (s, ())

/-- `ASAM::CMP::Packet::setVersion` -/
def Packet_setVersion_obj (s : Packet_St) (a_value : Nat) : Option (Packet_St × Unit) := do
  let s := { s with f_version := a_value }
  pure (s, ())

def Packet_untranslated : List (String × String) := [("ASAM::CMP::Packet::create", "type std::unique_ptr<Payload>"), ("ASAM::CMP::Packet::getMessageType", "overloaded operator"), ("ASAM::CMP::Packet::getPayload", "reference type const ASAM::CMP::Payload &"), ("ASAM::CMP::Packet::getPayloadLength", "UserDefinedConversion"), ("ASAM::CMP::Packet::getPayloadType", "overloaded operator"), ("ASAM::CMP::Packet::isValid", "UserDefinedConversion"), ("ASAM::CMP::Packet::operator=", "reference type ASAM::CMP::Packet &"), ("ASAM::CMP::Packet::setMessageHeader", "type ASAM::CMP::MessageHeader"), ("ASAM::CMP::Packet::setPayload", "type std::vector<uint8_t>")]

/-- state of `ASAM::CMP::Decoder::SegmentedPacket`: one field per data member -/
structure Decoder_SegmentedPacket_St where
  f_payload : Bytes
  f_segmentType : Nat
  f_curVersion : Nat
  f_curMessageType : Nat
  f_curSegment : Nat
deriving Repr, Inhabited

def Decoder_SegmentedPacket_default : Decoder_SegmentedPacket_St := { f_payload := [], f_segmentType := 0, f_curVersion := 0, f_curMessageType := 0, f_curSegment := 0 }

/-- `ASAM::CMP::Decoder::SegmentedPacket::isValidSegmentType` -/
def Decoder_SegmentedPacket_isValidSegmentType_obj (s : Decoder_SegmentedPacket_St) (a_type : Nat) : Option (Decoder_SegmentedPacket_St × Bool) := do
  let sw1 := s.f_segmentType
  if sw1 == 0 || sw1 == 12 then
    pure (s, ((a_type == 0) || (a_type == 4)))
  else if sw1 == 4 || sw1 == 8 then
    pure (s, ((a_type == 8) || (a_type == 12)))
  else
    pure (s, false)

/-- `ASAM::CMP::Decoder::SegmentedPacket::addSegment` -/
def Decoder_SegmentedPacket_addSegment_obj (s : Decoder_SegmentedPacket_St) (m : Bytes) (a_data : Nat) (a_size : Nat) (a_version : Nat) (a_messageType : Nat) (a_sequenceCounter : Nat) : Option (Decoder_SegmentedPacket_St × Bool) := do
  let t2 ← (if ((s.f_curVersion != a_version) || (s.f_curMessageType != a_messageType)) then pure true else (do let t1 ← sadd 32 s.f_curSegment 1; pure (a_sequenceCounter != (t1 % 65536))))
  if t2 then
    pure (s, false)
  else
    let v_header := a_data
    let t3 ← MessageHeader_getPayloadLength m v_header
    let v_newPayloadSize := t3
    if (decide (v_newPayloadSize > (usub 64 a_size 16))) then
      pure (s, false)
    else
      let t4 ← MessageHeader_getSegmentType m v_header
      let v_type := t4
      let (s, t5) ← Decoder_SegmentedPacket_isValidSegmentType_obj s v_type 
      if (!t5) then
        pure (s, false)
      else
        let v_curPayloadSize := (s.f_payload).length
        let s := { s with f_payload := resize s.f_payload (uadd 64 v_curPayloadSize v_newPayloadSize) }
        let t6 ← wrBytes s.f_payload (0 + v_curPayloadSize) (m.drop (a_data + 16)) v_newPayloadSize
        let s := { s with f_payload := t6 }
        let t7 ← MessageHeader_setPayloadLength s.f_payload 0 ((usub 64 ((s.f_payload).length % 65536) 16) % 65536)
        let s := { s with f_payload := t7 }
        let s := { s with f_curSegment := ((s.f_curSegment + 1) % 65536) }
        let s := { s with f_segmentType := v_type }
        pure (s, true)

/-- `ASAM::CMP::Decoder::SegmentedPacket::getPacket` -/
def Decoder_SegmentedPacket_getPacket_obj (s : Decoder_SegmentedPacket_St)  : Option (Decoder_SegmentedPacket_St × PktOut) := do
  let t1 ← mkPacket s.f_curMessageType (s.f_payload.drop 0)
  let v_packet := t1
  let v_packet := { v_packet with version := s.f_curVersion }
  pure (s, v_packet)

/-- `ASAM::CMP::Decoder::SegmentedPacket::isAssembled` -/
def Decoder_SegmentedPacket_isAssembled_obj (s : Decoder_SegmentedPacket_St)  : Option (Decoder_SegmentedPacket_St × Bool) := do
  pure (s, (s.f_segmentType == 12))

/-- `ASAM::CMP::Decoder::SegmentedPacket::SegmentedPacket` -/
def Decoder_SegmentedPacket_SegmentedPacket_ctor_obj (s : Decoder_SegmentedPacket_St) (m : Bytes) (a_data : Nat) (a_size : Nat) (a_version : Nat) (a_messageType : Nat) (a_sequenceCounter : Nat) : Option (Decoder_SegmentedPacket_St × Unit) := do
  let s := { s with f_payload := [] }
  let s := { s with f_segmentType := 4 }
  let s := { s with f_curVersion := a_version }
  let s := { s with f_curMessageType := a_messageType }
  let s := { s with f_curSegment := a_sequenceCounter }
  let t1 ← MessageHeader_getPayloadLength m a_data
  let v_segmentSize := (Nat.min a_size (uadd 64 16 t1))
  let s := { s with f_payload := resize s.f_payload v_segmentSize }
  let t2 ← wrBytes s.f_payload 0 (m.drop a_data) v_segmentSize
  let s := { s with f_payload := t2 }
  pure (s, ())

def Decoder_SegmentedPacket_untranslated : List (String × String) := [("ASAM::CMP::Decoder::SegmentedPacket::getHeader", "vector member used as a scalar lvalue"), ("ASAM::CMP::Decoder::SegmentedPacket::operator=", "reference type ASAM::CMP::Decoder::SegmentedPacket &")]

/-- state of `ASAM::CMP::Decoder`: one field per data member -/
structure Decoder_St where
  f_segmentedPackets : SMap Decoder_SegmentedPacket_St
deriving Repr, Inhabited

def Decoder_default : Decoder_St := { f_segmentedPackets := [] }

def Decoder_decode_loop1 {F : Type} (fuel : Nat) (s : Decoder_St) (m : Bytes) (a_data : Nat) (a_size : Nat) (v_dataPtr : Nat) (v_packets : List (PktOut ⊕ F)) (v_header : Nat) (v_deviceId : Nat) (v_streamId : Nat) (v_packetPtr : Nat) (v_curSize : Nat) (v_packet : PktOut) : Option (Decoder_St × List (PktOut ⊕ F) × Nat × Nat × PktOut) :=
  match fuel with
  | 0 => none
  | fuel + 1 => do
    if (decide (v_curSize > 0)) then
      let t5 ← Packet_isValidPacket m v_packetPtr v_curSize
      if (!t5) then
        let s := { s with f_segmentedPackets := mapErase s.f_segmentedPackets (v_deviceId, v_streamId) }
        pure (s, v_packets, v_packetPtr, v_curSize, v_packet)
      else
        let t6 ← Decoder_isSegmentedPacket m v_packetPtr v_curSize
        if (!t6) then
          let s := { s with f_segmentedPackets := mapErase s.f_segmentedPackets (v_deviceId, v_streamId) }
          let t7 ← CmpHeader_getMessageType m v_header
          let t8 ← mkPacket t7 (m.drop v_packetPtr)
          let v_packet := t8
          let t9 ← CmpHeader_getVersion m v_header
          let v_packet := { v_packet with version := t9 }
          let v_packet := { v_packet with deviceId := v_deviceId }
          let v_packet := { v_packet with streamId := v_streamId }
          let v_packets := v_packets ++ [Sum.inl v_packet]
          let v_packetSize := (uadd 64 (pktPayloadLength v_packet) 16)
          let v_packetPtr := (v_packetPtr + v_packetSize)
          let v_curSize := (usub 64 v_curSize v_packetSize)
          Decoder_decode_loop1 fuel s m a_data a_size v_dataPtr v_packets v_header v_deviceId v_streamId v_packetPtr v_curSize v_packet
        else
          let t10 ← Decoder_isFirstSegment m v_packetPtr v_curSize
          let (s, v_packets, v_packet) ← (if t10 then (do
              let t11 ← CmpHeader_getVersion m v_header
              let t12 ← CmpHeader_getMessageType m v_header
              let t13 ← CmpHeader_getSequenceCounter m v_header
              let (v_segmentedPacket, _) ← Decoder_SegmentedPacket_SegmentedPacket_ctor_obj Decoder_SegmentedPacket_default m v_packetPtr v_curSize t11 t12 t13
              let (mp_, _) := mapIndex s.f_segmentedPackets (v_deviceId, v_streamId) Decoder_SegmentedPacket_default
              let s := { s with f_segmentedPackets := mapPut mp_ (v_deviceId, v_streamId) v_segmentedPacket }
              pure (s, v_packets, v_packet))
            else (do
              let t14 ← CmpHeader_getVersion m v_header
              let t15 ← CmpHeader_getMessageType m v_header
              let t16 ← CmpHeader_getSequenceCounter m v_header
              let (mp_, el18) := mapIndex s.f_segmentedPackets (v_deviceId, v_streamId) Decoder_SegmentedPacket_default
              let s := { s with f_segmentedPackets := mp_ }
              let (el18, t17) ← Decoder_SegmentedPacket_addSegment_obj el18 m v_packetPtr v_curSize t14 t15 t16
              let s := { s with f_segmentedPackets := mapPut s.f_segmentedPackets (v_deviceId, v_streamId) el18 }
              let (s, v_packets, v_packet) ← (if (!t17) then (do
                  let s := { s with f_segmentedPackets := mapErase s.f_segmentedPackets (v_deviceId, v_streamId) }
                  pure (s, v_packets, v_packet))
                else (do
                  let (mp_, el20) := mapIndex s.f_segmentedPackets (v_deviceId, v_streamId) Decoder_SegmentedPacket_default
                  let s := { s with f_segmentedPackets := mp_ }
                  let (el20, t19) ← Decoder_SegmentedPacket_isAssembled_obj el20 
                  let s := { s with f_segmentedPackets := mapPut s.f_segmentedPackets (v_deviceId, v_streamId) el20 }
                  let (s, v_packets, v_packet) ← (if t19 then (do
                      let (mp_, el22) := mapIndex s.f_segmentedPackets (v_deviceId, v_streamId) Decoder_SegmentedPacket_default
                      let s := { s with f_segmentedPackets := mp_ }
                      let (el22, t21) ← Decoder_SegmentedPacket_getPacket_obj el22 
                      let s := { s with f_segmentedPackets := mapPut s.f_segmentedPackets (v_deviceId, v_streamId) el22 }
                      let v_packet := t21
                      let v_packet := { v_packet with deviceId := v_deviceId }
                      let v_packet := { v_packet with streamId := v_streamId }
                      let v_packets := v_packets ++ [Sum.inl v_packet]
                      let s := { s with f_segmentedPackets := mapErase s.f_segmentedPackets (v_deviceId, v_streamId) }
                      pure (s, v_packets, v_packet))
                    else (do
                      pure (s, v_packets, v_packet)))
                  pure (s, v_packets, v_packet)))
              pure (s, v_packets, v_packet)))
          pure (s, v_packets, v_packetPtr, v_curSize, v_packet)
    else
      pure (s, v_packets, v_packetPtr, v_curSize, v_packet)

/-- `ASAM::CMP::Decoder::decode` -/
def Decoder_decode_obj {F : Type} (fuel : Nat) (s : Decoder_St) (m : Bytes) (a_data : Nat) (a_size : Nat) (ext_Decode : Bytes → Nat → Nat → List F) : Option (Decoder_St × List (PktOut ⊕ F)) := do
  if (a_data == 0) then
    pure (s, [])
  else
    if (decide (a_size < 8)) then
      pure (s, [])
    else
      let v_dataPtr := a_data
      let t1 ← rd m v_dataPtr 1
      if (t1 == 0) then
        pure (s, (ext_Decode m a_data a_size).map Sum.inr)
      else
        let v_packets := ([] : List (PktOut ⊕ F))
        let v_header := a_data
        let t2 ← CmpHeader_getDeviceId m v_header
        let v_deviceId := t2
        let t3 ← CmpHeader_getStreamId m v_header
        let v_streamId := t3
        let t4 ← nonneg 32 1
        let v_packetPtr := (v_header + t4 * 8)
        let v_curSize := (usub 64 a_size 8)
        let v_packet := (default : PktOut)
        let (s, v_packets, v_packet) ← (if (v_curSize == 0) then (do
            let s := { s with f_segmentedPackets := mapErase s.f_segmentedPackets (v_deviceId, v_streamId) }
            pure (s, v_packets, v_packet))
          else (do
            pure (s, v_packets, v_packet)))
        let (s, v_packets, v_packetPtr, v_curSize, v_packet) ← Decoder_decode_loop1 fuel s m a_data a_size v_dataPtr v_packets v_header v_deviceId v_streamId v_packetPtr v_curSize v_packet
        pure (s, v_packets)

/-- `ASAM::CMP::Decoder::isFirstSegment` -/
def Decoder_isFirstSegment_obj (s : Decoder_St) (m : Bytes) (a_data : Nat) (a_anon1 : Nat) : Option (Decoder_St × Bool) := do
  let t2 ← MessageHeader_getSegmentType m a_data
  pure (s, (t2 == 4))

/-- `ASAM::CMP::Decoder::isSegmentedPacket` -/
def Decoder_isSegmentedPacket_obj (s : Decoder_St) (m : Bytes) (a_data : Nat) (a_anon1 : Nat) : Option (Decoder_St × Bool) := do
  let t2 ← MessageHeader_getSegmentType m a_data
  pure (s, (t2 != 0))

def Decoder_untranslated : List (String × String) := []

/-- state of `ASAM::CMP::Decoder::Endpoint`: one field per data member -/
structure Decoder_Endpoint_St where
  f_deviceId : Nat
  f_streamId : Nat
deriving Repr, Inhabited

def Decoder_Endpoint_default : Decoder_Endpoint_St := { f_deviceId := 0, f_streamId := 0 }

/-- `ASAM::CMP::Decoder::Endpoint::operator==` -/
def Decoder_Endpoint_operator___obj (s : Decoder_Endpoint_St) (a_rhs_deviceId : Nat) (a_rhs_streamId : Nat) : Option (Decoder_Endpoint_St × Bool) := do
  pure (s, ((s.f_deviceId == a_rhs_deviceId) && (s.f_streamId == a_rhs_streamId)))

def Decoder_Endpoint_untranslated : List (String × String) := []

/-- state of `ASAM::CMP::Decoder::EndpointHash`: one field per data member -/
structure Decoder_EndpointHash_St where
deriving Repr, Inhabited

def Decoder_EndpointHash_default : Decoder_EndpointHash_St := {  }

/-- `ASAM::CMP::Decoder::EndpointHash::operator()` -/
def Decoder_EndpointHash_operator___obj (s : Decoder_EndpointHash_St) (a_rhs_deviceId : Nat) (a_rhs_streamId : Nat) : Option (Decoder_EndpointHash_St × Nat) := do
  let t1 ← sshl 32 a_rhs_streamId 16
  pure (s, (sext 32 64 (a_rhs_deviceId ||| t1)))

def Decoder_EndpointHash_untranslated : List (String × String) := []

/-- state of `ASAM::CMP::InterfaceStatus`: one field per data member -/
structure InterfaceStatus_St where
  f_interfacePacket : OPkt
  f_interfaceId : Nat
deriving Repr, Inhabited

def InterfaceStatus_default : InterfaceStatus_St := { f_interfacePacket := defaultPacket, f_interfaceId := 0 }

/-- `ASAM::CMP::InterfaceStatus::getInterfaceId` -/
def InterfaceStatus_getInterfaceId_obj (s : InterfaceStatus_St)  : Option (InterfaceStatus_St × Nat) := do
  pure (s, s.f_interfaceId)

/-- `ASAM::CMP::InterfaceStatus::update` -/
def InterfaceStatus_update_obj (s : InterfaceStatus_St) (a_packet : OPkt) : Option (InterfaceStatus_St × Unit) := do
  let s := { s with f_interfaceId := (opq a_packet "getPayload.as_InterfacePayload.getInterfaceId") }
  let s := { s with f_interfacePacket := a_packet }
  pure (s, ())

def InterfaceStatus_untranslated : List (String × String) := [("ASAM::CMP::InterfaceStatus::getPacket ASAM::CMP::Packet &()", "reference type ASAM::CMP::Packet &"), ("ASAM::CMP::InterfaceStatus::getPacket const ASAM::CMP::Packet &() const", "reference type const ASAM::CMP::Packet &"), ("ASAM::CMP::InterfaceStatus::operator= ASAM::CMP::InterfaceStatus &(ASAM::CMP::", "reference type ASAM::CMP::InterfaceStatus &")]

/-- state of `ASAM::CMP::DeviceStatus`: one field per data member -/
structure DeviceStatus_St where
  f_interfaces : List InterfaceStatus_St
  f_devicePacket : OPkt
deriving Repr, Inhabited

def DeviceStatus_default : DeviceStatus_St := { f_interfaces := [], f_devicePacket := defaultPacket }

/-- `ASAM::CMP::DeviceStatus::getIndexByInterfaceId` -/
def DeviceStatus_getIndexByInterfaceId_obj (s : DeviceStatus_St) (a_interfaceId : Nat) : Option (DeviceStatus_St × Nat) := do
  pure (s, (findIdxD (fun e_ => (e_.f_interfaceId == a_interfaceId)) s.f_interfaces))

/-- `ASAM::CMP::DeviceStatus::getInterfaceStatusCount` -/
def DeviceStatus_getInterfaceStatusCount_obj (s : DeviceStatus_St)  : Option (DeviceStatus_St × Nat) := do
  pure (s, (s.f_interfaces).length)

/-- `ASAM::CMP::DeviceStatus::removeInterfaceById` -/
def DeviceStatus_removeInterfaceById_obj (s : DeviceStatus_St) (a_interfaceId : Nat) : Option (DeviceStatus_St × Unit) := do
  let (s, t1) ← DeviceStatus_getIndexByInterfaceId_obj s a_interfaceId
  let v_index := t1
  let (s, t2) ← DeviceStatus_getInterfaceStatusCount_obj s 
  let (s) ← (if (v_index != t2) then (do
      let t3 ← swapIdx s.f_interfaces v_index (usub 64 (s.f_interfaces).length 1)
      let s := { s with f_interfaces := t3 }
      let _ ← nonEmptyL s.f_interfaces
      let s := { s with f_interfaces := (s.f_interfaces).dropLast }
      pure (s))
    else (do
      pure (s)))
  pure (s, ())

/-- `ASAM::CMP::DeviceStatus::updateInterfaces` -/
def DeviceStatus_updateInterfaces_obj (s : DeviceStatus_St) (a_packet : OPkt) : Option (DeviceStatus_St × Unit) := do
  let v_newId := (opq a_packet "getPayload.as_InterfacePayload.getInterfaceId")
  let (s, t1) ← DeviceStatus_getIndexByInterfaceId_obj s v_newId
  let v_index := t1
  let (s, t2) ← DeviceStatus_getInterfaceStatusCount_obj s 
  let (s) ← (if (v_index != t2) then (do
      let el4 ← getIdx s.f_interfaces v_index
      let (el4, t3) ← InterfaceStatus_update_obj el4 a_packet
      let s := { s with f_interfaces := (s.f_interfaces).set v_index el4 }
      pure (s))
    else (do
      let v_interfaceStatus := InterfaceStatus_default
      let (v_interfaceStatus, t5) ← InterfaceStatus_update_obj v_interfaceStatus a_packet
      let s := { s with f_interfaces := s.f_interfaces ++ [v_interfaceStatus] }
      pure (s)))
  pure (s, ())

/-- `ASAM::CMP::DeviceStatus::update` -/
def DeviceStatus_update_obj (s : DeviceStatus_St) (a_packet : OPkt) : Option (DeviceStatus_St × Unit) := do
  let (s) ← (if ((opq a_packet "getPayload.getType") == 770) then (do
      let (s, _) ← DeviceStatus_updateInterfaces_obj s a_packet
      pure (s))
    else (do
      pure (s)))
  let (s) ← (if ((opq a_packet "getPayload.getType") == 769) then (do
      let s := { s with f_devicePacket := a_packet }
      pure (s))
    else (do
      pure (s)))
  pure (s, ())

def DeviceStatus_untranslated : List (String × String) := [("ASAM::CMP::DeviceStatus::getInterfaceStatus ASAM::CMP::InterfaceStatus &(std::size_t", "reference type ASAM::CMP::InterfaceStatus &"), ("ASAM::CMP::DeviceStatus::getInterfaceStatus const ASAM::CMP::InterfaceStatus &(std::", "reference type const ASAM::CMP::InterfaceStatus &"), ("ASAM::CMP::DeviceStatus::getPacket ASAM::CMP::Packet &()", "reference type ASAM::CMP::Packet &"), ("ASAM::CMP::DeviceStatus::getPacket const ASAM::CMP::Packet &() const", "reference type const ASAM::CMP::Packet &"), ("ASAM::CMP::DeviceStatus::operator= ASAM::CMP::DeviceStatus &(ASAM::CMP::Dev", "reference type ASAM::CMP::DeviceStatus &")]

/-- state of `ASAM::CMP::Status`: one field per data member -/
structure Status_St where
  f_devices : List DeviceStatus_St
deriving Repr, Inhabited

def Status_default : Status_St := { f_devices := [] }

/-- `ASAM::CMP::Status::clear` -/
def Status_clear_obj (s : Status_St)  : Option (Status_St × Unit) := do
  let s := { s with f_devices := [] }
  pure (s, ())

/-- `ASAM::CMP::Status::getDeviceStatusCount` -/
def Status_getDeviceStatusCount_obj (s : Status_St)  : Option (Status_St × Nat) := do
  pure (s, (s.f_devices).length)

/-- `ASAM::CMP::Status::getIndexByDeviceId` -/
def Status_getIndexByDeviceId_obj (s : Status_St) (a_deviceId : Nat) : Option (Status_St × Nat) := do
  pure (s, (findIdxD (fun e_ => ((opq e_.f_devicePacket "getDeviceId") == a_deviceId)) s.f_devices))

/-- `ASAM::CMP::Status::removeDeviceById` -/
def Status_removeDeviceById_obj (s : Status_St) (a_deviceId : Nat) : Option (Status_St × Unit) := do
  let (s, t1) ← Status_getIndexByDeviceId_obj s a_deviceId
  let v_index := t1
  let (s, t2) ← Status_getDeviceStatusCount_obj s 
  let (s) ← (if (v_index != t2) then (do
      let t3 ← swapIdx s.f_devices v_index (usub 64 (s.f_devices).length 1)
      let s := { s with f_devices := t3 }
      let _ ← nonEmptyL s.f_devices
      let s := { s with f_devices := (s.f_devices).dropLast }
      pure (s))
    else (do
      pure (s)))
  pure (s, ())

/-- `ASAM::CMP::Status::update` -/
def Status_update_obj (s : Status_St) (a_packet : OPkt) : Option (Status_St × Unit) := do
  let (s, t1) ← Status_getIndexByDeviceId_obj s (opq a_packet "getDeviceId")
  let v_index := t1
  let (s, t2) ← Status_getDeviceStatusCount_obj s 
  let (s) ← (if (decide (v_index < t2)) then (do
      let el4 ← getIdx s.f_devices v_index
      let (el4, t3) ← DeviceStatus_update_obj el4 a_packet
      let s := { s with f_devices := (s.f_devices).set v_index el4 }
      pure (s))
    else (do
      let (s) ← (if ((opq a_packet "getPayload.getType") == 769) then (do
          let v_deviceStatus := DeviceStatus_default
          let (v_deviceStatus, t5) ← DeviceStatus_update_obj v_deviceStatus a_packet
          let s := { s with f_devices := s.f_devices ++ [v_deviceStatus] }
          pure (s))
        else (do
          pure (s)))
      pure (s)))
  pure (s, ())

def Status_untranslated : List (String × String) := [("ASAM::CMP::Status::getDeviceStatus ASAM::CMP::DeviceStatus &(std::size_t)", "reference type ASAM::CMP::DeviceStatus &"), ("ASAM::CMP::Status::getDeviceStatus const ASAM::CMP::DeviceStatus &(std::siz", "reference type const ASAM::CMP::DeviceStatus &")]

/-! ## packet value mode (vlib/srcobj.py, `PvTranslator`): `PayloadType` (flat: its `uint32_t`), `Payload`, the payload
    constructors reached from `Packet::create`, and `Packet` with its owned payload, as values -/

/-- value of a `ASAM::CMP::Payload` object: one field per data member, in declaration order -/
structure Payload_St where
  f_payloadData : Bytes
  f_type : Nat
deriving Repr, Inhabited, DecidableEq

/-- value of a `ASAM::CMP::Packet` object: one field per data member, in declaration order -/
structure PacketV_St where
  f_payload : Option Payload_St
  f_version : Nat
  f_deviceId : Nat
  f_streamId : Nat
  f_sequenceCounter : Nat
  f_timestamp : Nat
  f_interfaceId : Nat
  f_vendorId : Nat
  f_commonFlags : Nat
  f_segmentType : Nat
deriving Repr, Inhabited, DecidableEq

/-- `ASAM::CMP::Packet::Packet` void () noexcept -/
def Packet_ctor_default_pv  : Option (PacketV_St) := do
  let i_payload := none
  let i_version := 1
  let i_deviceId := 0
  let i_streamId := 0
  let i_sequenceCounter := 0
  let i_timestamp := 0
  let i_interfaceId := 0
  let i_vendorId := 0
  let i_commonFlags := 0
  let i_segmentType := 0
  let s : PacketV_St := { f_payload := i_payload, f_version := i_version, f_deviceId := i_deviceId, f_streamId := i_streamId, f_sequenceCounter := i_sequenceCounter, f_timestamp := i_timestamp, f_interfaceId := i_interfaceId, f_vendorId := i_vendorId, f_commonFlags := i_commonFlags, f_segmentType := i_segmentType }
  pure s

/-- `ASAM::CMP::swap` void (ASAM::CMP::Packet &, ASAM::CMP::Packet &) noexcept -/
def swap_Packet_pv (a_lhs : PacketV_St) (a_rhs : PacketV_St) : Option (PacketV_St × PacketV_St) := do
  let t1 := a_lhs.f_version
  let t2 := a_rhs.f_version
  let a_lhs := { a_lhs with f_version := t2 }
  let a_rhs := { a_rhs with f_version := t1 }
  let t3 := a_lhs.f_deviceId
  let t4 := a_rhs.f_deviceId
  let a_lhs := { a_lhs with f_deviceId := t4 }
  let a_rhs := { a_rhs with f_deviceId := t3 }
  let t5 := a_lhs.f_streamId
  let t6 := a_rhs.f_streamId
  let a_lhs := { a_lhs with f_streamId := t6 }
  let a_rhs := { a_rhs with f_streamId := t5 }
  let t7 := a_lhs.f_sequenceCounter
  let t8 := a_rhs.f_sequenceCounter
  let a_lhs := { a_lhs with f_sequenceCounter := t8 }
  let a_rhs := { a_rhs with f_sequenceCounter := t7 }
  let t9 := a_lhs.f_timestamp
  let t10 := a_rhs.f_timestamp
  let a_lhs := { a_lhs with f_timestamp := t10 }
  let a_rhs := { a_rhs with f_timestamp := t9 }
  let t11 := a_lhs.f_interfaceId
  let t12 := a_rhs.f_interfaceId
  let a_lhs := { a_lhs with f_interfaceId := t12 }
  let a_rhs := { a_rhs with f_interfaceId := t11 }
  let t13 := a_lhs.f_vendorId
  let t14 := a_rhs.f_vendorId
  let a_lhs := { a_lhs with f_vendorId := t14 }
  let a_rhs := { a_rhs with f_vendorId := t13 }
  let t15 := a_lhs.f_commonFlags
  let t16 := a_rhs.f_commonFlags
  let a_lhs := { a_lhs with f_commonFlags := t16 }
  let a_rhs := { a_rhs with f_commonFlags := t15 }
  let t17 := a_lhs.f_segmentType
  let t18 := a_rhs.f_segmentType
  let a_lhs := { a_lhs with f_segmentType := t18 }
  let a_rhs := { a_rhs with f_segmentType := t17 }
  let t19 := a_lhs.f_payload
  let t20 := a_rhs.f_payload
  let a_lhs := { a_lhs with f_payload := t20 }
  let a_rhs := { a_rhs with f_payload := t19 }
  pure (a_lhs, a_rhs)

/-- `ASAM::CMP::swap` void (ASAM::CMP::Packet &, ASAM::CMP::Packet &) noexcept
    ALIASING VARIANT of the same body: the reference parameters `lhs` and `rhs` denote the one object `s`; `std::swap(a, a)` is the moves it is
    (`tmp = a; a = a; a = tmp`, for a `unique_ptr` the exchange of its pointer with itself): read, read, write, write — the identity -/
def swap_Packet_same_pv (s : PacketV_St) : Option (PacketV_St) := do
  let t1 := s.f_version
  let t2 := s.f_version
  let s := { s with f_version := t2 }
  let s := { s with f_version := t1 }
  let t3 := s.f_deviceId
  let t4 := s.f_deviceId
  let s := { s with f_deviceId := t4 }
  let s := { s with f_deviceId := t3 }
  let t5 := s.f_streamId
  let t6 := s.f_streamId
  let s := { s with f_streamId := t6 }
  let s := { s with f_streamId := t5 }
  let t7 := s.f_sequenceCounter
  let t8 := s.f_sequenceCounter
  let s := { s with f_sequenceCounter := t8 }
  let s := { s with f_sequenceCounter := t7 }
  let t9 := s.f_timestamp
  let t10 := s.f_timestamp
  let s := { s with f_timestamp := t10 }
  let s := { s with f_timestamp := t9 }
  let t11 := s.f_interfaceId
  let t12 := s.f_interfaceId
  let s := { s with f_interfaceId := t12 }
  let s := { s with f_interfaceId := t11 }
  let t13 := s.f_vendorId
  let t14 := s.f_vendorId
  let s := { s with f_vendorId := t14 }
  let s := { s with f_vendorId := t13 }
  let t15 := s.f_commonFlags
  let t16 := s.f_commonFlags
  let s := { s with f_commonFlags := t16 }
  let s := { s with f_commonFlags := t15 }
  let t17 := s.f_segmentType
  let t18 := s.f_segmentType
  let s := { s with f_segmentType := t18 }
  let s := { s with f_segmentType := t17 }
  let t19 := s.f_payload
  let t20 := s.f_payload
  let s := { s with f_payload := t20 }
  let s := { s with f_payload := t19 }
  pure s

/-- `ASAM::CMP::Packet::Packet` void (ASAM::CMP::Packet &&) noexcept -/
def Packet_ctor_move_pv (a_other : PacketV_St) : Option (PacketV_St × PacketV_St) := do
  let i_payload := none
  let i_version := 1
  let i_deviceId := 0
  let i_streamId := 0
  let i_sequenceCounter := 0
  let i_timestamp := 0
  let i_interfaceId := 0
  let i_vendorId := 0
  let i_commonFlags := 0
  let i_segmentType := 0
  let s : PacketV_St := { f_payload := i_payload, f_version := i_version, f_deviceId := i_deviceId, f_streamId := i_streamId, f_sequenceCounter := i_sequenceCounter, f_timestamp := i_timestamp, f_interfaceId := i_interfaceId, f_vendorId := i_vendorId, f_commonFlags := i_commonFlags, f_segmentType := i_segmentType }
  let (o1, o2) ← swap_Packet_pv s a_other
  let s := o1
  let a_other := o2
  pure (s, a_other)

/-- `ASAM::CMP::Payload::Payload` void (const ASAM::CMP::Payload &) noexcept(false) -/
def Payload_ctor_copy_pv (a_other : Payload_St) : Option (Payload_St) := do
  let i_payloadData := a_other.f_payloadData
  let i_type := a_other.f_type
  let s : Payload_St := { f_payloadData := i_payloadData, f_type := i_type }
  pure s

/-- `ASAM::CMP::Packet::Packet` void (const ASAM::CMP::Packet &) -/
def Packet_ctor_copy_pv (a_other : PacketV_St) : Option (PacketV_St) := do
  let i_payload := none
  let i_version := a_other.f_version
  let i_deviceId := a_other.f_deviceId
  let i_streamId := a_other.f_streamId
  let i_sequenceCounter := a_other.f_sequenceCounter
  let i_timestamp := a_other.f_timestamp
  let i_interfaceId := a_other.f_interfaceId
  let i_vendorId := a_other.f_vendorId
  let i_commonFlags := a_other.f_commonFlags
  let i_segmentType := a_other.f_segmentType
  let s : PacketV_St := { f_payload := i_payload, f_version := i_version, f_deviceId := i_deviceId, f_streamId := i_streamId, f_sequenceCounter := i_sequenceCounter, f_timestamp := i_timestamp, f_interfaceId := i_interfaceId, f_vendorId := i_vendorId, f_commonFlags := i_commonFlags, f_segmentType := i_segmentType }
  if (a_other.f_payload).isSome then
    let d1 ← a_other.f_payload
    let o2 ← Payload_ctor_copy_pv d1
    let s := { s with f_payload := (some o2) }
    pure s
  else
    pure s

/-- `ASAM::CMP::Packet::setTimestamp` void (const uint64_t) -/
def Packet_setTimestamp_pv (s : PacketV_St) (a_newTimestamp : Nat) : Option (PacketV_St × Unit) := do
  let s := { s with f_timestamp := a_newTimestamp }
  pure (s, ())

/-- `ASAM::CMP::Packet::setInterfaceId` void (const uint32_t) -/
def Packet_setInterfaceId_pv (s : PacketV_St) (a_id : Nat) : Option (PacketV_St × Unit) := do
  let s := { s with f_interfaceId := a_id }
  pure (s, ())

/-- `ASAM::CMP::Packet::setCommonFlags` void (const uint8_t) -/
def Packet_setCommonFlags_pv (s : PacketV_St) (a_flags : Nat) : Option (PacketV_St × Unit) := do
  let s := { s with f_commonFlags := a_flags }
  pure (s, ())

/-- `ASAM::CMP::Packet::setVendorId` void (const uint16_t) -/
def Packet_setVendorId_pv (s : PacketV_St) (a_id : Nat) : Option (PacketV_St × Unit) := do
  let s := { s with f_vendorId := a_id }
  pure (s, ())

/-- `ASAM::CMP::Packet::setMessageHeader` void (const CmpHeader::MessageType, ASAM::CMP::MessageHeader) -/
def Packet_setMessageHeader_pv (s : PacketV_St) (a_msgType : Nat) (a_messageHeader : Bytes) : Option (PacketV_St × Unit) := do
  let t1 ← MessageHeader_getTimestamp a_messageHeader 0 
  let (o2, _) ← Packet_setTimestamp_pv s t1
  let s := o2
  let sw3 := a_msgType
  if sw3 == 1 then
    let t4 ← MessageHeader_getInterfaceId a_messageHeader 0 
    let (o5, _) ← Packet_setInterfaceId_pv s t4
    let s := o5
    let t6 ← MessageHeader_getCommonFlags a_messageHeader 0 
    let (o7, _) ← Packet_setCommonFlags_pv s t6
    let s := o7
    pure (s, ())
  else if sw3 == 3 || sw3 == 255 then
    let t8 ← MessageHeader_getVendorId a_messageHeader 0 
    let (o9, _) ← Packet_setVendorId_pv s t8
    let s := o9
    let t10 ← MessageHeader_getCommonFlags a_messageHeader 0 
    let (o11, _) ← Packet_setCommonFlags_pv s t10
    let s := o11
    pure (s, ())
  else if sw3 == 2 then
    let t12 ← MessageHeader_getCommonFlags a_messageHeader 0 
    let (o13, _) ← Packet_setCommonFlags_pv s t12
    let s := o13
    pure (s, ())
  else
    let t12 ← MessageHeader_getCommonFlags a_messageHeader 0 
    let (o13, _) ← Packet_setCommonFlags_pv s t12
    let s := o13
    pure (s, ())

/-- `ASAM::CMP::PayloadType::getType` uint32_t () const -/
def PayloadType_getType_pv (s : Nat) : Option (Nat × Nat) := do
  pure (s, s)

/-- `ASAM::CMP::operator==` bool (const ASAM::CMP::PayloadType, const ASAM::CMP::PayloadType) noexcept -/
def opEq_PayloadType_pv (a_lhs : Nat) (a_rhs : Nat) : Option (Bool) := do
  let (_, t1) ← PayloadType_getType_pv a_lhs
  let (_, t2) ← PayloadType_getType_pv a_rhs
  pure (t1 == t2)

/-- `ASAM::CMP::operator!=` bool (const ASAM::CMP::PayloadType, const ASAM::CMP::PayloadType) noexcept -/
def opNe_PayloadType_pv (a_lhs : Nat) (a_rhs : Nat) : Option (Bool) := do
  let t1 ← opEq_PayloadType_pv a_lhs a_rhs
  pure (!t1)

/-- `ASAM::CMP::PayloadType::PayloadType` void (uint32_t) -/
def PayloadType_ctor_u32_pv (a_payloadType : Nat) : Option (Nat) := do
  let i_type := a_payloadType
  let s := i_type
  pure s

/-- `ASAM::CMP::Payload::Payload` void (const ASAM::CMP::PayloadType, const uint8_t *, const size_t) -/
def Payload_ctor_PayloadType_ptr_u64_pv (m : Bytes) (a_type : Nat) (a_data : Nat) (a_size : Nat) : Option (Payload_St) := do
  let i_payloadData := (zeros a_size)
  let i_type := a_type
  let s : Payload_St := { f_payloadData := i_payloadData, f_type := i_type }
  let t3 ← (if (a_size != 0) then (do let o1 ← PayloadType_ctor_u32_pv 0; let t2 ← opNe_PayloadType_pv a_type o1; pure t2) else pure false)
  if t3 then
    let t4 ← wrBytes s.f_payloadData 0 (m.drop a_data) a_size
    let s := { s with f_payloadData := t4 }
    pure s
  else
    pure s

/-- `ASAM::CMP::CanPayloadBase::CanPayloadBase` void (const ASAM::CMP::PayloadType, const uint8_t *, const size_t) -/
def CanPayloadBase_ctor_PayloadType_ptr_u64_pv (m : Bytes) (a_type : Nat) (a_data : Nat) (a_size : Nat) : Option (Payload_St) := do
  let o1 ← Payload_ctor_PayloadType_ptr_u64_pv m a_type a_data a_size
  let s := o1
  pure s

/-- `ASAM::CMP::CanPayload::CanPayload` void (const uint8_t *, const size_t) -/
def CanPayload_ctor_ptr_u64_pv (m : Bytes) (a_data : Nat) (a_size : Nat) : Option (Payload_St) := do
  let o1 ← PayloadType_ctor_u32_pv 257
  let o2 ← CanPayloadBase_ctor_PayloadType_ptr_u64_pv m o1 a_data a_size
  let s := o2
  pure s

/-- `ASAM::CMP::CanFdPayload::CanFdPayload` void (const uint8_t *, const size_t) -/
def CanFdPayload_ctor_ptr_u64_pv (m : Bytes) (a_data : Nat) (a_size : Nat) : Option (Payload_St) := do
  let o1 ← PayloadType_ctor_u32_pv 258
  let o2 ← CanPayloadBase_ctor_PayloadType_ptr_u64_pv m o1 a_data a_size
  let s := o2
  pure s

/-- `ASAM::CMP::LinPayload::LinPayload` void (const uint8_t *, const size_t) -/
def LinPayload_ctor_ptr_u64_pv (m : Bytes) (a_data : Nat) (a_size : Nat) : Option (Payload_St) := do
  let o1 ← PayloadType_ctor_u32_pv 259
  let o2 ← Payload_ctor_PayloadType_ptr_u64_pv m o1 a_data a_size
  let s := o2
  pure s

/-- `ASAM::CMP::AnalogPayload::AnalogPayload` void (const uint8_t *, const size_t) -/
def AnalogPayload_ctor_ptr_u64_pv (m : Bytes) (a_data : Nat) (a_size : Nat) : Option (Payload_St) := do
  let o1 ← PayloadType_ctor_u32_pv 263
  let o2 ← Payload_ctor_PayloadType_ptr_u64_pv m o1 a_data a_size
  let s := o2
  pure s

/-- `ASAM::CMP::EthernetPayload::EthernetPayload` void (const uint8_t *, const size_t) -/
def EthernetPayload_ctor_ptr_u64_pv (m : Bytes) (a_data : Nat) (a_size : Nat) : Option (Payload_St) := do
  let o1 ← PayloadType_ctor_u32_pv 264
  let o2 ← Payload_ctor_PayloadType_ptr_u64_pv m o1 a_data a_size
  let s := o2
  pure s

/-- `ASAM::CMP::CaptureModulePayload::CaptureModulePayload` void (const uint8_t *, const size_t) -/
def CaptureModulePayload_ctor_ptr_u64_pv (m : Bytes) (a_data : Nat) (a_size : Nat) : Option (Payload_St) := do
  let o1 ← PayloadType_ctor_u32_pv 769
  let o2 ← Payload_ctor_PayloadType_ptr_u64_pv m o1 a_data a_size
  let s := o2
  pure s

/-- `ASAM::CMP::InterfacePayload::InterfacePayload` void (const uint8_t *, const size_t) -/
def InterfacePayload_ctor_ptr_u64_pv (m : Bytes) (a_data : Nat) (a_size : Nat) : Option (Payload_St) := do
  let o1 ← PayloadType_ctor_u32_pv 770
  let o2 ← Payload_ctor_PayloadType_ptr_u64_pv m o1 a_data a_size
  let s := o2
  pure s

/-- `ASAM::CMP::Packet::create` std::unique_ptr<Payload> (const ASAM::CMP::PayloadType, const uint8_t *, const size_t) -/
def Packet_create_pv (s : PacketV_St) (m : Bytes) (a_type : Nat) (a_data : Nat) (a_size : Nat) : Option (PacketV_St × Option Payload_St) := do
  let (_, t1) ← PayloadType_getType_pv a_type
  let sw2 := t1
  if sw2 == 257 then
    let t3 ← CanPayloadBase_isValidPayload m a_data a_size
    if t3 then
      let o4 ← CanPayload_ctor_ptr_u64_pv m a_data a_size
      pure (s, (some o4))
    else
      let o5 ← PayloadType_ctor_u32_pv 0
      let o6 ← Payload_ctor_PayloadType_ptr_u64_pv m o5 a_data a_size
      pure (s, (some o6))
  else if sw2 == 258 then
    let t7 ← CanPayloadBase_isValidPayload m a_data a_size
    if t7 then
      let o8 ← CanFdPayload_ctor_ptr_u64_pv m a_data a_size
      pure (s, (some o8))
    else
      let o9 ← PayloadType_ctor_u32_pv 0
      let o10 ← Payload_ctor_PayloadType_ptr_u64_pv m o9 a_data a_size
      pure (s, (some o10))
  else if sw2 == 259 then
    let t11 ← LinPayload_isValidPayload m a_data a_size
    if t11 then
      let o12 ← LinPayload_ctor_ptr_u64_pv m a_data a_size
      pure (s, (some o12))
    else
      let o13 ← PayloadType_ctor_u32_pv 0
      let o14 ← Payload_ctor_PayloadType_ptr_u64_pv m o13 a_data a_size
      pure (s, (some o14))
  else if sw2 == 263 then
    let t15 ← AnalogPayload_isValidPayload m a_data a_size
    if t15 then
      let o16 ← AnalogPayload_ctor_ptr_u64_pv m a_data a_size
      pure (s, (some o16))
    else
      let o17 ← PayloadType_ctor_u32_pv 0
      let o18 ← Payload_ctor_PayloadType_ptr_u64_pv m o17 a_data a_size
      pure (s, (some o18))
  else if sw2 == 264 then
    let t19 ← EthernetPayload_isValidPayload m a_data a_size
    if t19 then
      let o20 ← EthernetPayload_ctor_ptr_u64_pv m a_data a_size
      pure (s, (some o20))
    else
      let o21 ← PayloadType_ctor_u32_pv 0
      let o22 ← Payload_ctor_PayloadType_ptr_u64_pv m o21 a_data a_size
      pure (s, (some o22))
  else if sw2 == 769 then
    let t23 ← CaptureModulePayload_isValidPayload m a_data a_size
    if t23 then
      let o24 ← CaptureModulePayload_ctor_ptr_u64_pv m a_data a_size
      pure (s, (some o24))
    else
      let o25 ← PayloadType_ctor_u32_pv 0
      let o26 ← Payload_ctor_PayloadType_ptr_u64_pv m o25 a_data a_size
      pure (s, (some o26))
  else if sw2 == 770 then
    let t27 ← InterfacePayload_isValidPayload m a_data a_size
    if t27 then
      let o28 ← InterfacePayload_ctor_ptr_u64_pv m a_data a_size
      pure (s, (some o28))
    else
      let o29 ← PayloadType_ctor_u32_pv 0
      let o30 ← Payload_ctor_PayloadType_ptr_u64_pv m o29 a_data a_size
      pure (s, (some o30))
  else
    let o31 ← Payload_ctor_PayloadType_ptr_u64_pv m a_type a_data a_size
    pure (s, (some o31))

/-- `ASAM::CMP::PayloadType::PayloadType` void (const ASAM::CMP::PayloadType::MessageType, const uint8_t) -/
def PayloadType_ctor_u8_u8_pv (a_msgType : Nat) (a_rawPayloadType : Nat) : Option (Nat) := do
  let t1 ← to_underlying_u82 a_msgType
  let t2 ← sshl 32 t1 8
  let i_type := (t2 ||| a_rawPayloadType)
  let s := i_type
  pure s

/-- `ASAM::CMP::Packet::Packet` void (const CmpHeader::MessageType, const uint8_t *, const size_t) -/
def Packet_ctor_u8_ptr_u64_pv (m : Bytes) (a_msgType : Nat) (a_data : Nat) (a_size : Nat) : Option (PacketV_St) := do
  let i_payload := none
  let i_version := 1
  let i_deviceId := 0
  let i_streamId := 0
  let i_sequenceCounter := 0
  let i_timestamp := 0
  let i_interfaceId := 0
  let i_vendorId := 0
  let i_commonFlags := 0
  let i_segmentType := 0
  let s : PacketV_St := { f_payload := i_payload, f_version := i_version, f_deviceId := i_deviceId, f_streamId := i_streamId, f_sequenceCounter := i_sequenceCounter, f_timestamp := i_timestamp, f_interfaceId := i_interfaceId, f_vendorId := i_vendorId, f_commonFlags := i_commonFlags, f_segmentType := i_segmentType }
  let v_header := a_data
  let t1 ← takeExact (m.drop v_header) 16
  let (o2, _) ← Packet_setMessageHeader_pv s a_msgType t1
  let s := o2
  let t3 ← MessageHeader_getPayloadType m v_header
  let o4 ← PayloadType_ctor_u8_u8_pv a_msgType t3
  let t5 ← MessageHeader_getPayloadLength m v_header
  let (o6, t7) ← Packet_create_pv s m o4 (a_data + 16) t5
  let s := o6
  let s := { s with f_payload := t7 }
  pure s

/-- `ASAM::CMP::Packet::getCommonFlag` bool (const ASAM::CMP::Packet::CommonFlags) const -/
def Packet_getCommonFlag_pv (s : PacketV_St) (a_mask : Nat) : Option (PacketV_St × Bool) := do
  pure (s, ((s.f_commonFlags &&& a_mask) != 0))

/-- `ASAM::CMP::Packet::getCommonFlags` uint8_t () const -/
def Packet_getCommonFlags_pv (s : PacketV_St) : Option (PacketV_St × Nat) := do
  pure (s, s.f_commonFlags)

/-- `ASAM::CMP::Packet::getDeviceId` uint16_t () const -/
def Packet_getDeviceId_pv (s : PacketV_St) : Option (PacketV_St × Nat) := do
  pure (s, s.f_deviceId)

/-- `ASAM::CMP::Packet::getInterfaceId` uint32_t () const -/
def Packet_getInterfaceId_pv (s : PacketV_St) : Option (PacketV_St × Nat) := do
  pure (s, s.f_interfaceId)

/-- `ASAM::CMP::PayloadType::getMessageType` PayloadType::MessageType () const -/
def PayloadType_getMessageType_pv (s : Nat) : Option (Nat × Nat) := do
  let t1 ← ushr 32 (s &&& 65280) 8
  pure (s, (t1 % 256))

/-- `ASAM::CMP::Payload::getMessageType` Payload::MessageType () const -/
def Payload_getMessageType_pv (s : Payload_St) : Option (Payload_St × Nat) := do
  let (_, t1) ← PayloadType_getMessageType_pv s.f_type
  pure (s, t1)

/-- `ASAM::CMP::Packet::getMessageType` CmpHeader::MessageType () const -/
def Packet_getMessageType_pv (s : PacketV_St) : Option (PacketV_St × Nat) := do
  let d1 ← s.f_payload
  let (_, t2) ← Payload_getMessageType_pv d1
  pure (s, t2)

/-- `ASAM::CMP::Packet::getPayload` const ASAM::CMP::Payload &() const -/
def Packet_getPayload_pv (s : PacketV_St) : Option (PacketV_St × Payload_St) := do
  let d1 ← s.f_payload
  pure (s, d1)

/-- `ASAM::CMP::Payload::getLength` size_t () const -/
def Payload_getLength_pv (s : Payload_St) : Option (Payload_St × Nat) := do
  pure (s, (s.f_payloadData).length)

/-- `ASAM::CMP::Packet::getPayloadLength` uint16_t () const -/
def Packet_getPayloadLength_pv (s : PacketV_St) : Option (PacketV_St × Nat) := do
  let t3 ← (if (s.f_payload).isSome then (do let d1 ← s.f_payload; let (_, t2) ← Payload_getLength_pv d1; pure (t2 % 65536)) else (do pure 0))
  pure (s, (t3 % 65536))

/-- `ASAM::CMP::PayloadType::getRawPayloadType` uint8_t () const -/
def PayloadType_getRawPayloadType_pv (s : Nat) : Option (Nat × Nat) := do
  pure (s, ((s &&& 255) % 256))

/-- `ASAM::CMP::Payload::getRawPayloadType` uint8_t () const -/
def Payload_getRawPayloadType_pv (s : Payload_St) : Option (Payload_St × Nat) := do
  let (_, t1) ← PayloadType_getRawPayloadType_pv s.f_type
  pure (s, t1)

/-- `ASAM::CMP::Packet::getPayloadType` uint8_t () const -/
def Packet_getPayloadType_pv (s : PacketV_St) : Option (PacketV_St × Nat) := do
  let d1 ← s.f_payload
  let (_, t2) ← Payload_getRawPayloadType_pv d1
  pure (s, t2)

/-- `ASAM::CMP::Packet::getVersion` uint8_t () const -/
def Packet_getVersion_pv (s : PacketV_St) : Option (PacketV_St × Nat) := do
  pure (s, s.f_version)

/-- `ASAM::CMP::Packet::getStreamId` uint8_t () const -/
def Packet_getStreamId_pv (s : PacketV_St) : Option (PacketV_St × Nat) := do
  pure (s, s.f_streamId)

/-- `ASAM::CMP::Packet::getSequenceCounter` uint16_t () const -/
def Packet_getSequenceCounter_pv (s : PacketV_St) : Option (PacketV_St × Nat) := do
  pure (s, s.f_sequenceCounter)

/-- `ASAM::CMP::Packet::getRawCmpHeader` void (void *) const -/
def Packet_getRawCmpHeader_pv (s : PacketV_St) : Option (PacketV_St × Bytes) := do
  let out_ := ([] : Bytes)
  let v_header := ([1, 0, 0, 0, 0, 0, 0, 0] : Bytes)
  let (_, t1) ← Packet_getVersion_pv s
  let v_header ← CmpHeader_setVersion v_header 0 t1
  let (_, t2) ← Packet_getDeviceId_pv s
  let v_header ← CmpHeader_setDeviceId v_header 0 t2
  let (_, t3) ← Packet_getMessageType_pv s
  let v_header ← CmpHeader_setMessageType v_header 0 t3
  let (_, t4) ← Packet_getStreamId_pv s
  let v_header ← CmpHeader_setStreamId v_header 0 t4
  let (_, t5) ← Packet_getSequenceCounter_pv s
  let v_header ← CmpHeader_setSequenceCounter v_header 0 t5
  let out_ ← takeExact v_header 8
  pure (s, out_)

/-- `ASAM::CMP::Packet::getTimestamp` uint64_t () const -/
def Packet_getTimestamp_pv (s : PacketV_St) : Option (PacketV_St × Nat) := do
  pure (s, s.f_timestamp)

/-- `ASAM::CMP::Packet::getVendorId` uint16_t () const -/
def Packet_getVendorId_pv (s : PacketV_St) : Option (PacketV_St × Nat) := do
  pure (s, s.f_vendorId)

/-- `ASAM::CMP::Packet::getRawMessageHeader` void (void *) const -/
def Packet_getRawMessageHeader_pv (s : PacketV_St) : Option (PacketV_St × Bytes) := do
  let out_ := ([] : Bytes)
  let v_header := ([0, 0, 0, 0, 0, 0, 0, 0, 0, 0, 0, 0, 0, 0, 0, 0] : Bytes)
  let (_, t1) ← Packet_getTimestamp_pv s
  let v_header ← MessageHeader_setTimestamp v_header 0 t1
  let (_, t2) ← Packet_getMessageType_pv s
  let v_messageType := t2
  let sw3 := v_messageType
  if sw3 == 1 then
    let (_, t4) ← Packet_getInterfaceId_pv s
    let v_header ← MessageHeader_setInterfaceId v_header 0 t4
    let (_, t5) ← Packet_getCommonFlags_pv s
    let v_header ← MessageHeader_setCommonFlags v_header 0 t5
    let (_, t6) ← Packet_getPayloadType_pv s
    let v_header ← MessageHeader_setPayloadType v_header 0 t6
    let (_, t7) ← Packet_getPayloadLength_pv s
    let v_header ← MessageHeader_setPayloadLength v_header 0 t7
    let out_ ← takeExact v_header 16
    pure (s, out_)
  else if sw3 == 3 || sw3 == 255 then
    let (_, t8) ← Packet_getVendorId_pv s
    let v_header ← MessageHeader_setVendorId v_header 0 t8
    let (_, t9) ← Packet_getCommonFlags_pv s
    let v_header ← MessageHeader_setCommonFlags v_header 0 t9
    let (_, t10) ← Packet_getPayloadType_pv s
    let v_header ← MessageHeader_setPayloadType v_header 0 t10
    let (_, t11) ← Packet_getPayloadLength_pv s
    let v_header ← MessageHeader_setPayloadLength v_header 0 t11
    let out_ ← takeExact v_header 16
    pure (s, out_)
  else if sw3 == 2 then
    let (_, t12) ← Packet_getCommonFlags_pv s
    let v_header ← MessageHeader_setCommonFlags v_header 0 t12
    let (_, t13) ← Packet_getPayloadType_pv s
    let v_header ← MessageHeader_setPayloadType v_header 0 t13
    let (_, t14) ← Packet_getPayloadLength_pv s
    let v_header ← MessageHeader_setPayloadLength v_header 0 t14
    let out_ ← takeExact v_header 16
    pure (s, out_)
  else
    let (_, t12) ← Packet_getCommonFlags_pv s
    let v_header ← MessageHeader_setCommonFlags v_header 0 t12
    let (_, t13) ← Packet_getPayloadType_pv s
    let v_header ← MessageHeader_setPayloadType v_header 0 t13
    let (_, t14) ← Packet_getPayloadLength_pv s
    let v_header ← MessageHeader_setPayloadLength v_header 0 t14
    let out_ ← takeExact v_header 16
    pure (s, out_)

/-- `ASAM::CMP::Packet::getSegmentType` Packet::SegmentType () const -/
def Packet_getSegmentType_pv (s : PacketV_St) : Option (PacketV_St × Nat) := do
  pure (s, s.f_segmentType)

/-- `ASAM::CMP::PayloadType::isValid` bool () const -/
def PayloadType_isValid_pv (s : Nat) : Option (Nat × Bool) := do
  pure (s, (((s &&& 255) != 0) && ((s &&& 65280) != 0)))

/-- `ASAM::CMP::Payload::isValid` bool () const -/
def Payload_isValid_pv (s : Payload_St) : Option (Payload_St × Bool) := do
  let (_, t1) ← PayloadType_isValid_pv s.f_type
  pure (s, t1)

/-- `ASAM::CMP::Packet::isValid` bool () const -/
def Packet_isValid_pv (s : PacketV_St) : Option (PacketV_St × Bool) := do
  let t3 ← (if (s.f_payload).isSome then (do let d1 ← s.f_payload; let (_, t2) ← Payload_isValid_pv d1; pure t2) else (do pure false))
  pure (s, t3)

/-- `ASAM::CMP::Packet::isValidPacket` bool (const uint8_t *, const size_t) -/
def Packet_isValidPacket_pv (m : Bytes) (a_data : Nat) (a_size : Nat) : Option (Bool) := do
  let v_header := a_data
  let t2 ← (if (decide (a_size ≥ 16)) then (do let t1 ← MessageHeader_getPayloadLength m v_header; pure (decide (t1 ≤ (usub 64 a_size 16)))) else pure false)
  let t4 ← (if t2 then (do let t3 ← MessageHeader_getCommonFlag m v_header 64; pure (!t3)) else pure false)
  let t6 ← (if t4 then (do let t5 ← MessageHeader_getPayloadType m v_header; pure (t5 != 0)) else pure false)
  pure t6

/-- `ASAM::CMP::Packet::operator=` ASAM::CMP::Packet &(ASAM::CMP::Packet &&) noexcept -/
def Packet_opAssign_move_pv (s : PacketV_St) (a_other : PacketV_St) : Option (PacketV_St × Unit × PacketV_St) := do
  let (o1, o2) ← swap_Packet_pv s a_other
  let s := o1
  let a_other := o2
  pure (s, (), a_other)

/-- `ASAM::CMP::Packet::operator=` ASAM::CMP::Packet &(ASAM::CMP::Packet &&) noexcept
    ALIASING VARIANT of the same body: the reference parameter `other` denotes `*this` (it is no Lean parameter; every read / write through it
    goes to the current `s`) -/
def Packet_opAssign_move_self_pv (s : PacketV_St) : Option (PacketV_St × Unit) := do
  let o1 ← swap_Packet_same_pv s
  let s := o1
  pure (s, ())

/-- `ASAM::CMP::Packet::operator=` ASAM::CMP::Packet &(const ASAM::CMP::Packet &) -/
def Packet_opAssign_copy_pv (s : PacketV_St) (a_other : PacketV_St) : Option (PacketV_St × Unit) := do
  let g_sameObject := false
  if (!g_sameObject) then
    let o1 ← Packet_ctor_copy_pv a_other
    let v_tmp := o1
    let (o2, o3) ← swap_Packet_pv s v_tmp
    let s := o2
    let v_tmp := o3
    pure (s, ())
  else
    pure (s, ())

/-- `ASAM::CMP::Packet::operator=` ASAM::CMP::Packet &(const ASAM::CMP::Packet &)
    ALIASING VARIANT of the same body: the reference parameter `other` denotes `*this` (it is no Lean parameter; every read / write through it
    goes to the current `s`) -/
def Packet_opAssign_copy_self_pv (s : PacketV_St) : Option (PacketV_St × Unit) := do
  let g_sameObject := true
  if (!g_sameObject) then
    let o1 ← Packet_ctor_copy_pv s
    let v_tmp := o1
    let (o2, o3) ← swap_Packet_pv s v_tmp
    let s := o2
    let v_tmp := o3
    pure (s, ())
  else
    pure (s, ())

/-- `ASAM::CMP::Packet::setCommonFlag` void (const ASAM::CMP::Packet::CommonFlags, const bool) -/
def Packet_setCommonFlag_pv (s : PacketV_St) (a_mask : Nat) (a_value : Bool) : Option (PacketV_St × Unit) := do
  let s := { s with f_commonFlags := ((if a_value then (s.f_commonFlags ||| a_mask) else (s.f_commonFlags &&& (bnot 32 a_mask))) % 256) }
  pure (s, ())

/-- `ASAM::CMP::Packet::setDeviceId` void (const uint16_t) -/
def Packet_setDeviceId_pv (s : PacketV_St) (a_value : Nat) : Option (PacketV_St × Unit) := do
  let s := { s with f_deviceId := a_value }
  pure (s, ())

/-- `ASAM::CMP::Packet::setPayload` void (const ASAM::CMP::Payload &) -/
def Packet_setPayload_pv (s : PacketV_St) (a_newPayload : Payload_St) : Option (PacketV_St × Unit) := do
  let o1 ← Payload_ctor_copy_pv a_newPayload
  let s := { s with f_payload := (some o1) }
  pure (s, ())

/-- `ASAM::CMP::Packet::setSegmentType` void (const ASAM::CMP::Packet::SegmentType) -/
def Packet_setSegmentType_pv (s : PacketV_St) (a_type : Nat) : Option (PacketV_St × Unit) := do
  let s := { s with f_segmentType := a_type }
  pure (s, ())

/-- `ASAM::CMP::Packet::setSequenceCounter` void (uint16_t) -/
def Packet_setSequenceCounter_pv (s : PacketV_St) (a_counter : Nat) : Option (PacketV_St × Unit) := do
  let s := { s with f_sequenceCounter := a_counter }
  pure (s, ())

/-- `ASAM::CMP::Packet::setStreamId` void (const uint8_t) -/
def Packet_setStreamId_pv (s : PacketV_St) (a_value : Nat) : Option (PacketV_St × Unit) := do
  let s := { s with f_streamId := a_value }
  pure (s, ())

/-- `ASAM::CMP::Packet::setVersion` void (const uint8_t) -/
def Packet_setVersion_pv (s : PacketV_St) (a_value : Nat) : Option (PacketV_St × Unit) := do
  let s := { s with f_version := a_value }
  pure (s, ())

/-- `ASAM::CMP::Payload::Payload` void (const ASAM::CMP::PayloadType, const size_t) -/
def Payload_ctor_PayloadType_u64_pv (a_type : Nat) (a_size : Nat) : Option (Payload_St) := do
  let i_payloadData := (zeros a_size)
  let i_type := a_type
  let s : Payload_St := { f_payloadData := i_payloadData, f_type := i_type }
  pure s

/-- `ASAM::CMP::Payload::getType` ASAM::CMP::PayloadType () const -/
def Payload_getType_pv (s : Payload_St) : Option (Payload_St × Nat) := do
  pure (s, s.f_type)

/-- `ASAM::CMP::PayloadType::setMessageType` void (const PayloadType::MessageType) -/
def PayloadType_setMessageType_pv (s : Nat) (a_newType : Nat) : Option (Nat × Unit) := do
  let s := (s &&& (bnot 32 65280))
  let t1 ← to_underlying_u82 a_newType
  let t2 ← sshl 32 t1 8
  let s := (s ||| t2)
  pure (s, ())

/-- `ASAM::CMP::Payload::setMessageType` void (const ASAM::CMP::Payload::MessageType) -/
def Payload_setMessageType_pv (s : Payload_St) (a_newType : Nat) : Option (Payload_St × Unit) := do
  let (o1, _) ← PayloadType_setMessageType_pv s.f_type a_newType
  let s := { s with f_type := o1 }
  pure (s, ())

/-- `ASAM::CMP::PayloadType::setRawPayloadType` void (const uint8_t) -/
def PayloadType_setRawPayloadType_pv (s : Nat) (a_newType : Nat) : Option (Nat × Unit) := do
  let s := (s &&& (bnot 32 255))
  let s := (s ||| a_newType)
  pure (s, ())

/-- `ASAM::CMP::Payload::setRawPayloadType` void (const uint8_t) -/
def Payload_setRawPayloadType_pv (s : Payload_St) (a_newType : Nat) : Option (Payload_St × Unit) := do
  let (o1, _) ← PayloadType_setRawPayloadType_pv s.f_type a_newType
  let s := { s with f_type := o1 }
  pure (s, ())

/-- `ASAM::CMP::Payload::setType` void (const ASAM::CMP::PayloadType) -/
def Payload_setType_pv (s : Payload_St) (a_newType : Nat) : Option (Payload_St × Unit) := do
  let s := { s with f_type := a_newType }
  pure (s, ())

/-- `ASAM::CMP::PayloadType::setType` void (const uint32_t) -/
def PayloadType_setType_pv (s : Nat) (a_newType : Nat) : Option (Nat × Unit) := do
  let s := a_newType
  pure (s, ())

def opEq_Payload_pv_loop1 (fuel : Nat) (g_samePtr : Bool) (a_lhs : Payload_St) (a_rhs : Payload_St) (v_lhsRaw_off : Nat) (v_rhsRaw_off : Nat) (v_i : Nat) : Option (Option Bool × Nat) :=
  match fuel with
  | 0 => none
  | fuel + 1 => do
    let (_, t6) ← Payload_getLength_pv a_lhs
    if (decide (v_i < t6)) then
      let t7 ← rd a_lhs.f_payloadData (v_lhsRaw_off + v_i) 1
      let t8 ← rd a_rhs.f_payloadData (v_rhsRaw_off + v_i) 1
      if (t7 != t8) then
        pure ((some false), v_i)
      else
        let v_i := (uadd 64 v_i 1)
        opEq_Payload_pv_loop1 fuel g_samePtr a_lhs a_rhs v_lhsRaw_off v_rhsRaw_off v_i
    else
      pure (none, v_i)

/-- `ASAM::CMP::operator==` bool (const ASAM::CMP::Payload &, const ASAM::CMP::Payload &) noexcept -/
def opEq_Payload_pv (fuel : Nat) (g_samePtr : Bool) (a_lhs : Payload_St) (a_rhs : Payload_St) : Option (Bool) := do
  let (_, t1) ← Payload_getType_pv a_lhs
  let (_, t2) ← Payload_getType_pv a_rhs
  let t3 ← opNe_PayloadType_pv t1 t2
  if t3 then
    pure false
  else
    let (_, t4) ← Payload_getLength_pv a_lhs
    let (_, t5) ← Payload_getLength_pv a_rhs
    if (t4 != t5) then
      pure false
    else
      let v_lhsRaw_off := 0
      let v_rhsRaw_off := 0
      if g_samePtr then
        pure true
      else
        let v_i := 0
        let (r_, v_i) ← opEq_Payload_pv_loop1 fuel g_samePtr a_lhs a_rhs v_lhsRaw_off v_rhsRaw_off v_i
        match r_ with
        | some r_ => pure r_
        | none =>
          pure true

/-- `ASAM::CMP::operator==` bool (const ASAM::CMP::Packet &, const ASAM::CMP::Packet &) noexcept -/
def opEq_Packet_pv (fuel : Nat) (g_samePtr : Bool) (a_lhs : PacketV_St) (a_rhs : PacketV_St) : Option (Bool) := do
  let (_, t1) ← Packet_getVersion_pv a_lhs
  let (_, t2) ← Packet_getVersion_pv a_rhs
  if (t1 != t2) then
    pure false
  else
    let (_, t3) ← Packet_getDeviceId_pv a_lhs
    let (_, t4) ← Packet_getDeviceId_pv a_rhs
    if (t3 != t4) then
      pure false
    else
      let (_, t5) ← Packet_getStreamId_pv a_lhs
      let (_, t6) ← Packet_getStreamId_pv a_rhs
      if (t5 != t6) then
        pure false
      else
        let (_, t7) ← Packet_getSequenceCounter_pv a_lhs
        let (_, t8) ← Packet_getSequenceCounter_pv a_rhs
        if (t7 != t8) then
          pure false
        else
          let (_, t9) ← Packet_getTimestamp_pv a_lhs
          let (_, t10) ← Packet_getTimestamp_pv a_rhs
          if (t9 != t10) then
            pure false
          else
            let (_, t11) ← Packet_getInterfaceId_pv a_lhs
            let (_, t12) ← Packet_getInterfaceId_pv a_rhs
            if (t11 != t12) then
              pure false
            else
              let (_, t13) ← Packet_getVendorId_pv a_lhs
              let (_, t14) ← Packet_getVendorId_pv a_rhs
              if (t13 != t14) then
                pure false
              else
                let (_, t15) ← Packet_getCommonFlags_pv a_lhs
                let (_, t16) ← Packet_getCommonFlags_pv a_rhs
                if (t15 != t16) then
                  pure false
                else
                  let (_, t17) ← Packet_getSegmentType_pv a_lhs
                  let (_, t18) ← Packet_getSegmentType_pv a_rhs
                  if (t17 != t18) then
                    pure false
                  else
                    let t21 ← (if (a_lhs.f_payload).isSome then (do let d19 ← a_lhs.f_payload; let (_, t20) ← Payload_getLength_pv d19; pure t20) else (do pure 0))
                    let v_lhsLength := t21
                    let t24 ← (if (a_rhs.f_payload).isSome then (do let d22 ← a_rhs.f_payload; let (_, t23) ← Payload_getLength_pv d22; pure t23) else (do pure 0))
                    let v_rhsLength := t24
                    if ((v_lhsLength == v_rhsLength) && (decide (v_lhsLength > 0))) then
                      let (_, t25) ← Packet_getPayload_pv a_lhs
                      let (_, t26) ← Packet_getPayload_pv a_rhs
                      let t27 ← opEq_Payload_pv fuel g_samePtr t25 t26
                      pure t27
                    else
                      pure (v_lhsLength == v_rhsLength)

/-- `ASAM::CMP::operator!=` bool (const ASAM::CMP::Packet &, const ASAM::CMP::Packet &) noexcept -/
def opNe_Packet_pv (fuel : Nat) (g_samePtr : Bool) (a_lhs : PacketV_St) (a_rhs : PacketV_St) : Option (Bool) := do
  let t1 ← opEq_Packet_pv fuel g_samePtr a_lhs a_rhs
  pure (!t1)

/-- functions with a body of the value-mode classes that are not translated (or deliberately not generated), with the reason -/
def PacketValue_untranslated : List (String × String) := [
  ("ASAM::CMP::Packet::getPayload ASAM::CMP::Payload &()", "returns a mutable reference into the object"),
  ("ASAM::CMP::Payload::getRawPayload const uint8_t *() const", "returns a pointer (used through its provenance at the call sites)"),
  ("ASAM::CMP::Payload::setData void (const uint8_t *, const size_t)", "template"),
  ("ASAM::CMP::PayloadType::PayloadType void (const ASAM::CMP::PayloadType &) noexcept", "implicit copy / assignment of a single-scalar class: the value itself (no function generated)"),
  ("ASAM::CMP::PayloadType::operator= ASAM::CMP::PayloadType &(const ASAM::CMP::PayloadType &) noexcept", "implicit copy / assignment of a single-scalar class: the value itself (no function generated)")
]

def PacketValue_translated : List String := ["Packet_ctor_default_pv", "swap_Packet_pv", "swap_Packet_same_pv", "Packet_ctor_move_pv", "Payload_ctor_copy_pv", "Packet_ctor_copy_pv", "Packet_setTimestamp_pv", "Packet_setInterfaceId_pv", "Packet_setCommonFlags_pv", "Packet_setVendorId_pv", "Packet_setMessageHeader_pv", "PayloadType_getType_pv", "opEq_PayloadType_pv", "opNe_PayloadType_pv", "PayloadType_ctor_u32_pv", "Payload_ctor_PayloadType_ptr_u64_pv", "CanPayloadBase_ctor_PayloadType_ptr_u64_pv", "CanPayload_ctor_ptr_u64_pv", "CanFdPayload_ctor_ptr_u64_pv", "LinPayload_ctor_ptr_u64_pv", "AnalogPayload_ctor_ptr_u64_pv", "EthernetPayload_ctor_ptr_u64_pv", "CaptureModulePayload_ctor_ptr_u64_pv", "InterfacePayload_ctor_ptr_u64_pv", "Packet_create_pv", "PayloadType_ctor_u8_u8_pv", "Packet_ctor_u8_ptr_u64_pv", "Packet_getCommonFlag_pv", "Packet_getCommonFlags_pv", "Packet_getDeviceId_pv", "Packet_getInterfaceId_pv", "PayloadType_getMessageType_pv", "Payload_getMessageType_pv", "Packet_getMessageType_pv", "Packet_getPayload_pv", "Payload_getLength_pv", "Packet_getPayloadLength_pv", "PayloadType_getRawPayloadType_pv", "Payload_getRawPayloadType_pv", "Packet_getPayloadType_pv", "Packet_getVersion_pv", "Packet_getStreamId_pv", "Packet_getSequenceCounter_pv", "Packet_getRawCmpHeader_pv", "Packet_getTimestamp_pv", "Packet_getVendorId_pv", "Packet_getRawMessageHeader_pv", "Packet_getSegmentType_pv", "PayloadType_isValid_pv", "Payload_isValid_pv", "Packet_isValid_pv", "Packet_isValidPacket_pv", "Packet_opAssign_move_pv", "Packet_opAssign_move_self_pv", "Packet_opAssign_copy_pv", "Packet_opAssign_copy_self_pv", "Packet_setCommonFlag_pv", "Packet_setDeviceId_pv", "Packet_setPayload_pv", "Packet_setSegmentType_pv", "Packet_setSequenceCounter_pv", "Packet_setStreamId_pv", "Packet_setVersion_pv", "Payload_ctor_PayloadType_u64_pv", "Payload_getType_pv", "PayloadType_setMessageType_pv", "Payload_setMessageType_pv", "PayloadType_setRawPayloadType_pv", "Payload_setRawPayloadType_pv", "Payload_setType_pv", "PayloadType_setType_pv", "opEq_Payload_pv", "opEq_Packet_pv", "opNe_Packet_pv"]

end AsamCmp.SrcGen
