/-
  Operation histories of one encoder object (C09, C10).
-/
import AsamCmp.Encoder
namespace AsamCmp

inductive EncOp
  | setDev (d : Nat)
  | setStream (d : Nat)
  | restart
  | encode (batch : List Packet) (c : Ctx)

/-- one API call: new encoder state and the frames it returned (none for the setters) -/
def Enc.apply (e : Enc) : EncOp → Enc × List EFrame
  | .setDev d => (e.setDevice d, [])
  | .setStream d => (e.setStream d, [])
  | .restart => (e.restart, [])
  | .encode b c => e.encode b c

/-- run a history; the frames of every call, in call order -/
def Enc.runOps (e : Enc) : List EncOp → Enc × List (List EFrame)
  | [] => (e, [])
  | op :: ops =>
    let r := e.apply op
    let r' := r.1.runOps ops
    (r'.1, r.2 :: r'.2)

/-- a freshly constructed encoder, then configured with the given ids -/
def Enc.fresh (dev stream : Nat) : Enc := { dev := dev, stream := stream }

/-- add `k` to every sequence counter (mod 2^16) -/
def shiftSeq (k : Nat) (fs : List EFrame) : List EFrame :=
  fs.map fun f => { f with seq := (f.seq + k) % 65536 }

/-- the state between API calls: no frame under construction -/
def Enc.Idle (e : Enc) : Prop := e.closed = [] ∧ e.cur = none ∧ e.tmpl = none ∧ e.seqc < 65536

end AsamCmp
