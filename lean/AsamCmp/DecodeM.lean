/-
  Checked-read version of the decoder (C02).  Every read of the input buffer — and, on the TECMP
  path, of the library's own copy of the payload — goes through `rdB`/`rdN`, in the order and under
  exactly the guards the C++ code has.  `none` = a read outside the buffer.  The theorem of C02 is
  that this never happens and that the result is the one of the plain model `decode`.
-/
import AsamCmp.Tecmp
namespace AsamCmp

/-- checked slice -/
def rdB (b : Bytes) (off len : Nat) : Option Bytes :=
  if off + len ≤ b.length then some (slice b off len) else none

/-- checked big-endian number -/
def rdN (b : Bytes) (off len : Nat) : Option Nat := (rdB b off len).map beDec

/-- `Packet::isValidPacket(data, size)`: `size >= 16 && length <= size - 16 && !error && type != 0`,
    short-circuit: the header is read only if it is there -/
def msgValidM (r : Bytes) : Option Bool :=
  if r.length < 16 then some false
  else do
    let len ← rdN r 14 2
    if ¬ len ≤ r.length - 16 then pure false
    else
      let fl ← rdN r 12 1
      if (fl &&& 0x40) != 0 then pure false
      else
        let pt ← rdN r 13 1
        pure (pt != 0)

/-- `Packet(msgType, data, size)`: reads the 16 header bytes and the declared payload -/
def ofMsgM (mt : Nat) (m : Bytes) : Option Packet := do
  let _ ← rdB m 0 16
  let len ← rdN m 14 2
  let _ ← rdB m 16 len        -- validators and the payload copy stay inside these `len` bytes
  pure (Packet.ofMsg mt m)

def walkM (ep : Ep) (ver mt : Nat) (r : Bytes) : Option (List Packet × Term) :=
  if h0 : r.length = 0 then some ([], .done)
  else
    match msgValidM r with
    | none => none
    | some false => some ([], .invalid)
    | some true =>
      match rdN r 14 2, rdN r 12 1 with
      | some len, some fl =>
        if (fl &&& 0x0C) != 0 then
          -- segment: the constructor / addSegment copy the header and the declared bytes
          match rdB r 0 (16 + len) with
          | some m => some ([], .seg m)
          | none => none
        else
          match ofMsgM mt r with
          | none => none
          | some p =>
            match walkM ep ver mt (r.drop (16 + len)) with
            | none => none
            | some rest => some (tagPacket ep ver p :: rest.1, rest.2)
      | _, _ => none
termination_by r.length
decreasing_by simp [List.length_drop]; omega

def parseFrameM (b : Bytes) : Option PFrame := do
  let ver ← rdN b 0 1
  let dev ← rdN b 2 2
  let mt ← rdN b 4 1
  let stream ← rdN b 5 1
  let seq ← rdN b 6 2
  let w ← walkM (dev, stream) ver mt (b.drop 8)
  pure { ep := (dev, stream), ver := ver, mt := mt, seq := seq, unseg := w.1, term := w.2 }

/-! TECMP: reads of the frame (`b`) and of the payload copy (`p`, everything behind byte 28) -/

def tecmpCanM (b p : Bytes) : Option (List Packet) :=
  if p.length < 5 then some []
  else do
    let dlc ← rdN p 4 1
    if p.length - 5 < dlc then pure []
    else
      let _ ← rdN p 0 4
      let _ ← rdB p 5 dlc
      let _ ← (if p.length < 5 + dlc + 3 then some [] else rdB p (5 + dlc) 3)
      pure (tecmpCan b p)

def tecmpLinM (b p : Bytes) : Option (List Packet) :=
  if p.length < 2 then some []
  else do
    let n ← rdN p 1 1
    if p.length - 2 < n then pure []
    else
      let _ ← rdN p 0 1
      let _ ← rdB p 2 n
      let _ ← (if p.length ≤ 2 + n then some [] else rdB p (2 + n) 1)
      pure (tecmpLin b p)

def tecmpCmM (b p : Bytes) : Option (List Packet) :=
  if p.length < 18 then some []
  else do
    let v ← rdN p 4 2
    if p.length - 12 < v then pure []
    else
      let _ ← rdN p 8 4
      let _ ← rdB p 13 5
      pure (tecmpCm b p)

def tecmpBusEntriesM (p : Bytes) (v : Nat) : Nat → Nat → Option Unit
  | 0, _ => some ()
  | fuel+1, off =>
    if off + (12 + v) ≤ p.length then do
      let _ ← rdB p off 12
      tecmpBusEntriesM p v fuel (off + (12 + v))
    else some ()

def tecmpBusM (b p : Bytes) : Option (List Packet) :=
  if p.length < 12 then some []
  else do
    let _ ← rdB p 0 12
    let v ← rdN p 4 2
    let _ ← tecmpBusEntriesM p v (p.length / 12 + 1) 12
    pure (tecmpBus b p)

def tecmpDecodeM (b : Bytes) : Option (List Packet) :=
  if b.length < 28 then some []
  else do
    let _ ← rdB b 0 28
    let plen ← rdN b 24 2
    if plen = 0 then pure []
    else if b.length < 28 + plen then pure []
    else
      let mt ← rdN b 5 1
      let d6 ← rdN b 6 1
      let d7 ← rdN b 7 1
      if mt = 0xFF ∨ (d6 = 0xFF ∧ d7 = 0) then pure []
      else
        let p := b.drop 28
        let dt ← rdN b 6 2
        if mt = 1 then tecmpCmM b p
        else if mt = 3 then
          if dt = 2 ∨ dt = 3 then tecmpCanM b p
          else if dt = 4 then tecmpLinM b p
          else pure []
        else if mt = 2 then tecmpBusM b p
        else pure []

/-- the complete entry point with checked reads -/
def decodeM (s : DecState) (buf : Option Bytes) : Option (DecState × List Packet) :=
  match buf with
  | none => some (s, [])
  | some b =>
    if b.length < 8 then some (s, [])
    else
      match rdN b 0 1 with
      | none => none
      | some b0 =>
        if b0 = 0 then (tecmpDecodeM b).map fun ps => (s, ps)
        else (parseFrameM b).map fun f => step s f

end AsamCmp
