/-
  Generic field access over a byte string: a field is a bit range inside a big-endian word.
-/
import AsamCmp.Bytes
namespace AsamCmp

structure Field where
  name : String
  /-- byte offset of the big-endian word that holds the field -/
  off : Nat
  /-- width of that word in bytes -/
  w : Nat
  /-- position of the field's least significant bit inside the word -/
  shift : Nat
  /-- width of the field in bits -/
  bits : Nat
  /-- fields of one alias group overlay each other on purpose (a C++ union) -/
  alias : String := ""
deriving Repr, DecidableEq, Inhabited

structure ClassLayout where
  name : String
  /-- size of the fixed header in bytes -/
  size : Nat
  /-- bytes of a default-constructed object, hex -/
  dflt : String
  fields : List Field
deriving Repr, Inhabited

/-- read: the word's value, shifted and masked -/
def getField (f : Field) (b : Bytes) : Nat :=
  beAt b f.off f.w / 2 ^ f.shift % 2 ^ f.bits

/-- write an in-range value: clear the field's bits in the word, put the value there, store the
    word back big-endian -/
def setField (f : Field) (v : Nat) (b : Bytes) : Bytes :=
  let word := beAt b f.off f.w
  let old := word / 2 ^ f.shift % 2 ^ f.bits
  writeAt b f.off (beEnc f.w (word - old * 2 ^ f.shift + v * 2 ^ f.shift))

/-- the field lies inside its word and the word inside the first `size` bytes -/
def Field.fits (f : Field) (size : Nat) : Bool :=
  f.shift + f.bits ≤ 8 * f.w && f.off + f.w ≤ size && 0 < f.w

/-- absolute bit interval of a field, counting bits from the END of the byte string's prefix of
    length `off + w` backwards: [lo, hi) with bit 0 = most significant bit of byte 0 -/
def Field.lo (f : Field) : Nat := (f.off + f.w) * 8 - f.shift - f.bits
def Field.hi (f : Field) : Nat := (f.off + f.w) * 8 - f.shift

def Field.disjoint (f g : Field) : Bool := f.hi ≤ g.lo || g.hi ≤ f.lo

def ClassLayout.find (c : ClassLayout) (n : String) : Option Field := c.fields.find? (·.name == n)

/-- every field fits, and two fields overlap only if they belong to one alias group or one is a
    whole-word view that contains the other (e.g. `flags` and its single-bit flags) -/
def ClassLayout.wf (c : ClassLayout) : Bool :=
  c.fields.all (fun f => f.fits c.size) &&
  c.fields.all (fun f => c.fields.all fun g =>
    f.name == g.name || f.disjoint g || (f.alias != "" && f.alias == g.alias) ||
    (f.lo ≤ g.lo && g.hi ≤ f.hi) || (g.lo ≤ f.lo && f.hi ≤ g.hi))

end AsamCmp
