/-
  Concurrency model for C19: `n` codec instances, each with its own state, driven by an arbitrary
  schedule (interleaving at operation granularity).  The library has no global component: every
  instance's step function reads and writes its own state only (the obligation
  `GenChecks.no_shared_state` is what makes the global component trivial for the real objects).
-/
namespace AsamCmp.Conc

variable {σ ι ο : Type}

/-- one instance alone -/
def runSolo (step : σ → ι → σ × ο) (s : σ) : List ι → σ × List ο
  | [] => (s, [])
  | op :: ops =>
    let r := step s op
    let r' := runSolo step r.1 ops
    (r'.1, r.2 :: r'.2)

/-- a schedule: which instance performs which operation next -/
def runSched (step : σ → ι → σ × ο) (st : Nat → σ) : List (Nat × ι) → (Nat → σ) × List (Nat × ο)
  | [] => (st, [])
  | (i, op) :: rest =>
    let r := step (st i) op
    let r' := runSched step (fun j => if j = i then r.1 else st j) rest
    (r'.1, (i, r.2) :: r'.2)

/-- every interleaving yields, for each instance, exactly the outputs and the final state of its
    solo run on its own operations -/
theorem interleave_independent (step : σ → ι → σ × ο) (i : Nat) :
    ∀ (sched : List (Nat × ι)) (st : Nat → σ),
      ((runSched step st sched).2.filter (fun x => x.1 = i)).map (·.2) =
        (runSolo step (st i) ((sched.filter (fun x => x.1 = i)).map (·.2))).2 ∧
      (runSched step st sched).1 i = (runSolo step (st i) ((sched.filter (fun x => x.1 = i)).map (·.2))).1 := by
  intro sched
  induction sched with
  | nil => intro st; simp [runSched, runSolo]
  | cons hd tl ih =>
    intro st
    obtain ⟨j, op⟩ := hd
    by_cases hji : j = i
    · subst hji
      have := ih (fun k => if k = j then (step (st j) op).1 else st k)
      simp only [if_pos rfl] at this
      simp [runSched, runSolo, this.1, this.2]
    · have := ih (fun k => if k = j then (step (st j) op).1 else st k)
      have hij : ¬ i = j := fun h => hji h.symm
      simp only [if_neg hij] at this
      simp [runSched, runSolo, hji, this.1, this.2]

/-- two schedules with the same per-instance projections are indistinguishable for every instance -/
theorem schedules_equivalent (step : σ → ι → σ × ο) (st : Nat → σ) (s1 s2 : List (Nat × ι)) (i : Nat)
    (h : (s1.filter (fun x => x.1 = i)).map (·.2) = (s2.filter (fun x => x.1 = i)).map (·.2)) :
    ((runSched step st s1).2.filter (fun x => x.1 = i)).map (·.2) =
    ((runSched step st s2).2.filter (fun x => x.1 = i)).map (·.2) := by
  rw [(interleave_independent step i s1 st).1, (interleave_independent step i s2 st).1, h]

end AsamCmp.Conc
