/-
  Source-level C03: the payload classes' variable-length accessors (`getData`, `getDataLength`, `getSamplesCount`,
  `getStreamIds`, `getStreamIdsCount`, `getVendorData`, `getVendorDataLength`), translated from /repo's source on every run
  (GeneratedSrc.lean; `pd_` / `pdsize_` are the address and size of the bytes the payload object owns), report exactly the views
  of the accessor model `Access.lean` — the model `C03.accessors_inbounds` is proved about — for every payload the class's
  validator accepts, at any position of any memory.  `src*Access` combines the translated accessors the way the harness's
  `access` operation combines the real ones; a null pointer is address 0 (hence `0 < pre.length`).
  The capture-module accessors are included: `std::string_view` is translated as a (pointer, length) pair, `find` /
  `remove_suffix` by the primitives `svFind` / `svRemoveSuffix` of Src/Sem.lean.
-/
import AsamCmp.GeneratedSrc
import AsamCmp.Access
import AsamCmp.Props.SrcTie
import AsamCmp.Lemmas.SrcAccess
import AsamCmp.Lemmas.SrcAccessCm
set_option linter.unusedSimpArgs false
namespace AsamCmp.SrcTie
open AsamCmp AsamCmp.Src AsamCmp.SrcGen

/-- a (pointer, length) pair as a view relative to the payload start -/
def srcView (name : String) (pd p len : Nat) : View := ⟨name, if p = 0 then none else some (p - pd), len⟩

def srcCanAccess (m : Bytes) (pd sz this : Nat) : Option (List View) := do
  let n ← CanPayloadBase_getDataLength m pd sz this
  let p ← CanPayloadBase_getData m pd sz this
  pure [srcView "data" pd p n]

def srcLinAccess (m : Bytes) (pd sz this : Nat) : Option (List View) := do
  let n ← LinPayload_getDataLength m pd sz this
  let p ← LinPayload_getData m pd sz this
  pure [srcView "data" pd p n]

def srcEthAccess (m : Bytes) (pd sz this : Nat) : Option (List View) := do
  let n ← EthernetPayload_getDataLength m pd sz this
  let p ← EthernetPayload_getData m pd sz this
  pure [srcView "data" pd p n]

/-- the harness reports `count * sizeof(sample)` bytes, the sample size chosen by the sample type as the library does -/
def srcAnalogAccess (m : Bytes) (pd sz this : Nat) : Option (List View) := do
  let cnt ← AnalogPayload_getSamplesCount m pd sz this
  let dt ← AnalogPayload_getSampleDt m pd sz this
  let p ← AnalogPayload_getData m pd sz this
  pure [srcView "samples" pd p (cnt * (if dt = 0 then 2 else 4))]

def srcIfAccess (m : Bytes) (pd sz this : Nat) : Option (List View) := do
  let c ← InterfacePayload_getStreamIdsCount m pd sz this
  let p ← InterfacePayload_getStreamIds m pd sz this
  let vl ← InterfacePayload_getVendorDataLength m pd sz this
  let vp ← InterfacePayload_getVendorData m pd sz this
  pure [srcView "streamIds" pd p c, srcView "vendorData" pd vp vl]

theorem can_access_src (pre b post : Bytes) (this : Nat) (hpre : 0 < pre.length) (h : (pre ++ b ++ post).length < 2 ^ 64)
    (hv : canValid b = true) :
    srcCanAccess (pre ++ b ++ post) pre.length b.length this = canAccess b := by
  have hb := mem_lt pre b post h
  have h16 : 16 ≤ b.length := by
    unfold canValid at hv; simp only [Bool.and_eq_true, decide_eq_true_eq] at hv; omega
  simp only [srcCanAccess, CanPayloadBase_getData, CanPayloadBase_getDataLength, CanPayloadBase_Header_getDataLength]
  src_calls []
  simp (disch := omega) only [canAccess, model_rd, beAt_one, bind, pure, some_bind, dataView, srcView, off_ptr, ptr_sub]

theorem lin_access_src (pre b post : Bytes) (this : Nat) (hpre : 0 < pre.length) (h : (pre ++ b ++ post).length < 2 ^ 64)
    (hv : linValid b = true) :
    srcLinAccess (pre ++ b ++ post) pre.length b.length this = linAccess b := by
  have hb := mem_lt pre b post h
  have h8 : 8 ≤ b.length := by
    unfold linValid at hv; simp only [Bool.and_eq_true, decide_eq_true_eq] at hv; omega
  simp only [srcLinAccess, LinPayload_getData, LinPayload_getDataLength, LinPayload_Header_getDataLength]
  src_calls []
  simp (disch := omega) only [linAccess, model_rd, beAt_one, bind, pure, some_bind, dataView, srcView, off_ptr, ptr_sub]

theorem eth_access_src (pre b post : Bytes) (this : Nat) (hpre : 0 < pre.length) (h : (pre ++ b ++ post).length < 2 ^ 64)
    (hv : ethValid b = true) :
    srcEthAccess (pre ++ b ++ post) pre.length b.length this = ethAccess b := by
  have hb := mem_lt pre b post h
  have h6 : 6 ≤ b.length := by
    unfold ethValid at hv; simp only [Bool.and_eq_true, decide_eq_true_eq] at hv; omega
  simp only [srcEthAccess, EthernetPayload_getData, EthernetPayload_getDataLength, EthernetPayload_Header_getDataLength]
  src_calls []
  simp (disch := omega) only [ethAccess, model_rd, bind, pure, some_bind, dataView, srcView, off_ptr, ptr_sub]

theorem analog_access_src (pre b post : Bytes) (this : Nat) (hpre : 0 < pre.length) (h : (pre ++ b ++ post).length < 2 ^ 64)
    (hv : analogValid b = true) :
    srcAnalogAccess (pre ++ b ++ post) pre.length b.length this = analogAccess b := by
  have hb := mem_lt pre b post h
  have h16 : 16 ≤ b.length := by
    unfold analogValid at hv; simp only [Bool.and_eq_true, decide_eq_true_eq] at hv; omega
  have h3 : byteAt b 1 &&& 3 ≤ 3 := Nat.and_le_right
  have hz : (byteAt b 1 &&& 3) * 256 = 0 ↔ byteAt b 1 &&& 3 = 0 := by omega
  simp (disch := omega) only [srcAnalogAccess, AnalogPayload_getData, analog_dt_src pre b post this (by omega),
    analog_cnt_src pre b post this hb h16, analogAccess, model_rd, beAt_one, bind, pure, some_bind, bne_iff_ne, ne_eq,
    srcView, off_ptr, ptr_sub, hz]

theorem if_access_src (pre b post : Bytes) (this : Nat) (hpre : 0 < pre.length) (h : (pre ++ b ++ post).length < 2 ^ 64)
    (hv : ifValid b = true) :
    srcIfAccess (pre ++ b ++ post) pre.length b.length this = ifAccess b := by
  have hb := mem_lt pre b post h
  unfold ifValid at hv
  simp only [Bool.and_eq_true, decide_eq_true_eq] at hv
  obtain ⟨⟨h40, _⟩, hfit, _⟩ := hv
  simp (disch := omega) only [srcIfAccess, InterfacePayload_getStreamIds, InterfacePayload_getVendorData,
    InterfacePayload_getStreamIdCountPtr, if_count_src pre b post this (by omega),
    if_vlptr_src pre b post this hb (by omega), if_vl_src pre b post this hb (by omega) hfit, ifAccess, model_rd,
    bind, pure, some_bind, bne_iff_ne, ne_eq, ite_some, srcView, dataView, off_ptr, Nat.add_assoc, Nat.reduceAdd,
    ptr_sub]

def srcCmAccess (m : Bytes) (pd sz this : Nat) : Option (List View) := do
  let d ← CaptureModulePayload_getDeviceDescription m pd sz this
  let s ← CaptureModulePayload_getSerialNumber m pd sz this
  let hw ← CaptureModulePayload_getHardwareVersion m pd sz this
  let sw ← CaptureModulePayload_getSoftwareVersion m pd sz this
  let vl ← CaptureModulePayload_getVendorDataLength m pd sz this
  let vp ← CaptureModulePayload_getVendorData m pd sz this
  pure [⟨"deviceDescription", some (d.1 - pd), d.2⟩, ⟨"serialNumber", some (s.1 - pd), s.2⟩, ⟨"hardwareVersion", some (hw.1 - pd), hw.2⟩,
        ⟨"softwareVersion", some (sw.1 - pd), sw.2⟩, ⟨"vendorData", some (vp - pd), vl⟩]

theorem cm_access_src (pre b post : Bytes) (this : Nat) (h : (pre ++ b ++ post).length < 2 ^ 64)
    (hv : cmValid b = true) :
    srcCmAccess (pre ++ b ++ post) pre.length b.length this = cmAccess b := by
  have hb := mem_lt pre b post h
  unfold cmValid at hv
  simp only [Bool.and_eq_true, decide_eq_true_eq] at hv
  obtain ⟨h26, hv1⟩ := hv
  -- the five blocks: length `lᵢ`, end `pᵢ₊₁` (= start of the next block), all inside `b`
  obtain ⟨l1, p2, e1, q1, hl1, hb1, hv2⟩ := blocksOk_block b 4 26 h26 hv1
  obtain ⟨l2, p3, e2, q2, hl2, hb2, hv3⟩ := blocksOk_block b 3 p2 hb1 hv2
  obtain ⟨l3, p4, e3, q3, hl3, hb3, hv4⟩ := blocksOk_block b 2 p3 hb2 hv3
  obtain ⟨l4, p5, e4, q4, hl4, hb4, hv5⟩ := blocksOk_block b 1 p4 hb3 hv4
  obtain ⟨l5, p6, e5, q5, hl5, hb5, _⟩ := blocksOk_block b 0 p5 hb4 hv5
  simp (disch := omega) only [srcCmAccess, CaptureModulePayload_getDeviceDescription,
    CaptureModulePayload_getSerialNumber, CaptureModulePayload_getHardwareVersion,
    CaptureModulePayload_getSoftwareVersion, CaptureModulePayload_getVendorDataLength,
    CaptureModulePayload_getVendorData, initStringView_src, removeTrailingNulls_src, e1, e2, e3, e4, e5, q1, q2, q3, q4,
    q5, bind, pure, some_bind, ptr_sub, Nat.mod_eq_of_lt, cmAccess, cmBlock, trimNul, model_rd, if_pos]

end AsamCmp.SrcTie
