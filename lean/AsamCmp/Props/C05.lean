/-
  C05  Segmented messages reassemble correctly under any interleaving.

  For any set of endpoints, each sending well-formed segmented messages (first, intermediaries,
  last, one per frame, consecutive 16-bit sequence counters including across the wrap), and any
  interleaving of their frames with each other and with traffic of other endpoints, the decoder
  delivers each message exactly once, at the moment its last segment arrives.  The delivered
  payload is the concatenation of the segments' declared payload bytes, and version, message type
  and header fields are those of the first segment.
-/
import AsamCmp.Decoder
import AsamCmp.Props.C18
import AsamCmp.Lemmas.LayerB
namespace AsamCmp

/-- run the single-endpoint automaton over a list of frames -/
def runLocal (p : Option Pending) : List PFrame → Option Pending × List Packet
  | [] => (p, [])
  | f :: fs =>
    let r := localStep p f
    let r' := runLocal r.1 fs
    (r'.1, r.2 ++ r'.2)

/-- one segmented message as sent: header (16 bytes) and declared body of each segment -/
structure SegMsg where
  ep : Ep
  ver : Nat
  mt : Nat
  /-- counter of the frame carrying the first segment -/
  seq0 : Nat
  first : Bytes × Bytes
  middle : List (Bytes × Bytes)
  last : Bytes × Bytes

namespace SegMsg
def segs (M : SegMsg) : List (Bytes × Bytes) := M.first :: (M.middle ++ [M.last])

def WF (M : SegMsg) : Prop :=
  (∀ s ∈ M.segs, s.1.length = 16) ∧
  segTypeOf M.first.1 = 4 ∧ (∀ s ∈ M.middle, segTypeOf s.1 = 8) ∧ segTypeOf M.last.1 = 12

/-- the frames on the wire: one segment per frame, consecutive counters modulo 2^16 -/
def frames (M : SegMsg) : List PFrame :=
  (List.range M.segs.length).zip M.segs |>.map fun (i, s) =>
    { ep := M.ep, ver := M.ver, mt := M.mt, seq := (M.seq0 + i) % 65536, unseg := [], term := .seg (s.1 ++ s.2) }

def body (M : SegMsg) : Bytes := (M.segs.map (·.2)).flatten

/-- the packet the decoder must deliver: first segment's header fields with the total length,
    all declared bytes in order, the first segment's version and message type -/
def expected (M : SegMsg) : Packet :=
  tagPacket M.ep M.ver (Packet.ofMsg M.mt (writeAt M.first.1 14 (beEnc 2 M.body.length) ++ M.body))
end SegMsg

/-! ### auxiliary development for `reassemble_single` -/

theorem runLocal_append (p : Option Pending) (fs gs : List PFrame) :
    runLocal p (fs ++ gs) =
      ((runLocal (runLocal p fs).1 gs).1, (runLocal p fs).2 ++ (runLocal (runLocal p fs).1 gs).2) := by
  induction fs generalizing p with
  | nil => simp [runLocal]
  | cons f fs ih => simp only [List.cons_append, runLocal, ih, List.append_assoc]

namespace SegMsg

/-- the frame carrying segment `s` as the `i`-th frame of the message -/
def mkFrame (M : SegMsg) (i : Nat) (s : Bytes × Bytes) : PFrame :=
  { ep := M.ep, ver := M.ver, mt := M.mt, seq := (M.seq0 + i) % 65536, unseg := [], term := .seg (s.1 ++ s.2) }

def framesFrom (M : SegMsg) : Nat → List (Bytes × Bytes) → List PFrame
  | _, [] => []
  | k, s :: ss => M.mkFrame k s :: M.framesFrom (k + 1) ss

theorem framesFrom_eq (M : SegMsg) : ∀ (l : List (Bytes × Bytes)) (k : Nat),
    ((List.range' k l.length).zip l |>.map fun (i, s) =>
      ({ ep := M.ep, ver := M.ver, mt := M.mt, seq := (M.seq0 + i) % 65536, unseg := [],
         term := .seg (s.1 ++ s.2) } : PFrame)) = M.framesFrom k l := by
  intro l
  induction l with
  | nil => intro k; rfl
  | cons x xs ih =>
    intro k
    simp only [List.length_cons, List.range'_succ, List.zip_cons_cons, List.map_cons, framesFrom, ih]
    rfl

theorem frames_eq (M : SegMsg) : M.frames = M.framesFrom 0 M.segs := by
  unfold frames
  rw [List.range_eq_range']
  exact M.framesFrom_eq M.segs 0

theorem framesFrom_append (M : SegMsg) : ∀ (l r : List (Bytes × Bytes)) (k : Nat),
    M.framesFrom k (l ++ r) = M.framesFrom k l ++ M.framesFrom (k + l.length) r := by
  intro l
  induction l with
  | nil => intro r k; rfl
  | cons x xs ih =>
    intro r k
    simp only [List.cons_append, framesFrom, ih, List.length_cons]
    rw [show k + 1 + xs.length = k + (xs.length + 1) by omega]

/-- reassembly in progress after frame `k` of `M`: header `W` (the first segment's, bytes 14–15
    possibly rewritten) followed by the bodies `B` received so far -/
def MidInv (M : SegMsg) (k : Nat) (B : Bytes) (q : Pending) : Prop :=
  (∃ W, q.buf = W ++ B ∧ W.length = 16 ∧ W.take 14 = M.first.1.take 14) ∧
  (q.last = 4 ∨ q.last = 8) ∧ q.ver = M.ver ∧ q.mt = M.mt ∧ q.seq = (M.seq0 + k) % 65536

theorem step_first (M : SegMsg) (p0 : Option Pending) (h16 : M.first.1.length = 16)
    (h4 : segTypeOf M.first.1 = 4) :
    ∃ q, localStep p0 (M.mkFrame 0 M.first) = (some q, []) ∧ M.MidInv 0 M.first.2 q := by
  have ht : segTypeOf (M.first.1 ++ M.first.2) = 4 := by
    rw [segTypeOf_append _ _ (by omega), h4]
  refine ⟨⟨M.first.1 ++ M.first.2, 4, M.ver, M.mt, (M.seq0 + 0) % 65536⟩, ?_, ?_⟩
  · simp [localStep, mkFrame, ht]
  · exact ⟨⟨M.first.1, rfl, h16, rfl⟩, Or.inl rfl, rfl, rfl, rfl⟩

theorem step_mid (M : SegMsg) (k : Nat) (B : Bytes) (q : Pending) (s : Bytes × Bytes)
    (hq : M.MidInv k B q) (h16 : s.1.length = 16) (h8 : segTypeOf s.1 = 8) :
    ∃ q', localStep (some q) (M.mkFrame (k + 1) s) = (some q', []) ∧ M.MidInv (k + 1) (B ++ s.2) q' := by
  obtain ⟨⟨W, hbuf, hW, hWt⟩, hlast, hver, hmt, hseq⟩ := hq
  have ht : segTypeOf (s.1 ++ s.2) = 8 := by
    rw [segTypeOf_append _ _ (by omega), h8]
  have hvn : validNext q.last 8 = true := by
    rcases hlast with h | h <;> simp [validNext, h]
  have hs : (M.seq0 + (k + 1)) % 65536 = (q.seq + 1) % 65536 := by rw [hseq]; omega
  refine ⟨{ q with buf := fixLen (q.buf ++ (s.1 ++ s.2).drop 16), last := 8, seq := (q.seq + 1) % 65536 }, ?_, ?_⟩
  · simp [localStep, mkFrame, ht, hver, hmt, hs, hvn]
  · refine ⟨⟨W.take 14 ++ beEnc 2 (lenField (B ++ s.2).length), ?_, ?_, ?_⟩, Or.inr rfl, hver, hmt, hs.symm⟩
    · simp only [hbuf]
      rw [fixLen_step W B s.1 s.2 hW h16]
    · simp [hW]
    · rw [List.take_append_of_le_length (by simp [hW]), List.take_take, Nat.min_self, hWt]

theorem step_last (M : SegMsg) (k : Nat) (B : Bytes) (q : Pending) (s : Bytes × Bytes)
    (hq : M.MidInv k B q) (h16 : s.1.length = 16) (h12 : segTypeOf s.1 = 12) :
    localStep (some q) (M.mkFrame (k + 1) s) =
      (none, [tagPacket M.ep M.ver (Packet.ofMsg M.mt
        (M.first.1.take 14 ++ beEnc 2 (lenField (B ++ s.2).length) ++ (B ++ s.2)))]) := by
  obtain ⟨⟨W, hbuf, hW, hWt⟩, hlast, hver, hmt, hseq⟩ := hq
  have ht : segTypeOf (s.1 ++ s.2) = 12 := by
    rw [segTypeOf_append _ _ (by omega), h12]
  have hvn : validNext q.last 12 = true := by
    rcases hlast with h | h <;> simp [validNext, h]
  have hs : (M.seq0 + (k + 1)) % 65536 = (q.seq + 1) % 65536 := by rw [hseq]; omega
  have hfix := fixLen_step W B s.1 s.2 hW h16
  rw [← hbuf, hWt] at hfix
  simp [localStep, mkFrame, ht, hver, hmt, hs, hvn, hfix]

/-- running over intermediary segments keeps the invariant and delivers nothing -/
theorem run_mids (M : SegMsg) (rest : List (Bytes × Bytes)) :
    ∀ (mids : List (Bytes × Bytes)) (k : Nat) (B : Bytes) (q : Pending),
    (∀ s ∈ mids, s.1.length = 16 ∧ segTypeOf s.1 = 8) → M.MidInv k B q →
    ∃ q', runLocal (some q) (M.framesFrom (k + 1) (mids ++ rest)) =
            runLocal (some q') (M.framesFrom (k + 1 + mids.length) rest) ∧
          M.MidInv (k + mids.length) (B ++ (mids.map (·.2)).flatten) q' := by
  intro mids
  induction mids with
  | nil => intro k B q _ hq; exact ⟨q, rfl, by simpa using hq⟩
  | cons s mids ih =>
    intro k B q hm hq
    obtain ⟨h16, h8⟩ := hm s (List.mem_cons_self ..)
    obtain ⟨q1, hstep, hq1⟩ := M.step_mid k B q s hq h16 h8
    obtain ⟨q', hrun, hq'⟩ := ih (k + 1) (B ++ s.2) q1 (fun x hx => hm x (List.mem_cons_of_mem _ hx)) hq1
    refine ⟨q', ?_, ?_⟩
    · simp only [List.cons_append, framesFrom, runLocal, hstep, List.nil_append]
      rw [hrun]
      simp only [List.length_cons]
      rw [show k + 1 + 1 + mids.length = k + 1 + (mids.length + 1) by omega]
    · simp only [List.length_cons, List.map_cons, List.flatten_cons]
      rw [show k + (mids.length + 1) = k + 1 + mids.length by omega, ← List.append_assoc]
      exact hq'

end SegMsg

/-- the payload handed to `Packet::create` for the reassembled message is exactly the
    concatenation of the declared segment bodies -/
theorem expected_payload (M : SegMsg) (hwf : M.WF) (hlen : M.body.length ≤ 65535) :
    M.expected.payload = some (create (M.mt * 256 + byteAt M.first.1 13) M.body) := by
  have h16 : M.first.1.length = 16 := hwf.1 _ (by simp [SegMsg.segs])
  have hmod : M.body.length % 65536 = M.body.length := by omega
  unfold SegMsg.expected
  rw [writeAt_hdr _ _ h16 (beEnc_length 2 _)]
  simp only [tagPacket, Packet.ofMsg, byteAt_hdr _ _ _ 13 (by omega) h16, beAt_hdr _ _ _ h16, hmod,
    slice_hdr _ _ _ h16]

/-- single endpoint: whatever was pending before, the message is delivered exactly once, at its
    last frame, and nothing stays pending -/
theorem reassemble_single (M : SegMsg) (hwf : M.WF) (hlen : M.body.length ≤ 65535) (p0 : Option Pending) :
    runLocal p0 M.frames = (none, [M.expected]) ∧
    (runLocal p0 M.frames.dropLast).2 = [] := by
  obtain ⟨hall, h4, hmid, h12⟩ := hwf
  have hf16 : M.first.1.length = 16 := hall _ (by simp [SegMsg.segs])
  have hl16 : M.last.1.length = 16 := hall _ (by simp [SegMsg.segs])
  have hm : ∀ s ∈ M.middle, s.1.length = 16 ∧ segTypeOf s.1 = 8 :=
    fun s hs => ⟨hall s (by simp [SegMsg.segs, hs]), hmid s hs⟩
  have hbody : M.first.2 ++ (M.middle.map (·.2)).flatten ++ M.last.2 = M.body := by
    simp [SegMsg.body, SegMsg.segs]
  obtain ⟨q0, hstep0, hq0⟩ := M.step_first p0 hf16 h4
  rw [M.frames_eq]
  constructor
  · obtain ⟨q1, hrun, hq1⟩ := M.run_mids [M.last] M.middle 0 M.first.2 q0 hm hq0
    simp only [SegMsg.segs, SegMsg.framesFrom, runLocal, hstep0, List.nil_append]
    rw [hrun]
    simp only [SegMsg.framesFrom, runLocal]
    rw [show 0 + 1 + M.middle.length = 0 + M.middle.length + 1 by omega,
      M.step_last _ _ q1 M.last hq1 hl16 h12, hbody, lenField_small _ hlen]
    simp only [SegMsg.expected, writeAt_hdr _ _ hf16 (beEnc_length 2 _), List.append_nil]
  · obtain ⟨q1, hrun, hq1⟩ := M.run_mids [] M.middle 0 M.first.2 q0 hm hq0
    rw [List.append_nil] at hrun
    have hsegs : M.segs = (M.first :: M.middle) ++ [M.last] := rfl
    rw [hsegs, M.framesFrom_append]
    simp only [SegMsg.framesFrom, List.dropLast_concat, runLocal, hstep0, List.nil_append]
    rw [hrun]
    simp only [SegMsg.framesFrom, runLocal]

/-- a sequence of messages on one endpoint (each starts wherever the previous ended) -/
theorem reassemble_many (Ms : List SegMsg) (hwf : ∀ M ∈ Ms, M.WF ∧ M.body.length ≤ 65535)
    (p0 : Option Pending) (hne : Ms ≠ []) :
    runLocal p0 (Ms.flatMap SegMsg.frames) = (none, Ms.map SegMsg.expected) := by
  induction Ms generalizing p0 with
  | nil => exact absurd rfl hne
  | cons M rest ih =>
    obtain ⟨hM, hMl⟩ := hwf M (List.mem_cons_self ..)
    have h1 := (reassemble_single M hM hMl p0).1
    rw [List.flatMap_cons, runLocal_append, h1]
    by_cases hr : rest = []
    · subst hr; simp [runLocal]
    · rw [ih (fun x hx => hwf x (List.mem_cons_of_mem _ hx)) none hr]
      simp

/-- on a history of frames of a single endpoint `e` the decoder delivers what the single-endpoint
    automaton delivers from the state stored for `e` -/
theorem run_single_ep (e : Ep) : ∀ (fs : List PFrame) (s : DecState), (∀ f ∈ fs, f.ep = e) →
    (run s fs).2 = (runLocal (s e) fs).2 := by
  intro fs
  induction fs with
  | nil => intro s _; rfl
  | cons f fs ih =>
    intro s h
    have hf : f.ep = e := h f (List.mem_cons_self ..)
    simp only [run, runLocal]
    rw [ih _ (fun g hg => h g (List.mem_cons_of_mem _ hg)), step_snd, ← hf, step_fst_same]

/-- C05: any interleaving.  If the frames of endpoint `e` inside an arbitrary history `fs` (other
    endpoints may send anything) are the frames of the messages `Ms`, the packets delivered for
    `e` are exactly `Ms`' packets, in order, each once -/
theorem C05_interleaved (e : Ep) (Ms : List SegMsg) (hwf : ∀ M ∈ Ms, M.WF ∧ M.body.length ≤ 65535 ∧ M.ep = e)
    (fs : List PFrame) (s : DecState)
    (hproj : fs.filter (fun f => f.ep = e) = Ms.flatMap SegMsg.frames) :
    ((runT s fs).2.filter (fun x => x.1 = e)).map (·.2) = Ms.map SegMsg.expected := by
  rw [(run_filter e fs s s rfl).1, hproj, (runT_untag s _).2]
  have hep : ∀ f ∈ Ms.flatMap SegMsg.frames, f.ep = e := by
    intro f hf
    rw [← hproj] at hf
    simpa using (List.mem_filter.mp hf).2
  rw [run_single_ep e _ s hep]
  by_cases hne : Ms = []
  · subst hne; simp [runLocal]
  · rw [reassemble_many Ms (fun M hM => ⟨(hwf M hM).1, (hwf M hM).2.1⟩) (s e) hne]

/-- the counter wrap is inside the quantifier: a message whose first segment has counter 65535 -/
example : ((65535 + 1) % 65536 = 0) := by decide

end AsamCmp
