/-
  Source-level C15: the TECMP decoding path — `TECMP::Decoder::Decode`, `GetHeader`, `HandlePayload`, `GetDataPayload`,
  `GetCanPayload`, `GetLinPayload`, `GetCaptureModulePayload`, `GetInterfacePayload` (with its loop), `ConvertPacketsToAsam`
  (src/tecmp_decoder.cpp) and `TECMP::Converter` (src/tecmp_converter.cpp, all eight functions), with the `TECMP::Payload`
  constructors, `PayloadType`, `CanPayload::getCrc`, `CaptureModulePayload::getHwVersion / getSwVersion` and the ASAM payload objects
  the converter builds — is translated from the typed clang AST on every run (GeneratedSrcTecmp.lean, vlib/srctecmp.py).
  The theorems say that this translation, on ANY buffer `b` at a non-null address of ANY memory, is DEFINED (no undefined behaviour,
  in particular no read outside `b`) and returns exactly the packets of the TECMP model `tecmpDecode` (Tecmp.lean) that C15, C02
  and C19 are about.
-/
import AsamCmp.Lemmas.SrcTecmpDecode
import AsamCmp.Props.SrcDecoder
set_option linter.unusedSimpArgs false
set_option linter.unusedVariables false
namespace AsamCmp.SrcTec
open AsamCmp AsamCmp.Src AsamCmp.SrcGen AsamCmp.SrcTie

/-! ## the branches -/

/-- `GetHeader`: too short / declared length 0 / declared payload not inside the buffer → a default (invalid) header and a null
    payload pointer; otherwise the first 28 bytes and the address behind them -/
theorem getHeader_src (pre b post : Bytes) (hmem : (pre ++ b ++ post).length < 2 ^ 64) :
    TECMP_Decoder_GetHeader_obj (pre ++ b ++ post) pre.length b.length =
      some (if b.length < 28 ∨ beAt b 24 2 = 0 ∨ b.length < 28 + beAt b 24 2 then (hdrDefault, 0)
            else (b.take 28, pre.length + 28)) :=
  getHeader_spec pre b post hmem

/-- `GetCanPayload`: null unless the 5 header bytes and the declared data bytes are there; then the object holds ALL of `p` -/
theorem canPayload_src (pre p post : Bytes) (hmem : (pre ++ p ++ post).length < 2 ^ 64) :
    TECMP_Decoder_GetCanPayload_obj (pre ++ p ++ post) pre.length p.length =
      some (if p.length < 5 ∨ p.length - 5 < byteAt p 4 then none else some ⟨p, 0x0302⟩) :=
  getCanPayload_src pre p post hmem

theorem linPayload_src (pre p post : Bytes) (hmem : (pre ++ p ++ post).length < 2 ^ 64) :
    TECMP_Decoder_GetLinPayload_obj (pre ++ p ++ post) pre.length p.length =
      some (if p.length < 2 ∨ p.length - 2 < byteAt p 1 then none else some ⟨p, 0x0304⟩) :=
  getLinPayload_src pre p post hmem

/-- `GetCaptureModulePayload`: null unless the serial number and version fields (bytes 8..17) are there AND the vendor data the
    generic part declares (u16 @4, big-endian; it starts behind the 12 generic bytes) lies inside the payload -/
theorem cmPayload_src (pre p post : Bytes) (hmem : (pre ++ p ++ post).length < 2 ^ 64) :
    TECMP_Decoder_GetCaptureModulePayload_obj (pre ++ p ++ post) pre.length p.length =
      some (if p.length < 18 ∨ p.length - 12 < beAt p 4 2 then none else some ⟨p, 0x0100⟩) :=
  getCmPayload_src pre p post hmem

/-- `GetInterfacePayload`: one 28-byte object per COMPLETE entry behind the 12 generic bytes — an entry is 12 bytes followed by the
    vendor data whose length the generic part declares (u16 @4, big-endian) — holding the generic bytes, the entry's first 12
    bytes and four zero bytes, for any sufficient fuel.  `hmem`: the loop adds the entry size to the running offset in `size_t`;
    the sum cannot wrap exactly when payload size + 12 + declared vendor data length stays below 2^64. -/
theorem busPayload_src (pre p post H : Bytes) (fuel : Nat) (hmem : p.length + 12 + beAt p 4 2 < 2 ^ 64) (hH : 28 ≤ H.length)
    (hmt : byteAt H 5 = 2) (hf : p.length / 12 + 1 ≤ fuel) :
    TECMP_Decoder_GetInterfacePayload_obj fuel (pre ++ p ++ post) pre.length p.length H =
      some (if p.length < 12 then [] else busPl p (beAt p 4 2) (p.length / 12 + 1) 12) :=
  getInterfacePayload_src pre p post H fuel hmem hH hmt hf

/-- `HandlePayload`: the list of payload objects by message type (and data type) of the header -/
theorem handlePayload_src' (pre p post H : Bytes) (fuel : Nat) (hmem : (pre ++ p ++ post).length < 2 ^ 64)
    (hp12 : byteAt H 5 = 2 → p.length + 12 + beAt p 4 2 < 2 ^ 64) (hH : 28 ≤ H.length) (hf : p.length / 12 + 1 ≤ fuel) :
    TECMP_Decoder_HandlePayload_obj fuel (pre ++ p ++ post) pre.length p.length H = some (handleR H p) :=
  handlePayload_src pre p post H fuel hmem hp12 hH hf

/-- `ConvertCanPayload` (and `ConvertCanFdPayload` behind it): CAN-FD exactly when the length byte exceeds 8; the id word is the
    arbitration id, the data is copied, the crc word holds the three little-endian bytes behind the data (0 when absent) — all 24
    bits for CAN-FD, the low 16 for CAN -/
theorem convertCan_src' (H p : Bytes) (ty : Nat) (hH : 28 ≤ H.length) (h64 : p.length < 2 ^ 64) (h5 : 5 ≤ p.length)
    (hd : byteAt p 4 ≤ p.length - 5) :
    TECMP_Converter_ConvertCanPayload_obj H (some ⟨p, ty⟩) = some (some (tpkt H (beAt H 12 4) (some (canPl p)))) := by
  rw [convertCan_src H p ty hH h64 h5 hd]; unfold canPl; rfl

theorem convertLin_src' (H p : Bytes) (ty : Nat) (hH : 28 ≤ H.length) (h64 : p.length < 2 ^ 64) (h2 : 2 ≤ p.length)
    (hd : byteAt p 1 ≤ p.length - 2) :
    TECMP_Converter_convertLinPayload_obj H (some ⟨p, ty⟩) = some (some (tpkt H (beAt H 12 4) (some (tyLin, linObjOf p)))) :=
  convertLin_src H p ty hH h64 h2 hd

theorem convertCm_src' (H p : Bytes) (ty : Nat) (hH : 28 ≤ H.length) (h18 : 18 ≤ p.length) :
    TECMP_Converter_ConvertCaptureModulePayload_obj H (some ⟨p, ty⟩) =
      some (some (tpkt H (beAt H 12 4) (some (tyCm, cmObjOf p)))) :=
  convertCm_src H p ty hH h18

theorem convertIf_src' (H q : Bytes) (ty : Nat) (hH : 28 ≤ H.length) (h24 : 24 ≤ q.length) :
    TECMP_Converter_ConvertInterfacePayload_obj H (some ⟨q, ty⟩) =
      some (some (tpkt H (beAt q 12 4) (some (tyIf, ifObjOf q)))) :=
  convertIf_src H q ty hH h24

/-- a null payload pointer handed to a converter is dereferenced: undefined behaviour (the decoder never does it) -/
theorem convert_null (H : Bytes) (hH : 28 ≤ H.length) :
    TECMP_Converter_ConvertCanPayload_obj H none = none ∧ TECMP_Converter_convertLinPayload_obj H none = none ∧
    TECMP_Converter_ConvertCaptureModulePayload_obj H none = none ∧ TECMP_Converter_ConvertInterfacePayload_obj H none = none := by
  refine ⟨?_, ?_, ?_, ?_⟩
  · simp only [TECMP_Converter_ConvertCanPayload_obj, getPackage_src H hH, bind, pure, some_bind, none_bind]
  · simp only [TECMP_Converter_convertLinPayload_obj, getPackage_src H hH, linCtor_src, bind, pure, some_bind, none_bind]
  · simp only [TECMP_Converter_ConvertCaptureModulePayload_obj, getPackage_src H hH, cmCtor_src, bind, pure, some_bind, none_bind]
  · simp only [TECMP_Converter_ConvertInterfacePayload_obj, getPackage_src H hH, ifCtor_src, bind, pure, some_bind, none_bind]

/-! ## the whole decoder -/

/-- `TECMP::Decoder::Decode` on the buffer `b` at the non-null address `pre.length` of any memory that fits the address space:
    defined, and exactly the model's packets (every returned pointer non-null).  In particular everything behind the 28-byte header
    (`b.drop 28`, not the declared `plen` bytes) is handed to the payload parsers.  No hypothesis on the CONTENT of `b`.
    (`hpre` is not used by the proof — in the flat memory of `Src/Sem.lean` address 0 is an ordinary index and `Decode` itself
    never tests `data` — it is kept so that the statement claims nothing about a null `data`; `hf`: any fuel ≥ `b.length`, the
    bus loop needs `(b.length - 28) / 12 + 1`.  `hsz`, new with the per-entry vendor data: the bus-status loop tests
    `busDataOffset + entrySize <= size` in `size_t`, `entrySize = 12 + vendorDataLength` (u16 @32 of the buffer); for a bus-status
    message the sum stays below 2^64 — the test means what it says — exactly when payload size (`b.length - 28`) + 12 + the
    declared vendor data length does.  Every buffer of less than 2^64 − 2^16 bytes satisfies it: `tecmpDecode_src_small`.) -/
theorem tecmpDecode_src (pre b post : Bytes) (fuel : Nat) (hpre : 0 < pre.length)
    (hmem : (pre ++ b ++ post).length < 2 ^ 64) (hf : b.length ≤ fuel)
    (hsz : byteAt b 5 = 2 → b.length - 16 + beAt b 32 2 < 2 ^ 64) :
    TECMP_Decoder_Decode_obj fuel (pre ++ b ++ post) pre.length b.length =
      some ((tecmpDecode b).map fun p => some (tRepr p)) := by
  have hb := mem_lt pre b post hmem
  unfold TECMP_Decoder_Decode_obj
  simp only [getHeader_spec pre b post hmem, bind, pure, some_bind]
  by_cases hrej : hdrRej b
  · simp only [hrej, if_true, hdrDefault_invalid, some_bind, Bool.not_false, Bool.true_or, tecmpDecode_rej b hrej, List.map_nil]
  · have h28 : 28 ≤ b.length := by unfold hdrRej at hrej; omega
    have hH : 28 ≤ (b.take 28).length := by simp only [List.length_take]; omega
    have hval := (tecmp_header_src (b.take 28) hH).1
    rw [byteAt_take b 28 5 (by omega), byteAt_take b 28 6 (by omega), byteAt_take b 28 7 (by omega)] at hval
    have hp0 : (pre.length + 28 == 0) = false := by simp
    simp only [hrej, if_false, hval, some_bind, hp0, Bool.or_false, Bool.not_not]
    by_cases hv : byteAt b 5 = 0xFF ∨ (byteAt b 6 = 0xFF ∧ byteAt b 7 = 0)
    · have hd : (decide (byteAt b 5 = 255) || decide (byteAt b 6 = 255) && decide (byteAt b 7 = 0)) = true := by simpa using hv
      simp only [hd, if_true, tecmpDecode_invalid b hv, List.map_nil]
    · have hd : (decide (byteAt b 5 = 255) || decide (byteAt b 6 = 255) && decide (byteAt b 7 = 0)) = false := by
        simpa [not_or] using hv
      have hM : pre ++ b ++ post = (pre ++ b.take 28) ++ b.drop 28 ++ post := by
        simp only [List.append_assoc, List.take_append_drop]
      have hL : pre.length + 28 = (pre ++ b.take 28).length := by simp only [List.length_append, List.length_take]; omega
      have hS : usub 64 b.length 28 = (b.drop 28).length := by rw [usub_eq _ _ h28 hb, List.length_drop]
      have hlen : (pre ++ b ++ post).length = pre.length + b.length + post.length := by simp only [List.length_append]
      have hpl : (b.drop 28).length = b.length - 28 := List.length_drop
      have hh := handlePayload_src (pre ++ b.take 28) (b.drop 28) post (b.take 28) fuel (by rw [← hM]; exact hmem)
        (by intro h2
            rw [byteAt_take b 28 5 (by omega)] at h2
            have := hsz h2
            rw [beAt_drop, hpl, show 28 + 4 = 32 from rfl]; omega) hH (by omega)
      rw [← hM, ← hL, ← hS] at hh
      simp only [hd, Bool.false_eq_true, if_false, hh, some_bind]
      have hconv := convertPackets_src (b.take 28) (convF b) _ (convert_all b h28 (by omega))
      rw [tecmpDecode_shape b hrej hv]
      cases hl : handleR (b.take 28) (b.drop 28) with
      | nil => simp only [List.isEmpty_nil, if_true, List.map_nil]
      | cons x xs =>
        rw [hl] at hconv
        simp only [List.isEmpty_cons, Bool.false_eq_true, if_false, hconv, some_bind]

/-- the size hypothesis of `tecmpDecode_src` holds for every buffer that ends at least 2^16 bytes below the top of the address
    space, whatever it contains -/
theorem tecmpDecode_src_small (pre b post : Bytes) (fuel : Nat) (hpre : 0 < pre.length)
    (hmem : (pre ++ b ++ post).length < 2 ^ 64) (hf : b.length ≤ fuel) (hsz : b.length + 2 ^ 16 ≤ 2 ^ 64) :
    TECMP_Decoder_Decode_obj fuel (pre ++ b ++ post) pre.length b.length =
      some ((tecmpDecode b).map fun p => some (tRepr p)) :=
  tecmpDecode_src pre b post fuel hpre hmem hf (fun _ => by have := C03.beAt_lt b 32 2; omega)

/-- a CAN-FD message: 28 header bytes (device 7, message type 3, data type 3, interface id 0x11223344, declared length 5),
    arbitration id, length byte 12, 12 data bytes, 3 crc bytes, one trailing byte -/
def exCanFd : Bytes :=
  [0, 7, 0, 9, 3, 3, 0, 3, 0, 0, 0, 0, 0x11, 0x22, 0x33, 0x44, 1, 2, 3, 4, 5, 6, 7, 8, 0, 5, 0, 0,
   0x9A, 0xBC, 0xDE, 0xF1, 12, 1, 2, 3, 4, 5, 6, 7, 8, 9, 10, 11, 12, 0xAA, 0xBB, 0xCC, 4]

/-- a bus status message: header (message type 2), 12 generic bytes (declaring no vendor data), two complete entries and a
    partial third -/
def exBus : Bytes :=
  [0, 7, 0, 9, 3, 2, 0, 0, 0, 0, 0, 0, 0x11, 0x22, 0x33, 0x44, 1, 2, 3, 4, 5, 6, 7, 8, 0, 5, 0, 0] ++
    [1, 1, 1, 1, 0, 0, 1, 1, 1, 1, 1, 1] ++ List.replicate 12 2 ++ List.replicate 12 3 ++ List.replicate 7 4

/-- a bus status message whose generic part declares 4 vendor bytes per entry: three entries of 16 bytes (interfaces 0x0A, 0x0B,
    0x0C) and 15 bytes of an incomplete fourth -/
def exBusV : Bytes :=
  [0, 7, 0, 9, 3, 2, 0, 0, 0, 0, 0, 0, 0x11, 0x22, 0x33, 0x44, 1, 2, 3, 4, 5, 6, 7, 8, 0, 5, 0, 0] ++
    [0x0C, 1, 2, 0, 0, 4, 0, 7, 0, 0, 0, 99] ++
    [0, 0, 0, 0x0A, 0, 0, 0, 100, 0, 0, 0, 1, 1, 200, 0, 5] ++ [0, 0, 0, 0x0B, 0, 0, 0, 200, 0, 0, 0, 2, 1, 201, 0, 6] ++
    [0, 0, 0, 0x0C, 0, 0, 1, 44, 0, 0, 0, 3, 1, 202, 0, 7] ++ List.replicate 15 9

/-- the hypotheses of the main theorem are satisfiable on non-trivial buffers, and the model's answer there is not empty -/
example : TECMP_Decoder_Decode_obj 49 ([9] ++ exCanFd ++ [5, 5]) 1 49 = some ((tecmpDecode exCanFd).map fun p => some (tRepr p)) :=
  tecmpDecode_src [9] exCanFd [5, 5] 49 (by decide) (by decide) (by decide) (by decide)
example : (tecmpDecode exCanFd).map (fun p => (p.payload.map (·.ty), p.deviceId, p.ifId)) = [(some tyCanFd, 7, 0x11223344)] := by decide
example : TECMP_Decoder_Decode_obj 100 ([9] ++ exBus ++ []) 1 71 = some ((tecmpDecode exBus).map fun p => some (tRepr p)) :=
  tecmpDecode_src [9] exBus [] 100 (by decide) (by decide) (by decide) (by decide)
example : (tecmpDecode exBus).map (fun p => (p.payload.map (·.ty), p.ifId)) = [(some tyIf, 0x02020202), (some tyIf, 0x03030303)] := by
  decide
example : TECMP_Decoder_Decode_obj 120 ([9] ++ exBusV ++ [7]) 1 103 = some ((tecmpDecode exBusV).map fun p => some (tRepr p)) :=
  tecmpDecode_src [9] exBusV [7] 120 (by decide) (by decide) (by decide) (by decide)
/-- three entries of 12 + 4 bytes: exactly three packets, interface ids and counters from each entry's first 12 bytes -/
example : (tecmpDecode exBusV).map (fun p => (p.payload.map (·.ty), p.ifId,
      p.payload.map fun pl => (beAt pl.data 0 4, beAt pl.data 4 4, beAt pl.data 20 4))) =
    [(some tyIf, 0x0A, some (0x0A, 100, 1)), (some tyIf, 0x0B, some (0x0B, 200, 2)), (some tyIf, 0x0C, some (0x0C, 300, 3))] := by
  decide
/-- … and of the branch theorems -/
example : TECMP_Converter_ConvertCanPayload_obj (exCanFd.take 28) (some ⟨exCanFd.drop 28, 0x0302⟩) =
    some (some (tpkt (exCanFd.take 28) (beAt (exCanFd.take 28) 12 4) (some (canPl (exCanFd.drop 28))))) :=
  convertCan_src' _ _ _ (by decide) (by decide) (by decide) (by decide)
example : TECMP_Decoder_GetInterfacePayload_obj 5 ([9] ++ exBus.drop 28 ++ []) 1 43 (exBus.take 28) =
    some (if (exBus.drop 28).length < 12 then [] else
      busPl (exBus.drop 28) (beAt (exBus.drop 28) 4 2) ((exBus.drop 28).length / 12 + 1) 12) :=
  busPayload_src [9] (exBus.drop 28) [] (exBus.take 28) 5 (by decide) (by decide) (by decide) (by decide)
example : TECMP_Decoder_GetInterfacePayload_obj 8 ([9] ++ exBusV.drop 28 ++ [7]) 1 75 (exBusV.take 28) =
    some (if (exBusV.drop 28).length < 12 then [] else
      busPl (exBusV.drop 28) (beAt (exBusV.drop 28) 4 2) ((exBusV.drop 28).length / 12 + 1) 12) :=
  busPayload_src [9] (exBusV.drop 28) [7] (exBusV.take 28) 8 (by decide) (by decide) (by decide) (by decide)
example : beAt (exBusV.drop 28) 4 2 = 4 ∧ (busPl (exBusV.drop 28) 4 7 12).length = 3 := by decide

/-! ## the TECMP decoder as the parameter `ext_Decode` of the translated `Decoder::decode`

  `Decoder_decode_obj` (GeneratedSrcObj.lean) takes the TECMP decoder as a parameter `ext_Decode : Bytes → Nat → Nat → List F` for
  ANY packet representation `F` and returns a list of `PktOut ⊕ F`: packets of the CMP path (`std::make_shared<Packet>(type, data,
  size)` read back by `Packet.ofMsg`) on the left, the TECMP decoder's packets — built by setters, not representable as `PktOut`
  in general — on the right.  The instance the TRANSLATION provides is `tecmpExt`; the theorem covering `Decoder::decode` on every
  buffer with it plugged in is `SrcDec.decode_total_src` (Props/SrcDecoderTotal.lean). -/

/-- a packet of the translated source read as a packet of the model (inverse of `tRepr`) -/
def tAbs (t : TPacket_St) : Packet :=
  { payload := t.payload.map fun x => ⟨x.1, x.2⟩, version := t.hdr.f_version, deviceId := t.hdr.f_deviceId,
    streamId := t.hdr.f_streamId, seq := t.hdr.f_sequenceCounter, ts := t.hdr.f_timestamp, ifId := t.hdr.f_interfaceId,
    vendorId := t.hdr.f_vendorId, flags := t.hdr.f_commonFlags, segType := t.hdr.f_segmentType }

theorem tAbs_tRepr (p : Packet) : tAbs (tRepr p) = p := by
  cases p with
  | mk payload version deviceId streamId seq ts ifId vendorId flags segType =>
    cases payload <;> rfl

/-- the translated `TECMP::Decoder::Decode` as a TOTAL function into lists of packets, as `Decoder_decode_obj` wants it: `none` of
    the monad (undefined behaviour — never taken, see `tecmpDecode_src`) becomes the empty list, null pointers in the returned
    vector (never produced) are dropped -/
def tecmpExt (fuel : Nat) (m : Bytes) (data size : Nat) : List TPacket_St :=
  ((TECMP_Decoder_Decode_obj fuel m data size).getD []).filterMap id

/-- on every buffer the instance is exactly the representation of the model's packets -/
theorem tecmpExt_src (pre b post : Bytes) (fuel : Nat) (hpre : 0 < pre.length)
    (hmem : (pre ++ b ++ post).length < 2 ^ 64) (hf : b.length ≤ fuel)
    (hsz : byteAt b 5 = 2 → b.length - 16 + beAt b 32 2 < 2 ^ 64) :
    tecmpExt fuel (pre ++ b ++ post) pre.length b.length = (tecmpDecode b).map tRepr := by
  unfold tecmpExt
  rw [tecmpDecode_src pre b post fuel hpre hmem hf hsz, Option.getD_some, List.filterMap_map]
  simp [Function.comp_def]

def extOfTranslation (fuel : Nat) (m : Bytes) (data size : Nat) : List Packet := (tecmpExt fuel m data size).map tAbs

/-- the instance of `ext_Decode` the translation provides, read as model packets, IS the model's TECMP decoder -/
theorem ext_of_translation (pre b post : Bytes) (fuel : Nat) (hpre : 0 < pre.length)
    (hmem : (pre ++ b ++ post).length < 2 ^ 64) (hf : b.length ≤ fuel)
    (hsz : byteAt b 5 = 2 → b.length - 16 + beAt b 32 2 < 2 ^ 64) :
    extOfTranslation fuel (pre ++ b ++ post) pre.length b.length = tecmpDecode b := by
  unfold extOfTranslation
  rw [tecmpExt_src pre b post fuel hpre hmem hf hsz, List.map_map]
  simp [Function.comp_def, tAbs_tRepr]

/-- composition with `SrcDec.decode_other_src`: the translated `Decoder::decode` with the translated TECMP decoder plugged in, on a
    TECMP buffer (first byte 0): the state is left alone and the returned packets — right summands only — are, through `tAbs`,
    the model's `tecmpDecode b`; `g` (the reading of left summands) is arbitrary because there are none -/
theorem decode_tecmp_src (s : Decoder_St) (pre b post : Bytes) (fuel : Nat) (g : PktOut → Packet)
    (hpre : 0 < pre.length) (h8 : 8 ≤ b.length) (h0 : byteAt b 0 = 0)
    (hmem : (pre ++ b ++ post).length < 2 ^ 64) (hf : b.length ≤ fuel)
    (hsz : byteAt b 5 = 2 → b.length - 16 + beAt b 32 2 < 2 ^ 64) :
    Decoder_decode_obj fuel s (pre ++ b ++ post) pre.length b.length (tecmpExt fuel) =
        some (s, ((tecmpDecode b).map tRepr).map Sum.inr) ∧
      (((tecmpDecode b).map tRepr).map (Sum.inr : TPacket_St → PktOut ⊕ TPacket_St)).map (Sum.elim g tAbs) = tecmpDecode b := by
  have hb0 : byteAt (pre ++ b ++ post) pre.length = 0 := by
    have := leAt_mid pre b post 0 1 (by omega)
    rw [leAt_one, leAt_one] at this
    simpa [h0] using this
  constructor
  · rw [(SrcDec.decode_other_src s (pre ++ b ++ post) pre.length b.length fuel (tecmpExt fuel)).2.2 hpre h8
      (by simp only [List.length_append]; omega) hb0, tecmpExt_src pre b post fuel hpre hmem hf hsz]
  · simp [List.map_map, Function.comp_def, tAbs_tRepr]

end AsamCmp.SrcTec
