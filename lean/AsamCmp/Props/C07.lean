/-
  C07  Every encoded frame is well-formed and within the configured size bounds.
  C08  Segmentation and aggregation follow the protocol rules.

  Domain: every batch of packets with a payload of 1..65535 bytes (C07/C08 put no condition on
  message types or versions; zero-length payloads are covered too: they emit nothing) and every
  configuration with 25 ≤ max and min ≤ max.
-/
import AsamCmp.Tile
import AsamCmp.Lemmas.TileBytes
import AsamCmp.Lemmas.EncStruct
namespace AsamCmp

/-- the packets of the domain: a payload is present and shorter than 2^16 -/
def Packet.Enc (p : Packet) : Prop := p.payload.isSome ∧ p.data.length < 65536

/-! ### glue -/

theorem raw_length (f : EFrame) :
    (frameHeader f.ver f.dev f.mt f.stream f.seq ++ f.msgs.flatMap EMsg.bytes).length = 8 + f.used := by
  rw [List.length_append, frameHeader_length, flatMap_bytes_length]; rfl

theorem Ctx.ok_cap {c : Ctx} (hc : c.ok = true) : 17 ≤ c.cap ∧ c.cap + 8 = c.max ∧ c.min ≤ c.max := by
  simp only [Ctx.ok, Bool.and_eq_true, decide_eq_true_eq] at hc
  unfold Ctx.cap
  omega

theorem Packet.Enc.plen {p : Packet} (h : p.Enc) : p.payloadLength = p.data.length := by
  rw [payloadLength_eq]; exact Nat.mod_eq_of_lt h.2

theorem encode_nil (e : Enc) (c : Ctx) :
    (e.encode [] c).2 = [] ∧ (e.encode [] c).1.seqc = e.seqc := by
  simp [Enc.encode, Enc.closeLast]

theorem bytes_length (min : Nat) (f : EFrame) :
    (EFrame.bytes min f).length = max (8 + f.used) min := by
  simp only [EFrame.bytes]
  rw [List.length_append, raw_length, zeros_length]
  omega

/-- the messages of the frames of an `encode` call are messages the tiler can walk -/
theorem encode_msgs_ok (e : Enc) (batch : List Packet) (c : Ctx) (hc : c.ok = true) :
    ∀ f ∈ (e.encode batch c).2, ∀ m ∈ f.msgs,
      1 ≤ m.body.length ∧ m.body.length < 65536 ∧ (m.seg = 0 ∨ m.seg = 4 ∨ m.seg = 8 ∨ m.seg = 12) := by
  intro f hf m hm
  have hcap := (Ctx.ok_cap hc).1
  have hall := (encode_spec e batch c hcap).2.1
  have : m ∈ (e.encode batch c).2.flatMap (·.msgs) := List.mem_flatMap.mpr ⟨f, hf, hm⟩
  rw [hall] at this
  obtain ⟨ip, _, hip⟩ := List.mem_flatMap.mp this
  have := pieces_mem c hcap _ _ m hip
  exact ⟨this.2.1, this.2.2.1, this.2.2.2.2.1⟩

/-- the frame-local clauses of `P_C07` -/
theorem shape_wf {c : Ctx} (hc : c.ok = true) {f : EFrame} (hf : FrameOk c f) (hne : f.msgs ≠ []) :
    (decide (c.min ≤ (EFrame.shape c.min f).len) && decide ((EFrame.shape c.min f).len ≤ c.max) &&
      !(EFrame.shape c.min f).msgs.isEmpty &&
      decide ((EFrame.shape c.min f).len = 8 + (EFrame.shape c.min f).used + (EFrame.shape c.min f).pad) &&
      ((EFrame.shape c.min f).pad == 0 || (EFrame.shape c.min f).len == c.min)) = true := by
  obtain ⟨_, h2, h3⟩ := Ctx.ok_cap hc
  have hu := hf.used
  have e1 : (EFrame.shape c.min f).len = max (8 + f.used) c.min := rfl
  have e2 : (EFrame.shape c.min f).pad = c.min - (8 + f.used) := rfl
  have e3 := shape_used c.min f
  have b1 : decide (c.min ≤ (EFrame.shape c.min f).len) = true := decide_eq_true (by omega)
  have b2 : decide ((EFrame.shape c.min f).len ≤ c.max) = true := decide_eq_true (by omega)
  have b3 : (!(EFrame.shape c.min f).msgs.isEmpty) = true := by simp [EFrame.shape, hne]
  have b4 : decide ((EFrame.shape c.min f).len = 8 + (EFrame.shape c.min f).used + (EFrame.shape c.min f).pad) = true :=
    decide_eq_true (by omega)
  have b5 : ((EFrame.shape c.min f).pad == 0 || (EFrame.shape c.min f).len == c.min) = true := by
    rw [Bool.or_eq_true, beq_iff_eq, beq_iff_eq]; omega
  rw [b1, b2, b3, b4, b5]
  rfl

/-- bridging lemma: the independent tiler, run on the serialised bytes of a frame the encoder can
    build, finds exactly the frame's shape.  (Frames of an encode call hold ≥ 1 message, every
    message body has 1..65535 bytes, and the frame is not longer than 2^16 + 24.) -/
theorem tile_bytes (min : Nat) (f : EFrame)
    (hmsgs : ∀ m ∈ f.msgs, 1 ≤ m.body.length ∧ m.body.length < 65536 ∧ (m.seg = 0 ∨ m.seg = 4 ∨ m.seg = 8 ∨ m.seg = 12)) :
    tileFrame (EFrame.bytes min f) = some (EFrame.shape min f) := by
  have hl := bytes_length min f
  unfold tileFrame
  rw [if_neg (by omega)]
  have hd : (EFrame.bytes min f).drop 8 = f.msgs.flatMap EMsg.bytes ++ zeros (min - (8 + f.used)) := by
    simp only [EFrame.bytes]
    rw [raw_length, List.append_assoc, List.drop_left' (frameHeader_length ..)]
  have hfuel : f.msgs.length < (EFrame.bytes min f).length + 1 := by
    have : f.msgs.length ≤ f.used := by
      unfold EFrame.used
      generalize f.msgs = l
      induction l with
      | nil => simp
      | cons m ms ih => simp [EMsg.size]; omega
    omega
  rw [hd, tileMsgs_bytes f.msgs _ hmsgs _ hfuel]
  have hmt : byteAt (EFrame.bytes min f) 4 = f.mt % 256 := by
    simp only [EFrame.bytes]
    rw [List.append_assoc, frameHeader_mt]
  simp only [hmt, hl, EFrame.shape]

/-- C07 on the model, for every encoder state, batch and configuration of the domain -/
theorem C07_frames_wf (e : Enc) (batch : List Packet) (c : Ctx) (hc : c.ok = true)
    (hb : ∀ p ∈ batch, p.Enc) :
    P_C07 c (batch.map Packet.data) ((e.encode batch c).2.map (EFrame.shape c.min)) = true := by
  obtain ⟨hcap, _, _⟩ := Ctx.ok_cap hc
  obtain ⟨hok, hall, _⟩ := encode_spec e batch c hcap
  have hlen : ∀ ip ∈ (List.range batch.length).zip batch, ip.2.data.length < 65536 := by
    intro ip hip
    have : ip.2 ∈ batch := by
      rw [← zip_snd batch]; exact List.mem_map_of_mem hip
    exact (hb _ this).2
  unfold P_C07
  simp only [Bool.and_eq_true]
  refine ⟨⟨?_, ?_⟩, ?_⟩
  · rw [List.all_eq_true]
    intro g hg
    obtain ⟨f, hf, rfl⟩ := List.mem_map.mp hg
    exact shape_wf hc (hok f hf).1 (hok f hf).2
  · rw [beq_iff_eq, shape_flatMap c.min (fun _ b => b), hall, pieces_bodies c hcap _ hlen, zip_snd]
  · cases batch with
    | nil => simp [(encode_nil e c).1]
    | cons p ps => simp

/-- C08 on the model (payloads of at least one byte, as in the property's domain: a zero-length
    payload emits no message but may still open a frame of its own message type) -/
theorem C08_seg_rules (e : Enc) (batch : List Packet) (c : Ctx) (hc : c.ok = true)
    (hb : ∀ p ∈ batch, p.Enc ∧ 1 ≤ p.data.length) :
    P_C08 c (batch.map fun p => (p.mt, p.data.length)) ((e.encode batch c).2.map (EFrame.shape c.min)) = true := by
  obtain ⟨hcap, _, _⟩ := Ctx.ok_cap hc
  obtain ⟨hok, hall, hgr⟩ := encode_spec e batch c hcap
  have hlen : ∀ ip ∈ (List.range batch.length).zip batch, ip.2.data.length < 65536 := by
    intro ip hip
    have : ip.2 ∈ batch := by
      rw [← zip_snd batch]; exact List.mem_map_of_mem hip
    exact (hb _ this).1.2
  have hgr' : GreedyE c (e.encode batch c).2 := by
    apply hgr
    intro p hp
    rw [(hb p hp).1.plen]
    exact (hb p hp).2
  unfold P_C08
  simp only [Bool.and_eq_true]
  refine ⟨⟨⟨⟨?_, ?_⟩, ?_⟩, ?_⟩, ?_⟩
  · rw [beq_iff_eq, shape_flatMap c.min (fun s b => (s, b.length)), hall, pieces_shapes c hcap _ hlen, zip_snd]
  · rw [List.all_eq_true]
    intro g hg
    obtain ⟨f, hf, rfl⟩ := List.mem_map.mp hg
    rcases (hok f hf).1.alone with h | h
    · simp [EFrame.shape, List.all_map, Function.comp_def]
      exact Or.inl h
    · simp [EFrame.shape, h]
  · rw [beq_iff_eq, shape_mts c.min _ (fun f hf => (hok f hf).1), hall, pieces_mts c hcap _ hlen, zip_snd]
  · rw [List.all_eq_true]
    intro g hg
    obtain ⟨f, hf, rfl⟩ := List.mem_map.mp hg
    rw [shape_used]
    exact decide_eq_true (hok f hf).1.used
  · exact greedyOk_of c c.min _ (fun f hf => (hok f hf).1.mtlt) hgr'

/-- the same two statements on bytes: tiling the serialised frames succeeds and the predicates hold -/
theorem C07_C08_bytes (e : Enc) (batch : List Packet) (c : Ctx) (hc : c.ok = true)
    (hb : ∀ p ∈ batch, p.Enc ∧ 1 ≤ p.data.length) :
    ∃ fs, tileFrames ((e.encode batch c).2.map (EFrame.bytes c.min)) = some fs ∧
      P_C07 c (batch.map Packet.data) fs = true ∧
      P_C08 c (batch.map fun p => (p.mt, p.data.length)) fs = true := by
  refine ⟨(e.encode batch c).2.map (EFrame.shape c.min), ?_,
    C07_frames_wf e batch c hc (fun p hp => (hb p hp).1), C08_seg_rules e batch c hc hb⟩
  have hm := encode_msgs_ok e batch c hc
  generalize (e.encode batch c).2 = fs at hm
  induction fs with
  | nil => rfl
  | cons f fs ih =>
    simp only [List.map_cons, tileFrames]
    rw [tile_bytes c.min f (hm f (by simp)), ih (fun g hg => hm g (by simp [hg]))]

/-- every byte of a serialised frame is a header byte, a message header byte, a payload byte or a
    zero pad byte, and its length is max(8 + used, min) -/
theorem frame_length (min : Nat) (f : EFrame) :
    (EFrame.bytes min f).length = max (8 + f.used) min := by
  exact bytes_length min f

/-- the empty batch produces no frames and leaves the counter alone -/
theorem C07_empty (e : Enc) (c : Ctx) : (e.encode [] c).2 = [] ∧ (e.encode [] c).1.seqc = e.seqc := by
  exact encode_nil e c

end AsamCmp
