/-
  Source-level C11 / C12 (part D): every field accessor of the wire records named by the API glue, translated from /repo's source on
  every run into a bit program (GeneratedSrcFields.lean), passes the decidable check of Src/BitProg.lean against the protocol
  layout table (Layout.lean) — evaluated by the kernel (`decide +kernel`, no extra axioms) — and therefore (`classCheck_sound`)
  does, for EVERY memory content, object position and in-range value, exactly what the table says: defined (no undefined
  behaviour, no access outside the header bytes), a getter returns the field and changes nothing, a setter changes exactly the
  field's bits (`setField` of the layout model, about which C11 / C12 are proved).  `*_coverage`: every field of the class has a
  getter entry and a setter entry, except the listed exemptions.
-/
import AsamCmp.GeneratedSrcFields
import AsamCmp.Lemmas.FieldCheckSound
namespace AsamCmp.SrcFields
open AsamCmp AsamCmp.Src.Bit AsamCmp.SrcGen

theorem tecmpcan_checks : classCheck Layout.c_tecmpcan entries_tecmpcan = true := by decide +kernel
theorem tecmpcan_src : ∀ e ∈ entries_tecmpcan, ∃ f, Layout.c_tecmpcan.find e.field = some f ∧ e.acc.Holds Layout.c_tecmpcan.size f :=
  classCheck_sound _ _ tecmpcan_checks
theorem tecmpcan_coverage : coverageOk Layout.c_tecmpcan entries_tecmpcan [] = true := by decide +kernel

theorem tecmplin_checks : classCheck Layout.c_tecmplin entries_tecmplin = true := by decide +kernel
theorem tecmplin_src : ∀ e ∈ entries_tecmplin, ∃ f, Layout.c_tecmplin.find e.field = some f ∧ e.acc.Holds Layout.c_tecmplin.size f :=
  classCheck_sound _ _ tecmplin_checks
theorem tecmplin_coverage : coverageOk Layout.c_tecmplin entries_tecmplin [] = true := by decide +kernel

theorem tecmpif_checks : classCheck Layout.c_tecmpif entries_tecmpif = true := by decide +kernel
theorem tecmpif_src : ∀ e ∈ entries_tecmpif, ∃ f, Layout.c_tecmpif.find e.field = some f ∧ e.acc.Holds Layout.c_tecmpif.size f :=
  classCheck_sound _ _ tecmpif_checks
theorem tecmpif_coverage : coverageOk Layout.c_tecmpif entries_tecmpif [] = true := by decide +kernel

theorem tecmpcm_checks : classCheck Layout.c_tecmpcm entries_tecmpcm = true := by decide +kernel
theorem tecmpcm_src : ∀ e ∈ entries_tecmpcm, ∃ f, Layout.c_tecmpcm.find e.field = some f ∧ e.acc.Holds Layout.c_tecmpcm.size f :=
  classCheck_sound _ _ tecmpcm_checks
theorem tecmpcm_coverage : coverageOk Layout.c_tecmpcm entries_tecmpcm [] = true := by decide +kernel

end AsamCmp.SrcFields
