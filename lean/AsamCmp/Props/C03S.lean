/-
  C03S  strengthening of C03 (payloads accepted by validation expose only in-bounds data), closing the weaknesses an
  independent review of the C03 statements listed.  Nothing existing is changed; every theorem is about the existing
  definitions.  Sections (numbers = reviewer findings):

  4.  class coverage: `kinds_cover`, `validatorOf_isSome_iff`, `seven_validated`, `kindOfTy_none_iff`
  5.  no (null, n > 0) view: `null_only_with_len0`, `accessors_inbounds_strict`
  1.  the COMPLETE decoder entry point incl. the TECMP branch: `decode_validated`, `decode_accessors_inbounds`,
      `decodeAll_accessors_inbounds`, `tecmp_typed`
  2.  the constructor with bounds-checked reads: `ofMsgM_eq_some_iff`, `msgValid_ctor_inbounds`, `ofMsg_payload_inside`,
      `decode_built_inbounds` (reassembled path included), `decode_reads_inbounds`
  3.  fixed-field getters from the protocol table: `access_header_is_layout_size`, `fixed_getters_inbounds`,
      `short_rejected`
  5b. source level, raw pointers without `Nat` subtraction: `*_raw_src`, `src_pointers_inbounds`,
      `cm_vendorDataStringView_src`
  1b. source level end to end: `decode_src_accessors_inbounds`
  2b. translated constructor on accepted / reassembled buffers: `ctor_src_of_msgValid`, `ctor_src_of_reassembly`
  3b. `const_accessors_classified_partial` (text-level net over the reflected member functions)
  6.  non-vacuity: literal instances for every class and every decoder path

  No input was found on which the model violates the property's text.
-/
import AsamCmp.Access
import AsamCmp.Decoder
import AsamCmp.Tecmp
import AsamCmp.DecodeM
import AsamCmp.Layout
import AsamCmp.Lemmas.Access
import AsamCmp.Lemmas.TecmpWire
import AsamCmp.Lemmas.DecodeM
import AsamCmp.Props.C03
import AsamCmp.Props.C17b
import AsamCmp.Props.SrcAccess
import AsamCmp.GeneratedSrcSig
import AsamCmp.Props.SrcDecoderTotal
import AsamCmp.Props.SrcPacketValue
set_option linter.unusedSimpArgs false
namespace AsamCmp.C03S
open AsamCmp

/-! ## 4. class coverage -/

/-- the payload types `Packet::create` validates are exactly the seven typed ones -/
theorem validatorOf_isSome_iff (ty : Nat) :
    (validatorOf ty).isSome = true ↔ ty ∈ [tyCan, tyCanFd, tyLin, tyAnalog, tyEth, tyCm, tyIf] := by
  unfold validatorOf
  simp only [List.mem_cons, List.not_mem_nil, or_false]
  constructor
  · intro h
    repeat' split at h
    all_goals first | (simp at h; done) | (subst_vars; simp)
  · intro h
    rcases h with h | h | h | h | h | h | h <;> subst h <;> decide

theorem kinds_cover (ty : Nat) (v : Bytes → Bool) (hv : validatorOf ty = some v) :
    ∃ k a, kindOfTy ty = some k ∧ kindValid k = some v ∧ kindAccess k = some a := by
  unfold validatorOf at hv
  repeat' split at hv
  all_goals first
    | (cases hv; done)
    | (cases hv; subst_vars; exact ⟨_, _, rfl, rfl, rfl⟩)


/-- all seven typed payload types have a validator (so `kinds_cover` is about seven non-empty rows) -/
theorem seven_validated :
    [tyCan, tyCanFd, tyLin, tyAnalog, tyEth, tyCm, tyIf].all (fun t => (validatorOf t).isSome) = true ∧
    [tyCan, tyCanFd, tyLin, tyAnalog, tyEth, tyCm, tyIf].all (fun t => (kindOfTy t).isSome) = true ∧
    ["can", "canfd", "lin", "analog", "eth", "cm", "if"].all
      (fun k => (kindValid k).isSome && (kindAccess k).isSome) = true := by decide

/-- converse of `C03.validator_kind`: a type without kind has no validator (it is a generic payload) -/
theorem kindOfTy_none_iff (ty : Nat) : kindOfTy ty = none ↔ validatorOf ty = none := by
  unfold kindOfTy validatorOf
  repeat' split
  all_goals simp

/-! ## 5. null pointers: a reported null pointer comes with length 0 -/

theorem dataView_null (name : String) (off len : Nat) (h : (dataView name off len).off = none) :
    (dataView name off len).len = 0 := by
  unfold dataView at h ⊢
  by_cases h0 : len = 0
  · exact h0
  · simp [h0] at h

/-- every reported view with a null pointer has length 0 -/
def NullOk (o : Option (List View)) : Prop := ∀ vs, o = some vs → ∀ x ∈ vs, x.off = none → x.len = 0

theorem nullOk_bind {α : Type} (x : Option α) (f : α → Option (List View)) (h : ∀ a, NullOk (f a)) :
    NullOk (x >>= f) := by
  cases x with
  | none => intro vs hvs; cases hvs
  | some a => exact h a

theorem nullOk_pure (l : List View) (h : ∀ x ∈ l, x.off = none → x.len = 0) : NullOk (pure l) := by
  intro vs hvs; cases hvs; exact h

theorem can_null (b : Bytes) : NullOk (canAccess b) := by
  unfold canAccess
  refine nullOk_bind _ _ fun _ => nullOk_bind _ _ fun n => nullOk_pure _ ?_
  intro x hx
  simp only [List.mem_singleton] at hx
  subst hx
  exact dataView_null _ _ _

theorem lin_null (b : Bytes) : NullOk (linAccess b) := by
  unfold linAccess
  refine nullOk_bind _ _ fun _ => nullOk_bind _ _ fun n => nullOk_pure _ ?_
  intro x hx
  simp only [List.mem_singleton] at hx
  subst hx
  exact dataView_null _ _ _

theorem eth_null (b : Bytes) : NullOk (ethAccess b) := by
  unfold ethAccess
  refine nullOk_bind _ _ fun _ => nullOk_bind _ _ fun n => nullOk_pure _ ?_
  intro x hx
  simp only [List.mem_singleton] at hx
  subst hx
  exact dataView_null _ _ _

theorem analog_null (b : Bytes) : NullOk (analogAccess b) := by
  unfold analogAccess
  refine nullOk_bind _ _ fun _ => nullOk_bind _ _ fun dt => nullOk_pure _ ?_
  intro x hx
  simp only [List.mem_singleton] at hx
  subst hx
  dsimp only
  generalize (if dt &&& 3 = 0 then 2 else 4) = w
  intro h
  by_cases h0 : (b.length - 16) / w = 0
  · rw [h0, Nat.zero_mul]
  · rw [if_neg h0] at h; cases h

theorem cm_null (b : Bytes) : NullOk (cmAccess b) := by
  unfold cmAccess
  refine nullOk_bind _ _ fun _ => nullOk_bind _ _ fun ⟨o1, l1, p1⟩ => nullOk_bind _ _ fun t1 =>
    nullOk_bind _ _ fun ⟨o2, l2, p2⟩ => nullOk_bind _ _ fun t2 =>
    nullOk_bind _ _ fun ⟨o3, l3, p3⟩ => nullOk_bind _ _ fun t3 =>
    nullOk_bind _ _ fun ⟨o4, l4, p4⟩ => nullOk_bind _ _ fun t4 =>
    nullOk_bind _ _ fun ⟨o5, l5, p5⟩ => nullOk_pure _ ?_
  intro x hx
  simp only [List.mem_cons, List.not_mem_nil, or_false] at hx
  rcases hx with rfl | rfl | rfl | rfl | rfl <;> intro h <;> cases h

theorem if_null (b : Bytes) : NullOk (ifAccess b) := by
  unfold ifAccess
  refine nullOk_bind _ _ fun _ => nullOk_bind _ _ fun c => nullOk_bind _ _ fun vl => nullOk_pure _ ?_
  intro x hx
  simp only [List.mem_cons, List.not_mem_nil, or_false] at hx
  rcases hx with rfl | rfl <;> exact dataView_null _ _ _

/-- for every class: whatever the accessor set reports (on ANY buffer, accepted or not), a null pointer
    is reported only together with length 0 -/
theorem null_only_with_len0 (k : String) (a : Bytes → Option (List View)) (ha : kindAccess k = some a)
    (b : Bytes) (vs : List View) (h : a b = some vs) : ∀ x ∈ vs, x.off = none → x.len = 0 := by
  unfold kindAccess at ha
  repeat' split at ha
  all_goals first
    | (cases ha; done)
    | (cases ha; first
        | exact can_null b vs h | exact lin_null b vs h | exact eth_null b vs h
        | exact analog_null b vs h | exact cm_null b vs h | exact if_null b vs h)

/-- C03 (A)+(B) without the null-pointer loophole of `View.inBounds`: the validator accepting `b` implies
    that no accessor reads outside `b`, and every reported view is EITHER a real offset with
    `offset + length ≤ |b|` OR the pair (null, 0) — a (null, n > 0) pair is never reported.
    Hypotheses: `k` one of the seven classes with validator `v` and accessor set `a` ("a payload class's
    validity check accepts a buffer"). -/
theorem accessors_inbounds_strict (k : String) (v : Bytes → Bool) (a : Bytes → Option (List View))
    (hk : kindValid k = some v) (ha : kindAccess k = some a) (b : Bytes) (hv : v b = true) :
    ∃ vs, a b = some vs ∧ ∀ x ∈ vs,
      (∃ o, x.off = some o ∧ o + x.len ≤ b.length) ∨ (x.off = none ∧ x.len = 0) := by
  obtain ⟨vs, hvs, hin⟩ := C03.accessors_inbounds k v a hk ha b hv
  refine ⟨vs, hvs, ?_⟩
  intro x hx
  have h1 := hin x hx
  have h2 := null_only_with_len0 k a ha b vs hvs x hx
  unfold View.inBounds at h1
  cases ho : x.off with
  | none => exact Or.inr ⟨rfl, h2 ho⟩
  | some o =>
    rw [ho] at h1
    exact Or.inl ⟨o, rfl, by simpa using h1⟩


/-! ## 1. the complete decoder entry point (CMP frames, reassembly AND the TECMP branch) -/

/-- every packet `Decoder::decode` returns — from a CMP frame, from a completed reassembly or from the TECMP
    converter — whose payload is marked valid holds bytes its own class validator accepts (the TECMP converter
    never calls `isValidPayload`; that its `setData` objects pass it is `C15.valid_payloads`) -/
theorem decode_validated (s : DecState) (buf : Option Bytes) :
    ∀ p ∈ (decode s buf).2, ∀ pl, p.payload = some pl → pl.isValid = true →
      ∀ v, validatorOf pl.ty = some v → v pl.data = true := by
  intro p hp pl hpl hvalid v hv
  unfold decode decodeWith at hp
  split at hp
  · simp at hp
  · split at hp
    · simp at hp
    · split at hp
      · obtain ⟨pl', v', h1, h2, h3⟩ := C15.valid_payloads _ p hp
        rw [hpl] at h1
        cases h1
        rw [hv] at h2
        cases h2
        exact h3
      · obtain ⟨ty, d, hpd⟩ := C03.step_payload s _ p hp
        rw [hpl] at hpd
        have hpl' : pl = create ty d := Option.some.inj hpd
        subst hpl'
        obtain ⟨hdata, hty, hval⟩ := C03.create_valid ty d hvalid
        rw [hdata]
        rw [hty] at hv
        exact hval v hv

/-- C03 clause (D) at the complete entry point: for EVERY decoder state and EVERY buffer (null, short, TECMP,
    CMP frame with or without segments), every returned packet whose payload is marked valid and typed
    satisfies its class validator, no accessor of its class reads outside the payload's bytes, and every
    reported view is a real in-range (offset, length) or (null, 0). -/
theorem decode_accessors_inbounds (s : DecState) (buf : Option Bytes) :
    ∀ p ∈ (decode s buf).2, ∀ pl, p.payload = some pl → pl.isValid = true →
      ∀ k v a, kindOfTy pl.ty = some k → kindValid k = some v → kindAccess k = some a →
        v pl.data = true ∧
        ∃ vs, a pl.data = some vs ∧ ∀ x ∈ vs,
          (∃ o, x.off = some o ∧ o + x.len ≤ pl.data.length) ∨ (x.off = none ∧ x.len = 0) := by
  intro p hp pl hpl hvalid k v a hk hv ha
  obtain ⟨v', hv1, hv2⟩ := C03.validator_kind pl.ty k hk
  rw [hv] at hv2
  cases hv2
  have hvd := decode_validated s buf p hp pl hpl hvalid v hv1
  exact ⟨hvd, accessors_inbounds_strict k v a hv ha pl.data hvd⟩

/-- the same over a whole history of buffers (interleaved endpoints, CMP and TECMP mixed), from any state -/
theorem decodeAll_accessors_inbounds (bufs : List (Option Bytes)) (s : DecState) :
    ∀ p ∈ (decodeAll tecmpDecode s bufs).2, ∀ pl, p.payload = some pl → pl.isValid = true →
      ∀ k v a, kindOfTy pl.ty = some k → kindValid k = some v → kindAccess k = some a →
        v pl.data = true ∧
        ∃ vs, a pl.data = some vs ∧ ∀ x ∈ vs,
          (∃ o, x.off = some o ∧ o + x.len ≤ pl.data.length) ∨ (x.off = none ∧ x.len = 0) := by
  induction bufs generalizing s with
  | nil => intro p hp; simp [decodeAll] at hp
  | cons b bs ih =>
    intro p hp
    simp only [decodeAll, List.mem_append] at hp
    rcases hp with hp | hp
    · exact decode_accessors_inbounds s b p hp
    · exact ih _ p hp

/-- payload type of a TECMP-converted packet -/
def TecTy (x : Packet) : Prop := ∃ pl, x.payload = some pl ∧ pl.ty ∈ [tyCan, tyCanFd, tyLin, tyCm, tyIf]

theorem tecTy_packet (b : Bytes) (i ty : Nat) (o : Bytes) (h : ty ∈ [tyCan, tyCanFd, tyLin, tyCm, tyIf]) :
    TecTy (tecmpPacket b i ⟨ty, o⟩) := ⟨⟨ty, o⟩, rfl, h⟩

theorem can_tecTy (b p : Bytes) : ∀ x ∈ tecmpCan b p, TecTy x := by
  unfold tecmpCan
  dsimp only
  repeat' split
  all_goals first
    | (intro x hx; simp at hx; done)
    | (intro x hx; simp only [List.mem_singleton] at hx; subst hx; exact tecTy_packet _ _ _ _ (by decide))

theorem lin_tecTy (b p : Bytes) : ∀ x ∈ tecmpLin b p, TecTy x := by
  unfold tecmpLin
  dsimp only
  repeat' split
  all_goals first
    | (intro x hx; simp at hx; done)
    | (intro x hx; simp only [List.mem_singleton] at hx; subst hx; exact tecTy_packet _ _ _ _ (by decide))

theorem cm_tecTy (b p : Bytes) : ∀ x ∈ tecmpCm b p, TecTy x := by
  unfold tecmpCm
  dsimp only
  repeat' split
  all_goals first
    | (intro x hx; simp at hx; done)
    | (intro x hx; simp only [List.mem_singleton] at hx; subst hx; exact tecTy_packet _ _ _ _ (by decide))

theorem busEntries_tecTy (b p : Bytes) (v : Nat) : ∀ (fuel off : Nat), ∀ x ∈ tecmpBusEntries b p v fuel off, TecTy x := by
  intro fuel
  induction fuel with
  | zero => intro off x hx; simp [tecmpBusEntries] at hx
  | succ fuel ih =>
    intro off x hx
    unfold tecmpBusEntries at hx
    split at hx
    · simp only [List.mem_cons] at hx
      rcases hx with hx | hx
      · subst hx; exact tecTy_packet _ _ _ _ (by decide)
      · exact ih _ x hx
    · simp at hx

theorem bus_tecTy (b p : Bytes) : ∀ x ∈ tecmpBus b p, TecTy x := by
  unfold tecmpBus
  split
  · intro x hx; simp at hx
  · exact busEntries_tecTy b p _ _ _

theorem tecmpDecode_tecTy (b : Bytes) : ∀ x ∈ tecmpDecode b, TecTy x := by
  unfold tecmpDecode
  dsimp only
  repeat' split
  all_goals first
    | (intro x hx; simp at hx; done)
    | exact cm_tecTy _ _
    | exact can_tecTy _ _
    | exact lin_tecTy _ _
    | exact bus_tecTy _ _

/-- the TECMP branch never returns an untyped or invalid-marked payload: every packet of
    `TECMP::Decoder::Decode` carries a payload of one of the typed classes CAN, CAN-FD, LIN, capture-module
    status, interface status, marked valid, accepted by its class validator — so `decode_accessors_inbounds`
    is not vacuous on that branch (all its hypotheses hold for every TECMP packet) -/
theorem tecmp_typed (b : Bytes) :
    ∀ p ∈ tecmpDecode b, ∃ pl k v a, p.payload = some pl ∧ pl.isValid = true ∧
      pl.ty ∈ [tyCan, tyCanFd, tyLin, tyCm, tyIf] ∧
      kindOfTy pl.ty = some k ∧ kindValid k = some v ∧ kindAccess k = some a ∧ v pl.data = true := by
  intro p hp
  obtain ⟨pl, v, h1, h2, h3⟩ := C15.valid_payloads b p hp
  obtain ⟨pl', h1', hty⟩ := tecmpDecode_tecTy b p hp
  rw [h1] at h1'
  cases h1'
  obtain ⟨k, a, hk, hkv, hka⟩ := kinds_cover pl.ty v h2
  refine ⟨pl, k, v, a, h1, ?_, hty, hk, hkv, hka, h3⟩
  simp only [List.mem_cons, List.not_mem_nil, or_false] at hty
  unfold Payload.isValid Payload.raw Payload.mt
  rcases hty with h | h | h | h | h <;> rw [h] <;> decide

/-! ## 2. the packet constructor with checked reads -/

/-- exact characterisation of the checked-read constructor `ofMsgM` (it reads the 16 header bytes and the
    declared payload through bounds-checked reads): it succeeds EXACTLY when header and declared payload lie
    inside the message bytes, and then builds what the plain model builds. In particular it is not total. -/
theorem ofMsgM_eq_some_iff (mt : Nat) (m : Bytes) (p : Packet) :
    ofMsgM mt m = some p ↔ 16 + beAt m 14 2 ≤ m.length ∧ p = Packet.ofMsg mt m := by
  constructor
  · intro h
    by_cases hb : 16 + beAt m 14 2 ≤ m.length
    · rw [C02.ofMsgM_eq mt m hb] at h
      exact ⟨hb, (Option.some.inj h).symm⟩
    · exfalso
      unfold ofMsgM at h
      by_cases h16 : 16 ≤ m.length
      · rw [C02.rdB_some m 0 16 (by omega), C02.rdN_some m 14 2 (by omega)] at h
        simp only [bind, Option.bind, rdB, if_neg hb] at h
        cases h
      · simp only [bind, Option.bind, rdB] at h
        rw [if_neg (by omega)] at h
        cases h
  · intro ⟨hb, hp⟩
    rw [hp]; exact C02.ofMsgM_eq mt m hb

/-- C03 clause (E): a buffer accepted by `Packet::isValidPacket` is turned into a packet without reading past
    its end — the constructor with bounds-checked reads does not fail and builds the model's packet -/
theorem msgValid_ctor_inbounds (mt : Nat) (r : Bytes) (h : msgValid r = true) :
    ofMsgM mt r = some (Packet.ofMsg mt r) :=
  C02.ofMsgM_eq mt r (C02.msgValid_bound r h)

/-- the bytes a packet built from a message holds are a contiguous piece of the message itself -/
theorem ofMsg_payload_inside (mt : Nat) (m : Bytes) (h : 16 + beAt m 14 2 ≤ m.length) (pl : Payload)
    (hpl : (Packet.ofMsg mt m).payload = some pl) (hv : pl.isValid = true) :
    pl.data.length = beAt m 14 2 ∧ m = m.take 16 ++ pl.data ++ m.drop (16 + pl.data.length) := by
  have hc : pl = create (mt * 256 + byteAt m 13) (slice m 16 (beAt m 14 2)) := (Option.some.inj hpl).symm
  subst hc
  obtain ⟨hd, _, _⟩ := C03.create_valid _ _ hv
  rw [hd]
  have hl : (slice m 16 (beAt m 14 2)).length = beAt m 14 2 := by
    simp only [slice, List.length_take, List.length_drop]; omega
  refine ⟨hl, ?_⟩
  rw [hl]
  unfold slice
  rw [List.append_assoc, ← List.drop_drop, List.take_append_drop, List.take_append_drop]


/-- every packet of the message loop was built from a suffix of the buffer that `isValidPacket` accepted -/
theorem walk_source (ep : Ep) (ver mt : Nat) (r : Bytes) :
    ∀ p ∈ (walk ep ver mt r).1, ∃ off, off ≤ r.length ∧ msgValid (r.drop off) = true ∧
      p = tagPacket ep ver (Packet.ofMsg mt (r.drop off)) := by
  fun_induction walk ep ver mt r with
  | case1 r h0 => simp
  | case2 r h0 h1 => simp
  | case3 r h0 h1 len h2 => simp
  | case4 r h0 h1 len h2 p rest ih =>
    intro x hx
    have hv : msgValid r = true := by simpa using h1
    have hb := C02.msgValid_bound r hv
    simp only [List.mem_cons] at hx
    rcases hx with hx | hx
    · exact ⟨0, by omega, by simpa using hv, by subst hx; simp [p]⟩
    · obtain ⟨off, h1', h2', h3'⟩ := ih x hx
      rw [List.drop_drop] at h2' h3'
      rw [List.length_drop] at h1'
      exact ⟨16 + len + off, by simp only [len]; omega, h2', h3'⟩

theorem localStep_source (q : Option Pending) (f : PFrame) :
    ∀ p ∈ (localStep q f).2, p ∈ f.unseg ∨
      ∃ q' seg, q = some q' ∧ f.term = .seg seg ∧
        p = tagPacket f.ep q'.ver (Packet.ofMsg q'.mt (fixLen (q'.buf ++ seg.drop 16))) := by
  intro p hp
  unfold localStep at hp
  split at hp
  · exact Or.inl hp
  · exact Or.inl hp
  · rename_i m hm
    dsimp only at hp
    split at hp
    · exact Or.inl hp
    · split at hp
      · exact Or.inl hp
      · rename_i q' hq'
        split at hp
        · split at hp
          · simp only [List.mem_append, List.mem_singleton] at hp
            rcases hp with hp | hp
            · exact Or.inl hp
            · right
              refine ⟨q', m, ?_, hm, hp⟩
              split at hq'
              · exact hq'
              · cases hq'
          · exact Or.inl hp
        · exact Or.inl hp

/-- C03 clauses (D)/(E) for the decoder's own construction of packets.  For every state whose pending
    reassemblies hold at least a message header (`PendingOk`, an invariant of the decoder — see
    `decode_built_inbounds` below for the hypothesis-free form) and EVERY buffer, each returned packet is
    either a TECMP conversion, or was built by the packet constructor from message bytes `m` such that
    * header and declared payload lie inside `m` (`16 + declared ≤ |m|`), so the constructor with
      bounds-checked reads succeeds;
    * a valid payload's bytes are literally the piece `m[16 .. 16+declared)` of `m`;
    * `m` is a suffix of the input buffer accepted by `isValidPacket` (unsegmented message), or the
      reassembly buffer `fixLen (pending ++ segment payload)` (last segment). -/
theorem decode_built_inbounds_of_inv (s : DecState) (hs : ∀ e, PendingOk (s e)) (buf : Option Bytes) :
    ∀ p ∈ (decode s buf).2,
      (∃ b, buf = some b ∧ byteAt b 0 = 0 ∧ p ∈ tecmpDecode b) ∨
      (∃ b ep ver mt m, buf = some b ∧ p = tagPacket ep ver (Packet.ofMsg mt m) ∧
        16 + beAt m 14 2 ≤ m.length ∧ ofMsgM mt m = some (Packet.ofMsg mt m) ∧
        (∀ pl, p.payload = some pl → pl.isValid = true →
          pl.data.length = beAt m 14 2 ∧ m = m.take 16 ++ pl.data ++ m.drop (16 + pl.data.length)) ∧
        ((∃ off, 8 ≤ off ∧ off ≤ b.length ∧ m = b.drop off ∧ msgValid m = true) ∨
         (∃ q seg, s (parseFrame b).ep = some q ∧ (parseFrame b).term = .seg seg ∧
            m = fixLen (q.buf ++ seg.drop 16)))) := by
  intro p hp
  unfold decode decodeWith at hp
  split at hp
  · simp at hp
  · rename_i b
    split at hp
    · simp at hp
    · rename_i h8
      split at hp
      · rename_i h0
        exact Or.inl ⟨b, rfl, h0, hp⟩
      · right
        rw [step_snd] at hp
        rcases localStep_source _ _ p hp with hu | ⟨q, seg, hq, hseg, hpq⟩
        · obtain ⟨off, ho, hv, hpe⟩ := walk_source _ _ _ _ p hu
          rw [List.drop_drop] at hv hpe
          rw [List.length_drop] at ho
          have hb := C02.msgValid_bound _ hv
          refine ⟨b, _, _, _, b.drop (8 + off), rfl, hpe, hb, C02.ofMsgM_eq _ _ hb, ?_,
            Or.inl ⟨8 + off, by omega, by omega, rfl, hv⟩⟩
          intro pl hpl hvalid
          rw [hpe] at hpl
          exact ofMsg_payload_inside _ _ hb pl hpl hvalid
        · have hok := hs (parseFrame b).ep
          rw [hq] at hok
          have h16 : 16 ≤ (q.buf ++ seg.drop 16).length := by
            have := hok.2
            simp only [List.length_append]; omega
          obtain ⟨hl, hb⟩ := C02.fixLen_read _ h16
          rw [← hl] at hb
          refine ⟨b, _, _, _, _, rfl, hpq, hb, C02.ofMsgM_eq _ _ hb, ?_, Or.inr ⟨q, seg, hq, hseg, rfl⟩⟩
          intro pl hpl hvalid
          rw [hpq] at hpl
          exact ofMsg_payload_inside _ _ hb pl hpl hvalid

theorem decodeAll_state_ok (bufs : List (Option Bytes)) (s : DecState) (hs : ∀ e, PendingOk (s e)) :
    ∀ e, PendingOk ((decodeAll tecmpDecode s bufs).1 e) := by
  induction bufs generalizing s with
  | nil => exact hs
  | cons b bs ih =>
    simp only [decodeAll]
    exact ih _ (C02.decode_state' s b hs)

/-- hypothesis-free form: after ANY history of decode calls on a fresh decoder, for ANY next buffer -/
theorem decode_built_inbounds (hist : List (Option Bytes)) (buf : Option Bytes) :
    ∀ p ∈ (decode (decodeAll tecmpDecode DecState.empty hist).1 buf).2,
      (∃ b, buf = some b ∧ byteAt b 0 = 0 ∧ p ∈ tecmpDecode b) ∨
      (∃ b ep ver mt m, buf = some b ∧ p = tagPacket ep ver (Packet.ofMsg mt m) ∧
        16 + beAt m 14 2 ≤ m.length ∧ ofMsgM mt m = some (Packet.ofMsg mt m) ∧
        (∀ pl, p.payload = some pl → pl.isValid = true →
          pl.data.length = beAt m 14 2 ∧ m = m.take 16 ++ pl.data ++ m.drop (16 + pl.data.length)) ∧
        ((∃ off, 8 ≤ off ∧ off ≤ b.length ∧ m = b.drop off ∧ msgValid m = true) ∨
         (∃ q seg, (decodeAll tecmpDecode DecState.empty hist).1 (parseFrame b).ep = some q ∧
            (parseFrame b).term = .seg seg ∧ m = fixLen (q.buf ++ seg.drop 16)))) :=
  decode_built_inbounds_of_inv _ (decodeAll_state_ok hist DecState.empty (fun _ => (trivial : PendingOk none))) buf

/-- the whole decode call with bounds-checked reads of the input buffer never fails (C02's theorem, restated
    here because C03 (D)/(E) need it for the reads the decoder itself performs, TECMP branch included) -/
theorem decode_reads_inbounds (s : DecState) (buf : Option Bytes) : decodeM s buf = some (decode s buf) :=
  C02.decodeM_eq s buf

/-! ## 3. fixed-field accessors: header sizes and field positions come from the protocol table -/
def kindLayout (k : String) : Option ClassLayout :=
  if k == "can" then some Layout.c_can
  else if k == "canfd" then some Layout.c_canfd
  else if k == "lin" then some Layout.c_lin
  else if k == "eth" then some Layout.c_eth
  else if k == "analog" then some Layout.c_analog
  else if k == "cm" then some Layout.c_cm
  else if k == "if" then some Layout.c_if
  else none
theorem kind_mem (k : String) (v : Bytes → Bool) (hk : kindValid k = some v) :
    k ∈ ["can", "canfd", "lin", "eth", "analog", "cm", "if"] := by
  unfold kindValid at hk
  simp only [List.mem_cons, List.not_mem_nil, or_false]
  repeat' split at hk
  all_goals first | (cases hk; done) | skip
  all_goals simp_all
  rename_i h; rcases h with h | h <;> simp [h]

theorem valid_min_size (k : String) (v : Bytes → Bool) (L : ClassLayout)
    (hk : kindValid k = some v) (hL : kindLayout k = some L) (b : Bytes) (hv : v b = true) :
    L.size ≤ b.length := by
  have hm := kind_mem k v hk
  simp only [List.mem_cons, List.not_mem_nil, or_false] at hm
  rcases hm with h | h | h | h | h | h | h <;> subst h <;> cases hk <;> cases hL <;>
    simp only [canValid, linValid, ethValid, analogValid, cmValid, ifValid, Bool.and_eq_true, decide_eq_true_eq] at hv
  · exact hv.1.1.1
  · exact hv.1.1.1
  · exact hv.1
  · exact hv.1.1
  · exact hv.1
  · exact hv.1
  · have := hv.1.1; show 36 ≤ b.length; omega
theorem kindLayout_total (k : String) : (kindLayout k).isSome = (kindValid k).isSome := by
  unfold kindLayout kindValid
  by_cases h1 : k = "can"
  · subst h1; decide
  by_cases h2 : k = "canfd"
  · subst h2; decide
  simp [h1, h2]
  repeat' split
  all_goals rfl

/-- the header read of every accessor model is the header size of the protocol table, and the data
    pointer of the four bus classes starts right behind that header -/
theorem access_header_is_layout_size (b : Bytes) :
    canAccess b = (do let _ ← rd b 0 Layout.c_can.size; let n ← rd b 15 1; pure [dataView "data" Layout.c_can.size n]) ∧
    canAccess b = (do let _ ← rd b 0 Layout.c_canfd.size; let n ← rd b 15 1; pure [dataView "data" Layout.c_canfd.size n]) ∧
    linAccess b = (do let _ ← rd b 0 Layout.c_lin.size; let n ← rd b 7 1; pure [dataView "data" Layout.c_lin.size n]) ∧
    ethAccess b = (do let _ ← rd b 0 Layout.c_eth.size; let n ← rd b 4 2; pure [dataView "data" Layout.c_eth.size n]) ∧
    (∀ vs, analogAccess b = some vs → rd b 0 Layout.c_analog.size ≠ none) ∧
    (∀ vs, cmAccess b = some vs → rd b 0 Layout.c_cm.size ≠ none) ∧
    (∀ vs, ifAccess b = some vs → rd b 0 Layout.c_if.size ≠ none) := by
  refine ⟨rfl, rfl, rfl, rfl, ?_, ?_, ?_⟩
  · intro vs h hn
    have : rd b 0 16 = none := hn
    simp [analogAccess, this] at h
  · intro vs h hn
    have : rd b 0 26 = none := hn
    simp [cmAccess, this] at h
  · intro vs h hn
    have : rd b 0 36 = none := hn
    simp [ifAccess, this] at h

theorem layouts_fit :
    [Layout.c_can, Layout.c_canfd, Layout.c_lin, Layout.c_eth, Layout.c_analog, Layout.c_cm, Layout.c_if].all
      (fun L => L.fields.all fun f => decide (f.off + f.w ≤ L.size) && decide (0 < f.w)) = true := by decide


theorem kindLayout_mem (k : String) (L : ClassLayout) (hL : kindLayout k = some L) :
    L ∈ [Layout.c_can, Layout.c_canfd, Layout.c_lin, Layout.c_eth, Layout.c_analog, Layout.c_cm, Layout.c_if] := by
  unfold kindLayout at hL
  repeat' split at hL
  all_goals first | (cases hL; done) | (cases hL; simp)

/-- C03 clause (A) for the fixed-field accessors: if the class validator accepts `b`, every field of the
    class's protocol layout table (every fixed getter reads one such word, `getField`) is read by a
    bounds-checked read that succeeds, i.e. lies inside `b` — the read position and width come from the
    table, not from a literal of the accessor model -/
theorem fixed_getters_inbounds (k : String) (v : Bytes → Bool) (L : ClassLayout)
    (hk : kindValid k = some v) (hL : kindLayout k = some L) (b : Bytes) (hv : v b = true) :
    L.size ≤ b.length ∧
    ∀ f ∈ L.fields, f.off + f.w ≤ b.length ∧ rd b f.off f.w = some (beAt b f.off f.w) ∧
      getField f b = beAt b f.off f.w / 2 ^ f.shift % 2 ^ f.bits := by
  have hsz := valid_min_size k v L hk hL b hv
  refine ⟨hsz, ?_⟩
  intro f hf
  have hfit := layouts_fit
  rw [List.all_eq_true] at hfit
  have hL' := hfit L (kindLayout_mem k L hL)
  rw [List.all_eq_true] at hL'
  have := hL' f hf
  simp only [Bool.and_eq_true, decide_eq_true_eq] at this
  have hle : f.off + f.w ≤ b.length := by omega
  exact ⟨hle, C03.rd_ok b f.off f.w hle, rfl⟩

/-- the contrapositive, at the boundary the property names ("every length between 0 and header size"):
    a buffer shorter than the class's fixed header is rejected by the class validator -/
theorem short_rejected (k : String) (v : Bytes → Bool) (L : ClassLayout)
    (hk : kindValid k = some v) (hL : kindLayout k = some L) (b : Bytes) (hs : b.length < L.size) :
    v b = false := by
  cases h : v b with
  | false => rfl
  | true => have := valid_min_size k v L hk hL b h; omega


/-! ## 5b. source level: the translated accessors' raw pointers (no `Nat` subtraction, no null loophole)

  `SrcTie.srcView` turns a pointer into an offset with a truncating subtraction.  Here the translated
  accessors (GeneratedSrc.lean) are compared as raw (pointer, length) pairs with the model's views placed at
  the object's address: a pointer in front of the payload could not be equal to `pd + offset`. -/
section Src
open AsamCmp.Src AsamCmp.SrcGen AsamCmp.SrcTie

/-- a view of the accessor model as the raw (pointer, length) pair of an object at address `pd`:
    null is address 0, otherwise `pd + offset` — no subtraction involved -/
def absView (pd : Nat) (v : View) : Nat × Nat := (match v.off with | none => 0 | some o => pd + o, v.len)

theorem absView_dataView (pd : Nat) (name : String) (off len : Nat) :
    absView pd (dataView name off len) = (if len = 0 then 0 else pd + off, len) := by
  unfold absView dataView
  by_cases h : len = 0 <;> simp [h]

def rawCan (m : Bytes) (pd sz this : Nat) : Option (List (Nat × Nat)) := do
  let n ← CanPayloadBase_getDataLength m pd sz this
  let p ← CanPayloadBase_getData m pd sz this
  pure [(p, n)]

def rawLin (m : Bytes) (pd sz this : Nat) : Option (List (Nat × Nat)) := do
  let n ← LinPayload_getDataLength m pd sz this
  let p ← LinPayload_getData m pd sz this
  pure [(p, n)]

def rawEth (m : Bytes) (pd sz this : Nat) : Option (List (Nat × Nat)) := do
  let n ← EthernetPayload_getDataLength m pd sz this
  let p ← EthernetPayload_getData m pd sz this
  pure [(p, n)]

def rawAnalog (m : Bytes) (pd sz this : Nat) : Option (List (Nat × Nat)) := do
  let cnt ← AnalogPayload_getSamplesCount m pd sz this
  let dt ← AnalogPayload_getSampleDt m pd sz this
  let p ← AnalogPayload_getData m pd sz this
  pure [(p, cnt * (if dt = 0 then 2 else 4))]

def rawIf (m : Bytes) (pd sz this : Nat) : Option (List (Nat × Nat)) := do
  let c ← InterfacePayload_getStreamIdsCount m pd sz this
  let p ← InterfacePayload_getStreamIds m pd sz this
  let vl ← InterfacePayload_getVendorDataLength m pd sz this
  let vp ← InterfacePayload_getVendorData m pd sz this
  pure [(p, c), (vp, vl)]

def rawCm (m : Bytes) (pd sz this : Nat) : Option (List (Nat × Nat)) := do
  let d ← CaptureModulePayload_getDeviceDescription m pd sz this
  let s ← CaptureModulePayload_getSerialNumber m pd sz this
  let hw ← CaptureModulePayload_getHardwareVersion m pd sz this
  let sw ← CaptureModulePayload_getSoftwareVersion m pd sz this
  let vl ← CaptureModulePayload_getVendorDataLength m pd sz this
  let vp ← CaptureModulePayload_getVendorData m pd sz this
  pure [d, s, hw, sw, (vp, vl)]

theorem can_raw_src (pre b post : Bytes) (this : Nat) (h : (pre ++ b ++ post).length < 2 ^ 64)
    (hv : canValid b = true) :
    rawCan (pre ++ b ++ post) pre.length b.length this = (canAccess b).map (·.map (absView pre.length)) := by
  have hb := mem_lt pre b post h
  have h16 : 16 ≤ b.length := by
    unfold canValid at hv; simp only [Bool.and_eq_true, decide_eq_true_eq] at hv; omega
  simp only [rawCan, CanPayloadBase_getData, CanPayloadBase_getDataLength, CanPayloadBase_Header_getDataLength]
  src_calls []
  simp (disch := omega) only [canAccess, model_rd, C03.beAt_one, bind, pure, some_bind, absView_dataView, Option.map, List.map]
  by_cases h0 : byteAt b 15 = 0 <;> simp [h0]

theorem lin_raw_src (pre b post : Bytes) (this : Nat) (h : (pre ++ b ++ post).length < 2 ^ 64)
    (hv : linValid b = true) :
    rawLin (pre ++ b ++ post) pre.length b.length this = (linAccess b).map (·.map (absView pre.length)) := by
  have hb := mem_lt pre b post h
  have h8 : 8 ≤ b.length := by
    unfold linValid at hv; simp only [Bool.and_eq_true, decide_eq_true_eq] at hv; omega
  simp only [rawLin, LinPayload_getData, LinPayload_getDataLength, LinPayload_Header_getDataLength]
  src_calls []
  simp (disch := omega) only [linAccess, model_rd, C03.beAt_one, bind, pure, some_bind, absView_dataView, Option.map, List.map]
  by_cases h0 : byteAt b 7 = 0 <;> simp [h0]

theorem eth_raw_src (pre b post : Bytes) (this : Nat) (h : (pre ++ b ++ post).length < 2 ^ 64)
    (hv : ethValid b = true) :
    rawEth (pre ++ b ++ post) pre.length b.length this = (ethAccess b).map (·.map (absView pre.length)) := by
  have hb := mem_lt pre b post h
  have h6 : 6 ≤ b.length := by
    unfold ethValid at hv; simp only [Bool.and_eq_true, decide_eq_true_eq] at hv; omega
  simp only [rawEth, EthernetPayload_getData, EthernetPayload_getDataLength, EthernetPayload_Header_getDataLength]
  src_calls []
  simp (disch := omega) only [ethAccess, model_rd, bind, pure, some_bind, absView_dataView, Option.map, List.map]
  by_cases h0 : beAt b 4 2 = 0 <;> simp [h0]


theorem analog_raw_src (pre b post : Bytes) (this : Nat) (h : (pre ++ b ++ post).length < 2 ^ 64)
    (hv : analogValid b = true) :
    rawAnalog (pre ++ b ++ post) pre.length b.length this = (analogAccess b).map (·.map (absView pre.length)) := by
  have hb := mem_lt pre b post h
  have h16 : 16 ≤ b.length := by
    unfold analogValid at hv; simp only [Bool.and_eq_true, decide_eq_true_eq] at hv; omega
  have h3 : byteAt b 1 &&& 3 ≤ 3 := Nat.and_le_right
  have hz : (byteAt b 1 &&& 3) * 256 = 0 ↔ byteAt b 1 &&& 3 = 0 := by omega
  simp (disch := omega) only [rawAnalog, AnalogPayload_getData, analog_dt_src pre b post this (by omega),
    analog_cnt_src pre b post this hb h16, analogAccess, model_rd, C03.beAt_one, bind, pure, some_bind, bne_iff_ne, ne_eq,
    hz, Option.map, List.map, absView]
  generalize ((b.length - 16) / if byteAt b 1 &&& 3 = 0 then 2 else 4) = c
  by_cases h0 : c = 0 <;> simp [h0]

theorem if_raw_src (pre b post : Bytes) (this : Nat) (h : (pre ++ b ++ post).length < 2 ^ 64)
    (hv : ifValid b = true) :
    rawIf (pre ++ b ++ post) pre.length b.length this = (ifAccess b).map (·.map (absView pre.length)) := by
  have hb := mem_lt pre b post h
  unfold ifValid at hv
  simp only [Bool.and_eq_true, decide_eq_true_eq] at hv
  obtain ⟨⟨h40, _⟩, hfit, _⟩ := hv
  simp (disch := omega) only [rawIf, InterfacePayload_getStreamIds, InterfacePayload_getVendorData,
    InterfacePayload_getStreamIdCountPtr, if_count_src pre b post this (by omega),
    if_vlptr_src pre b post this hb (by omega), if_vl_src pre b post this hb (by omega) hfit, ifAccess, model_rd,
    bind, pure, some_bind, bne_iff_ne, ne_eq, ite_some, absView_dataView, Nat.add_assoc, Nat.reduceAdd,
    Option.map, List.map, ite_not]

theorem cm_raw_src (pre b post : Bytes) (this : Nat) (h : (pre ++ b ++ post).length < 2 ^ 64)
    (hv : cmValid b = true) :
    rawCm (pre ++ b ++ post) pre.length b.length this = (cmAccess b).map (·.map (absView pre.length)) := by
  have hb := mem_lt pre b post h
  unfold cmValid at hv
  simp only [Bool.and_eq_true, decide_eq_true_eq] at hv
  obtain ⟨h26, hv1⟩ := hv
  obtain ⟨l1, p2, e1, q1, hl1, hb1, hv2⟩ := blocksOk_block b 4 26 h26 hv1
  obtain ⟨l2, p3, e2, q2, hl2, hb2, hv3⟩ := blocksOk_block b 3 p2 hb1 hv2
  obtain ⟨l3, p4, e3, q3, hl3, hb3, hv4⟩ := blocksOk_block b 2 p3 hb2 hv3
  obtain ⟨l4, p5, e4, q4, hl4, hb4, hv5⟩ := blocksOk_block b 1 p4 hb3 hv4
  obtain ⟨l5, p6, e5, q5, hl5, hb5, _⟩ := blocksOk_block b 0 p5 hb4 hv5
  simp (disch := omega) only [rawCm, CaptureModulePayload_getDeviceDescription,
    CaptureModulePayload_getSerialNumber, CaptureModulePayload_getHardwareVersion,
    CaptureModulePayload_getSoftwareVersion, CaptureModulePayload_getVendorDataLength,
    CaptureModulePayload_getVendorData, initStringView_src, removeTrailingNulls_src, e1, e2, e3, e4, e5, q1, q2, q3, q4,
    q5, bind, pure, some_bind, Nat.mod_eq_of_lt, cmAccess, cmBlock, trimNul, model_rd, if_pos,
    Option.map, List.map, absView]

/-- `CaptureModulePayload::getVendorDataStringView` (an accessor no other statement mentions): on a payload the
    validator accepts it is defined (reads nothing outside) and returns exactly the vendor-data view of the
    accessor model, as an absolute (pointer, length) pair -/
theorem cm_vendorDataStringView_src (pre b post : Bytes) (this : Nat) (h : (pre ++ b ++ post).length < 2 ^ 64)
    (hv : cmValid b = true) :
    ∃ vs v, cmAccess b = some vs ∧ vs[4]? = some v ∧ v.name = "vendorData" ∧
      CaptureModulePayload_getVendorDataStringView (pre ++ b ++ post) pre.length b.length this
        = some (absView pre.length v) := by
  have hb := mem_lt pre b post h
  unfold cmValid at hv
  simp only [Bool.and_eq_true, decide_eq_true_eq] at hv
  obtain ⟨h26, hv1⟩ := hv
  obtain ⟨l1, p2, e1, q1, hl1, hb1, hv2⟩ := blocksOk_block b 4 26 h26 hv1
  obtain ⟨l2, p3, e2, q2, hl2, hb2, hv3⟩ := blocksOk_block b 3 p2 hb1 hv2
  obtain ⟨l3, p4, e3, q3, hl3, hb3, hv4⟩ := blocksOk_block b 2 p3 hb2 hv3
  obtain ⟨l4, p5, e4, q4, hl4, hb4, hv5⟩ := blocksOk_block b 1 p4 hb3 hv4
  obtain ⟨l5, p6, e5, q5, hl5, hb5, _⟩ := blocksOk_block b 0 p5 hb4 hv5
  simp (disch := omega) only [CaptureModulePayload_getVendorDataStringView, initStringView_src, e1, e2, e3, e4, e5, q1, q2, q3, q4,
    q5, bind, pure, some_bind, Nat.mod_eq_of_lt, cmAccess, cmBlock, trimNul, model_rd, if_pos]
  exact ⟨_, _, rfl, rfl, rfl, rfl⟩


/-- generic: raw pairs that are the model's views placed at `pd` lie inside `[pd, pd + |b|)` or are (null, 0) -/
theorem raw_inbounds (k : String) (v : Bytes → Bool) (a : Bytes → Option (List View))
    (hk : kindValid k = some v) (ha : kindAccess k = some a) (b : Bytes) (hv : v b = true) (pd : Nat)
    (raw : Option (List (Nat × Nat))) (hraw : raw = (a b).map (·.map (absView pd))) :
    ∃ ps, raw = some ps ∧ ∀ q ∈ ps, (q.1 = 0 ∧ q.2 = 0) ∨ (pd ≤ q.1 ∧ q.1 + q.2 ≤ pd + b.length) := by
  obtain ⟨vs, hvs, hin⟩ := accessors_inbounds_strict k v a hk ha b hv
  rw [hvs] at hraw
  refine ⟨_, hraw, ?_⟩
  intro q hq
  simp only [List.mem_map] at hq
  obtain ⟨x, hx, hxq⟩ := hq
  subst hxq
  rcases hin x hx with ⟨o, ho, hle⟩ | ⟨ho, hl⟩
  · right; simp only [absView, ho]; omega
  · left; simp only [absView, ho, hl]; exact ⟨trivial, trivial⟩

/-- C03 (B) at source level, all six accessor sets (seven classes): on every payload its validator accepts, placed
    anywhere in any memory, the translated accessors are defined and every (pointer, length) pair they return
    is (nullptr, 0) or lies inside the payload's own bytes `[pd, pd + size)` -/
theorem src_pointers_inbounds (pre b post : Bytes) (this : Nat) (h : (pre ++ b ++ post).length < 2 ^ 64) :
    (canValid b = true → ∃ ps, rawCan (pre ++ b ++ post) pre.length b.length this = some ps ∧
      ∀ q ∈ ps, (q.1 = 0 ∧ q.2 = 0) ∨ (pre.length ≤ q.1 ∧ q.1 + q.2 ≤ pre.length + b.length)) ∧
    (linValid b = true → ∃ ps, rawLin (pre ++ b ++ post) pre.length b.length this = some ps ∧
      ∀ q ∈ ps, (q.1 = 0 ∧ q.2 = 0) ∨ (pre.length ≤ q.1 ∧ q.1 + q.2 ≤ pre.length + b.length)) ∧
    (ethValid b = true → ∃ ps, rawEth (pre ++ b ++ post) pre.length b.length this = some ps ∧
      ∀ q ∈ ps, (q.1 = 0 ∧ q.2 = 0) ∨ (pre.length ≤ q.1 ∧ q.1 + q.2 ≤ pre.length + b.length)) ∧
    (analogValid b = true → ∃ ps, rawAnalog (pre ++ b ++ post) pre.length b.length this = some ps ∧
      ∀ q ∈ ps, (q.1 = 0 ∧ q.2 = 0) ∨ (pre.length ≤ q.1 ∧ q.1 + q.2 ≤ pre.length + b.length)) ∧
    (cmValid b = true → ∃ ps, rawCm (pre ++ b ++ post) pre.length b.length this = some ps ∧
      ∀ q ∈ ps, (q.1 = 0 ∧ q.2 = 0) ∨ (pre.length ≤ q.1 ∧ q.1 + q.2 ≤ pre.length + b.length)) ∧
    (ifValid b = true → ∃ ps, rawIf (pre ++ b ++ post) pre.length b.length this = some ps ∧
      ∀ q ∈ ps, (q.1 = 0 ∧ q.2 = 0) ∨ (pre.length ≤ q.1 ∧ q.1 + q.2 ≤ pre.length + b.length)) :=
  ⟨fun hv => raw_inbounds "can" _ _ rfl rfl b hv _ _ (can_raw_src pre b post this h hv),
   fun hv => raw_inbounds "lin" _ _ rfl rfl b hv _ _ (lin_raw_src pre b post this h hv),
   fun hv => raw_inbounds "eth" _ _ rfl rfl b hv _ _ (eth_raw_src pre b post this h hv),
   fun hv => raw_inbounds "analog" _ _ rfl rfl b hv _ _ (analog_raw_src pre b post this h hv),
   fun hv => raw_inbounds "cm" _ _ rfl rfl b hv _ _ (cm_raw_src pre b post this h hv),
   fun hv => raw_inbounds "if" _ _ rfl rfl b hv _ _ (if_raw_src pre b post this h hv)⟩

end Src

/-! ## 1b. end to end at source level -/
section SrcDecode
open AsamCmp.Src AsamCmp.SrcGen AsamCmp.SrcDec

/-- end to end, source level: the TRANSLATED `Decoder::decode` (with the translated TECMP decoder plugged in), on every
    buffer of at least 8 bytes at a non-null address and every reachable pending table, is defined and every object it
    returns, read as a packet of the model, satisfies C03 (D): class validator accepted, no accessor reads outside, every view
    in range or (null, 0).  Hypotheses: those of `SrcDec.decode_total_src` (table invariant, memory below 2^63 bytes, fuel). -/
theorem decode_src_accessors_inbounds (t : Table) (pre b post : Bytes) (fuel : Nat)
    (hT : C17b.TableOk t) (hR : TableReg t) (hpre : 0 < pre.length) (h8 : 8 ≤ b.length)
    (hmem : (pre ++ b ++ post).length < 2 ^ 63) (hf : b.length ≤ fuel) :
    ∃ t' outs, Decoder_decode_obj fuel (tblSt t) (pre ++ b ++ post) pre.length b.length (SrcTec.tecmpExt fuel) =
        some (tblSt t', outs) ∧
      ∀ o ∈ outs, ∀ pl, (Sum.elim toPacket SrcTec.tAbs o).payload = some pl → pl.isValid = true →
        ∀ k v a, kindOfTy pl.ty = some k → kindValid k = some v → kindAccess k = some a →
          v pl.data = true ∧
          ∃ vs, a pl.data = some vs ∧ ∀ x ∈ vs,
            (∃ o, x.off = some o ∧ o + x.len ≤ pl.data.length) ∨ (x.off = none ∧ x.len = 0) := by
  obtain ⟨t', outs, h1, _, _, h4⟩ := decode_total_src t pre b post fuel hT hR hpre h8 hmem hf
  refine ⟨t', outs, h1, ?_⟩
  intro o ho
  have hm : Sum.elim toPacket SrcTec.tAbs o ∈ (decode t.abs (some b)).2 := by
    rw [← h4]; exact List.mem_map_of_mem ho
  exact decode_accessors_inbounds t.abs (some b) _ hm

end SrcDecode

/-! ## 2b. the translated packet constructor on the two kinds of buffers the decoder hands it -/
section SrcCtor
open AsamCmp.Src AsamCmp.SrcGen AsamCmp.SrcPv

/-- C03 (E) at source level: on a buffer `Packet::isValidPacket` accepts, anywhere in memory, the TRANSLATED constructor
    `Packet(msgType, data, size)` is defined (a read outside the memory would be `none`; take `post = []`) and builds the
    model's packet.  `hmt`: the message type is a `uint8_t`; `hmem`: memory smaller than the address space. -/
theorem ctor_src_of_msgValid (mt : Nat) (pre r post : Bytes) (size : Nat) (hmt : mt < 256)
    (hv : msgValid r = true) (hmem : (pre ++ r ++ post).length < 2 ^ 64) :
    Packet_ctor_u8_ptr_u64_pv (pre ++ r ++ post) mt pre.length size = some (SrcPv.repr (Packet.ofMsg mt r)) := by
  have hb := C02.msgValid_bound r hv
  exact wire_ctor_src mt pre r post size hmt (by omega) hb hmem

/-- … and on a reassembly buffer (`SegmentedPacket::getPacket`, no `isValidPacket` call): header plus accumulated bytes `x`
    (at least the 16 header bytes) with the length field rewritten by `fixLen` — also when more than 65535 bytes were
    accumulated and the 16-bit length wraps -/
theorem ctor_src_of_reassembly (mt : Nat) (pre x post : Bytes) (size : Nat) (hmt : mt < 256)
    (h16 : 16 ≤ x.length) (hmem : (pre ++ fixLen x ++ post).length < 2 ^ 64) :
    Packet_ctor_u8_ptr_u64_pv (pre ++ fixLen x ++ post) mt pre.length size = some (SrcPv.repr (Packet.ofMsg mt (fixLen x))) := by
  obtain ⟨hl, hb⟩ := C02.fixLen_read x h16
  exact wire_ctor_src mt pre (fixLen x) post size hmt (by omega) (by omega) hmem

end SrcCtor

/-! ## 3b. which const member functions exist (text-level net, partial) -/

/-- class → layout kind → (member function, declared signature, classification, layout field):
    `field` = fixed getter of that field of the protocol table (in-bounds by `fixed_getters_inbounds`, at source
    level by `SrcFields.*_src`), `var` = part of the variable-length accessor set (`SrcTie.*_access_src`,
    `src_pointers_inbounds`), `hdr` = `getHeader` (pointer to the payload start), `-` = not a const accessor
    (constructor, setter, static function). -/
def accessorTable : List (String × String × List (String × String × String × String)) := [
  ("ASAM::CMP::CanPayloadBase", "can", [
    ("CanPayloadBase", "ctor (enum:u32, ptr, u64) ; ctor (enum:u32, u64)", "-", ""),
    ("encodeDlc", "u8 (u8)", "-", ""),
    ("getCrcSupport", "bool () const", "field", "crcSupport"),
    ("getData", "ptr () const", "var", ""),
    ("getDataLength", "u8 () const", "var", ""),
    ("getDlc", "u8 () const", "field", "dlc"),
    ("getErrorPosition", "u16 () const", "field", "errorPosition"),
    ("getFlag", "bool (enum:u16) const", "field", "flags"),
    ("getFlags", "u16 () const", "field", "flags"),
    ("getHeader", "ptr () ; ptr () const", "hdr", ""),
    ("getId", "u32 () const", "field", "id"),
    ("getIde", "bool () const", "field", "ide"),
    ("getRsvd", "bool () const", "field", "rsvd"),
    ("isValidPayload", "bool (ptr, u64)", "-", ""),
    ("setCrcSupport", "void (bool)", "-", ""),
    ("setData", "void (ptr, u8)", "-", ""),
    ("setErrorPosition", "void (u16)", "-", ""),
    ("setFlag", "void (enum:u16, bool)", "-", ""),
    ("setFlags", "void (u16)", "-", ""),
    ("setId", "void (u32)", "-", ""),
    ("setIde", "void (bool)", "-", ""),
    ("setRsvd", "void (bool)", "-", "")]),
  ("ASAM::CMP::CanPayload", "can", [
    ("CanPayload", "ctor (ptr, u64)", "-", ""),
    ("getCrc", "u16 () const", "field", "crc"),
    ("getRtr", "bool () const", "field", "rtr"),
    ("setCrc", "void (u16)", "-", ""),
    ("setRtr", "void (bool)", "-", "")]),
  ("ASAM::CMP::CanFdPayload", "canfd", [
    ("CanFdPayload", "ctor (ptr, u64)", "-", ""),
    ("getCrc", "u32 () const", "field", "crc"),
    ("getRrs", "bool () const", "field", "rrs"),
    ("getSbc", "u8 () const", "field", "sbc"),
    ("getSbcParity", "bool () const", "field", "sbcParity"),
    ("getSbcSupport", "bool () const", "field", "sbcSupport"),
    ("setCrc", "void (u32)", "-", ""),
    ("setRrs", "void (bool)", "-", ""),
    ("setSbc", "void (u8)", "-", ""),
    ("setSbcParity", "void (bool)", "-", ""),
    ("setSbcSupport", "void (bool)", "-", "")]),
  ("ASAM::CMP::LinPayload", "lin", [
    ("LinPayload", "ctor (ptr, u64)", "-", ""),
    ("getChecksum", "u8 () const", "field", "checksum"),
    ("getData", "ptr () const", "var", ""),
    ("getDataLength", "u8 () const", "var", ""),
    ("getFlag", "bool (enum:u16) const", "field", "flags"),
    ("getFlags", "u16 () const", "field", "flags"),
    ("getHeader", "ptr () ; ptr () const", "hdr", ""),
    ("getLinId", "u8 () const", "field", "linId"),
    ("getParityBits", "u8 () const", "field", "parityBits"),
    ("isValidPayload", "bool (ptr, u64)", "-", ""),
    ("setChecksum", "void (u8)", "-", ""),
    ("setData", "void (ptr, u8)", "-", ""),
    ("setFlag", "void (enum:u16, bool)", "-", ""),
    ("setFlags", "void (u16)", "-", ""),
    ("setLinId", "void (u8)", "-", ""),
    ("setParityBits", "void (u8)", "-", "")]),
  ("ASAM::CMP::EthernetPayload", "eth", [
    ("EthernetPayload", "ctor (ptr, u64)", "-", ""),
    ("getData", "ptr () const", "var", ""),
    ("getDataLength", "u16 () const", "var", ""),
    ("getFlag", "bool (enum:u16) const", "field", "flags"),
    ("getFlags", "u16 () const", "field", "flags"),
    ("getHeader", "ptr () ; ptr () const", "hdr", ""),
    ("isValidPayload", "bool (ptr, u64)", "-", ""),
    ("setData", "void (ptr, u16)", "-", ""),
    ("setFlag", "void (enum:u16, bool)", "-", ""),
    ("setFlags", "void (u16)", "-", "")]),
  ("ASAM::CMP::AnalogPayload", "analog", [
    ("AnalogPayload", "ctor (ptr, u64)", "-", ""),
    ("getData", "ptr () const", "var", ""),
    ("getFlags", "u16 () const", "field", "flags"),
    ("getHeader", "ptr () ; ptr () const", "hdr", ""),
    ("getSampleDt", "enum:u16 () const", "field", "sampleDt"),
    ("getSamplesCount", "u64 () const", "var", ""),
    ("getUnit", "enum:u8 () const", "field", "unit"),
    ("isValidPayload", "bool (ptr, u64)", "-", ""),
    ("setData", "void (ptr, u64)", "-", ""),
    ("setFlags", "void (u16)", "-", ""),
    ("setSampleDt", "void (enum:u16)", "-", ""),
    ("setUnit", "void (enum:u8)", "-", "")]),
  ("ASAM::CMP::CaptureModulePayload", "cm", [
    ("CaptureModulePayload", "ctor (ptr, u64)", "-", ""),
    ("fillWithString", "ptr (ptr, std::basic_string_view<char>)", "-", ""),
    ("getCurrentUtcOffset", "u16 () const", "field", "currentUtcOffset"),
    ("getDomainNumber", "u8 () const", "field", "domainNumber"),
    ("getGmClockQuality", "u32 () const", "field", "gmClockQuality"),
    ("getGmIdentity", "u64 () const", "field", "gmIdentity"),
    ("getGptpFlags", "u8 () const", "field", "gptpFlags"),
    ("getHeader", "ptr () ; ptr () const", "hdr", ""),
    ("getTimeSource", "u8 () const", "field", "timeSource"),
    ("getUptime", "u64 () const", "field", "uptime"),
    ("getVendorData", "ptr () const", "var", ""),
    ("getVendorDataLength", "u16 () const", "var", ""),
    ("initStringView", "ptr (ptr, std::string_view&)", "-", ""),
    ("isValidPayload", "bool (ptr, u64)", "-", ""),
    ("setCurrentUtcOffset", "void (u16)", "-", ""),
    ("setDomainNumber", "void (u8)", "-", ""),
    ("setGmClockQuality", "void (u32)", "-", ""),
    ("setGmIdentity", "void (u64)", "-", ""),
    ("setGptpFlags", "void (u8)", "-", ""),
    ("setTimeSource", "void (u8)", "-", ""),
    ("setUptime", "void (u64)", "-", "")]),
  ("ASAM::CMP::InterfacePayload", "if", [
    ("InterfacePayload", "ctor (ptr, u64)", "-", ""),
    ("getErrorsTotalRx", "u32 () const", "field", "errorsTotalRx"),
    ("getErrorsTotalTx", "u32 () const", "field", "errorsTotalTx"),
    ("getFeatureSupportBitmask", "u32 () const", "field", "featureSupportBitmask"),
    ("getHeader", "ptr () ; ptr () const", "hdr", ""),
    ("getInterfaceId", "u32 () const", "field", "interfaceId"),
    ("getInterfaceStatus", "enum:u8 () const", "field", "interfaceStatus"),
    ("getInterfaceType", "u8 () const", "field", "interfaceType"),
    ("getMsgDroppedRx", "u32 () const", "field", "msgDroppedRx"),
    ("getMsgDroppedTx", "u32 () const", "field", "msgDroppedTx"),
    ("getMsgTotalRx", "u32 () const", "field", "msgTotalRx"),
    ("getMsgTotalTx", "u32 () const", "field", "msgTotalTx"),
    ("getStreamIdCountPtr", "ptr () const", "var", ""),
    ("getStreamIds", "ptr () const", "var", ""),
    ("getStreamIdsCount", "u16 () const", "var", ""),
    ("getVendorData", "ptr () const", "var", ""),
    ("getVendorDataLength", "u16 () const", "var", ""),
    ("getVendorDataLengthPtr", "ptr () const", "var", ""),
    ("isValidPayload", "bool (ptr, u64)", "-", ""),
    ("setData", "void (ptr, u16, ptr, u16)", "-", ""),
    ("setErrorsTotalRx", "void (u32)", "-", ""),
    ("setErrorsTotalTx", "void (u32)", "-", ""),
    ("setFeatureSupportBitmask", "void (u32)", "-", ""),
    ("setInterfaceId", "void (u32)", "-", ""),
    ("setInterfaceStatus", "void (enum:u8)", "-", ""),
    ("setInterfaceType", "void (u8)", "-", ""),
    ("setMsgDroppedRx", "void (u32)", "-", ""),
    ("setMsgDroppedTx", "void (u32)", "-", ""),
    ("setMsgTotalRx", "void (u32)", "-", ""),
    ("setMsgTotalTx", "void (u32)", "-", ""),
    ("toUint16", "u16 (ptr) const", "var", "")])]

/-- PARTIAL (finding 3 ii): the member functions the reflection of the current source (`SrcGen.apiSig`,
    regenerated on every run) lists for the eight payload classes are EXACTLY the rows of `accessorTable` —
    name and declared signature — and every row classified `field` names a field of the class's protocol table.
    A const accessor added to (or removed from) a class, or a changed signature, breaks this theorem.
    Missing for a full coverage theorem: (1) `apiSig` does not list members whose types the reflection cannot
    render (the four `std::string_view` getters and `getVendorDataStringView` of the capture-module class —
    covered semantically by `SrcTie.cm_access_src` / `cm_vendorDataStringView_src` — and the `float` getters of
    the analog class); (2) the link name → model entry is this table, not a semantic statement. -/
theorem const_accessors_classified_partial :
    accessorTable.all (fun (cls, lay, rows) =>
      SrcGen.apiSig.lookup cls == some (rows.map fun r => (r.1, r.2.1)) &&
      rows.all fun (_, _, kind, f) =>
        if kind == "field" then ((kindLayout lay).bind (·.find f)).isSome
        else (kind == "var" || kind == "hdr" || kind == "-")) = true ∧
    accessorTable.map (·.1) =
      ["ASAM::CMP::CanPayloadBase", "ASAM::CMP::CanPayload", "ASAM::CMP::CanFdPayload", "ASAM::CMP::LinPayload",
       "ASAM::CMP::EthernetPayload", "ASAM::CMP::AnalogPayload", "ASAM::CMP::CaptureModulePayload",
       "ASAM::CMP::InterfacePayload"] := by
  constructor
  · decide +kernel
  · decide +kernel

/-! ## 6. non-vacuity -/

def exLin : Bytes := [0, 0, 0, 0, 0x11, 0, 0xAB, 3, 1, 2, 3]
def exEth : Bytes := [0, 0, 0, 0, 0, 2, 0xAA, 0xBB]
def exAn16 : Bytes := [0, 0] ++ zeros 14 ++ [1, 2, 3, 4, 5]
def exAn32 : Bytes := [0, 1] ++ zeros 14 ++ [1, 2, 3, 4, 5, 6, 7, 8, 9]
def exAn32short : Bytes := [0, 1] ++ zeros 14 ++ [1, 2, 3]
def exCm : Bytes := zeros 26 ++ [0, 2, 65, 0] ++ [0, 0] ++ [0, 4, 49, 50, 0, 0] ++ [0, 2, 0x76, 0] ++ [0, 3, 1, 2, 0]
def exIf : Bytes := zeros 36 ++ [0, 3, 7, 8, 9, 0] ++ [0, 2, 0xDE, 0xAD]

example : linValid exLin = true ∧ linAccess exLin = some [⟨"data", some 8, 3⟩] := by decide
example : linValid (zeros 8) = true ∧ linAccess (zeros 8) = some [⟨"data", none, 0⟩] := by decide
example : ethValid exEth = true ∧ ethAccess exEth = some [⟨"data", some 6, 2⟩] := by decide
example : analogValid (zeros 16) = true ∧ analogAccess (zeros 16) = some [⟨"samples", none, 0⟩] := by decide
example : analogValid exAn16 = true ∧ analogAccess exAn16 = some [⟨"samples", some 16, 4⟩] := by decide
example : analogValid exAn32 = true ∧ analogAccess exAn32 = some [⟨"samples", some 16, 8⟩] := by decide
example : analogValid exAn32short = true ∧ analogAccess exAn32short = some [⟨"samples", none, 0⟩] := by decide
example : cmValid exCm = true ∧ exCm.length = 47 ∧ cmAccess exCm = some
    [⟨"deviceDescription", some 28, 1⟩, ⟨"serialNumber", some 32, 0⟩, ⟨"hardwareVersion", some 34, 2⟩,
     ⟨"softwareVersion", some 40, 1⟩, ⟨"vendorData", some 44, 3⟩] := by decide
example : ifValid exIf = true ∧ exIf.length = 46 ∧
    ifAccess exIf = some [⟨"streamIds", some 38, 3⟩, ⟨"vendorData", some 44, 2⟩] := by decide
example : cmValid exCm.dropLast = false ∧
    (cmAccess exCm.dropLast).map (·.map (·.inBounds exCm.dropLast.length)) = some [true, true, true, true, false] := by
  decide
example : ifValid exIf.dropLast = false ∧
    (ifAccess exIf.dropLast).map (·.map (·.inBounds exIf.dropLast.length)) = some [true, false] := by decide
example : ofMsgM 1 (zeros 13 ++ [1, 0, 5] ++ [1, 2, 3]) = none ∧
    (ofMsgM 1 (zeros 13 ++ [1, 0, 3] ++ [1, 2, 3])).isSome = true ∧ msgValid (zeros 13 ++ [1, 0, 3] ++ [1, 2, 3]) = true := by
  decide

/-- CMP data frame (version 1, device 0x0102, type data, stream 7, counter 5): one unsegmented Ethernet message, 2 data bytes -/
def exFrameEth : Bytes :=
  [1, 0, 1, 2, 1, 7, 0, 5,
   0, 0, 0, 0, 0, 0, 0, 9, 0, 0, 0, 3, 0, 8, 0, 8, 0, 0, 0, 0, 0, 2, 0xAA, 0xBB]
/-- first segment (flags 0x04) of a CAN message: the 16-byte CAN header (dataLength 4) -/
def exSeg1 : Bytes :=
  [1, 0, 1, 2, 1, 7, 0, 5,
   0, 0, 0, 0, 0, 0, 0, 9, 0, 0, 0, 3, 0x04, 1, 0, 16] ++ zeros 14 ++ [4, 4]
/-- last segment (flags 0x0C), counter 6: the 4 data bytes -/
def exSeg2 : Bytes :=
  [1, 0, 1, 2, 1, 7, 0, 6,
   0, 0, 0, 0, 0, 0, 0, 9, 0, 0, 0, 3, 0x0C, 1, 0, 4, 1, 2, 3, 4]
/-- TECMP frame, device 7, data message, data type CAN, interface 9: arbitration id 0x123, dlc 3, 3 data bytes -/
def exTecmpCan : Bytes :=
  [0, 7, 0, 1, 3, 3, 0, 2, 0, 0, 0, 0, 0, 0, 0, 9, 0, 0, 0, 0, 0, 0, 0, 5, 0, 8, 0, 0,
   0, 0, 1, 0x23, 3, 0xA, 0xB, 0xC]

def summary (ps : List Packet) : List (Option (Nat × Bool × Nat × Option String)) :=
  ps.map fun p => p.payload.map fun pl => (pl.ty, pl.isValid, pl.data.length, kindOfTy pl.ty)

def views (ps : List Packet) : List (Option (Option (List View))) :=
  ps.map fun p => p.payload.map fun pl => ((kindOfTy pl.ty).bind kindAccess).bind fun a => a pl.data

example : summary (decode DecState.empty (some exFrameEth)).2 = [some (tyEth, true, 8, some "eth")] ∧
    views (decode DecState.empty (some exFrameEth)).2 = [some (some [⟨"data", some 6, 2⟩])] := by
  have h := (C17b.decodeLL_refines [] (some exFrameEth) C17b.tableOk_empty).2.2
  have e : Table.abs [] = DecState.empty := rfl
  rw [e] at h
  rw [← h]
  decide

example : summary (decodeAll tecmpDecode DecState.empty [some exSeg1, some exSeg2]).2 = [some (tyCan, true, 20, some "can")] ∧
    views (decodeAll tecmpDecode DecState.empty [some exSeg1, some exSeg2]).2 = [some (some [⟨"data", some 16, 4⟩])] := by
  rw [← (C17b.runLL_refines [some exSeg1, some exSeg2]).2.2]
  decide

example : summary (decode DecState.empty (some exTecmpCan)).2 = [some (tyCan, true, 19, some "can")] ∧
    views (decode DecState.empty (some exTecmpCan)).2 = [some (some [⟨"data", some 16, 3⟩])] := by
  decide

/-- interleaved traffic: a TECMP frame between the two segments does not disturb the reassembly; both packets
    come out typed, valid and with in-bounds views -/
example : summary (decodeAll tecmpDecode DecState.empty [some exSeg1, some exTecmpCan, none, some exSeg2]).2 =
      [some (tyCan, true, 19, some "can"), some (tyCan, true, 20, some "can")] ∧
    views (decodeAll tecmpDecode DecState.empty [some exSeg1, some exTecmpCan, none, some exSeg2]).2 =
      [some (some [⟨"data", some 16, 3⟩]), some (some [⟨"data", some 16, 4⟩])] := by
  rw [← (C17b.runLL_refines [some exSeg1, some exTecmpCan, none, some exSeg2]).2.2]
  decide

/-- `accessors_inbounds_strict` / `fixed_getters_inbounds`: hypotheses hold on a literal and the conclusion computes -/
example : kindValid "lin" = some linValid ∧ kindAccess "lin" = some linAccess ∧ kindLayout "lin" = some Layout.c_lin ∧
    linValid exLin = true ∧
    (Layout.c_lin.find "checksum").map (fun f => (rd exLin f.off f.w, getField f exLin)) = some (some 0xAB, 0xAB) ∧
    (Layout.c_lin.find "linId").map (fun f => (rd exLin f.off f.w, getField f exLin)) = some (some 0x11, 0x11) :=
  ⟨rfl, rfl, rfl, by decide, by decide, by decide⟩

example : ∃ vs, linAccess exLin = some vs ∧ ∀ x ∈ vs,
    (∃ o, x.off = some o ∧ o + x.len ≤ exLin.length) ∨ (x.off = none ∧ x.len = 0) :=
  accessors_inbounds_strict "lin" linValid linAccess rfl rfl exLin (by decide)

example : cmValid (zeros 25) = false := short_rejected "cm" cmValid Layout.c_cm rfl rfl (zeros 25) (by decide)

/-- `kinds_cover`: hypotheses hold for each of the seven types -/
example : ∃ k a, kindOfTy tyAnalog = some k ∧ kindValid k = some analogValid ∧ kindAccess k = some a :=
  kinds_cover tyAnalog analogValid rfl

/-- `decode_built_inbounds` on the reassembly example: the history is the first segment, the buffer the last -/
example := decode_built_inbounds [some exSeg1] (some exSeg2)
/-- … and that call does return the reassembled packet (so the statement is about a non-empty list) -/
example : summary (decode (decodeAll tecmpDecode DecState.empty [some exSeg1]).1 (some exSeg2)).2 =
    [some (tyCan, true, 20, some "can")] := by
  have h1 := C17b.runLL_refines [some exSeg1]
  have h2 := (C17b.decodeLL_refines (C17b.runLL [] [some exSeg1]).1 (some exSeg2) h1.1).2.2
  rw [h1.2.1] at h2
  rw [← h2]
  decide

section SrcEx
open AsamCmp.Src AsamCmp.SrcGen AsamCmp.SrcTie
/-- `decode_src_accessors_inbounds`: hypotheses hold for the Ethernet frame one byte into memory, empty table -/
example := decode_src_accessors_inbounds [] [9] exFrameEth [] 64 SrcDec.tableOk_nil SrcDec.tableReg_nil
  (by decide) (by decide) (by decide) (by decide)
/-- source level on a literal: the capture-module example one byte into a memory with two bytes behind it -/
example : rawCm ([9] ++ exCm ++ [7, 7]) 1 47 0 = some [(29, 1), (33, 0), (35, 2), (41, 1), (45, 3)] ∧
    CaptureModulePayload_getVendorDataStringView ([9] ++ exCm ++ [7, 7]) 1 47 0 = some (45, 3) ∧
    rawIf ([9] ++ exIf ++ []) 1 46 0 = some [(39, 3), (45, 2)] ∧
    rawLin ([9] ++ zeros 8 ++ []) 1 8 0 = some [(0, 0)] := by decide
/-- `ctor_src_of_msgValid` / `ctor_src_of_reassembly`: hypotheses hold on literals (the Ethernet message of `exFrameEth`;
    the reassembly buffer of `exSeg1` ++ payload of `exSeg2`) -/
example := ctor_src_of_msgValid 1 [9] (exFrameEth.drop 8) [] 24 (by decide) (by decide) (by decide)
example := ctor_src_of_reassembly 1 [9] (exSeg1.drop 8 ++ [1, 2, 3, 4]) [] 0 (by decide) (by decide) (by decide)
example : beAt (fixLen (exSeg1.drop 8 ++ [1, 2, 3, 4])) 14 2 = 20 := by decide
end SrcEx

end AsamCmp.C03S
