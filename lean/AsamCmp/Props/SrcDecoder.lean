/-
  Source-level decoder: `Decoder::decode` (src/decoder.cpp) — the whole function: null / short / TECMP tests, the header-only
  erase, the `while` loop with its `break`s, the unordered_map operations (erase, the default-inserting `operator[]`, assignment),
  the calls into `SegmentedPacket` — is translated from the typed clang AST on every run into a state transformer over the
  decoder's member (GeneratedSrcObj.lean; the map as an association list, the produced packets as `PktOut` = the arguments of
  `std::make_shared<Packet>` plus the setters applied, `TECMP::Decoder::Decode` as an opaque function).  The theorem says that this
  translation, on any table satisfying the invariant of C17b and any buffer of a CMP frame, is DEFINED (no read outside the
  supplied buffer, no write outside a vector; the unsigned `curSize -= packetSize` never wraps) and computes exactly the low-level model `decodeLL`
  (DecoderLL.lean) — which `C17b.decodeLL_refines` proves equal to the decoder model that C01, C02, C04–C06, C17, C18 are about.
-/
import AsamCmp.GeneratedSrcObj
import AsamCmp.DecoderLL
import AsamCmp.Props.C17b
import AsamCmp.Props.SrcSegPkt
import AsamCmp.Lemmas.SrcDecoderLoop
namespace AsamCmp.SrcDec
open AsamCmp AsamCmp.Src AsamCmp.SrcGen

/-- the pending table of the model as the decoder's member -/
def tblSt (t : Table) : Decoder_St := { f_segmentedPackets := t.map fun x => (x.1, spSt x.2) }

/-- a produced packet read as a packet of the model: the (untranslated) `Packet` constructor is `Packet.ofMsg` (see `PktOut`) -/
def toPacket (o : PktOut) : Packet :=
  { Packet.ofMsg o.mt o.msg with version := o.version, deviceId := o.deviceId, streamId := o.streamId }

/-- entries within their C types and far from exhausting the address space -/
def TableReg (t : Table) : Prop := ∀ x ∈ t, x.2.seq < 65536 ∧ x.2.payload.length + 65536 < 2 ^ 64

/-- a CMP frame (first byte not 0, at least the 8 header bytes) at a non-null address of any memory.  The returned list has
    elements `PktOut ⊕ F` (`F` = whatever representation the TECMP decoder `ext` uses for its packets): the CMP path produces
    left summands only -/
theorem decode_src {F : Type} (t : Table) (pre b post : Bytes) (fuel : Nat) (ext : Bytes → Nat → Nat → List F)
    (hT : C17b.TableOk t) (hR : TableReg t) (hpre : 0 < pre.length) (h8 : 8 ≤ b.length) (h0 : byteAt b 0 ≠ 0)
    (hmem : (pre ++ b ++ post).length < 2 ^ 63) (hf : b.length ≤ fuel) :
    ∃ outs : List PktOut, Decoder_decode_obj fuel (tblSt t) (pre ++ b ++ post) pre.length b.length ext =
        some (tblSt (decodeLL t (some b)).1, outs.map Sum.inl) ∧
      outs.map toPacket = (decodeLL t (some b)).2 := by
  exact decode_frame_src t pre b post fuel ext hT hR hpre h8 h0 hmem hf

/-- null pointer, buffer shorter than a frame header, TECMP buffer: no state change; the TECMP decoder's result is returned as is
    (right summands only) -/
theorem decode_other_src {F : Type} (s : Decoder_St) (m : Bytes) (data size fuel : Nat) (ext : Bytes → Nat → Nat → List F) :
    Decoder_decode_obj fuel s m 0 size ext = some (s, []) ∧
    (0 < data → size < 8 → Decoder_decode_obj fuel s m data size ext = some (s, [])) ∧
    (0 < data → 8 ≤ size → data + 1 ≤ m.length → byteAt m data = 0 →
      Decoder_decode_obj fuel s m data size ext = some (s, (ext m data size).map Sum.inr)) := by
  refine ⟨?_, ?_, ?_⟩
  · unfold Decoder_decode_obj
    simp only [beq_self_eq_true, if_true, pure]
  · intro hd hs
    have hd0 : (data == 0) = false := by simpa using Nat.ne_of_gt hd
    unfold Decoder_decode_obj
    simp only [hd0, Bool.false_eq_true, if_false, hs, decide_true, if_true, pure]
  · intro hd hs hm hb
    have hd0 : (data == 0) = false := by simpa using Nat.ne_of_gt hd
    have hs' : ¬ size < 8 := by omega
    have hrd : Src.rd m data 1 = some 0 := by
      rw [SrcTie.rd_eq m data 1 hm, SrcTie.leAt_one, hb]
    unfold Decoder_decode_obj
    simp only [hd0, Bool.false_eq_true, if_false, hs', decide_false, bind, pure, hrd, SrcTie.some_bind,
      beq_self_eq_true, if_true]

end AsamCmp.SrcDec
