/-
  The seam of GeneratedSrcTecmp.lean is a THEOREM about translated source.  The TECMP converter's packets are `TPacket_St` = the
  scalar members of `ASAM::CMP::Packet` (object mode, `Packet_St`) + the owned payload, with three hand-stated operations
  (`TPacket_new`, `TPacket_setPayload`, `TPacket_isValid`) and the scalar setters `Packet_set*_obj`.  The packet value mode of
  GeneratedSrcObj.lean translates the class `Packet` itself — `Packet()`, `setPayload` (with `std::make_unique<Payload>(p)` = the
  translated copy constructor of `Payload`), `isValid`, the setters — over `PacketV_St`.  Under the bijection `toV` / `ofV` the two
  agree, operation by operation; so what GeneratedSrcTecmp.lean calls the contract of `Packet::setPayload` / `isValid` / `Packet()`
  is what the translated bodies of these functions compute.
-/
import AsamCmp.GeneratedSrcTecmp
namespace AsamCmp.SrcTec
open AsamCmp AsamCmp.Src AsamCmp.SrcGen

/-- the bijection `TPacket_St ≃ PacketV_St` -/
def toV (p : TPacket_St) : PacketV_St :=
  { f_payload := p.payload.map fun x => ⟨x.2, x.1⟩, f_version := p.hdr.f_version, f_deviceId := p.hdr.f_deviceId,
    f_streamId := p.hdr.f_streamId, f_sequenceCounter := p.hdr.f_sequenceCounter, f_timestamp := p.hdr.f_timestamp,
    f_interfaceId := p.hdr.f_interfaceId, f_vendorId := p.hdr.f_vendorId, f_commonFlags := p.hdr.f_commonFlags,
    f_segmentType := p.hdr.f_segmentType }

def ofV (v : PacketV_St) : TPacket_St :=
  { hdr := { f_version := v.f_version, f_deviceId := v.f_deviceId, f_streamId := v.f_streamId,
             f_sequenceCounter := v.f_sequenceCounter, f_timestamp := v.f_timestamp, f_interfaceId := v.f_interfaceId,
             f_vendorId := v.f_vendorId, f_commonFlags := v.f_commonFlags, f_segmentType := v.f_segmentType },
    payload := v.f_payload.map fun x => (x.f_type, x.f_payloadData) }

theorem ofV_toV (p : TPacket_St) : ofV (toV p) = p := by
  obtain ⟨⟨_, _, _, _, _, _, _, _, _⟩, pl⟩ := p
  cases pl <;> rfl

theorem toV_ofV (v : PacketV_St) : toV (ofV v) = v := by
  obtain ⟨pl, _, _, _, _, _, _, _, _, _⟩ := v
  cases pl <;> rfl

/-- the payload objects of the two translations: same members -/
def plV (x : APayload_St) : Payload_St := ⟨x.f_payloadData, x.f_type⟩

/-- `std::make_shared<Packet>()` -/
theorem seam_new : Packet_ctor_default_pv = some (toV TPacket_new) := rfl

/-- `Packet::setPayload` -/
theorem seam_setPayload (p : TPacket_St) (x : APayload_St) :
    Packet_setPayload_pv (toV p) (plV x) = some (toV (TPacket_setPayload p x), ()) := rfl

theorem and_mod32 (s k : Nat) (hk : k < 4294967296) : s % 4294967296 &&& k = s &&& k := by
  have h := Nat.and_mod_two_pow (a := s) (b := k) (n := 32)
  have hle : s &&& k ≤ k := Nat.and_le_right
  rw [Nat.mod_eq_of_lt (by omega : k < 2 ^ 32), Nat.mod_eq_of_lt (by omega : s &&& k < 2 ^ 32)] at h
  exact h.symm

/-- `ASAM::CMP::Payload::isValid`, the two translations -/
theorem seam_payload_isValid (x : APayload_St) :
    Payload_isValid_pv (plV x) = (Payload_isValid_obj x).map fun r => (plV x, r) := by
  have hrd : Src.rd (leEnc 4 x.f_type) 0 4 = some (x.f_type % 4294967296) := by
    unfold Src.rd leAt slice
    simp only [leEnc, List.length_cons, List.length_nil, List.drop_zero, List.take_succ_cons, List.take_zero, leDec]
    simp
    omega
  simp only [Payload_isValid_pv, PayloadType_isValid_pv, Payload_isValid_obj, PayloadType_isValid, plV, hrd, bind, pure,
    Option.bind_some, Option.map_some, and_mod32 x.f_type 255 (by decide), and_mod32 x.f_type 65280 (by decide)]
  cases (x.f_type &&& 255 != 0) <;> rfl

/-- `Packet::isValid` -/
theorem seam_isValid (p : TPacket_St) :
    Packet_isValid_pv (toV p) = (TPacket_isValid p).map fun r => (toV p, r) := by
  obtain ⟨h, pl⟩ := p
  cases pl with
  | none => rfl
  | some x =>
    obtain ⟨ty, b⟩ := x
    have hv := seam_payload_isValid ⟨b, ty⟩
    simp only [Packet_isValid_pv, TPacket_isValid, toV, Option.map_some, Option.isSome_some, if_true, bind, pure,
      Option.bind_some] at hv ⊢
    rw [show (⟨b, ty⟩ : Payload_St) = plV ⟨b, ty⟩ from rfl, hv]
    cases Payload_isValid_obj ⟨b, ty⟩ <;> rfl

/-- the scalar setters the converter calls (`GetPackageFromTecmpHeader`, `ConvertInterfacePayload`) -/
theorem seam_setters (p : TPacket_St) (v : Nat) :
    Packet_setDeviceId_pv (toV p) v = (Packet_setDeviceId_obj p.hdr v).map (fun r => (toV { p with hdr := r.1 }, r.2)) ∧
    Packet_setTimestamp_pv (toV p) v = (Packet_setTimestamp_obj p.hdr v).map (fun r => (toV { p with hdr := r.1 }, r.2)) ∧
    Packet_setInterfaceId_pv (toV p) v = (Packet_setInterfaceId_obj p.hdr v).map (fun r => (toV { p with hdr := r.1 }, r.2)) :=
  ⟨rfl, rfl, rfl⟩

end AsamCmp.SrcTec
