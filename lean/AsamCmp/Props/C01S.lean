/-
  C01, strengthened statements (closing the weaknesses an independent review found in the statements registered for C01).

  1. `PayloadOk` / `PacketOk`: the property's domain ("well-formed CAN / CAN-FD / LIN / analog / Ethernet / capture-module
     status / interface status payloads; generic kinds") written from the ASAM CMP layout on byte views, NOT through the
     library's validators; `validator_iff`, `WF_iff_PacketOk`: it is exactly the domain `Packet.WF` of `C01_roundtrip`;
     `validatorOf_none_iff`: the generic kinds are exactly the codes outside the seven typed ones; `create_*`: what
     `Packet::create` returns, unfolded; `C01_roundtrip_spec`: C01 over the spec-level domain.
  2. `P_C01_iff`, `C01_fields`: the conclusion unfolded into the fields the property's text lists.
  3. source level: `encode1_src_struct` (single-packet overload), `decodeSeq_src` (the per-call decoder theorem iterated over any
     sequence of buffers — `TableReg` re-established), `C01_src_roundtrip` / `C01_src_roundtrip_single` (translated encoder, then
     translated decoder on each frame, returns the sent packets) for every configuration with `max < 2^32` (the bound of the
     ENCODER theorems; the decoder half `decode_frames_src` has no bound on `max`), and `C01_src_roundtrip_from_2GiB`: the
     configurations `2^31 + 8 ≤ min ≤ max < 2^32` (e.g. `DataContext{min = max = 2^31 + 8}`), on which the translated decoder
     returned NOTHING while it kept the remaining size in an `int`, round-trip like all others.
  4. instances: segmented status packet at max = 25, mixed aggregated batch at max = 1500, negative instances, and the
     witness `can_error_flag_lost` (a CAN message with an error flag does not survive the round trip).
-/
import AsamCmp.Props.C01
import AsamCmp.Props.C07b
import AsamCmp.Props.C17b
import AsamCmp.Props.SrcEncoderE2E
import AsamCmp.Props.SrcDecoderTotal
import AsamCmp.Props.SrcPacketValue
import AsamCmp.Lemmas.EncBytes
namespace AsamCmp.C01S
open AsamCmp

/-! ## 1. The domain, written from the protocol layout -/

/-- byte `i` of a payload (0 beyond its end; every use below is guarded by a length clause) -/
def u8 (b : Bytes) (i : Nat) : Nat := (b[i]?.getD 0).toNat
/-- big-endian 16-bit field at `i` -/
def u16 (b : Bytes) (i : Nat) : Nat := 256 * u8 b i + u8 b (i + 1)

theorem u8_eq (b : Bytes) (i : Nat) : byteAt b i = u8 b i := by
  simp [byteAt, u8, List.getD_eq_getElem?_getD]

theorem u16_eq (b : Bytes) (i : Nat) (h : i + 2 ≤ b.length) : beAt b i 2 = u16 b i := by
  rw [SrcTie.beAt_two b i h, u8_eq, u8_eq]; unfold u16; omega

/-- CAN / CAN-FD data message: 16-byte header (flags 2, reserved 2, id 4, crc 4, error position 2, dlc 1, data length 1), none
    of the ten error flags, no error position, the declared data bytes are there -/
structure CanOk (b : Bytes) : Prop where
  header : 16 ≤ b.length
  noErrorFlag : u16 b 0 &&& 0x03FF = 0
  noErrorPos : u16 b 12 = 0
  dataFits : 16 + u8 b 15 ≤ b.length

/-- LIN data message: 8-byte header whose last byte is the data length; the declared data bytes are there -/
structure LinOk (b : Bytes) : Prop where
  header : 8 ≤ b.length
  dataFits : 8 + u8 b 7 ≤ b.length

/-- Ethernet data message: 6-byte header (flags 2, reserved 2, data length 2), none of the error flags 0x003B, the declared
    data bytes are there -/
structure EthOk (b : Bytes) : Prop where
  header : 6 ≤ b.length
  noErrorFlag : u16 b 0 &&& 0x003B = 0
  dataFits : 6 + u16 b 4 ≤ b.length

/-- analog data message: 16-byte header; sample type (two low bits of the flags' low byte) int16 (0) or int32 (1) -/
structure AnalogOk (b : Bytes) : Prop where
  header : 16 ≤ b.length
  sampleType : u8 b 1 &&& 3 ≤ 1

/-- `n` blocks, each a 16-bit length followed by that many bytes, starting at offset `pos` of `b`, end inside `b` -/
def BlocksAt (b : Bytes) : Nat → Nat → Prop
  | 0, pos => pos ≤ b.length
  | n+1, pos => pos + 2 ≤ b.length ∧ BlocksAt b n (pos + 2 + u16 b pos)

/-- capture-module status: 26-byte header, then device description, serial number, hardware version, software version and vendor
    data, each prefixed by its length, all inside the payload -/
structure CmOk (b : Bytes) : Prop where
  header : 26 ≤ b.length
  blocks : BlocksAt b 5 26

/-- interface status: 38-byte header, status (byte 29) at most 2 (= disabled), the stream-id list (count at 36, padded to an even
    number of bytes) and the length-prefixed vendor data inside the payload -/
structure IfOk (b : Bytes) : Prop where
  header : 40 ≤ b.length
  status : u8 b 29 ≤ 2
  streamIds : 38 + (u16 b 36 + u16 b 36 % 2) + 2 ≤ b.length
  vendorData : 38 + (u16 b 36 + u16 b 36 % 2) + 2 + u16 b (38 + (u16 b 36 + u16 b 36 % 2)) ≤ b.length

/-- a payload of type code `ty` (message type * 256 + payload type byte) is well-formed: the seven typed kinds obey their layout,
    every other code ("generic / unknown") is unconstrained -/
structure PayloadOk (ty : Nat) (d : Bytes) : Prop where
  can : ty = 0x0101 → CanOk d
  canFd : ty = 0x0102 → CanOk d
  lin : ty = 0x0103 → LinOk d
  analog : ty = 0x0107 → AnalogOk d
  eth : ty = 0x0108 → EthOk d
  cm : ty = 0x0301 → CmOk d
  ifs : ty = 0x0302 → IfOk d

local macro "no" : term => `(fun h => absurd h (by decide))

theorem canValid_iff (b : Bytes) : canValid b = true ↔ CanOk b := by
  unfold canValid
  simp only [Bool.and_eq_true, decide_eq_true_eq, beq_iff_eq]
  constructor
  · rintro ⟨⟨⟨h1, h2⟩, h3⟩, h4⟩
    refine ⟨h1, ?_, ?_, ?_⟩
    · rw [← u16_eq b 0 (by omega)]; exact h2
    · rw [← u16_eq b 12 (by omega)]; exact h3
    · rw [← u8_eq]; omega
  · rintro ⟨h1, h2, h3, h4⟩
    refine ⟨⟨⟨h1, ?_⟩, ?_⟩, ?_⟩
    · rw [u16_eq b 0 (by omega)]; exact h2
    · rw [u16_eq b 12 (by omega)]; exact h3
    · rw [u8_eq]; omega

theorem linValid_iff (b : Bytes) : linValid b = true ↔ LinOk b := by
  unfold linValid
  simp only [Bool.and_eq_true, decide_eq_true_eq]
  constructor
  · rintro ⟨h1, h2⟩
    exact ⟨h1, by rw [← u8_eq]; omega⟩
  · rintro ⟨h1, h2⟩
    exact ⟨h1, by rw [u8_eq]; omega⟩

theorem ethValid_iff (b : Bytes) : ethValid b = true ↔ EthOk b := by
  unfold ethValid
  simp only [Bool.and_eq_true, decide_eq_true_eq, beq_iff_eq]
  constructor
  · rintro ⟨⟨h1, h2⟩, h3⟩
    refine ⟨h1, ?_, ?_⟩
    · rw [← u16_eq b 0 (by omega)]; exact h2
    · rw [← u16_eq b 4 (by omega)]; omega
  · rintro ⟨h1, h2, h3⟩
    refine ⟨⟨h1, ?_⟩, ?_⟩
    · rw [u16_eq b 0 (by omega)]; exact h2
    · rw [u16_eq b 4 (by omega)]; omega

theorem analogValid_iff (b : Bytes) : analogValid b = true ↔ AnalogOk b := by
  unfold analogValid
  simp only [Bool.and_eq_true, decide_eq_true_eq]
  constructor
  · rintro ⟨h1, h2⟩
    exact ⟨h1, by rw [← u8_eq]; exact h2⟩
  · rintro ⟨h1, h2⟩
    exact ⟨h1, by rw [u8_eq]; exact h2⟩

theorem blocksOk_iff (b : Bytes) : ∀ (n pos : Nat), pos ≤ b.length →
    (blocksOk n (b.drop pos) = true ↔ BlocksAt b n pos) := by
  intro n
  induction n with
  | zero => intro pos h; simp [blocksOk, BlocksAt, h]
  | succ n ih =>
    intro pos hpos
    unfold blocksOk BlocksAt
    have hl : (b.drop pos).length = b.length - pos := List.length_drop
    by_cases h2 : pos + 2 ≤ b.length
    · have hlt : ¬ (b.drop pos).length < 2 := by omega
      have hval : beDec ((b.drop pos).take 2) = u16 b pos := u16_eq b pos h2
      have hl2 : ((b.drop pos).drop 2).length = b.length - pos - 2 := by
        rw [List.length_drop, hl]
      simp only [hlt, if_false, hval, hl2]
      by_cases hfit : b.length - pos - 2 < u16 b pos
      · simp only [hfit, if_true, Bool.false_eq_true, false_iff]
        rintro ⟨_, hb⟩
        have : pos + 2 + u16 b pos ≤ b.length := by
          cases n with
          | zero => exact hb
          | succ n => exact Nat.le_trans (by omega) hb.1
        omega
      · simp only [hfit, if_false]
        have hd : ((b.drop pos).drop 2).drop (u16 b pos) = b.drop (pos + 2 + u16 b pos) := by
          rw [List.drop_drop, List.drop_drop, Nat.add_assoc]
        rw [hd, ih (pos + 2 + u16 b pos) (by omega)]
        exact ⟨fun h => ⟨h2, h⟩, fun h => h.2⟩
    · have hlt : (b.drop pos).length < 2 := by omega
      simp only [hlt, if_true, Bool.false_eq_true, false_iff]
      rintro ⟨h, _⟩
      exact h2 h

theorem cmValid_iff (b : Bytes) : cmValid b = true ↔ CmOk b := by
  unfold cmValid
  simp only [Bool.and_eq_true, decide_eq_true_eq]
  constructor
  · rintro ⟨h1, h2⟩
    exact ⟨h1, (blocksOk_iff b 5 26 h1).mp h2⟩
  · rintro ⟨h1, h2⟩
    exact ⟨h1, (blocksOk_iff b 5 26 h1).mpr h2⟩

theorem ifValid_iff (b : Bytes) : ifValid b = true ↔ IfOk b := by
  unfold ifValid
  simp only [Bool.and_eq_true, decide_eq_true_eq]
  constructor
  · rintro ⟨⟨h1, h2⟩, h3, h4⟩
    rw [u16_eq b 36 (by omega)] at h3 h4
    have h5 : 38 + (u16 b 36 + u16 b 36 % 2) + 2 ≤ b.length := by omega
    rw [u16_eq b _ (by omega)] at h4
    exact ⟨h1, by rw [← u8_eq]; exact h2, h5, by omega⟩
  · rintro ⟨h1, h2, h3, h4⟩
    refine ⟨⟨h1, by rw [u8_eq]; exact h2⟩, ?_, ?_⟩
    · rw [u16_eq b 36 (by omega)]; omega
    · rw [u16_eq b 36 (by omega), u16_eq b _ (by omega)]; omega

/-- the check `Packet::create` / `Packet.wf` applies to a payload of type `ty` accepts EXACTLY the payloads that are well-formed
    by the layout: a validator that became stricter (or laxer) than the layout, for any of the seven kinds, breaks this theorem -/
theorem validator_iff (ty : Nat) (d : Bytes) :
    (match validatorOf ty with | some v => v d | none => true) = true ↔ PayloadOk ty d := by
  unfold validatorOf tyCan tyCanFd tyLin tyAnalog tyEth tyCm tyIf
  by_cases h1 : ty = 0x0101
  · subst h1
    simp only [if_true, canValid_iff]
    exact ⟨fun h => ⟨fun _ => h, no, no, no, no, no, no⟩, fun h => h.can rfl⟩
  by_cases h2 : ty = 0x0102
  · subst h2
    simp only [Nat.reduceEqDiff, if_false, if_true, canValid_iff]
    exact ⟨fun h => ⟨no, fun _ => h, no, no, no, no, no⟩, fun h => h.canFd rfl⟩
  by_cases h3 : ty = 0x0103
  · subst h3
    simp only [Nat.reduceEqDiff, if_false, if_true, linValid_iff]
    exact ⟨fun h => ⟨no, no, fun _ => h, no, no, no, no⟩, fun h => h.lin rfl⟩
  by_cases h4 : ty = 0x0107
  · subst h4
    simp only [Nat.reduceEqDiff, if_false, if_true, analogValid_iff]
    exact ⟨fun h => ⟨no, no, no, fun _ => h, no, no, no⟩, fun h => h.analog rfl⟩
  by_cases h5 : ty = 0x0108
  · subst h5
    simp only [Nat.reduceEqDiff, if_false, if_true, ethValid_iff]
    exact ⟨fun h => ⟨no, no, no, no, fun _ => h, no, no⟩, fun h => h.eth rfl⟩
  by_cases h6 : ty = 0x0301
  · subst h6
    simp only [Nat.reduceEqDiff, if_false, if_true, cmValid_iff]
    exact ⟨fun h => ⟨no, no, no, no, no, fun _ => h, no⟩, fun h => h.cm rfl⟩
  by_cases h7 : ty = 0x0302
  · subst h7
    simp only [Nat.reduceEqDiff, if_false, if_true, ifValid_iff]
    exact ⟨fun h => ⟨no, no, no, no, no, no, fun _ => h⟩, fun h => h.ifs rfl⟩
  simp only [h1, h2, h3, h4, h5, h6, h7, if_false, true_iff]
  exact ⟨fun h => absurd h h1, fun h => absurd h h2, fun h => absurd h h3, fun h => absurd h h4, fun h => absurd h h5,
    fun h => absurd h h6, fun h => absurd h h7⟩

/-- the "generic / unknown" kinds are exactly the type codes other than the seven typed ones: a further `case` in
    `Packet::create` (with whatever validator) breaks this theorem -/
theorem validatorOf_none_iff (ty : Nat) :
    validatorOf ty = none ↔ ty ∉ [0x0101, 0x0102, 0x0103, 0x0107, 0x0108, 0x0301, 0x0302] := by
  unfold validatorOf tyCan tyCanFd tyLin tyAnalog tyEth tyCm tyIf
  simp only [List.mem_cons, List.not_mem_nil, or_false, not_or]
  constructor
  · intro h
    refine ⟨?_, ?_, ?_, ?_, ?_, ?_, ?_⟩ <;> intro he <;> subst he <;> simp at h
  · rintro ⟨h1, h2, h3, h4, h5, h6, h7⟩
    simp only [h1, h2, h3, h4, h5, h6, h7, if_false]

/-- which validator each typed kind gets (CAN-FD shares the CAN header layout) -/
theorem validatorOf_typed :
    validatorOf 0x0101 = some canValid ∧ validatorOf 0x0102 = some canValid ∧ validatorOf 0x0103 = some linValid ∧
    validatorOf 0x0107 = some analogValid ∧ validatorOf 0x0108 = some ethValid ∧ validatorOf 0x0301 = some cmValid ∧
    validatorOf 0x0302 = some ifValid := ⟨rfl, rfl, rfl, rfl, rfl, rfl, rfl⟩

/-! ### `Packet::create`, unfolded -/

/-- a well-formed payload of a non-zero type code — typed or generic — is kept: same type, same bytes -/
theorem create_of_ok (ty : Nat) (d : Bytes) (h0 : ty ≠ 0) (h : PayloadOk ty d) : create ty d = ⟨ty, d⟩ := by
  have hv := (validator_iff ty d).mpr h
  unfold create
  cases hval : validatorOf ty with
  | some v => rw [hval] at hv; simp only [hv, if_true]
  | none => simp only [h0, if_false]

/-- a payload that violates its kind's layout comes back as an invalid payload (type 0) of the same length holding zeros -/
theorem create_of_not_ok (ty : Nat) (d : Bytes) (h : ¬ PayloadOk ty d) : create ty d = ⟨0, zeros d.length⟩ := by
  have hv : ¬ (match validatorOf ty with | some v => v d | none => true) = true := fun hv => h ((validator_iff ty d).mp hv)
  unfold create
  cases hval : validatorOf ty with
  | some v =>
    rw [hval] at hv
    have : v d = false := by simpa using hv
    simp only [this, Bool.false_eq_true, if_false]
  | none => rw [hval] at hv; exact absurd rfl hv

theorem create_zero (d : Bytes) : create 0 d = ⟨0, zeros d.length⟩ := by
  unfold create
  have : validatorOf 0 = none := (validatorOf_none_iff 0).mpr (by decide)
  simp only [this, if_true]

/-- exact characterisation: `create` keeps type and bytes iff the code is non-zero and the payload is well-formed (or the input was
    the invalid all-zero payload already) -/
theorem create_keeps_iff (ty : Nat) (d : Bytes) :
    create ty d = ⟨ty, d⟩ ↔ (ty ≠ 0 ∧ PayloadOk ty d) ∨ (ty = 0 ∧ d = zeros d.length) := by
  constructor
  · intro h
    by_cases h0 : ty = 0
    · subst h0
      rw [create_zero] at h
      exact Or.inr ⟨rfl, (Payload.mk.inj h).2.symm⟩
    · refine Or.inl ⟨h0, ?_⟩
      apply Classical.byContradiction
      intro hn
      rw [create_of_not_ok ty d hn] at h
      exact h0 (Payload.mk.inj h).1.symm
  · rintro (⟨h0, h⟩ | ⟨h0, h⟩)
    · exact create_of_ok ty d h0 h
    · subst h0; rw [create_zero, ← h]

/-! ### the packets of the property's domain -/

/-- the domain of C01, from the property's text: a payload of 1..65535 bytes that is well-formed for its kind, non-zero message
    type and payload type byte (a 16-bit type code), version 1..255, common flags a byte without the error-in-payload bit 0x40,
    timestamp / interface id / vendor id within their wire widths -/
structure PacketOkWith (p : Packet) (pl : Payload) : Prop where
  hasPayload : p.payload = some pl
  nonEmpty : 1 ≤ pl.data.length
  short : pl.data.length ≤ 65535
  msgType : pl.ty / 256 % 256 ≠ 0
  rawType : pl.ty % 256 ≠ 0
  code16 : pl.ty < 65536
  version : 1 ≤ p.version ∧ p.version < 256
  flags : p.flags < 256 ∧ p.flags &&& 0x40 = 0
  ts : p.ts < 2 ^ 64
  ifId : p.ifId < 2 ^ 32
  vendorId : p.vendorId < 2 ^ 16
  wellFormed : PayloadOk pl.ty pl.data

def PacketOk (p : Packet) : Prop := ∃ pl, PacketOkWith p pl

/-- `Packet.WF` (the domain predicate of `C01_roundtrip`, which calls the library's validators) is exactly the spec-level domain -/
theorem WF_iff_PacketOk (p : Packet) : p.WF ↔ PacketOk p := by
  constructor
  · intro h
    obtain ⟨pl, hp, h1, h2, h3, h4, h5, h6, h7, h8, h9, h10, h11, h12, h13⟩ := C01.wf_unpack h
    refine ⟨pl, hp, h1, h2, h3, h4, h5, ⟨h6, h7⟩, ⟨h8, h9⟩, h10, h11, h12, ?_⟩
    apply (validator_iff pl.ty pl.data).mp
    cases hv : validatorOf pl.ty with
    | some v => exact h13 v hv
    | none => rfl
  · rintro ⟨pl, hp, h1, h2, h3, h4, h5, ⟨h6, h7⟩, ⟨h8, h9⟩, h10, h11, h12, h13⟩
    have hv := (validator_iff pl.ty pl.data).mpr h13
    unfold Packet.WF Packet.wf
    simp only [hp, Bool.and_eq_true, decide_eq_true_eq, Payload.mt, Payload.raw]
    exact ⟨⟨⟨⟨⟨⟨⟨⟨⟨⟨⟨⟨h1, h2⟩, decide_eq_true h3⟩, decide_eq_true h4⟩, h5⟩, h6⟩, h7⟩, h8⟩, h9⟩, h10⟩, h11⟩, h12⟩, hv⟩

/-- C01 over the spec-level domain: nothing in the hypotheses refers to the library's validators any more -/
theorem C01_roundtrip_spec (e : Enc) (d : DecState) (batch : List Packet) (c : Ctx) (v : Nat)
    (hc : c.ok = true) (hne : batch ≠ [])
    (hok : ∀ p ∈ batch, PacketOk p) (hver : ∀ p ∈ batch, p.version = v)
    (hdev : e.dev < 65536) (hstream : e.stream < 256) :
    let frames := (e.encode batch c).2.map (EFrame.bytes c.min)
    let r := decodeAll tecmpDecode d (frames.map some)
    P_C01 e.dev e.stream batch r.2 = true ∧ r.1 (e.dev, e.stream) = none :=
  C01.C01_roundtrip e d batch c v hc hne (fun p hp => (WF_iff_PacketOk p).mpr (hok p hp)) hver hdev hstream

/-! ## 2. The conclusion, unfolded -/

theorem map_eq_map_iff {α β γ : Type} (f : α → γ) (g : β → γ) : ∀ (l₁ : List α) (l₂ : List β),
    l₁.map f = l₂.map g ↔
      l₁.length = l₂.length ∧ ∀ i (h1 : i < l₁.length) (h2 : i < l₂.length), f l₁[i] = g l₂[i] := by
  intro l₁
  induction l₁ with
  | nil =>
    intro l₂
    cases l₂ with
    | nil => simp
    | cons b l₂ => simp
  | cons a l₁ ih =>
    intro l₂
    cases l₂ with
    | nil => simp
    | cons b l₂ =>
      simp only [List.map_cons, List.cons.injEq, ih l₂, List.length_cons, Nat.add_right_cancel_iff]
      constructor
      · rintro ⟨h0, hl, hi⟩
        refine ⟨hl, ?_⟩
        intro i h1 h2
        cases i with
        | zero => exact h0
        | succ i => exact hi i (by simpa using h1) (by simpa using h2)
      · rintro ⟨hl, hi⟩
        refine ⟨hi 0 (by simp) (by simp), hl, ?_⟩
        intro i h1 h2
        exact hi (i + 1) (by simpa using h1) (by simpa using h2)

/-- what the property's text says of one decoded packet `q` and the sent packet `p` -/
structure SameAs (dev stream : Nat) (q p : Packet) : Prop where
  payload : q.payload = p.payload
  version : q.version = p.version
  deviceId : q.deviceId = dev
  streamId : q.streamId = stream
  ts : q.ts = p.ts
  ifId : q.ifId = if p.mt = 1 then p.ifId else 0
  vendorId : q.vendorId = if p.mt = 3 ∨ p.mt = 0xFF then p.vendorId else 0
  flags : q.flags &&& 0xF3 = p.flags &&& 0xF3
  seq : q.seq = 0
  segType : q.segType = 0

theorem clearSeg_eq_iff (dev stream : Nat) (q p : Packet) :
    clearSeg q = obsSent dev stream p ↔ SameAs dev stream q p := by
  cases q
  unfold clearSeg obsSent
  simp only [Packet.mk.injEq]
  constructor
  · rintro ⟨h1, h2, h3, h4, h5, h6, h7, h8, h9, h10⟩
    exact ⟨h1, h2, h3, h4, h6, h7, h8, h9, h5, h10⟩
  · rintro ⟨h1, h2, h3, h4, h6, h7, h8, h9, h5, h10⟩
    exact ⟨h1, h2, h3, h4, h5, h6, h7, h8, h9, h10⟩

/-- `P_C01` holds exactly when there are as many decoded packets as sent ones and the i-th decoded packet carries the i-th sent
    packet's payload (type and bytes, hence message type), version, timestamp, interface id (data) / vendor id (status, vendor),
    flag bits other than the two segmentation bits, and the encoder's device and stream id -/
theorem P_C01_iff (dev stream : Nat) (batch decoded : List Packet) :
    P_C01 dev stream batch decoded = true ↔
      decoded.length = batch.length ∧
      ∀ i (h1 : i < decoded.length) (h2 : i < batch.length), SameAs dev stream decoded[i] batch[i] := by
  unfold P_C01
  rw [beq_iff_eq, map_eq_map_iff]
  simp only [clearSeg_eq_iff]

/-- the payload clause alone: same type code (message type and payload type byte) and same bytes -/
theorem SameAs.payload_fields {dev stream : Nat} {q p : Packet} (h : SameAs dev stream q p) :
    q.mt = p.mt ∧ q.rawType = p.rawType ∧ q.data = p.data ∧ q.payloadLength = p.payloadLength ∧ q.isValid = p.isValid := by
  simp only [Packet.mt, Packet.rawType, Packet.data, Packet.payloadLength, Packet.isValid, h.payload, and_self]

/-- C01 with the conclusion unfolded (spec-level domain) -/
theorem C01_fields (e : Enc) (d : DecState) (batch : List Packet) (c : Ctx) (v : Nat)
    (hc : c.ok = true) (hne : batch ≠ [])
    (hok : ∀ p ∈ batch, PacketOk p) (hver : ∀ p ∈ batch, p.version = v)
    (hdev : e.dev < 65536) (hstream : e.stream < 256) :
    let decoded := (decodeAll tecmpDecode d (((e.encode batch c).2.map (EFrame.bytes c.min)).map some)).2
    decoded.length = batch.length ∧
    ∀ i (h1 : i < decoded.length) (h2 : i < batch.length), SameAs e.dev e.stream decoded[i] batch[i] :=
  (P_C01_iff e.dev e.stream batch _).mp (C01_roundtrip_spec e d batch c v hc hne hok hver hdev hstream).1

open AsamCmp.Src AsamCmp.SrcGen AsamCmp.SrcEnc AsamCmp.SrcDec AsamCmp.C17b

/-! ## 3. Source level -/

/-! ### 3a. the single-packet overload -/

theorem encode1_src_struct (e : Enc) (p : Packet) (c : Ctx) (fuel : Nat)
    (hc : c.ok = true) (hmax : c.max < 2 ^ 32) (hp : p.Enc) (hq : e.seqc < 65536) (hf : 65536 ≤ fuel) :
    ∃ s', Encoder_encode_obj fuel (ofLL e.toLL) (pktIn p) c.min c.max
            = some (s', (e.encode [p] c).2.map (EFrame.bytes c.min)) ∧
      s'.f_sequenceCounter = (e.encode [p] c).1.seqc ∧ s'.f_messageType = (e.encode [p] c).1.curMt ∧
      s'.f_deviceId = e.dev ∧ s'.f_streamId = e.stream ∧ s'.f_cmpFrames = [] ∧ s'.f_cmpFrameTemplate = [] := by
  have h := encode1_src_gen (ofLL e.toLL) p c fuel hc hmax hf
  rw [toLL_ofLL] at h
  obtain ⟨r1, r2, r3, r4, r5, r6, r7⟩ := C07b.encodeLL_refines e [p] c hc (by
    intro x hx; rw [List.mem_singleton] at hx; subst hx; exact hp) hq
  refine ⟨ofLL (e.toLL.encode [p] c).1, ?_, r2, r3, r4, r5, r6, r7⟩
  rw [h, r1]

/-! ### 3b. the register bounds of the pending table are an invariant -/

/-- every pending reassembly: sequence counter a `uint16_t`, at most `N` bytes collected -/
def StReg (N : Nat) (d : DecState) : Prop := ∀ e q, d e = some q → q.seq < 65536 ∧ q.buf.length ≤ N
def TblReg (N : Nat) (t : Table) : Prop := ∀ x ∈ t, x.2.seq < 65536 ∧ x.2.payload.length ≤ N

theorem find_of_mem : ∀ (t : Table) (k : Ep) (v : SegPkt), (t.map (·.1)).Nodup → (k, v) ∈ t → t.find k = some v := by
  intro t
  induction t with
  | nil => intro k v _ h; cases h
  | cons x t ih =>
    intro k v hnd hm
    rw [List.map_cons, List.nodup_cons] at hnd
    rcases List.mem_cons.mp hm with hm | hm
    · subst hm
      exact find_cons_same t k v
    · have hne : k ≠ x.1 := by
        intro he
        apply hnd.1
        rw [← he]
        exact List.mem_map.mpr ⟨(k, v), hm, rfl⟩
      have := find_cons_other t x.1 k x.2 hne
      rw [this]
      exact ih k v hnd.2 hm

theorem tblReg_iff (N : Nat) (t : Table) (h : TableOk t) : TblReg N t ↔ StReg N t.abs := by
  constructor
  · intro hr e q hq
    rw [abs_apply] at hq
    cases hf : t.find e with
    | none => rw [hf] at hq; cases hq
    | some sp =>
      rw [hf] at hq
      have : absP sp = q := Option.some.inj hq
      subst this
      exact hr _ (find_mem t e sp hf)
  · intro hs x hx
    have hf := find_of_mem t x.1 x.2 h.1 hx
    have := hs x.1 (absP x.2) (by rw [abs_apply, hf]; rfl)
    exact this

theorem tblReg_to_TableReg (N : Nat) (t : Table) (h : TblReg N t) (hN : N + 65536 < 2 ^ 64) : TableReg t := by
  intro x hx
  have := h x hx
  exact ⟨this.1, by omega⟩

theorem StReg.mono {N N' : Nat} {d : DecState} (h : StReg N d) (hle : N ≤ N') : StReg N' d := by
  intro e q hq
  have := h e q hq
  exact ⟨this.1, by omega⟩

theorem walk_seg_le (ep : Ep) (ver mt : Nat) (r : Bytes) :
    ∀ m, (walk ep ver mt r).2 = .seg m → m.length ≤ r.length := by
  fun_induction walk ep ver mt r with
  | case1 r h0 => intro m h; cases h
  | case2 r h0 h1 => intro m h; cases h
  | case3 r h0 h1 len h2 =>
    intro m h
    simp only [Term.seg.injEq] at h
    subst h
    simp only [List.length_take]
    omega
  | case4 r h0 h1 len h2 p rest ih =>
    intro m h
    have := ih m h
    simp only [List.length_drop] at this
    omega

theorem fixLen_length_le (buf : Bytes) : (fixLen buf).length ≤ buf.length + 2 := by
  simp [fixLen, writeAt]; omega

theorem localStep_reg (N L : Nat) (P : Option Pending) (f : PFrame)
    (hP : ∀ q0, P = some q0 → q0.seq < 65536 ∧ q0.buf.length ≤ N) (hseq : f.seq < 65536)
    (hm : ∀ m, f.term = .seg m → 16 ≤ m.length ∧ m.length ≤ L) :
    ∀ q, (localStep P f).1 = some q → q.seq < 65536 ∧ q.buf.length ≤ N + L := by
  intro q hq
  unfold localStep at hq
  split at hq
  · cases hq
  · cases hq
  · rename_i m hterm
    obtain ⟨hm1, hm2⟩ := hm m hterm
    dsimp only at hq
    split at hq
    · simp only [Option.some.injEq] at hq
      subst hq
      exact ⟨hseq, by show m.length ≤ N + L; omega⟩
    · split at hq
      · cases hq
      · rename_i q0 hq0
        have hP0 : P = some q0 := by
          split at hq0
          · exact hq0
          · cases hq0
        obtain ⟨hs0, hb0⟩ := hP q0 hP0
        split at hq
        · split at hq
          · cases hq
          · simp only [Option.some.injEq] at hq
            subst hq
            refine ⟨Nat.mod_lt _ (by decide), ?_⟩
            show (fixLen (q0.buf ++ m.drop 16)).length ≤ N + L
            have := fixLen_length_le (q0.buf ++ m.drop 16)
            rw [List.length_append, List.length_drop] at this
            omega
        · cases hq

/-- one `decode` call on a buffer of `b.length` bytes lets a pending reassembly grow by at most that many bytes -/
theorem decode_stReg (N : Nat) (d : DecState) (b : Bytes) (h : StReg N d) :
    StReg (N + b.length) (decode d (some b)).1 := by
  show StReg (N + b.length) (decodeWith tecmpDecode d (some b)).1
  unfold decodeWith
  dsimp only
  split
  · exact h.mono (by omega)
  · split
    · exact h.mono (by omega)
    · rename_i h8 _
      intro e q hq
      by_cases he : (parseFrame b).ep = e
      · subst he
        rw [step_fst_same] at hq
        have hw : ∀ m, (parseFrame b).term = .seg m → 16 ≤ m.length ∧ m.length ≤ b.length := by
          intro m hm
          unfold parseFrame at hm
          dsimp only at hm
          refine ⟨walk_seg_length _ _ _ _ m hm, ?_⟩
          have := walk_seg_le _ _ _ _ m hm
          rw [List.length_drop] at this
          omega
        exact localStep_reg N b.length _ _ (fun q0 hq0 => h _ q0 hq0) (C03.beAt_two_lt b 6) hw q hq
      · rw [step_fst_other _ _ _ he] at hq
        have := h e q hq
        exact ⟨this.1, by omega⟩

/-- `decode_total_src` with the register bound of the table re-established in the conclusion (it is a precondition there): the
    per-call theorem can now be iterated from the registered statements alone -/
theorem decode_total_src_reg (t : Table) (pre b post : Bytes) (fuel N : Nat)
    (hT : TableOk t) (hR : TblReg N t) (hN : N + 65536 < 2 ^ 64) (hpre : 0 < pre.length) (h8 : 8 ≤ b.length)
    (hmem : (pre ++ b ++ post).length < 2 ^ 63) (hf : b.length ≤ fuel) :
    ∃ t' outs, Decoder_decode_obj fuel (tblSt t) (pre ++ b ++ post) pre.length b.length (SrcTec.tecmpExt fuel) =
        some (tblSt t', outs) ∧
      TableOk t' ∧ TblReg (N + b.length) t' ∧ t'.abs = (decode t.abs (some b)).1 ∧
      outs.map (Sum.elim toPacket SrcTec.tAbs) = (decode t.abs (some b)).2 := by
  obtain ⟨t1, o1, h1, hT1, habs1, ho1⟩ := decode_total_src t pre b post fuel hT (tblReg_to_TableReg N t hR hN) hpre h8
    hmem hf
  refine ⟨t1, o1, h1, hT1, ?_, habs1, ho1⟩
  rw [tblReg_iff _ _ hT1, habs1]
  exact decode_stReg N _ b ((tblReg_iff N t hT).mp hR)

/-! ### 3c. the translated `Decoder::decode`, called on a sequence of buffers lying one after the other in memory -/

/-- `decode(M + a, n₁)`, `decode(M + a + n₁, n₂)`, … on one decoder object, results concatenated -/
def srcDecodeSeq {F : Type} (fuel : Nat) (ext : Bytes → Nat → Nat → List F) (M : Bytes) :
    Decoder_St → Nat → List Nat → Option (Decoder_St × List (PktOut ⊕ F))
  | s, _, [] => some (s, [])
  | s, a, n :: ns =>
    match Decoder_decode_obj fuel s M a n ext with
    | none => none
    | some (s1, o1) =>
      match srcDecodeSeq fuel ext M s1 (a + n) ns with
      | none => none
      | some (s2, o2) => some (s2, o1 ++ o2)

/-- `decode_total_src` iterated: ANY sequence of buffers (CMP frames, TECMP messages, garbage) of 8 bytes or more each, from any
    table satisfying the invariants: the translated decoder is defined on every one of them and delivers, in total, exactly what
    the decoder model delivers; table invariant and register bounds hold again afterwards (so the theorem composes) -/
theorem decodeSeq_src (fuel : Nat) : ∀ (bs : List Bytes) (t : Table) (pre post : Bytes) (N : Nat),
    TableOk t → TblReg N t → 0 < pre.length → (∀ b ∈ bs, 8 ≤ b.length ∧ b.length ≤ fuel) →
    (pre ++ bs.flatten ++ post).length < 2 ^ 63 → N + bs.flatten.length + 65536 < 2 ^ 64 →
    ∃ t' outs, srcDecodeSeq fuel (SrcTec.tecmpExt fuel) (pre ++ bs.flatten ++ post) (tblSt t) pre.length (bs.map List.length)
        = some (tblSt t', outs) ∧
      TableOk t' ∧ TblReg (N + bs.flatten.length) t' ∧
      t'.abs = (decodeAll tecmpDecode t.abs (bs.map some)).1 ∧
      outs.map (Sum.elim toPacket SrcTec.tAbs) = (decodeAll tecmpDecode t.abs (bs.map some)).2 := by
  intro bs
  induction bs with
  | nil =>
    intro t pre post N hT hR _ _ _ _
    exact ⟨t, [], rfl, hT, by simpa using hR, rfl, rfl⟩
  | cons b bs ih =>
    intro t pre post N hT hR hpre hb hmem hN
    have e1 : pre ++ (b :: bs).flatten ++ post = pre ++ b ++ (bs.flatten ++ post) := by
      simp only [List.flatten_cons, List.append_assoc]
    have e2 : pre ++ (b :: bs).flatten ++ post = (pre ++ b) ++ bs.flatten ++ post := by
      simp only [List.flatten_cons, List.append_assoc]
    have hfl : (b :: bs).flatten.length = b.length + bs.flatten.length := by
      simp only [List.flatten_cons, List.length_append]
    obtain ⟨hb8, hbf⟩ := hb b (by simp)
    obtain ⟨t1, o1, h1, hT1, habs1, ho1⟩ := decode_total_src t pre b (bs.flatten ++ post) fuel hT
      (tblReg_to_TableReg N t hR (by omega)) hpre hb8 (by rw [← e1]; exact hmem) hbf
    have hR1 : TblReg (N + b.length) t1 := by
      rw [tblReg_iff _ _ hT1, habs1]
      exact decode_stReg N _ b ((tblReg_iff N t hT).mp hR)
    obtain ⟨t2, o2, h2, hT2, hR2, habs2, ho2⟩ := ih t1 (pre ++ b) post (N + b.length) hT1 hR1
      (by rw [List.length_append]; omega) (fun x hx => hb x (by simp [hx])) (by rw [← e2]; exact hmem)
      (by rw [hfl] at hN; omega)
    refine ⟨t2, o1 ++ o2, ?_, hT2, ?_, ?_, ?_⟩
    · rw [List.map_cons, srcDecodeSeq, e1, h1]
      dsimp only
      rw [← e1, e2]
      rw [List.length_append] at h2
      rw [h2]
    · rw [hfl, ← Nat.add_assoc]; exact hR2
    · rw [List.map_cons]
      show _ = (decodeAll tecmpDecode (decode t.abs (some b)).1 (bs.map some)).1
      rw [← habs1]; exact habs2
    · rw [List.map_cons, List.map_append, ho1, ho2, habs1]
      rfl

/-! ### 3d. translated encoder, then translated decoder: the sent packets come back -/

theorem PacketOk.enc {p : Packet} (h : PacketOk p) : p.Enc := by
  obtain ⟨pl, h⟩ := h
  refine ⟨by rw [h.hasPayload]; rfl, ?_⟩
  have := h.short
  simp only [Packet.data, h.hasPayload]
  omega

/-- size of every frame of an `encode` call: at least the 8 header bytes and `min`, at most `max` -/
theorem frame_sizes (e : Enc) (batch : List Packet) (c : Ctx) (hc : c.ok = true) :
    ∀ b ∈ (e.encode batch c).2.map (EFrame.bytes c.min), 8 ≤ b.length ∧ c.min ≤ b.length ∧ b.length ≤ c.max := by
  intro b hb
  obtain ⟨f, hf, rfl⟩ := List.mem_map.mp hb
  obtain ⟨hcap, h2, h3⟩ := Ctx.ok_cap hc
  have hu := ((encode_spec e batch c hcap).1 f hf).1.used
  rw [bytes_length]
  omega

/-- the decoding half, for the frames of the encoder MODEL laid out in memory: EVERY configuration (no bound on `max`), the
    fuel of the translated loops covering one frame -/
theorem decode_frames_src (e : Enc) (t : Table) (batch : List Packet) (c : Ctx) (v fuel N : Nat) (pre post : Bytes)
    (hc : c.ok = true) (hne : batch ≠ [])
    (hok : ∀ p ∈ batch, PacketOk p) (hver : ∀ p ∈ batch, p.version = v)
    (hdev : e.dev < 65536) (hstream : e.stream < 256)
    (hT : TableOk t) (hR : TblReg N t) (hpre : 0 < pre.length) (hf : c.max ≤ fuel)
    (frames : List Bytes) (hfr : frames = (e.encode batch c).2.map (EFrame.bytes c.min))
    (hmem : (pre ++ frames.flatten ++ post).length < 2 ^ 63) (hN : N + frames.flatten.length + 65536 < 2 ^ 64) :
    ∃ t' outs, srcDecodeSeq fuel (SrcTec.tecmpExt fuel) (pre ++ frames.flatten ++ post) (tblSt t) pre.length
          (frames.map List.length) = some (tblSt t', outs) ∧
      TableOk t' ∧ TblReg (N + frames.flatten.length) t' ∧ t'.find (e.dev, e.stream) = none ∧
      P_C01 e.dev e.stream batch (outs.map (Sum.elim toPacket SrcTec.tAbs)) = true := by
  have hsz := frame_sizes e batch c hc
  rw [← hfr] at hsz
  obtain ⟨t', outs, h1, hT', hR', habs, houts⟩ := decodeSeq_src fuel frames t pre post N hT hR hpre
    (fun b hb => by have := hsz b hb; omega) hmem hN
  obtain ⟨r1, r2⟩ := C01_roundtrip_spec e t.abs batch c v hc hne hok hver hdev hstream
  rw [← hfr, ← houts] at r1
  rw [← hfr, ← habs, abs_apply] at r2
  refine ⟨t', outs, h1, hT', hR', ?_, r1⟩
  cases hfd : t'.find (e.dev, e.stream) with
  | none => rfl
  | some sp => rw [hfd] at r2; cases r2

/-- C01 END TO END ON THE TRANSLATED SOURCE, iterator-range overloads of `Encoder::encode` (range of `Packet`, range of
    `shared_ptr<Packet>`): for every encoder object (ids and counter within their C types), every non-empty batch of the property's
    domain with one version, every configuration `25 ≤ max`, `min ≤ max` with `max < 2^32` (the bound of the translated
    ENCODER's theorem `encodeRange_src_struct`; the decoder half needs none since `Decoder::decode` keeps the remaining size in
    a `std::size_t`), fuel for the encoder's loops (2^16) and for one frame (`max`), every decoder table satisfying the
    invariants (any history), the frames lying anywhere in an address space that holds them (non-null: `pre` non-empty):
    the translated encoder is defined and returns frames on which the translated decoder, called frame by frame, is defined and
    returns packets that are the sent ones (`P_C01`); nothing stays pending on the encoder's endpoint; the decoder's invariants
    hold again -/
theorem C01_src_roundtrip (e : Enc) (t : Table) (batch : List Packet) (c : Ctx) (v fuel N : Nat) (pre post : Bytes)
    (hc : c.ok = true) (hmax : c.max < 2 ^ 32) (hne : batch ≠ [])
    (hok : ∀ p ∈ batch, PacketOk p) (hver : ∀ p ∈ batch, p.version = v)
    (hdev : e.dev < 65536) (hstream : e.stream < 256) (hq : e.seqc < 65536)
    (hT : TableOk t) (hR : TblReg N t) (hpre : 0 < pre.length) (hf : 65536 ≤ fuel) (hfm : c.max ≤ fuel) :
    ∃ s' frames,
      Encoder_encode_range_obj fuel (ofLL e.toLL) (batch.map pktIn) c.min c.max = some (s', frames) ∧
      Encoder_encode_ptrRange_obj fuel (ofLL e.toLL) (batch.map pktIn) c.min c.max = some (s', frames) ∧
      frames ≠ [] ∧
      ((pre ++ frames.flatten ++ post).length < 2 ^ 63 → N + frames.flatten.length + 65536 < 2 ^ 64 →
        ∃ t' outs, srcDecodeSeq fuel (SrcTec.tecmpExt fuel) (pre ++ frames.flatten ++ post) (tblSt t) pre.length
              (frames.map List.length) = some (tblSt t', outs) ∧
          TableOk t' ∧ TblReg (N + frames.flatten.length) t' ∧ t'.find (e.dev, e.stream) = none ∧
          P_C01 e.dev e.stream batch (outs.map (Sum.elim toPacket SrcTec.tAbs)) = true) := by
  obtain ⟨s', h1, h2, _⟩ := encodeRange_src_struct e batch c fuel hc hmax (fun p hp => (hok p hp).enc) hq hf
  refine ⟨s', _, h1, h2, ?_, fun hmem hN =>
    decode_frames_src e t batch c v fuel N pre post hc hne hok hver hdev hstream hT hR hpre hfm _ rfl hmem hN⟩
  intro hnil
  have r1 := (C01_roundtrip_spec e DecState.empty batch c v hc hne hok hver hdev hstream).1
  rw [hnil] at r1
  have := ((P_C01_iff _ _ _ _).mp r1).1
  simp only [List.map_nil, decodeAll, List.length_nil] at this
  exact hne (List.length_eq_zero_iff.mp this.symm)

/-- the same through the single-packet overload `Encoder::encode(const Packet&, const DataContext&)` (batches of one packet) -/
theorem C01_src_roundtrip_single (e : Enc) (t : Table) (p : Packet) (c : Ctx) (fuel N : Nat) (pre post : Bytes)
    (hc : c.ok = true) (hmax : c.max < 2 ^ 32) (hok : PacketOk p)
    (hdev : e.dev < 65536) (hstream : e.stream < 256) (hq : e.seqc < 65536)
    (hT : TableOk t) (hR : TblReg N t) (hpre : 0 < pre.length) (hf : 65536 ≤ fuel) (hfm : c.max ≤ fuel) :
    ∃ s' frames,
      Encoder_encode_obj fuel (ofLL e.toLL) (pktIn p) c.min c.max = some (s', frames) ∧
      ((pre ++ frames.flatten ++ post).length < 2 ^ 63 → N + frames.flatten.length + 65536 < 2 ^ 64 →
        ∃ t' outs, srcDecodeSeq fuel (SrcTec.tecmpExt fuel) (pre ++ frames.flatten ++ post) (tblSt t) pre.length
              (frames.map List.length) = some (tblSt t', outs) ∧
          TableOk t' ∧ TblReg (N + frames.flatten.length) t' ∧ t'.find (e.dev, e.stream) = none ∧
          P_C01 e.dev e.stream [p] (outs.map (Sum.elim toPacket SrcTec.tAbs)) = true) := by
  obtain ⟨s', h1, _⟩ := encode1_src_struct e p c fuel hc hmax hok.enc hq hf
  have hok' : ∀ x ∈ [p], PacketOk x := by intro x hx; rw [List.mem_singleton] at hx; subst hx; exact hok
  have hver : ∀ x ∈ [p], x.version = p.version := by intro x hx; rw [List.mem_singleton] at hx; subst hx; rfl
  exact ⟨s', _, h1, fun hmem hN =>
    decode_frames_src e t [p] c p.version fuel N pre post hc (by simp) hok' hver hdev hstream hT hR hpre hfm _ rfl hmem hN⟩

/-- a fresh decoder, the frames alone in memory behind one byte: only the address-space bound remains -/
theorem C01_src_roundtrip_fresh (e : Enc) (batch : List Packet) (c : Ctx) (v fuel : Nat)
    (hc : c.ok = true) (hmax : c.max < 2 ^ 32) (hne : batch ≠ [])
    (hok : ∀ p ∈ batch, PacketOk p) (hver : ∀ p ∈ batch, p.version = v)
    (hdev : e.dev < 65536) (hstream : e.stream < 256) (hq : e.seqc < 65536) (hf : 65536 ≤ fuel) (hfm : c.max ≤ fuel) :
    ∃ s' frames,
      Encoder_encode_range_obj fuel (ofLL e.toLL) (batch.map pktIn) c.min c.max = some (s', frames) ∧
      (frames.flatten.length + 1 < 2 ^ 63 →
        ∃ t' outs, srcDecodeSeq fuel (SrcTec.tecmpExt fuel) ([0] ++ frames.flatten ++ []) Decoder_default 1
              (frames.map List.length) = some (tblSt t', outs) ∧
          P_C01 e.dev e.stream batch (outs.map (Sum.elim toPacket SrcTec.tAbs)) = true) := by
  obtain ⟨s', frames, h1, _, _, h4⟩ := C01_src_roundtrip e [] batch c v fuel 0 [0] [] hc hmax hne hok hver hdev hstream hq
    tableOk_empty (by intro x hx; cases hx) (by decide) hf hfm
  refine ⟨s', frames, h1, fun hm => ?_⟩
  obtain ⟨t', outs, k1, _, _, _, k5⟩ := h4 (by simp only [List.length_append, List.length_singleton, List.length_nil]; omega)
    (by omega)
  exact ⟨t', outs, k1, k5⟩

/-! ### 3e. … also above 2 GiB -/

/-- THE CONFIGURATIONS ON WHICH THE SOURCE USED TO FAIL: for EVERY non-empty batch of the domain, every encoder object and every
    `DataContext` with `2^31 + 8 ≤ min ≤ max < 2^32` (so `25 ≤ max`, `min ≤ max`: inside the property's "every frame-size
    configuration"; e.g. min = max = 2^31 + 8) — every frame is then 2^31 + 8 bytes or longer — the translated encoder is defined
    and returns at least one frame, and the translated decoder, from any table satisfying the invariants, is defined on every one
    of these frames and returns the sent packets.  While `Decoder::decode` narrowed the remaining size to `int` it returned NO
    packet at all on these frames (the theorem in this place was the negative `C01_src_fails_2GiB`, same hypotheses on `c`).
    An instance of `C01_src_roundtrip`: nothing distinguishes these configurations any more. -/
theorem C01_src_roundtrip_from_2GiB (e : Enc) (t : Table) (batch : List Packet) (c : Ctx) (v fuel N : Nat)
    (pre post : Bytes)
    (hmin : 2 ^ 31 + 8 ≤ c.min) (hmm : c.min ≤ c.max) (hmax : c.max < 2 ^ 32) (hne : batch ≠ [])
    (hok : ∀ p ∈ batch, PacketOk p) (hver : ∀ p ∈ batch, p.version = v)
    (hdev : e.dev < 65536) (hstream : e.stream < 256) (hq : e.seqc < 65536)
    (hT : TableOk t) (hR : TblReg N t) (hpre : 0 < pre.length) (hf : c.max ≤ fuel) :
    c.ok = true ∧
    ∃ s' frames,
      Encoder_encode_range_obj fuel (ofLL e.toLL) (batch.map pktIn) c.min c.max = some (s', frames) ∧
      frames ≠ [] ∧ (∀ b ∈ frames, 2 ^ 31 + 8 ≤ b.length) ∧
      ((pre ++ frames.flatten ++ post).length < 2 ^ 63 → N + frames.flatten.length + 65536 < 2 ^ 64 →
        ∃ t' outs, srcDecodeSeq fuel (SrcTec.tecmpExt fuel) (pre ++ frames.flatten ++ post) (tblSt t) pre.length
              (frames.map List.length) = some (tblSt t', outs) ∧
          TableOk t' ∧ TblReg (N + frames.flatten.length) t' ∧ t'.find (e.dev, e.stream) = none ∧
          P_C01 e.dev e.stream batch (outs.map (Sum.elim toPacket SrcTec.tAbs)) = true) := by
  have hc : c.ok = true := by
    unfold Ctx.ok
    simp only [Bool.and_eq_true, decide_eq_true_eq]
    omega
  refine ⟨hc, ?_⟩
  obtain ⟨s', frames, h1, _, h3, h4⟩ := C01_src_roundtrip e t batch c v fuel N pre post hc hmax hne hok hver hdev hstream hq
    hT hR hpre (by omega) hf
  obtain ⟨s'', k1, _, _⟩ := encodeRange_src_struct e batch c fuel hc hmax (fun p hp => (hok p hp).enc) hq (by omega)
  have hfr : frames = (e.encode batch c).2.map (EFrame.bytes c.min) := by
    rw [h1] at k1
    exact (Prod.mk.inj (Option.some.inj k1)).2
  refine ⟨s', frames, h1, h3, ?_, h4⟩
  intro b hb
  rw [hfr] at hb
  have := frame_sizes e batch c hc b hb
  omega

/-! ### 3f. the record `pktIn p` the encoder theorems take IS what the translated `Packet` getters return -/

theorem PacketOk.fits {p : Packet} (h : PacketOk p) (hd : p.deviceId < 65536) (hs : p.streamId < 256)
    (hq : p.seq < 65536) (hg : p.segType < 256) : p.Fits := by
  obtain ⟨pl, h⟩ := h
  refine ⟨h.version.2, hd, hs, hq, h.ts, h.ifId, h.vendorId, h.flags.1, hg, ?_⟩
  intro pl' hpl'
  rw [h.hasPayload] at hpl'
  cases hpl'
  have := h.code16
  have := h.short
  exact ⟨by omega, by omega⟩

theorem pktIn_of_ok (p : Packet) (h : PacketOk p) (hd : p.deviceId < 65536) (hs : p.streamId < 256)
    (hq : p.seq < 65536) (hg : p.segType < 256) :
    Packet_getMessageType_pv (SrcPv.repr p) = some (SrcPv.repr p, (pktIn p).messageType) ∧
    Packet_getPayloadLength_pv (SrcPv.repr p) = some (SrcPv.repr p, (pktIn p).payloadLength) ∧
    (∃ q, Packet_getPayload_pv (SrcPv.repr p) = some (SrcPv.repr p, q) ∧ q.f_payloadData = (pktIn p).rawPayload) ∧
    Packet_getRawCmpHeader_pv (SrcPv.repr p) = some (SrcPv.repr p, (pktIn p).rawCmpHeader) ∧
    Packet_getRawMessageHeader_pv (SrcPv.repr p) = some (SrcPv.repr p, (pktIn p).rawMsgHeader) := by
  obtain ⟨pl, hpl⟩ := h
  exact SrcPv.pktIn_src p pl (PacketOk.fits ⟨pl, hpl⟩ hd hs hq hg) hpl.hasPayload

/-! ## 4. Instances -/

/-- the decoder model on the frames of the encoder model, computed through the two low-level models (which evaluate in the
    kernel: `Enc.encode` / `walk` recurse on a well-founded measure and do not) -/
theorem model_eval (e : Enc) (batch : List Packet) (c : Ctx) (hc : c.ok = true) (hb : ∀ p ∈ batch, p.Enc)
    (hq : e.seqc < 65536) :
    (decodeAll tecmpDecode DecState.empty (((e.encode batch c).2.map (EFrame.bytes c.min)).map some)).2 =
      (runLL [] ((e.toLL.encode batch c).2.map some)).2 ∧
    (e.encode batch c).2.map (EFrame.bytes c.min) = (e.toLL.encode batch c).2 := by
  have h1 := (C07b.encodeLL_refines e batch c hc hb hq).1
  rw [h1]
  exact ⟨(runLL_refines _).2.2.symm, rfl⟩

/-! ### (i) a capture-module status packet (message type 3, vendor id ≠ 0) cut into 39 one-byte segments at max = 25 -/

def exCmData : Bytes :=
  [0,0,0,0,0,0,0,1, 0,0,0,0,0,0,0,2, 0,0,0,0,0,0,0,3, 0,9,  0,2,0x41,0, 0,0, 0,0, 0,0, 0,1,0x7F]
def exCm : Packet :=
  { payload := some ⟨0x0301, exCmData⟩, version := 1, ts := 0x0102030405060708, vendorId := 0xBEEF, flags := 0x8D, ifId := 77,
    deviceId := 5, streamId := 6, seq := 9, segType := 2 }
/-- an encoder with history: counter about to wrap, last message type 1 -/
def exEnc : Enc := { dev := 0x1234, stream := 7, seqc := 65535, curMt := 1 }
def exCtx25 : Ctx := ⟨0, 25⟩

theorem exCm_ok : PacketOk exCm := (WF_iff_PacketOk exCm).mp (show exCm.wf = true by decide)

/-- the hypotheses of `C01_roundtrip_spec` / `C01_fields` hold of it … -/
example := C01_fields exEnc DecState.empty [exCm] exCtx25 1 (by decide) (by decide)
  (by intro p hp; rw [List.mem_singleton] at hp; subst hp; exact exCm_ok)
  (by intro p hp; rw [List.mem_singleton] at hp; subst hp; rfl) (by decide) (by decide)

set_option maxRecDepth 100000 in
/-- … the encoder produces 39 frames of 25 bytes (16 + 1 payload byte each), counters 0, 1, … (wrapped) … -/
example : (exEnc.toLL.encode [exCm] exCtx25).2.map (fun b => (b.length, beAt b 6 2, byteAt b 20 &&& 0x0C)) =
    (((0, 4) :: ((List.range 37).map fun i => (i + 1, 8)) ++ [(38, 12)]).map fun (x : Nat × Nat) => (25, x.1, x.2)) := by decide +kernel

set_option maxRecDepth 100000 in
/-- … and the decoder returns literally this packet: the sent payload, timestamp, vendor id, version; the ENCODER's ids (not the
    packet's 5 / 6); interface id 0; flags 0x8D without the sent segmentation bits, plus "last segment" set by the reassembly -/
example : (runLL [] ((exEnc.toLL.encode [exCm] exCtx25).2.map some)).2 =
    [{ payload := some ⟨0x0301, exCmData⟩, version := 1, deviceId := 0x1234, streamId := 7, seq := 0,
       ts := 0x0102030405060708, ifId := 0, vendorId := 0xBEEF, flags := 0x85, segType := 0 }] := by decide +kernel

/-! ### (ii) a mixed batch CAN / LIN / capture-module status / Ethernet / generic vendor message, aggregated at max = 1500 -/

def exCanData : Bytes := [0,0, 0,0, 0,0,0,0x12, 0,0,0,0, 0,0, 0,2, 0xAA,0xBB]
def exCan : Packet := { payload := some ⟨0x0101, exCanData⟩, version := 1, ts := 1000, ifId := 3 }
def exLin : Packet := { payload := some ⟨0x0103, [0,0, 0,0, 0x2A, 0, 0x55, 1, 0xC3]⟩, version := 1, ts := 1001, ifId := 4, flags := 0x80 }
def exEth : Packet := { payload := some ⟨0x0108, [0,0, 0,0, 0,3, 1,2,3]⟩, version := 1, ts := 1003, ifId := 5 }
def exGeneric : Packet := { payload := some ⟨0xFF42, [9,8,7]⟩, version := 1, ts := 1004, vendorId := 0x0777 }
def exBatch : List Packet := [exCan, exLin, exCm, exEth, exGeneric]
def exCtx1500 : Ctx := ⟨64, 1500⟩

theorem exBatch_ok : ∀ p ∈ exBatch, PacketOk p := by
  intro p hp
  apply (WF_iff_PacketOk p).mp
  show p.wf = true
  revert p
  decide

example := C01_fields exEnc DecState.empty exBatch exCtx1500 1 (by decide) (by decide) exBatch_ok (by decide) (by decide) (by decide)

/-- four frames (message type 1, 3, 1, 0xFF — a change of type closes the frame), the first holds CAN and LIN together; the
    short ones padded to min = 64 -/
example : (exEnc.toLL.encode exBatch exCtx1500).2.map (fun b => (b.length, byteAt b 4, beAt b 6 2)) =
    [(67, 1, 0), (64, 3, 1), (64, 1, 2), (64, 0xFF, 3)] := by decide +kernel

example : P_C01 0x1234 7 exBatch (runLL [] ((exEnc.toLL.encode exBatch exCtx1500).2.map some)).2 = true := by decide +kernel

example : (runLL [] ((exEnc.toLL.encode exBatch exCtx1500).2.map some)).2.map
      (fun p => ((p.mt, p.rawType, p.data.length, p.ts), (p.ifId, p.vendorId, p.flags), (p.deviceId, p.streamId))) =
    [((1, 1, 18, 1000), (3, 0, 0), (0x1234, 7)), ((1, 3, 9, 1001), (4, 0, 0x80), (0x1234, 7)),
     ((3, 1, 39, 0x0102030405060708), (0, 0xBEEF, 0x81), (0x1234, 7)), ((1, 8, 9, 1003), (5, 0, 0), (0x1234, 7)),
     ((0xFF, 0x42, 3, 1004), (0, 0x0777, 0), (0x1234, 7))] := by decide +kernel

/-! ### (iii) `P_C01` is not constant: one payload byte, the vendor id, the order, or a missing packet makes it false -/

example : P_C01 0x1234 7 [exCm]
    [{ payload := some ⟨0x0301, exCmData.set 38 0x7E⟩, version := 1, deviceId := 0x1234, streamId := 7,
       ts := 0x0102030405060708, vendorId := 0xBEEF, flags := 0x85 }] = false := by decide
example : P_C01 0x1234 7 [exCm]
    [{ payload := some ⟨0x0301, exCmData⟩, version := 1, deviceId := 0x1234, streamId := 7,
       ts := 0x0102030405060708, vendorId := 0xBEEE, flags := 0x85 }] = false := by decide
example : P_C01 0x1234 7 [exCan, exLin] ([exLin, exCan].map (obsSent 0x1234 7)) = false := by decide
example : P_C01 0x1234 7 [exCan, exLin] ([exCan].map (obsSent 0x1234 7)) = false := by decide
example : P_C01 0x1234 7 [exCan, exLin] ([exCan, exLin].map (obsSent 0x1234 7)) = true := by decide

/-! ### (iv) the boundary of "well-formed": error-flagged CAN / Ethernet messages do NOT survive the round trip -/

/-- `exCan` with the lowest error flag (CRC error) set in its flags word: still a complete CAN message (header, data length 2,
    two data bytes) -/
def exCanErr : Packet := { exCan with payload := some ⟨0x0101, [0,1, 0,0, 0,0,0,0x12, 0,0,0,0, 0,0, 0,2, 0xAA,0xBB]⟩ }
def exEthErr : Packet := { exEth with payload := some ⟨0x0108, [0,1, 0,0, 0,3, 1,2,3]⟩ }

/-- it is outside the domain only through the "no error flag" clause of the layout predicate … -/
theorem exCanErr_not_ok : ¬ PacketOk exCanErr ∧
    (16 ≤ exCanErr.data.length ∧ u16 exCanErr.data 12 = 0 ∧ 16 + u8 exCanErr.data 15 ≤ exCanErr.data.length) := by
  refine ⟨fun h => ?_, by decide⟩
  have : exCanErr.wf = true := (WF_iff_PacketOk _).mpr h
  revert this
  decide

/-- … the encoder sends it unchanged, and the decoder model (hence, by `decode_total_src`, the translated `Decoder::decode`)
    returns an INVALID payload: type 0, eighteen zero bytes.  If "well-formed CAN payload" in the property's text is read as
    "a complete CAN message", this is a violation of C01; the registered `C01_roundtrip` excludes the packet because `Packet.WF`
    asks the library's own validator. -/
theorem can_error_flag_lost :
    let decoded := (decodeAll tecmpDecode DecState.empty
      (((exEnc.encode [exCanErr] exCtx1500).2.map (EFrame.bytes exCtx1500.min)).map some)).2
    decoded.map (·.payload) = [some ⟨0, zeros 18⟩] ∧ P_C01 exEnc.dev exEnc.stream [exCanErr] decoded = false ∧
    -- the frame on the wire does carry the message, byte for byte
    ((exEnc.encode [exCanErr] exCtx1500).2.map (EFrame.bytes exCtx1500.min)).map (fun b => slice b 24 18) = [exCanErr.data] := by
  intro decoded
  obtain ⟨h1, h2⟩ := model_eval exEnc [exCanErr] exCtx1500 (by decide) (by
    intro p hp; rw [List.mem_singleton] at hp; subst hp; exact ⟨rfl, by decide⟩) (by decide)
  show (decodeAll tecmpDecode DecState.empty
      (((exEnc.encode [exCanErr] exCtx1500).2.map (EFrame.bytes exCtx1500.min)).map some)).2.map (·.payload) = _ ∧
    P_C01 _ _ _ (decodeAll tecmpDecode DecState.empty
      (((exEnc.encode [exCanErr] exCtx1500).2.map (EFrame.bytes exCtx1500.min)).map some)).2 = false ∧ _
  rw [h1, h2]
  decide +kernel

theorem eth_error_flag_lost :
    let decoded := (decodeAll tecmpDecode DecState.empty
      (((exEnc.encode [exEthErr] exCtx1500).2.map (EFrame.bytes exCtx1500.min)).map some)).2
    decoded.map (·.payload) = [some ⟨0, zeros 9⟩] ∧ P_C01 exEnc.dev exEnc.stream [exEthErr] decoded = false := by
  intro decoded
  obtain ⟨h1, _⟩ := model_eval exEnc [exEthErr] exCtx1500 (by decide) (by
    intro p hp; rw [List.mem_singleton] at hp; subst hp; exact ⟨rfl, by decide⟩) (by decide)
  show (decodeAll tecmpDecode DecState.empty
      (((exEnc.encode [exEthErr] exCtx1500).2.map (EFrame.bytes exCtx1500.min)).map some)).2.map (·.payload) = _ ∧
    P_C01 _ _ _ (decodeAll tecmpDecode DecState.empty
      (((exEnc.encode [exEthErr] exCtx1500).2.map (EFrame.bytes exCtx1500.min)).map some)).2 = false
  rw [h1]
  decide +kernel

/-! ### (v) the hypotheses of the source-level theorems are satisfiable -/

/-- the mixed batch through the translated range overloads and the translated decoder, fresh decoder -/
example := C01_src_roundtrip_fresh exEnc exBatch exCtx1500 1 65536 (by decide) (by decide) (by decide) exBatch_ok
  (by decide) (by decide) (by decide) (by decide) (Nat.le_refl _) (by decide)

/-- the segmented status packet through the single-packet overload, a decoder with a stale reassembly on the SAME endpoint -/
def exTable : Table := [((0x1234, 7), { payload := List.replicate 20 7, segType := 8, ver := 1, mt := 1, seq := 41 })]
theorem exTable_ok : TableOk exTable ∧ TblReg 20 exTable := by
  refine ⟨⟨by decide, ?_⟩, ?_⟩ <;> intro x hx <;> rw [exTable, List.mem_singleton] at hx <;> subst hx <;> decide

example := C01_src_roundtrip_single exEnc exTable exCm exCtx25 65536 20 [0xEE] [0xEE, 0xEE] (by decide) (by decide) exCm_ok
  (by decide) (by decide) (by decide) exTable_ok.1 exTable_ok.2 (by decide) (Nat.le_refl _) (by decide)

example := C01_src_roundtrip exEnc exTable exBatch exCtx1500 1 65536 20 [0xEE] [] (by decide) (by decide) (by decide)
  exBatch_ok (by decide) (by decide) (by decide) (by decide) exTable_ok.1 exTable_ok.2 (by decide) (Nat.le_refl _) (by decide)

/-- `decodeSeq_src` on two literal buffers: a TECMP message, then a CMP frame -/
example := decodeSeq_src 64 [SrcTec.exCanFd, SrcDec.exFrame] exTable [9] [5, 5] 20 exTable_ok.1 exTable_ok.2 (by decide)
  (by decide) (by decide) (by decide)

/-- the formerly failing configuration min = max = 2^31 + 8 = 2147483656 bytes, for the mixed batch and the decoder with the
    stale reassembly: every hypothesis of `C01_src_roundtrip_from_2GiB` and of `C01_src_roundtrip` itself holds -/
example := C01_src_roundtrip_from_2GiB exEnc exTable exBatch ⟨2 ^ 31 + 8, 2 ^ 31 + 8⟩ 1 (2 ^ 31 + 8) 20 [0xEE] []
  (by decide) (by decide) (by decide) (by decide) exBatch_ok (by decide) (by decide) (by decide) (by decide)
  exTable_ok.1 exTable_ok.2 (by decide) (Nat.le_refl _)
example := C01_src_roundtrip exEnc exTable exBatch ⟨2 ^ 31 + 8, 2 ^ 31 + 8⟩ 1 (2 ^ 31 + 8) 20 [0xEE] [] (by decide) (by decide)
  (by decide) exBatch_ok (by decide) (by decide) (by decide) (by decide) exTable_ok.1 exTable_ok.2 (by decide) (by decide)
  (Nat.le_refl _)
/-- … the largest configuration the encoder theorems reach, max = 2^32 − 1 -/
example := C01_src_roundtrip_fresh exEnc exBatch ⟨0, 2 ^ 32 - 1⟩ 1 (2 ^ 32) (by decide) (by decide) (by decide) exBatch_ok
  (by decide) (by decide) (by decide) (by decide) (by decide) (by decide)
/-- … in agreement with the model-level theorem, which never had a bound -/
example := C01_roundtrip_spec exEnc DecState.empty exBatch ⟨2 ^ 31 + 8, 2 ^ 31 + 8⟩ 1 (by decide) (by decide) exBatch_ok
  (by decide) (by decide) (by decide)

/-! ### (vi) the TRANSLATIONS themselves, evaluated by the kernel on the instances (no theorem involved): translated encoder
  (range overload, single-packet overload) = the frames computed above; translated decoder on those frames = the sent packets -/

def exFrames : List Bytes := (exEnc.toLL.encode exBatch exCtx1500).2

set_option maxRecDepth 100000 in
example : ((srcDecodeSeq 64 (SrcTec.tecmpExt 64) ([0] ++ exFrames.flatten ++ []) Decoder_default 1 (exFrames.map List.length)).map
    fun r => P_C01 0x1234 7 exBatch (r.2.map (Sum.elim toPacket SrcTec.tAbs))) = some true := by decide +kernel

set_option maxRecDepth 100000 in
example : ((Encoder_encode_range_obj 65536 (ofLL exEnc.toLL) (exBatch.map pktIn) 64 1500).map (·.2)) = some exFrames := by
  decide +kernel

set_option maxRecDepth 100000 in
example : ((Encoder_encode_obj 65536 (ofLL exEnc.toLL) (pktIn exCm) 0 25).map (·.2)) = some (exEnc.toLL.encode [exCm] exCtx25).2 := by
  decide +kernel
end AsamCmp.C01S
