/-
  C03  Payloads accepted by validation expose only in-bounds data.

  If a payload class's validity check accepts a buffer, then every accessor of a payload built from
  that buffer reads only inside it, and every variable-length view it reports lies entirely within
  the payload's own bytes.  The same holds for every packet a decoder returns as valid, and a buffer
  accepted by the message-level validity check can be turned into a packet without reading past its end.
-/
import AsamCmp.Access
import AsamCmp.Decoder
import AsamCmp.Lemmas.Access
namespace AsamCmp.C03
open AsamCmp

/-- C03 per class: the validator accepting `b` implies that no accessor reads outside `b` (the
    checked-read model returns `some`) and that every reported view lies inside `b` -/
theorem accessors_inbounds (k : String) (v : Bytes → Bool) (a : Bytes → Option (List View))
    (hk : kindValid k = some v) (ha : kindAccess k = some a) (b : Bytes) (hv : v b = true) :
    ∃ vs, a b = some vs ∧ ∀ x ∈ vs, x.inBounds b.length = true := by
  unfold kindValid at hk
  unfold kindAccess at ha
  split at hk
  · rename_i h; rw [if_pos h] at ha
    cases hk; cases ha; exact can_inb b hv
  · rename_i h; rw [if_neg h] at ha
    split at hk
    · rename_i h; rw [if_pos h] at ha
      cases hk; cases ha; exact lin_inb b hv
    · rename_i h; rw [if_neg h] at ha
      split at hk
      · rename_i h; rw [if_pos h] at ha
        cases hk; cases ha; exact eth_inb b hv
      · rename_i h; rw [if_neg h] at ha
        split at hk
        · rename_i h; rw [if_pos h] at ha
          cases hk; cases ha; exact analog_inb b hv
        · rename_i h; rw [if_neg h] at ha
          split at hk
          · rename_i h; rw [if_pos h] at ha
            cases hk; cases ha; exact cm_inb b hv
          · rename_i h; rw [if_neg h] at ha
            split at hk
            · rename_i h; rw [if_pos h] at ha
              cases hk; cases ha; exact if_inb b hv
            · cases hk

/-- the seven classes are all covered -/
theorem kinds_total (k : String) : (kindValid k).isSome = (kindAccess k).isSome := by
  unfold kindValid kindAccess
  repeat' split
  all_goals rfl

/-- message level: a buffer accepted by `Packet::isValidPacket` holds its 16 header bytes and the
    declared payload, which is exactly what the packet constructor reads -/
theorem msgValid_inbounds (r : Bytes) (h : msgValid r = true) :
    16 + beAt r 14 2 ≤ r.length ∧ (slice r 16 (beAt r 14 2)).length = beAt r 14 2 := by
  simp only [msgValid, Bool.and_eq_true, decide_eq_true_eq] at h
  obtain ⟨⟨⟨h16, hlen⟩, _⟩, _⟩ := h
  refine ⟨by omega, ?_⟩
  simp only [slice, List.length_take, List.length_drop]
  omega

/-- `Packet::create` marks a typed payload valid only if its validator accepted exactly the bytes
    the payload holds -/
theorem create_valid (ty : Nat) (d : Bytes) (h : (create ty d).isValid = true) :
    (create ty d).data = d ∧ (create ty d).ty = ty ∧ ∀ v, validatorOf ty = some v → v d = true := by
  unfold create at h ⊢
  split at h
  · rename_i v hv
    rw [hv]
    split at h
    · rename_i hvd
      rw [if_pos hvd]
      refine ⟨rfl, rfl, ?_⟩
      intro v' hv'
      cases hv'; exact hvd
    · simp [Payload.isValid, Payload.raw] at h
  · rename_i hv
    rw [hv]
    split at h
    · simp [Payload.isValid, Payload.raw] at h
    · rename_i h0
      rw [if_neg h0]
      refine ⟨rfl, rfl, ?_⟩
      intro v' hv'
      cases hv'

/-- the validator `Packet::create` uses for a payload type is the validator of that type's class -/
theorem validator_kind (ty : Nat) (k : String) (hk : kindOfTy ty = some k) :
    ∃ v, validatorOf ty = some v ∧ kindValid k = some v := by
  unfold kindOfTy at hk
  repeat' split at hk
  all_goals first
    | (cases hk; done)
    | (cases hk; subst_vars; exact ⟨_, rfl, rfl⟩)

/-- every packet the decoder returns for a capture-module frame, if marked valid and typed, exposes
    only in-bounds data through its class's accessors (any decoder state, any buffer) -/
theorem decoded_accessors_inbounds (s : DecState) (buf : Bytes) :
    ∀ p ∈ (step s (parseFrame buf)).2, ∀ pl, p.payload = some pl → pl.isValid = true →
      ∀ k a, kindOfTy pl.ty = some k → kindAccess k = some a →
        ∃ vs, a pl.data = some vs ∧ ∀ x ∈ vs, x.inBounds pl.data.length = true := by
  intro p hp pl hpl hvalid k a hk ha
  obtain ⟨ty, d, hpd⟩ := step_payload s buf p hp
  rw [hpl] at hpd
  have hpl' : pl = create ty d := Option.some.inj hpd
  subst hpl'
  obtain ⟨hdata, hty, hval⟩ := create_valid ty d hvalid
  rw [hty] at hk
  obtain ⟨v, hv1, hv2⟩ := validator_kind ty k hk
  rw [hdata]
  exact accessors_inbounds k v a hv2 ha d (hval v hv1)

/-- non-vacuity: a 20-byte CAN payload with 4 data bytes is valid and its data view is (16, 4) -/
example : canValid (zeros 15 ++ [4] ++ [1,2,3,4]) = true ∧
    canAccess (zeros 15 ++ [4] ++ [1,2,3,4]) = some [⟨"data", some 16, 4⟩] := by decide

/-- the repaired validators reject the header-only buffers the unrepaired ones accepted -/
example : cmValid (zeros 26) = false ∧ ifValid (zeros 36) = false ∧ linValid (zeros 7 ++ [200]) = false := by decide

end AsamCmp.C03
