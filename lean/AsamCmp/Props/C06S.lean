/-
  C06 (strengthening): additional theorems closing the weaknesses an independent review found in
  the statements registered for property C06.  Nothing here changes an existing definition or
  statement; every theorem is about the existing model (`localStep`, `step`, `runT`, `decodeWith`,
  `decodeAll`, `tecmpDecode`, `Enc.encode`, …).
-/
import AsamCmp.Props.C06b
namespace AsamCmp.C06S
open AsamCmp

/-! ## 1. recovery with traffic of other endpoints interleaved (review finding 1, 7) -/

theorem runT_append (s : DecState) (fs gs : List PFrame) :
    runT s (fs ++ gs) = ((runT (runT s fs).1 gs).1, (runT s fs).2 ++ (runT (runT s fs).1 gs).2) := by
  induction fs generalizing s with
  | nil => simp [runT]
  | cons f fs ih => simp only [List.cons_append, runT, ih, List.append_assoc]

/-- on frames of one endpoint the decoder table behaves as the single-endpoint automaton started
    from the table's entry for that endpoint -/
theorem runT_single (e : Ep) : ∀ (fs : List PFrame) (s : DecState), (∀ f ∈ fs, f.ep = e) →
    (runT s fs).2 = (runLocal (s e) fs).2.map (fun p => (e, p)) ∧
    (runT s fs).1 e = (runLocal (s e) fs).1 := by
  intro fs
  induction fs with
  | nil => intro s _; exact ⟨rfl, rfl⟩
  | cons f fs ih =>
    intro s h
    have hf : f.ep = e := h f (List.mem_cons_self ..)
    obtain ⟨h1, h2⟩ := ih (step s f).1 (fun g hg => h g (List.mem_cons_of_mem _ hg))
    subst hf
    rw [step_fst_same] at h1 h2
    simp only [runT, runLocal]
    rw [h1, h2, step_snd, List.map_append]
    exact ⟨rfl, rfl⟩

/-- `fault_recovery` without its (unused) length hypothesis -/
theorem fault_recovery' (S : SStream) (i0 : Nat) (f0 : SF) (h0 : S.at_ i0 = some (.segF f0)) (hk : f0.k = 0)
    (p : Option Pending) :
    runLocal p (S.cleanRun i0 f0) = (none, [S.expected i0 f0]) := by
  have hkn := S.kn i0 f0 h0
  have hh := S.hdrOk i0 f0 h0
  obtain ⟨len, hlen'⟩ : ∃ len, f0.n = len + 2 := ⟨f0.n - 2, by omega⟩
  unfold SStream.cleanRun
  generalize hFdef : (fun j => match S.at_ (i0 + j) with
    | some (.segF f) => some (⟨S.ep, f.ver, f.mt, S.seq (i0 + j), [], .seg (f.hdr ++ f.body)⟩ : PFrame)
    | _ => none) = F
  have hF : ∀ j f, S.at_ (i0 + j) = some (.segF f) →
      F j = some ⟨S.ep, f.ver, f.mt, S.seq (i0 + j), [], .seg (f.hdr ++ f.body)⟩ := by
    intro j f h
    rw [← hFdef]
    simp only [h]
  rw [List.range_eq_range', hlen', List.range'_succ,
    List.filterMap_cons_some (hF 0 f0 h0), runLocal_cons,
    localStep_first p _ (f0.hdr ++ f0.body) rfl
      (by rw [segTypeOf_appendF _ _ hh.1, hh.2, hk, segCode_zero])]
  simp only [List.nil_append]
  exact recover_tail S i0 f0 h0 hk F hF len 0 _ f0.hdr (by omega) hh.1 rfl
    (by rw [acc_zero S i0 f0 h0]) rfl (segCode_zero _).symm rfl rfl

theorem cleanRun_ep (S : SStream) (i0 : Nat) (f0 : SF) : ∀ f ∈ S.cleanRun i0 f0, f.ep = S.ep := by
  intro f hf
  unfold SStream.cleanRun at hf
  obtain ⟨j, _, hj⟩ := List.mem_filterMap.1 hf
  split at hj
  · cases hj; rfl
  · cases hj

/-- **Recovery, any number of endpoints.**  `fs` is an arbitrary history of frames of arbitrary
    endpoints fed to a decoder in an arbitrary state `s`.  If the frames of endpoint `S.ep` inside
    `fs` ("on its endpoint") are `pre`, then the clean frames of one message in order
    ("complete, in order and uninterrupted"), then `post`, the packets delivered for `S.ep` are
    exactly: what `pre` delivers, then the message, once, then what `post` delivers to a decoder
    with nothing pending.  Frames of other endpoints may sit anywhere, also between the segments. -/
theorem C06_recovery_interleaved (S : SStream) (i0 : Nat) (f0 : SF)
    (h0 : S.at_ i0 = some (.segF f0)) (hk : f0.k = 0)
    (fs pre post : List PFrame) (s : DecState)
    (hproj : fs.filter (fun f => f.ep = S.ep) = pre ++ S.cleanRun i0 f0 ++ post) :
    (runT s fs).2.filter (fun x => x.1 = S.ep) =
      ((runLocal (s S.ep) pre).2 ++ [S.expected i0 f0] ++ (runLocal none post).2).map
        (fun p => (S.ep, p)) := by
  have hall : ∀ f ∈ pre ++ S.cleanRun i0 f0 ++ post, f.ep = S.ep := by
    intro f hf
    rw [← hproj] at hf
    simpa using (List.mem_filter.1 hf).2
  have hpre : ∀ f ∈ pre, f.ep = S.ep := fun f hf => hall f (by simp [hf])
  have hpost : ∀ f ∈ post, f.ep = S.ep := fun f hf => hall f (by simp [hf])
  rw [(run_filter S.ep fs s s rfl).1, hproj, runT_append, runT_append]
  obtain ⟨a1, a2⟩ := runT_single S.ep pre s hpre
  obtain ⟨b1, b2⟩ := runT_single S.ep (S.cleanRun i0 f0) (runT s pre).1 (cleanRun_ep S i0 f0)
  obtain ⟨c1, _⟩ := runT_single S.ep post (runT (runT s pre).1 (S.cleanRun i0 f0)).1 hpost
  have hrec := fault_recovery' S i0 f0 h0 hk ((runT s pre).1 S.ep)
  rw [a1, b1, c1, b2, hrec]
  simp

/-- … and afterwards the entry of `S.ep` is whatever `post` leaves behind a decoder with nothing
    pending: the reassembly of the recovered message is closed -/
theorem C06_recovery_interleaved_state (S : SStream) (i0 : Nat) (f0 : SF)
    (h0 : S.at_ i0 = some (.segF f0)) (hk : f0.k = 0)
    (fs pre post : List PFrame) (s : DecState)
    (hproj : fs.filter (fun f => f.ep = S.ep) = pre ++ S.cleanRun i0 f0 ++ post) :
    (runT s fs).1 S.ep = (runLocal none post).1 := by
  have hall : ∀ f ∈ pre ++ S.cleanRun i0 f0 ++ post, f.ep = S.ep := by
    intro f hf
    rw [← hproj] at hf
    simpa using (List.mem_filter.1 hf).2
  have hpre : ∀ f ∈ pre, f.ep = S.ep := fun f hf => hall f (by simp [hf])
  have hpost : ∀ f ∈ post, f.ep = S.ep := fun f hf => hall f (by simp [hf])
  rw [(run_filter S.ep fs s s rfl).2, hproj, runT_append, runT_append]
  obtain ⟨_, b2⟩ := runT_single S.ep (S.cleanRun i0 f0) (runT s pre).1 (cleanRun_ep S i0 f0)
  obtain ⟨_, c2⟩ := runT_single S.ep post (runT (runT s pre).1 (S.cleanRun i0 f0)).1 hpost
  show (runT (runT (runT s pre).1 (S.cleanRun i0 f0)).1 post).1 S.ep = _
  rw [c2, b2, fault_recovery' S i0 f0 h0 hk]

/-- membership form: the recovered message IS delivered, tagged with its endpoint -/
theorem C06_recovery_interleaved_mem (S : SStream) (i0 : Nat) (f0 : SF)
    (h0 : S.at_ i0 = some (.segF f0)) (hk : f0.k = 0)
    (fs pre post : List PFrame) (s : DecState)
    (hproj : fs.filter (fun f => f.ep = S.ep) = pre ++ S.cleanRun i0 f0 ++ post) :
    (S.ep, S.expected i0 f0) ∈ (runT s fs).2 := by
  have h := C06_recovery_interleaved S i0 f0 h0 hk fs pre post s hproj
  have : (S.ep, S.expected i0 f0) ∈ (runT s fs).2.filter (fun x => x.1 = S.ep) := by
    rw [h]; simp
  exact (List.mem_filter.1 this).1

/-- **Recovery of unsegmented messages, any number of endpoints** (review finding 7): a frame of
    endpoint `e` that holds only unsegmented messages delivers them, whatever the faults left
    pending for `e` and whatever other endpoints sent in between, and closes `e`'s reassembly. -/
theorem C06_recovery_unseg_interleaved (e : Ep) (f : PFrame) (hfe : f.ep = e) (hf : ∀ m, f.term ≠ .seg m)
    (fs pre post : List PFrame) (s : DecState)
    (hproj : fs.filter (fun f => f.ep = e) = pre ++ [f] ++ post) :
    (runT s fs).2.filter (fun x => x.1 = e) =
      ((runLocal (s e) pre).2 ++ f.unseg ++ (runLocal none post).2).map (fun p => (e, p)) := by
  have hall : ∀ g ∈ pre ++ [f] ++ post, g.ep = e := by
    intro g hg
    rw [← hproj] at hg
    simpa using (List.mem_filter.1 hg).2
  have hpre : ∀ g ∈ pre, g.ep = e := fun g hg => hall g (by simp [hg])
  have hpost : ∀ g ∈ post, g.ep = e := fun g hg => hall g (by simp [hg])
  rw [(run_filter e fs s s rfl).1, hproj, runT_append, runT_append]
  obtain ⟨a1, a2⟩ := runT_single e pre s hpre
  obtain ⟨b1, b2⟩ := runT_single e [f] (runT s pre).1 (by simp [hfe])
  obtain ⟨c1, _⟩ := runT_single e post (runT (runT s pre).1 [f]).1 hpost
  have hstep : runLocal ((runT s pre).1 e) [f] = (none, f.unseg) := by
    simp only [runLocal, fault_recovery_unseg _ f hf, List.append_nil]
  rw [a1, b1, c1, b2, hstep]
  simp

/-! ## 2. what `expected` is, in the sender's terms (review findings 5, 6) -/

theorem slice_append_left (a b : Bytes) (off w : Nat) (h : off + w ≤ a.length) :
    slice (a ++ b) off w = slice a off w := by
  unfold slice
  rw [List.drop_append_of_le_length (by omega), List.take_append_of_le_length (by simp; omega)]

theorem slice_take (a : Bytes) (n off w : Nat) (h : off + w ≤ n) :
    slice (a.take n) off w = slice a off w := by
  unfold slice
  rw [List.drop_take, List.take_take, Nat.min_eq_left (by omega)]

/-- header fields in front of the length field survive the length rewrite -/
theorem beAt_hdr_lo (h v B : Bytes) (off w : Nat) (hh : h.length = 16) (hw : off + w ≤ 14) :
    beAt (h.take 14 ++ v ++ B) off w = beAt h off w := by
  unfold beAt
  rw [List.append_assoc, slice_append_left _ _ _ _ (by simp [hh]; omega), slice_take _ _ _ _ hw]

/-- **The expected packet in the sender's terms.**  For a message of at most 65535 payload bytes
    (the width of the wire format's length field) the packet `Good` / the recovery theorems speak
    of is: payload built by `Packet::create` from the FIRST segment's payload-type byte and the
    concatenation of the declared bodies of segments `0 … n-1` in order (`S.acc`: no hole, no
    repetition), every header field read from the FIRST segment's header as sent, version and
    message type of the first segment as sent, ids of the endpoint. -/
theorem expected_eq (S : SStream) (i0 : Nat) (f0 : SF) (h0 : S.at_ i0 = some (.segF f0))
    (hlen : (S.acc i0 (f0.n - 1)).length ≤ 65535) :
    S.expected i0 f0 =
      { payload := some (create (f0.mt * 256 + byteAt f0.hdr 13) (S.acc i0 (f0.n - 1)))
        version := f0.ver, deviceId := S.ep.1, streamId := S.ep.2, seq := 0
        ts := beAt f0.hdr 0 8
        ifId := if f0.mt = 1 then beAt f0.hdr 8 4 else 0
        vendorId := if f0.mt = 3 ∨ f0.mt = 0xFF then beAt f0.hdr 10 2 else 0
        flags := byteAt f0.hdr 12, segType := 0 } := by
  have h16 := (S.hdrOk i0 f0 h0).1
  have hmod : (S.acc i0 (f0.n - 1)).length % 65536 = (S.acc i0 (f0.n - 1)).length := by omega
  unfold SStream.expected
  rw [fixLen_append _ _ h16, lenField_small _ hlen]
  simp only [tagPacket, Packet.ofMsg, byteAt_hdr _ _ _ 13 (by omega) h16,
    byteAt_hdr _ _ _ 12 (by omega) h16, beAt_hdr _ _ _ h16, hmod, slice_hdr _ _ _ h16,
    beAt_hdr_lo _ _ _ 0 8 h16 (by omega), beAt_hdr_lo _ _ _ 8 4 h16 (by omega),
    beAt_hdr_lo _ _ _ 10 2 h16 (by omega)]

/-- the flags of a reassembled packet are the first segment's flags byte as sent, whatever the
    length: in particular its segmentation bits read "first segment" (4), never 8 or 12 -/
theorem expected_flags (S : SStream) (i0 : Nat) (f0 : SF) (h0 : S.at_ i0 = some (.segF f0)) (hk : f0.k = 0) :
    (S.expected i0 f0).flags = byteAt f0.hdr 12 ∧ (S.expected i0 f0).flags &&& 0x0C = 4 := by
  obtain ⟨h16, hseg⟩ := S.hdrOk i0 f0 h0
  have : (S.expected i0 f0).flags = byteAt f0.hdr 12 := by
    unfold SStream.expected
    rw [fixLen_append _ _ h16]
    simp only [tagPacket, Packet.ofMsg, byteAt_hdr _ _ _ 12 (by omega) h16]
  refine ⟨this, ?_⟩
  rw [this]
  rw [hk, segCode_zero] at hseg
  exact hseg

/-- an unsegmented message delivered by the message loop never carries segmentation bits -/
theorem walk_flags (ep : Ep) (ver mt : Nat) (r : Bytes) :
    ∀ p ∈ (walk ep ver mt r).1, p.flags &&& 0x0C = 0 := by
  fun_induction walk ep ver mt r with
  | case1 r h0 => simp
  | case2 r h0 h1 => simp
  | case3 r h0 h1 len h2 => simp
  | case4 r h0 h1 len h2 p rest ih =>
    intro x hx
    simp only [List.mem_cons] at hx
    rcases hx with hx | hx
    · subst hx
      simpa [p, tagPacket, Packet.ofMsg] using h2
    · exact ih x hx

/-! ## 3. byte histories of several endpoints (review findings 1, 4)

`decodeAllT` is `decodeAll` with every delivered packet tagged by the endpoint the BUFFER that
produced it addresses (`bufEp`: `none` for null / short / TECMP buffers).  It is tied to the
existing `decodeAll` by `decodeAllT_untag`; it is needed only to say "the packets delivered for
endpoint E" on bytes (a packet's own device id does not identify the buffer: TECMP packets carry
arbitrary device ids). -/

def decodeAllT (tecmp : Bytes → List Packet) (s : DecState) :
    List (Option Bytes) → DecState × List (Option Ep × Packet)
  | [] => (s, [])
  | b :: bs =>
    let r := decodeWith tecmp s b
    let r' := decodeAllT tecmp r.1 bs
    (r'.1, r.2.map (fun p => (bufEp b, p)) ++ r'.2)

theorem decodeAllT_untag (t : Bytes → List Packet) (s : DecState) (bs : List (Option Bytes)) :
    (decodeAllT t s bs).1 = (decodeAll t s bs).1 ∧ (decodeAllT t s bs).2.map (·.2) = (decodeAll t s bs).2 := by
  induction bs generalizing s with
  | nil => exact ⟨rfl, rfl⟩
  | cons b bs ih =>
    obtain ⟨h1, h2⟩ := ih (decodeWith t s b).1
    simp only [decodeAllT, decodeAll]
    refine ⟨h1, ?_⟩
    rw [List.map_append, h2, List.map_map]
    congr 1
    exact List.map_id _

theorem decodeAll_append (t : Bytes → List Packet) (s : DecState) (as bs : List (Option Bytes)) :
    decodeAll t s (as ++ bs) =
      ((decodeAll t (decodeAll t s as).1 bs).1, (decodeAll t s as).2 ++ (decodeAll t (decodeAll t s as).1 bs).2) := by
  induction as generalizing s with
  | nil => simp [decodeAll]
  | cons a as ih => simp only [List.cons_append, decodeAll, ih, List.append_assoc]

/-- C18 on bytes in list form: the packets delivered for endpoint `e` over an arbitrary history of
    buffers, and the final entry of `e`, are those of the sub-history of buffers addressing `e`,
    from any two decoder states that agree at `e` -/
theorem decodeAllT_filter (t : Bytes → List Packet) (e : Ep) :
    ∀ (bs : List (Option Bytes)) (s s' : DecState), s e = s' e →
    (decodeAllT t s bs).2.filter (fun x => x.1 = some e) =
      (decodeAllT t s' (bs.filter (fun b => bufEp b = some e))).2 ∧
    (decodeAllT t s bs).1 e = (decodeAllT t s' (bs.filter (fun b => bufEp b = some e))).1 e := by
  intro bs
  induction bs with
  | nil => intro s s' h; exact ⟨rfl, h⟩
  | cons b bs ih =>
    intro s s' h
    by_cases hb : bufEp b = some e
    · obtain ⟨bb, rfl, hep, hdec⟩ := decodeWith_of_bufEp t b e hb
      have hfilt : (some bb :: bs).filter (fun b => bufEp b = some e)
          = some bb :: bs.filter (fun b => bufEp b = some e) := by simp [hb]
      rw [hfilt]
      simp only [decodeAllT, hdec, hb]
      have hout : (step s (parseFrame bb)).2 = (step s' (parseFrame bb)).2 := by
        simp [step, hep, h]
      have hst : (step s (parseFrame bb)).1 e = (step s' (parseFrame bb)).1 e := by
        simp [step, DecState.set, hep, h]
      obtain ⟨h1, h2⟩ := ih _ _ hst
      refine ⟨?_, h2⟩
      rw [List.filter_append, h1, hout]
      congr 1
      rw [List.filter_eq_self]
      intro x hx
      obtain ⟨p, _, rfl⟩ := List.mem_map.1 hx
      simp
    · have hfilt : (b :: bs).filter (fun b => bufEp b = some e)
          = bs.filter (fun b => bufEp b = some e) := by simp [hb]
      rw [hfilt]
      simp only [decodeAllT]
      have hst : (decodeWith t s b).1 e = s' e := by rw [decodeWith_other t s b e hb, h]
      obtain ⟨h1, h2⟩ := ih _ _ hst
      refine ⟨?_, h2⟩
      rw [List.filter_append, h1]
      have : (List.map (fun p => (bufEp b, p)) (decodeWith t s b).2).filter (fun x => x.1 = some e) = [] := by
        rw [List.filter_eq_nil_iff]
        intro x hx
        obtain ⟨p, _, rfl⟩ := List.mem_map.1 hx
        simp [hb]
      rw [this, List.nil_append]

/-- on buffers that all address `e` every output is tagged `e` -/
theorem decodeAllT_tags (t : Bytes → List Packet) (e : Ep) :
    ∀ (bs : List (Option Bytes)) (s : DecState), (∀ b ∈ bs, bufEp b = some e) →
    (decodeAllT t s bs).2 = (decodeAll t s bs).2.map (fun p => (some e, p)) := by
  intro bs
  induction bs with
  | nil => intro s _; rfl
  | cons b bs ih =>
    intro s h
    simp only [decodeAllT, decodeAll, List.map_append]
    rw [ih _ (fun x hx => h x (List.mem_cons_of_mem _ hx)), h b (List.mem_cons_self ..)]

theorem filter_addr (e : Ep) (bs : List (Option Bytes)) (h : ∀ b ∈ bs, bufEp b = some e) :
    bs.filter (fun b => bufEp b = some e) = bs := by
  rw [List.filter_eq_self]
  intro b hb
  simp [h b hb]

/-- what buffers addressing `e` deliver, and the entry of `e` they leave, depends on the decoder
    state only through the entry of `e` -/
theorem decodeAll_congr (t : Bytes → List Packet) (e : Ep) (bs : List (Option Bytes))
    (h : ∀ b ∈ bs, bufEp b = some e) (s s' : DecState) (hs : s e = s' e) :
    (decodeAll t s bs).2 = (decodeAll t s' bs).2 ∧ (decodeAll t s bs).1 e = (decodeAll t s' bs).1 e := by
  obtain ⟨h1, h2⟩ := decodeAllT_filter t e bs s s' hs
  rw [filter_addr e bs h] at h1 h2
  have hall : ∀ x ∈ (decodeAllT t s bs).2, x.1 = some e := by
    intro x hx
    rw [decodeAllT_tags t e bs s h] at hx
    obtain ⟨p, _, rfl⟩ := List.mem_map.1 hx
    rfl
  rw [List.filter_eq_self.2 (fun x hx => by simp [hall x hx])] at h1
  refine ⟨?_, ?_⟩
  · rw [← (decodeAllT_untag t s bs).2, ← (decodeAllT_untag t s' bs).2, h1]
  · rw [← (decodeAllT_untag t s bs).1, ← (decodeAllT_untag t s' bs).1, h2]

/-- transfer principle: whatever is delivered for endpoint `e` in an arbitrary byte history, by a
    decoder that starts with nothing pending for `e`, is delivered by the empty decoder on the
    sub-history of buffers addressing `e` -/
theorem isolate_mem (t : Bytes → List Packet) (e : Ep) (bufs arr : List (Option Bytes)) (s : DecState)
    (hs : s e = none) (hproj : bufs.filter (fun b => bufEp b = some e) = arr) :
    ∀ x ∈ (decodeAllT t s bufs).2, x.1 = some e → x.2 ∈ (decodeAll t DecState.empty arr).2 := by
  intro x hx hxe
  have hmem : x ∈ (decodeAllT t s bufs).2.filter (fun x => x.1 = some e) :=
    List.mem_filter.2 ⟨hx, by simp [hxe]⟩
  rw [(decodeAllT_filter t e bufs s DecState.empty hs).1, hproj] at hmem
  rw [← (decodeAllT_untag t DecState.empty arr).2]
  exact List.mem_map.2 ⟨x, hmem, rfl⟩

/-! ## 4. end to end on bytes: exact flags, several endpoints, recovery (findings 1, 4, 5) -/

open AsamCmp.C06b AsamCmp.C01

/-- the `Setup` of one `encode` call (as built inside the proof of `C06b.C06_bytes`) -/
def mkSetup (e : Enc) (batch : List Packet) (c : Ctx) (v : Nat)
    (hc : c.ok = true) (hwf : ∀ p ∈ batch, p.WF) (hver : ∀ p ∈ batch, p.version = v)
    (hdev : e.dev < 65536) (hstream : e.stream < 256)
    (hN : (e.encode batch c).2.length < 65536) (hv1 : 1 ≤ v) (hv2 : v < 256) : Setup :=
  have hmemb : ∀ ip ∈ (List.range batch.length).zip batch, ip.2 ∈ batch := by
    intro ip hip
    rw [← zip_snd batch]; exact List.mem_map_of_mem hip
  { c := c, min := c.min, dev := e.dev, stream := e.stream, v := v,
    ib := (List.range batch.length).zip batch, fs := (e.encode batch c).2,
    hcap := (Ctx.ok_cap hc).1, hdev := hdev, hstream := hstream, hv1 := hv1, hv := hv2,
    hwf := fun ip hip => hwf _ (hmemb ip hip), hver := fun ip hip => hver _ (hmemb ip hip),
    hg := C01.encode_good e batch c v (Ctx.ok_cap hc).1 hwf hver hv2,
    hflat := (encode_spec e batch c (Ctx.ok_cap hc).1).2.1, hN := hN }

theorem zip_mem (batch : List Packet) : ∀ ip ∈ (List.range batch.length).zip batch, ip.2 ∈ batch := by
  intro ip hip
  rw [← zip_snd batch]; exact List.mem_map_of_mem hip

/-- every delivered packet is `Good` for the stream of the `encode` call (the first half of the
    proof of `bytes_safe`) -/
theorem good_of_arrived (X : Setup) (arr : List Bytes)
    (harr : ∀ b ∈ arr, ∃ i, ArrP X.fs X.min b i) (hside : SideP X arr) :
    ∀ p ∈ (decodeAll tecmpDecode DecState.empty (arr.map some)).2, Good X.S p := by
  intro p hp
  rw [decode_arr X arr harr] at hp
  have hcopy : ∀ g ∈ arr.map parseFrame, ∃ i, Copy X.S g i := by
    intro g hg
    obtain ⟨b, hb', rfl⟩ := List.mem_map.mp hg
    obtain ⟨i, hi⟩ := harr b hb'
    exact ⟨i, (arr_copy X hi).1⟩
  exact C06_no_corruption X.S _ (side_of X arr harr hside) hcopy p hp

/-- a `Good` packet of an `encode` call, WITHOUT masking the segmentation bits: it is the packet
    `dec` of a packet of the batch, whose flags carry 0 if that packet fitted a frame and 4 (the
    first segment's bits) if the encoder had to segment it -/
theorem good_exact (X : Setup) (o : Packet) (h : Good X.S o) :
    ∃ ip ∈ X.ib, o = dec X.dev X.stream X.v ip.2 (if 16 + ip.2.data.length ≤ X.c.cap then 0 else 4) := by
  rcases h with ⟨i, pkts, t, hat, ho⟩ | ⟨i0, sf, hat, hk, rfl⟩
  · obtain ⟨f, hf, hall, rfl, _⟩ := sentOf_unseg_inv X hat
    have hfo := X.hg.1 f (frame_mem X hf)
    obtain ⟨t', _, hp⟩ := parse_unseg X.min f hfo.toHdrOk X.hdev X.hstream X.hv
      (fun m hm => ⟨(hfo.msgs m hm).wf, hfo.mts m hm, hall m hm, (hfo.msgs m hm).whole (hall m hm)⟩)
    unfold PF at ho
    rw [hp] at ho
    simp only [List.mem_map] at ho
    obtain ⟨m, hm, rfl⟩ := ho
    have hmf : m ∈ X.fs.flatMap (·.msgs) := List.mem_flatMap.mpr ⟨f, frame_mem X hf, hm⟩
    rw [X.hflat] at hmf
    obtain ⟨ip, hip, hmp⟩ := List.mem_flatMap.mp hmf
    refine ⟨ip, hip, ?_⟩
    rw [pieces_eq X.c ip.1 ip.2 (X.hwf ip hip)] at hmp
    by_cases hfit : 16 + ip.2.data.length ≤ X.c.cap
    · rw [if_pos hfit] at hmp
      simp only [List.mem_singleton] at hmp
      rw [if_pos hfit, hmp]
      rfl
    · rw [if_neg hfit] at hmp
      have := (segMsgs_mem _ _ _ _ m hmp).2.2.1
      have := hall m hm
      omega
  · obtain ⟨f, ip, i0', j, x, hf, hip, hij, hrun, h2, hx, hfm, hfmt, rfl⟩ := sentOf_seg_inv X hat
    simp only at hk
    subst hk
    have hi0 : i0' = i0 := by omega
    subst hi0
    have hp := X.hwf ip hip
    have hd := wf_data hp
    have hn : 0 < X.c.cap - 16 := by have := X.hcap; omega
    have hacc := acc_run X hip hrun ((chunks (X.c.cap - 16) ip.2.data).length - 1) (by omega)
    rw [show (chunks (X.c.cap - 16) ip.2.data).length - 1 + 1 = (chunks (X.c.cap - 16) ip.2.data).length by omega,
      List.take_length, chunks_flatten _ hn] at hacc
    refine ⟨ip, hip, ?_⟩
    rw [if_neg hrun.1]
    unfold SStream.expected
    simp only [hacc, segCode_zero]
    rw [fixLen_append _ _ (msgHeader_length ..), msgHeader_14, List.take_left' (hdr14_length ip.2 4),
      lenField_small _ hd.2]
    have := ofMsg_obs hp (seg := 4) (by simp) []
    rw [List.append_nil] at this
    rw [this]
    rfl

/-- the packet the decoder must hand out for a sent packet `q`, with NO field masked: the flags
    are `q`'s flags with the two segmentation bits replaced by 0 (the packet fitted one frame of
    capacity `cap`) or by 4 (it was segmented: the reassembled packet keeps the first segment's
    header) -/
def sentAs (dev stream cap : Nat) (q : Packet) : Packet :=
  { payload := q.payload, version := q.version, deviceId := dev, streamId := stream, seq := 0, ts := q.ts,
    ifId := if q.mt = 1 then q.ifId else 0,
    vendorId := if q.mt = 3 ∨ q.mt = 0xFF then q.vendorId else 0,
    flags := (q.flags &&& 0xF3) ||| (if 16 + q.data.length ≤ cap then 0 else 4), segType := 0 }

theorem sentAs_clearSeg (dev stream cap : Nat) (q : Packet) (hfl : q.flags < 256) :
    clearSeg (sentAs dev stream cap q) = obsSent dev stream q := by
  have : ((q.flags &&& 0xF3) ||| (if 16 + q.data.length ≤ cap then 0 else 4)) &&& 0xF3 = q.flags &&& 0xF3 := by
    split
    · exact flags_clear _ hfl 0 (by decide)
    · exact flags_clear _ hfl 1 (by decide)
  simp [clearSeg, sentAs, obsSent, this]

theorem bytes_exact_core (e : Enc) (batch : List Packet) (c : Ctx) (v : Nat)
    (hc : c.ok = true) (hwf : ∀ p ∈ batch, p.WF) (hver : ∀ p ∈ batch, p.version = v)
    (hdev : e.dev < 65536) (hstream : e.stream < 256)
    (hN : (e.encode batch c).2.length < 65536)
    (arr : List Bytes)
    (harr : ∀ b ∈ arr, ∃ i, Arrived (e.encode batch c).2 c.min b i)
    (hside : SideB (e.encode batch c).2 c.min v arr) :
    ∀ p ∈ (decodeAll tecmpDecode DecState.empty (arr.map some)).2,
      ∃ q ∈ batch, p = sentAs e.dev e.stream c.cap q := by
  intro p hp
  have toP : ∀ b i, Arrived (e.encode batch c).2 c.min b i → ArrP (e.encode batch c).2 c.min b i := by
    intro b i h
    cases h with
    | clean i f hf => exact ⟨f, hf, Or.inl rfl⟩
    | corrupted i f ver mt hf hseg h1 h2 h3 =>
      refine ⟨f, hf, Or.inr ⟨ver, mt, ?_, h1, h2, h3, rfl⟩⟩
      simpa [isSegFrame, hf] using hseg
  have ofP : ∀ b i, ArrP (e.encode batch c).2 c.min b i → Arrived (e.encode batch c).2 c.min b i := by
    intro b i h
    obtain ⟨f, hf, hb⟩ := h
    rcases hb with rfl | ⟨ver, mt, hany, h1, h2, h3, rfl⟩
    · exact Arrived.clean i f hf
    · exact Arrived.corrupted i f ver mt hf (by simpa [isSegFrame, hf] using hany) h1 h2 h3
  have harr' : ∀ b ∈ arr, ∃ i, ArrP (e.encode batch c).2 c.min b i := by
    intro b hb
    obtain ⟨i, hi⟩ := harr b hb
    exact ⟨i, toP b i hi⟩
  by_cases hne : batch = []
  · subst hne
    cases arr with
    | nil => simp [decodeAll] at hp
    | cons b bs =>
      obtain ⟨i, f, hf, _⟩ := harr' b (by simp)
      rw [(encode_nil e c).1] at hf
      simp at hf
  · obtain ⟨p0, hp0⟩ := List.exists_mem_of_ne_nil batch hne
    obtain ⟨_, _, _, _, _, _, _, hv1, hv2, _⟩ := C01.wf_unpack (hwf p0 hp0)
    rw [hver p0 hp0] at hv1 hv2
    let X : Setup := mkSetup e batch c v hc hwf hver hdev hstream hN hv1 hv2
    have hsideP : SideP X arr := by
      intro b hb b' hb' i i' f f' m m' ha ha' hii hf hf' hm hm' hs hs' hidx h0 h4
      have hf1 : (e.encode batch c).2[i]? = some f := hf
      have hf2 : (e.encode batch c).2[i']? = some f' := hf'
      exact hside b hb b' hb' i i' f (ofP b i ha) (ofP b' i' ha') hii hf1
        (by simp [isSegFrame, hf1, hm, hs]) (by simp [isSegFrame, hf2, hm', hs'])
        (by simp [segPacket, hf1, hf2, hm, hm', hs, hs', hidx]) h0 h4
    obtain ⟨ip, hip, hpe⟩ := good_exact X p (good_of_arrived X arr harr' hsideP p hp)
    refine ⟨ip.2, zip_mem batch ip hip, ?_⟩
    rw [hpe]
    show dec e.dev e.stream v ip.2 (if 16 + ip.2.data.length ≤ c.cap then 0 else 4) = _
    rw [← hver ip.2 (zip_mem batch ip hip)]
    rfl

/-- **C06 end to end, exact and for any number of endpoints.**  An encoder `e` (any history) encodes
    a batch; `arr` is any list of copies of its serialised frames (any subset, order, multiplicity;
    copies of segment frames may carry another version / message-type byte, `SideB`).  `bufs` is an
    ARBITRARY history of buffers — frames of other encoders / endpoints, TECMP buffers, short
    buffers, null pointers, interleaved at will — whose sub-history addressing `e`'s endpoint is
    `arr`, fed to a decoder in any state `s` with nothing pending for that endpoint.  Then every packet
    delivered by a buffer addressing the endpoint equals, in EVERY field (no mask), `sentAs` of a
    packet of the batch. -/
theorem C06_bytes_exact_interleaved (e : Enc) (batch : List Packet) (c : Ctx) (v : Nat)
    (hc : c.ok = true) (hwf : ∀ p ∈ batch, p.WF) (hver : ∀ p ∈ batch, p.version = v)
    (hdev : e.dev < 65536) (hstream : e.stream < 256)
    (hN : (e.encode batch c).2.length < 65536)
    (arr : List Bytes)
    (harr : ∀ b ∈ arr, ∃ i, Arrived (e.encode batch c).2 c.min b i)
    (hside : SideB (e.encode batch c).2 c.min v arr)
    (bufs : List (Option Bytes)) (s : DecState) (hs : s (e.dev, e.stream) = none)
    (hproj : bufs.filter (fun b => bufEp b = some (e.dev, e.stream)) = arr.map some) :
    ∀ x ∈ (decodeAllT tecmpDecode s bufs).2, x.1 = some (e.dev, e.stream) →
      ∃ q ∈ batch, x.2 = sentAs e.dev e.stream c.cap q := by
  intro x hx hxe
  exact bytes_exact_core e batch c v hc hwf hver hdev hstream hN arr harr hside x.2
    (isolate_mem tecmpDecode (e.dev, e.stream) bufs (arr.map some) s hs hproj x hx hxe)

/-- the single-endpoint special case, directly comparable with `C06b.C06_bytes` (same hypotheses):
    equality of all fields instead of equality after `clearSeg` -/
theorem C06_bytes_exact (e : Enc) (batch : List Packet) (c : Ctx) (v : Nat)
    (hc : c.ok = true) (hwf : ∀ p ∈ batch, p.WF) (hver : ∀ p ∈ batch, p.version = v)
    (hdev : e.dev < 65536) (hstream : e.stream < 256)
    (hN : (e.encode batch c).2.length < 65536)
    (arr : List Bytes)
    (harr : ∀ b ∈ arr, ∃ i, Arrived (e.encode batch c).2 c.min b i)
    (hside : SideB (e.encode batch c).2 c.min v arr) :
    ∀ p ∈ (decodeAll tecmpDecode DecState.empty (arr.map some)).2,
      ∃ q ∈ batch, p = sentAs e.dev e.stream c.cap q :=
  bytes_exact_core e batch c v hc hwf hver hdev hstream hN arr harr hside

/-- `C06_bytes_exact` implies the registered `C06_bytes` (so nothing was lost by dropping the mask) -/
theorem C06_bytes_of_exact (dev stream cap : Nat) (batch : List Packet) (hwf : ∀ p ∈ batch, p.WF) (p : Packet)
    (h : ∃ q ∈ batch, p = sentAs dev stream cap q) : clearSeg p ∈ batch.map (obsSent dev stream) := by
  obtain ⟨q, hq, rfl⟩ := h
  obtain ⟨_, _, _, _, _, _, _, _, _, hfl, _⟩ := C01.wf_unpack (hwf q hq)
  exact List.mem_map.2 ⟨q, hq, (sentAs_clearSeg dev stream cap q hfl).symm⟩

/-- **Recovery end to end on bytes, any number of endpoints.**  `bufs` is an arbitrary history of
    buffers fed to a decoder in an arbitrary state `s` (whatever earlier faults left behind).  If the
    buffers addressing the encoder's endpoint are `pre` (anything), then the serialised frames of a
    batch — segmented and unsegmented packets mixed — complete and in order, then `post` (anything),
    with buffers of other endpoints / TECMP / short / null buffers anywhere in between, then the packets
    delivered for the endpoint are: what `pre` delivers, then exactly the batch (`P_C01`: every
    packet once, in order), then what `post` delivers to a decoder with nothing pending. -/
theorem C06_recovery_bytes_interleaved (e : Enc) (batch : List Packet) (c : Ctx) (v : Nat)
    (hc : c.ok = true) (hne : batch ≠ []) (hwf : ∀ p ∈ batch, p.WF) (hver : ∀ p ∈ batch, p.version = v)
    (hdev : e.dev < 65536) (hstream : e.stream < 256)
    (bufs pre post : List (Option Bytes)) (s : DecState)
    (hproj : bufs.filter (fun b => bufEp b = some (e.dev, e.stream)) =
      pre ++ ((e.encode batch c).2.map (EFrame.bytes c.min)).map some ++ post) :
    ∃ out, ((decodeAllT tecmpDecode s bufs).2.filter (fun x => x.1 = some (e.dev, e.stream))).map (·.2) =
        (decodeAll tecmpDecode s pre).2 ++ out ++ (decodeAll tecmpDecode DecState.empty post).2 ∧
      P_C01 e.dev e.stream batch out = true := by
  have hpost : ∀ b ∈ post, bufEp b = some (e.dev, e.stream) := by
    intro b hb
    have : b ∈ bufs.filter (fun b => bufEp b = some (e.dev, e.stream)) := by
      rw [hproj]; simp [hb]
    simpa using (List.mem_filter.1 this).2
  obtain ⟨h1, h2⟩ := C01.C01_roundtrip e (decodeAll tecmpDecode s pre).1 batch c v hc hne hwf hver hdev hstream
  refine ⟨_, ?_, h1⟩
  rw [(decodeAllT_filter tecmpDecode (e.dev, e.stream) bufs s s rfl).1, hproj,
    (decodeAllT_untag tecmpDecode s _).2, decodeAll_append, decodeAll_append]
  simp only []
  rw [(decodeAll_congr tecmpDecode (e.dev, e.stream) post hpost _ DecState.empty h2).1]

/-! ## 5. a segment whose version byte is corrupted to 0: the property's text is VIOLATED (finding 3)

`Arrived.corrupted` demands `1 ≤ ver`.  That restriction is not cosmetic: `Decoder::decode` routes
every buffer whose first byte is 0 to the stateless TECMP decoder (decoder.cpp:20-21), which reads
its message type from byte 5 (= the CMP stream id) and its data type from bytes 6-7 (= the CMP
sequence counter).  A first-segment frame of stream 3 with counter 2 whose version byte is flipped
to 0 is therefore parsed as a TECMP CAN data frame and a CAN packet assembled from the bytes of an
Ethernet segment is delivered — a packet byte-identical to nothing that was sent.  Witness below;
every line is checked by evaluation of the existing model. -/

namespace VersionZero

/-- one Ethernet packet of 36 payload bytes (flags 0x0004, 30 data bytes): well-formed -/
def pkt : Packet := { payload := some ⟨tyEth, [0,4,0,0,0,30] ++ List.replicate 30 7⟩, version := 1 }
/-- encoder of device 2, stream 3, one frame sent before -/
def enc : Enc := { dev := 2, stream := 3, seqc := 1 }
/-- frames of at most 48 bytes: the packet is cut into two segments -/
def ctx : Ctx := ⟨0, 48⟩

/-- first-segment frame as serialised by the encoder model -/
def frame0 : Bytes :=
  [1,0,0,2,1,3,0,2, 0,0,0,0,0,0,0,0, 0,0,0,0, 4,8,0,24, 0,4,0,0,0,30,7,7,7,7,7,7,7,7,7,7,7,7,7,7,7,7,7,7]
/-- last-segment frame -/
def frame1 : Bytes :=
  [1,0,0,2,1,3,0,3, 0,0,0,0,0,0,0,0, 0,0,0,0, 12,8,0,12, 7,7,7,7,7,7,7,7,7,7,7,7]

theorem hyps : ctx.ok = true ∧ (∀ p ∈ [pkt], p.WF) ∧ (∀ p ∈ [pkt], p.version = 1) ∧
    enc.dev < 65536 ∧ enc.stream < 256 ∧ (enc.encode [pkt] ctx).2.length < 65536 := by
  refine ⟨by decide, ?_, ?_, by decide, by decide, by decide +kernel⟩
  · intro p hp; simp only [List.mem_singleton] at hp; subst hp
    show pkt.wf = true
    decide +kernel
  · intro p hp; simp only [List.mem_singleton] at hp; subst hp; rfl

/-- what the encoder model sends -/
theorem sent : (enc.encode [pkt] ctx).2.map (EFrame.bytes ctx.min) = [frame0, frame1] := by
  decide +kernel

/-- frame 0 is a segment frame -/
theorem seg0 : isSegFrame (enc.encode [pkt] ctx).2 0 = true := by decide +kernel

/-- the arrived buffer: frame 0 with the version byte overwritten by 0 and the message type byte
    left as it was — exactly the shape of `Arrived.corrupted` with `ver = 0` -/
def bad : Bytes := writeAt (writeAt frame0 0 [UInt8.ofNat 0]) 4 [UInt8.ofNat 1]

/-- the packet the decoder hands out for it: a CAN packet (type 0x0101) made of Ethernet bytes -/
def ghost : Packet :=
  { payload := some ⟨tyCan, [0,0,0,0, 0,30,7,7, 0,0,7,7, 0,0,7,7, 7,7,7,7,7,7,7]⟩,
    version := 1, deviceId := 0, streamId := 0, ts := 67633176 }

/-- the clean frames deliver the packet that was sent (so the witness is a well-behaved stream) -/
theorem clean_ok : (decodeAll tecmpDecode DecState.empty [some frame0, some frame1]).2 =
    [sentAs 2 3 ctx.cap pkt] := by decide +kernel

/-- **Violation.**  The single corrupted copy alone makes the decoder deliver `ghost` … -/
theorem delivered : (decodeAll tecmpDecode DecState.empty [some bad]).2 = [ghost] := by decide +kernel

/-- … also from any decoder state and in the middle of the clean stream (the TECMP path is stateless) … -/
theorem delivered_any (s : DecState) : (decodeWith tecmpDecode s (some bad)).2 = [ghost] ∧
    (decodeWith tecmpDecode s (some bad)).1 = s := by
  have h8 : ¬ bad.length < 8 := by decide
  have h0 : byteAt bad 0 = 0 := by decide
  have ht : tecmpDecode bad = [ghost] := by decide +kernel
  simp only [decodeWith, h8, h0, if_false, if_true, ht, and_self]

/-- … and `ghost` is not a packet that was sent, even after masking the segmentation bits -/
theorem ghost_not_sent : clearSeg ghost ∉ [pkt].map (obsSent enc.dev enc.stream) := by decide +kernel

end VersionZero

/-- **The property's text fails for "a segment arrives with a different version" when the different
    version is 0.**  There are an encoder, a batch and a configuration satisfying every hypothesis of
    `C06b.C06_bytes`, and a single arrived buffer that is a copy of a segment frame whose version byte
    reads 0 (shape of `Arrived.corrupted` with `ver = 0`), such that the decoder delivers a packet that
    is not one of the packets sent.  Hence `1 ≤ ver` cannot be dropped from `Arrived.corrupted`, and the
    statement "every packet the decoder still delivers is byte-identical to one that was sent" is
    false for this fault. -/
theorem C06_version_zero_violation :
    ∃ (e : Enc) (batch : List Packet) (c : Ctx) (f : EFrame) (mt : Nat),
      c.ok = true ∧ (∀ p ∈ batch, p.WF) ∧ (∀ p ∈ batch, p.version = 1) ∧
      e.dev < 65536 ∧ e.stream < 256 ∧ (e.encode batch c).2.length < 65536 ∧
      (e.encode batch c).2[0]? = some f ∧ isSegFrame (e.encode batch c).2 0 = true ∧ mt < 256 ∧
      ∃ p ∈ (decodeAll tecmpDecode DecState.empty
              [some (writeAt (writeAt (EFrame.bytes c.min f) 0 [UInt8.ofNat 0]) 4 [UInt8.ofNat mt])]).2,
        clearSeg p ∉ batch.map (obsSent e.dev e.stream) := by
  obtain ⟨h1, h2, h3, h4, h5, h6⟩ := VersionZero.hyps
  have hs := VersionZero.sent
  cases hfs : (VersionZero.enc.encode [VersionZero.pkt] VersionZero.ctx).2 with
  | nil => rw [hfs] at hs; simp at hs
  | cons f rest =>
    rw [hfs] at hs
    simp only [List.map_cons, List.cons.injEq] at hs
    refine ⟨VersionZero.enc, [VersionZero.pkt], VersionZero.ctx, f, 1, h1, h2, h3, h4, h5, h6,
      by rw [hfs]; rfl, VersionZero.seg0, by decide, VersionZero.ghost, ?_, VersionZero.ghost_not_sent⟩
    rw [hs.1]
    have := VersionZero.delivered
    unfold VersionZero.bad at this
    rw [this]
    simp

/-! ## 6. the byte-level theorems are not vacuous (finding 8) -/

theorem arrP_of_arrived {fs : List EFrame} {min : Nat} {b : Bytes} {i : Nat} (h : Arrived fs min b i) :
    ArrP fs min b i := by
  cases h with
  | clean i f hf => exact ⟨f, hf, Or.inl rfl⟩
  | corrupted i f ver mt hf hseg h1 h2 h3 =>
    refine ⟨f, hf, Or.inr ⟨ver, mt, ?_, h1, h2, h3, rfl⟩⟩
    simpa [isSegFrame, hf] using hseg

/-- a buffer is a copy of at most one frame of an `encode` call of fewer than 65536 frames: the
    sequence counter identifies the frame -/
theorem arrived_index (e : Enc) (batch : List Packet) (c : Ctx) (v : Nat)
    (hc : c.ok = true) (hwf : ∀ p ∈ batch, p.WF) (hver : ∀ p ∈ batch, p.version = v)
    (hdev : e.dev < 65536) (hstream : e.stream < 256)
    (hN : (e.encode batch c).2.length < 65536) (hv1 : 1 ≤ v) (hv2 : v < 256)
    {b : Bytes} {i i' : Nat}
    (h : Arrived (e.encode batch c).2 c.min b i) (h' : Arrived (e.encode batch c).2 c.min b i') : i = i' := by
  let X : Setup := mkSetup e batch c v hc hwf hver hdev hstream hN hv1 hv2
  have a : ArrP X.fs X.min b i := arrP_of_arrived h
  have a' : ArrP X.fs X.min b i' := arrP_of_arrived h'
  exact copy_index X (arr_copy X a).1 (arr_copy X a').1

namespace VersionZero

/-- last-segment frame with the version byte corrupted to 9 (a genuinely different, non-zero version) -/
def c1 : Bytes := writeAt (writeAt frame1 0 [UInt8.ofNat 9]) 4 [UInt8.ofNat 1]

/-- what arrives: first segment, a corrupted copy of the last segment (kills the reassembly), then
    the first segment again (duplicate) and the clean last segment -/
def arr : List Bytes := [frame0, c1, frame0, frame1]

theorem frames_mt : ∀ f ∈ (enc.encode [pkt] ctx).2, f.mt = 1 := by
  have : ((enc.encode [pkt] ctx).2.all fun f => f.mt == 1) = true := by decide +kernel
  intro f hf
  simpa using List.all_eq_true.1 this f hf

theorem frame_cases : ∃ f0 f1, (enc.encode [pkt] ctx).2 = [f0, f1] ∧
    EFrame.bytes ctx.min f0 = frame0 ∧ EFrame.bytes ctx.min f1 = frame1 := by
  have hs := sent
  cases hfs : (enc.encode [pkt] ctx).2 with
  | nil => rw [hfs] at hs; simp at hs
  | cons f0 r =>
    cases r with
    | nil => rw [hfs] at hs; simp at hs
    | cons f1 r =>
      cases r with
      | nil =>
        rw [hfs] at hs
        simp only [List.map_cons, List.map_nil, List.cons.injEq, and_true] at hs
        exact ⟨f0, f1, rfl, hs.1, hs.2⟩
      | cons _ _ => rw [hfs] at hs; simp at hs

theorem arr_arrived : ∀ b ∈ arr, ∃ i, Arrived (enc.encode [pkt] ctx).2 ctx.min b i := by
  obtain ⟨f0, f1, hfs, h0, h1⟩ := frame_cases
  have hseg1 : isSegFrame (enc.encode [pkt] ctx).2 1 = true := by decide +kernel
  intro b hb
  simp only [arr, List.mem_cons, List.not_mem_nil, or_false] at hb
  rcases hb with rfl | rfl | rfl | rfl
  · exact ⟨0, h0 ▸ Arrived.clean 0 f0 (by rw [hfs]; rfl)⟩
  · refine ⟨1, ?_⟩
    unfold c1
    rw [← h1]
    exact Arrived.corrupted 1 f1 9 1 (by rw [hfs]; rfl) hseg1 (by decide) (by decide) (by decide)
  · exact ⟨0, h0 ▸ Arrived.clean 0 f0 (by rw [hfs]; rfl)⟩
  · exact ⟨1, h1 ▸ Arrived.clean 1 f1 (by rw [hfs]; rfl)⟩

theorem arr_side : SideB (enc.encode [pkt] ctx).2 ctx.min 1 arr := by
  obtain ⟨hc, hwf, hver, hdev, hstream, hN⟩ := hyps
  intro b hb b' hb' i i' f ha ha' hne hf _ _ _ h0 h4
  have hmt : f.mt = 1 := frames_mt f (List.mem_of_getElem? hf)
  rw [hmt]
  simp only [arr, List.mem_cons, List.not_mem_nil, or_false] at hb hb'
  -- clean copies carry the original pair; the corrupted copy agrees with no OTHER arrived buffer
  rcases hb with rfl | rfl | rfl | rfl
  · exact ⟨by decide, by decide⟩
  · rcases hb' with rfl | rfl | rfl | rfl
    · exact absurd h0 (by decide)
    · exact absurd (arrived_index enc [pkt] ctx 1 hc hwf hver hdev hstream hN (by decide) (by decide) ha ha') hne
    · exact absurd h0 (by decide)
    · exact absurd h0 (by decide)
  · exact ⟨by decide, by decide⟩
  · exact ⟨by decide, by decide⟩

/-- **Instance of `C06b.C06_bytes` / `C06_bytes_exact`** with a genuinely corrupted copy: all
    hypotheses hold, and the decoder's output is literally the one sent packet (with the
    first-segment bits 0x04 in its flags), delivered once. -/
theorem nonvacuous_bytes :
    (∀ b ∈ arr, ∃ i, Arrived (enc.encode [pkt] ctx).2 ctx.min b i) ∧
    SideB (enc.encode [pkt] ctx).2 ctx.min 1 arr ∧
    (decodeAll tecmpDecode DecState.empty (arr.map some)).2 =
      [{ payload := some ⟨tyEth, [0,4,0,0,0,30] ++ List.replicate 30 7⟩, version := 1,
         deviceId := 2, streamId := 3, flags := 4 }] :=
  ⟨arr_arrived, arr_side, by decide +kernel⟩

example : ∀ p ∈ (decodeAll tecmpDecode DecState.empty (arr.map some)).2,
    ∃ q ∈ [pkt], p = sentAs enc.dev enc.stream ctx.cap q :=
  C06_bytes_exact enc [pkt] ctx 1 hyps.1 hyps.2.1 hyps.2.2.1 hyps.2.2.2.1 hyps.2.2.2.2.1 hyps.2.2.2.2.2
    arr arr_arrived arr_side

example : sentAs enc.dev enc.stream ctx.cap pkt =
    { payload := some ⟨tyEth, [0,4,0,0,0,30] ++ List.replicate 30 7⟩, version := 1,
      deviceId := 2, streamId := 3, flags := 4 } := by decide +kernel

end VersionZero

/-! ### instances of the several-endpoint theorems -/

namespace VersionZero

/-- a frame of ANOTHER endpoint (device 7, stream 1) holding one unsegmented LIN message: the kind
    of frame that would kill endpoint (2,3)'s reassembly if `erase` were `clear` -/
def other : Bytes := [1,0,0,7,1,1,0,1, 0,0,0,0,0,0,0,0, 0,0,0,0, 0,3,0,8, 0,0,0,0,0,0,0,0]

/-- the arrived copies of `arr`, with frames of the other endpoint, a null pointer and a short
    buffer interleaved — also between the two segments of the message that is finally delivered -/
def bufs : List (Option Bytes) :=
  [some frame0, some other, none, some [0,1,2], some c1, some other, some frame0, some other, some frame1]

theorem bufs_proj : bufs.filter (fun b => bufEp b = some (enc.dev, enc.stream)) = arr.map some := by
  decide +kernel

/-- instance of `C06_bytes_exact_interleaved`; the hypotheses hold … -/
example : ∀ x ∈ (decodeAllT tecmpDecode DecState.empty bufs).2, x.1 = some (enc.dev, enc.stream) →
    ∃ q ∈ [pkt], x.2 = sentAs enc.dev enc.stream ctx.cap q :=
  C06_bytes_exact_interleaved enc [pkt] ctx 1 hyps.1 hyps.2.1 hyps.2.2.1 hyps.2.2.2.1 hyps.2.2.2.2.1
    hyps.2.2.2.2.2 arr arr_arrived arr_side bufs DecState.empty rfl bufs_proj

/-- … and the message IS delivered for endpoint (2,3), once, although three frames of endpoint (7,1)
    were decoded while its reassembly was open -/
example : (decodeAllT tecmpDecode DecState.empty bufs).2.filter (fun x => x.1 = some (2, 3)) =
    [(some (2, 3), { payload := some ⟨tyEth, [0,4,0,0,0,30] ++ List.replicate 30 7⟩, version := 1,
                     deviceId := 2, streamId := 3, flags := 4 })] := by decide +kernel

/-- instance of `C06_recovery_bytes_interleaved`: `pre = [frame0, c1]` (a reassembly opened and
    killed), then the clean batch with foreign buffers in between -/
example : ∃ out, ((decodeAllT tecmpDecode DecState.empty bufs).2.filter
      (fun x => x.1 = some (enc.dev, enc.stream))).map (·.2) =
      (decodeAll tecmpDecode DecState.empty [some frame0, some c1]).2 ++ out ++
        (decodeAll tecmpDecode DecState.empty []).2 ∧
    P_C01 enc.dev enc.stream [pkt] out = true :=
  C06_recovery_bytes_interleaved enc [pkt] ctx 1 hyps.1 (by simp) hyps.2.1 hyps.2.2.1 hyps.2.2.2.1
    hyps.2.2.2.2.1 bufs [some frame0, some c1] [] DecState.empty
    (by rw [sent]; decide +kernel)

end VersionZero

namespace AbstractExample
open AsamCmp.C06Example

/-- frames of two other endpoints: an unsegmented frame and a stray last segment -/
def x1 : PFrame := ⟨(9, 9), 1, 2, 17, [pkt], .done⟩
def x2 : PFrame := ⟨(3, 6), 1, 2, 0, [], .seg (sf1.hdr ++ sf1.body)⟩

/-- endpoint (3,5): a stale first segment, then the clean message `a1, a2`, then an unsegmented frame;
    foreign frames everywhere, also between `a1` and `a2` -/
def hist : List PFrame := [x1, a1, x2, a1, x1, x2, a2, x1, u0]

theorem hist_proj : hist.filter (fun f => f.ep = exS.ep) = [a1] ++ exS.cleanRun 1 sf0 ++ [u0] := by rfl

/-- instance of `C06_recovery_interleaved`, from a decoder state that holds garbage for (3,5) -/
example (s : DecState) :
    (runT s hist).2.filter (fun x => x.1 = exS.ep) =
      ((runLocal (s exS.ep) [a1]).2 ++ [exS.expected 1 sf0] ++ (runLocal none [u0]).2).map
        (fun p => (exS.ep, p)) :=
  C06_recovery_interleaved exS 1 sf0 rfl rfl hist [a1] [u0] s hist_proj

/-- the conclusion computes: for endpoint (3,5) exactly the reassembled message and the
    unsegmented packet are delivered -/
example : (runT DecState.empty hist).2.filter (fun x => x.1 = exS.ep) =
    [((3, 5), exS.expected 1 sf0), ((3, 5), pkt)] := by decide

/-- `expected_eq` on the example: the sender's view of the expected packet, literally -/
example : exS.expected 1 sf0 =
    { payload := some ⟨0x0201, [0xAA, 0xBB, 0xCC]⟩, version := 1, deviceId := 3, streamId := 5, flags := 4 } := by
  rw [expected_eq exS 1 sf0 rfl (by decide)]
  decide +kernel

end AbstractExample

/-! ## 7. safety under the side condition the statement really forces (finding 2)

`Side` forbids ANY two arrived copies of two different segments of a message from agreeing on a
wrong (version, type) pair.  What the statement forces is only `Side2`: for no wrong pair do ALL
`n` segments of a message have an arrived copy carrying it (only then is the wrong packet
indistinguishable from a sent one).  `Side2` allows e.g. first(v=9), middle(v=1), last(v=9).
Safety is re-proved under `Side2`; the invariant `PInv2` additionally remembers that every accepted
segment carried the entry's pair. -/

def Side2 (S : SStream) (all : List PFrame) : Prop :=
  ∀ i0 f0, S.at_ i0 = some (.segF f0) → f0.k = 0 → ∀ v t, ¬ (v = f0.ver ∧ t = f0.mt) →
    ∃ k, k < f0.n ∧ ∀ g ∈ all, Copy S g (i0 + k) → ¬ (g.ver = v ∧ g.mt = t)

def PInv2 (S : SStream) (all : List PFrame) (p : Option Pending) : Prop :=
  match p with
  | none => True
  | some p => ∃ i0 f0 j fj,
      S.at_ i0 = some (.segF f0) ∧ f0.k = 0 ∧
      S.at_ (i0 + j) = some (.segF fj) ∧ fj.uid = f0.uid ∧ fj.k = j ∧ fj.n = f0.n ∧ j + 1 < f0.n ∧
      (∃ w : Bytes, w.length = 16 ∧ w.take 14 = f0.hdr.take 14 ∧ p.buf = w ++ S.acc i0 j) ∧
      p.seq = S.seq (i0 + j) ∧ p.last = segCode j f0.n ∧
      (∀ k, k ≤ j → ∃ g ∈ all, Copy S g (i0 + k) ∧ g.ver = p.ver ∧ g.mt = p.mt)

theorem step_inv2 (S : SStream) (all : List PFrame) (hside : Side2 S all)
    (p : Option Pending) (hp : PInv2 S all p) (g : PFrame) (hg : g ∈ all) (i : Nat)
    (hc : Copy S g i) :
    (∀ o ∈ (localStep p g).2, Good S o) ∧ PInv2 S all (localStep p g).1 := by
  cases hc with
  | unseg i pkts t ver mt h =>
    rw [localStep_unseg _ _ (S.unsegT i pkts t h)]
    refine ⟨?_, trivial⟩
    intro o ho
    exact Or.inl ⟨i, pkts, t, h, ho⟩
  | seg i f ver mt h =>
    have hh := S.hdrOk i f h
    have hkn := S.kn i f h
    have hty : segTypeOf (f.hdr ++ f.body) = segCode f.k f.n := by
      rw [segTypeOf_appendF _ _ hh.1, hh.2]
    by_cases hk : f.k = 0
    · rw [localStep_first p _ (f.hdr ++ f.body) rfl (by rw [hty, hk, segCode_zero])]
      refine ⟨(by intro o ho; cases ho), ?_⟩
      refine ⟨i, f, 0, f, h, hk, h, rfl, hk, rfl, by omega,
        ⟨f.hdr, hh.1, rfl, by rw [acc_zero S i f h]⟩, rfl, (segCode_zero f.n).symm, ?_⟩
      intro k hk0
      have : k = 0 := by omega
      subst this
      exact ⟨_, hg, Copy.seg i f ver mt h, rfl, rfl⟩
    · have hne4 : segTypeOf (f.hdr ++ f.body) ≠ 4 := by
        rw [hty]; unfold segCode; rw [if_neg hk]; split <;> decide
      cases p with
      | none =>
        rw [localStep_cont_none _ (f.hdr ++ f.body) rfl hne4]
        exact ⟨(by intro o ho; cases ho), trivial⟩
      | some q =>
        by_cases hcnd : q.ver = ver ∧ q.mt = mt ∧ S.seq i = (q.seq + 1) % 65536
        · obtain ⟨i0, f0, j, fj, h0, hk0, hj, hju, hjk, hjn, hjlt,
            ⟨w, hw, hw14, hbuf⟩, hseq, hlast, hacc⟩ := hp
          obtain ⟨f', hf', hu', hk', hn', _, _⟩ := S.next (i0 + j) fj hj (by omega)
          have hi : i = i0 + j + 1 := by
            apply seq_inj S i (i0 + j + 1) (lt_N_of_at S i _ h) (lt_N_of_at S _ _ hf')
            rw [hcnd.2.2, hseq, seq_succ]
          subst hi
          have hff : f' = f := by
            have := hf'.symm.trans h
            injection this with this
            injection this
          subst hff
          have hfk : f'.k = j + 1 := by omega
          have hfn : f'.n = f0.n := by omega
          -- every segment 0 … j+1 has an arrived copy carrying the entry's pair
          have hacc' : ∀ k, k ≤ j + 1 → ∃ g' ∈ all, Copy S g' (i0 + k) ∧ g'.ver = q.ver ∧ g'.mt = q.mt := by
            intro k hkj
            by_cases hkl : k ≤ j
            · exact hacc k hkl
            · have : k = j + 1 := by omega
              subst this
              exact ⟨_, hg, by rw [← Nat.add_assoc]; exact Copy.seg _ f' ver mt h, hcnd.1.symm, hcnd.2.1.symm⟩
          obtain ⟨w', hw', hw'14, heq⟩ := step_clean S i0 j f0 f' q ver mt w h0 h hfk hfn hjlt hw hw14
            hbuf hseq hlast hcnd.1 hcnd.2.1
          rw [heq]
          by_cases hl : j + 2 = f0.n
          · rw [if_pos hl]
            refine ⟨?_, trivial⟩
            intro o ho
            simp only [List.mem_singleton] at ho
            refine Or.inr ⟨i0, f0, h0, hk0, ?_⟩
            have hpair : q.ver = f0.ver ∧ q.mt = f0.mt := by
              apply Classical.byContradiction
              intro hnp
              obtain ⟨k, hkn', hno⟩ := hside i0 f0 h0 hk0 q.ver q.mt hnp
              obtain ⟨g', hg', hcg', hv', hm'⟩ := hacc' k (by omega)
              exact hno g' hg' hcg' ⟨hv', hm'⟩
            rw [ho, SStream.expected, hpair.1, hpair.2]
          · rw [if_neg hl]
            refine ⟨(by intro o ho; cases ho), ?_⟩
            exact ⟨i0, f0, j + 1, f', h0, hk0, h, by omega, hfk, hfn,
              by omega, ⟨w', hw', hw'14, rfl⟩, rfl, rfl, hacc'⟩
        · rw [localStep_cont_reject q _ (f.hdr ++ f.body) rfl hne4 hcnd]
          exact ⟨(by intro o ho; cases ho), trivial⟩

/-- **C06 safety under the weakest possible side condition** (single endpoint, any start state
    satisfying the invariant) -/
theorem fault_safe2 (S : SStream) (all : List PFrame) (hside : Side2 S all)
    (hcopy : ∀ g ∈ all, ∃ i, Copy S g i) :
    ∀ (gs : List PFrame), (∀ g ∈ gs, g ∈ all) → ∀ p, PInv2 S all p →
      (∀ o ∈ (runLocal p gs).2, Good S o) ∧ PInv2 S all (runLocal p gs).1 := by
  intro gs
  induction gs with
  | nil => intro _ p hp; exact ⟨(by intro o ho; cases ho), hp⟩
  | cons g gs ih =>
    intro hall p hp
    have hg : g ∈ all := hall g (List.mem_cons_self ..)
    obtain ⟨i, hc⟩ := hcopy g hg
    obtain ⟨hout, hinv⟩ := step_inv2 S all hside p hp g hg i hc
    obtain ⟨hout', hinv'⟩ := ih (fun g' h => hall g' (List.mem_cons_of_mem _ h)) _ hinv
    rw [runLocal_cons]
    refine ⟨?_, hinv'⟩
    intro o ho
    rcases List.mem_append.1 ho with ho | ho
    · exact hout o ho
    · exact hout' o ho

/-- several endpoints, from any decoder state with nothing pending for `S.ep` -/
theorem C06_no_corruption2_interleaved (S : SStream) (arrived : List PFrame) (hside : Side2 S arrived)
    (hcopy : ∀ g ∈ arrived, ∃ i, Copy S g i) (fs : List PFrame) (s : DecState) (hs : s S.ep = none)
    (hproj : fs.filter (fun f => f.ep = S.ep) = arrived) :
    ∀ x ∈ (runT s fs).2, x.1 = S.ep → Good S x.2 := by
  intro x hx hxe
  have hmem : x ∈ (runT s fs).2.filter (fun x => x.1 = S.ep) := List.mem_filter.2 ⟨hx, by simp [hxe]⟩
  rw [(run_filter S.ep fs s s rfl).1, hproj] at hmem
  have hep : ∀ f ∈ arrived, f.ep = S.ep := by
    intro f hf
    rw [← hproj] at hf
    simpa using (List.mem_filter.1 hf).2
  rw [(runT_single S.ep arrived s hep).1, hs] at hmem
  obtain ⟨o, ho, rfl⟩ := List.mem_map.1 hmem
  exact (fault_safe2 S arrived hside hcopy arrived (fun _ h => h) none trivial).1 o ho

/-- single endpoint, empty decoder: the statement of `C06_no_corruption` with `Side2` for `Side` -/
theorem C06_no_corruption2 (S : SStream) (arrived : List PFrame) (hside : Side2 S arrived)
    (hcopy : ∀ g ∈ arrived, ∃ i, Copy S g i) :
    ∀ o ∈ (runLocal none arrived).2, Good S o :=
  (fault_safe2 S arrived hside hcopy arrived (fun _ h => h) none trivial).1

/-- `Side2` is implied by the registered `Side`, so the theorems above subsume `fault_safe` /
    `C06_no_corruption` / `C06_no_corruption_interleaved` -/
theorem side2_of_side (S : SStream) (all : List PFrame) (h : Side S all) : Side2 S all := by
  intro i0 f0 h0 hk v t hne
  have hkn := S.kn i0 f0 h0
  obtain ⟨f1, hf1, hu1, hk1, _, _, _⟩ := seg_at S i0 f0 h0 hk 1 (by omega)
  by_cases hex : ∃ g ∈ all, Copy S g (i0 + 0) ∧ g.ver = v ∧ g.mt = t
  · obtain ⟨g, hg, hcg, hgv, hgm⟩ := hex
    refine ⟨1, by omega, ?_⟩
    intro g' hg' hcg' hp
    have := h g hg g' hg' (i0 + 0) (i0 + 1) f0 f1 hcg hcg' h0 hf1 hu1.symm (by omega)
      (hgv.trans hp.1.symm) (hgm.trans hp.2.symm)
    exact hne ⟨hgv.symm.trans this.1, hgm.symm.trans this.2⟩
  · refine ⟨0, by omega, ?_⟩
    intro g hg hcg hp
    exact hex ⟨g, hg, hcg, hp.1, hp.2⟩

/-! ### `Side2` is strictly weaker than `Side`: first(v=9), middle(v=1), last(v=9) -/

namespace Side2Example

def h0 : Bytes := [0,0,0,0,0,0,0,0, 0,0,0,0, 4, 1, 0, 1]
def h1 : Bytes := [0,0,0,0,0,0,0,0, 0,0,0,0, 8, 1, 0, 1]
def h2 : Bytes := [0,0,0,0,0,0,0,0, 0,0,0,0, 12, 1, 0, 1]
def s0 : SF := ⟨1, 2, 7, 0, 3, h0, [0xAA]⟩
def s1 : SF := ⟨1, 2, 7, 1, 3, h1, [0xBB]⟩
def s2 : SF := ⟨1, 2, 7, 2, 3, h2, [0xCC]⟩

/-- one message of three segments -/
def at3 : Nat → Option Sent
  | 0 => some (.segF s0)
  | 1 => some (.segF s1)
  | 2 => some (.segF s2)
  | _ + 3 => none

theorem at3_seg {i : Nat} {f : SF} (h : at3 i = some (.segF f)) :
    (i = 0 ∧ f = s0) ∨ (i = 1 ∧ f = s1) ∨ (i = 2 ∧ f = s2) := by
  match i with
  | 0 => simp only [at3, Option.some.injEq, Sent.segF.injEq] at h; exact Or.inl ⟨rfl, h.symm⟩
  | 1 => simp only [at3, Option.some.injEq, Sent.segF.injEq] at h; exact Or.inr (Or.inl ⟨rfl, h.symm⟩)
  | 2 => simp only [at3, Option.some.injEq, Sent.segF.injEq] at h; exact Or.inr (Or.inr ⟨rfl, h.symm⟩)
  | _ + 3 => simp [at3] at h

def S3 : SStream where
  ep := (3, 5)
  N := 3
  s0 := 65535
  at_ := at3
  hN := by decide
  dom := by
    intro i
    match i with
    | 0 => simp [at3]
    | 1 => simp [at3]
    | 2 => simp [at3]
    | _ + 3 => simp [at3]
  unsegT := by
    intro i pkts t h
    match i with
    | 0 => simp [at3] at h
    | 1 => simp [at3] at h
    | 2 => simp [at3] at h
    | _ + 3 => simp [at3] at h
  next := by
    intro i f h hk
    rcases at3_seg h with ⟨rfl, rfl⟩ | ⟨rfl, rfl⟩ | ⟨rfl, rfl⟩
    · exact ⟨s1, rfl, rfl, rfl, rfl, rfl, rfl⟩
    · exact ⟨s2, rfl, rfl, rfl, rfl, rfl, rfl⟩
    · simp [s2] at hk
  kn := by
    intro i f h
    rcases at3_seg h with ⟨rfl, rfl⟩ | ⟨rfl, rfl⟩ | ⟨rfl, rfl⟩ <;> decide
  hdrOk := by
    intro i f h
    rcases at3_seg h with ⟨rfl, rfl⟩ | ⟨rfl, rfl⟩ | ⟨rfl, rfl⟩ <;> decide

/-- first and last segment with the version corrupted to 9, the middle one clean; then clean copies -/
def c0 : PFrame := ⟨S3.ep, 9, 2, S3.seq 0, [], .seg (s0.hdr ++ s0.body)⟩
def m1 : PFrame := ⟨S3.ep, 1, 2, S3.seq 1, [], .seg (s1.hdr ++ s1.body)⟩
def c2 : PFrame := ⟨S3.ep, 9, 2, S3.seq 2, [], .seg (s2.hdr ++ s2.body)⟩
def a0 : PFrame := ⟨S3.ep, 1, 2, S3.seq 0, [], .seg (s0.hdr ++ s0.body)⟩
def a2 : PFrame := ⟨S3.ep, 1, 2, S3.seq 2, [], .seg (s2.hdr ++ s2.body)⟩

def arrived : List PFrame := [c0, m1, c2, a0, m1, a2]

theorem arrived_copy : ∀ g ∈ arrived, ∃ i, Copy S3 g i := by
  intro g hg
  simp only [arrived, List.mem_cons, List.not_mem_nil, or_false] at hg
  rcases hg with rfl | rfl | rfl | rfl | rfl | rfl
  · exact ⟨0, Copy.seg 0 s0 9 2 rfl⟩
  · exact ⟨1, Copy.seg 1 s1 1 2 rfl⟩
  · exact ⟨2, Copy.seg 2 s2 9 2 rfl⟩
  · exact ⟨0, Copy.seg 0 s0 1 2 rfl⟩
  · exact ⟨1, Copy.seg 1 s1 1 2 rfl⟩
  · exact ⟨2, Copy.seg 2 s2 1 2 rfl⟩

/-- the weak side condition holds: no wrong pair is carried by copies of all three segments -/
theorem arrived_side2 : Side2 S3 arrived := by
  intro i0 f0 hat hk v t hne
  rcases at3_seg hat with ⟨rfl, rfl⟩ | ⟨rfl, rfl⟩ | ⟨rfl, rfl⟩
  · by_cases h9 : v = 9 ∧ t = 2
    · -- the middle segment has only clean copies
      refine ⟨1, by decide, ?_⟩
      intro g hg hc hp
      have hs := Copy.seq_eq hc
      simp only [arrived, List.mem_cons, List.not_mem_nil, or_false] at hg
      rcases hg with rfl | rfl | rfl | rfl | rfl | rfl <;>
        first
          | (exfalso; revert hs; decide)
          | (obtain ⟨rfl, rfl⟩ := h9; exact absurd hp.1 (by decide))
    · -- any other wrong pair is not even carried by a copy of the first segment
      refine ⟨0, by decide, ?_⟩
      intro g hg hc hp
      have hs := Copy.seq_eq hc
      simp only [arrived, List.mem_cons, List.not_mem_nil, or_false] at hg
      rcases hg with rfl | rfl | rfl | rfl | rfl | rfl <;>
        first
          | (exfalso; revert hs; decide)
          | exact h9 ⟨hp.1.symm, hp.2.symm⟩
          | exact hne ⟨hp.1.symm, hp.2.symm⟩
  · simp [s1] at hk
  · simp [s2] at hk

/-- … but the registered side condition `Side` FAILS on this history -/
theorem arrived_not_side : ¬ Side S3 arrived := by
  intro h
  have := h c0 (by simp [arrived]) c2 (by simp [arrived]) 0 2 s0 s2 (Copy.seg 0 s0 9 2 rfl)
    (Copy.seg 2 s2 9 2 rfl) rfl rfl rfl (by decide) rfl rfl
  exact absurd this.1 (by decide)

/-- non-vacuity of `C06_no_corruption2` outside the domain of `C06_no_corruption`: the corrupted
    attempt is rejected at the middle segment and only the clean message is delivered -/
theorem nonvacuous2 : Side2 S3 arrived ∧ ¬ Side S3 arrived ∧ (∀ g ∈ arrived, ∃ i, Copy S3 g i) ∧
    (runLocal none arrived).2 = [S3.expected 0 s0] ∧
    (S3.expected 0 s0).payload = some ⟨0x0201, [0xAA, 0xBB, 0xCC]⟩ ∧ (S3.expected 0 s0).version = 1 :=
  ⟨arrived_side2, arrived_not_side, arrived_copy, by decide, by decide, by decide⟩

end Side2Example

/-! ### … and end to end on bytes under the weak side condition -/

/-- byte-level `Side2`: for every first-segment frame `i0` (its single message `m` belongs to a packet
    the encoder cut into `nOf c m` segments, which sit in frames `i0 … i0 + nOf c m - 1`) and every
    WRONG (version byte, type byte) pair, some segment of the packet has no arrived copy carrying
    that pair -/
def SideB2 (fs : List EFrame) (c : Ctx) (v : Nat) (arr : List Bytes) : Prop :=
  ∀ i0 f m, fs[i0]? = some f → f.msgs = [m] → m.seg = 4 → ∀ ver t, ¬ (ver = v ∧ t = f.mt) →
    ∃ k, k < nOf c m ∧ ∀ b ∈ arr, Arrived fs c.min b (i0 + k) → ¬ (byteAt b 0 = ver ∧ byteAt b 4 = t)

theorem arrived_of_arrP {fs : List EFrame} {min : Nat} {b : Bytes} {i : Nat} (h : ArrP fs min b i) :
    Arrived fs min b i := by
  obtain ⟨f, hf, hb⟩ := h
  rcases hb with rfl | ⟨ver, mt, hany, h1, h2, h3, rfl⟩
  · exact Arrived.clean i f hf
  · exact Arrived.corrupted i f ver mt hf (by simpa [isSegFrame, hf] using hany) h1 h2 h3

theorem side2_of (X : Setup) (arr : List Bytes) (harr : ∀ b ∈ arr, ∃ i, ArrP X.fs X.min b i)
    (hmin : X.min = X.c.min) (hside : SideB2 X.fs X.c X.v arr) : Side2 X.S (arr.map parseFrame) := by
  intro i0 f0 hat hk ver t hne
  obtain ⟨f, ip, i0', j, x, hf, hip, hij, hrun, h2, hx, hfm, hfmt, rfl⟩ := sentOf_seg_inv X hat
  simp only at hk
  subst hk
  simp only at hne
  obtain ⟨k, hkn, hno⟩ := hside i0 f _ hf hfm (by simp [segCode]) ver t (by rw [hfmt]; exact hne)
  refine ⟨k, by simpa [nOf] using hkn, ?_⟩
  intro g hg hcg hp
  obtain ⟨b, hb, rfl⟩ := List.mem_map.mp hg
  obtain ⟨j', hj'⟩ := harr b hb
  have e1 := copy_index X hcg (arr_copy X hj').1
  subst e1
  rw [hmin] at hj'
  exact hno b hb (arrived_of_arrP hj') hp

/-- **C06 end to end under the weakest side condition, exact, any number of endpoints**: the
    statement of `C06_bytes_exact_interleaved` with `SideB2` for `SideB`.  Allows e.g. a three-segment
    packet whose first and last segment frames arrive (also) with version byte 9 while the middle one
    arrives only clean. -/
theorem C06_bytes_weak_side (e : Enc) (batch : List Packet) (c : Ctx) (v : Nat)
    (hc : c.ok = true) (hwf : ∀ p ∈ batch, p.WF) (hver : ∀ p ∈ batch, p.version = v)
    (hdev : e.dev < 65536) (hstream : e.stream < 256)
    (hN : (e.encode batch c).2.length < 65536)
    (arr : List Bytes)
    (harr : ∀ b ∈ arr, ∃ i, Arrived (e.encode batch c).2 c.min b i)
    (hside : SideB2 (e.encode batch c).2 c v arr)
    (bufs : List (Option Bytes)) (s : DecState) (hs : s (e.dev, e.stream) = none)
    (hproj : bufs.filter (fun b => bufEp b = some (e.dev, e.stream)) = arr.map some) :
    ∀ x ∈ (decodeAllT tecmpDecode s bufs).2, x.1 = some (e.dev, e.stream) →
      ∃ q ∈ batch, x.2 = sentAs e.dev e.stream c.cap q := by
  intro x hx hxe
  have hp := isolate_mem tecmpDecode (e.dev, e.stream) bufs (arr.map some) s hs hproj x hx hxe
  have harr' : ∀ b ∈ arr, ∃ i, ArrP (e.encode batch c).2 c.min b i := by
    intro b hb
    obtain ⟨i, hi⟩ := harr b hb
    exact ⟨i, arrP_of_arrived hi⟩
  by_cases hne : batch = []
  · subst hne
    cases arr with
    | nil => simp [decodeAll] at hp
    | cons b bs =>
      obtain ⟨i, f, hf, _⟩ := harr' b (by simp)
      rw [(encode_nil e c).1] at hf
      simp at hf
  · obtain ⟨p0, hp0⟩ := List.exists_mem_of_ne_nil batch hne
    obtain ⟨_, _, _, _, _, _, _, hv1, hv2, _⟩ := C01.wf_unpack (hwf p0 hp0)
    rw [hver p0 hp0] at hv1 hv2
    let X : Setup := mkSetup e batch c v hc hwf hver hdev hstream hN hv1 hv2
    have harrX : ∀ b ∈ arr, ∃ i, ArrP X.fs X.min b i := harr'
    have hcopy : ∀ g ∈ arr.map parseFrame, ∃ i, Copy X.S g i := by
      intro g hg
      obtain ⟨b, hb', rfl⟩ := List.mem_map.mp hg
      obtain ⟨i, hi⟩ := harrX b hb'
      exact ⟨i, (arr_copy X hi).1⟩
    rw [decode_arr X arr harrX] at hp
    have hgood := C06_no_corruption2 X.S _ (side2_of X arr harrX rfl hside) hcopy x.2 hp
    obtain ⟨ip, hip, hpe⟩ := good_exact X x.2 hgood
    refine ⟨ip.2, zip_mem batch ip hip, ?_⟩
    rw [hpe]
    show dec e.dev e.stream v ip.2 (if 16 + ip.2.data.length ≤ c.cap then 0 else 4) = _
    rw [← hver ip.2 (zip_mem batch ip hip)]
    rfl

/-! ### instance of `C06_bytes_weak_side` outside the domain of `C06b.C06_bytes` -/

namespace WeakSideBytes
open VersionZero

/-- an Ethernet packet of 60 payload bytes: three segments under `ctx` (frames of ≤ 48 bytes) -/
def pkt3 : Packet := { payload := some ⟨tyEth, [0,4,0,0,0,54] ++ List.replicate 54 7⟩, version := 1 }

def g0 : Bytes :=
  [1,0,0,2,1,3,0,2, 0,0,0,0,0,0,0,0, 0,0,0,0, 4,8,0,24, 0,4,0,0,0,54,7,7,7,7,7,7,7,7,7,7,7,7,7,7,7,7,7,7]
def g1 : Bytes :=
  [1,0,0,2,1,3,0,3, 0,0,0,0,0,0,0,0, 0,0,0,0, 8,8,0,24, 7,7,7,7,7,7,7,7,7,7,7,7,7,7,7,7,7,7,7,7,7,7,7,7]
def g2 : Bytes :=
  [1,0,0,2,1,3,0,4, 0,0,0,0,0,0,0,0, 0,0,0,0, 12,8,0,12, 7,7,7,7,7,7,7,7,7,7,7,7]
/-- first and last segment frame with version byte 9 -/
def k0 : Bytes := writeAt (writeAt g0 0 [UInt8.ofNat 9]) 4 [UInt8.ofNat 1]
def k2 : Bytes := writeAt (writeAt g2 0 [UInt8.ofNat 9]) 4 [UInt8.ofNat 1]

/-- first(v=9), middle(clean), last(v=9), then the clean message -/
def arr3 : List Bytes := [k0, g1, k2, g0, g1, g2]

theorem hyps3 : ctx.ok = true ∧ (∀ p ∈ [pkt3], p.WF) ∧ (∀ p ∈ [pkt3], p.version = 1) ∧
    enc.dev < 65536 ∧ enc.stream < 256 ∧ (enc.encode [pkt3] ctx).2.length < 65536 := by
  refine ⟨by decide, ?_, ?_, by decide, by decide, by decide +kernel⟩
  · intro p hp; simp only [List.mem_singleton] at hp; subst hp
    show pkt3.wf = true
    decide +kernel
  · intro p hp; simp only [List.mem_singleton] at hp; subst hp; rfl

theorem sent3 : (enc.encode [pkt3] ctx).2.map (EFrame.bytes ctx.min) = [g0, g1, g2] := by decide +kernel

theorem shape3 : (enc.encode [pkt3] ctx).2.map (fun f => (f.mt, f.msgs.map (fun m => (m.seg, nOf ctx m)))) =
    [(1, [(4, 3)]), (1, [(8, 3)]), (1, [(12, 3)])] := by decide +kernel

theorem frame_cases3 : ∃ f0 f1 f2, (enc.encode [pkt3] ctx).2 = [f0, f1, f2] ∧
    EFrame.bytes ctx.min f0 = g0 ∧ EFrame.bytes ctx.min f1 = g1 ∧ EFrame.bytes ctx.min f2 = g2 ∧
    (f0.mt = 1 ∧ f0.msgs.map (fun m => (m.seg, nOf ctx m)) = [(4, 3)]) ∧
    (f1.mt = 1 ∧ f1.msgs.map (fun m => (m.seg, nOf ctx m)) = [(8, 3)]) ∧
    (f2.mt = 1 ∧ f2.msgs.map (fun m => (m.seg, nOf ctx m)) = [(12, 3)]) := by
  have hs := sent3
  have hh := shape3
  cases hfs : (enc.encode [pkt3] ctx).2 with
  | nil => rw [hfs] at hs; simp at hs
  | cons f0 r =>
    cases r with
    | nil => rw [hfs] at hs; simp at hs
    | cons f1 r =>
      cases r with
      | nil => rw [hfs] at hs; simp at hs
      | cons f2 r =>
        cases r with
        | nil =>
          rw [hfs] at hs hh
          simp only [List.map_cons, List.map_nil, List.cons.injEq, and_true, Prod.mk.injEq] at hs hh
          exact ⟨f0, f1, f2, rfl, hs.1, hs.2.1, hs.2.2, hh.1, hh.2.1, hh.2.2⟩
        | cons _ _ => rw [hfs] at hs; simp at hs

/-- every arrived buffer with the index of the frame it copies -/
theorem arr3_index : ∀ b ∈ arr3, ∃ i, Arrived (enc.encode [pkt3] ctx).2 ctx.min b i ∧
    ((b = k0 ∨ b = g0) → i = 0) ∧ (b = g1 → i = 1) ∧ ((b = k2 ∨ b = g2) → i = 2) := by
  obtain ⟨f0, f1, f2, hfs, e0, e1, e2, _, _, _⟩ := frame_cases3
  have hseg0 : isSegFrame (enc.encode [pkt3] ctx).2 0 = true := by decide +kernel
  have hseg2 : isSegFrame (enc.encode [pkt3] ctx).2 2 = true := by decide +kernel
  have a0 : Arrived (enc.encode [pkt3] ctx).2 ctx.min g0 0 := e0 ▸ Arrived.clean 0 f0 (by rw [hfs]; rfl)
  have a1 : Arrived (enc.encode [pkt3] ctx).2 ctx.min g1 1 := e1 ▸ Arrived.clean 1 f1 (by rw [hfs]; rfl)
  have a2 : Arrived (enc.encode [pkt3] ctx).2 ctx.min g2 2 := e2 ▸ Arrived.clean 2 f2 (by rw [hfs]; rfl)
  have b0 : Arrived (enc.encode [pkt3] ctx).2 ctx.min k0 0 := by
    unfold k0; rw [← e0]
    exact Arrived.corrupted 0 f0 9 1 (by rw [hfs]; rfl) hseg0 (by decide) (by decide) (by decide)
  have b2 : Arrived (enc.encode [pkt3] ctx).2 ctx.min k2 2 := by
    unfold k2; rw [← e2]
    exact Arrived.corrupted 2 f2 9 1 (by rw [hfs]; rfl) hseg2 (by decide) (by decide) (by decide)
  intro b hb
  simp only [arr3, List.mem_cons, List.not_mem_nil, or_false] at hb
  rcases hb with rfl | rfl | rfl | rfl | rfl | rfl
  · exact ⟨0, b0, fun _ => rfl, by decide, by decide⟩
  · exact ⟨1, a1, by decide, fun _ => rfl, by decide⟩
  · exact ⟨2, b2, by decide, by decide, fun _ => rfl⟩
  · exact ⟨0, a0, fun _ => rfl, by decide, by decide⟩
  · exact ⟨1, a1, by decide, fun _ => rfl, by decide⟩
  · exact ⟨2, a2, by decide, by decide, fun _ => rfl⟩

theorem arr3_arrived : ∀ b ∈ arr3, ∃ i, Arrived (enc.encode [pkt3] ctx).2 ctx.min b i := by
  intro b hb
  obtain ⟨i, hi, _⟩ := arr3_index b hb
  exact ⟨i, hi⟩

theorem arr3_side2 : SideB2 (enc.encode [pkt3] ctx).2 ctx 1 arr3 := by
  obtain ⟨hc, hwf, hver, hdev, hstream, hN⟩ := hyps3
  obtain ⟨f0, f1, f2, hfs, _, _, _, ⟨hm0, hs0⟩, ⟨_, hs1⟩, ⟨_, hs2⟩⟩ := frame_cases3
  have hidx := fun {b : Bytes} {i i' : Nat} (h : Arrived (enc.encode [pkt3] ctx).2 ctx.min b i)
      (h' : Arrived (enc.encode [pkt3] ctx).2 ctx.min b i') =>
    arrived_index enc [pkt3] ctx 1 hc hwf hver hdev hstream hN (by decide) (by decide) h h'
  intro i0 f m hf hm hseg ver t hne
  rw [hfs] at hf
  match i0, hf with
  | 0, hf =>
    simp only [List.getElem?_cons_zero, Option.some.injEq] at hf
    subst hf
    rw [hm] at hs0
    simp only [List.map_cons, List.map_nil, List.cons.injEq, Prod.mk.injEq, and_true] at hs0
    rw [hs0.2]
    rw [hm0] at hne
    by_cases h9 : ver = 9 ∧ t = 1
    · refine ⟨1, by decide, ?_⟩
      intro b hb ha hp
      obtain ⟨i, hi, h0, h1, h2⟩ := arr3_index b hb
      have hi1 : i = 0 + 1 := hidx hi ha
      simp only [arr3, List.mem_cons, List.not_mem_nil, or_false] at hb
      rcases hb with rfl | rfl | rfl | rfl | rfl | rfl
      · have := h0 (Or.inl rfl); omega
      · obtain ⟨rfl, rfl⟩ := h9; exact absurd hp.1 (by decide)
      · have := h2 (Or.inl rfl); omega
      · have := h0 (Or.inr rfl); omega
      · obtain ⟨rfl, rfl⟩ := h9; exact absurd hp.1 (by decide)
      · have := h2 (Or.inr rfl); omega
    · refine ⟨0, by decide, ?_⟩
      intro b hb ha hp
      obtain ⟨i, hi, h0, h1, h2⟩ := arr3_index b hb
      have hi1 : i = 0 + 0 := hidx hi ha
      simp only [arr3, List.mem_cons, List.not_mem_nil, or_false] at hb
      rcases hb with rfl | rfl | rfl | rfl | rfl | rfl
      · exact h9 ⟨hp.1.symm.trans (by decide), hp.2.symm.trans (by decide)⟩
      · have := h1 rfl; omega
      · have := h2 (Or.inl rfl); omega
      · exact hne ⟨hp.1.symm.trans (by decide), hp.2.symm.trans (by decide)⟩
      · have := h1 rfl; omega
      · have := h2 (Or.inr rfl); omega
  | 1, hf =>
    simp only [List.getElem?_cons_succ, List.getElem?_cons_zero, Option.some.injEq] at hf
    subst hf
    rw [hm] at hs1
    simp only [List.map_cons, List.map_nil, List.cons.injEq, Prod.mk.injEq, and_true] at hs1
    omega
  | 2, hf =>
    simp only [List.getElem?_cons_succ, List.getElem?_cons_zero, Option.some.injEq] at hf
    subst hf
    rw [hm] at hs2
    simp only [List.map_cons, List.map_nil, List.cons.injEq, Prod.mk.injEq, and_true] at hs2
    omega
  | _ + 3, hf => simp at hf

/-- the registered side condition `SideB` FAILS on this history (first and last segment frame agree
    on the wrong version 9) … -/
theorem arr3_not_sideB : ¬ SideB (enc.encode [pkt3] ctx).2 ctx.min 1 arr3 := by
  obtain ⟨f0, f1, f2, hfs, _, _, _, _, _, _⟩ := frame_cases3
  intro h
  obtain ⟨i, hi, h0, _, _⟩ := arr3_index k0 (by simp [arr3])
  obtain ⟨i', hi', _, _, h2⟩ := arr3_index k2 (by simp [arr3])
  have e0 := h0 (Or.inl rfl)
  have e2 := h2 (Or.inl rfl)
  subst e0 e2
  have := h k0 (by simp [arr3]) k2 (by simp [arr3]) 0 2 f0 hi hi' (by decide) (by rw [hfs]; rfl)
    (by decide +kernel) (by decide +kernel) (by decide +kernel) (by decide) (by decide)
  exact absurd this.1 (by decide)

/-- … while all hypotheses of `C06_bytes_weak_side` hold and the decoder delivers exactly the sent
    packet, once (the corrupted attempt is rejected at the middle segment) -/
theorem nonvacuous_weak :
    (∀ b ∈ arr3, ∃ i, Arrived (enc.encode [pkt3] ctx).2 ctx.min b i) ∧
    SideB2 (enc.encode [pkt3] ctx).2 ctx 1 arr3 ∧ ¬ SideB (enc.encode [pkt3] ctx).2 ctx.min 1 arr3 ∧
    (decodeAll tecmpDecode DecState.empty (arr3.map some)).2 = [sentAs 2 3 ctx.cap pkt3] :=
  ⟨arr3_arrived, arr3_side2, arr3_not_sideB, by decide +kernel⟩

end WeakSideBytes

/-! ## 8. a stream accumulated over SEVERAL `encode` calls (finding 4 (i))

The frames of a history of `encode` calls on one encoder object (existing `Enc.runOps`), all with
the same configuration and protocol version.  Sequence counters continue across the calls
(`C09_encode`), so the concatenation is again ONE sent stream in the sense of the fault model. -/

/-- the frames of consecutive `encode` calls, in order: `Enc.runOps` on a history of encode operations -/
def callsFrames (e : Enc) (c : Ctx) (bs : List (List Packet)) : List EFrame :=
  (e.runOps (bs.map fun b => EncOp.encode b c)).2.flatten

theorem callsFrames_cons (e : Enc) (c : Ctx) (b : List Packet) (bs : List (List Packet)) :
    callsFrames e c (b :: bs) = (e.encode b c).2 ++ callsFrames (e.encode b c).1 c bs := rfl

/-- the (index, packet) pairs of all calls -/
def callsIb (bs : List (List Packet)) : List (Nat × Packet) :=
  bs.flatMap fun b => (List.range b.length).zip b

theorem callsIb_mem (bs : List (List Packet)) : ∀ ip ∈ callsIb bs, ip.2 ∈ bs.flatten := by
  intro ip hip
  obtain ⟨b, hb, hipb⟩ := List.mem_flatMap.1 hip
  exact List.mem_flatten.2 ⟨b, hb, zip_mem b ip hipb⟩

theorem calls_index (c : Ctx) : ∀ (bs : List (List Packet)) (e : Enc), e.Idle →
    ∀ i (h : i < (callsFrames e c bs).length), (callsFrames e c bs)[i].seq = (e.seqc + i + 1) % 65536 := by
  intro bs
  induction bs with
  | nil => intro e _ i h; simp [callsFrames, Enc.runOps] at h
  | cons b bs ih =>
    intro e hidle i h
    obtain ⟨hidle', _, _, hseqc, hidx, _, _⟩ := C09_encode e b c hidle
    simp only [callsFrames_cons] at h ⊢
    by_cases hi : i < (e.encode b c).2.length
    · rw [List.getElem_append_left hi]
      exact (hidx i hi).1
    · rw [List.getElem_append_right (by omega)]
      rw [ih _ hidle' _ (by simp only [List.length_append] at h; omega), hseqc]
      omega

theorem calls_frok (c : Ctx) (v dev stream : Nat) (hcap : 17 ≤ c.cap) (hv : v < 256) :
    ∀ (bs : List (List Packet)) (e : Enc), e.Idle → e.dev = dev → e.stream = stream →
    (∀ p ∈ bs.flatten, p.WF ∧ p.version = v) →
    ∀ f ∈ callsFrames e c bs, FrOk dev stream v f := by
  intro bs
  induction bs with
  | nil => intro e _ _ _ _ f hf; simp [callsFrames, Enc.runOps] at hf
  | cons b bs ih =>
    intro e hidle hd hs hall f hf
    obtain ⟨hidle', hd', hs', _⟩ := C09_encode e b c hidle
    rw [callsFrames_cons] at hf
    rcases List.mem_append.1 hf with hf | hf
    · have := encode_good e b c v hcap (fun p hp => (hall p (by simp [hp])).1)
        (fun p hp => (hall p (by simp [hp])).2) hv
      rw [hd, hs] at this
      exact this.1 f hf
    · exact ih _ hidle' (hd'.trans hd) (hs'.trans hs)
        (fun p hp => hall p (by simp only [List.flatten_cons, List.mem_append]; exact Or.inr hp)) f hf

theorem calls_flat (c : Ctx) (hcap : 17 ≤ c.cap) : ∀ (bs : List (List Packet)) (e : Enc),
    (callsFrames e c bs).flatMap (·.msgs) = (callsIb bs).flatMap (fun ip => pieces c ip.1 ip.2) := by
  intro bs
  induction bs with
  | nil => intro e; rfl
  | cons b bs ih =>
    intro e
    rw [callsFrames_cons, List.flatMap_append, (encode_spec e b c hcap).2.1, ih]
    simp [callsIb]

theorem calls_nil (c : Ctx) : ∀ (bs : List (List Packet)) (e : Enc), (∀ b ∈ bs, b = []) →
    callsFrames e c bs = [] := by
  intro bs
  induction bs with
  | nil => intro e _; rfl
  | cons b bs ih =>
    intro e h
    have hb : b = [] := h b (by simp)
    subst hb
    rw [callsFrames_cons, (encode_nil e c).1, ih _ (fun x hx => h x (by simp [hx]))]
    rfl

/-- the `Setup` of a history of `encode` calls -/
def mkSetupCalls (e : Enc) (bs : List (List Packet)) (c : Ctx) (v : Nat)
    (hc : c.ok = true) (hidle : e.Idle) (hall : ∀ p ∈ bs.flatten, p.WF ∧ p.version = v)
    (hdev : e.dev < 65536) (hstream : e.stream < 256)
    (hN : (callsFrames e c bs).length < 65536) (hv1 : 1 ≤ v) (hv2 : v < 256) : Setup :=
  { c := c, min := c.min, dev := e.dev, stream := e.stream, v := v,
    ib := callsIb bs, fs := callsFrames e c bs,
    hcap := (Ctx.ok_cap hc).1, hdev := hdev, hstream := hstream, hv1 := hv1, hv := hv2,
    hwf := fun ip hip => (hall _ (callsIb_mem bs ip hip)).1,
    hver := fun ip hip => (hall _ (callsIb_mem bs ip hip)).2,
    hg := ⟨calls_frok c v e.dev e.stream (Ctx.ok_cap hc).1 hv2 bs e hidle rfl rfl hall,
      chain_of_index 1 _ e.seqc (fun i h => by rw [calls_index c bs e hidle i h]; omega)⟩,
    hflat := calls_flat c (Ctx.ok_cap hc).1 bs e, hN := hN }

/-- the core of the byte-level safety proofs, for any `Setup` -/
theorem weak_core (X : Setup) (hmin : X.min = X.c.min) (arr : List Bytes)
    (harr : ∀ b ∈ arr, ∃ i, Arrived X.fs X.c.min b i) (hside : SideB2 X.fs X.c X.v arr) :
    ∀ p ∈ (decodeAll tecmpDecode DecState.empty (arr.map some)).2,
      ∃ ip ∈ X.ib, p = dec X.dev X.stream X.v ip.2 (if 16 + ip.2.data.length ≤ X.c.cap then 0 else 4) := by
  intro p hp
  have harrX : ∀ b ∈ arr, ∃ i, ArrP X.fs X.min b i := by
    intro b hb
    obtain ⟨i, hi⟩ := harr b hb
    rw [hmin]
    exact ⟨i, arrP_of_arrived hi⟩
  have hcopy : ∀ g ∈ arr.map parseFrame, ∃ i, Copy X.S g i := by
    intro g hg
    obtain ⟨b, hb', rfl⟩ := List.mem_map.mp hg
    obtain ⟨i, hi⟩ := harrX b hb'
    exact ⟨i, (arr_copy X hi).1⟩
  rw [decode_arr X arr harrX] at hp
  exact good_exact X p (C06_no_corruption2 X.S _ (side2_of X arr harrX hmin hside) hcopy p hp)

/-- **C06 end to end for a stream built by several `encode` calls, several endpoints, exact, weak
    side condition.**  `bs` are the batches of consecutive `encode` calls (same configuration `c`, one
    protocol version `v`) on an encoder that is between API calls (`Idle`: nothing half-built, counter
    in range — the state every sequence of API calls leaves, `C09_encode` / `C09_config`); the whole
    stream has fewer than 65536 frames.  `arr` is any list of copies of frames of ANY of the calls
    (drop / duplicate / reorder across call boundaries too), segment copies possibly with another
    version / type byte, `SideB2`.  `bufs` is an arbitrary buffer history whose sub-history addressing
    the encoder's endpoint is `arr`.  Then every packet delivered for the endpoint equals, in every
    field, `sentAs` of a packet given to one of the calls. -/
theorem C06_bytes_calls (e : Enc) (bs : List (List Packet)) (c : Ctx) (v : Nat)
    (hc : c.ok = true) (hidle : e.Idle) (hall : ∀ p ∈ bs.flatten, p.WF ∧ p.version = v)
    (hdev : e.dev < 65536) (hstream : e.stream < 256)
    (hN : (callsFrames e c bs).length < 65536)
    (arr : List Bytes)
    (harr : ∀ b ∈ arr, ∃ i, Arrived (callsFrames e c bs) c.min b i)
    (hside : SideB2 (callsFrames e c bs) c v arr)
    (bufs : List (Option Bytes)) (s : DecState) (hs : s (e.dev, e.stream) = none)
    (hproj : bufs.filter (fun b => bufEp b = some (e.dev, e.stream)) = arr.map some) :
    ∀ x ∈ (decodeAllT tecmpDecode s bufs).2, x.1 = some (e.dev, e.stream) →
      ∃ q ∈ bs.flatten, x.2 = sentAs e.dev e.stream c.cap q := by
  intro x hx hxe
  have hp := isolate_mem tecmpDecode (e.dev, e.stream) bufs (arr.map some) s hs hproj x hx hxe
  by_cases hne : ∀ b ∈ bs, b = []
  · have hnil := calls_nil c bs e hne
    cases arr with
    | nil => simp [decodeAll] at hp
    | cons b rest =>
      obtain ⟨i, hi⟩ := harr b (by simp)
      obtain ⟨f, hf, _⟩ := arrP_of_arrived hi
      rw [hnil] at hf
      simp at hf
  · have : ∃ p0, p0 ∈ bs.flatten := by
      apply Classical.byContradiction
      intro hno
      apply hne
      intro b hb
      cases b with
      | nil => rfl
      | cons p ps => exact absurd ⟨p, List.mem_flatten.2 ⟨_, hb, by simp⟩⟩ hno
    obtain ⟨p0, hp0⟩ := this
    obtain ⟨_, _, _, _, _, _, _, hv1, hv2, _⟩ := C01.wf_unpack (hall p0 hp0).1
    rw [(hall p0 hp0).2] at hv1 hv2
    let X : Setup := mkSetupCalls e bs c v hc hidle hall hdev hstream hN hv1 hv2
    obtain ⟨ip, hip, hpe⟩ := weak_core X rfl arr harr hside x.2 hp
    have hq := callsIb_mem bs ip hip
    refine ⟨ip.2, hq, ?_⟩
    rw [hpe]
    show dec e.dev e.stream v ip.2 (if 16 + ip.2.data.length ≤ c.cap then 0 else 4) = _
    rw [← (hall ip.2 hq).2]
    rfl

/-! ### instance of `C06_bytes_calls`: the same packet sent by two consecutive `encode` calls -/

namespace TwoCalls
open VersionZero

def calls : List (List Packet) := [[pkt], [pkt]]

/-- frames of the second call: counters 4 and 5 -/
def frame2 : Bytes :=
  [1,0,0,2,1,3,0,4, 0,0,0,0,0,0,0,0, 0,0,0,0, 4,8,0,24, 0,4,0,0,0,30,7,7,7,7,7,7,7,7,7,7,7,7,7,7,7,7,7,7]
def frame3 : Bytes :=
  [1,0,0,2,1,3,0,5, 0,0,0,0,0,0,0,0, 0,0,0,0, 12,8,0,12, 7,7,7,7,7,7,7,7,7,7,7,7]

/-- arrival order mixes the two calls; one copy of call 1's last segment carries version 9 -/
def arr2 : List Bytes := [frame2, frame0, c1, frame3, frame0, frame1, frame2, frame3]

theorem idle : enc.Idle := ⟨rfl, rfl, rfl, by decide⟩

theorem hyps2 : ctx.ok = true ∧ (∀ p ∈ calls.flatten, p.WF ∧ p.version = 1) ∧
    enc.dev < 65536 ∧ enc.stream < 256 ∧ (callsFrames enc ctx calls).length < 65536 := by
  refine ⟨by decide, ?_, by decide, by decide, by decide +kernel⟩
  intro p hp
  simp only [calls, List.flatten_cons, List.flatten_nil, List.append_nil, List.cons_append, List.nil_append,
    List.mem_cons, List.not_mem_nil, or_false, or_self] at hp
  subst hp
  exact ⟨hyps.2.1 pkt (by simp), rfl⟩

theorem sent2 : (callsFrames enc ctx calls).map (EFrame.bytes ctx.min) = [frame0, frame1, frame2, frame3] := by
  decide +kernel

theorem shape2 : (callsFrames enc ctx calls).map (fun f => (f.mt, f.msgs.map (fun m => (m.seg, nOf ctx m)))) =
    [(1, [(4, 2)]), (1, [(12, 2)]), (1, [(4, 2)]), (1, [(12, 2)])] := by decide +kernel

theorem frame_cases2 : ∃ f0 f1 f2 f3, callsFrames enc ctx calls = [f0, f1, f2, f3] ∧
    EFrame.bytes ctx.min f0 = frame0 ∧ EFrame.bytes ctx.min f1 = frame1 ∧
    EFrame.bytes ctx.min f2 = frame2 ∧ EFrame.bytes ctx.min f3 = frame3 ∧
    (f0.mt = 1 ∧ f0.msgs.map (fun m => (m.seg, nOf ctx m)) = [(4, 2)]) ∧
    (f1.mt = 1 ∧ f1.msgs.map (fun m => (m.seg, nOf ctx m)) = [(12, 2)]) ∧
    (f2.mt = 1 ∧ f2.msgs.map (fun m => (m.seg, nOf ctx m)) = [(4, 2)]) ∧
    (f3.mt = 1 ∧ f3.msgs.map (fun m => (m.seg, nOf ctx m)) = [(12, 2)]) := by
  have hs := sent2
  have hh := shape2
  cases hfs : callsFrames enc ctx calls with
  | nil => rw [hfs] at hs; simp at hs
  | cons f0 r =>
    cases r with
    | nil => rw [hfs] at hs; simp at hs
    | cons f1 r =>
      cases r with
      | nil => rw [hfs] at hs; simp at hs
      | cons f2 r =>
        cases r with
        | nil => rw [hfs] at hs; simp at hs
        | cons f3 r =>
          cases r with
          | nil =>
            rw [hfs] at hs hh
            simp only [List.map_cons, List.map_nil, List.cons.injEq, and_true, Prod.mk.injEq] at hs hh
            exact ⟨f0, f1, f2, f3, rfl, hs.1, hs.2.1, hs.2.2.1, hs.2.2.2, hh.1, hh.2.1, hh.2.2.1, hh.2.2.2⟩
          | cons _ _ => rw [hfs] at hs; simp at hs

/-- every arrived buffer is a copy of the frame with the index `idx b` -/
def idx (b : Bytes) : Nat := byteAt b 7 - 2

theorem arr2_index' : ∀ b ∈ arr2, ∃ i, Arrived (callsFrames enc ctx calls) ctx.min b i ∧ i = idx b := by
  obtain ⟨f0, f1, f2, f3, hfs, e0, e1, e2, e3, _⟩ := frame_cases2
  have hseg1 : isSegFrame (callsFrames enc ctx calls) 1 = true := by decide +kernel
  have a0 : Arrived (callsFrames enc ctx calls) ctx.min frame0 0 := e0 ▸ Arrived.clean 0 f0 (by rw [hfs]; rfl)
  have a1 : Arrived (callsFrames enc ctx calls) ctx.min frame1 1 := e1 ▸ Arrived.clean 1 f1 (by rw [hfs]; rfl)
  have a2 : Arrived (callsFrames enc ctx calls) ctx.min frame2 2 := e2 ▸ Arrived.clean 2 f2 (by rw [hfs]; rfl)
  have a3 : Arrived (callsFrames enc ctx calls) ctx.min frame3 3 := e3 ▸ Arrived.clean 3 f3 (by rw [hfs]; rfl)
  have b1 : Arrived (callsFrames enc ctx calls) ctx.min c1 1 := by
    unfold c1; rw [← e1]
    exact Arrived.corrupted 1 f1 9 1 (by rw [hfs]; rfl) hseg1 (by decide) (by decide) (by decide)
  intro b hb
  simp only [arr2, List.mem_cons, List.not_mem_nil, or_false] at hb
  rcases hb with rfl | rfl | rfl | rfl | rfl | rfl | rfl | rfl
  · exact ⟨2, a2, by decide⟩
  · exact ⟨0, a0, by decide⟩
  · exact ⟨1, b1, by decide⟩
  · exact ⟨3, a3, by decide⟩
  · exact ⟨0, a0, by decide⟩
  · exact ⟨1, a1, by decide⟩
  · exact ⟨2, a2, by decide⟩
  · exact ⟨3, a3, by decide⟩

theorem arr2_index : ∀ b ∈ arr2, Arrived (callsFrames enc ctx calls) ctx.min b (idx b) := by
  intro b hb
  obtain ⟨i, hi, rfl⟩ := arr2_index' b hb
  exact hi

theorem arr2_arrived : ∀ b ∈ arr2, ∃ i, Arrived (callsFrames enc ctx calls) ctx.min b i :=
  fun b hb => ⟨idx b, arr2_index b hb⟩

/-- a buffer copies at most one frame of the two-call stream -/
theorem arr2_unique {b : Bytes} {i i' : Nat} (h : Arrived (callsFrames enc ctx calls) ctx.min b i)
    (h' : Arrived (callsFrames enc ctx calls) ctx.min b i') : i = i' := by
  obtain ⟨hc, hall, hdev, hstream, hN⟩ := hyps2
  let X : Setup := mkSetupCalls enc calls ctx 1 hc idle hall hdev hstream hN (by decide) (by decide)
  have a : ArrP X.fs X.min b i := arrP_of_arrived h
  have a' : ArrP X.fs X.min b i' := arrP_of_arrived h'
  exact copy_index X (arr_copy X a).1 (arr_copy X a').1

theorem arr2_side2 : SideB2 (callsFrames enc ctx calls) ctx 1 arr2 := by
  obtain ⟨f0, f1, f2, f3, hfs, _, _, _, _, ⟨hm0, hs0⟩, ⟨_, hs1⟩, ⟨hm2, hs2⟩, ⟨_, hs3⟩⟩ := frame_cases2
  -- every arrived copy of a first-segment frame (index 0 or 2) is clean: segment 0 is the witness
  have key : ∀ i0, (i0 = 0 ∨ i0 = 2) → ∀ ver t, ¬ (ver = 1 ∧ t = 1) → ∀ b ∈ arr2,
      Arrived (callsFrames enc ctx calls) ctx.min b (i0 + 0) → ¬ (byteAt b 0 = ver ∧ byteAt b 4 = t) := by
    intro i0 hi0 ver t hne b hb ha hp
    have hi := arr2_unique (arr2_index b hb) ha
    simp only [arr2, List.mem_cons, List.not_mem_nil, or_false] at hb
    rcases hb with rfl | rfl | rfl | rfl | rfl | rfl | rfl | rfl <;>
      first
        | exact hne ⟨hp.1.symm.trans (by decide), hp.2.symm.trans (by decide)⟩
        | (exfalso; revert hi; rcases hi0 with rfl | rfl <;> decide)
  intro i0 f m hf hm hseg ver t hne
  rw [hfs] at hf
  match i0, hf with
  | 0, hf =>
    simp only [List.getElem?_cons_zero, Option.some.injEq] at hf
    subst hf
    rw [hm] at hs0
    simp only [List.map_cons, List.map_nil, List.cons.injEq, Prod.mk.injEq, and_true] at hs0
    rw [hs0.2]; rw [hm0] at hne
    exact ⟨0, by decide, key 0 (Or.inl rfl) ver t hne⟩
  | 1, hf =>
    simp only [List.getElem?_cons_succ, List.getElem?_cons_zero, Option.some.injEq] at hf
    subst hf
    rw [hm] at hs1
    simp only [List.map_cons, List.map_nil, List.cons.injEq, Prod.mk.injEq, and_true] at hs1
    omega
  | 2, hf =>
    simp only [List.getElem?_cons_succ, List.getElem?_cons_zero, Option.some.injEq] at hf
    subst hf
    rw [hm] at hs2
    simp only [List.map_cons, List.map_nil, List.cons.injEq, Prod.mk.injEq, and_true] at hs2
    rw [hs2.2]; rw [hm2] at hne
    exact ⟨0, by decide, key 2 (Or.inr rfl) ver t hne⟩
  | 3, hf =>
    simp only [List.getElem?_cons_succ, List.getElem?_cons_zero, Option.some.injEq] at hf
    subst hf
    rw [hm] at hs3
    simp only [List.map_cons, List.map_nil, List.cons.injEq, Prod.mk.injEq, and_true] at hs3
    omega
  | _ + 4, hf => simp at hf

/-- all hypotheses of `C06_bytes_calls` hold (frames of two calls, reordered across the call boundary,
    duplicates, one corrupted version), and the decoder delivers the packet of each call, once each -/
theorem nonvacuous_calls :
    enc.Idle ∧ (∀ b ∈ arr2, ∃ i, Arrived (callsFrames enc ctx calls) ctx.min b i) ∧
    SideB2 (callsFrames enc ctx calls) ctx 1 arr2 ∧
    (decodeAll tecmpDecode DecState.empty (arr2.map some)).2 =
      [sentAs 2 3 ctx.cap pkt, sentAs 2 3 ctx.cap pkt] :=
  ⟨idle, arr2_arrived, arr2_side2, by decide +kernel⟩

end TwoCalls

/-! ## 9. `Side2` is not only sufficient but necessary (finding 2, exact characterisation) -/

theorem copy_seg_form {S : SStream} {g : PFrame} {i : Nat} {f : SF} (hc : Copy S g i)
    (hat : S.at_ i = some (.segF f)) :
    g = ⟨S.ep, g.ver, g.mt, S.seq i, [], .seg (f.hdr ++ f.body)⟩ := by
  cases hc with
  | unseg i pkts t ver mt h => rw [h] at hat; cases hat
  | seg i f' ver mt h =>
    rw [h] at hat
    injection hat with hat
    injection hat with hat
    subst hat
    rfl

/-- segments `j+1 … n-1`, all carrying the pair `(v, t)` the entry remembers, complete the message:
    the decoder delivers the reassembled packet WITH THAT PAIR -/
theorem recover_tail_pair (S : SStream) (i0 : Nat) (f0 : SF) (h0 : S.at_ i0 = some (.segF f0)) (hk : f0.k = 0)
    (v t : Nat) (G : Nat → PFrame)
    (hG : ∀ j f, j < f0.n → S.at_ (i0 + j) = some (.segF f) →
      G j = ⟨S.ep, v, t, S.seq (i0 + j), [], .seg (f.hdr ++ f.body)⟩) :
    ∀ (len j : Nat) (q : Pending) (w : Bytes), j + len + 2 = f0.n →
      w.length = 16 → w.take 14 = f0.hdr.take 14 → q.buf = w ++ S.acc i0 j →
      q.seq = S.seq (i0 + j) → q.last = segCode j f0.n → q.ver = v → q.mt = t →
      runLocal (some q) ((List.range' (j + 1) (len + 1)).map G) =
        (none, [tagPacket S.ep v (Packet.ofMsg t (fixLen (f0.hdr ++ S.acc i0 (f0.n - 1))))]) := by
  intro len
  induction len with
  | zero =>
    intro j q w hn hw hw14 hbuf hseq hlast hver hmt
    obtain ⟨f, hf, _, hfk, hfn, _, _⟩ := seg_at S i0 f0 h0 hk (j + 1) (by omega)
    obtain ⟨w', _, _, heq⟩ := step_clean S i0 j f0 f q v t w h0 hf hfk hfn (by omega) hw hw14
      hbuf hseq hlast hver hmt
    rw [List.range'_succ, List.map_cons, hG (j + 1) f (by omega) hf, runLocal_cons,
      ← Nat.add_assoc i0 j 1, heq, if_pos (by omega)]
    simp [runLocal, hver, hmt]
  | succ len ih =>
    intro j q w hn hw hw14 hbuf hseq hlast hver hmt
    obtain ⟨f, hf, _, hfk, hfn, _, _⟩ := seg_at S i0 f0 h0 hk (j + 1) (by omega)
    obtain ⟨w', hw', hw'14, heq⟩ := step_clean S i0 j f0 f q v t w h0 hf hfk hfn (by omega) hw hw14
      hbuf hseq hlast hver hmt
    rw [List.range'_succ, List.map_cons, hG (j + 1) f (by omega) hf, runLocal_cons,
      ← Nat.add_assoc i0 j 1, heq, if_neg (by omega)]
    simp only [List.nil_append]
    exact ih (j + 1) _ w' (by omega) hw' hw'14 rfl rfl rfl hver hmt

/-- copies of ALL segments of a message, in order, all carrying one pair `(v, t)`, are reassembled
    and delivered with version `v` and message type `t`, whatever was pending -/
theorem all_corrupted_delivers (S : SStream) (i0 : Nat) (f0 : SF) (h0 : S.at_ i0 = some (.segF f0)) (hk : f0.k = 0)
    (v t : Nat) (G : Nat → PFrame)
    (hG : ∀ k, k < f0.n → Copy S (G k) (i0 + k) ∧ (G k).ver = v ∧ (G k).mt = t) (p : Option Pending) :
    runLocal p ((List.range f0.n).map G) =
      (none, [tagPacket S.ep v (Packet.ofMsg t (fixLen (f0.hdr ++ S.acc i0 (f0.n - 1))))]) := by
  have hkn := S.kn i0 f0 h0
  have hh := S.hdrOk i0 f0 h0
  have hG' : ∀ j f, j < f0.n → S.at_ (i0 + j) = some (.segF f) →
      G j = ⟨S.ep, v, t, S.seq (i0 + j), [], .seg (f.hdr ++ f.body)⟩ := by
    intro j f hj hat
    obtain ⟨hc, hv, hm⟩ := hG j hj
    have := copy_seg_form hc hat
    rw [hv, hm] at this
    exact this
  obtain ⟨len, hlen'⟩ : ∃ len, f0.n = len + 2 := ⟨f0.n - 2, by omega⟩
  have hr : List.range f0.n = 0 :: List.range' (0 + 1) (len + 1) := by
    rw [List.range_eq_range', hlen', List.range'_succ]
  rw [hr, List.map_cons, hG' 0 f0 (by omega) h0, runLocal_cons,
    localStep_first p _ (f0.hdr ++ f0.body) rfl
      (by rw [segTypeOf_appendF _ _ hh.1, hh.2, hk, segCode_zero])]
  simp only [List.nil_append]
  exact recover_tail_pair S i0 f0 h0 hk v t G hG' len 0 ⟨f0.hdr ++ f0.body, 4, v, t, S.seq (i0 + 0)⟩ f0.hdr (by omega) hh.1 rfl
    (by rw [acc_zero S i0 f0 h0]) rfl (segCode_zero _).symm rfl rfl

/-- **`Side2` is exactly the condition the statement forces.**  If it fails — some message and some
    WRONG pair `(v, t)` such that every one of its segments has an arrived copy carrying `(v, t)` —
    then a selection of the arrived copies makes the decoder deliver a packet carrying version `v`
    and built with message type `t`: a packet with a pair the sender never used for this message.
    (Together with `C06_no_corruption2`: safety for every selection/order of the arrived copies holds
    iff `Side2`, up to the coincidence that the wrong packet equals another sent one.) -/
theorem side2_necessary (S : SStream) (all : List PFrame) (i0 : Nat) (f0 : SF)
    (h0 : S.at_ i0 = some (.segF f0)) (hk : f0.k = 0) (v t : Nat)
    (hall : ∀ k, k < f0.n → ∃ g ∈ all, Copy S g (i0 + k) ∧ g.ver = v ∧ g.mt = t) :
    ∃ gs : List PFrame, (∀ g ∈ gs, g ∈ all) ∧
      (runLocal none gs).2 = [tagPacket S.ep v (Packet.ofMsg t (fixLen (f0.hdr ++ S.acc i0 (f0.n - 1))))] ∧
      ∀ o ∈ (runLocal none gs).2, o.version = v := by
  let G : Nat → PFrame := fun k => if h : k < f0.n then Classical.choose (hall k h) else default
  have hG : ∀ k, k < f0.n → G k ∈ all ∧ Copy S (G k) (i0 + k) ∧ (G k).ver = v ∧ (G k).mt = t := by
    intro k hkn
    have := Classical.choose_spec (hall k hkn)
    simp only [G, dif_pos hkn]
    exact this
  have hrun := all_corrupted_delivers S i0 f0 h0 hk v t G (fun k hkn => (hG k hkn).2) none
  refine ⟨(List.range f0.n).map G, ?_, by rw [hrun], ?_⟩
  · intro g hg
    obtain ⟨k, hkr, rfl⟩ := List.mem_map.1 hg
    exact (hG k (List.mem_range.1 hkr)).1
  · intro o ho
    rw [hrun] at ho
    simp only [List.mem_singleton] at ho
    rw [ho]
    rfl

/-! ## 10. frames that hold unsegmented messages AND a segment (finding 7, second half) -/

/-- whatever is pending and whatever the frame holds, its unsegmented messages are delivered first,
    followed by at most one reassembled packet -/
theorem localStep_unseg_prefix (p : Option Pending) (f : PFrame) :
    ∃ tail, (localStep p f).2 = f.unseg ++ tail ∧ tail.length ≤ 1 := by
  unfold localStep
  split
  · exact ⟨[], by simp, by simp⟩
  · exact ⟨[], by simp, by simp⟩
  · dsimp only
    split
    · exact ⟨[], by simp, by simp⟩
    · split
      · exact ⟨[], by simp, by simp⟩
      · split
        · split
          · exact ⟨_, rfl, by simp⟩
          · exact ⟨[], by simp, by simp⟩
        · exact ⟨[], by simp, by simp⟩

/-- an unsegmented message in front of a continuation segment closes the open reassembly: the frame
    delivers exactly its unsegmented messages, nothing is reassembled, nothing stays pending
    ("any unsegmented … message of the endpoint erases its open reassembly", decoder.cpp:39-41) -/
theorem localStep_mixed (p : Option Pending) (f : PFrame) (m : Bytes) (hm : f.term = .seg m)
    (hu : f.unseg ≠ []) (ht : segTypeOf m ≠ 4) : localStep p f = (none, f.unseg) := by
  unfold localStep
  have : f.unseg.isEmpty = false := by
    cases hfu : f.unseg with
    | nil => exact absurd hfu hu
    | cons _ _ => rfl
  simp only [hm, ht, if_false, this, Bool.false_eq_true]

/-- … while in front of a FIRST segment they are delivered and the new reassembly starts -/
theorem localStep_mixed_first (p : Option Pending) (f : PFrame) (m : Bytes) (hm : f.term = .seg m)
    (ht : segTypeOf m = 4) : localStep p f = (some ⟨m, 4, f.ver, f.mt, f.seq⟩, f.unseg) :=
  localStep_first p f m hm ht

/-! ## 11. why the domain `Packet.WF` cannot simply be dropped (finding 4 (ii)) -/

namespace InvalidPayload
open VersionZero

/-- a packet typed CAN whose 3 payload bytes fail the CAN validator (not `WF`) -/
def q : Packet := { payload := some ⟨tyCan, [1, 2, 3]⟩, version := 1 }

/-- no fault at all: the encoder model serialises `q` into one frame, the decoder model delivers a
    packet whose payload is MARKED INVALID and zeroed by `Packet::create` (type 0, bytes 0,0,0) — not
    byte-identical to `q`.  So "byte-identical" can only be claimed for payloads that pass the
    validator of their type, which is what `Packet.WF` says. -/
theorem not_identical :
    q.wf = false ∧
    (decodeAll tecmpDecode DecState.empty
      (((enc.encode [q] ctx).2.map (EFrame.bytes ctx.min)).map some)).2.map (·.payload) =
      [some ⟨0, [0, 0, 0]⟩] := by
  constructor <;> decide +kernel

end InvalidPayload

end AsamCmp.C06S
