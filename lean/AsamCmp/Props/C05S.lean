/-
  C05S  Strengthenings of the C05 statements (segmented reassembly under interleaving), answering the
  statement review of C05.  Only ADDITIONAL theorems about the existing definitions; nothing existing
  is changed.

  §1  Layer B without the bound `total ≤ 65535`: the exact packet delivered for EVERY well-formed
      segmented message (`delivered`), of which `SegMsg.expected` is the special case `≤ 65535`.
  §2  per-call outputs (`ltrace`, `calls`): what each single `decode` call returns, on arbitrary
      mixed histories of buffers; lift of the interleaving theorem to bytes with the call position.
  §3  one message on bytes, without the bound, whole `Packet` value (all ten fields).
  §4  `create` unfolded: delivered type and bytes under the concrete validators.
  §5  closed literal instances.
-/
import AsamCmp.Props.C05b
import AsamCmp.Props.C17b
import AsamCmp.Props.C18
import AsamCmp.Props.SrcDecoderTotal
namespace AsamCmp.C05S
open AsamCmp AsamCmp.C05b

/-! ## §1  Layer B, no bound on the total length -/

/-- the 16-bit length the decoder writes behind a 16-byte header followed by `n` bytes is `n mod 2^16` -/
theorem lenField_mod (n : Nat) : lenField n = n % 65536 := by
  unfold lenField; omega

/-- the packet the decoder delivers for a segmented message, WITHOUT any bound on the total of the
    declared bytes: the `Packet(msgType, data, size)` constructor applied to the first segment's first
    14 header bytes, the 16-bit length `total mod 65536`, and all declared bytes -/
def delivered (M : SegMsg) : Packet :=
  tagPacket M.ep M.ver (Packet.ofMsg M.mt (M.first.1.take 14 ++ beEnc 2 (M.body.length % 65536) ++ M.body))

/-- for totals that fit 16 bits this is the packet `SegMsg.expected` of Props/C05.lean -/
theorem delivered_eq_expected (M : SegMsg) (hwf : M.WF) (hlen : M.body.length ≤ 65535) :
    delivered M = M.expected := by
  have h16 : M.first.1.length = 16 := hwf.1 _ (by simp [SegMsg.segs])
  have hmod : M.body.length % 65536 = M.body.length := by omega
  unfold delivered SegMsg.expected
  rw [writeAt_hdr _ _ h16 (beEnc_length 2 _), hmod]

theorem slice_hdr_take (h B : Bytes) (n k : Nat) (hh : h.length = 16) :
    slice (h.take 14 ++ beEnc 2 n ++ B) 16 k = B.take k := by
  have h16 : (h.take 14 ++ beEnc 2 n).length = 16 := by simp [hh]
  unfold slice
  rw [List.drop_left' h16]

/-- the payload of the delivered packet, for EVERY total: `Packet::create` of the first segment's type on
    the first `total mod 65536` bytes of the concatenation of the declared bytes -/
theorem delivered_payload (M : SegMsg) (hwf : M.WF) :
    (delivered M).payload =
      some (create (M.mt * 256 + byteAt M.first.1 13) (M.body.take (M.body.length % 65536))) := by
  have h16 : M.first.1.length = 16 := hwf.1 _ (by simp [SegMsg.segs])
  unfold delivered
  simp only [tagPacket, Packet.ofMsg, byteAt_hdr _ _ _ 13 (by omega) h16, beAt_hdr _ _ _ h16,
    Nat.mod_mod, slice_hdr_take _ _ _ _ h16]

/-- `reassemble_single` without the length bound: whatever was pending before, ANY well-formed segmented
    message is delivered exactly once, at its last frame, as `delivered M`, and nothing stays pending -/
theorem reassemble_single_total (M : SegMsg) (hwf : M.WF) (p0 : Option Pending) :
    runLocal p0 M.frames = (none, [delivered M]) ∧
    (runLocal p0 M.frames.dropLast).2 = [] := by
  obtain ⟨hall, h4, hmid, h12⟩ := hwf
  have hf16 : M.first.1.length = 16 := hall _ (by simp [SegMsg.segs])
  have hl16 : M.last.1.length = 16 := hall _ (by simp [SegMsg.segs])
  have hm : ∀ s ∈ M.middle, s.1.length = 16 ∧ segTypeOf s.1 = 8 :=
    fun s hs => ⟨hall s (by simp [SegMsg.segs, hs]), hmid s hs⟩
  have hbody : M.first.2 ++ (M.middle.map (·.2)).flatten ++ M.last.2 = M.body := by
    simp [SegMsg.body, SegMsg.segs]
  obtain ⟨q0, hstep0, hq0⟩ := M.step_first p0 hf16 h4
  rw [M.frames_eq]
  constructor
  · obtain ⟨q1, hrun, hq1⟩ := M.run_mids [M.last] M.middle 0 M.first.2 q0 hm hq0
    simp only [SegMsg.segs, SegMsg.framesFrom, runLocal, hstep0, List.nil_append]
    rw [hrun]
    simp only [SegMsg.framesFrom, runLocal]
    rw [show 0 + 1 + M.middle.length = 0 + M.middle.length + 1 by omega,
      M.step_last _ _ q1 M.last hq1 hl16 h12, hbody, lenField_mod]
    simp only [delivered, List.append_nil]
  · obtain ⟨q1, hrun, hq1⟩ := M.run_mids [] M.middle 0 M.first.2 q0 hm hq0
    rw [List.append_nil] at hrun
    have hsegs : M.segs = (M.first :: M.middle) ++ [M.last] := rfl
    rw [hsegs, M.framesFrom_append]
    simp only [SegMsg.framesFrom, List.dropLast_concat, runLocal, hstep0, List.nil_append]
    rw [hrun]
    simp only [SegMsg.framesFrom, runLocal]


/-! ## §2  what every single call returns -/

/-- per-frame outputs of the single-endpoint automaton: entry `i` is what frame `i` delivers -/
def ltrace (p : Option Pending) : List PFrame → List (List Packet)
  | [] => []
  | f :: fs => (localStep p f).2 :: ltrace (localStep p f).1 fs

/-- `ltrace` is `runLocal` with the outputs kept apart -/
theorem ltrace_flatten (p : Option Pending) (fs : List PFrame) :
    (ltrace p fs).flatten = (runLocal p fs).2 := by
  induction fs generalizing p with
  | nil => rfl
  | cons f fs ih => simp only [ltrace, runLocal, List.flatten_cons, ih]

theorem ltrace_length (p : Option Pending) (fs : List PFrame) : (ltrace p fs).length = fs.length := by
  induction fs generalizing p with
  | nil => rfl
  | cons f fs ih => simp only [ltrace, List.length_cons, ih]

theorem ltrace_append (p : Option Pending) (fs gs : List PFrame) :
    ltrace p (fs ++ gs) = ltrace p fs ++ ltrace (runLocal p fs).1 gs := by
  induction fs generalizing p with
  | nil => rfl
  | cons f fs ih => simp only [List.cons_append, ltrace, runLocal, ih]

theorem flatten_nil_replicate {α : Type} : ∀ l : List (List α), l.flatten = [] → l = List.replicate l.length [] := by
  intro l
  induction l with
  | nil => intro _; rfl
  | cons x xs ih =>
    intro h
    simp only [List.flatten_cons, List.append_eq_nil_iff] at h
    rw [List.length_cons, List.replicate_succ, h.1, ← ih h.2]

/-- a frame list that delivers `[x]` in total and nothing before its last frame delivers `[x]` AT its last
    frame -/
theorem ltrace_of_single (p : Option Pending) (fs : List PFrame) (x : Packet) (hne : fs ≠ [])
    (h1 : (runLocal p fs).2 = [x]) (h2 : (runLocal p fs.dropLast).2 = []) :
    ltrace p fs = List.replicate (fs.length - 1) [] ++ [[x]] := by
  have hsplit : fs = fs.dropLast ++ [fs.getLast hne] := (List.dropLast_concat_getLast hne).symm
  have hd := flatten_nil_replicate (ltrace p fs.dropLast) (by rw [ltrace_flatten, h2])
  rw [ltrace_length, List.length_dropLast] at hd
  have h1' := h1
  rw [← ltrace_flatten, hsplit, ltrace_append, List.flatten_append, ltrace_flatten, h2, List.nil_append] at h1'
  simp only [ltrace, List.flatten_cons, List.flatten_nil, List.append_nil] at h1'
  rw [hsplit, ltrace_append, hd]
  simp only [ltrace, h1', List.length_append, List.length_dropLast, List.length_singleton,
    Nat.add_sub_cancel]

theorem frames_length (M : SegMsg) : M.frames.length = M.middle.length + 2 := by
  simp [SegMsg.frames, SegMsg.segs]

/-- R1 + R2 for one message, frame by frame, no bound: every frame before the last delivers nothing, the
    last frame delivers exactly `delivered M` -/
theorem ltrace_msg (M : SegMsg) (hwf : M.WF) (p0 : Option Pending) :
    ltrace p0 M.frames = List.replicate (M.middle.length + 1) [] ++ [[delivered M]] ∧
    (runLocal p0 M.frames).1 = none := by
  obtain ⟨h1, h2⟩ := reassemble_single_total M hwf p0
  have hne : M.frames ≠ [] := by
    intro h; have := frames_length M; rw [h] at this; simp at this
  refine ⟨?_, by rw [h1]⟩
  rw [ltrace_of_single p0 M.frames (delivered M) hne (by rw [h1]) h2, frames_length]
  rfl

/-- per-message shape of the per-frame outputs -/
def msgOuts (M : SegMsg) : List (List Packet) := List.replicate (M.middle.length + 1) [] ++ [[delivered M]]

/-- … for a sequence of messages on one endpoint -/
theorem ltrace_many (Ms : List SegMsg) (hwf : ∀ M ∈ Ms, M.WF) (p0 : Option Pending) :
    ltrace p0 (Ms.flatMap SegMsg.frames) = Ms.flatMap msgOuts ∧
    (runLocal p0 (Ms.flatMap SegMsg.frames)).1 = (if Ms = [] then p0 else none) := by
  induction Ms generalizing p0 with
  | nil => exact ⟨rfl, rfl⟩
  | cons M rest ih =>
    obtain ⟨h1, h2⟩ := ltrace_msg M (hwf M (List.mem_cons_self ..)) p0
    obtain ⟨i1, i2⟩ := ih (fun x hx => hwf x (List.mem_cons_of_mem _ hx)) none
    refine ⟨?_, ?_⟩
    · rw [List.flatMap_cons, ltrace_append, h1, h2, i1, List.flatMap_cons]; rfl
    · rw [List.flatMap_cons, runLocal_append]
      simp only [h2, i2, List.cons_ne_nil, if_false]
      split <;> rfl

/-- `reassemble_many` without the length bound -/
theorem reassemble_many_total (Ms : List SegMsg) (hwf : ∀ M ∈ Ms, M.WF) (p0 : Option Pending) (hne : Ms ≠ []) :
    runLocal p0 (Ms.flatMap SegMsg.frames) = (none, Ms.map delivered) := by
  induction Ms generalizing p0 with
  | nil => exact absurd rfl hne
  | cons M rest ih =>
    have h1 := (reassemble_single_total M (hwf M (List.mem_cons_self ..)) p0).1
    rw [List.flatMap_cons, runLocal_append, h1]
    by_cases hr : rest = []
    · subst hr; simp [runLocal]
    · rw [ih (fun x hx => hwf x (List.mem_cons_of_mem _ hx)) none hr]
      simp

/-- `C05_interleaved` (Layer B, parsed frames) without the length bound: in ANY history the packets delivered
    for `e` are exactly `Ms.map delivered`, in order, each once -/
theorem C05_interleaved_total (e : Ep) (Ms : List SegMsg) (hwf : ∀ M ∈ Ms, M.WF ∧ M.ep = e)
    (fs : List PFrame) (s : DecState)
    (hproj : fs.filter (fun f => f.ep = e) = Ms.flatMap SegMsg.frames) :
    ((runT s fs).2.filter (fun x => x.1 = e)).map (·.2) = Ms.map delivered := by
  rw [(run_filter e fs s s rfl).1, hproj, (runT_untag s _).2]
  have hep : ∀ f ∈ Ms.flatMap SegMsg.frames, f.ep = e := by
    intro f hf
    rw [← hproj] at hf
    simpa using (List.mem_filter.mp hf).2
  rw [run_single_ep e _ s hep]
  by_cases hne : Ms = []
  · subst hne; simp [runLocal]
  · rw [reassemble_many_total Ms (fun M hM => (hwf M hM).1) (s e) hne]

/-- every `Decoder::decode` call of a history with the buffer it was given and the packets it returned -/
def calls (s : DecState) : List (Option Bytes) → List (Option Bytes × List Packet)
  | [] => []
  | b :: bs => (b, (decode s b).2) :: calls (decode s b).1 bs

/-- `calls` is `decodeAll` with the outputs kept apart … -/
theorem calls_flatten (s : DecState) (bufs : List (Option Bytes)) :
    ((calls s bufs).map (·.2)).flatten = (decodeAll tecmpDecode s bufs).2 := by
  induction bufs generalizing s with
  | nil => rfl
  | cons b bs ih => simp only [calls, decodeAll, List.map_cons, List.flatten_cons, ih, decode]

theorem calls_bufs (s : DecState) (bufs : List (Option Bytes)) : (calls s bufs).map (·.1) = bufs := by
  induction bufs generalizing s with
  | nil => rfl
  | cons b bs ih => simp only [calls, List.map_cons, ih]

theorem calls_append (s : DecState) (pre post : List (Option Bytes)) :
    calls s (pre ++ post) = calls s pre ++ calls (decodeAll tecmpDecode s pre).1 post := by
  induction pre generalizing s with
  | nil => rfl
  | cons b bs ih => simp only [List.cons_append, calls, decodeAll, ih, decode]

/-- … entry `i` is literally the `i`-th call: the buffer `b` at position `i` and what `decode` returns for
    it in the state left by the buffers before it -/
theorem calls_at (s : DecState) (pre : List (Option Bytes)) (b : Option Bytes) (post : List (Option Bytes)) :
    (calls s (pre ++ b :: post))[pre.length]? =
      some (b, (decode (decodeAll tecmpDecode s pre).1 b).2) := by
  rw [calls_append, List.getElem?_append_right (by rw [← List.length_map (as := calls s pre) (·.1), calls_bufs]; exact Nat.le_refl _)]
  rw [← List.length_map (as := calls s pre) (·.1), calls_bufs, Nat.sub_self]
  rfl


/-! ### `framesOf` buffer by buffer -/

theorem framesOf_foreign (b : Option Bytes) (bs : List (Option Bytes)) (h : bufEp b = none) :
    framesOf (b :: bs) = framesOf bs := by
  simp only [framesOf, h]

theorem framesOf_frame (b : Bytes) (bs : List (Option Bytes)) (x : Ep) (h : bufEp (some b) = some x) :
    framesOf (some b :: bs) = parseFrame b :: framesOf bs := by
  simp only [framesOf, h]

/-- isolation for single calls (C18 with the outputs kept apart): the outputs of the calls whose buffer
    addresses endpoint `e`, and the final state at `e`, are those of the single-endpoint automaton run from
    `s e` over `e`'s parsed frames — whatever the other buffers are (other endpoints' frames, TECMP, short,
    null) -/
theorem calls_filter (e : Ep) : ∀ (bufs : List (Option Bytes)) (s : DecState),
    ((calls s bufs).filter (fun x => bufEp x.1 = some e)).map (·.2) =
      ltrace (s e) ((framesOf bufs).filter (fun f => f.ep = e)) ∧
    (decodeAll tecmpDecode s bufs).1 e =
      (runLocal (s e) ((framesOf bufs).filter (fun f => f.ep = e))).1 := by
  intro bufs
  induction bufs with
  | nil => intro s; exact ⟨rfl, rfl⟩
  | cons b bs ih =>
    intro s
    cases hb : bufEp b with
    | none =>
      have hst : (decode s b).1 = s := decode_foreign_state tecmpDecode s b hb
      have hst' : (decodeWith tecmpDecode s b).1 = s := hst
      obtain ⟨i1, i2⟩ := ih s
      rw [framesOf_foreign b bs hb]
      refine ⟨?_, ?_⟩
      · simp only [calls, hst]
        rw [List.filter_cons_of_neg (by simp [hb])]
        exact i1
      · simp only [decodeAll, hst']
        exact i2
    | some x =>
      obtain ⟨bb, rfl, hep, hdec⟩ := decodeWith_of_bufEp tecmpDecode b x hb
      rw [framesOf_frame bb bs x hb]
      have hdec' : decode s (some bb) = step s (parseFrame bb) := hdec s
      by_cases hx : x = e
      · subst hx
        obtain ⟨i1, i2⟩ := ih (step s (parseFrame bb)).1
        have hfe : (step s (parseFrame bb)).1 x = (localStep (s x) (parseFrame bb)).1 := by
          rw [← hep]; exact step_fst_same s (parseFrame bb)
        have hfo : (step s (parseFrame bb)).2 = (localStep (s x) (parseFrame bb)).2 := by
          rw [step_snd, hep]
        refine ⟨?_, ?_⟩
        · simp only [calls, hdec']
          rw [List.filter_cons_of_pos (by simp [hb]), List.filter_cons_of_pos (by simp [hep])]
          simp only [List.map_cons, ltrace, i1, hfe, hfo]
        · simp only [decodeAll, hdec s]
          rw [List.filter_cons_of_pos (by simp [hep])]
          simp only [runLocal, i2, hfe]
      · have hne : (parseFrame bb).ep ≠ e := by rw [hep]; exact hx
        obtain ⟨i1, i2⟩ := ih (step s (parseFrame bb)).1
        have hfe : (step s (parseFrame bb)).1 e = s e := step_fst_other s _ e hne
        refine ⟨?_, ?_⟩
        · simp only [calls, hdec']
          rw [List.filter_cons_of_neg (by simp [hb, hx]), List.filter_cons_of_neg (by simp [hne])]
          rw [i1, hfe]
        · simp only [decodeAll, hdec s]
          rw [List.filter_cons_of_neg (by simp [hne])]
          rw [i2, hfe]

/-- a call on a buffer that is NOT a capture-module frame (null, shorter than 8 bytes, TECMP) returns what a
    fresh decoder returns for that buffer: nothing of the reassembly state — in particular no finished or
    pending message of any endpoint — can come out of such a call -/
theorem calls_foreign (s : DecState) (bufs : List (Option Bytes)) :
    ∀ x ∈ calls s bufs, bufEp x.1 = none → x.2 = (decode DecState.empty x.1).2 := by
  induction bufs generalizing s with
  | nil => intro x hx; cases hx
  | cons b bs ih =>
    intro x hx hb
    simp only [calls, List.mem_cons] at hx
    rcases hx with rfl | hx
    · dsimp only at hb ⊢
      unfold bufEp at hb
      unfold decode decodeWith
      split
      · rfl
      · dsimp only at hb
        split
        · rfl
        · split
          · rfl
          · rename_i h1 h2
            simp [h1, h2] at hb
    · exact ih _ x hx hb

/-- a call on a capture-module frame of endpoint `x` returns only packets carrying `x` as (device id, stream
    id): a packet of endpoint `e` never comes out of a call made for another endpoint's frame -/
theorem calls_tagged (s : DecState) (bufs : List (Option Bytes)) :
    ∀ c ∈ calls s bufs, ∀ x, bufEp c.1 = some x → ∀ p ∈ c.2, (p.deviceId, p.streamId) = x := by
  induction bufs generalizing s with
  | nil => intro c hc; cases hc
  | cons b bs ih =>
    intro c hc x hb p hp
    simp only [calls, List.mem_cons] at hc
    rcases hc with rfl | hc
    · dsimp only at hb hp
      obtain ⟨bb, rfl, hep, hdec⟩ := decodeWith_of_bufEp tecmpDecode b x hb
      have hdec' : decode s (some bb) = step s (parseFrame bb) := hdec s
      rw [hdec'] at hp
      rw [← hep]
      exact delivered_tagged s bb p hp
    · exact ih _ c hc x hb p hp

/-- **C05 on bytes, any interleaving, call by call, no length bound.**  `bufs` is ANY history of buffers
    handed to `decode` (frames of any endpoints, TECMP messages, short buffers, null pointers), `s` ANY
    decoder state.  If the frames addressed to endpoint `e` are, in order, the frames of the well-formed
    segmented messages `Ms`, then the calls made for `e`'s frames return: nothing for every first and
    intermediary segment, and exactly the one packet `delivered M` for the last segment of each `M`
    (R1 exactly once, R2 at the last segment); afterwards nothing is pending for `e`.
    (`calls_foreign` / `calls_tagged` say that no other call returns a packet of `e`.) -/
theorem C05_calls_interleaved (e : Ep) (Ms : List SegMsg) (hwf : ∀ M ∈ Ms, M.WF ∧ M.ep = e)
    (bufs : List (Option Bytes)) (s : DecState)
    (hproj : (framesOf bufs).filter (fun f => f.ep = e) = Ms.flatMap SegMsg.frames) :
    ((calls s bufs).filter (fun x => bufEp x.1 = some e)).map (·.2) = Ms.flatMap msgOuts ∧
    (decodeAll tecmpDecode s bufs).1 e = (if Ms = [] then s e else none) := by
  obtain ⟨h1, h2⟩ := calls_filter e bufs s
  obtain ⟨i1, i2⟩ := ltrace_many Ms (fun M hM => (hwf M hM).1) (s e)
  rw [h1, h2, hproj]
  exact ⟨i1, i2⟩

/-- the same with the packets of Props/C05.lean when every message's total fits 16 bits -/
theorem C05_calls_interleaved_small (e : Ep) (Ms : List SegMsg)
    (hwf : ∀ M ∈ Ms, M.WF ∧ M.body.length ≤ 65535 ∧ M.ep = e)
    (bufs : List (Option Bytes)) (s : DecState)
    (hproj : (framesOf bufs).filter (fun f => f.ep = e) = Ms.flatMap SegMsg.frames) :
    ((calls s bufs).filter (fun x => bufEp x.1 = some e)).map (·.2) =
      Ms.flatMap (fun M => List.replicate (M.middle.length + 1) [] ++ [[M.expected]]) := by
  rw [(C05_calls_interleaved e Ms (fun M hM => ⟨(hwf M hM).1, (hwf M hM).2.2⟩) bufs s hproj).1]
  clear hproj
  induction Ms with
  | nil => rfl
  | cons M rest ih =>
    have hM := hwf M (List.mem_cons_self ..)
    rw [List.flatMap_cons, List.flatMap_cons, ih (fun x hx => hwf x (List.mem_cons_of_mem _ hx)),
      msgOuts, delivered_eq_expected M hM.1 hM.2.1]


/-! ### the call that carries a given segment (R2 with the call made explicit) -/

theorem ltrace_take (p : Option Pending) (fs : List PFrame) (k : Nat) :
    ltrace p (fs.take k) = (ltrace p fs).take k := by
  induction fs generalizing p k with
  | nil => simp [ltrace]
  | cons f fs ih =>
    cases k with
    | zero => rfl
    | succ k => simp only [List.take_succ_cons, ltrace, ih]

/-- the output of the call made for a frame `b` of endpoint `e`, after ANY earlier buffers `pre`, is the last
    entry of the single-endpoint trace over `e`'s frames up to and including `b` -/
theorem call_out (e : Ep) (pre : List (Option Bytes)) (b : Bytes) (s : DecState)
    (hb : bufEp (some b) = some e) :
    ∃ X, ltrace (s e) ((framesOf (pre ++ [some b])).filter (fun f => f.ep = e)) =
      X ++ [(decode (decodeAll tecmpDecode s pre).1 (some b)).2] := by
  refine ⟨((calls s pre).filter (fun x => bufEp x.1 = some e)).map (·.2), ?_⟩
  rw [← (calls_filter e (pre ++ [some b]) s).1, calls_append]
  simp only [calls, List.filter_append, List.map_append]
  rw [List.filter_cons_of_pos (by simp [hb])]
  rfl

/-- R2, last segment: the call that is handed the frame completing `e`'s message `M` — after any history
    `pre` in which `e` sent the messages `Ms` and the earlier segments of `M`, interleaved with anything —
    returns exactly `[delivered M]` -/
theorem C05_call_of_last_segment (e : Ep) (Ms : List SegMsg) (M : SegMsg)
    (hwf : ∀ X ∈ Ms ++ [M], X.WF ∧ X.ep = e) (pre : List (Option Bytes)) (b : Bytes) (s : DecState)
    (hb : bufEp (some b) = some e)
    (hproj : (framesOf (pre ++ [some b])).filter (fun f => f.ep = e) = (Ms ++ [M]).flatMap SegMsg.frames) :
    (decode (decodeAll tecmpDecode s pre).1 (some b)).2 = [delivered M] := by
  obtain ⟨X, hX⟩ := call_out e pre b s hb
  rw [hproj, (ltrace_many (Ms ++ [M]) (fun Y hY => (hwf Y hY).1) (s e)).1, List.flatMap_append] at hX
  simp only [List.flatMap_cons, List.flatMap_nil, List.append_nil, msgOuts] at hX
  rw [← List.append_assoc] at hX
  have := List.append_inj_right' hX rfl
  exact (List.singleton_inj.mp this).symm

/-- R2, earlier segments: the call that is handed the `k`-th frame of `M` (`1 ≤ k ≤` number of first and
    intermediary segments) returns nothing -/
theorem C05_call_of_earlier_segment (e : Ep) (Ms : List SegMsg) (M : SegMsg) (k : Nat)
    (hwf : ∀ X ∈ Ms ++ [M], X.WF ∧ X.ep = e) (hk : 1 ≤ k ∧ k ≤ M.middle.length + 1)
    (pre : List (Option Bytes)) (b : Bytes) (s : DecState) (hb : bufEp (some b) = some e)
    (hproj : (framesOf (pre ++ [some b])).filter (fun f => f.ep = e) =
      Ms.flatMap SegMsg.frames ++ M.frames.take k) :
    (decode (decodeAll tecmpDecode s pre).1 (some b)).2 = [] := by
  obtain ⟨X, hX⟩ := call_out e pre b s hb
  have hM := (hwf M (by simp)).1
  rw [hproj, ltrace_append, ltrace_take, (ltrace_msg M hM _).1,
    List.take_append_of_le_length (by simp; omega), List.take_replicate, Nat.min_eq_left hk.2] at hX
  obtain ⟨j, rfl⟩ : ∃ j, k = j + 1 := ⟨k - 1, by omega⟩
  rw [List.replicate_succ', ← List.append_assoc] at hX
  have := List.append_inj_right' hX rfl
  exact (List.singleton_inj.mp this).symm

/-! ## §3  one message on bytes: no bound, the whole packet, the other endpoints -/

theorem run_other (x : Ep) (fs : List PFrame) (s : DecState) (h : ∀ f ∈ fs, f.ep ≠ x) : (run s fs).1 x = s x := by
  rw [run_fst_at]
  have : fs.filter (fun f => f.ep = x) = [] := by
    rw [List.filter_eq_nil_iff]
    intro f hf
    simpa using h f hf
  rw [this]
  rfl

/-- `single_lift` without the length bound, and with the rest of the table -/
theorem single_lift_total (M : SegMsg) (hwf : M.WF) (d : DecState)
    (bs : List Bytes) (hfr : ∀ b ∈ bs, 8 ≤ b.length ∧ byteAt b 0 ≠ 0)
    (hparse : bs.map parseFrame = M.frames) :
    (decodeAll tecmpDecode d (bs.map some)).1 M.ep = none ∧
    (∀ x, x ≠ M.ep → (decodeAll tecmpDecode d (bs.map some)).1 x = d x) ∧
    (decodeAll tecmpDecode d (bs.map some).dropLast).2 = [] ∧
    (decodeAll tecmpDecode d (bs.map some)).2 = [delivered M] := by
  obtain ⟨h1, h2⟩ := reassemble_single_total M hwf (d M.ep)
  have hrun := C01.run_local_ep M.ep M.frames d (frames_ep M)
  rw [h1] at hrun
  have hdl : (bs.map some).dropLast = bs.dropLast.map some := by
    rw [List.map_dropLast]
  have hpd : bs.dropLast.map parseFrame = M.frames.dropLast := by
    rw [← hparse, List.map_dropLast]
  have hrun2 := C01.run_local_ep M.ep M.frames.dropLast d
    (fun f hf => frames_ep M f (List.dropLast_subset _ hf))
  rw [C01.decodeAll_run tecmpDecode bs d hfr, hparse, hdl,
    C01.decodeAll_run tecmpDecode bs.dropLast d (fun b hb => hfr b (List.dropLast_subset _ hb)), hpd]
  refine ⟨congrArg Prod.fst hrun, ?_, ?_, congrArg Prod.snd hrun⟩
  · intro x hx
    exact run_other x M.frames d (fun f hf => by rw [frames_ep M f hf]; exact fun h => hx h.symm)
  · rw [← h2]
    exact congrArg Prod.snd hrun2

theorem segHdr_body_take (ts idw flags ptype len k : Nat) (body : Bytes) :
    slice (segHdrBytes ts idw flags ptype len ++ body) 16 k = body.take k := by
  unfold slice
  rw [List.drop_left' (segHdr_length ..)]

/-- the delivered packet, all ten fields, no bound -/
theorem delivered_fields (M : SegMsg) (ts idw flags ptype len0 : Nat)
    (hfirst : M.first.1 = segHdrBytes ts idw flags ptype len0)
    (hts : ts < 2 ^ 64) (hidw : idw < 2 ^ 32) (hf : flags < 256) (hp : ptype < 256) :
    delivered M =
      { payload := some (create (M.mt * 256 + ptype) (M.body.take (M.body.length % 65536))),
        version := M.ver, deviceId := M.ep.1, streamId := M.ep.2, seq := 0, ts := ts,
        ifId := if M.mt = 1 then idw else 0,
        vendorId := if M.mt = 3 ∨ M.mt = 0xFF then idw % 65536 else 0, flags := flags, segType := 0 } := by
  unfold delivered
  rw [hfirst, ← writeAt_hdr _ _ (segHdr_length ..) (beEnc_length 2 _), segHdr_writeLen]
  simp only [tagPacket, Packet.ofMsg, segHdr_ts, segHdr_idw, segHdr_idw_low, segHdr_flags, segHdr_ptype,
    segHdr_len, Nat.mod_mod, segHdr_body_take, Nat.mod_eq_of_lt hts, Nat.mod_eq_of_lt hidw, Nat.mod_eq_of_lt hf,
    Nat.mod_eq_of_lt hp]


/-- the packet delivered for a message sent on bytes: every field of `Packet` -/
def bytePacket (ver dev mt stream : Nat) (h : SegHdr) (data : Bytes) : Packet :=
  { payload := some (create (mt * 256 + h.ptype) data), version := ver, deviceId := dev, streamId := stream,
    seq := 0, ts := h.ts, ifId := if mt = 1 then h.idw else 0,
    vendorId := if mt = 3 ∨ mt = 0xFF then h.idw % 65536 else 0, flags := h.flags, segType := 0 }

/-- **C05 on bytes, one message, NO bound on the total** (the exact behaviour of `decode`, also above 65535
    declared bytes): first / intermediary* / last segment frames with consecutive counters mod 2^16 from any
    `seq0`, each segment declaring any 16-bit length, arbitrary trailing bytes behind every segment, fed to a
    decoder in ANY state `d`.  Then
      * nothing is returned before the last frame;
      * the last frame returns exactly ONE packet, given here with ALL its fields: the first segment's
        timestamp, interface / vendor id, flags byte and payload type, version, message type, endpoint,
        sequence counter 0, segment type 0, and as payload `Packet::create` applied to the concatenation of
        the declared bytes TRUNCATED to `total mod 65536` bytes (the reassembled length lives in the 16-bit
        header field);
      * the endpoint's pending entry is released and no other endpoint's entry is touched. -/
theorem C05_bytes_single_total (ver dev mt stream seq0 : Nat)
    (first : SegHdr × Bytes × Bytes) (middle : List (SegHdr × Bytes × Bytes)) (last : SegHdr × Bytes × Bytes)
    (hv : 1 ≤ ver ∧ ver < 256) (hd : dev < 65536) (hm : mt < 256) (hs : stream < 256)
    (hf : first.1.WF 4 ∧ first.2.1.length < 65536) (hmid : ∀ x ∈ middle, x.1.WF 8 ∧ x.2.1.length < 65536)
    (hl : last.1.WF 12 ∧ last.2.1.length < 65536) (d : DecState) :
    let segs := first :: (middle ++ [last])
    let bufs := (List.range segs.length).zip segs |>.map fun (i, x) =>
      some (segFrame ver dev mt stream ((seq0 + i) % 65536) x.1 x.2.1 x.2.2)
    let body := first.2.1 ++ (middle.map (·.2.1)).flatten ++ last.2.1
    let r := decodeAll tecmpDecode d bufs
    r.2 = [bytePacket ver dev mt stream first.1 (body.take (body.length % 65536))] ∧
    (decodeAll tecmpDecode d bufs.dropLast).2 = [] ∧
    r.1 (dev, stream) = none ∧ (∀ x, x ≠ (dev, stream) → r.1 x = d x) := by
  intro segs bufs body r
  have hbufs : bufs = (((List.range segs.length).zip segs).map (fun (p : Nat × SegHdr × Bytes × Bytes) =>
      segFrame ver dev mt stream ((seq0 + p.1) % 65536) p.2.1 p.2.2.1 p.2.2.2)).map some := by
    rw [List.map_map]; rfl
  have hsegwf : ∀ x ∈ segs, ∃ seg, (seg = 4 ∨ seg = 8 ∨ seg = 12) ∧ x.1.WF seg ∧ x.2.1.length < 65536 := by
    intro x hx
    simp only [segs, List.mem_cons, List.mem_append, List.not_mem_nil, or_false] at hx
    rcases hx with rfl | hx | rfl
    · exact ⟨4, Or.inl rfl, hf⟩
    · exact ⟨8, Or.inr (Or.inl rfl), hmid x hx⟩
    · exact ⟨12, Or.inr (Or.inr rfl), hl⟩
  have hparse := frames_of_parse (dev, stream) ver mt seq0
    (fun (x : SegHdr × Bytes × Bytes) => x.1.bytes x.2.1.length) (fun x => x.2.1)
    (fun i x => segFrame ver dev mt stream ((seq0 + i) % 65536) x.1 x.2.1 x.2.2) first middle last
    (by
      intro i x hx
      obtain ⟨seg, hseg, hwf, hlen⟩ := hsegwf x hx
      exact segFrame_parse ver dev mt stream _ x.1 seg x.2.1 x.2.2 hv hd hm hs
        (Nat.mod_lt _ (by decide)) hseg hwf hlen)
  have hfr : ∀ b ∈ ((List.range segs.length).zip segs).map (fun (p : Nat × SegHdr × Bytes × Bytes) =>
      segFrame ver dev mt stream ((seq0 + p.1) % 65536) p.2.1 p.2.2.1 p.2.2.2),
      8 ≤ b.length ∧ byteAt b 0 ≠ 0 := by
    intro b hb
    simp only [List.mem_map] at hb
    obtain ⟨p, _, rfl⟩ := hb
    exact segment_is_frame ver dev mt stream _ p.2.1.ts p.2.1.idw p.2.1.flags p.2.1.ptype p.2.2.1 p.2.2.2 hv
  generalize hM : SegMsg.mk (dev, stream) ver mt seq0 (first.1.bytes first.2.1.length, first.2.1)
    (middle.map fun x => (x.1.bytes x.2.1.length, x.2.1)) (last.1.bytes last.2.1.length, last.2.1) = M at hparse
  have hMbody : M.body = body := by
    subst hM
    simp [SegMsg.body, SegMsg.segs, body, List.map_map, Function.comp_def]
  have hMwf : M.WF := by
    subst hM
    refine ⟨?_, ?_, ?_, ?_⟩
    · intro s hs
      simp only [SegMsg.segs, List.mem_cons, List.mem_append, List.mem_map, List.not_mem_nil, or_false] at hs
      rcases hs with rfl | ⟨x, _, rfl⟩ | rfl <;> exact segHdr_length ..
    · exact (segTypeOf_segHdr _ _ _ _ _ hf.1.2.2.1).trans hf.1.2.2.2.2.1
    · intro s hs
      simp only [List.mem_map] at hs
      obtain ⟨x, hx, rfl⟩ := hs
      exact (segTypeOf_segHdr _ _ _ _ _ (hmid x hx).1.2.2.1).trans (hmid x hx).1.2.2.2.2.1
    · exact (segTypeOf_segHdr _ _ _ _ _ hl.1.2.2.1).trans hl.1.2.2.2.2.1
  obtain ⟨h1, h1', h2, h3⟩ := single_lift_total M hMwf d _ hfr hparse
  have hexp := delivered_fields M first.1.ts first.1.idw first.1.flags first.1.ptype first.2.1.length
    (by subst hM; rfl) hf.1.1 hf.1.2.1 hf.1.2.2.1 hf.1.2.2.2.2.2.2
  have hep : M.ep = (dev, stream) := by subst hM; rfl
  have hver : M.ver = ver := by subst hM; rfl
  have hmt : M.mt = mt := by subst hM; rfl
  rw [hMbody, hep, hver, hmt] at hexp
  rw [hep] at h1 h1'
  show (decodeAll tecmpDecode d bufs).2 = _ ∧ (decodeAll tecmpDecode d bufs.dropLast).2 = [] ∧
    (decodeAll tecmpDecode d bufs).1 (dev, stream) = none ∧ ∀ x, x ≠ (dev, stream) → (decodeAll tecmpDecode d bufs).1 x = d x
  rw [hbufs]
  refine ⟨?_, h2, h1, h1'⟩
  rw [h3, hexp]
  rfl


/-! ## §4  `Packet::create` unfolded: the delivered type and bytes under the concrete validators -/

/-- does `Packet::create` keep a payload of type `ty` with bytes `d`?  The type's `isValidPayload` for the
    seven typed payload kinds, always for the others -/
def accepted (ty : Nat) (d : Bytes) : Bool :=
  match validatorOf ty with
  | some v => v d
  | none => true

theorem accepted_can (d : Bytes) : accepted tyCan d = canValid d := rfl
theorem accepted_canFd (d : Bytes) : accepted tyCanFd d = canValid d := rfl
theorem accepted_lin (d : Bytes) : accepted tyLin d = linValid d := rfl
theorem accepted_analog (d : Bytes) : accepted tyAnalog d = analogValid d := rfl
theorem accepted_eth (d : Bytes) : accepted tyEth d = ethValid d := rfl
theorem accepted_cm (d : Bytes) : accepted tyCm d = cmValid d := rfl
theorem accepted_if (d : Bytes) : accepted tyIf d = ifValid d := rfl
theorem accepted_generic (ty : Nat) (d : Bytes)
    (h : ty ≠ tyCan ∧ ty ≠ tyCanFd ∧ ty ≠ tyLin ∧ ty ≠ tyAnalog ∧ ty ≠ tyEth ∧ ty ≠ tyCm ∧ ty ≠ tyIf) :
    accepted ty d = true := by
  obtain ⟨h1, h2, h3, h4, h5, h6, h7⟩ := h
  simp only [accepted, validatorOf, h1, h2, h3, h4, h5, h6, h7, if_false]

/-- `create` for a non-zero type code, as a case distinction on the concrete validator -/
theorem create_eq (ty : Nat) (d : Bytes) (hty : ty ≠ 0) :
    create ty d = if accepted ty d then ⟨ty, d⟩ else ⟨0, zeros d.length⟩ := by
  unfold create accepted
  cases validatorOf ty with
  | none => simp [hty]
  | some v => rfl

/-- exact characterisation: the payload comes out with its type and its bytes IFF its validator accepts -/
theorem create_keeps_iff (ty : Nat) (d : Bytes) (hty : ty ≠ 0) :
    create ty d = ⟨ty, d⟩ ↔ accepted ty d = true := by
  rw [create_eq ty d hty]
  cases accepted ty d with
  | true => simp
  | false =>
    simp only [Bool.false_eq_true, if_false, iff_false]
    intro h
    exact hty (congrArg Payload.ty h).symm

theorem ty_ne_zero (mt ptype : Nat) (hp : 1 ≤ ptype) : mt * 256 + ptype ≠ 0 := by omega

/-- **C05 on bytes, one message, totals up to 65535, `create` unfolded, the whole packet.**  The one packet
    returned at the last frame has, when the first segment's payload type's validator accepts the
    concatenation `body` of the declared bytes (always, for the payload types without validator): payload type
    (message type, first segment's raw type) and data EXACTLY `body`; otherwise the invalid payload of
    `body.length` zero bytes.  All other fields as in `C05_bytes_single_total`. -/
theorem C05_bytes_single_exact (ver dev mt stream seq0 : Nat)
    (first : SegHdr × Bytes × Bytes) (middle : List (SegHdr × Bytes × Bytes)) (last : SegHdr × Bytes × Bytes)
    (hv : 1 ≤ ver ∧ ver < 256) (hd : dev < 65536) (hm : mt < 256) (hs : stream < 256)
    (hf : first.1.WF 4 ∧ first.2.1.length < 65536) (hmid : ∀ x ∈ middle, x.1.WF 8 ∧ x.2.1.length < 65536)
    (hl : last.1.WF 12 ∧ last.2.1.length < 65536)
    (htotal : (first.2.1 ++ (middle.map (·.2.1)).flatten ++ last.2.1).length ≤ 65535) (d : DecState) :
    let segs := first :: (middle ++ [last])
    let bufs := (List.range segs.length).zip segs |>.map fun (i, x) =>
      some (segFrame ver dev mt stream ((seq0 + i) % 65536) x.1 x.2.1 x.2.2)
    let body := first.2.1 ++ (middle.map (·.2.1)).flatten ++ last.2.1
    let ty := mt * 256 + first.1.ptype
    let r := decodeAll tecmpDecode d bufs
    r.2 = [{ payload := some (if accepted ty body then ⟨ty, body⟩ else ⟨0, zeros body.length⟩),
             version := ver, deviceId := dev, streamId := stream, seq := 0, ts := first.1.ts,
             ifId := if mt = 1 then first.1.idw else 0,
             vendorId := if mt = 3 ∨ mt = 0xFF then first.1.idw % 65536 else 0,
             flags := first.1.flags, segType := 0 }] ∧
    (decodeAll tecmpDecode d bufs.dropLast).2 = [] ∧
    r.1 (dev, stream) = none ∧ (∀ x, x ≠ (dev, stream) → r.1 x = d x) := by
  intro segs bufs body ty r
  obtain ⟨h1, h2, h3, h4⟩ := C05_bytes_single_total ver dev mt stream seq0 first middle last hv hd hm hs hf hmid hl d
  refine ⟨?_, h2, h3, h4⟩
  have hmod : body.length % 65536 = body.length := Nat.mod_eq_of_lt (by have : body.length ≤ 65535 := htotal; omega)
  have hty : ty ≠ 0 := ty_ne_zero mt first.1.ptype hf.1.2.2.2.2.2.1
  show (decodeAll tecmpDecode d bufs).2 = _
  rw [h1]
  show [bytePacket ver dev mt stream first.1 (body.take (body.length % 65536))] = _
  rw [hmod, List.take_length, bytePacket, create_eq ty body hty]

/-- R3 + R5 as plain facts about the delivered packet, when the validator accepts: message type, raw payload
    type, validity and the data — the concatenation of the segments' declared bytes, nothing else -/
theorem C05_bytes_single_accepted (ver dev mt stream seq0 : Nat)
    (first : SegHdr × Bytes × Bytes) (middle : List (SegHdr × Bytes × Bytes)) (last : SegHdr × Bytes × Bytes)
    (hv : 1 ≤ ver ∧ ver < 256) (hd : dev < 65536) (hm : mt < 256) (hs : stream < 256)
    (hf : first.1.WF 4 ∧ first.2.1.length < 65536) (hmid : ∀ x ∈ middle, x.1.WF 8 ∧ x.2.1.length < 65536)
    (hl : last.1.WF 12 ∧ last.2.1.length < 65536)
    (htotal : (first.2.1 ++ (middle.map (·.2.1)).flatten ++ last.2.1).length ≤ 65535) (d : DecState)
    (hacc : accepted (mt * 256 + first.1.ptype) (first.2.1 ++ (middle.map (·.2.1)).flatten ++ last.2.1) = true) :
    let segs := first :: (middle ++ [last])
    let bufs := (List.range segs.length).zip segs |>.map fun (i, x) =>
      some (segFrame ver dev mt stream ((seq0 + i) % 65536) x.1 x.2.1 x.2.2)
    let body := first.2.1 ++ (middle.map (·.2.1)).flatten ++ last.2.1
    ∃ p, (decodeAll tecmpDecode d bufs).2 = [p] ∧
      p.payload = some ⟨mt * 256 + first.1.ptype, body⟩ ∧
      p.data = body ∧ p.mt = mt ∧ p.rawType = first.1.ptype ∧ p.isValid = (mt != 0) ∧
      p.payloadLength = body.length := by
  intro segs bufs body
  obtain ⟨h1, -⟩ := C05_bytes_single_exact ver dev mt stream seq0 first middle last hv hd hm hs hf hmid hl htotal d
  have hp1 := hf.1.2.2.2.2.2.1
  have hp2 := hf.1.2.2.2.2.2.2
  simp only [hacc, if_true] at h1
  have e1 : (mt * 256 + first.1.ptype) % 256 = first.1.ptype := by omega
  have e2 : (mt * 256 + first.1.ptype) / 256 % 256 = mt := by omega
  refine ⟨_, h1, rfl, rfl, e2, e1, ?_, ?_⟩
  · show ((mt * 256 + first.1.ptype) % 256 != 0 && (mt * 256 + first.1.ptype) / 256 % 256 != 0) = (mt != 0)
    rw [e1, e2]
    have : (first.1.ptype != 0) = true := by simp; omega
    rw [this, Bool.true_and]
  · have : body.length ≤ 65535 := htotal
    show body.length % 65536 = body.length
    omega


/-! ## the recorded open finding, pinned: totals above 65535 -/

/-- **Above the bound the property's text is FALSE of `decode`, and this is exactly what happens instead.**
    For EVERY well-formed segmented message whose segments declare more than 65535 bytes in total, the last
    frame still returns exactly one packet and releases the pending entry, but the packet's data has
    `total mod 65536` bytes — fewer than were sent, so it is NOT the concatenation of the declared bytes:
    it is the first `total mod 65536` bytes of the concatenation if the validator accepts that prefix, and
    that many zero bytes otherwise. -/
theorem C05_bytes_over_bound (ver dev mt stream seq0 : Nat)
    (first : SegHdr × Bytes × Bytes) (middle : List (SegHdr × Bytes × Bytes)) (last : SegHdr × Bytes × Bytes)
    (hv : 1 ≤ ver ∧ ver < 256) (hd : dev < 65536) (hm : mt < 256) (hs : stream < 256)
    (hf : first.1.WF 4 ∧ first.2.1.length < 65536) (hmid : ∀ x ∈ middle, x.1.WF 8 ∧ x.2.1.length < 65536)
    (hl : last.1.WF 12 ∧ last.2.1.length < 65536)
    (hbig : 65535 < (first.2.1 ++ (middle.map (·.2.1)).flatten ++ last.2.1).length) (d : DecState) :
    let segs := first :: (middle ++ [last])
    let bufs := (List.range segs.length).zip segs |>.map fun (i, x) =>
      some (segFrame ver dev mt stream ((seq0 + i) % 65536) x.1 x.2.1 x.2.2)
    let body := first.2.1 ++ (middle.map (·.2.1)).flatten ++ last.2.1
    let r := decodeAll tecmpDecode d bufs
    ∃ p, r.2 = [p] ∧ (decodeAll tecmpDecode d bufs.dropLast).2 = [] ∧ r.1 (dev, stream) = none ∧
      p.data.length = body.length % 65536 ∧ p.data.length < body.length ∧ p.data ≠ body ∧
      (p.data = body.take (body.length % 65536) ∨ p.data = zeros (body.length % 65536)) := by
  intro segs bufs body r
  obtain ⟨h1, h2, h3, _⟩ := C05_bytes_single_total ver dev mt stream seq0 first middle last hv hd hm hs hf hmid hl d
  have hb : 65535 < body.length := hbig
  have hlt : body.length % 65536 < body.length := by omega
  have hty : mt * 256 + first.1.ptype ≠ 0 := ty_ne_zero mt first.1.ptype hf.1.2.2.2.2.2.1
  have hlen : (body.take (body.length % 65536)).length = body.length % 65536 := by
    rw [List.length_take]; omega
  have hdl : (bytePacket ver dev mt stream first.1 (body.take (body.length % 65536))).data.length =
      body.length % 65536 := by
    simp only [bytePacket, Packet.data, C17b.create_length, hlen]
  refine ⟨_, h1, h2, h3, hdl, by rw [hdl]; exact hlt, ?_, ?_⟩
  · intro h
    rw [h] at hdl
    omega
  · simp only [bytePacket, Packet.data]
    rw [create_eq _ _ hty]
    split
    · exact Or.inl rfl
    · exact Or.inr (by rw [hlen])

instance (h : SegHdr) (seg : Nat) : Decidable (h.WF seg) := by unfold SegHdr.WF; infer_instance

theorem witness_aux (B : Bytes) (hl : B.length = 32768) (d : DecState) :
    (decodeAll tecmpDecode d
      [some (segFrame 1 2 1 3 7 ⟨5, 9, 4, 0xFF⟩ B []),
       some (segFrame 1 2 1 3 8 ⟨5, 9, 12, 0xFF⟩ B [])]).2 =
      [{ payload := some ⟨0x1FF, []⟩, version := 1, deviceId := 2, streamId := 3, ts := 5, ifId := 9, flags := 4 }] := by
  have h := (C05_bytes_single_total 1 2 1 3 7 (⟨5, 9, 4, 0xFF⟩, B, []) [] (⟨5, 9, 12, 0xFF⟩, B, [])
    (by decide) (by decide) (by decide) (by decide)
    ⟨(by decide : SegHdr.WF ⟨5, 9, 4, 0xFF⟩ 4), by rw [hl]; decide⟩ (by intro x hx; cases hx)
    ⟨(by decide : SegHdr.WF ⟨5, 9, 12, 0xFF⟩ 12), by rw [hl]; decide⟩ d).1
  refine Eq.trans h ?_
  have hlen : (B ++ (List.map (fun (x : SegHdr × Bytes × Bytes) => x.2.1) []).flatten ++ B).length % 65536 = 0 := by
    simp only [List.map_nil, List.flatten_nil, List.append_nil, List.length_append, hl]
  show [bytePacket 1 2 1 3 ⟨5, 9, 4, 0xFF⟩ (List.take
    ((B ++ (List.map (fun (x : SegHdr × Bytes × Bytes) => x.2.1) []).flatten ++ B).length % 65536) _)] = _
  rw [hlen, List.take_zero]
  decide

/-- 32768 bytes -/
def bigSeg : Bytes := List.replicate 32768 0xAB

/-- **Concrete witness of the violation**: a first and a last segment of 32768 declared bytes each (a generic
    payload type, so no validator is involved), counters 7 and 8.  The segments declare 65536 bytes; the
    decoder, from any state, delivers one packet with an EMPTY payload. -/
theorem C05_violation_witness (d : DecState) :
    (bigSeg ++ bigSeg).length = 65536 ∧
    (decodeAll tecmpDecode d
      [some (segFrame 1 2 1 3 7 ⟨5, 9, 4, 0xFF⟩ bigSeg []),
       some (segFrame 1 2 1 3 8 ⟨5, 9, 12, 0xFF⟩ bigSeg [])]).2 =
      [{ payload := some ⟨0x1FF, []⟩, version := 1, deviceId := 2, streamId := 3, ts := 5, ifId := 9, flags := 4 }] := by
  have hl : bigSeg.length = 32768 := List.length_replicate ..
  exact ⟨by rw [List.length_append, hl], witness_aux bigSeg hl d⟩


/-! ## §2b  the interleaving theorem entirely on bytes -/

/-- a segmented message as it is put on the wire by one endpoint: protocol version, message type, the
    counter of its first frame, and per segment (header fields, declared bytes, trailing bytes) -/
structure WireMsg where
  ver : Nat
  mt : Nat
  seq0 : Nat
  first : SegHdr × Bytes × Bytes
  middle : List (SegHdr × Bytes × Bytes)
  last : SegHdr × Bytes × Bytes

namespace WireMsg
def segs (W : WireMsg) : List (SegHdr × Bytes × Bytes) := W.first :: (W.middle ++ [W.last])

/-- well-formed: version 1..255, 8-bit message type, first / intermediary / last segment flags, no error flag,
    payload type 1..255, every declared length a 16-bit value.  No condition on the counter, on the number of
    intermediaries, on the sizes (0 allowed), on the trailing bytes, on the total. -/
def WF (W : WireMsg) : Prop :=
  (1 ≤ W.ver ∧ W.ver < 256) ∧ W.mt < 256 ∧
  (W.first.1.WF 4 ∧ W.first.2.1.length < 65536) ∧
  (∀ x ∈ W.middle, x.1.WF 8 ∧ x.2.1.length < 65536) ∧
  (W.last.1.WF 12 ∧ W.last.2.1.length < 65536)

/-- the frames, one segment per frame, consecutive counters modulo 2^16 -/
def raw (dev stream : Nat) (W : WireMsg) : List Bytes :=
  ((List.range W.segs.length).zip W.segs).map fun (p : Nat × SegHdr × Bytes × Bytes) =>
    segFrame W.ver dev W.mt stream ((W.seq0 + p.1) % 65536) p.2.1 p.2.2.1 p.2.2.2

def bufs (dev stream : Nat) (W : WireMsg) : List (Option Bytes) := (W.raw dev stream).map some

/-- concatenation of the declared bytes -/
def body (W : WireMsg) : Bytes := W.first.2.1 ++ (W.middle.map (·.2.1)).flatten ++ W.last.2.1

/-- the packet `decode` returns for it (all fields; data truncated to `total mod 65536`, i.e. all of it when
    the total is at most 65535) -/
def packet (dev stream : Nat) (W : WireMsg) : Packet :=
  bytePacket W.ver dev W.mt stream W.first.1 (W.body.take (W.body.length % 65536))

/-- what the calls for its frames return, in order -/
def outs (dev stream : Nat) (W : WireMsg) : List (List Packet) :=
  List.replicate (W.middle.length + 1) [] ++ [[W.packet dev stream]]

def toSegMsg (dev stream : Nat) (W : WireMsg) : SegMsg :=
  ⟨(dev, stream), W.ver, W.mt, W.seq0, (W.first.1.bytes W.first.2.1.length, W.first.2.1),
   W.middle.map (fun x => (x.1.bytes x.2.1.length, x.2.1)), (W.last.1.bytes W.last.2.1.length, W.last.2.1)⟩

theorem toSegMsg_wf (dev stream : Nat) (W : WireMsg) (h : W.WF) : (W.toSegMsg dev stream).WF := by
  obtain ⟨_, _, hf, hmid, hl⟩ := h
  refine ⟨?_, ?_, ?_, ?_⟩
  · intro s hs
    simp only [toSegMsg, SegMsg.segs, List.mem_cons, List.mem_append, List.mem_map, List.not_mem_nil, or_false] at hs
    rcases hs with rfl | ⟨x, _, rfl⟩ | rfl <;> exact segHdr_length ..
  · exact (segTypeOf_segHdr _ _ _ _ _ hf.1.2.2.1).trans hf.1.2.2.2.2.1
  · intro s hs
    simp only [toSegMsg, List.mem_map] at hs
    obtain ⟨x, hx, rfl⟩ := hs
    exact (segTypeOf_segHdr _ _ _ _ _ (hmid x hx).1.2.2.1).trans (hmid x hx).1.2.2.2.2.1
  · exact (segTypeOf_segHdr _ _ _ _ _ hl.1.2.2.1).trans hl.1.2.2.2.2.1

theorem toSegMsg_body (dev stream : Nat) (W : WireMsg) : (W.toSegMsg dev stream).body = W.body := by
  simp [toSegMsg, SegMsg.body, SegMsg.segs, body, List.map_map, Function.comp_def]

theorem toSegMsg_delivered (dev stream : Nat) (W : WireMsg) (h : W.WF) :
    delivered (W.toSegMsg dev stream) = W.packet dev stream := by
  obtain ⟨_, _, hf, _, _⟩ := h
  have := delivered_fields (W.toSegMsg dev stream) W.first.1.ts W.first.1.idw W.first.1.flags W.first.1.ptype
    W.first.2.1.length rfl hf.1.1 hf.1.2.1 hf.1.2.2.1 hf.1.2.2.2.2.2.2
  rw [this, toSegMsg_body]
  rfl

theorem toSegMsg_outs (dev stream : Nat) (W : WireMsg) (h : W.WF) :
    msgOuts (W.toSegMsg dev stream) = W.outs dev stream := by
  rw [msgOuts, toSegMsg_delivered dev stream W h]
  simp [outs, toSegMsg]

theorem seg_wf (W : WireMsg) (h : W.WF) :
    ∀ x ∈ W.segs, ∃ seg, (seg = 4 ∨ seg = 8 ∨ seg = 12) ∧ x.1.WF seg ∧ x.2.1.length < 65536 := by
  obtain ⟨_, _, hf, hmid, hl⟩ := h
  intro x hx
  simp only [segs, List.mem_cons, List.mem_append, List.not_mem_nil, or_false] at hx
  rcases hx with rfl | hx | rfl
  · exact ⟨4, Or.inl rfl, hf⟩
  · exact ⟨8, Or.inr (Or.inl rfl), hmid x hx⟩
  · exact ⟨12, Or.inr (Or.inr rfl), hl⟩

theorem raw_parse (dev stream : Nat) (W : WireMsg) (h : W.WF) (hd : dev < 65536) (hs : stream < 256) :
    (W.raw dev stream).map parseFrame = (W.toSegMsg dev stream).frames := by
  have hsw := seg_wf W h
  obtain ⟨hv, hm, _, _, _⟩ := h
  exact frames_of_parse (dev, stream) W.ver W.mt W.seq0
    (fun (x : SegHdr × Bytes × Bytes) => x.1.bytes x.2.1.length) (fun x => x.2.1)
    (fun i x => segFrame W.ver dev W.mt stream ((W.seq0 + i) % 65536) x.1 x.2.1 x.2.2) W.first W.middle W.last
    (by
      intro i x hx
      obtain ⟨seg, hseg, hwf, hlen⟩ := hsw x hx
      exact segFrame_parse W.ver dev W.mt stream _ x.1 seg x.2.1 x.2.2 hv hd hm hs
        (Nat.mod_lt _ (by decide)) hseg hwf hlen)

theorem raw_frames (dev stream : Nat) (W : WireMsg) (h : W.WF) :
    ∀ b ∈ W.raw dev stream, 8 ≤ b.length ∧ byteAt b 0 ≠ 0 := by
  intro b hb
  simp only [raw, List.mem_map] at hb
  obtain ⟨p, _, rfl⟩ := hb
  exact segment_is_frame W.ver dev W.mt stream _ p.2.1.ts p.2.1.idw p.2.1.flags p.2.1.ptype p.2.2.1 p.2.2.2 h.1
end WireMsg

/-- a conscious reading of "the flags of the first segment": the delivered packet's flags byte is the first
    segment's WHOLE flags byte, so its segmentation bits still read "first segment" (4), while the `segType`
    and `seq` members of the packet are 0 -/
theorem WireMsg.packet_flags (dev stream : Nat) (W : WireMsg) (h : W.WF) :
    (W.packet dev stream).flags = W.first.1.flags ∧ (W.packet dev stream).flags &&& 0x0C = 4 ∧
    (W.packet dev stream).segType = 0 ∧ (W.packet dev stream).seq = 0 :=
  ⟨rfl, h.2.2.1.1.2.2.2.2.1, rfl, rfl⟩

theorem framesOf_filter (e : Ep) (bufs : List (Option Bytes)) :
    (framesOf bufs).filter (fun f => f.ep = e) = framesOf (bufs.filter (fun b => bufEp b = some e)) := by
  induction bufs with
  | nil => rfl
  | cons b bs ih =>
    cases hb : bufEp b with
    | none =>
      rw [framesOf_foreign b bs hb, List.filter_cons_of_neg (by simp [hb]), ih]
    | some x =>
      obtain ⟨bb, rfl, hep, _⟩ := decodeWith_of_bufEp tecmpDecode b x hb
      rw [framesOf_frame bb bs x hb]
      by_cases hx : x = e
      · subst hx
        rw [List.filter_cons_of_pos (by simp [hep]), List.filter_cons_of_pos (by simp [hb]),
          framesOf_frame bb _ x hb, ih]
      · rw [List.filter_cons_of_neg (by simp [hep, hx]), List.filter_cons_of_neg (by simp [hb, hx]), ih]

theorem framesOf_frames_append (bs : List Bytes) (rest : List (Option Bytes))
    (h : ∀ b ∈ bs, 8 ≤ b.length ∧ byteAt b 0 ≠ 0) :
    framesOf (bs.map some ++ rest) = bs.map parseFrame ++ framesOf rest := by
  induction bs with
  | nil => rfl
  | cons b bs ih =>
    obtain ⟨h8, h0⟩ := h b (List.mem_cons_self ..)
    have hb : bufEp (some b) = some (parseFrame b).ep := by
      simp only [bufEp, if_neg (show ¬ b.length < 8 by omega), if_neg h0]
    simp only [List.map_cons, List.cons_append]
    rw [framesOf_frame b _ _ hb, ih (fun x hx => h x (List.mem_cons_of_mem _ hx))]

theorem framesOf_wire (dev stream : Nat) (hd : dev < 65536) (hs : stream < 256) (Ws : List WireMsg)
    (hwf : ∀ W ∈ Ws, W.WF) :
    framesOf (Ws.flatMap (WireMsg.bufs dev stream)) =
      (Ws.map (WireMsg.toSegMsg dev stream)).flatMap SegMsg.frames := by
  induction Ws with
  | nil => rfl
  | cons W rest ih =>
    have hW := hwf W (List.mem_cons_self ..)
    rw [List.flatMap_cons, List.map_cons, List.flatMap_cons, WireMsg.bufs,
      framesOf_frames_append _ _ (WireMsg.raw_frames dev stream W hW), WireMsg.raw_parse dev stream W hW hd hs,
      ih (fun x hx => hwf x (List.mem_cons_of_mem _ hx))]

/-- **C05 entirely on bytes: any interleaving, any number of messages, call by call, no length bound.**
    `bufs` is ANY history of buffers given to `decode` and `s` ANY decoder state.  The only hypothesis: the
    buffers that are capture-module frames addressed to endpoint `(dev, stream)` are, in order, the frames of
    the well-formed segmented messages `Ws` ("each sending well-formed segmented messages … one per frame,
    consecutive counters"); all other buffers — frames of other endpoints, segmented or not, valid or not,
    TECMP messages, short buffers, null pointers — are arbitrary and arbitrarily interleaved.  Then the calls
    made for this endpoint's frames return nothing for each first and intermediary segment and exactly the one
    packet `W.packet` at each last segment, and (if there was a message) nothing stays pending. -/
theorem C05_bytes_interleaved (dev stream : Nat) (hd : dev < 65536) (hs : stream < 256)
    (Ws : List WireMsg) (hwf : ∀ W ∈ Ws, W.WF) (bufs : List (Option Bytes)) (s : DecState)
    (hproj : bufs.filter (fun b => bufEp b = some (dev, stream)) = Ws.flatMap (WireMsg.bufs dev stream)) :
    ((calls s bufs).filter (fun x => bufEp x.1 = some (dev, stream))).map (·.2) =
      Ws.flatMap (WireMsg.outs dev stream) ∧
    (decodeAll tecmpDecode s bufs).1 (dev, stream) = (if Ws = [] then s (dev, stream) else none) := by
  have hp : (framesOf bufs).filter (fun f => f.ep = (dev, stream)) =
      (Ws.map (WireMsg.toSegMsg dev stream)).flatMap SegMsg.frames := by
    rw [framesOf_filter, hproj, framesOf_wire dev stream hd hs Ws hwf]
  obtain ⟨h1, h2⟩ := C05_calls_interleaved (dev, stream) (Ws.map (WireMsg.toSegMsg dev stream))
    (by
      intro M hM
      simp only [List.mem_map] at hM
      obtain ⟨W, hW, rfl⟩ := hM
      exact ⟨WireMsg.toSegMsg_wf dev stream W (hwf W hW), rfl⟩) bufs s hp
  refine ⟨?_, ?_⟩
  · rw [h1, List.flatMap_map]
    clear hproj hp h1 h2
    induction Ws with
    | nil => rfl
    | cons W rest ih =>
      rw [List.flatMap_cons, List.flatMap_cons, ih (fun x hx => hwf x (List.mem_cons_of_mem _ hx)),
        WireMsg.toSegMsg_outs dev stream W (hwf W (List.mem_cons_self ..))]
  · rw [h2]
    cases Ws <;> simp


theorem framesOf_append (xs ys : List (Option Bytes)) : framesOf (xs ++ ys) = framesOf xs ++ framesOf ys := by
  induction xs with
  | nil => rfl
  | cons b bs ih =>
    cases hb : bufEp b with
    | none => rw [List.cons_append, framesOf_foreign b _ hb, framesOf_foreign b _ hb, ih]
    | some x =>
      obtain ⟨bb, rfl, _, _⟩ := decodeWith_of_bufEp tecmpDecode b x hb
      rw [List.cons_append, framesOf_frame bb _ x hb, framesOf_frame bb _ x hb, ih, List.cons_append]

/-- R2 on bytes, last segment: whatever history `pre` came before — in which this endpoint sent the messages
    `Ws` and all but the last frame of `W`, interleaved with anything — the `decode` call that is handed the
    last frame `b` of `W` returns exactly `[W.packet]` -/
theorem C05_bytes_call_of_last_segment (dev stream : Nat) (hd : dev < 65536) (hs : stream < 256)
    (Ws : List WireMsg) (W : WireMsg) (hwf : ∀ X ∈ Ws ++ [W], X.WF)
    (pre : List (Option Bytes)) (b : Bytes) (s : DecState) (hb : bufEp (some b) = some (dev, stream))
    (hproj : (pre ++ [some b]).filter (fun x => bufEp x = some (dev, stream)) =
      (Ws ++ [W]).flatMap (WireMsg.bufs dev stream)) :
    (decode (decodeAll tecmpDecode s pre).1 (some b)).2 = [W.packet dev stream] := by
  have h := C05_call_of_last_segment (dev, stream) (Ws.map (WireMsg.toSegMsg dev stream)) (W.toSegMsg dev stream)
    (by
      intro M hM
      rw [← List.map_singleton, ← List.map_append, List.mem_map] at hM
      obtain ⟨X, hX, rfl⟩ := hM
      exact ⟨WireMsg.toSegMsg_wf dev stream X (hwf X hX), rfl⟩) pre b s hb
    (by rw [framesOf_filter, hproj, framesOf_wire dev stream hd hs _ hwf, List.map_append, List.map_singleton])
  rw [h, WireMsg.toSegMsg_delivered dev stream W (hwf W (by simp))]

/-- R2 on bytes, earlier segments: the call that is handed the `k`-th frame of `W`, `k` up to the number of
    first and intermediary segments, returns nothing -/
theorem C05_bytes_call_of_earlier_segment (dev stream : Nat) (hd : dev < 65536) (hs : stream < 256)
    (Ws : List WireMsg) (W : WireMsg) (k : Nat) (hwf : ∀ X ∈ Ws ++ [W], X.WF)
    (hk : 1 ≤ k ∧ k ≤ W.middle.length + 1)
    (pre : List (Option Bytes)) (b : Bytes) (s : DecState) (hb : bufEp (some b) = some (dev, stream))
    (hproj : (pre ++ [some b]).filter (fun x => bufEp x = some (dev, stream)) =
      Ws.flatMap (WireMsg.bufs dev stream) ++ (W.bufs dev stream).take k) :
    (decode (decodeAll tecmpDecode s pre).1 (some b)).2 = [] := by
  have hW := hwf W (by simp)
  have hWs : ∀ X ∈ Ws, X.WF := fun X hX => hwf X (by simp [hX])
  refine C05_call_of_earlier_segment (dev, stream) (Ws.map (WireMsg.toSegMsg dev stream)) (W.toSegMsg dev stream) k
    (by
      intro M hM
      rw [← List.map_singleton, ← List.map_append, List.mem_map] at hM
      obtain ⟨X, hX, rfl⟩ := hM
      exact ⟨WireMsg.toSegMsg_wf dev stream X (hwf X hX), rfl⟩)
    (by simpa [WireMsg.toSegMsg] using hk) pre b s hb ?_
  rw [framesOf_filter, hproj, framesOf_append, framesOf_wire dev stream hd hs Ws hWs, WireMsg.bufs, ← List.map_take]
  have := framesOf_frames_append ((W.raw dev stream).take k) []
    (fun x hx => WireMsg.raw_frames dev stream W hW x (List.mem_of_mem_take hx))
  rw [List.append_nil] at this
  rw [this, List.map_take, WireMsg.raw_parse dev stream W hW hd hs]
  simp [framesOf]

/-! ## §5  closed instances: the hypotheses are satisfiable, the conclusions are literal values -/

/-- an Ethernet message (payload type 8 of message type 1) in THREE UNEQUAL segments (2, 5, 4 declared
    bytes), counters 65535, 0, 1 (across the wrap), trailing bytes behind the first and the last segment,
    later segments with other timestamps / ids / payload type: from any decoder state the delivered packet
    carries type Ethernet and literally the concatenation of the declared bytes, with the FIRST segment's
    header fields -/
example (d : DecState) :
    (decodeAll tecmpDecode d
      [some (segFrame 1 0x0102 1 7 65535 ⟨1000, 3, 4, 8⟩ [0, 0] [0xEE, 0xEE]),
       some (segFrame 1 0x0102 1 7 0 ⟨0, 0, 8, 8⟩ [0, 0, 0, 5, 1] []),
       some (segFrame 1 0x0102 1 7 1 ⟨77, 9, 12, 1⟩ [2, 3, 4, 5] [0xDD])]).2 =
    [{ payload := some ⟨tyEth, [0, 0, 0, 0, 0, 5, 1, 2, 3, 4, 5]⟩, version := 1, deviceId := 0x0102, streamId := 7,
       ts := 1000, ifId := 3, flags := 4 }] := by
  refine Eq.trans (C05_bytes_single_exact 1 0x0102 1 7 65535 (⟨1000, 3, 4, 8⟩, [0, 0], [0xEE, 0xEE])
    [(⟨0, 0, 8, 8⟩, [0, 0, 0, 5, 1], [])] (⟨77, 9, 12, 1⟩, [2, 3, 4, 5], [0xDD])
    (by decide) (by decide) (by decide) (by decide) (by decide) (by decide) (by decide) (by decide) d).1 ?_
  decide +kernel

/-- … and the same message with a data length field (6) the Ethernet validator rejects for 11 bytes: the
    packet arrives with the invalid type and 11 zero bytes (`Packet::create`'s behaviour, unchanged by C05) -/
example (d : DecState) :
    (decodeAll tecmpDecode d
      [some (segFrame 1 0x0102 1 7 65535 ⟨1000, 3, 4, 8⟩ [0, 0] [0xEE, 0xEE]),
       some (segFrame 1 0x0102 1 7 0 ⟨0, 0, 8, 8⟩ [0, 0, 0, 6, 1] []),
       some (segFrame 1 0x0102 1 7 1 ⟨77, 9, 12, 1⟩ [2, 3, 4, 5] [0xDD])]).2 =
    [{ payload := some ⟨0, [0, 0, 0, 0, 0, 0, 0, 0, 0, 0, 0]⟩, version := 1, deviceId := 0x0102, streamId := 7,
       ts := 1000, ifId := 3, flags := 4 }] := by
  refine Eq.trans (C05_bytes_single_exact 1 0x0102 1 7 65535 (⟨1000, 3, 4, 8⟩, [0, 0], [0xEE, 0xEE])
    [(⟨0, 0, 8, 8⟩, [0, 0, 0, 6, 1], [])] (⟨77, 9, 12, 1⟩, [2, 3, 4, 5], [0xDD])
    (by decide) (by decide) (by decide) (by decide) (by decide) (by decide) (by decide) (by decide) d).1 ?_
  decide +kernel

/-- endpoint A = (0x0200, 1): Ethernet message, segments of 0 / 3 / 5 declared bytes, counters 65535, 0, 1,
    trailing bytes behind the first and last segment -/
def WA : WireMsg :=
  ⟨1, 1, 65535, (⟨1000, 3, 4, 8⟩, [], [0xEE, 0xEE]), [(⟨0, 0, 8, 1⟩, [0, 0, 0], [])],
   (⟨77, 9, 12, 1⟩, [0, 0, 2, 0xAA, 0xBB], [0xDD])⟩
/-- endpoint B = (0x0200, 2): a vendor message (message type 3, generic payload type 0x55), two segments,
    counters 65534, 65535, version 2, a flags byte with further bits set -/
def WB : WireMsg :=
  ⟨2, 3, 65534, (⟨5, 0x00010002, 0x84, 0x55⟩, [1, 2, 3, 4], []), [], (⟨6, 0, 0x0C, 0x55⟩, [5], [9, 9, 9])⟩

instance (W : WireMsg) : Decidable W.WF := by unfold WireMsg.WF; infer_instance

example : WA.WF ∧ WB.WF := by decide

def a1 : Bytes := [1, 0, 2, 0, 1, 1, 255, 255, 0, 0, 0, 0, 0, 0, 3, 232, 0, 0, 0, 3, 4, 8, 0, 0, 238, 238]
def a2 : Bytes := [1, 0, 2, 0, 1, 1, 0, 0, 0, 0, 0, 0, 0, 0, 0, 0, 0, 0, 0, 0, 8, 1, 0, 3, 0, 0, 0]
def a3 : Bytes := [1, 0, 2, 0, 1, 1, 0, 1, 0, 0, 0, 0, 0, 0, 0, 77, 0, 0, 0, 9, 12, 1, 0, 5, 0, 0, 2, 170, 187, 221]
def b1 : Bytes := [2, 0, 2, 0, 3, 2, 255, 254, 0, 0, 0, 0, 0, 0, 0, 5, 0, 1, 0, 2, 132, 85, 0, 4, 1, 2, 3, 4]
def b2 : Bytes := [2, 0, 2, 0, 3, 2, 255, 255, 0, 0, 0, 0, 0, 0, 0, 6, 0, 0, 0, 0, 12, 85, 0, 1, 5, 9, 9, 9]

/-- the frames of the two messages as literal bytes -/
example : WA.bufs 0x0200 1 = [some a1, some a2, some a3] ∧ WB.bufs 0x0200 2 = [some b1, some b2] := by decide

/-- a history: A's and B's frames interleaved with each other, with a TECMP CAN-FD message, a null pointer,
    a frame of a third endpoint (0x0102, 7) holding an unsegmented Ethernet message, and a 3-byte buffer -/
def exBufs : List (Option Bytes) :=
  [some a1, some b1, some SrcTec.exCanFd, some a2, none, some SrcDec.exFrame, some b2, some [1, 2, 3], some a3]

def pktA : Packet :=
  { payload := some ⟨tyEth, [0, 0, 0, 0, 0, 2, 0xAA, 0xBB]⟩, version := 1, deviceId := 0x0200, streamId := 1,
    ts := 1000, ifId := 3, flags := 4 }
def pktB : Packet :=
  { payload := some ⟨0x0355, [1, 2, 3, 4, 5]⟩, version := 2, deviceId := 0x0200, streamId := 2,
    ts := 5, vendorId := 2, flags := 0x84 }

/-- instance of `C05_bytes_interleaved` for A (from ANY decoder state): hypothesis checked, conclusion literal:
    the three calls for A's frames return nothing, nothing, `[pktA]` -/
example (s : DecState) :
    ((calls s exBufs).filter (fun x => bufEp x.1 = some (0x0200, 1))).map (·.2) = [[], [], [pktA]] ∧
    (decodeAll tecmpDecode s exBufs).1 (0x0200, 1) = none := by
  obtain ⟨h1, h2⟩ := C05_bytes_interleaved 0x0200 1 (by decide) (by decide) [WA] (by decide) exBufs s (by decide +kernel)
  exact ⟨h1.trans (by decide +kernel), h2⟩

/-- … and for B: nothing, `[pktB]` -/
example (s : DecState) :
    ((calls s exBufs).filter (fun x => bufEp x.1 = some (0x0200, 2))).map (·.2) = [[], [pktB]] ∧
    (decodeAll tecmpDecode s exBufs).1 (0x0200, 2) = none := by
  obtain ⟨h1, h2⟩ := C05_bytes_interleaved 0x0200 2 (by decide) (by decide) [WB] (by decide) exBufs s (by decide +kernel)
  exact ⟨h1.trans (by decide +kernel), h2⟩

/-- the whole history evaluated independently through the low-level model (the transcription of
    `Decoder::decode` with its table, which `C17b.runLL_refines` proves equal to `decode`): four packets in
    this order — the TECMP one, the third endpoint's, B's (at B's last segment), A's (at A's last segment) —
    and an empty table -/
example :
    ((decodeAll tecmpDecode DecState.empty exBufs).2.map fun p => (p.deviceId, p.streamId, p.payload.map (·.ty))) =
      [(7, 0, some tyCanFd), (0x0102, 7, some tyEth), (0x0200, 2, some 0x0355), (0x0200, 1, some tyEth)] ∧
    (decodeAll tecmpDecode DecState.empty exBufs).2.drop 2 = [pktB, pktA] ∧
    (C17b.runLL [] exBufs).1 = [] := by
  rw [← (C17b.runLL_refines exBufs).2.2]
  decide +kernel


/-- R2 with the call made explicit, on the history above: the 9th call (A's last segment, after everything
    else) returns `[pktA]`; the 4th call (A's intermediary segment, after a TECMP message) returns nothing -/
example (s : DecState) :
    (decode (decodeAll tecmpDecode s (exBufs.take 8)).1 (some a3)).2 = [pktA] ∧
    (decode (decodeAll tecmpDecode s (exBufs.take 3)).1 (some a2)).2 = [] := by
  refine ⟨?_, ?_⟩
  · exact (C05_bytes_call_of_last_segment 0x0200 1 (by decide) (by decide) [] WA (by decide) (exBufs.take 8) a3 s
      (by decide +kernel) (by decide +kernel)).trans (by decide +kernel)
  · exact C05_bytes_call_of_earlier_segment 0x0200 1 (by decide) (by decide) [] WA 2 (by decide) (by decide)
      (exBufs.take 3) a2 s (by decide +kernel) (by decide +kernel)

/-- the Layer-B objects behind it are inhabited too -/
example : (WA.toSegMsg 0x0200 1).WF ∧ (WA.toSegMsg 0x0200 1).seq0 = 65535 ∧ (WA.toSegMsg 0x0200 1).frames.length = 3 :=
  ⟨WireMsg.toSegMsg_wf _ _ _ (by decide), rfl, by rw [frames_length]; rfl⟩


/-! ## §6  the source-level refinement composed over a history

  `SrcDec.decode_total_src` is a statement about ONE call and assumes the side invariant `TableReg` (counters
  within 16 bits, buffers far from exhausting the address space) without re-establishing it.  Here it is
  re-established, so that the refinement composes over any history of calls ("any interleaving"). -/

/-- one message, on its `WireMsg` description (this is `C05_bytes_single_total`) -/
theorem WireMsg.single (dev stream : Nat) (hd : dev < 65536) (hs : stream < 256) (W : WireMsg) (hW : W.WF)
    (d : DecState) :
    (decodeAll tecmpDecode d (W.bufs dev stream)).1 (dev, stream) = none ∧
    (∀ x, x ≠ (dev, stream) → (decodeAll tecmpDecode d (W.bufs dev stream)).1 x = d x) ∧
    (decodeAll tecmpDecode d (W.bufs dev stream).dropLast).2 = [] ∧
    (decodeAll tecmpDecode d (W.bufs dev stream)).2 = [W.packet dev stream] := by
  have h := single_lift_total (W.toSegMsg dev stream) (WireMsg.toSegMsg_wf dev stream W hW) d (W.raw dev stream)
    (WireMsg.raw_frames dev stream W hW) (WireMsg.raw_parse dev stream W hW hd hs)
  rw [WireMsg.toSegMsg_delivered dev stream W hW] at h
  exact h

/-- every pending reassembly has a 16-bit counter and at most `N` buffered bytes -/
def StateReg (N : Nat) (s : DecState) : Prop := ∀ e q, s e = some q → q.seq < 65536 ∧ q.buf.length ≤ N

theorem parseFrame_seq_lt (b : Bytes) : (parseFrame b).seq < 65536 := by
  show beDec (slice b 6 2) < 65536
  have h := beDec_lt (slice b 6 2)
  have hl : (slice b 6 2).length ≤ 2 := by simp [slice]; omega
  have : 256 ^ (slice b 6 2).length ≤ 256 ^ 2 := Nat.pow_le_pow_right (by decide) hl
  omega

theorem walk_seg_le (ep : Ep) (ver mt : Nat) (r : Bytes) :
    ∀ m, (walk ep ver mt r).2 = .seg m → m.length ≤ r.length := by
  fun_induction walk ep ver mt r with
  | case1 r h0 => intro m h; cases h
  | case2 r h0 h1 => intro m h; cases h
  | case3 r h0 h1 len h2 =>
    intro m h
    simp only [Term.seg.injEq] at h
    subst h
    simp only [List.length_take]
    omega
  | case4 r h0 h1 len h2 p rest ih =>
    intro m h
    have := ih m h
    simp only [List.length_drop] at this
    omega

theorem fixLen_length_le (x : Bytes) : (fixLen x).length ≤ x.length + 2 := by
  simp [fixLen, writeAt]; omega

theorem localStep_reg (p : Option Pending) (f : PFrame) (N L : Nat)
    (hp : ∀ q, p = some q → q.seq < 65536 ∧ q.buf.length ≤ N) (hseq : f.seq < 65536)
    (hm : ∀ m, f.term = .seg m → 16 ≤ m.length ∧ m.length ≤ L) :
    ∀ q', (localStep p f).1 = some q' → q'.seq < 65536 ∧ q'.buf.length ≤ N + L := by
  intro q' hq'
  unfold localStep at hq'
  split at hq'
  · cases hq'
  · cases hq'
  · rename_i m hterm
    obtain ⟨h16, hL⟩ := hm m hterm
    dsimp only at hq'
    split at hq'
    · simp only [Option.some.injEq] at hq'
      subst hq'
      exact ⟨hseq, by dsimp only; omega⟩
    · split at hq'
      · cases hq'
      · rename_i q hq
        have hqp : p = some q := by
          split at hq
          · exact hq
          · cases hq
        obtain ⟨hs, hb⟩ := hp q hqp
        split at hq'
        · split at hq'
          · cases hq'
          · simp only [Option.some.injEq] at hq'
            subst hq'
            refine ⟨Nat.mod_lt _ (by decide), ?_⟩
            dsimp only
            have := fixLen_length_le (q.buf ++ List.drop 16 m)
            simp only [List.length_append, List.length_drop] at this
            omega
        · cases hq'

/-- one `decode` call on a buffer of `L` bytes lets the buffered bytes grow by at most `L` -/
theorem decode_reg (s : DecState) (buf : Option Bytes) (N : Nat) (h : StateReg N s) :
    StateReg (N + (buf.map List.length).getD 0) (decode s buf).1 := by
  have hmono : ∀ K, StateReg (N + K) s := fun K e q hq => ⟨(h e q hq).1, by have := (h e q hq).2; omega⟩
  unfold decode decodeWith
  split
  · exact hmono _
  · rename_i b
    split
    · exact hmono _
    · split
      · exact hmono _
      · rename_i h8 _
        intro e q hq
        by_cases he : (parseFrame b).ep = e
        · subst he
          rw [step_fst_same] at hq
          refine localStep_reg (s (parseFrame b).ep) (parseFrame b) N b.length (fun q hq => h _ q hq)
            (parseFrame_seq_lt b) ?_ q hq
          intro m hmm
          refine ⟨walk_seg_length _ _ _ _ m hmm, ?_⟩
          have := walk_seg_le _ _ _ _ m hmm
          simp only [List.length_drop] at this
          omega
        · rw [step_fst_other _ _ _ he] at hq
          exact hmono _ e q hq

theorem mem_find (t : Table) (h : (t.map (·.1)).Nodup) : ∀ x ∈ t, t.find x.1 = some x.2 := by
  induction t with
  | nil => intro x hx; cases hx
  | cons y ys ih =>
    intro x hx
    simp only [List.map_cons, List.nodup_cons] at h
    simp only [List.mem_cons] at hx
    rcases hx with rfl | hx
    · exact C17b.find_cons_same ys x.1 x.2
    · have hne : x.1 ≠ y.1 := by
        intro hc
        exact h.1 (by rw [← hc]; exact List.mem_map_of_mem hx)
      have := C17b.find_cons_other ys y.1 x.1 y.2 hne
      rw [this]
      exact ih h.2 x hx

/-- the side invariant of the source-level theorems follows from the model-level bound -/
theorem tableReg_of_state (t : Table) (N : Nat) (hT : C17b.TableOk t) (hN : StateReg N t.abs)
    (hbound : N + 65536 < 2 ^ 64) : SrcDec.TableReg t := by
  intro x hx
  have hf := mem_find t hT.1 x hx
  have := hN x.1 (C17b.absP x.2) (by rw [C17b.abs_apply, hf]; rfl)
  exact ⟨this.1, by have := this.2; show x.2.payload.length + 65536 < 2 ^ 64; simp only [C17b.absP] at this; omega⟩

/-- one call of the translated `Decoder::decode`: the memory image, where the buffer lies in it, the loop fuel -/
inductive Call
  /-- null pointer, any size -/
  | null (m : Bytes) (size fuel : Nat)
  /-- buffer `b` (ANY length, also shorter than a frame header) at the non-null address `pre.length` -/
  | buf (pre b post : Bytes) (fuel : Nat)

namespace Call
def buffer : Call → Option Bytes
  | null _ _ _ => none
  | buf _ b _ _ => some b

def size (c : Call) : Nat := (c.buffer.map List.length).getD 0

/-- the buffer is addressable (its memory below 2^63 bytes; no bound on the buffer's own length) and the loop fuel covers it -/
def Ok : Call → Prop
  | null _ _ _ => True
  | buf pre b post fuel => 0 < pre.length ∧ (pre ++ b ++ post).length < 2 ^ 63 ∧ b.length ≤ fuel

open AsamCmp.SrcGen AsamCmp.Src in
/-- the translated source run on this call -/
def run (st : Decoder_St) : Call → Option (Decoder_St × List (PktOut ⊕ TPacket_St))
  | null m size fuel => Decoder_decode_obj fuel st m 0 size (SrcTec.tecmpExt fuel)
  | buf pre b post fuel => Decoder_decode_obj fuel st (pre ++ b ++ post) pre.length b.length (SrcTec.tecmpExt fuel)
end Call

open AsamCmp.SrcGen AsamCmp.Src in
/-- the translated source run over a history of calls; the packets read back as model packets -/
def srcRun (st : Decoder_St) : List Call → Option (Decoder_St × List Packet)
  | [] => some (st, [])
  | c :: cs =>
    match c.run st with
    | none => none
    | some (st', outs) =>
      match srcRun st' cs with
      | none => none
      | some (st'', ps) => some (st'', outs.map (Sum.elim SrcDec.toPacket SrcTec.tAbs) ++ ps)

/-- one call, every kind of buffer, with the side invariant carried along -/
theorem src_call (t : Table) (c : Call) (N : Nat) (hc : c.Ok) (hT : C17b.TableOk t) (hN : StateReg N t.abs)
    (hbound : N + 65536 < 2 ^ 64) :
    ∃ t' outs, c.run (SrcDec.tblSt t) = some (SrcDec.tblSt t', outs) ∧
      C17b.TableOk t' ∧ t'.abs = (decode t.abs c.buffer).1 ∧
      outs.map (Sum.elim SrcDec.toPacket SrcTec.tAbs) = (decode t.abs c.buffer).2 ∧
      StateReg (N + c.size) t'.abs := by
  have hreg := decode_reg t.abs c.buffer N hN
  cases c with
  | null m size fuel =>
    obtain ⟨h1, h2⟩ := SrcDec.decode_total_null_src t m size fuel
    exact ⟨t, [], h1, hT, by rw [Call.buffer, h2], by rw [Call.buffer, h2]; rfl, by
      have := hreg; rw [Call.buffer, h2] at this; exact this⟩
  | buf pre b post fuel =>
    obtain ⟨hpre, hmem, hf⟩ := hc
    by_cases h8 : b.length < 8
    · obtain ⟨h1, h2⟩ := SrcDec.decode_total_short_src t (pre ++ b ++ post) b pre.length fuel hpre h8
      exact ⟨t, [], h1, hT, by rw [Call.buffer, h2], by rw [Call.buffer, h2]; rfl, by
        have := hreg; rw [Call.buffer, h2] at this; exact this⟩
    · obtain ⟨t', outs, k1, k2, k3, k4⟩ := SrcDec.decode_total_src t pre b post fuel hT
        (tableReg_of_state t N hT hN hbound) hpre (by omega) hmem hf
      refine ⟨t', outs, k1, k2, k3, k4, ?_⟩
      rw [k3]
      exact hreg

/-- **the translated C++ `Decoder::decode` over ANY history of calls** (null pointers, short buffers, TECMP
    messages, capture-module frames of any endpoints in any interleaving), from any table satisfying the
    invariants: it is defined at every call, returns exactly the packets of the model `decode` that all C05
    theorems are about, and leaves exactly the model's pending table.  `hbound`: the bytes ever handed to the
    decoder stay below the address space. -/
theorem src_history : ∀ (cs : List Call) (t : Table) (N : Nat), (∀ c ∈ cs, c.Ok) → C17b.TableOk t →
    StateReg N t.abs → N + (cs.map Call.size).sum + 65536 < 2 ^ 64 →
    ∃ t', srcRun (SrcDec.tblSt t) cs =
        some (SrcDec.tblSt t', (decodeAll tecmpDecode t.abs (cs.map Call.buffer)).2) ∧
      C17b.TableOk t' ∧ t'.abs = (decodeAll tecmpDecode t.abs (cs.map Call.buffer)).1 := by
  intro cs
  induction cs with
  | nil => intro t N _ hT _ _; exact ⟨t, rfl, hT, rfl⟩
  | cons c cs ih =>
    intro t N hok hT hN hbound
    simp only [List.map_cons, List.sum_cons] at hbound
    obtain ⟨t1, outs, h1, h2, h3, h4, h5⟩ := src_call t c N (hok c (List.mem_cons_self ..)) hT hN (by omega)
    obtain ⟨t2, i1, i2, i3⟩ := ih t1 (N + c.size) (fun x hx => hok x (List.mem_cons_of_mem _ hx)) h2 h5 (by omega)
    refine ⟨t2, ?_, i2, ?_⟩
    · simp only [srcRun, h1, i1, List.map_cons, decodeAll]
      rw [h4, h3]
      rfl
    · simp only [List.map_cons, decodeAll]
      rw [i3, h3]
      rfl

/-- from a freshly constructed decoder (empty table) -/
theorem src_history_fresh (cs : List Call) (hok : ∀ c ∈ cs, c.Ok)
    (hbound : (cs.map Call.size).sum + 65536 < 2 ^ 64) :
    ∃ t', srcRun (SrcDec.tblSt []) cs =
        some (SrcDec.tblSt t', (decodeAll tecmpDecode DecState.empty (cs.map Call.buffer)).2) ∧
      C17b.TableOk t' ∧ t'.abs = (decodeAll tecmpDecode DecState.empty (cs.map Call.buffer)).1 :=
  src_history cs [] 0 hok C17b.tableOk_empty (fun e q hq => by cases hq) (by omega)

/-- C05 for the translated source: a fresh decoder that is handed, by well-formed calls, the frames of one
    well-formed segmented message returns — over the whole history — exactly the one packet `W.packet`, and its
    table has no entry for the endpoint afterwards -/
theorem src_single_message (dev stream : Nat) (hd : dev < 65536) (hs : stream < 256) (W : WireMsg) (hW : W.WF)
    (cs : List Call) (hok : ∀ c ∈ cs, c.Ok) (hbufs : cs.map Call.buffer = W.bufs dev stream)
    (hbound : (cs.map Call.size).sum + 65536 < 2 ^ 64) :
    ∃ t', srcRun (SrcDec.tblSt []) cs = some (SrcDec.tblSt t', [W.packet dev stream]) ∧
      t'.find (dev, stream) = none := by
  obtain ⟨t', h1, _, h3⟩ := src_history_fresh cs hok hbound
  obtain ⟨k1, _, _, k4⟩ := WireMsg.single dev stream hd hs W hW DecState.empty
  rw [hbufs] at h1 h3
  refine ⟨t', by rw [h1, k4], ?_⟩
  have : t'.abs (dev, stream) = none := by rw [h3, k1]
  rw [C17b.abs_apply] at this
  cases hfd : t'.find (dev, stream) with
  | none => rfl
  | some v => rw [hfd] at this; cases this


/-- Q1 "any set of endpoints": the per-endpoint statement holds for all streams of a history at once — `k`
    endpoints, each with its own list of messages, all interleaved in the one history `bufs` -/
theorem C05_bytes_all_endpoints (streams : List (Nat × Nat × List WireMsg))
    (hwf : ∀ x ∈ streams, x.1 < 65536 ∧ x.2.1 < 256 ∧ ∀ W ∈ x.2.2, W.WF)
    (bufs : List (Option Bytes)) (s : DecState)
    (hproj : ∀ x ∈ streams, bufs.filter (fun b => bufEp b = some (x.1, x.2.1)) =
      x.2.2.flatMap (WireMsg.bufs x.1 x.2.1)) :
    ∀ x ∈ streams,
      ((calls s bufs).filter (fun c => bufEp c.1 = some (x.1, x.2.1))).map (·.2) =
        x.2.2.flatMap (WireMsg.outs x.1 x.2.1) ∧
      (decodeAll tecmpDecode s bufs).1 (x.1, x.2.1) = (if x.2.2 = [] then s (x.1, x.2.1) else none) := by
  intro x hx
  obtain ⟨h1, h2, h3⟩ := hwf x hx
  exact C05_bytes_interleaved x.1 x.2.1 h1 h2 x.2.2 h3 bufs s (hproj x hx)

example (s : DecState) :
    ∀ x ∈ [(0x0200, 1, [WA]), (0x0200, 2, [WB])],
      ((calls s exBufs).filter (fun c => bufEp c.1 = some (x.1, x.2.1))).map (·.2) =
        x.2.2.flatMap (WireMsg.outs x.1 x.2.1) ∧
      (decodeAll tecmpDecode s exBufs).1 (x.1, x.2.1) = (if x.2.2 = [] then s (x.1, x.2.1) else none) :=
  C05_bytes_all_endpoints [(0x0200, 1, [WA]), (0x0200, 2, [WB])] (by decide) exBufs s (by decide +kernel)

instance (c : Call) : Decidable c.Ok := by cases c <;> unfold Call.Ok <;> infer_instance

/-- the calls of the example history: each buffer at address 1 of its own memory image, the null pointer -/
def exCalls : List Call := exBufs.map fun
  | none => Call.null [] 5 64
  | some b => Call.buf [9] b [0xFF] 64

/-- `src_history_fresh` applies to them: the translated source, run over the nine calls, is defined and returns
    the model's four packets -/
example : ∃ t', srcRun (SrcDec.tblSt []) exCalls =
      some (SrcDec.tblSt t', (decodeAll tecmpDecode DecState.empty exBufs).2) ∧
    C17b.TableOk t' ∧ t'.abs = (decodeAll tecmpDecode DecState.empty exBufs).1 := by
  have h := src_history_fresh exCalls (by decide +kernel) (by decide +kernel)
  rw [show exCalls.map Call.buffer = exBufs from by decide +kernel] at h
  exact h


/-- … and the translation itself EVALUATED by the kernel on these nine calls (no theorem involved): the last two
    packets the translated `Decoder::decode` returns are B's and A's reassembled messages -/
example : (srcRun (SrcDec.tblSt []) exCalls).map (fun r => r.2.drop 2) = some [pktB, pktA] := by decide +kernel

end AsamCmp.C05S
