/-
  C16  Status tracker equals a per-device, per-interface latest-message map.

  After any sequence of updates, removals and clears, the status object holds exactly one entry per
  device id that has sent a capture-module status message since it was last removed or cleared,
  holding that device's latest such packet, and under it exactly one entry per interface id seen in
  that device's interface status messages since then, holding the latest one.  Lookups by id return
  the index of the matching entry, or the element count when there is none, and messages for unknown
  devices or of other kinds change nothing.

  The map specification (`specStep`, `setMap`), the abstraction (`absSt`, `absIfs`) and the
  invariant `Inv` are in `AsamCmp/Lemmas/StatusSpec.lean`, the helper lemmas in
  `AsamCmp/Lemmas/Status.lean`.
-/
import AsamCmp.Status
import AsamCmp.Lemmas.Status
namespace AsamCmp.C16
open AsamCmp

theorem inv_init : Inv [] := by
  exact ⟨List.nodup_nil, fun d hd => by cases hd⟩

theorem inv_step (s : StatusSt) (op : StOp) (h : Inv s) : Inv (statusStep s op) := by
  exact inv_statusStep s op h

/-- one concrete step refines one step of the map specification -/
theorem abs_step (s : StatusSt) (op : StOp) (h : Inv s) : absSt (statusStep s op) = specStep (absSt s) op := by
  exact abs_statusStep s op h

/-- C16: after ANY sequence of operations from the empty tracker, what the tracker holds — read
    through its vectors — is exactly the latest-message map, and the vectors hold one entry per key -/
theorem status_refines (ops : List StOp) :
    absSt (statusRun [] ops) = specRun (fun _ => none) ops ∧ Inv (statusRun [] ops) := by
  exact refines_from ops [] inv_init

/-- exactly one entry per key: a device id has an entry iff the map is defined there, entries are
    unique, so the element count is the number of keys -/
theorem entries_are_keys (s : StatusSt) (h : Inv s) (dev : Nat) :
    (absSt s dev).isSome ↔ dev ∈ s.map (·.pkt.deviceId) := by
  have _ := h
  rw [List.mem_map]
  constructor
  · intro hs
    cases hf : s.find? (fun d => d.pkt.deviceId == dev) with
    | none => simp [absSt, hf] at hs
    | some a =>
      exact ⟨a, List.mem_of_find?_eq_some hf, by simpa using List.find?_some hf⟩
  · intro ⟨a, ha, hka⟩
    have hlt : indexOfDev s dev < s.length := (findIdx_lt_iff _ s).2 ⟨a, ha, by simp [hka]⟩
    obtain ⟨b, _, _, _, _, habs⟩ := dev_found s dev hlt
    rw [habs]; rfl

/-- lookups: `getIndexByDeviceId` returns the position of the entry with that id, or the count -/
theorem index_spec (s : StatusSt) (id : Nat) :
    let i := indexOfDev s id
    (i < s.length → ∃ d, s[i]? = some d ∧ d.pkt.deviceId = id) ∧
    (¬ i < s.length → i = s.length ∧ absSt s id = none) ∧
    (∀ j, j < i → ∀ d, s[j]? = some d → d.pkt.deviceId ≠ id) := by
  intro i
  refine ⟨?_, ?_, ?_⟩
  · intro hlt
    obtain ⟨a, ha, hka, _⟩ := dev_found s id hlt
    exact ⟨a, ha, hka⟩
  · intro hlt
    obtain ⟨h1, _, h3, _⟩ := dev_notfound s id hlt
    exact ⟨h1, h3⟩
  · intro j hj d hd hka
    exact findIdx_before _ s j hj d hd (by simp [hka])

theorem if_index_spec (d : DevSt) (id : Nat) :
    let i := d.indexOfIf id
    (i < d.ifs.length → ∃ x, d.ifs[i]? = some x ∧ x.id = id) ∧
    (¬ i < d.ifs.length → i = d.ifs.length ∧ absIfs d.ifs id = none) := by
  intro i
  refine ⟨?_, ?_⟩
  · intro hlt
    obtain ⟨a, ha, hka, _⟩ := absL_found (fun i : IfSt => i.id) (fun i => i.pkt) d.ifs id hlt
    exact ⟨a, ha, hka⟩
  · intro hlt
    obtain ⟨h1, _, h3, _⟩ := absL_notfound (fun i : IfSt => i.id) (fun i => i.pkt) d.ifs id hlt
    exact ⟨h1, h3⟩

/-- messages of other kinds change nothing -/
theorem update_other_kind (s : StatusSt) (p : Packet) (h1 : p.pty ≠ tyCm) (h2 : p.pty ≠ tyIf) :
    statusUpdate s p = s := by
  by_cases hlt : indexOfDev s p.deviceId < s.length
  · rw [statusUpdate_found s p hlt]
    have hg : (fun d : DevSt => d.update p) = id := by
      funext d
      unfold DevSt.update
      simp only [if_neg h1, if_neg h2, id]
    rw [hg]
    exact List.modify_id ..
  · rw [statusUpdate_new s p hlt, if_neg h1]

/-- interface (or any non capture-module) messages for unknown devices change nothing -/
theorem update_unknown_device (s : StatusSt) (p : Packet) (hdev : absSt s p.deviceId = none) (h1 : p.pty ≠ tyCm) :
    statusUpdate s p = s := by
  have hlt : ¬ indexOfDev s p.deviceId < s.length := by
    intro hlt
    obtain ⟨a, _, _, _, _, habs⟩ := dev_found s p.deviceId hlt
    rw [habs] at hdev
    cases hdev
  rw [statusUpdate_new s p hlt, if_neg h1]

/-- every stored interface entry is keyed by the interface id inside its own packet -/
theorem if_key_is_payload_id (ops : List StOp) :
    ∀ d ∈ statusRun [] ops, ∀ x ∈ d.ifs, x.id = x.pkt.payloadIfId := by
  exact allKeyOk_run ops [] (fun d hd => by cases hd)

/-! ### a concrete run (the removal really reorders the vector; the map does not care) -/

/-- a capture-module status packet of device `dev` -/
def cmPkt (dev : Nat) : Packet := { payload := some ⟨tyCm, []⟩, deviceId := dev }
/-- an interface status packet of device `dev` for interface `ifId` (< 256) -/
def ifPkt (dev ifId : Nat) : Packet :=
  { payload := some ⟨tyIf, [0, 0, 0, UInt8.ofNat ifId]⟩, deviceId := dev }

/-- devices 1, 2, 3 are added, device 1 is removed: device 3 is swapped into slot 0 -/
example : (statusRun [] [.update (cmPkt 1), .update (cmPkt 2), .update (cmPkt 3), .rmDev 1]).map
    (·.pkt.deviceId) = [3, 2] := by decide

/-- interface messages before the device is known are ignored, later ones are stored per id, the
    latest one wins, and removing an interface swaps the last one into its slot -/
example : ((statusRun [] [.update (ifPkt 1 7), .update (cmPkt 1), .update (ifPkt 1 7), .update (ifPkt 1 8),
    .update (ifPkt 1 9), .update (ifPkt 1 7), .rmIf 1 7]).map fun d => d.ifs.map (·.id)) = [[9, 8]] := by
  decide

end AsamCmp.C16
