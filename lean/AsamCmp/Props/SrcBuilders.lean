/-
  Source-level C13: the payload builders (`setData` of the six payload classes and the helpers `Payload::setData<Header>`,
  `fillWithString`), translated from /repo's source on every run (GeneratedSrc.lean), compute exactly the builder model
  `Builders.lean` that the C13 theorems are about — for EVERY prior content `m` of the object (its own byte vector, which
  `payloadData.resize` grows or shrinks), every caller buffer and every length the API allows.  The caller's buffers are separate
  read-only byte lists (`x_…` parameters): a `memcpy` that would read more than the caller supplied is `none` (undefined), so
  "= some …" also says the builder reads nothing behind the caller's data; a stale byte surviving from `m` would make the
  results differ.
-/
import AsamCmp.GeneratedSrc
import AsamCmp.Builders
import AsamCmp.Props.SrcTie
import AsamCmp.Lemmas.SrcBuilders
set_option linter.unusedSimpArgs false
namespace AsamCmp.SrcTie
open AsamCmp AsamCmp.Src AsamCmp.SrcGen

theorem can_setData_src (m x : Bytes) (this n : Nat) (hn : n ≤ x.length) (h8 : n < 256) :
    CanPayloadBase_setData m this x n = some (canSetData m (x.take n)) := by
  have hl : (x.take n).length = n := by simp only [List.length_take]; omega
  simp only [CanPayloadBase_setData, CanPayloadBase_Header_setDataLength, CanPayloadBase_Header_setDlc, bind, pure]
  refine bind_of_eq (payload_setData_spec _ 16 (fun _ _ _ _ => rfl) m this x n hn (by omega)) ?_
  bld_calls [encodeDlc_src, canSetData, hl]

theorem lin_setData_src (m x : Bytes) (this n : Nat) (hn : n ≤ x.length) (h8 : n < 256) :
    LinPayload_setData m this x n = some (linSetData m (x.take n)) := by
  have hl : (x.take n).length = n := by simp only [List.length_take]; omega
  simp only [LinPayload_setData, LinPayload_Header_setDataLength, bind, pure]
  refine bind_of_eq (payload_setData_spec _ 8 (fun _ _ _ _ => rfl) m this x n hn (by omega)) ?_
  bld_calls [linSetData, hl]

theorem eth_setData_src (m x : Bytes) (this n : Nat) (hn : n ≤ x.length) (h16 : n < 65536) :
    EthernetPayload_setData m this x n = some (ethSetData m (x.take n)) := by
  have hl : (x.take n).length = n := by simp only [List.length_take]; omega
  simp only [EthernetPayload_setData, EthernetPayload_Header_setDataLength, bind, pure]
  refine bind_of_eq (payload_setData_spec _ 6 (fun _ _ _ _ => rfl) m this x n hn (by omega)) ?_
  bld_calls [ethSetData, hl]

theorem analog_setData_src (m x : Bytes) (this n : Nat) (hn : n ≤ x.length) (h64 : n + 16 < 2 ^ 64) :
    AnalogPayload_setData m this x n = some (analogSetData m (x.take n)) := by
  simp only [AnalogPayload_setData, analogSetData, bind, pure]
  first
    | exact payload_setData_spec _ 16 (fun _ _ _ _ => rfl) m this x n hn (by omega)
    | (refine bind_of_eq (payload_setData_spec _ 16 (fun _ _ _ _ => rfl) m this x n hn (by omega)) ?_; rfl)

theorem if_setData_src (m ids vendor : Bytes) (this c vl : Nat) (hc : c ≤ ids.length) (hv : vl ≤ vendor.length)
    (hc16 : c < 65536) (hv16 : vl < 65536) :
    InterfacePayload_setData m this ids c vendor vl = some (ifSetData m (ids.take c) (vendor.take vl)) := by
  have hlc : (ids.take c).length = c := by simp only [List.length_take]; omega
  have hlv : (vendor.take vl).length = vl := by simp only [List.length_take]; omega
  have hmod := smod_small c 2 (by omega) (by omega) (by omega)
  simp only [InterfacePayload_setData, ifSetData, hlc, hlv, hmod, bind, pure, some_bind]
  by_cases hodd : c % 2 = 0
  · simp only [hodd, Nat.reduceBNe, Bool.false_eq_true, eq_self, ↓reduceIte]
    bld_norm [nonneg_small]
    simp (disch := len_omega) only [writeAt_to_end, take_resize, zeros, List.replicate_succ, List.replicate_zero,
      List.nil_append, List.cons_append, List.append_assoc]
    try rfl
  · have h1 : c % 2 = 1 := by omega
    simp only [h1, Nat.reduceBNe, Bool.false_eq_true, eq_self, ↓reduceIte]
    bld_norm [nonneg_small]
    simp (disch := len_omega) only [writeAt_to_end, take_resize, zeros, List.replicate_succ, List.replicate_zero,
      List.nil_append, List.cons_append, List.append_assoc]
    try rfl

/-- one string block: `fillWithString` at position `p` of a memory with room for it writes `cmString s` there and returns the
    position behind it -/
theorem fillWithString_src (m s : Bytes) (this p : Nat) (hs : s.length < 65534) (hp : p + (cmString s).length ≤ m.length) :
    CaptureModulePayload_fillWithString m this p s = some (writeAt m p (cmString s), p + (cmString s).length) := by
  exact fillWithString_spec m s this p hs hp

theorem cm_setData_src (m d s hw sw v : Bytes) (this : Nat)
    (hd : d.length < 65534) (hs : s.length < 65534) (hh : hw.length < 65534) (hw' : sw.length < 65534) (hv : v.length < 65536) :
    CaptureModulePayload_setData m this d s hw sw v = some (cmSetData m d s hw sw v) := by
  simp only [CaptureModulePayload_setData, cmSetData, bind, pure]
  bld_norm [fillWithString_spec, psub_zero]
  simp (disch := len_omega) only [resize_writeAt, take_resize]

end AsamCmp.SrcTie
