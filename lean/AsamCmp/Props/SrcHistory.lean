/-
  HISTORIES of calls at source level.  The theorems of Props/SrcDecoder*.lean and Props/SrcEncoder*.lean are about ONE call of the
  translated `Decoder::decode` / `Encoder::encode`; the properties C02, C05, C06, C17, C18 (decoder) and C09, C10 (encoder)
  quantify over any history of earlier calls.  This file chains the single-call theorems:

  * decoder: an invariant of the pending table (`TableInv B t` = `C17b.TableOk t` ∧ every stored counter < 2^16 ∧ every stored
    payload ≤ `B` bytes) that holds of the fresh decoder, implies the hypotheses `TableOk` / `TableReg` of `decode_total_src` and is
    RE-ESTABLISHED by every call (`tableInv_preserved`, with `B` growing by the size of the buffer), and the run of the translated
    `Decoder::decode` (translated TECMP decoder plugged in) over a LIST of calls from the fresh decoder (`decode_history_src`);
  * encoder: a correspondence `Corr s e` between the record of data members `Encoder_St` and the structured model `Enc` that
    mentions only the members a call READS before writing them (device id, stream id, counter, message type) — the other five
    (min, max, bytesLeft, template, frames) are scratch — and the run of the translated public methods over a LIST of operations
    from the default-constructed object (`encode_history_src`); `encode1_src_struct` is the missing companion of
    `encodeBatch_src_struct` for the single-packet overload.
-/
import AsamCmp.Props.SrcDecoderTotal
import AsamCmp.Props.SrcEncoderE2E
import AsamCmp.Props.C09
import AsamCmp.Lemmas.SrcHistoryDec
namespace AsamCmp.SrcHist
open AsamCmp AsamCmp.Src AsamCmp.SrcGen AsamCmp.SrcDec

/-! ## 1. decoder: the invariant of a history -/

/-- the invariant of the pending table over a history: the structural invariant of C17b, and every entry within its C types
    and at most `B` payload bytes (`B` = the number of bytes the decoder has been handed so far) -/
def TableInv (B : Nat) (t : Table) : Prop := C17b.TableOk t ∧ Bd B t

/-- it implies the two hypotheses of `decode_total_src` as long as `B` is 64 KiB away from the end of the address space -/
theorem tableInv_ok {B : Nat} {t : Table} (h : TableInv B t) : C17b.TableOk t := h.1

theorem tableInv_reg {B : Nat} {t : Table} (h : TableInv B t) (hB : B + 65536 < 2 ^ 64) : TableReg t := by
  intro x hx
  have := h.2 x hx
  exact ⟨this.1, by omega⟩

/-- the empty table of a freshly constructed decoder (`Decoder_default`: the default member initialiser) satisfies it -/
theorem tableInv_fresh : TableInv 0 [] ∧ tblSt [] = Decoder_default ∧ Table.abs [] = DecState.empty :=
  ⟨⟨C17b.tableOk_empty, bd_nil 0⟩, rfl, rfl⟩

theorem tableInv_mono {B B' : Nat} {t : Table} (h : TableInv B t) (hb : B ≤ B') : TableInv B' t := ⟨h.1, bd_mono h.2 hb⟩

/-- the low-level model keeps it: a call on `n` bytes takes `TableInv B` to `TableInv (B + n)` -/
theorem tableInv_decodeLL {B : Nat} {t : Table} (buf : Option Bytes) (h : TableInv B t) :
    TableInv (B + (buf.map List.length).getD 0) (decodeLL t buf).1 :=
  ⟨(C17b.decodeLL_refines t buf h.1).1, decodeLL_bd t buf B h.1 h.2⟩

/-- ONE call on a buffer of ANY length (shorter than the frame header included) at a non-null address, with the table the
    translation leaves named: it is the low-level model's -/
theorem decode_step_src (t : Table) (pre b post : Bytes) (fuel : Nat)
    (hT : C17b.TableOk t) (hR : TableReg t) (hpre : 0 < pre.length)
    (hmem : (pre ++ b ++ post).length < 2 ^ 63) (hf : b.length ≤ fuel) :
    ∃ outs, Decoder_decode_obj fuel (tblSt t) (pre ++ b ++ post) pre.length b.length (SrcTec.tecmpExt fuel) =
        some (tblSt (decodeLL t (some b)).1, outs) ∧
      outs.map (Sum.elim toPacket SrcTec.tAbs) = (decodeLL t (some b)).2 := by
  by_cases h8 : b.length < 8
  · have hll : decodeLL t (some b) = (t, []) := by simp only [decodeLL, h8, if_true]
    rw [hll]
    exact ⟨[], (decode_total_short_src t (pre ++ b ++ post) b pre.length fuel hpre h8).1, rfl⟩
  · have h8' : 8 ≤ b.length := by omega
    by_cases h0 : byteAt b 0 = 0
    · obtain ⟨hsrc, hmap⟩ := SrcTec.decode_tecmp_src (tblSt t) pre b post fuel toPacket hpre h8' h0 (by omega) hf
        (fun _ => by
          have := C03.beAt_lt b 32 2
          have hbl : b.length ≤ (pre ++ b ++ post).length := by simp only [List.length_append]; omega
          omega)
      rw [decodeLL_tecmp t b h8' h0]
      exact ⟨_, hsrc, hmap⟩
    · obtain ⟨outs, h1, h2⟩ := decode_src t pre b post fuel (SrcTec.tecmpExt fuel) hT hR hpre h8' h0 hmem hf
      refine ⟨_, h1, ?_⟩
      rw [List.map_map, ← h2]
      rfl

/-- **the invariant is re-established** by the translated `Decoder::decode` on EVERY buffer at a non-null address (same
    hypotheses on the buffer as `decode_total_src`, without `8 ≤ b.length`): the call is defined, the table it leaves satisfies
    the invariant again (for `B + b.length`) and is the model's, and so are the packets -/
theorem tableInv_preserved (B : Nat) (t : Table) (pre b post : Bytes) (fuel : Nat)
    (hI : TableInv B t) (hB : B + 65536 < 2 ^ 64) (hpre : 0 < pre.length)
    (hmem : (pre ++ b ++ post).length < 2 ^ 63) (hf : b.length ≤ fuel) :
    ∃ t' outs, Decoder_decode_obj fuel (tblSt t) (pre ++ b ++ post) pre.length b.length (SrcTec.tecmpExt fuel) =
        some (tblSt t', outs) ∧
      TableInv (B + b.length) t' ∧ t'.abs = (decode t.abs (some b)).1 ∧
      outs.map (Sum.elim toPacket SrcTec.tAbs) = (decode t.abs (some b)).2 := by
  obtain ⟨outs, h1, h2⟩ := decode_step_src t pre b post fuel hI.1 (tableInv_reg hI hB) hpre hmem hf
  obtain ⟨_, k2, k3⟩ := C17b.decodeLL_refines t (some b) hI.1
  exact ⟨_, outs, h1, tableInv_decodeLL (some b) hI, k2, by rw [h2, k3]⟩

/-- … and by a call with the null pointer (any size, any memory): nothing happens -/
theorem tableInv_preserved_null (B : Nat) (t : Table) (m : Bytes) (size fuel : Nat) (hI : TableInv B t) :
    Decoder_decode_obj fuel (tblSt t) m 0 size (SrcTec.tecmpExt fuel) = some (tblSt t, []) ∧
      TableInv B t ∧ t.abs = (decode t.abs none).1 ∧ ([] : List Packet) = (decode t.abs none).2 :=
  ⟨(decode_total_null_src t m size fuel).1, hI, rfl, rfl⟩

/-- `TableReg` itself, the hypothesis of `decode_total_src`: re-established PROVIDED the payload bound `B` of the invariant is
    known — `TableReg` alone is not inductive (an entry holding 2^64 − 65537 bytes satisfies it, and after one more intermediary
    segment of one byte no longer does), which is why the history theorem carries `TableInv`.  The unconditional
    statement `TableReg t → TableReg t'` is false (argued here, not proved in Lean), not merely unproved. -/
theorem tableReg_preserved_partial (B : Nat) (t : Table) (pre b post : Bytes) (fuel : Nat)
    (hI : TableInv B t) (hB : B + b.length + 65536 < 2 ^ 64) (hpre : 0 < pre.length)
    (hmem : (pre ++ b ++ post).length < 2 ^ 63) (hf : b.length ≤ fuel) :
    ∃ t' outs, Decoder_decode_obj fuel (tblSt t) (pre ++ b ++ post) pre.length b.length (SrcTec.tecmpExt fuel) =
        some (tblSt t', outs) ∧ C17b.TableOk t' ∧ TableReg t' := by
  obtain ⟨t', outs, h1, h2, _, _⟩ := tableInv_preserved B t pre b post fuel hI (by omega) hpre hmem hf
  exact ⟨t', outs, h1, h2.1, tableInv_reg h2 hB⟩

/-! ## 2. decoder: a history of calls -/

/-- one call `decode(data, size)` together with the memory it runs in: the null pointer (any memory, any size), or a buffer `b`
    placed at the non-null address `pre.length` of the memory `pre ++ b ++ post` (each call has its own memory) -/
inductive Call
  | null (mem : Bytes) (size : Nat)
  | buf (pre b post : Bytes)

/-- the buffer the call designates, as the model sees it -/
def Call.arg : Call → Option Bytes
  | .null _ _ => none
  | .buf _ b _ => some b

/-- number of bytes handed over -/
def Call.bytes (c : Call) : Nat := (c.arg.map List.length).getD 0

/-- the hypotheses of `decode_total_src` on the buffer (non-null address, the memory below 2^63 bytes, fuel), minus
    `8 ≤ b.length`.  No bound on the buffer's own length: `curSize` is a `std::size_t` -/
def Call.Ok (fuel : Nat) : Call → Prop
  | .null _ _ => True
  | .buf pre b post => 0 < pre.length ∧ (pre ++ b ++ post).length < 2 ^ 63 ∧ b.length ≤ fuel

/-- the translated `Decoder::decode`, translated `TECMP::Decoder::Decode` plugged in, on one call -/
def srcDecodeCall (fuel : Nat) (s : Decoder_St) : Call → Option (Decoder_St × List (PktOut ⊕ TPacket_St))
  | .null m size => Decoder_decode_obj fuel s m 0 size (SrcTec.tecmpExt fuel)
  | .buf pre b post => Decoder_decode_obj fuel s (pre ++ b ++ post) pre.length b.length (SrcTec.tecmpExt fuel)

/-- the run of the translated `Decoder::decode` over a list of calls on ONE decoder object: `none` as soon as one call is
    undefined; otherwise the final member state and, call by call, the returned packets (read as packets of the model by
    `toPacket` / `SrcTec.tAbs`, exactly as in `decode_total_src`) -/
def srcDecodeRun (fuel : Nat) (s : Decoder_St) : List Call → Option (Decoder_St × List (List Packet))
  | [] => some (s, [])
  | c :: cs =>
    match srcDecodeCall fuel s c with
    | none => none
    | some (s1, outs) =>
      match srcDecodeRun fuel s1 cs with
      | none => none
      | some (s2, rest) => some (s2, outs.map (Sum.elim toPacket SrcTec.tAbs) :: rest)

/-- the model's run, keeping the packets of every call apart -/
def decodeEach (s : DecState) : List (Option Bytes) → DecState × List (List Packet)
  | [] => (s, [])
  | b :: bs =>
    let r := decode s b
    let r' := decodeEach r.1 bs
    (r'.1, r.2 :: r'.2)

/-- … which is `decodeAll` (Decoder.lean, the run C02, C05, C06, C17, C18 are stated on) with the packets not yet concatenated -/
theorem decodeEach_all (bufs : List (Option Bytes)) (s : DecState) :
    (decodeEach s bufs).1 = (decodeAll tecmpDecode s bufs).1 ∧
    (decodeEach s bufs).2.flatten = (decodeAll tecmpDecode s bufs).2 := by
  induction bufs generalizing s with
  | nil => exact ⟨rfl, rfl⟩
  | cons b bs ih =>
    obtain ⟨i1, i2⟩ := ih (decode s b).1
    have hd : decodeWith tecmpDecode s b = decode s b := rfl
    simp only [decodeEach, decodeAll, hd, List.flatten_cons]
    exact ⟨i1, by rw [i2]⟩

theorem decodeEach_length (bufs : List (Option Bytes)) (s : DecState) : (decodeEach s bufs).2.length = bufs.length := by
  induction bufs generalizing s with
  | nil => rfl
  | cons b bs ih => simp only [decodeEach, List.length_cons, ih]

/-- one call of the run, all three kinds -/
theorem decode_call_src (B : Nat) (t : Table) (c : Call) (fuel : Nat)
    (hI : TableInv B t) (hB : B + 65536 < 2 ^ 64) (hc : c.Ok fuel) :
    ∃ t' outs, srcDecodeCall fuel (tblSt t) c = some (tblSt t', outs) ∧
      TableInv (B + c.bytes) t' ∧ t'.abs = (decode t.abs c.arg).1 ∧
      outs.map (Sum.elim toPacket SrcTec.tAbs) = (decode t.abs c.arg).2 := by
  cases c with
  | null m size =>
    obtain ⟨h1, h2, h3, h4⟩ := tableInv_preserved_null B t m size fuel hI
    exact ⟨t, [], h1, h2, h3, h4⟩
  | buf pre b post =>
    obtain ⟨hpre, hmem, hf⟩ := hc
    exact tableInv_preserved B t pre b post fuel hI hB hpre hmem hf

/-- a history from ANY table satisfying the invariant -/
theorem decode_history_from (fuel : Nat) : ∀ (calls : List Call) (B : Nat) (t : Table),
    TableInv B t → (∀ c ∈ calls, c.Ok fuel) → B + (calls.map Call.bytes).sum + 65536 < 2 ^ 64 →
    ∃ t', srcDecodeRun fuel (tblSt t) calls = some (tblSt t', (decodeEach t.abs (calls.map Call.arg)).2) ∧
      TableInv (B + (calls.map Call.bytes).sum) t' ∧ t'.abs = (decodeEach t.abs (calls.map Call.arg)).1 := by
  intro calls
  induction calls with
  | nil => intro B t hI _ _; exact ⟨t, rfl, hI, rfl⟩
  | cons c cs ih =>
    intro B t hI hok htot
    simp only [List.map_cons, List.sum_cons] at htot
    obtain ⟨t1, outs, h1, h2, h3, h4⟩ := decode_call_src B t c fuel hI (by omega) (hok c List.mem_cons_self)
    obtain ⟨t2, k1, k2, k3⟩ := ih (B + c.bytes) t1 h2 (fun c' hc' => hok c' (List.mem_cons_of_mem _ hc')) (by omega)
    refine ⟨t2, ?_, ?_, ?_⟩
    · simp only [srcDecodeRun, h1, k1, List.map_cons, decodeEach, h3, h4]
    · simp only [List.map_cons, List.sum_cons]
      rw [← Nat.add_assoc]; exact k2
    · simp only [List.map_cons, decodeEach]
      rw [k3, h3]

/-- **histories of decode calls, source level.**  For EVERY list of calls — null pointers, short buffers, TECMP messages, CMP
    frames, in any order —, each buffer of ANY length in its own memory `pre ++ b ++ post` (shorter than 2^63 bytes, `Call.Ok`)
    at a non-null address, the run of the translated `Decoder::decode` (with the translated
    `TECMP::Decoder::Decode`) from the freshly constructed decoder is DEFINED (never `none`: no read outside a buffer, no
    undefined behaviour in any call), returns call by call exactly the packets of the model's run from the model's initial state,
    and leaves the model's pending table (through `Table.abs`), which satisfies the invariant again.
    `htot`: fewer than 2^64 − 2^16 bytes handed to the decoder over the whole history (the decoder stores reassembly buffers in
    vectors whose `size()` is a 64-bit quantity; see `decode_history_src_count` for a bound on the number of calls instead). -/
theorem decode_history_src (calls : List Call) (fuel : Nat) (hok : ∀ c ∈ calls, c.Ok fuel)
    (htot : (calls.map Call.bytes).sum + 65536 < 2 ^ 64) :
    ∃ t', srcDecodeRun fuel Decoder_default calls = some (tblSt t', (decodeEach DecState.empty (calls.map Call.arg)).2) ∧
      C17b.TableOk t' ∧ TableReg t' ∧
      t'.abs = (decodeAll tecmpDecode DecState.empty (calls.map Call.arg)).1 ∧
      (decodeEach DecState.empty (calls.map Call.arg)).2.flatten = (decodeAll tecmpDecode DecState.empty (calls.map Call.arg)).2 ∧
      (decodeEach DecState.empty (calls.map Call.arg)).2.length = calls.length := by
  obtain ⟨t', h1, h2, h3⟩ := decode_history_from fuel calls 0 [] tableInv_fresh.1 hok (by omega)
  obtain ⟨e1, e2⟩ := decodeEach_all (calls.map Call.arg) DecState.empty
  refine ⟨t', h1, h2.1, tableInv_reg h2 (by omega), ?_, e2, ?_⟩
  · rw [h3, ← e1]; rfl
  · rw [decodeEach_length, List.length_map]

theorem bytes_sum_le (M : Nat) (calls : List Call) (hsz : ∀ c ∈ calls, c.bytes ≤ M) :
    (calls.map Call.bytes).sum ≤ calls.length * M := by
  induction calls with
  | nil => exact Nat.zero_le _
  | cons c cs ih =>
    have h1 := ih (fun c' hc' => hsz c' (List.mem_cons_of_mem _ hc'))
    have h2 : c.bytes ≤ M := hsz c List.mem_cons_self
    simp only [List.map_cons, List.sum_cons, List.length_cons]
    rw [Nat.add_mul]
    omega

/-- the same with the bound on the whole history stated on the NUMBER of calls and the size `M` of the largest buffer:
    `calls.length * M + 2^16 < 2^64`.  With `M = 2^31` this is "any history of fewer than 2^32 calls, each buffer at most 2 GiB"
    (`decode_history_src_count_2GiB`, the form this theorem had while `Call.Ok` itself bounded every buffer by 2^31) -/
theorem decode_history_src_count (calls : List Call) (fuel : Nat) (hok : ∀ c ∈ calls, c.Ok fuel)
    (M : Nat) (hsz : ∀ c ∈ calls, c.bytes ≤ M) (hn : calls.length * M + 65536 < 2 ^ 64) :
    ∃ t', srcDecodeRun fuel Decoder_default calls = some (tblSt t', (decodeEach DecState.empty (calls.map Call.arg)).2) ∧
      C17b.TableOk t' ∧ TableReg t' ∧
      t'.abs = (decodeAll tecmpDecode DecState.empty (calls.map Call.arg)).1 ∧
      (decodeEach DecState.empty (calls.map Call.arg)).2.flatten = (decodeAll tecmpDecode DecState.empty (calls.map Call.arg)).2 ∧
      (decodeEach DecState.empty (calls.map Call.arg)).2.length = calls.length := by
  apply decode_history_src calls fuel hok
  have h := bytes_sum_le M calls hsz
  omega

theorem decode_history_src_count_2GiB (calls : List Call) (fuel : Nat) (hok : ∀ c ∈ calls, c.Ok fuel)
    (hsz : ∀ c ∈ calls, c.bytes ≤ 2 ^ 31) (hn : calls.length < 2 ^ 32) :
    ∃ t', srcDecodeRun fuel Decoder_default calls = some (tblSt t', (decodeEach DecState.empty (calls.map Call.arg)).2) ∧
      C17b.TableOk t' ∧ TableReg t' ∧
      t'.abs = (decodeAll tecmpDecode DecState.empty (calls.map Call.arg)).1 ∧
      (decodeEach DecState.empty (calls.map Call.arg)).2.flatten = (decodeAll tecmpDecode DecState.empty (calls.map Call.arg)).2 ∧
      (decodeEach DecState.empty (calls.map Call.arg)).2.length = calls.length := by
  apply decode_history_src_count calls fuel hok (2 ^ 31) hsz
  have : calls.length * 2 ^ 31 ≤ (2 ^ 32 - 1) * 2 ^ 31 := Nat.mul_le_mul_right _ (by omega)
  omega

/-! ## 3. encoder: the single-packet overload against the structured model -/

open AsamCmp.SrcEnc

/-- companion of `encodeBatch_src_struct` for `encode(const Packet&, const DataContext&)`, translated as a whole
    (`Encoder_encode_obj`): for EVERY encoder object of the model, every packet with a payload shorter than 2^16 and every valid
    configuration below 4 GiB it is defined and returns exactly the serialised frames of the structured model's `Enc.encode [p]`,
    and leaves the counter, message type and ids the model leaves -/
theorem encode1_src_struct (e : Enc) (p : Packet) (c : Ctx) (fuel : Nat)
    (hc : c.ok = true) (hmax : c.max < 2 ^ 32) (hp : p.Enc) (hq : e.seqc < 65536) (hf : 65536 ≤ fuel) :
    ∃ s', Encoder_encode_obj fuel (ofLL e.toLL) (pktIn p) c.min c.max = some (s', (e.encode [p] c).2.map (EFrame.bytes c.min)) ∧
      s'.f_sequenceCounter = (e.encode [p] c).1.seqc ∧ s'.f_messageType = (e.encode [p] c).1.curMt ∧
      s'.f_deviceId = e.dev ∧ s'.f_streamId = e.stream ∧ s'.f_cmpFrames = [] ∧ s'.f_cmpFrameTemplate = [] := by
  have h := encode1_src_gen (ofLL e.toLL) p c fuel hc hmax hf
  rw [toLL_ofLL] at h
  obtain ⟨r1, r2, r3, r4, r5, r6, r7⟩ := C07b.encodeLL_refines e [p] c hc (fun q hq' => by
    rw [List.mem_singleton] at hq'; rw [hq']; exact hp) hq
  refine ⟨ofLL (e.toLL.encode [p] c).1, ?_, r2, r3, r4, r5, r6, r7⟩
  rw [h, r1]

/-! ## 4. encoder: the state correspondence and a history of operations -/

/-- the correspondence between the translated object and the structured model BETWEEN public calls.  Only the four members a
    public call reads before it writes them are related; `f_minBytesPerMessage`, `f_maxBytesPerMessage`, `f_bytesLeft`,
    `f_cmpFrameTemplate`, `f_cmpFrames` are SCRATCH: every encode call overwrites them in `init` before reading them
    (`encodeBatch_src_gen` holds from any values of them), so they may be anything.  `e.Idle`: the model has no frame under
    construction and its counter is a `uint16_t`. -/
def Corr (s : Encoder_St) (e : Enc) : Prop :=
  s.f_deviceId = e.dev ∧ s.f_streamId = e.stream ∧ s.f_sequenceCounter = e.seqc ∧ s.f_messageType = e.curMt ∧ e.Idle

/-- the default-constructed object (`Encoder_default`: the C++ default member initialisers) corresponds to the fresh model -/
theorem corr_fresh : Corr Encoder_default (Enc.fresh 0 0) :=
  ⟨rfl, rfl, rfl, rfl, rfl, rfl, rfl, by decide⟩

/-- the low-level model's `encode` reads only the four related members -/
theorem encodeLL_scratch {s : Encoder_St} {e : Enc} (h : Corr s e) (batch : List Packet) (c : Ctx) :
    (toLL s).encode batch c = e.toLL.encode batch c := by
  obtain ⟨h1, h2, h3, h4, _⟩ := h
  have hi : (toLL s).init c = e.toLL.init c := by
    simp only [EncLL.init, toLL, Enc.toLL, h1, h2, h3, h4]
  unfold EncLL.encode
  rw [hi]

/-- the structured and low-level post-states of one encode call, from corresponding states -/
theorem corr_encodeLL {s : Encoder_St} {e : Enc} (h : Corr s e) (batch : List Packet) (c : Ctx)
    (hc : c.ok = true) (hb : ∀ p ∈ batch, p.Enc) :
    ((toLL s).encode batch c).2 = (e.encode batch c).2.map (EFrame.bytes c.min) ∧
    Corr (ofLL ((toLL s).encode batch c).1) (e.encode batch c).1 := by
  have hidle := h.2.2.2.2
  rw [encodeLL_scratch h]
  obtain ⟨r1, r2, r3, r4, r5, _, _⟩ := C07b.encodeLL_refines e batch c hc hb hidle.2.2.2
  obtain ⟨k1, k2, k3, _⟩ := C09_encode e batch c hidle
  exact ⟨r1, r4.trans k2.symm, r5.trans k3.symm, r2, r3, k1⟩

/-- the operations of a history: the three configuration calls, the iterator-range `encode` on a batch, the single-packet
    `encode` -/
inductive Op
  | setDeviceId (d : Nat)
  | setStreamId (x : Nat)
  | restart
  | encodeBatch (batch : List Packet) (c : Ctx)
  | encode1 (p : Packet) (c : Ctx)

/-- the operation of the model's histories (EncHist.lean, C09, C10) it stands for -/
def Op.toModel : Op → EncOp
  | .setDeviceId d => .setDev d
  | .setStreamId x => .setStream x
  | .restart => .restart
  | .encodeBatch b c => .encode b c
  | .encode1 p c => .encode [p] c

/-- `minBytesPerMessage` of the call (frames are zero-padded to it when serialised); irrelevant for the calls returning nothing -/
def Op.min : Op → Nat
  | .encodeBatch _ c => c.min
  | .encode1 _ c => c.min
  | _ => 0

/-- the hypotheses on one call: the arguments of the setters within their C parameter types (`uint16_t`, `uint8_t`: the model
    reduces them, the translated body stores its parameter as it is); for the encode calls EXACTLY the hypotheses of
    `encodeBatch_src_gen` / `encodeBatch_src_struct`: `c.ok` (25 ≤ max ∧ min ≤ max), max < 2^32, every packet `Packet.Enc`
    (has a payload, shorter than 2^16 bytes) -/
def Op.Ok : Op → Prop
  | .setDeviceId d => d < 65536
  | .setStreamId x => x < 256
  | .restart => True
  | .encodeBatch b c => c.ok = true ∧ c.max < 2 ^ 32 ∧ ∀ p ∈ b, p.Enc
  | .encode1 p c => c.ok = true ∧ c.max < 2 ^ 32 ∧ p.Enc

/-- the TRANSLATED public method for one operation: new member state and the frames returned (none for the setters).  The batch
    goes through the translated iterator-range member template (`Encoder_encode_range_obj`; the `shared_ptr` range overload
    `Encoder_encode_ptrRange_obj` is the same function, `SrcEnc.encode_range_eq`) -/
def srcCall (fuel : Nat) (s : Encoder_St) : Op → Option (Encoder_St × List Bytes)
  | .setDeviceId d => (Encoder_setDeviceId_obj s d).map fun r => (r.1, [])
  | .setStreamId x => (Encoder_setStreamId_obj s x).map fun r => (r.1, [])
  | .restart => (Encoder_restart_obj s).map fun r => (r.1, [])
  | .encodeBatch b c => Encoder_encode_range_obj fuel s (b.map pktIn) c.min c.max
  | .encode1 p c => Encoder_encode_obj fuel s (pktIn p) c.min c.max

/-- what a caller can observe after one call: the frames it returned and the three getters -/
structure Obs where
  frames : List Bytes
  seq : Nat
  dev : Nat
  stream : Nat
deriving DecidableEq, Repr

/-- the translated `getSequenceCounter()`, `getDeviceId()`, `getStreamId()`, called one after the other -/
def srcGetters (s : Encoder_St) : Option (Encoder_St × Nat × Nat × Nat) :=
  match Encoder_getSequenceCounter_obj s with
  | none => none
  | some (s1, q) =>
    match Encoder_getDeviceId_obj s1 with
    | none => none
    | some (s2, d) =>
      match Encoder_getStreamId_obj s2 with
      | none => none
      | some (s3, x) => some (s3, q, d, x)

/-- the run of the translated methods over a list of operations on ONE encoder object, the three getters called after every
    operation: `none` as soon as one call is undefined -/
def srcEncRun (fuel : Nat) (s : Encoder_St) : List Op → Option (Encoder_St × List Obs)
  | [] => some (s, [])
  | op :: ops =>
    match srcCall fuel s op with
    | none => none
    | some (s1, frames) =>
      match srcGetters s1 with
      | none => none
      | some (s2, q, d, x) =>
        match srcEncRun fuel s2 ops with
        | none => none
        | some (s3, rest) => some (s3, ⟨frames, q, d, x⟩ :: rest)

/-- the same observations on the structured model: `Enc.apply` (EncHist.lean), frames serialised by `EFrame.bytes` -/
def modelRun (e : Enc) : List Op → Enc × List Obs
  | [] => (e, [])
  | op :: ops =>
    let r := e.apply op.toModel
    let r' := modelRun r.1 ops
    (r'.1, ⟨r.2.map (EFrame.bytes op.min), r.1.seqc, r.1.dev, r.1.stream⟩ :: r'.2)

/-- … which is the history `Enc.runOps` of C09 / C10: same final encoder, and the frames of the i-th call are the serialisation
    of the i-th frame list of `runOps` -/
theorem modelRun_runOps (ops : List Op) (e : Enc) :
    (modelRun e ops).1 = (e.runOps (ops.map Op.toModel)).1 ∧
    (modelRun e ops).2.map (·.frames) =
      List.zipWith (fun op fs => fs.map (EFrame.bytes op.min)) ops (e.runOps (ops.map Op.toModel)).2 := by
  induction ops generalizing e with
  | nil => exact ⟨rfl, rfl⟩
  | cons op ops ih =>
    obtain ⟨i1, i2⟩ := ih (e.apply op.toModel).1
    simp only [modelRun, List.map_cons, Enc.runOps, List.zipWith_cons_cons]
    exact ⟨i1, by rw [i2]⟩

theorem srcGetters_eq (s : Encoder_St) :
    srcGetters s = some (s, s.f_sequenceCounter, s.f_deviceId, s.f_streamId) := rfl

/-- ONE operation from corresponding states: the translated method is defined, returns the model's frames serialised, and
    leaves a corresponding state -/
theorem corr_step {s : Encoder_St} {e : Enc} (h : Corr s e) (op : Op) (fuel : Nat) (hf : 65536 ≤ fuel) (hop : op.Ok) :
    ∃ s', srcCall fuel s op = some (s', (e.apply op.toModel).2.map (EFrame.bytes op.min)) ∧
      Corr s' (e.apply op.toModel).1 := by
  have hidle := h.2.2.2.2
  cases op with
  | setDeviceId d =>
    obtain ⟨k1, k2, k3, k4, -⟩ := C09_config e hidle d
    refine ⟨_, by simp only [srcCall, (config_src s d 0).1, Option.map_some]; rfl, ?_⟩
    refine ⟨?_, ?_, k2.symm, h.2.2.2.1, k1⟩
    · show d = (e.setDevice d).dev
      rw [k3]; exact (Nat.mod_eq_of_lt hop).symm
    · show s.f_streamId = (e.setDevice d).stream
      rw [k4]; exact h.2.1
  | setStreamId x =>
    obtain ⟨-, -, -, -, k1, k2, k3, k4, -⟩ := C09_config e hidle x
    refine ⟨_, by simp only [srcCall, (config_src s 0 x).2.1, Option.map_some]; rfl, ?_⟩
    refine ⟨?_, ?_, k2.symm, h.2.2.2.1, k1⟩
    · show s.f_deviceId = (e.setStream x).dev
      rw [k4]; exact h.1
    · show x = (e.setStream x).stream
      rw [k3]; exact (Nat.mod_eq_of_lt hop).symm
  | restart =>
    obtain ⟨-, -, -, -, -, -, -, -, k1, k2, k3, k4⟩ := C09_config e hidle 0
    refine ⟨_, by simp only [srcCall, (config_src s 0 0).2.2.1, Option.map_some]; rfl, ?_⟩
    exact ⟨h.1.trans k3.symm, h.2.1.trans k4.symm, k2.symm, h.2.2.2.1, k1⟩
  | encodeBatch b c =>
    obtain ⟨hc, hmax, hb⟩ := hop
    obtain ⟨r1, r2⟩ := corr_encodeLL h b c hc hb
    refine ⟨_, ?_, r2⟩
    show Encoder_encode_range_obj fuel s (b.map pktIn) c.min c.max = _
    rw [(encodeRange_src s b c fuel hc hmax hf).1, r1]
    rfl
  | encode1 p c =>
    obtain ⟨hc, hmax, hp⟩ := hop
    obtain ⟨r1, r2⟩ := corr_encodeLL h [p] c hc (fun q hq => by rw [List.mem_singleton] at hq; rw [hq]; exact hp)
    refine ⟨_, ?_, r2⟩
    show Encoder_encode_obj fuel s (pktIn p) c.min c.max = _
    rw [encode1_src_gen s p c fuel hc hmax hf, r1]
    rfl

/-- a history from ANY pair of corresponding states -/
theorem encode_history_from (fuel : Nat) (hf : 65536 ≤ fuel) : ∀ (ops : List Op) (s : Encoder_St) (e : Enc),
    Corr s e → (∀ op ∈ ops, op.Ok) →
    ∃ s', srcEncRun fuel s ops = some (s', (modelRun e ops).2) ∧ Corr s' (modelRun e ops).1 := by
  intro ops
  induction ops with
  | nil => intro s e h _; exact ⟨s, rfl, h⟩
  | cons op ops ih =>
    intro s e h hok
    obtain ⟨s1, h1, h2⟩ := corr_step h op fuel hf (hok op List.mem_cons_self)
    obtain ⟨s2, k1, k2⟩ := ih s1 _ h2 (fun op' hop' => hok op' (List.mem_cons_of_mem _ hop'))
    refine ⟨s2, ?_, k2⟩
    simp only [srcEncRun, h1, srcGetters_eq, k1, modelRun, h2.1, h2.2.1, h2.2.2.1]

/-- **histories of encoder calls, source level.**  For EVERY list of operations setDeviceId / setStreamId / restart /
    encode(batch) / encode(packet) whose encode calls satisfy the hypotheses of `encodeBatch_src_gen` /
    `encodeBatch_src_struct` (`Op.Ok`), the run of the TRANSLATED methods from the default-constructed encoder is DEFINED
    (no undefined behaviour in any call) and every call returns exactly the serialised frames of the structured model's history
    from `Enc.fresh 0 0` (`Enc.apply` / `Enc.runOps`, the histories of C09 and C10), and the translated `getSequenceCounter()`,
    `getDeviceId()`, `getStreamId()` after every operation return the model's counter and ids; the final states correspond -/
theorem encode_history_src (ops : List Op) (fuel : Nat) (hf : 65536 ≤ fuel) (hok : ∀ op ∈ ops, op.Ok) :
    ∃ s', srcEncRun fuel Encoder_default ops = some (s', (modelRun (Enc.fresh 0 0) ops).2) ∧
      Corr s' (modelRun (Enc.fresh 0 0) ops).1 ∧
      (modelRun (Enc.fresh 0 0) ops).1 = ((Enc.fresh 0 0).runOps (ops.map Op.toModel)).1 ∧
      (modelRun (Enc.fresh 0 0) ops).2.map (·.frames) =
        List.zipWith (fun op fs => fs.map (EFrame.bytes op.min)) ops ((Enc.fresh 0 0).runOps (ops.map Op.toModel)).2 := by
  obtain ⟨s', h1, h2⟩ := encode_history_from fuel hf ops Encoder_default (Enc.fresh 0 0) corr_fresh hok
  obtain ⟨m1, m2⟩ := modelRun_runOps ops (Enc.fresh 0 0)
  exact ⟨s', h1, h2, m1, m2⟩

/-! ## 5. non-vacuity: concrete histories, evaluated in the kernel on the TRANSLATED functions themselves -/

/-- a CMP data frame (version 1, device 0x0102, message type 1, stream 7, counter 5) holding the FIRST segment (flags 0x04) of
    an Ethernet message (payload type 8): timestamp 9, interface 3, 4 payload bytes -/
def exSeg1 : Bytes :=
  [1, 0, 1, 2, 1, 7, 0, 5,
   0, 0, 0, 0, 0, 0, 0, 9, 0, 0, 0, 3, 0x04, 8, 0, 4, 0, 0, 0, 0]

/-- the next frame of the same endpoint (counter 6) holding the LAST segment (flags 0x0C): 4 more payload bytes -/
def exSeg2 : Bytes :=
  [1, 0, 1, 2, 1, 7, 0, 6,
   0, 0, 0, 0, 0, 0, 0, 9, 0, 0, 0, 3, 0x0C, 8, 0, 4, 0, 2, 0xAA, 0xBB]

/-- the two calls, each buffer in a memory of its own at address 1 -/
def exCalls : List Call := [.buf [9] exSeg1 [], .buf [9] exSeg2 [5, 5]]

/-- the reassembled packet: a valid Ethernet payload of the 8 bytes, the header fields of the first segment -/
def exPkt : Packet :=
  { payload := some ⟨tyEth, [0, 0, 0, 0, 0, 2, 0xAA, 0xBB]⟩, version := 1, deviceId := 0x0102, streamId := 7, ts := 9, ifId := 3,
    flags := 4 }

/-- the TRANSLATED decoder run on the two-call history, evaluated by the kernel: defined, nothing after the first call, the one
    reassembled packet after the second, and the pending table empty again -/
example : (srcDecodeRun 64 Decoder_default exCalls).map (fun r => (r.1.f_segmentedPackets.length, r.2)) =
    some (0, [[], [exPkt]]) := by decide +kernel

/-- after the first call alone the table holds the one reassembly in progress -/
example : (srcDecodeRun 64 Decoder_default (exCalls.take 1)).map (fun r => (r.1.f_segmentedPackets.map (·.1), r.2)) =
    some ([(0x0102, 7)], [[]]) := by decide +kernel

theorem exCalls_ok : ∀ c ∈ exCalls, c.Ok 64 := by
  intro c hc
  simp only [exCalls, List.mem_cons, List.not_mem_nil, or_false] at hc
  rcases hc with rfl | rfl <;> exact ⟨by decide, by decide, by decide⟩

/-- the hypotheses of `decode_history_src` are satisfied by this history … -/
example : ∃ t', srcDecodeRun 64 Decoder_default exCalls =
      some (tblSt t', (decodeEach DecState.empty (exCalls.map Call.arg)).2) ∧ C17b.TableOk t' ∧ TableReg t' ∧
      t'.abs = (decodeAll tecmpDecode DecState.empty (exCalls.map Call.arg)).1 ∧
      (decodeEach DecState.empty (exCalls.map Call.arg)).2.flatten =
        (decodeAll tecmpDecode DecState.empty (exCalls.map Call.arg)).2 ∧
      (decodeEach DecState.empty (exCalls.map Call.arg)).2.length = exCalls.length :=
  decode_history_src exCalls 64 exCalls_ok (by decide)

/-- … and so the MODEL's run (`decode` recurses on a well-founded measure and does not evaluate in the kernel) delivers exactly
    this packet on it: theorem + kernel evaluation of the translation -/
example : (decodeAll tecmpDecode DecState.empty [some exSeg1, some exSeg2]).2 = [exPkt] := by
  obtain ⟨t', h1, _, _, _, h5, _⟩ := decode_history_src exCalls 64 exCalls_ok (by decide)
  have h2 : (srcDecodeRun 64 Decoder_default exCalls).map (·.2) = some [[], [exPkt]] := by decide +kernel
  rw [h1] at h2
  simp only [Option.map_some, Option.some.injEq] at h2
  rw [h2] at h5
  exact h5.symm

/-- one small CAN packet: 16 header bytes (id 0x123, data length 2, dlc 2) and two data bytes; timestamp 9, interface 3 -/
def exCan : Packet :=
  { payload := some ⟨tyCan, [0, 0, 0, 0, 0, 0, 1, 0x23, 0, 0, 0, 0, 0, 0, 2, 2, 0xAA, 0xBB]⟩, ts := 9, ifId := 3 }

def exCtx : Ctx := ⟨0, 64⟩

/-- setDeviceId(0x0102), then the single-packet `encode`, then the iterator-range `encode` on the same packet -/
def exOps : List Op := [.setDeviceId 0x0102, .encode1 exCan exCtx, .encodeBatch [exCan] exCtx]

def exFrame (q : UInt8) : Bytes :=
  [1, 0, 1, 2, 1, 0, 0, q,
   0, 0, 0, 0, 0, 0, 0, 9, 0, 0, 0, 3, 0, 1, 0, 18,
   0, 0, 0, 0, 0, 0, 1, 0x23, 0, 0, 0, 0, 0, 0, 2, 2, 0xAA, 0xBB]

/-- the TRANSLATED encoder methods run on this history, evaluated by the kernel: defined; no frame and counter 0 after the
    setter, then one frame each, carrying device 0x0102 and the counters 1 and 2, which `getSequenceCounter()` reports -/
example : (srcEncRun 65536 Encoder_default exOps).map (·.2) =
    some [⟨[], 0, 0x0102, 0⟩, ⟨[exFrame 1], 1, 0x0102, 0⟩, ⟨[exFrame 2], 2, 0x0102, 0⟩] := by decide +kernel

theorem exOps_ok : ∀ op ∈ exOps, op.Ok := by
  intro op hop
  simp only [exOps, List.mem_cons, List.not_mem_nil, or_false] at hop
  rcases hop with rfl | rfl | rfl
  · show (0x0102 : Nat) < 65536
    decide
  · exact ⟨by decide, by decide, by decide, by decide⟩
  · refine ⟨by decide, by decide, ?_⟩
    intro p hp
    rw [List.mem_singleton] at hp
    rw [hp]
    exact ⟨by decide, by decide⟩

/-- the hypotheses of `encode_history_src` are satisfied by this history, and the structured MODEL's history gives the same
    literal frames and counters -/
example : ∃ s', srcEncRun 65536 Encoder_default exOps = some (s', (modelRun (Enc.fresh 0 0) exOps).2) ∧
    Corr s' (modelRun (Enc.fresh 0 0) exOps).1 :=
  let ⟨s', h1, h2, _⟩ := encode_history_src exOps 65536 (by decide) exOps_ok
  ⟨s', h1, h2⟩

example : (modelRun (Enc.fresh 0 0) exOps).2 =
    [⟨[], 0, 0x0102, 0⟩, ⟨[exFrame 1], 1, 0x0102, 0⟩, ⟨[exFrame 2], 2, 0x0102, 0⟩] := by decide +kernel

/-- `encode1_src_struct` on the fresh model encoder and the CAN packet -/
example : ∃ s', Encoder_encode_obj 65536 (ofLL (Enc.fresh 0 0).toLL) (pktIn exCan) exCtx.min exCtx.max =
      some (s', ((Enc.fresh 0 0).encode [exCan] exCtx).2.map (EFrame.bytes exCtx.min)) ∧ s'.f_sequenceCounter = 1 := by
  obtain ⟨s', h1, h2, _⟩ := encode1_src_struct (Enc.fresh 0 0) exCan exCtx 65536 (by decide) (by decide)
    ⟨by decide, by decide⟩ (by decide) (by decide)
  refine ⟨s', h1, ?_⟩
  rw [h2]
  decide +kernel

end AsamCmp.SrcHist
