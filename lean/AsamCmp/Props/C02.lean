/-
  C02  Decoding arbitrary bytes is memory-safe and terminates.

  For every byte string of every length, presented after any history of earlier decode calls,
  decoding returns normally without reading outside the supplied buffer, and returns at most one
  packet per 12 input bytes.  Every returned packet carries a payload object.

  Termination is Lean's termination checker on `walk`/`walkM` (each step consumes ≥ 16 bytes) and the
  structural recursion of the TECMP entry loop.  Ownership of the returned data after the buffer /
  decoder is released is a runtime fact the immutable model cannot state (partial; observed with ASan).
-/
import AsamCmp.DecodeM
import AsamCmp.Props.C17
import AsamCmp.Lemmas.DecodeM
namespace AsamCmp.C02
open AsamCmp

/-- C02 memory safety: the checked-read decoder never reads outside the buffer (it never returns
    `none`), for EVERY decoder state and EVERY buffer, and computes what the plain model computes -/
theorem decode_inbounds (s : DecState) (buf : Option Bytes) : decodeM s buf = some (decode s buf) := by
  exact decodeM_eq s buf

/-- the reassembled message is read back with the rewritten 16-bit length, which never exceeds the
    bytes accumulated — also when more than 65535 bytes were accumulated and the length wraps -/
theorem reassembled_length_inbounds (x : Bytes) (h : 16 ≤ x.length) :
    (fixLen x).length = x.length ∧ 16 + beAt (fixLen x) 14 2 ≤ x.length := by
  exact fixLen_read x h

/-- the message walk is bounded: one packet per 16 bytes behind the frame header -/
theorem walk_count (ep : Ep) (ver mt : Nat) (r : Bytes) :
    16 * (walk ep ver mt r).1.length + (match (walk ep ver mt r).2 with | .seg _ => 16 | _ => 0) ≤ r.length := by
  exact walk_count' ep ver mt r

/-- at most one packet per 12 input bytes, for every state and buffer (CMP and TECMP) -/
theorem decode_count (s : DecState) (b : Bytes) : 12 * (decode s (some b)).2.length ≤ b.length := by
  exact decode_count' s b

/-- every returned packet carries a payload object -/
theorem decode_payload_present (s : DecState) (buf : Option Bytes) :
    ∀ p ∈ (decode s buf).2, p.payload.isSome = true := by
  exact decode_payload' s buf

/-- over any history: the invariant that stored reassemblies hold at least a header is preserved,
    so the statements above apply after any sequence of earlier calls -/
theorem decode_state_ok (s : DecState) (buf : Option Bytes) (h : ∀ e, PendingOk (s e)) :
    ∀ e, PendingOk ((decode s buf).1 e) := by
  exact decode_state' s buf h

/-- null pointer and undersized buffers return nothing -/
theorem decode_null (s : DecState) : decode s none = (s, []) := by
  rfl
theorem decode_short (s : DecState) (b : Bytes) (h : b.length < 8) : decode s (some b) = (s, []) := by
  simp [decode, decodeWith, h]

end AsamCmp.C02
