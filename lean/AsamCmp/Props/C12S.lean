/-
  C12S — closures of the review of property C12 (wire layout), /tmp/audit/out_C12.md.

  Only ADDITIONAL theorems about existing definitions.  New definitions in this file are tables of
  names / ranges that the theorems quantify over (`reserved`, `untabled`, `memberMap`, …); each of
  them is pinned by a kernel-checked exactness theorem (`tiling_ok`, `gap_overlaps_exact`,
  `members_accounted`) so that it cannot silently drift from the protocol table `Layout.all`.

  Sections
    §0  helper lemmas
    §1  reserved ranges: what they are (exact tiling of every header), clause (D) at table level
    §2  clause (D) at SOURCE level: every translated setter keeps every reserved range
    §3  clause (C): default-constructed objects — table level and translated constructors;
        NEGATIVE: the TECMP header's data-type default / validity test are in host byte order
    §4  clauses (A)/(B) for sub-word fields: exact bit positions, iff characterisation of reading
    §5  coverage: `notCovered = []`, both polarities of every flag setter, reverse coverage of the
        data members of the header classes
    §6  NEGATIVE: `TECMP::CanPayload::getCrc` reads its 3-byte wire field in host byte order;
        the TECMP device id is read modulo 256; the `reservedMask` constant
    §7  the little-endian-host assumption, explicit
-/
import AsamCmp.Props.C11
import AsamCmp.Props.SrcFieldsA
import AsamCmp.Props.SrcFieldsB
import AsamCmp.Props.SrcFieldsC
import AsamCmp.Props.SrcFieldsD
import AsamCmp.Lemmas.BitProgField
import AsamCmp.Lemmas.SrcTecmpDecode
import AsamCmp.GeneratedSrcSig
set_option linter.unusedVariables false
namespace AsamCmp.C12S
open AsamCmp AsamCmp.C11

/-! ## §0 helpers -/

theorem beDec_replicate_zero (n : Nat) : beDec (List.replicate n (0 : UInt8)) = 0 := by
  induction n with
  | zero => rfl
  | succ n ih =>
    rw [List.replicate_succ', beDec_append_singleton, ih]
    rfl

theorem beAt_zeros (n off w : Nat) : beAt (zeros n) off w = 0 := by
  unfold beAt slice zeros
  rw [List.drop_replicate, List.take_replicate]
  exact beDec_replicate_zero _

/-- every bit range of an all-zero byte string reads 0 -/
theorem getField_zeros (f : Field) (n : Nat) : getField f (zeros n) = 0 := by
  unfold getField
  rw [beAt_zeros]
  simp

/-- a range `[t, t+m)` inside the replaced range `[s, s+k)` reads the corresponding bits of the new value -/
theorem ext_upd_inside {s k v t m : Nat} (W : Nat) (hv : v < 2 ^ k) (h1 : s ≤ t) (h2 : t + m ≤ s + k) :
    ext t m (upd s k v W) = ext (t - s) m v := by
  apply Nat.eq_of_testBit_eq
  intro i
  rw [testBit_ext, testBit_ext, testBit_upd W hv]
  by_cases h : i < m
  · rw [if_pos (by omega)]
    simp only [h, decide_true, Bool.true_and]
    congr 1
    omega
  · simp [h]

/-! ## §1 reserved ranges (review findings 3, 2(ii), and clause (D))

  `ClassLayout` has no notion of a reserved range.  They are written down here, per class, as bit
  ranges in the same `Field` format (so that `getField` reads them), each one with the word
  geometry of the table fields it shares bytes with.  Sources: ASAM CMP 1.0 header figures for the
  nine CMP classes; TECMP for the four TECMP payload classes and the TECMP header.

  `untabled`: bytes of the TECMP header that the PROTOCOL defines (high byte of the 16-bit device
  id at offset 0; the data flags at offset 26) but the table — copied from the library's struct —
  does not list.  They are not reserved; they are kept apart so that the tiling below is exact and
  the omission is visible (review finding 2c / 2d). -/

def reserved : List (String × List Field) := [
  ("cmphdr",   [⟨"reserved@1", 1, 1, 0, 8, ""⟩]),
  ("msghdr",   [⟨"commonFlags.bit7", 12, 1, 7, 1, ""⟩]),
  ("can",      [⟨"flags.bits14-15", 0, 2, 14, 2, ""⟩, ⟨"reserved@2", 2, 2, 0, 16, ""⟩,
                ⟨"crc.bits15-30", 8, 4, 15, 16, ""⟩]),
  ("canfd",    [⟨"flags.bits14-15", 0, 2, 14, 2, ""⟩, ⟨"reserved@2", 2, 2, 0, 16, ""⟩,
                ⟨"crc.bits25-29", 8, 4, 25, 5, ""⟩]),
  ("lin",      [⟨"flags.bits9-15", 0, 2, 9, 7, ""⟩, ⟨"reserved@2", 2, 2, 0, 16, ""⟩,
                ⟨"reserved@5", 5, 1, 0, 8, ""⟩]),
  ("eth",      [⟨"flags.bits8-15", 0, 2, 8, 8, ""⟩, ⟨"reserved@2", 2, 2, 0, 16, ""⟩]),
  ("analog",   [⟨"flags.bits2-15", 0, 2, 2, 14, ""⟩, ⟨"reserved@2", 2, 1, 0, 8, ""⟩]),
  ("cm",       [⟨"reserved@24", 24, 1, 0, 8, ""⟩]),
  ("if",       [⟨"reserved@30", 30, 2, 0, 16, ""⟩]),
  ("tecmphdr", [⟨"reserved@8", 8, 2, 0, 16, ""⟩]),
  ("tecmpcan", []),
  ("tecmplin", []),
  ("tecmpif",  [⟨"reserved@3", 3, 1, 0, 8, ""⟩]),
  ("tecmpcm",  [⟨"reserved@3", 3, 1, 0, 8, ""⟩, ⟨"reserved@12", 12, 1, 0, 8, ""⟩]),
  ("packet",   [⟨"commonFlags.bit7", 20, 1, 7, 1, ""⟩]),
  ("ptype",    [⟨"type.bits16-31", 0, 4, 16, 16, ""⟩])]

def untabled : List (String × List Field) := [
  ("tecmphdr", [⟨"deviceId.highByte@0 (library: IsTecmp)", 0, 1, 0, 8, ""⟩,
                ⟨"dataFlags@26", 26, 2, 0, 16, ""⟩])]

def lookupRanges (t : List (String × List Field)) (n : String) : List Field :=
  ((t.find? (·.1 == n)).map (·.2)).getD []

def reservedOf (c : ClassLayout) : List Field := lookupRanges reserved c.name
def untabledOf (c : ClassLayout) : List Field := lookupRanges untabled c.name
/-- everything in the header that is not a table field -/
def gapsOf (c : ClassLayout) : List Field := reservedOf c ++ untabledOf c

/-- `f` is a whole-word VIEW: it strictly contains another table field and is not a member of an
    alias group (`flags` over its flag bits, `commonFlags`, `ptype.type`) -/
def isView (c : ClassLayout) (f : Field) : Bool :=
  f.alias == "" && c.fields.any fun g =>
    f.lo ≤ g.lo && g.hi ≤ f.hi && !(f.lo == g.lo && f.hi == g.hi)

def covers (f : Field) (p : Nat) : Bool := f.lo ≤ p && p < f.hi

/-- the exactness check: every bit `p` of the header (bit 0 = most significant bit of byte 0) lies
    in a non-view table field or in a gap, never in both; the gaps fit into the header and are
    pairwise disjoint -/
def tilingOk (c : ClassLayout) : Bool :=
  (List.range (8 * c.size)).all (fun p =>
    ((c.fields.filter fun f => !isView c f).any (covers · p)) != ((gapsOf c).any (covers · p))) &&
  (gapsOf c).all (fun r => r.fits c.size) &&
  (gapsOf c).all (fun r => (gapsOf c).all fun r' => r.name == r'.name || r.disjoint r')

/-- every class of the table has an entry in `reserved` (possibly `[]`) -/
theorem reserved_names : reserved.map (·.1) = Layout.all.map (·.name) := by decide

/-- FINDING 2(ii) / 3: table fields + reserved ranges (+ the two un-tabled TECMP header fields) tile
    `[0, size)` of every one of the 16 classes EXACTLY, bit by bit.  A field forgotten in the table,
    or a reserved range accidentally declared a field, makes this false. -/
theorem tiling_ok : Layout.all.all tilingOk = true := by decide +kernel

/-- the same per bit, as a statement: in a class of the table every header bit belongs to a
    non-view table field or to a gap, and not to both -/
theorem tiling (c : ClassLayout) (hc : c ∈ Layout.all) (p : Nat) (hp : p < 8 * c.size) :
    (∃ f ∈ c.fields, isView c f = false ∧ f.lo ≤ p ∧ p < f.hi) ↔ ¬ (∃ r ∈ gapsOf c, r.lo ≤ p ∧ p < r.hi) := by
  have h := List.all_eq_true.mp tiling_ok c hc
  unfold tilingOk at h
  simp only [Bool.and_eq_true] at h
  have hp' := List.all_eq_true.mp h.1.1 p (List.mem_range.mpr hp)
  have e1 : ((c.fields.filter fun f => !isView c f).any (covers · p)) = true ↔
      ∃ f ∈ c.fields, isView c f = false ∧ f.lo ≤ p ∧ p < f.hi := by
    simp only [List.any_eq_true, List.mem_filter, covers, Bool.and_eq_true, decide_eq_true_eq,
      Bool.not_eq_true']
    constructor
    · rintro ⟨f, ⟨hf, hv⟩, h1, h2⟩; exact ⟨f, hf, hv, h1, h2⟩
    · rintro ⟨f, hf, hv, h1, h2⟩; exact ⟨f, ⟨hf, hv⟩, h1, h2⟩
  have e2 : ((gapsOf c).any (covers · p)) = true ↔ ∃ r ∈ gapsOf c, r.lo ≤ p ∧ p < r.hi := by
    simp only [List.any_eq_true, covers, Bool.and_eq_true, decide_eq_true_eq]
  rw [← e1, ← e2]
  generalize ((c.fields.filter fun f => !isView c f).any (covers · p)) = x at hp'
  generalize ((gapsOf c).any (covers · p)) = y at hp'
  cases x <;> cases y <;> simp_all

/-- table fact: a table field and a gap of the same class use the same word or byte-disjoint words -/
theorem gaps_words_ok :
    Layout.all.all (fun c => c.fields.all fun f => (gapsOf c).all fun r =>
      (f.off == r.off && f.w == r.w) || decide (f.off + f.w ≤ r.off) || decide (r.off + r.w ≤ f.off)) = true := by
  decide +kernel

/-- FINDING 3, exactness of the exception: the ONLY (class, table field, gap) triples that overlap
    are the whole-word views over their own reserved bits. -/
theorem gap_overlaps_exact :
    (Layout.all.flatMap fun c => c.fields.flatMap fun f => (gapsOf c).filterMap fun r =>
      if f.disjoint r then none else some (c.name, f.name, r.name)) =
    [("msghdr", "commonFlags", "commonFlags.bit7"),
     ("can", "flags", "flags.bits14-15"),
     ("canfd", "flags", "flags.bits14-15"),
     ("lin", "flags", "flags.bits9-15"),
     ("eth", "flags", "flags.bits8-15"),
     ("analog", "flags", "flags.bits2-15"),
     ("packet", "commonFlags", "commonFlags.bit7"),
     ("ptype", "type", "type.bits16-31")] := by decide +kernel

theorem gap_fitsIn (c : ClassLayout) (hc : c ∈ Layout.all) (r : Field) (hr : r ∈ gapsOf c)
    (b : Bytes) (hb : c.size ≤ b.length) : FitsIn r b := by
  have h := List.all_eq_true.mp tiling_ok c hc
  unfold tilingOk at h
  simp only [Bool.and_eq_true] at h
  have := List.all_eq_true.mp h.1.2 r hr
  simp only [Field.fits, Bool.and_eq_true, decide_eq_true_eq] at this
  exact ⟨this.1.1, Nat.le_trans this.1.2 hb⟩

theorem field_fitsIn (c : ClassLayout) (hc : c ∈ Layout.all) (f : Field) (hf : f ∈ c.fields)
    (b : Bytes) (hb : c.size ≤ b.length) : FitsIn f b := by
  have hwf := List.all_eq_true.mp tables_wf c hc
  unfold ClassLayout.wf at hwf
  rw [Bool.and_eq_true] at hwf
  have := List.all_eq_true.mp hwf.1 f hf
  simp only [Field.fits, Bool.and_eq_true, decide_eq_true_eq] at this
  exact ⟨this.1.1, Nat.le_trans this.1.2 hb⟩

theorem gap_wordsOk (c : ClassLayout) (hc : c ∈ Layout.all) (f : Field) (hf : f ∈ c.fields)
    (r : Field) (hr : r ∈ gapsOf c) : WordsOk f r := by
  have h := List.all_eq_true.mp (List.all_eq_true.mp (List.all_eq_true.mp gaps_words_ok c hc) f hf) r hr
  simp only [Bool.or_eq_true, Bool.and_eq_true, beq_iff_eq, decide_eq_true_eq] at h
  unfold WordsOk
  omega

/-- CLAUSE (D), table level, all 16 classes ("bytes and bits the layout reserves … are never changed
    by in-range writes"): for every class, every table field `f`, every in-range value, every prior
    object state `b` (header + any data bytes) and every reserved / un-tabled range `r` that `f`
    does not contain: `r` reads the same before and after the write.
    Hypotheses: `c` a class of the table, `f` one of its fields, the object holds at least the
    header ("object's raw bytes"), `v` in range ("in-range writes"), `f` is not a whole-word view
    over `r` (exactly the eight pairs of `gap_overlaps_exact`; for those see `view_write_reserved`). -/
theorem reserved_unchanged (c : ClassLayout) (hc : c ∈ Layout.all) (f : Field) (hf : f ∈ c.fields)
    (r : Field) (hr : r ∈ gapsOf c) (hd : f.disjoint r = true)
    (b : Bytes) (hb : c.size ≤ b.length) (v : Nat) (hv : v < 2 ^ f.bits) :
    getField r (setField f v b) = getField r b :=
  get_set_other f r v b (field_fitsIn c hc f hf b hb) (gap_fitsIn c hc r hr b hb) hv hd
    (gap_wordsOk c hc f hf r hr)

/-- the same for whole reserved BYTES, as bytes: a reserved range that consists of whole bytes
    keeps every one of its bytes (not only its big-endian value) under every write to a table field
    of another word -/
theorem reserved_bytes_unchanged (c : ClassLayout) (hc : c ∈ Layout.all) (f : Field) (hf : f ∈ c.fields)
    (r : Field) (hr : r ∈ gapsOf c) (hw : f.off + f.w ≤ r.off ∨ r.off + r.w ≤ f.off)
    (b : Bytes) (hb : c.size ≤ b.length) (v : Nat) (i : Nat) (hi : r.off ≤ i ∧ i < r.off + r.w) :
    (setField f v b)[i]? = b[i]? :=
  set_frame f v b (field_fitsIn c hc f hf b hb) i (by omega)

/-- whole-word views (the eight exceptions): writing the view `F` puts the corresponding bits of the
    written value into every range `r` it contains — so the reserved bits are kept iff the caller
    passes them unchanged.  General statement for any two ranges of one word. -/
theorem view_write_reserved (F r : Field) (v : Nat) (b : Bytes) (hF : FitsIn F b) (hv : v < 2 ^ F.bits)
    (ho : F.off = r.off) (hw : F.w = r.w) (h1 : F.shift ≤ r.shift) (h2 : r.shift + r.bits ≤ F.shift + F.bits) :
    getField r (setField F v b) = v / 2 ^ (r.shift - F.shift) % 2 ^ r.bits := by
  rw [getField_eq, ← ho, ← hw, beAt_setField_same hF.1 hF.2 hv]
  exact ext_upd_inside _ hv h1 h2

/-- consequence: a flags word written with a value that has no reserved bit set leaves the reserved
    bits ZERO (CAN: `v < 2^14`, LIN: `v < 2^9`, Ethernet `v < 2^8`, analog `v < 2^2`, common flags `v < 2^7`) -/
theorem view_write_reserved_zero (F r : Field) (v : Nat) (b : Bytes) (hF : FitsIn F b) (hv : v < 2 ^ F.bits)
    (ho : F.off = r.off) (hw : F.w = r.w) (h1 : F.shift ≤ r.shift) (h2 : r.shift + r.bits ≤ F.shift + F.bits)
    (hsmall : v < 2 ^ (r.shift - F.shift)) : getField r (setField F v b) = 0 := by
  rw [view_write_reserved F r v b hF hv ho hw h1 h2, Nat.div_eq_of_lt hsmall]
  simp

/-- LITERAL VIOLATION of clause (D) (inherent to a whole-word accessor, reported as such): the
    in-range write `setFlags(0xC000)` on a default CAN header sets the two reserved flag bits. -/
theorem flags_write_changes_reserved :
    let F : Field := ⟨"flags", 0, 2, 0, 16, ""⟩
    let r : Field := ⟨"flags.bits14-15", 0, 2, 14, 2, ""⟩
    F ∈ Layout.c_can.fields ∧ r ∈ gapsOf Layout.c_can ∧ (0xC000 : Nat) < 2 ^ F.bits ∧
    getField r (zeros 16) = 0 ∧ getField r (setField F 0xC000 (zeros 16)) = 3 := by decide

/-- … and the translated library setter does exactly that (`CanPayloadBase::Header::setFlags`,
    GeneratedSrc.lean): bytes `C0 00` at offset 0 -/
theorem flags_write_changes_reserved_src :
    SrcGen.CanPayloadBase_Header_setFlags (zeros 16) 0 0xC000 = some (setField ⟨"flags", 0, 2, 0, 16, ""⟩ 0xC000 (zeros 16)) ∧
    setField ⟨"flags", 0, 2, 0, 16, ""⟩ 0xC000 (zeros 16) = [0xC0, 0] ++ zeros 14 := by decide

/-! examples (non-vacuity, literal values) -/

-- every reserved range of the CAN header survives writing the identifier on an all-ones header
example : ∀ r ∈ gapsOf Layout.c_can,
    getField r (setField ⟨"id", 4, 4, 0, 29, ""⟩ 0x123 (List.replicate 20 0xFF)) = getField r (List.replicate 20 0xFF) := by decide
-- … via the theorem (its hypotheses are satisfiable)
example : getField ⟨"crc.bits15-30", 8, 4, 15, 16, ""⟩ (setField ⟨"crc", 8, 4, 0, 15, ""⟩ 0x7FFF (zeros 16)) =
    getField ⟨"crc.bits15-30", 8, 4, 15, 16, ""⟩ (zeros 16) :=
  reserved_unchanged Layout.c_can (by simp [Layout.all]) _ (by decide) _ (by decide) (by decide) _ (by decide) _ (by decide)
example : getField ⟨"crc.bits15-30", 8, 4, 15, 16, ""⟩ (setField ⟨"crc", 8, 4, 0, 15, ""⟩ 0x7FFF (zeros 16)) = 0 := by decide
-- the gaps of the TECMP header, literally
example : (gapsOf Layout.c_tecmphdr).map (fun r => (r.off, r.w)) = [(8, 2), (0, 1), (26, 2)] := by decide
-- view write with clean value keeps reserved bits zero: LIN flags := 0x1FF on a header with reserved bits set
example : getField ⟨"flags.bits9-15", 0, 2, 9, 7, ""⟩ (setField ⟨"flags", 0, 2, 0, 16, ""⟩ 0x1FF (List.replicate 8 0xFF)) = 0 := by decide

/-! ## §2 clause (D) at SOURCE level (review finding 3: "nobody instantiates them for the reserved ranges")

  The chain `Acc.Holds` (translated setter = `setField`) + `reserved_unchanged`, composed once and
  for all: every translated accessor of every one of the 14 wire classes, run on EVERY memory, every
  object position and every in-range argument, is defined and leaves every reserved / un-tabled
  range of its object — and every byte outside the object's header — as it was. -/

section src
open AsamCmp.Src AsamCmp.Src.Bit AsamCmp.SrcGen AsamCmp.SrcFields

/-- the 14 wire classes with the entry lists translated from the current source -/
def allEntries : List (ClassLayout × List Entry) := [
  (Layout.c_cmphdr, entries_cmphdr), (Layout.c_msghdr, entries_msghdr), (Layout.c_can, entries_can),
  (Layout.c_canfd, entries_canfd), (Layout.c_lin, entries_lin), (Layout.c_eth, entries_eth),
  (Layout.c_analog, entries_analog), (Layout.c_cm, entries_cm), (Layout.c_if, entries_if),
  (Layout.c_tecmphdr, entries_tecmphdr), (Layout.c_tecmpcan, entries_tecmpcan),
  (Layout.c_tecmplin, entries_tecmplin), (Layout.c_tecmpif, entries_tecmpif), (Layout.c_tecmpcm, entries_tecmpcm)]

/-- exactly the 14 classes with a wire layout: the table minus the two invented records -/
theorem allEntries_classes :
    allEntries.map (·.1.name) = (Layout.all.map (·.name)).filter (fun n => n != "packet" && n != "ptype") := by decide

theorem allEntries_mem (p : ClassLayout × List Entry) (hp : p ∈ allEntries) : p.1 ∈ Layout.all := by
  simp only [allEntries, List.mem_cons, List.not_mem_nil, or_false] at hp
  rcases hp with rfl | rfl | rfl | rfl | rfl | rfl | rfl | rfl | rfl | rfl | rfl | rfl | rfl | rfl <;>
    simp [Layout.all]

theorem all_checks : ∀ p ∈ allEntries, classCheck p.1 p.2 = true := by
  intro p hp
  simp only [allEntries, List.mem_cons, List.not_mem_nil, or_false] at hp
  rcases hp with rfl | rfl | rfl | rfl | rfl | rfl | rfl | rfl | rfl | rfl | rfl | rfl | rfl | rfl
  · exact cmphdr_checks
  · exact msghdr_checks
  · exact can_checks
  · exact canfd_checks
  · exact lin_checks
  · exact eth_checks
  · exact analog_checks
  · exact cm_checks
  · exact if_checks
  · exact tecmphdr_checks
  · exact tecmpcan_checks
  · exact tecmplin_checks
  · exact tecmpif_checks
  · exact tecmpcm_checks

/-- the 14 registered `X_src` theorems as ONE statement -/
theorem all_src : ∀ p ∈ allEntries, ∀ e ∈ p.2, ∃ f, p.1.find e.field = some f ∧ e.acc.Holds p.1.size f :=
  fun p hp => classCheck_sound _ _ (all_checks p hp)

/-- the object at `this` agrees with the old one on the range `r`, nothing outside the object's
    `size` header bytes changed, the memory kept its length -/
def SameGap (size : Nat) (r : Field) (this : Nat) (M M' : Bytes) : Prop :=
  M'.length = M.length ∧ getField r (slice M' this size) = getField r (slice M this size) ∧
  ∀ i, i < this ∨ this + size ≤ i → M'[i]? = M[i]?

/-- what an accessor does to a range `r` of its object (quantified exactly as `Acc.Holds`) -/
def KeepsGap (size : Nat) (f r : Field) : Acc → Prop
  | .get p _ => ∀ (M : Bytes) (this : Nat), this + size ≤ M.length →
      ∃ st, Bit.run this [] ⟨M, []⟩ p.1 = some st ∧ st.m = M
  | .getNe0 p => ∀ (M : Bytes) (this : Nat), this + size ≤ M.length →
      ∃ st, Bit.run this [] ⟨M, []⟩ p.1 = some st ∧ st.m = M
  | .set p k sh => ∀ (M : Bytes) (this : Nat), this + size ≤ M.length → ∀ (args : List Nat) (v : Nat), v < 2 ^ f.bits →
      args.getD k 0 = v * 2 ^ sh → (∀ k', k' ≠ k → args.getD k' 0 = 0) →
      ∃ st, Bit.run this args ⟨M, []⟩ p.1 = some st ∧ SameGap size r this M st.m
  | .setConst p c => ∀ (M : Bytes) (this : Nat), this + size ≤ M.length →
      ∃ st, Bit.run this [] ⟨M, []⟩ p.1 = some st ∧ SameGap size r this M st.m

theorem sameGap_of_setField (c : ClassLayout) (hc : c ∈ Layout.all) (f : Field) (hf : f ∈ c.fields)
    (r : Field) (hr : r ∈ gapsOf c) (hd : f.disjoint r = true) (v : Nat) (hv : v < 2 ^ f.bits)
    (M : Bytes) (this : Nat) (hM : this + c.size ≤ M.length) :
    SameGap c.size r this M (writeAt M this (setField f v (slice M this c.size))) := by
  have hl : (slice M this c.size).length = c.size := slice_length hM
  have hl' : (setField f v (slice M this c.size)).length = c.size := by
    rw [setField_length f v _ (field_fitsIn c hc f hf _ (by omega)), hl]
  have hM' : this + (setField f v (slice M this c.size)).length ≤ M.length := by omega
  refine ⟨writeAt_length hM', ?_, ?_⟩
  · have := slice_writeAt_same hM'
    rw [hl'] at this
    rw [this]
    exact reserved_unchanged c hc f hf r hr hd _ (by omega) v hv
  · intro i hi
    exact getElem?_writeAt_out hM' (by omega)

theorem find_mem (c : ClassLayout) (n : String) (f : Field) (h : c.find n = some f) : f ∈ c.fields :=
  List.mem_of_find?_eq_some h

/-- CLAUSE (D), source level, end to end.  For each of the 14 wire classes, each entry `e` of its
    translated accessor list (all getters, setters and flag setters the API glue names), the table
    field `f` the entry accesses, and each reserved / un-tabled range `r` of the class that `f` is not
    a whole-word view of: on every memory, object position and in-range argument the translated
    C++ function is defined, and afterwards `r` reads what it read before, every byte outside the
    object's header is unchanged and the memory has its old length.
    Hypotheses: only `f.disjoint r` (false exactly for the six wire-class pairs of `gap_overlaps_exact`). -/
theorem src_accessors_keep_reserved (p : ClassLayout × List Entry) (hp : p ∈ allEntries)
    (e : Entry) (he : e ∈ p.2) (f : Field) (hfind : p.1.find e.field = some f)
    (r : Field) (hr : r ∈ gapsOf p.1) (hd : f.disjoint r = true) :
    KeepsGap p.1.size f r e.acc := by
  have hc := allEntries_mem p hp
  have hf := find_mem _ _ _ hfind
  have hchk := all_checks p hp
  unfold classCheck at hchk
  have hchk' := List.all_eq_true.mp hchk e he
  rw [hfind] at hchk'
  have hH := Acc.sound _ _ _ hchk'
  cases hacc : e.acc with
  | get q sh =>
    rw [hacc] at hH
    intro M this hM
    obtain ⟨st, h1, h2, _⟩ := hH M this hM
    exact ⟨st, h1, h2⟩
  | getNe0 q =>
    rw [hacc] at hH
    intro M this hM
    obtain ⟨st, h1, h2, _⟩ := hH M this hM
    exact ⟨st, h1, h2⟩
  | set q k sh =>
    rw [hacc] at hH
    intro M this hM args v hv hk ho
    obtain ⟨st, h1, h2⟩ := hH M this hM args v hv hk ho
    exact ⟨st, h1, h2 ▸ sameGap_of_setField p.1 hc f hf r hr hd v hv M this hM⟩
  | setConst q c =>
    rw [hacc] at hH hchk'
    simp only [Acc.check, Bool.and_eq_true, decide_eq_true_eq] at hchk'
    intro M this hM
    obtain ⟨st, h1, h2⟩ := hH M this hM
    exact ⟨st, h1, h2 ▸ sameGap_of_setField p.1 hc f hf r hr hd c hchk'.2 M this hM⟩

/-- non-vacuity: the statement has instances — e.g. the CAN class has a setter entry of the `crcErr`
    flag bit, `flags.bits14-15` is a reserved range of that class and disjoint from it -/
example : (∃ e ∈ entries_can, e.field = "crcErr" ∧ e.what = "set") ∧
    Layout.c_can.find "crcErr" = some ⟨"crcErr", 0, 2, 0, 1, ""⟩ ∧
    (⟨"flags.bits14-15", 0, 2, 14, 2, ""⟩ : Field) ∈ gapsOf Layout.c_can ∧
    (⟨"crcErr", 0, 2, 0, 1, ""⟩ : Field).disjoint ⟨"flags.bits14-15", 0, 2, 14, 2, ""⟩ = true := by
  refine ⟨?_, by decide, by decide, by decide⟩
  have h : (entries_can.any fun e => e.field == "crcErr" && e.what == "set") = true := by decide +kernel
  obtain ⟨e, he, h'⟩ := List.any_eq_true.mp h
  simp only [Bool.and_eq_true, beq_iff_eq] at h'
  exact ⟨e, he, h'.1, h'.2⟩

/-- number of (entry, reserved range) instances the theorem covers: all but the view pairs -/
example : (allEntries.map fun p => (p.1.name, (gapsOf p.1).length)) =
    [("cmphdr", 1), ("msghdr", 1), ("can", 3), ("canfd", 3), ("lin", 3), ("eth", 2), ("analog", 2), ("cm", 1),
     ("if", 1), ("tecmphdr", 3), ("tecmpcan", 0), ("tecmplin", 0), ("tecmpif", 1), ("tecmpcm", 2)] := by decide

end src

/-! ## §3 clause (C): default-constructed objects (review finding 1) -/

section defaults
open AsamCmp.Src AsamCmp.SrcGen

/-- the bytes of the table's `dflt` column -/
def dfltBytes (c : ClassLayout) : Bytes := (ofHexChars c.dflt.toList).getD []

/-- every `dflt` string is well-formed hex and at least as long as the header -/
theorem dflt_parses :
    Layout.all.all (fun c => (ofHexChars c.dflt.toList).isSome && decide (c.size ≤ (dfltBytes c).length)) = true := by
  decide +kernel

/-- the protocol's default of a field, as a VALUE of the big-endian field (not as bytes copied from
    the library): CMP version 1; TECMP message type 0xFF = invalid, TECMP data type 0x00FF = invalid
    (`enum class DataType : uint16_t { …, invalid = 0xFF }`); every other field 0 -/
def protoDefault (cls fld : String) : Nat :=
  if (cls == "cmphdr" || cls == "packet") && fld == "version" then 1
  else if cls == "tecmphdr" && fld == "messageType" then 0xFF
  else if cls == "tecmphdr" && fld == "dataType" then 0x00FF
  else 0

theorem defaults_gaps_zero_tbl :
    Layout.all.all (fun c => (gapsOf c).all fun r => getField r (dfltBytes c) == 0) = true := by decide +kernel

/-- all (class, field, value read from the default object, protocol default) with a mismatch -/
theorem defaults_fields_tbl :
    (Layout.all.flatMap fun c => c.fields.filterMap fun f =>
      if getField f (dfltBytes c) == protoDefault c.name f.name then none
      else some (c.name, f.name, getField f (dfltBytes c), protoDefault c.name f.name)) =
    [("tecmphdr", "dataType", 0xFF00, 0x00FF)] := by decide +kernel

/-- CLAUSE (C), table level, stated PER RANGE ("bytes and bits the layout reserves are zero in
    default-constructed objects"): in the default object of every class every reserved (and
    un-tabled) range reads 0. -/
theorem default_reserved_zero (c : ClassLayout) (hc : c ∈ Layout.all) (r : Field) (hr : r ∈ gapsOf c) :
    getField r (dfltBytes c) = 0 := by
  have h := List.all_eq_true.mp (List.all_eq_true.mp defaults_gaps_zero_tbl c hc) r hr
  exact beq_iff_eq.mp h

/-- … and every table field reads its protocol default — except ONE (next theorem) -/
theorem default_field_value (c : ClassLayout) (hc : c ∈ Layout.all) (f : Field) (hf : f ∈ c.fields)
    (hne : ¬ (c.name = "tecmphdr" ∧ f.name = "dataType")) :
    getField f (dfltBytes c) = protoDefault c.name f.name := by
  by_cases h : getField f (dfltBytes c) = protoDefault c.name f.name
  · exact h
  · exfalso
    have hm : (c.name, f.name, getField f (dfltBytes c), protoDefault c.name f.name) ∈
        (Layout.all.flatMap fun c => c.fields.filterMap fun f =>
          if getField f (dfltBytes c) == protoDefault c.name f.name then none
          else some (c.name, f.name, getField f (dfltBytes c), protoDefault c.name f.name)) := by
      rw [List.mem_flatMap]
      refine ⟨c, hc, ?_⟩
      rw [List.mem_filterMap]
      refine ⟨f, hf, ?_⟩
      rw [if_neg (by simpa using h)]
    rw [defaults_fields_tbl] at hm
    simp only [List.mem_cons, List.not_mem_nil, or_false, Prod.mk.injEq] at hm
    exact hne ⟨hm.1, hm.2.1⟩

/-- PROPERTY VIOLATION (host byte order), table level: the default TECMP header carries the bytes
    `FF 00` at offset 6, i.e. the big-endian data-type field reads 0xFF00, which is neither the
    protocol's "invalid" (0x00FF) nor any defined data type.  `C11.defaults_ok` / `GenChecks.rules_ok`
    ratify these bytes; stated as a VALUE the defect is visible. -/
theorem tecmphdr_default_dataType_host_order :
    getField ⟨"dataType", 6, 2, 0, 16, ""⟩ (dfltBytes Layout.c_tecmphdr) = 0xFF00 ∧
    protoDefault "tecmphdr" "dataType" = 0x00FF ∧
    slice (dfltBytes Layout.c_tecmphdr) 6 2 = [0xFF, 0x00] ∧ beEnc 2 0x00FF = [0x00, 0xFF] := by decide

/-! ### the `dflt` column against the translated constructors -/

/-- SOURCE LEVEL: the six default constructors the translator emits (`CanPayload()`, `CanFdPayload()`,
    `LinPayload()`, `CaptureModulePayload()`, `InterfacePayload()`, `TECMP::InterfacePayload()`;
    GeneratedSrcTecmp.lean, from the current source) build exactly the table's default bytes, with
    the class's payload type. (So far `dflt` was related to no constructor at all.) -/
theorem ctor_defaults_src :
    CanPayload_ctor_v_obj = some ⟨dfltBytes Layout.c_can, 257⟩ ∧
    CanFdPayload_ctor_v_obj = some ⟨dfltBytes Layout.c_canfd, 258⟩ ∧
    LinPayload_ctor_v_obj = some ⟨dfltBytes Layout.c_lin, 259⟩ ∧
    CaptureModulePayload_ctor_v_obj = some ⟨dfltBytes Layout.c_cm, 769⟩ ∧
    InterfacePayload_ctor_v_obj = some ⟨dfltBytes Layout.c_if, 770⟩ ∧
    TECMP_InterfacePayload_ctor_v_obj = some ⟨dfltBytes Layout.c_tecmpif, 512⟩ := by decide

/-- the shared base constructors `Payload(type, size)` / `TECMP::Payload(type, size)` that ALL
    default constructors of payload classes delegate to (`Payload(PayloadType::x, sizeof(Header))`)
    zero-fill, for every size: a `reserve` instead of a zero-filling `resize`, or a non-zero fill,
    breaks this.  PARTIAL for `EthernetPayload()`, `AnalogPayload()`, `TECMP::CanPayload()`,
    `TECMP::LinPayload()`, `TECMP::CaptureModulePayload()`: their one-line bodies are not emitted by
    the translator (not reachable from the translated paths), so "the derived constructor passes
    `sizeof(Header)`" is not a Lean statement for those five. -/
theorem base_ctor_zero_fills_partial (t n : Nat) :
    Payload_ctor_rec_u64_obj t n = some ⟨zeros n, t⟩ ∧ TECMP_Payload_ctor_rec_u64_obj t n = some ⟨zeros n, t⟩ :=
  ⟨rfl, rfl⟩

/-- hence in an object built by a zero-filling constructor EVERY bit range — every table field and
    every reserved range, of any class — reads 0 -/
theorem ctor_object_reads_zero (t n : Nat) (s : APayload_St) (h : Payload_ctor_rec_u64_obj t n = some s) (r : Field) :
    getField r s.f_payloadData = 0 := by
  have : s = ⟨zeros n, t⟩ := by
    have := (base_ctor_zero_fills_partial t n).1
    rw [this] at h
    exact (Option.some.inj h).symm
  rw [this]
  exact getField_zeros r n

/-- SOURCE LEVEL, TECMP header: the default-initialised `TECMP::CmpHeader` local of
    `TECMP::Decoder::GetHeader` (default member initialisers reflected from the compiled library;
    returned unchanged for a too-short buffer) is the table's default -/
theorem tecmphdr_default_src :
    TECMP_Decoder_GetHeader_obj [] 0 0 = some (dfltBytes Layout.c_tecmphdr, 0) ∧
    dfltBytes Layout.c_tecmphdr = SrcTec.hdrDefault := by decide

/-! ### NEGATIVE, source level: the TECMP data type's default and validity test are in HOST byte order -/

/-- PROPERTY VIOLATION, witness 1: `getDataType()` of a default-constructed `TECMP::CmpHeader` returns
    0xFF00 — not `DataType::invalid` (0x00FF) — although `isValid()` calls the header invalid. -/
theorem tecmp_default_getDataType :
    TECMP_CmpHeader_getDataType SrcTec.hdrDefault 0 = some 0xFF00 ∧
    TECMP_CmpHeader_getMessageType SrcTec.hdrDefault 0 = some 0xFF ∧
    TECMP_CmpHeader_isValid SrcTec.hdrDefault 0 = some false := by decide

theorem byteAt_writeAt {b : Bytes} {off : Nat} {x : Bytes} (h : off + x.length ≤ b.length) (i : Nat) :
    byteAt (writeAt b off x) i = if i < off then byteAt b i else if i < off + x.length then byteAt x (i - off) else byteAt b i := by
  unfold byteAt
  simp only [List.getD_eq_getElem?_getD, getElem?_writeAt h]
  split
  · rfl
  · split <;> rfl

/-- PROPERTY VIOLATION, witness 2, for EVERY header: `setDataType(DataType::invalid)` stores the
    big-endian bytes `00 FF` (correct), `getDataType()` then returns `invalid` — and `isValid()`, which
    compares the RAW little-endian member with 0xFF, accepts the header (it is valid iff the message
    type is not 0xFF).  Written through the API the "invalid" data type does not invalidate. -/
theorem tecmp_invalid_dataType_is_accepted (b : Bytes) (h : 28 ≤ b.length) :
    TECMP_CmpHeader_setDataType b 0 0xFF = some (writeAt b 6 [0x00, 0xFF]) ∧
    TECMP_CmpHeader_getDataType (writeAt b 6 [0x00, 0xFF]) 0 = some 0xFF ∧
    TECMP_CmpHeader_isValid (writeAt b 6 [0x00, 0xFF]) 0 = some (decide (byteAt b 5 ≠ 0xFF)) := by
  have hw : (6 : Nat) + ([0x00, 0xFF] : Bytes).length ≤ b.length := by simp; omega
  have hl : (writeAt b 6 [0x00, 0xFF]).length = b.length := writeAt_length hw
  have hs := SrcTie.tecmp_header_src (writeAt b 6 [0x00, 0xFF]) (by omega)
  have h5 : byteAt (writeAt b 6 [0x00, 0xFF]) 5 = byteAt b 5 := by rw [byteAt_writeAt hw]; rfl
  have h6 : byteAt (writeAt b 6 [0x00, 0xFF]) 6 = 0 := by rw [byteAt_writeAt hw]; rfl
  have h7 : byteAt (writeAt b 6 [0x00, 0xFF]) 7 = 0xFF := by rw [byteAt_writeAt hw]; rfl
  refine ⟨?_, ?_, ?_⟩
  · have hsw : swapEndian_u16 0xFF = some 0xFF00 := by decide
    have hwr : wr b (0 + 6) 2 0xFF00 = some (writeAt b 6 [0x00, 0xFF]) := by
      have : wr b (0 + 6) 2 0xFF00 = if 0 + 6 + 2 ≤ b.length then some (writeAt b (0 + 6) (leEnc 2 0xFF00)) else none := rfl
      rw [this, if_pos (by omega)]
      rfl
    simp only [TECMP_CmpHeader_setDataType, to_underlying_u162, hsw, hwr, bind, pure, Option.bind]
  · rw [hs.2.2.2.1, SrcTie.beAt_two _ 6 (by omega), h6, h7]
  · rw [hs.1, h5, h6]
    simp

/-- the concrete instance: a data header (message type 3) on which the application sets the data type
    to `invalid` passes `isValid()` -/
example : ∃ b1 b2, TECMP_CmpHeader_setMessageType SrcTec.hdrDefault 0 3 = some b1 ∧
    TECMP_CmpHeader_setDataType b1 0 0xFF = some b2 ∧
    TECMP_CmpHeader_getDataType b2 0 = some 0xFF ∧ TECMP_CmpHeader_isValid b2 0 = some true :=
  ⟨[0, 0, 0, 0, 0, 3, 255, 0] ++ zeros 20, [0, 0, 0, 0, 0, 3, 0, 255] ++ zeros 20, by decide, by decide, by decide, by decide⟩

/-! examples -/
example : dfltBytes Layout.c_cmphdr = [1, 0, 0, 0, 0, 0, 0, 0] := by decide
example : getField ⟨"reserved@8", 8, 2, 0, 16, ""⟩ (dfltBytes Layout.c_tecmphdr) = 0 :=
  default_reserved_zero _ (by simp [Layout.all]) _ (by decide)
example : getField ⟨"version", 0, 1, 0, 8, ""⟩ (dfltBytes Layout.c_cmphdr) = 1 :=
  default_field_value _ (by simp [Layout.all]) _ (by decide) (by decide)

end defaults

/-! ## §4 clauses (A) / (B) for SUB-WORD fields (review finding 5)

  `C11.set_is_be` speaks about full-width fields only and `C11.get_is_be` is `rfl`.  Direct
  statements for every field — the 40-odd sub-word ones included: where exactly, in which byte and
  at which bit, every bit of the value is, after a write and for a read. -/

/-- byte index and bit index (0 = least significant) of bit `k` of field `f`: the field is the bit
    range `[shift, shift + bits)` of the BIG-ENDIAN word of `w` bytes at `off` -/
def bytePos (f : Field) (k : Nat) : Nat := f.off + f.w - 1 - (f.shift + k) / 8
def bitPos (f : Field) (k : Nat) : Nat := (f.shift + k) % 8

/-- (A), word level, every field: the big-endian word after the write is the old word with the old
    field value taken out and the new one put in at `2^shift` (the reviewer's "direct form") -/
theorem set_word_exact (f : Field) (v : Nat) (b : Bytes) (hf : FitsIn f b) (hv : v < 2 ^ f.bits) :
    beAt (setField f v b) f.off f.w = beAt b f.off f.w - getField f b * 2 ^ f.shift + v * 2 ^ f.shift :=
  beAt_setField_same hf.1 hf.2 hv

/-- (A), word level, per bit -/
theorem set_word_bits (f : Field) (v : Nat) (b : Bytes) (hf : FitsIn f b) (hv : v < 2 ^ f.bits) (i : Nat) :
    (beAt (setField f v b) f.off f.w).testBit i =
      if f.shift ≤ i ∧ i < f.shift + f.bits then v.testBit (i - f.shift) else (beAt b f.off f.w).testBit i := by
  rw [beAt_setField_same hf.1 hf.2 hv]
  exact testBit_upd _ hv i

/-- (A), byte level, EVERY bit of EVERY byte of the object after an in-range write: inside the
    field it is the value's bit, everywhere else (other bits of the word, all other bytes) the old bit -/
theorem set_bytes_bits (f : Field) (v : Nat) (b : Bytes) (hf : FitsIn f b) (hv : v < 2 ^ f.bits)
    (i j : Nat) (hj : j < 8) :
    (byteAt (setField f v b) i).testBit j =
      if f.off ≤ i ∧ i < f.off + f.w then
        if f.shift ≤ (f.off + f.w - 1 - i) * 8 + j ∧ (f.off + f.w - 1 - i) * 8 + j < f.shift + f.bits then
          v.testBit ((f.off + f.w - 1 - i) * 8 + j - f.shift)
        else (byteAt b i).testBit j
      else (byteAt b i).testBit j :=
  Src.Bit.testBit_byteAt_setField b f v hf.1 hf.2 hv i j hj

/-- reading: bit `k` of the field value is bit `bitPos f k` of byte `bytePos f k` -/
theorem get_bit (f : Field) (b : Bytes) (hf : FitsIn f b) (k : Nat) (hk : k < f.bits) :
    (getField f b).testBit k = (byteAt b (bytePos f k)).testBit (bitPos f k) := by
  rw [getField_eq, testBit_ext, Src.Bit.testBit_beAt b f.off f.w (f.shift + k) hf.2 (by have := hf.1; omega)]
  simp only [hk, decide_true, Bool.true_and]
  rfl

/-- (B) as an EXACT characterisation ("raw bytes laid out that way are read back as the same
    values", and only those): a field reads `v` iff the bytes carry the bits of `v` at the
    prescribed positions -/
theorem get_eq_iff_bits (f : Field) (b : Bytes) (hf : FitsIn f b) (v : Nat) (hv : v < 2 ^ f.bits) :
    getField f b = v ↔ ∀ k, k < f.bits → (byteAt b (bytePos f k)).testBit (bitPos f k) = v.testBit k := by
  constructor
  · intro h k hk
    rw [← get_bit f b hf k hk, h]
  · intro h
    apply Nat.eq_of_testBit_eq
    intro k
    by_cases hk : k < f.bits
    · rw [get_bit f b hf k hk, h k hk]
    · have hg : getField f b < 2 ^ f.bits := ext_lt f.shift f.bits _
      rw [testBit_of_lt hg (by omega), testBit_of_lt hv (by omega)]

/-- (A): after an in-range write every bit of the value sits at its prescribed byte / bit position -/
theorem set_puts_bits (f : Field) (v : Nat) (b : Bytes) (hf : FitsIn f b) (hv : v < 2 ^ f.bits)
    (k : Nat) (hk : k < f.bits) :
    (byteAt (setField f v b) (bytePos f k)).testBit (bitPos f k) = v.testBit k := by
  have hf' : FitsIn f (setField f v b) := ⟨hf.1, by rw [setField_length f v b hf]; exact hf.2⟩
  exact (get_eq_iff_bits f _ hf' v hv).mp (get_set_same f v b hf hv) k hk

/-- (B): two objects that agree on the field's bit positions read the same value (nothing else in
    the object influences a read) -/
theorem get_depends_only_on_field_bits (f : Field) (b b' : Bytes) (hf : FitsIn f b) (hf' : FitsIn f b')
    (h : ∀ k, k < f.bits → (byteAt b (bytePos f k)).testBit (bitPos f k) = (byteAt b' (bytePos f k)).testBit (bitPos f k)) :
    getField f b = getField f b' :=
  (get_eq_iff_bits f b hf _ (ext_lt _ _ _)).mpr fun k hk => by
    rw [h k hk]; exact (get_bit f b' hf' k hk).symm

/-! examples: literal bytes for sub-word fields -/
-- CAN identifier 0x123 (29 bits @ word 4..7) + IDE (bit 31) + RTR (bit 30) on a zero header
example : setField ⟨"ide", 4, 4, 31, 1, ""⟩ 1 (setField ⟨"rtr", 4, 4, 30, 1, ""⟩ 1 (setField ⟨"id", 4, 4, 0, 29, ""⟩ 0x123 (zeros 16))) =
    [0, 0, 0, 0, 0xC0, 0x00, 0x01, 0x23] ++ zeros 8 := by decide
-- the IDE bit is bit 7 of byte 4; the LIN parity bits are bits 6..7 of byte 4; analog sampleDt bits 0..1 of byte 1
example : (bytePos ⟨"ide", 4, 4, 31, 1, ""⟩ 0, bitPos ⟨"ide", 4, 4, 31, 1, ""⟩ 0) = (4, 7) := by decide
example : (bytePos ⟨"parityBits", 4, 1, 6, 2, ""⟩ 1, bitPos ⟨"parityBits", 4, 1, 6, 2, ""⟩ 1) = (4, 7) := by decide
example : (bytePos ⟨"sampleDt", 0, 2, 0, 2, ""⟩ 1, bitPos ⟨"sampleDt", 0, 2, 0, 2, ""⟩ 1) = (1, 1) := by decide
-- hand-laid-out bytes read back (B): CAN-FD crc word `40 E1 23 45` = sbcSupport 1, sbc 7, crc 0x012345
example : getField ⟨"crc", 8, 4, 0, 21, ""⟩ (zeros 8 ++ [0x40, 0xE1, 0x23, 0x45] ++ zeros 4) = 0x012345 ∧
    getField ⟨"sbc", 8, 4, 21, 3, ""⟩ (zeros 8 ++ [0x40, 0xE1, 0x23, 0x45] ++ zeros 4) = 7 ∧
    getField ⟨"sbcSupport", 8, 4, 30, 1, ""⟩ (zeros 8 ++ [0x40, 0xE1, 0x23, 0x45] ++ zeros 4) = 1 ∧
    getField ⟨"sbcParity", 8, 4, 24, 1, ""⟩ (zeros 8 ++ [0x40, 0xE1, 0x23, 0x45] ++ zeros 4) = 0 := by decide
-- `set_word_exact` on an all-ones header: sbc := 2
example : beAt (setField ⟨"sbc", 8, 4, 21, 3, ""⟩ 2 (List.replicate 16 0xFF)) 8 4 = 0xFF5FFFFF := by decide

/-! ## §5 coverage (review findings 2(i), 2e, 4, 6) -/

section coverage
open AsamCmp.Src.Bit AsamCmp.SrcGen

/-- FINDING 2(i): "`notCovered` should be forced to `[]` by a theorem — today nothing refers to it" -/
theorem notCovered_empty : SrcGen.notCovered = [] := by decide

/-- FINDING 6: the two invented records have no accessor entries (they have no wire layout; the
    source-level theorems of §2 range over the other 14 classes, `allEntries_classes`) -/
theorem packet_ptype_no_entries : entries_packet = [] ∧ entries_ptype = [] := ⟨rfl, rfl⟩

/-! ### both polarities of every flag setter (finding 4, second part) -/

/-- the constants the field `n` is set to by constant-instantiated setters (`setFlag(mask, true/false)`) -/
def constSetters (es : List Entry) (n : String) : List Nat :=
  es.filterMap fun e => if e.field == n then (match e.acc with | .setConst _ c => some c | _ => none) else none

/-- a field that is written through constant-instantiated setters is both CLEARED (constant 0) and
    SET (all ones: 1 for a flag bit, 3 for the two segment bits) -/
def polarityOk (c : ClassLayout) (es : List Entry) : Bool :=
  c.fields.all fun f =>
    let cs := constSetters es f.name
    cs.isEmpty || (cs.contains 0 && cs.contains (2 ^ f.bits - 1))

/-- FINDING 4: `coverageOk` accepts a single `.setConst` entry; this does not — for every class,
    every field set through `setFlag`-style setters has the `true` AND the `false` instantiation
    (each of which satisfies `Acc.Holds` by `all_src`). -/
theorem flag_setters_both_polarities : allEntries.all (fun p => polarityOk p.1 p.2) = true := by decide +kernel

/-- the same as a statement about programs: both instantiations exist AND do what the table says -/
theorem flag_setters_both_polarities_hold (p : ClassLayout × List Entry) (hp : p ∈ allEntries)
    (f : Field) (hf : f ∈ p.1.fields) (hne : constSetters p.2 f.name ≠ []) :
    ∀ c, c = 0 ∨ c = 2 ^ f.bits - 1 →
      ∃ e ∈ p.2, e.field = f.name ∧ ∃ q, e.acc = .setConst q c ∧
        ∃ g, p.1.find e.field = some g ∧ (Acc.setConst q c).Holds p.1.size g := by
  intro c hc
  have h := List.all_eq_true.mp (List.all_eq_true.mp flag_setters_both_polarities p hp) f hf
  simp only [Bool.or_eq_true, Bool.and_eq_true, List.isEmpty_iff] at h
  have h' := h.resolve_left hne
  have hmem : c ∈ constSetters p.2 f.name := by
    rcases hc with rfl | rfl
    · exact List.contains_iff_mem.mp h'.1
    · exact List.contains_iff_mem.mp h'.2
  unfold constSetters at hmem
  rw [List.mem_filterMap] at hmem
  obtain ⟨e, he, hval⟩ := hmem
  split at hval
  · next hname =>
    split at hval
    · next q c' hacc =>
      have hcc : c' = c := Option.some.inj hval
      subst hcc
      obtain ⟨g, hg, hH⟩ := all_src p hp e he
      rw [hacc] at hH
      exact ⟨e, he, beq_iff_eq.mp hname, q, hacc, g, hg, hH⟩
    · exact absurd hval (by simp)
  · exact absurd hval (by simp)

/-- how many fields this is about -/
example : (allEntries.map fun p => (p.1.name, (p.1.fields.filter fun f => !(constSetters p.2 f.name).isEmpty).length)) =
    [("cmphdr", 0), ("msghdr", 6), ("can", 18), ("canfd", 20), ("lin", 9), ("eth", 8), ("analog", 0), ("cm", 0),
     ("if", 0), ("tecmphdr", 0), ("tecmpcan", 0), ("tecmplin", 0), ("tecmpif", 0), ("tecmpcm", 0)] := by decide +kernel

/-! ### reverse coverage against the signature dump of the CURRENT headers (finding 2(i))

  `SrcGen.apiSig` (GeneratedSrcSig.lean, regenerated from the clang AST on every run) lists, per
  class, every data member (`field x`) and every member function.  Two hand-written maps, pinned to
  it by kernel-checked equalities: a new data member or a new member function of a header class —
  `uint16_t getDataFlags() const`, `bool isOverflow() const`, a changed member width — breaks
  `members_accounted` / `header_functions_accounted` until it is classified. -/

def isFieldItem (n : String) : Bool := n.toList.take 6 == "field ".toList

def sigItems (cls : String) : List (String × String) := (apiSig.lookup cls).getD []

def widthOf (ty : String) : Nat :=
  if ty == "u8" then 1 else if ty == "u16" then 2 else if ty == "u32" then 4 else if ty == "u64" then 8 else 0

def classOf (n : String) : Option ClassLayout := Layout.all.find? (·.name == n)

def entriesOf (n : String) : List Entry := ((allEntries.find? (·.1.name == n)).map (·.2)).getD []

/-- C++ class (header structs and their nested structs), table class, and for every data member:
    declared type, kind (`F` table field, `G` reserved / un-tabled range of §1, `O` overlay of a
    union member), name of the table field / range whose WORD the member is -/
def memberMap : List (String × String × List (String × String × String × String)) := [
  ("ASAM::CMP::CmpHeader", "cmphdr", [("deviceId", "u16", "F", "deviceId"), ("messageType", "u8", "F", "messageType"), ("reserved", "u8", "G", "reserved@1"), ("sequenceCounter", "u16", "F", "sequenceCounter"), ("streamId", "u8", "F", "streamId"), ("version", "u8", "F", "version")]),
  ("ASAM::CMP::MessageHeader", "msghdr", [("commonFlags", "u8", "F", "commonFlags"), ("payloadLength", "u16", "F", "payloadLength"), ("payloadType", "u8", "F", "payloadType"), ("timestamp", "u64", "F", "timestamp")]),
  ("ASAM::CMP::MessageHeader::Vendor", "msghdr", [("reserved", "u16", "O", "interfaceId"), ("vendorId", "u16", "F", "vendorId")]),
  ("ASAM::CMP::CanPayloadBase::Header", "can", [("crc", "u32", "F", "crc"), ("dataLength", "u8", "F", "dataLength"), ("dlc", "u8", "F", "dlc"), ("errorPosition", "u16", "F", "errorPosition"), ("flags", "u16", "F", "flags"), ("id", "u32", "F", "id"), ("reserved", "u16", "G", "reserved@2")]),
  ("ASAM::CMP::LinPayload::Header", "lin", [("checksum", "u8", "F", "checksum"), ("dataLength", "u8", "F", "dataLength"), ("flags", "u16", "F", "flags"), ("pid", "u8", "F", "linId"), ("reserved1", "u16", "G", "reserved@2"), ("reserved2", "u8", "G", "reserved@5")]),
  ("ASAM::CMP::EthernetPayload::Header", "eth", [("dataLength", "u16", "F", "dataLength"), ("flags", "u16", "F", "flags"), ("reserved", "u16", "G", "reserved@2")]),
  ("ASAM::CMP::AnalogPayload::Header", "analog", [("flags", "u16", "F", "flags"), ("reserved", "u8", "G", "reserved@2"), ("unit", "u8", "F", "unit")]),
  ("ASAM::CMP::CaptureModulePayload::Header", "cm", [("currentUtcOffset", "u16", "F", "currentUtcOffset"), ("domainNumber", "u8", "F", "domainNumber"), ("gPtpFlags", "u8", "F", "gptpFlags"), ("gmClockQuality", "u32", "F", "gmClockQuality"), ("gmIdentity", "u64", "F", "gmIdentity"), ("reserved", "u8", "G", "reserved@24"), ("timeSource", "u8", "F", "timeSource"), ("uptime", "u64", "F", "uptime")]),
  ("ASAM::CMP::InterfacePayload::Header", "if", [("errorsTotalRx", "u32", "F", "errorsTotalRx"), ("errorsTotalTx", "u32", "F", "errorsTotalTx"), ("featureSupportBitmask", "u32", "F", "featureSupportBitmask"), ("interfaceId", "u32", "F", "interfaceId"), ("interfaceStatus", "u8", "F", "interfaceStatus"), ("interfaceType", "u8", "F", "interfaceType"), ("msgDroppedRx", "u32", "F", "msgDroppedRx"), ("msgDroppedTx", "u32", "F", "msgDroppedTx"), ("msgTotalRx", "u32", "F", "msgTotalRx"), ("msgTotalTx", "u32", "F", "msgTotalTx"), ("reserved", "u16", "G", "reserved@30")]),
  ("TECMP::CmpHeader", "tecmphdr", [("IsTecmp", "u8", "G", "deviceId.highByte@0 (library: IsTecmp)"), ("dataFlags", "u16", "G", "dataFlags@26"), ("dataType", "u16", "F", "dataType"), ("deviceFlags", "u16", "F", "deviceFlags"), ("deviceId", "u8", "F", "deviceId"), ("interfaceId", "u32", "F", "interfaceId"), ("messageType", "u8", "F", "messageType"), ("payloadLength", "u16", "F", "payloadLength"), ("reserved", "u16", "G", "reserved@8"), ("sequenceCounter", "u16", "F", "sequenceCounter"), ("timestamp", "u64", "F", "timestamp"), ("version", "u8", "F", "version")]),
  ("TECMP::CanPayload::Header", "tecmpcan", [("arbId", "u32", "F", "arbId"), ("dlc", "u8", "F", "dlc")]),
  ("TECMP::LinPayload::Header", "tecmplin", [("dataLength", "u8", "F", "dataLength"), ("pid", "u8", "F", "pid")]),
  ("TECMP::InterfacePayload::Header", "tecmpif", [("cmType", "u8", "F", "cmType"), ("cmVersion", "u8", "F", "cmVersion"), ("deviceId", "u16", "F", "deviceId"), ("reserved", "u8", "G", "reserved@3"), ("serialNumber", "u32", "F", "serialNumber"), ("vendorDataLength", "u16", "F", "vendorDataLength"), ("vendorId", "u8", "F", "vendorId")]),
  ("TECMP::InterfacePayload::Header::BusData", "tecmpif", [("errorsTotal", "u32", "F", "errorsTotal"), ("interfaceId", "u32", "F", "interfaceId"), ("messagesTotal", "u32", "F", "messagesTotal")]),
  ("TECMP::InterfacePayload::Header::VendorData", "tecmpif", [("linkQuality", "u8", "F", "vendorDataLinkQuality"), ("linkStatus", "u8", "F", "vendorDataLinkStatus"), ("linkupTime", "u16", "F", "vendorDataLinkupTime")]),
  ("TECMP::CaptureModulePayload::Header", "tecmpcm", [("deviceId", "u16", "F", "deviceId"), ("deviceType", "u8", "F", "deviceType"), ("deviceVersion", "u8", "F", "deviceVersion"), ("reserved", "u8", "G", "reserved@3"), ("serialNumber", "u32", "F", "serialNumber"), ("vendorDataLength", "u16", "F", "vendorDataLength"), ("vendorId", "u8", "F", "vendorId")]),
  ("TECMP::CaptureModulePayload::Header::VendorData", "tecmpcm", [("bufferFill", "u8", "F", "bufferFill"), ("bufferSize", "u32", "F", "bufferSize"), ("chassisTemp", "u8", "F", "chassisTemp"), ("isBufferOverflow", "u8", "F", "isBufferOverflow"), ("lifecycle", "u64", "F", "lifecycle"), ("reserved", "u8", "G", "reserved@12"), ("silliconTemp", "u8", "F", "silliconTemp")]),
  ("TECMP::CaptureModulePayload::Header::VendorData::SwVersion", "tecmpcm", [("major", "u8", "F", "swVersionMajor"), ("minor", "u8", "F", "swVersionMinor"), ("patch", "u8", "F", "swVersionPatch")]),
  ("TECMP::CaptureModulePayload::Header::VendorData::HwVersion", "tecmpcm", [("major", "u8", "F", "hwVersionMajor"), ("minor", "u8", "F", "hwVersionMinor")]),
  ("TECMP::CaptureModulePayload::Header::VendorData::Voltage", "tecmpcm", [("frac", "u8", "F", "voltageFraction"), ("whole", "u8", "F", "voltageWhole")])]
def memberOk (tbl : String) (m : String × String × String × String) : Bool :=
  match classOf tbl with
  | none => false
  | some c =>
    if m.2.2.1 == "F" then (match c.find m.2.2.2 with | some f => f.w == widthOf m.2.1 | none => false)
    else if m.2.2.1 == "G" then (gapsOf c).any (fun r => r.name == m.2.2.2 && r.w == widthOf m.2.1 && r.shift == 0 && r.bits == 8 * r.w)
    else (c.find m.2.2.2).isSome

/-- FINDING 2(i), data members: the `field` items of the 20 header (sub)structs in the current
    signature dump are EXACTLY the members of `memberMap`, with the declared types; each is the word
    of a table field of the same width, or one of the whole-byte gaps of §1 of the same width. -/
theorem members_accounted :
    memberMap.all (fun e =>
      ((sigItems e.1).filter (fun it => isFieldItem it.1)) == e.2.2.map (fun m => ("field " ++ m.1, m.2.1)) &&
      e.2.2.all (memberOk e.2.1)) = true := by decide +kernel

/-- conversely: every whole-byte gap of the 14 wire classes is a declared (reserved / un-tabled) data member -/
theorem gaps_are_members :
    allEntries.all (fun p => (gapsOf p.1).all fun r =>
      !(r.shift == 0 && r.bits == 8 * r.w) ||
      memberMap.any (fun e => e.2.1 == (if p.1.name == "canfd" then "can" else p.1.name) && e.2.2.any fun m => m.2.2.1 == "G" && m.2.2.2 == r.name)) = true := by
  decide +kernel

/-- … and every table field's word is a dumped data member, EXCEPT exactly these four (finding 2e:
    the dump omits `float` members and the anonymous union of the message header; their accessors
    are nevertheless covered as 32-bit patterns by `analog_src` / `msghdr_src`) -/
theorem words_without_dumped_member :
    (allEntries.flatMap fun p => p.1.fields.filterMap fun f =>
      if memberMap.any (fun e => e.2.1 == (if p.1.name == "canfd" then "can" else p.1.name) && e.2.2.any fun m =>
          m.2.2.1 == "F" && (match p.1.find m.2.2.2 with | some g => g.off == f.off && g.w == f.w | none => false))
      then none else some (p.1.name, f.name)) =
    [("msghdr", "interfaceId"), ("analog", "sampleInterval"), ("analog", "sampleOffset"), ("analog", "sampleScalar")] := by
  decide +kernel

/-- member functions of the 13 header classes: name, "get" / "set", and the table field(s) accessed
    (several for the `getFlag(mask)` style functions and for the CAN functions shared by CAN and CAN-FD) -/
def fnMap : List (String × List (String × String × List (String × String))) := [
  ("ASAM::CMP::CmpHeader", [
    ("getDeviceId", "get", [("cmphdr", "deviceId")]),
    ("getMessageType", "get", [("cmphdr", "messageType")]),
    ("getSequenceCounter", "get", [("cmphdr", "sequenceCounter")]),
    ("getStreamId", "get", [("cmphdr", "streamId")]),
    ("getVersion", "get", [("cmphdr", "version")]),
    ("setDeviceId", "set", [("cmphdr", "deviceId")]),
    ("setMessageType", "set", [("cmphdr", "messageType")]),
    ("setSequenceCounter", "set", [("cmphdr", "sequenceCounter")]),
    ("setStreamId", "set", [("cmphdr", "streamId")]),
    ("setVersion", "set", [("cmphdr", "version")])]),
  ("ASAM::CMP::MessageHeader", [
    ("getCommonFlag", "get", [("msghdr", "recalc"), ("msghdr", "insync"), ("msghdr", "segMask"), ("msghdr", "diOnIf"), ("msghdr", "overflow"), ("msghdr", "errorInPayload")]),
    ("getCommonFlags", "get", [("msghdr", "commonFlags")]),
    ("getInterfaceId", "get", [("msghdr", "interfaceId")]),
    ("getPayloadLength", "get", [("msghdr", "payloadLength")]),
    ("getPayloadType", "get", [("msghdr", "payloadType")]),
    ("getSegmentType", "get", [("msghdr", "segmentType")]),
    ("getTimestamp", "get", [("msghdr", "timestamp")]),
    ("getVendorId", "get", [("msghdr", "vendorId")]),
    ("setCommonFlag", "set", [("msghdr", "recalc"), ("msghdr", "insync"), ("msghdr", "segMask"), ("msghdr", "diOnIf"), ("msghdr", "overflow"), ("msghdr", "errorInPayload")]),
    ("setCommonFlags", "set", [("msghdr", "commonFlags")]),
    ("setInterfaceId", "set", [("msghdr", "interfaceId")]),
    ("setPayloadLength", "set", [("msghdr", "payloadLength")]),
    ("setPayloadType", "set", [("msghdr", "payloadType")]),
    ("setSegmentType", "set", [("msghdr", "segmentType")]),
    ("setTimestamp", "set", [("msghdr", "timestamp")]),
    ("setVendorId", "set", [("msghdr", "vendorId")])]),
  ("ASAM::CMP::CanPayloadBase::Header", [
    ("getCrc", "get", [("can", "crc")]),
    ("getCrcSbc", "get", [("canfd", "crc")]),
    ("getCrcSupport", "get", [("can", "crcSupport"), ("canfd", "crcSupport")]),
    ("getDataLength", "get", [("can", "dataLength"), ("canfd", "dataLength")]),
    ("getDlc", "get", [("can", "dlc"), ("canfd", "dlc")]),
    ("getErrorPosition", "get", [("can", "errorPosition"), ("canfd", "errorPosition")]),
    ("getFlag", "get", [("can", "crcErr"), ("can", "ackErr"), ("can", "passiveAckErr"), ("can", "activeAckErr"), ("can", "ackDelErr"), ("can", "formErr"), ("can", "stuffErr"), ("can", "crcDelErr"), ("can", "eofErr"), ("can", "bitErr"), ("can", "r0"), ("can", "srrDom"), ("can", "brs"), ("can", "esi"), ("canfd", "crcErr"), ("canfd", "ackErr"), ("canfd", "passiveAckErr"), ("canfd", "activeAckErr"), ("canfd", "ackDelErr"), ("canfd", "formErr"), ("canfd", "stuffErr"), ("canfd", "crcDelErr"), ("canfd", "eofErr"), ("canfd", "bitErr"), ("canfd", "r0"), ("canfd", "srrDom"), ("canfd", "brs"), ("canfd", "esi")]),
    ("getFlags", "get", [("can", "flags"), ("canfd", "flags")]),
    ("getId", "get", [("can", "id"), ("canfd", "id")]),
    ("getIde", "get", [("can", "ide"), ("canfd", "ide")]),
    ("getRsvd", "get", [("can", "rsvd"), ("canfd", "rsvd")]),
    ("getRtrRrs", "get", [("can", "rtr"), ("canfd", "rrs")]),
    ("getSbc", "get", [("canfd", "sbc")]),
    ("getSbcParity", "get", [("canfd", "sbcParity")]),
    ("getSbcSupport", "get", [("canfd", "sbcSupport")]),
    ("setCrc", "set", [("can", "crc")]),
    ("setCrcSbc", "set", [("canfd", "crc")]),
    ("setCrcSupport", "set", [("can", "crcSupport"), ("canfd", "crcSupport")]),
    ("setDataLength", "set", [("can", "dataLength"), ("canfd", "dataLength")]),
    ("setDlc", "set", [("can", "dlc"), ("canfd", "dlc")]),
    ("setErrorPosition", "set", [("can", "errorPosition"), ("canfd", "errorPosition")]),
    ("setFlag", "set", [("can", "crcErr"), ("can", "ackErr"), ("can", "passiveAckErr"), ("can", "activeAckErr"), ("can", "ackDelErr"), ("can", "formErr"), ("can", "stuffErr"), ("can", "crcDelErr"), ("can", "eofErr"), ("can", "bitErr"), ("can", "r0"), ("can", "srrDom"), ("can", "brs"), ("can", "esi"), ("canfd", "crcErr"), ("canfd", "ackErr"), ("canfd", "passiveAckErr"), ("canfd", "activeAckErr"), ("canfd", "ackDelErr"), ("canfd", "formErr"), ("canfd", "stuffErr"), ("canfd", "crcDelErr"), ("canfd", "eofErr"), ("canfd", "bitErr"), ("canfd", "r0"), ("canfd", "srrDom"), ("canfd", "brs"), ("canfd", "esi")]),
    ("setFlags", "set", [("can", "flags"), ("canfd", "flags")]),
    ("setId", "set", [("can", "id"), ("canfd", "id")]),
    ("setIde", "set", [("can", "ide"), ("canfd", "ide")]),
    ("setRsvd", "set", [("can", "rsvd"), ("canfd", "rsvd")]),
    ("setRtrRrs", "set", [("can", "rtr"), ("canfd", "rrs")]),
    ("setSbc", "set", [("canfd", "sbc")]),
    ("setSbcParity", "set", [("canfd", "sbcParity")]),
    ("setSbcSupport", "set", [("canfd", "sbcSupport")])]),
  ("ASAM::CMP::LinPayload::Header", [
    ("getChecksum", "get", [("lin", "checksum")]),
    ("getDataLength", "get", [("lin", "dataLength")]),
    ("getFlag", "get", [("lin", "checksumErr"), ("lin", "collisionErr"), ("lin", "parityErr"), ("lin", "noSlaveRespErr"), ("lin", "syncErr"), ("lin", "framingErr"), ("lin", "shortDomErr"), ("lin", "longDomErr"), ("lin", "wup")]),
    ("getFlags", "get", [("lin", "flags")]),
    ("getLinId", "get", [("lin", "linId")]),
    ("getParityBits", "get", [("lin", "parityBits")]),
    ("setChecksum", "set", [("lin", "checksum")]),
    ("setDataLength", "set", [("lin", "dataLength")]),
    ("setFlag", "set", [("lin", "checksumErr"), ("lin", "collisionErr"), ("lin", "parityErr"), ("lin", "noSlaveRespErr"), ("lin", "syncErr"), ("lin", "framingErr"), ("lin", "shortDomErr"), ("lin", "longDomErr"), ("lin", "wup")]),
    ("setFlags", "set", [("lin", "flags")]),
    ("setLinId", "set", [("lin", "linId")]),
    ("setParityBits", "set", [("lin", "parityBits")])]),
  ("ASAM::CMP::EthernetPayload::Header", [
    ("getDataLength", "get", [("eth", "dataLength")]),
    ("getFlag", "get", [("eth", "fcsErr"), ("eth", "frameShorterThan64b"), ("eth", "txPortDown"), ("eth", "collision"), ("eth", "frameTooLongErr"), ("eth", "phyErr"), ("eth", "frameTruncated"), ("eth", "fcsSupport")]),
    ("getFlags", "get", [("eth", "flags")]),
    ("setDataLength", "set", [("eth", "dataLength")]),
    ("setFlag", "set", [("eth", "fcsErr"), ("eth", "frameShorterThan64b"), ("eth", "txPortDown"), ("eth", "collision"), ("eth", "frameTooLongErr"), ("eth", "phyErr"), ("eth", "frameTruncated"), ("eth", "fcsSupport")]),
    ("setFlags", "set", [("eth", "flags")])]),
  ("ASAM::CMP::AnalogPayload::Header", [
    ("getFlags", "get", [("analog", "flags")]),
    ("getSampleDt", "get", [("analog", "sampleDt")]),
    ("getUnit", "get", [("analog", "unit")]),
    ("setFlags", "set", [("analog", "flags")]),
    ("setSampleDt", "set", [("analog", "sampleDt")]),
    ("setUnit", "set", [("analog", "unit")])]),
  ("ASAM::CMP::CaptureModulePayload::Header", [
    ("getCurrentUtcOffset", "get", [("cm", "currentUtcOffset")]),
    ("getDomainNumber", "get", [("cm", "domainNumber")]),
    ("getGmClockQuality", "get", [("cm", "gmClockQuality")]),
    ("getGmIdentity", "get", [("cm", "gmIdentity")]),
    ("getGptpFlags", "get", [("cm", "gptpFlags")]),
    ("getTimeSource", "get", [("cm", "timeSource")]),
    ("getUptime", "get", [("cm", "uptime")]),
    ("setCurrentUtcOffset", "set", [("cm", "currentUtcOffset")]),
    ("setDomainNumber", "set", [("cm", "domainNumber")]),
    ("setGmClockQuality", "set", [("cm", "gmClockQuality")]),
    ("setGmIdentity", "set", [("cm", "gmIdentity")]),
    ("setGptpFlags", "set", [("cm", "gptpFlags")]),
    ("setTimeSource", "set", [("cm", "timeSource")]),
    ("setUptime", "set", [("cm", "uptime")])]),
  ("ASAM::CMP::InterfacePayload::Header", [
    ("getErrorsTotalRx", "get", [("if", "errorsTotalRx")]),
    ("getErrorsTotalTx", "get", [("if", "errorsTotalTx")]),
    ("getFeatureSupportBitmask", "get", [("if", "featureSupportBitmask")]),
    ("getInterfaceId", "get", [("if", "interfaceId")]),
    ("getInterfaceStatus", "get", [("if", "interfaceStatus")]),
    ("getInterfaceType", "get", [("if", "interfaceType")]),
    ("getMsgDroppedRx", "get", [("if", "msgDroppedRx")]),
    ("getMsgDroppedTx", "get", [("if", "msgDroppedTx")]),
    ("getMsgTotalRx", "get", [("if", "msgTotalRx")]),
    ("getMsgTotalTx", "get", [("if", "msgTotalTx")]),
    ("setErrorsTotalRx", "set", [("if", "errorsTotalRx")]),
    ("setErrorsTotalTx", "set", [("if", "errorsTotalTx")]),
    ("setFeatureSupportBitmask", "set", [("if", "featureSupportBitmask")]),
    ("setInterfaceId", "set", [("if", "interfaceId")]),
    ("setInterfaceStatus", "set", [("if", "interfaceStatus")]),
    ("setInterfaceType", "set", [("if", "interfaceType")]),
    ("setMsgDroppedRx", "set", [("if", "msgDroppedRx")]),
    ("setMsgDroppedTx", "set", [("if", "msgDroppedTx")]),
    ("setMsgTotalRx", "set", [("if", "msgTotalRx")]),
    ("setMsgTotalTx", "set", [("if", "msgTotalTx")])]),
  ("TECMP::CmpHeader", [
    ("getDataType", "get", [("tecmphdr", "dataType")]),
    ("getDeviceFlags", "get", [("tecmphdr", "deviceFlags")]),
    ("getDeviceId", "get", [("tecmphdr", "deviceId")]),
    ("getInterfaceId", "get", [("tecmphdr", "interfaceId")]),
    ("getMessageType", "get", [("tecmphdr", "messageType")]),
    ("getPayloadLength", "get", [("tecmphdr", "payloadLength")]),
    ("getSequenceCounter", "get", [("tecmphdr", "sequenceCounter")]),
    ("getTimestamp", "get", [("tecmphdr", "timestamp")]),
    ("getVersion", "get", [("tecmphdr", "version")]),
    ("setDataType", "set", [("tecmphdr", "dataType")]),
    ("setDeviceFlags", "set", [("tecmphdr", "deviceFlags")]),
    ("setDeviceId", "set", [("tecmphdr", "deviceId")]),
    ("setInterfaceId", "set", [("tecmphdr", "interfaceId")]),
    ("setMessageType", "set", [("tecmphdr", "messageType")]),
    ("setPayloadLength", "set", [("tecmphdr", "payloadLength")]),
    ("setSequenceCounter", "set", [("tecmphdr", "sequenceCounter")]),
    ("setTimestamp", "set", [("tecmphdr", "timestamp")]),
    ("setVersion", "set", [("tecmphdr", "version")])]),
  ("TECMP::CanPayload::Header", [
    ("getArbId", "get", [("tecmpcan", "arbId")]),
    ("getDlc", "get", [("tecmpcan", "dlc")]),
    ("setArbId", "set", [("tecmpcan", "arbId")]),
    ("setDlc", "set", [("tecmpcan", "dlc")])]),
  ("TECMP::LinPayload::Header", [
    ("getDataLength", "get", [("tecmplin", "dataLength")]),
    ("getPid", "get", [("tecmplin", "pid")]),
    ("setDataLength", "set", [("tecmplin", "dataLength")]),
    ("setPid", "set", [("tecmplin", "pid")])]),
  ("TECMP::InterfacePayload::Header", [
    ("getCmType", "get", [("tecmpif", "cmType")]),
    ("getCmVersion", "get", [("tecmpif", "cmVersion")]),
    ("getDeviceId", "get", [("tecmpif", "deviceId")]),
    ("getErrorsTotal", "get", [("tecmpif", "errorsTotal")]),
    ("getInterfaceId", "get", [("tecmpif", "interfaceId")]),
    ("getMessagesTotal", "get", [("tecmpif", "messagesTotal")]),
    ("getSerialNumber", "get", [("tecmpif", "serialNumber")]),
    ("getVendorDataLength", "get", [("tecmpif", "vendorDataLength")]),
    ("getVendorDataLinkQuality", "get", [("tecmpif", "vendorDataLinkQuality")]),
    ("getVendorDataLinkStatus", "get", [("tecmpif", "vendorDataLinkStatus")]),
    ("getVendorDataLinkupTime", "get", [("tecmpif", "vendorDataLinkupTime")]),
    ("getVendorId", "get", [("tecmpif", "vendorId")]),
    ("setCmType", "set", [("tecmpif", "cmType")]),
    ("setCmVersion", "set", [("tecmpif", "cmVersion")]),
    ("setDeviceId", "set", [("tecmpif", "deviceId")]),
    ("setErrorsTotal", "set", [("tecmpif", "errorsTotal")]),
    ("setInterfaceId", "set", [("tecmpif", "interfaceId")]),
    ("setMessagesTotal", "set", [("tecmpif", "messagesTotal")]),
    ("setSerialNumber", "set", [("tecmpif", "serialNumber")]),
    ("setVendorDataLength", "set", [("tecmpif", "vendorDataLength")]),
    ("setVendorDataLinkQuality", "set", [("tecmpif", "vendorDataLinkQuality")]),
    ("setVendorDataLinkStatus", "set", [("tecmpif", "vendorDataLinkStatus")]),
    ("setVendorDataLinkupTime", "set", [("tecmpif", "vendorDataLinkupTime")]),
    ("setVendorId", "set", [("tecmpif", "vendorId")])]),
  ("TECMP::CaptureModulePayload::Header", [
    ("getBufferFill", "get", [("tecmpcm", "bufferFill")]),
    ("getBufferSize", "get", [("tecmpcm", "bufferSize")]),
    ("getChassisTemp", "get", [("tecmpcm", "chassisTemp")]),
    ("getDeviceId", "get", [("tecmpcm", "deviceId")]),
    ("getDeviceType", "get", [("tecmpcm", "deviceType")]),
    ("getDeviceVersion", "get", [("tecmpcm", "deviceVersion")]),
    ("getHwVersionMajor", "get", [("tecmpcm", "hwVersionMajor")]),
    ("getHwVersionMinor", "get", [("tecmpcm", "hwVersionMinor")]),
    ("getIsBufferOverflow", "get", [("tecmpcm", "isBufferOverflow")]),
    ("getLifecycle", "get", [("tecmpcm", "lifecycle")]),
    ("getSerialNumber", "get", [("tecmpcm", "serialNumber")]),
    ("getSilliconTemp", "get", [("tecmpcm", "silliconTemp")]),
    ("getSwVersionMajor", "get", [("tecmpcm", "swVersionMajor")]),
    ("getSwVersionMinor", "get", [("tecmpcm", "swVersionMinor")]),
    ("getSwVersionPatch", "get", [("tecmpcm", "swVersionPatch")]),
    ("getVendorDataLength", "get", [("tecmpcm", "vendorDataLength")]),
    ("getVendorId", "get", [("tecmpcm", "vendorId")]),
    ("getVoltageFraction", "get", [("tecmpcm", "voltageFraction")]),
    ("getVoltageWhole", "get", [("tecmpcm", "voltageWhole")]),
    ("setBufferFill", "set", [("tecmpcm", "bufferFill")]),
    ("setBufferSize", "set", [("tecmpcm", "bufferSize")]),
    ("setChassisTemp", "set", [("tecmpcm", "chassisTemp")]),
    ("setDeviceId", "set", [("tecmpcm", "deviceId")]),
    ("setDeviceType", "set", [("tecmpcm", "deviceType")]),
    ("setDeviceVersion", "set", [("tecmpcm", "deviceVersion")]),
    ("setHwVersionMajor", "set", [("tecmpcm", "hwVersionMajor")]),
    ("setHwVersionMinor", "set", [("tecmpcm", "hwVersionMinor")]),
    ("setIsBufferOverflow", "set", [("tecmpcm", "isBufferOverflow")]),
    ("setLifecycle", "set", [("tecmpcm", "lifecycle")]),
    ("setSerialNumber", "set", [("tecmpcm", "serialNumber")]),
    ("setSilliconTemp", "set", [("tecmpcm", "silliconTemp")]),
    ("setSwVersionMajor", "set", [("tecmpcm", "swVersionMajor")]),
    ("setSwVersionMinor", "set", [("tecmpcm", "swVersionMinor")]),
    ("setSwVersionPatch", "set", [("tecmpcm", "swVersionPatch")]),
    ("setVendorDataLength", "set", [("tecmpcm", "vendorDataLength")]),
    ("setVendorId", "set", [("tecmpcm", "vendorId")]),
    ("setVoltageFraction", "set", [("tecmpcm", "voltageFraction")]),
    ("setVoltageWhole", "set", [("tecmpcm", "voltageWhole")])])]
/-- member functions that access no wire field of their own -/
def derivedFns : List (String × String × String) := [
  ("ASAM::CMP::CanPayloadBase::Header", "hasError", "predicate `flags & errorMask` (GenChecks.masks_ok: can.errorMask)"),
  ("TECMP::CmpHeader", "isValid", "predicate over messageType / dataType (SrcTie.tecmp_header_src; tecmp_invalid_dataType_is_accepted)")]

/-- FINDING 2(i), member functions: every member function of the 13 header classes in the current
    signature dump is in `fnMap` (or one of the two derived predicates), names a field of the
    protocol table, and that field has an entry of that kind ("get" / "set") in the translated entry
    list — i.e. is covered by `all_src`. -/
theorem header_functions_accounted :
    fnMap.all (fun e =>
      (((sigItems e.1).filter (fun it => !isFieldItem it.1)).map (·.1)).filter
          (fun n => !(derivedFns.any fun d => d.1 == e.1 && d.2.1 == n)) == e.2.map (·.1) &&
      e.2.all (fun it => !it.2.2.isEmpty && it.2.2.all fun t =>
        ((classOf t.1).bind (·.find t.2)).isSome &&
        (entriesOf t.1).any (fun en => en.field == t.2 && en.what == it.2.1))) = true := by decide +kernel

/-- conversely: every translated entry is the target of a dumped member function, EXCEPT exactly the
    accessors of the three IEEE-754 fields (finding 2e: `float` signatures are not in the dump) -/
theorem entries_without_dumped_function :
    (allEntries.flatMap fun p => p.2.filterMap fun en =>
      if fnMap.any (fun e => e.2.any fun it => it.2.1 == en.what && it.2.2.contains (p.1.name, en.field))
      then none else some (p.1.name, en.field, en.what)) =
    [("analog", "sampleInterval", "get"), ("analog", "sampleInterval", "set"),
     ("analog", "sampleOffset", "get"), ("analog", "sampleOffset", "set"),
     ("analog", "sampleScalar", "get"), ("analog", "sampleScalar", "set")] := by decide +kernel

example : (memberMap.map (·.2.2.length)).sum = 100 ∧ (fnMap.map (·.2.length)).sum = 202 := by decide +kernel

end coverage

/-! ## §6 NEGATIVE (review finding 2a): a wire field read in HOST byte order

  `TECMP::CanPayload::getCrc` (src/tecmp_can_payload.cpp:75) copies the three CRC bytes behind the
  data with `memcpy(&result, crcPtr, 3)` into a `uint32_t` and never swaps.  The field is not in the
  table `Layout.c_tecmpcan` (arbId, dlc only), so no C12 theorem constrained it; `C15S.canCrc_wire`
  / `C15S_can` state the resulting decoder behaviour ("three bytes, little-endian") as the
  specification.  Against the property's text ("big-endian at the byte offset … the protocol
  layout prescribes", clause (B)) it is a violation. -/

section tecmpcrc
open AsamCmp.Src AsamCmp.SrcGen

theorem beAt_three (b : Bytes) (i : Nat) (h : i + 3 ≤ b.length) :
    beAt b i 3 = byteAt b i * 65536 + byteAt b (i + 1) * 256 + byteAt b (i + 1 + 1) := by
  rw [SrcTie.beAt_succ b i 2 h, SrcTie.beAt_two b (i + 1) (by omega)]
  omega

/-- PROPERTY VIOLATION, general form: for EVERY TECMP CAN payload that carries its three CRC bytes,
    the translated `getCrc` returns them LITTLE-endian; the result equals the big-endian wire value
    iff the first and the third CRC byte happen to be equal. -/
theorem tecmp_can_crc_host_order (p : Bytes) (h64 : p.length < 2 ^ 64) (h : 5 + byteAt p 4 + 3 ≤ p.length) :
    TECMP_CanPayload_getCrc p 0 p.length 0 =
      some (byteAt p (5 + byteAt p 4) + 256 * byteAt p (5 + byteAt p 4 + 1) + 65536 * byteAt p (5 + byteAt p 4 + 2)) ∧
    (byteAt p (5 + byteAt p 4) + 256 * byteAt p (5 + byteAt p 4 + 1) + 65536 * byteAt p (5 + byteAt p 4 + 2) =
        beAt p (5 + byteAt p 4) 3 ↔ byteAt p (5 + byteAt p 4) = byteAt p (5 + byteAt p 4 + 2)) := by
  constructor
  · rw [SrcTec.can_crc_own p h64 (by omega)]
    unfold tecmpCanCrc
    rw [if_neg (by omega)]
  · rw [beAt_three p _ (by omega)]
    have h0 := SrcTie.byteAt_lt p (5 + byteAt p 4)
    have h2 := SrcTie.byteAt_lt p (5 + byteAt p 4 + 2)
    have e : 5 + byteAt p 4 + 1 + 1 = 5 + byteAt p 4 + 2 := by omega
    rw [e]
    omega

/-- the witness: arbitration id 0x123, two data bytes, CRC bytes `12 34 56` on the wire
    (big-endian value 0x123456): `getCrc()` returns 0x563412 -/
theorem tecmp_can_crc_witness :
    let p : Bytes := beEnc 4 0x123 ++ [2] ++ [0xAA, 0xBB] ++ [0x12, 0x34, 0x56]
    TECMP_CanPayload_getCrc p 0 p.length 0 = some 0x563412 ∧ beAt p 7 3 = 0x123456 ∧
    -- the other fields of the same payload ARE read big-endian
    TECMP_CanPayload_getArbId p 0 p.length 0 = some 0x123 := by decide

/-- FINDING 2d (constants the translator does not dump, so only the arithmetic is a theorem): the
    library's OWN byte swap maps the TECMP data-flags mask 0x3FF0 to 0xF03F; the header constant
    `reservedMask = 0xF03C  // 0x3FF0 -> 0xF03C` (tecmp_header.h:69) is not that value.  The masks
    `eosMask … deviceOverflowMask` and the member `dataFlags` are used by no function of the
    pristine library (no accessor exists — `header_functions_accounted`), so no behaviour depends
    on them yet. -/
theorem tecmp_reservedMask_comment_wrong :
    swapEndian_u16 0x3FF0 = some 0xF03F ∧ (0xF03F : Nat) ≠ 0xF03C ∧
    swapEndian_u16 0x0001 = some 0x0100 ∧ swapEndian_u16 0x0002 = some 0x0200 ∧ swapEndian_u16 0x0004 = some 0x0400 ∧
    swapEndian_u16 0x0008 = some 0x0800 ∧ swapEndian_u16 0x8000 = some 0x0080 := by decide

/-- FINDING 2c, accessor level (decoder level: `C15S.C15S_all_from_header`,
    `C15S.C15S_nonzero_first_byte_not_tecmp`): TECMP's device id is the 16-bit big-endian word at
    offset 0; the library's `getDeviceId()` — and the table row `⟨"deviceId", 1, 1, 0, 8⟩` copied
    from its struct — is the LOW byte only: a device id ≥ 256 is read modulo 256, for every header. -/
theorem tecmp_deviceId_low_byte_only (b : Bytes) (h : 28 ≤ b.length) :
    TECMP_CmpHeader_getDeviceId b 0 = some (beAt b 0 2 % 256) := by
  rw [(SrcTie.tecmp_header_src b h).2.2.2.2.1, SrcTie.beAt_two b 0 (by omega)]
  have := SrcTie.byteAt_lt b 1
  congr 1
  rw [Nat.zero_add]
  omega

example : TECMP_CmpHeader_getDeviceId ([0x12, 0x34] ++ zeros 26) 0 = some 0x34 ∧ beAt ([0x12, 0x34] ++ zeros 26) 0 2 = 0x1234 := by
  decide

end tecmpcrc

/-! ## §7 the unstated hypothesis of every `_src` theorem made explicit (review finding 7) -/

/-- the member accesses of the translated code (`Src.rd` / `Src.wr`, used by `Op.rd` / `Op.wr` of the
    bit programs and by GeneratedSrc.lean) are LITTLE-endian: "big-endian on the wire" is proved for
    a little-endian host only (the library has the same assumption: `swapEndian` is unconditional). -/
theorem host_is_little_endian :
    Src.rd [0x34, 0x12] 0 2 = some 0x1234 ∧ Src.wr [0, 0] 0 2 0x1234 = some [0x34, 0x12] ∧
    (Src.Bit.step 0 [] ⟨[0x34, 0x12], []⟩ (.rd 0 2)).map (fun s => (s.m, s.vals)) = some ([0x34, 0x12], [0x1234]) := by decide

end AsamCmp.C12S
