/-
  C20S  Strengthening of C20 (outputs never contain or depend on uninitialised memory).

  Additional theorems about the EXISTING definitions (nothing in the model, the translations or the registered statements is
  changed), closing the weaknesses an independent review found in the statements registered for C20:

   §1  K1: every byte of every frame the ENCODER returns (model `Enc.encode` for every encoder state, every batch, every valid
       configuration; translated `Encoder::encode` from ANY member record, stale scratch members included): header from the
       encoder's logical state, each message a header of a packet of the batch + a contiguous piece of its payload, zero pad.
       The reserved / unused header bytes on the translated `getRawCmpHeader` / `getRawMessageHeader`.        (findings 5, 1)
   §2  K2: every header member of every packet `decode` returns, for every state and every buffer; the same for the translated
       wire constructor.                                                                                          (finding 3)
   §3  K2 / K4: TECMP conversion — the complete byte layout of every converted payload, for EVERY buffer.         (finding 6)
   §4  K2 / K4: reassembly — decoder statement composed with the payload statement; independence of the frames' padding,
       on bytes.                                                                                                  (finding 2)
   §5  K5: same calls, different memory / different residue in scratch members ⇒ bit-identical results, for the translated
       decoder and encoder over whole histories.                                                                  (finding 7)
   §6  K3: closed forms of all six `setData` for prior objects of any length; the translated builders on two objects / two
       caller buffers / two addresses; `Packet::create`'s two outcomes; the translated default constructors.     (finding 4)
   §7  non-vacuity: literal instances, conclusions computed by the kernel (padded frames; control / vendor / status
       messages; a `SegMsg` with `WF`; stale scratch members full of 0xFF / 0xEE).                                (finding 8)

  NOT closed (see REPORT.md): definedness of the real memory (findings 1(a)/(b), K6) — `Src/Sem.lean` has no indeterminate
  byte, and the initial bytes of default-initialised locals / `vector(n)` / `resize(n)` are emitted by the translator.
-/
import AsamCmp.Props.C20
import AsamCmp.Props.C05S
import AsamCmp.Props.C07S
import AsamCmp.Props.C13S
import AsamCmp.Props.C15S
import AsamCmp.Props.C04S
import AsamCmp.Props.C03S
import AsamCmp.Props.SrcHistory
namespace AsamCmp.C20S
open AsamCmp

/-! ## §1 encoder -/

theorem slice_zero_take (l : Bytes) (n : Nat) : slice l 0 (l.take n).length = l.take n := by
  simp only [slice, List.drop_zero, List.length_take]
  by_cases h : n ≤ l.length
  · rw [Nat.min_eq_left h]
  · rw [Nat.min_eq_right (by omega), List.take_of_length_le (Nat.le_refl _), List.take_of_length_le (by omega)]

/-- every chunk is a contiguous piece of the list it was cut from -/
theorem chunks_slice (n : Nat) (hn : 0 < n) (l : Bytes) :
    ∀ x ∈ chunks n l, ∃ k, x = slice l k x.length ∧ k + x.length ≤ l.length := by
  fun_induction chunks n l with
  | case1 l h => simp
  | case2 l h ih =>
    intro x hx
    rcases List.mem_cons.mp hx with hx | hx
    · subst hx
      refine ⟨0, (slice_zero_take _ _).symm, ?_⟩
      simp only [List.length_take]; omega
    · obtain ⟨k, h1, h2⟩ := ih x hx
      have hx1 := (chunks_mem n hn _ x hx).1
      have e : slice (l.drop n) k x.length = slice l (n + k) x.length := by
        simp only [slice, List.drop_drop]
      refine ⟨n + k, ?_, ?_⟩
      · rw [← e]; exact h1
      · simp only [List.length_drop] at h2
        omega

theorem slice_take_of_le (l : Bytes) (n k w : Nat) (h : k + w ≤ n) : slice (l.take n) k w = slice l k w := by
  unfold slice
  rw [List.drop_take, List.take_take]
  congr 1
  omega

/-- the body of every message a packet contributes is a contiguous piece of the packet's payload bytes -/
theorem pieces_slice (c : Ctx) (hcap : 17 ≤ c.cap) (i : Nat) (p : Packet) :
    ∀ m ∈ pieces c i p, ∃ k, m.body = slice p.data k m.body.length ∧ k + m.body.length ≤ p.data.length := by
  intro m hm
  have hle : p.payloadLength ≤ p.data.length := by rw [payloadLength_eq]; exact Nat.mod_le _ _
  unfold pieces at hm
  by_cases h0 : p.payloadLength = 0
  · simp [h0] at hm
  · rw [if_neg h0] at hm
    by_cases h1 : 16 + p.payloadLength ≤ c.cap
    · rw [if_pos h1] at hm
      simp only [List.mem_singleton] at hm
      subst hm
      refine ⟨0, (slice_zero_take _ _).symm, ?_⟩
      simp only [List.length_take]; omega
    · rw [if_neg h1] at hm
      obtain ⟨_, _, _, h4⟩ := segMsgs_mem _ _ _ _ m hm
      obtain ⟨k, e1, e2⟩ := chunks_slice (c.cap - 16) (by omega) _ _ h4
      simp only [List.length_take] at e2
      refine ⟨k, ?_, by omega⟩
      rw [← slice_take_of_le p.data p.payloadLength k m.body.length (by omega)]
      exact e1

/-- **K1 for the ENCODER's frames (finding 5).**  For EVERY encoder object `e` (any history, no bound on the counter), EVERY batch
    (packets without payload, with empty payload, with 2^16 bytes or more included) and every configuration with
    "25 ≤ max, min ≤ max" (`c.ok`, the property's "padded and unpadded frames"), the `i`-th frame `encode` returns is, byte for
    byte,

      frame header (version of a packet of the batch, reserved 0, the ENCODER's device id, the message type `f.mt` of the
      packets inside, the ENCODER's stream id, counter `(e.seqc + i + 1) mod 2^16`)
      ++ for every message: the message header of a packet OF THE BATCH with that message type, followed by a CONTIGUOUS PIECE of
         that packet's payload bytes (`slice m.pkt.data k len`, inside the payload)
      ++ explicit zeros up to `min`.

    Nothing else occurs in a frame: every byte is a function of the encoder's logical state (ids, counter), the batch and the
    configuration. -/
theorem encoder_frames_determined (e : Enc) (batch : List Packet) (c : Ctx) (hc : c.ok = true) :
    ∀ i (h : i < (e.encode batch c).2.length),
      let f := (e.encode batch c).2[i]
      f.dev = e.dev ∧ f.stream = e.stream ∧ f.seq = (e.seqc + i + 1) % 65536 ∧
      (∃ p ∈ batch, f.ver = p.version % 256) ∧ f.mt < 256 ∧ f.msgs ≠ [] ∧
      (∀ m ∈ f.msgs, m.pkt ∈ batch ∧ m.pkt.mt = f.mt ∧ (m.seg = 0 ∨ m.seg = 4 ∨ m.seg = 8 ∨ m.seg = 12) ∧
        1 ≤ m.body.length ∧ m.body.length < 65536 ∧
        ∃ k, m.body = slice m.pkt.data k m.body.length ∧ k + m.body.length ≤ m.pkt.data.length) ∧
      EFrame.bytes c.min f =
        frameHeader f.ver e.dev f.mt e.stream ((e.seqc + i + 1) % 65536) ++
        f.msgs.flatMap (fun m => msgHeader m.pkt m.seg m.body.length ++ m.body) ++
        zeros (c.min - (8 + f.used)) := by
  intro i h f
  have hcap := (Ctx.ok_cap hc).1
  obtain ⟨hok, hall, _⟩ := encode_spec e batch c hcap
  obtain ⟨hq, hd, hs, hv, hmt⟩ := C07S.frames_fields e batch c i h
  have hmem : f ∈ (e.encode batch c).2 := List.getElem_mem h
  refine ⟨hd, hs, hq, hv, (hok f hmem).1.mtlt, (hok f hmem).2, ?_, ?_⟩
  · intro m hm
    have : m ∈ (e.encode batch c).2.flatMap (·.msgs) := List.mem_flatMap.mpr ⟨f, hmem, hm⟩
    rw [hall] at this
    obtain ⟨ip, hip, hm'⟩ := List.mem_flatMap.mp this
    obtain ⟨e1, e2, e3, _, e5, _⟩ := pieces_mem c hcap _ _ m hm'
    have hsl := pieces_slice c hcap _ _ m hm'
    rw [← e1] at hsl
    refine ⟨?_, hmt m hm, e5, e2, e3, hsl⟩
    rw [e1]
    exact (List.of_mem_zip hip).2
  · have := C20.frame_bytes_determined c.min f
    rw [this]
    show frameHeader f.ver f.dev f.mt f.stream f.seq ++ _ ++ _ = _
    rw [hd, hs, hq]

open AsamCmp.SrcGen AsamCmp.SrcEnc in
/-- **K1 / K4 for the reserved and unused header bytes, on the TRANSLATED serialisers (finding 1, the part that can be said
    without a definedness bit).**  `C20.frame_reserved_zero` and `C20.unused_ids_zero` are statements about the model functions
    `frameHeader` / `msgHeader`; composed with the refinements `rawCmpHeader_src` / `rawMsgHeader_src` they become statements
    about what the translated `Packet::getRawCmpHeader` / `getRawMessageHeader` RETURN for every packet whose members lie in
    their C types (`PktReg`): 8 resp. 16 bytes, the reserved byte 1 of the frame header is 0, bytes 8..11 of a control /
    unknown-type message header are 0 — whatever `interfaceId` / `vendorId` the object holds —, and bytes 8..9 of a status /
    vendor header are 0.  (What is NOT proved here, and cannot be with the present `Src/Sem.lean`: that the initial bytes of the
    local header object the translator emits are the ones a C++ compiler produces; see the report, finding 1.) -/
theorem raw_headers_src_unused_zero (p : Packet) (h : PktReg p) :
    ∃ fh mh, Packet_getRawCmpHeader_obj (pktSt p) p.mt = some (pktSt p, fh) ∧ fh.length = 8 ∧ fh[1]? = some 0 ∧
      Packet_getRawMessageHeader_obj (pktSt p) p.mt p.rawType p.payloadLength = some (pktSt p, mh) ∧ mh.length = 16 ∧
      (p.mt ≠ 1 → p.mt ≠ 3 → p.mt ≠ 0xFF → slice mh 8 4 = [0, 0, 0, 0]) ∧
      ((p.mt = 3 ∨ p.mt = 0xFF) → slice mh 8 2 = [0, 0]) := by
  obtain ⟨u1, u2⟩ := C20.unused_ids_zero p (p.flags &&& 0x0C) p.payloadLength
  exact ⟨_, _, rawCmpHeader_src p h, frameHeader_length .., C20.frame_reserved_zero .., rawMsgHeader_src p h,
    msgHeader_length .., u1, u2⟩

/-- a description of ONE frame purely on bytes: `b` is the `i`-th frame of an `encode` call of an encoder with ids `dev`, `stream`
    and counter `seqc` on `batch`, padded to `min` — header from the encoder's logical state, every message a header of a packet
    of the batch plus a contiguous piece of that packet's payload, then zeros -/
def FrameFrom (dev stream seqc : Nat) (batch : List Packet) (min i : Nat) (b : Bytes) : Prop :=
  ∃ (ver mt : Nat) (msgs : List (Packet × Nat × Bytes)),
    (∃ p ∈ batch, ver = p.version % 256) ∧ mt < 256 ∧ msgs ≠ [] ∧
    (∀ m ∈ msgs, m.1 ∈ batch ∧ m.1.mt = mt ∧ (m.2.1 = 0 ∨ m.2.1 = 4 ∨ m.2.1 = 8 ∨ m.2.1 = 12) ∧
      1 ≤ m.2.2.length ∧ m.2.2.length < 65536 ∧
      ∃ k, m.2.2 = slice m.1.data k m.2.2.length ∧ k + m.2.2.length ≤ m.1.data.length) ∧
    b = frameHeader ver dev mt stream ((seqc + i + 1) % 65536) ++
        msgs.flatMap (fun m => msgHeader m.1 m.2.1 m.2.2.length ++ m.2.2) ++
        zeros (min - (8 + (msgs.map (fun m => 16 + m.2.2.length)).sum))

/-- `encoder_frames_determined` on the returned BYTE VECTORS -/
theorem encoder_bytes_determined (e : Enc) (batch : List Packet) (c : Ctx) (hc : c.ok = true) :
    ∀ i (h : i < ((e.encode batch c).2.map (EFrame.bytes c.min)).length),
      FrameFrom e.dev e.stream e.seqc batch c.min i ((e.encode batch c).2.map (EFrame.bytes c.min))[i] := by
  intro i h
  have hi : i < (e.encode batch c).2.length := by simpa using h
  obtain ⟨_, _, _, hv, hmt, hne, hm, hb⟩ := encoder_frames_determined e batch c hc i hi
  rw [List.getElem_map]
  refine ⟨(e.encode batch c).2[i].ver, (e.encode batch c).2[i].mt,
    (e.encode batch c).2[i].msgs.map (fun m => (m.pkt, m.seg, m.body)), hv, hmt, ?_, ?_, ?_⟩
  · simpa using hne
  · intro m hmm
    obtain ⟨x, hx, rfl⟩ := List.mem_map.mp hmm
    exact hm x hx
  · rw [hb, List.flatMap_map, List.map_map]
    rfl

open AsamCmp.SrcGen AsamCmp.SrcEnc in
/-- **K1 end to end, translated C++ source.**  For EVERY record `s` of the data members of an `Encoder` object — whatever
    earlier calls (complete or aborted) left in the scratch members `cmpFrames`, `cmpFrameTemplate`, `bytesLeft`,
    `min/maxBytesPerMessage`: "whatever the heap contained before" —, every batch of packets that have a payload shorter than
    2^16 bytes (`Packet.Enc`) and every configuration with 25 ≤ max, min ≤ max, max below the 32-bit field: both iterator-range
    overloads of the translated `Encoder::encode` are defined and every frame they return is `FrameFrom` the object's device id,
    stream id and sequence counter, the batch and `min`. -/
theorem encoder_src_bytes_determined (s : Encoder_St) (batch : List Packet) (c : Ctx) (fuel : Nat)
    (hc : c.ok = true) (hmax : c.max < 2 ^ 32) (hb : ∀ p ∈ batch, p.Enc) (hf : 65536 ≤ fuel) :
    ∃ s' frames,
      Encoder_encode_range_obj fuel s (batch.map pktIn) c.min c.max = some (s', frames) ∧
      Encoder_encode_ptrRange_obj fuel s (batch.map pktIn) c.min c.max = some (s', frames) ∧
      (∀ i (h : i < frames.length),
        FrameFrom s.f_deviceId s.f_streamId s.f_sequenceCounter batch c.min i frames[i]) ∧
      s'.f_cmpFrames = [] ∧ s'.f_cmpFrameTemplate = [] := by
  obtain ⟨s', e1, e2, _, _, _, _, e7, e8, _⟩ := C07S.src_encode_any s batch c fuel hc hmax hb hf
  exact ⟨s', _, e1, e2, encoder_bytes_determined (C07S.encOf s) batch c hc, e7, e8⟩

/-! ## §2 decoder: every header field of every returned packet (finding 3) -/

/-- the header members of a packet the decoder built from a capture-module frame with header fields `ver dev stream mt`:
    version / device id / stream id are the FRAME's; `sequenceCounter` and `segmentType` (which the constructor
    `Packet(msgType, data, size)` never writes) are 0; `interfaceId` is 0 unless the frame carries data messages, `vendorId` is 0
    unless it carries status / vendor messages; all members lie in their C types; the packet owns a payload -/
structure CmpHdr (ver dev stream mt : Nat) (p : Packet) : Prop where
  version : p.version = ver
  deviceId : p.deviceId = dev
  streamId : p.streamId = stream
  seq : p.seq = 0
  segType : p.segType = 0
  ifId : (mt ≠ 1 → p.ifId = 0) ∧ p.ifId < 2 ^ 32
  vendorId : (mt ≠ 3 → mt ≠ 0xFF → p.vendorId = 0) ∧ p.vendorId < 65536
  ts : p.ts < 2 ^ 64
  flags : p.flags < 256
  payload : p.payload.isSome

theorem ofMsg_hdr (ep : Ep) (ver mt : Nat) (m : Bytes) :
    CmpHdr ver ep.1 ep.2 mt (tagPacket ep ver (Packet.ofMsg mt m)) := by
  refine ⟨rfl, rfl, rfl, rfl, rfl, ⟨?_, ?_⟩, ⟨?_, ?_⟩, ?_, ?_, rfl⟩
  · intro h; simp [tagPacket, Packet.ofMsg, h]
  · simp only [tagPacket, Packet.ofMsg]
    split
    · exact C03.beAt_lt m 8 4
    · decide
  · intro h3 hf
    have : ¬ (mt = 3 ∨ mt = 0xFF) := fun h => h.elim h3 hf
    simp [tagPacket, Packet.ofMsg, this]
  · simp only [tagPacket, Packet.ofMsg]
    split
    · exact C03.beAt_lt m 10 2
    · decide
  · exact C03.beAt_lt m 0 8
  · exact C15.byteAt_lt m 12

/-- every packet one step of the reassembly automaton returns is an unsegmented packet of the frame or was built by the
    constructor with the FRAME's endpoint, version and message type (the pending entry's version / message type are used, and
    they are checked to equal the frame's) -/
theorem localStep_built (q : Option Pending) (f : PFrame) :
    ∀ p ∈ (localStep q f).2, p ∈ f.unseg ∨ ∃ m, p = tagPacket f.ep f.ver (Packet.ofMsg f.mt m) := by
  intro p hp
  unfold localStep at hp
  split at hp
  · exact Or.inl hp
  · exact Or.inl hp
  · rename_i m hm
    dsimp only at hp
    split at hp
    · exact Or.inl hp
    · split at hp
      · exact Or.inl hp
      · rename_i q' hq'
        split at hp
        · rename_i hc
          split at hp
          · simp only [List.mem_append, List.mem_singleton] at hp
            rcases hp with hp | hp
            · exact Or.inl hp
            · right
              rw [hc.1, hc.2.1] at hp
              exact ⟨_, hp⟩
          · exact Or.inl hp
        · exact Or.inl hp

theorem walk_built (ep : Ep) (ver mt : Nat) (r : Bytes) :
    ∀ p ∈ (walk ep ver mt r).1, ∃ m, p = tagPacket ep ver (Packet.ofMsg mt m) := by
  intro p hp
  obtain ⟨off, _, _, h⟩ := C03S.walk_source ep ver mt r p hp
  exact ⟨_, h⟩

/-- **K2, header fields, capture-module frames (finding 3).**  For EVERY decoder state `s` (any history, any pending
    reassemblies) and EVERY buffer that is dispatched to the CMP path (at least 8 bytes, first byte ≠ 0): every packet returned
    by this call — unsegmented messages AND a message completed by reassembly — has the header members `CmpHdr` of the 8 frame
    header bytes of THIS buffer, and is literally `Packet(msgType, bytes)` tagged with them, for some message bytes. -/
theorem decode_header_fields (s : DecState) (b : Bytes) (h8 : 8 ≤ b.length) (h0 : byteAt b 0 ≠ 0) :
    ∀ p ∈ (decode s (some b)).2,
      CmpHdr (byteAt b 0) (beAt b 2 2) (byteAt b 5) (byteAt b 4) p ∧
      ∃ m, p = tagPacket (beAt b 2 2, byteAt b 5) (byteAt b 0) (Packet.ofMsg (byteAt b 4) m) := by
  intro p hp
  have hd : decode s (some b) = step s (parseFrame b) := by
    unfold decode decodeWith
    simp only [if_neg (show ¬ b.length < 8 by omega), if_neg h0]
  rw [hd, step_snd] at hp
  have key : ∃ m, p = tagPacket (beAt b 2 2, byteAt b 5) (byteAt b 0) (Packet.ofMsg (byteAt b 4) m) := by
    rcases localStep_built _ _ p hp with h | h
    · exact walk_built _ _ _ _ p h
    · exact h
  obtain ⟨m, rfl⟩ := key
  exact ⟨ofMsg_hdr (beAt b 2 2, byteAt b 5) (byteAt b 0) (byteAt b 4) m, m, rfl⟩

/-! ## §3 TECMP conversion: every byte of every converted payload, for EVERY buffer (finding 6) -/

/-- the byte layout of a payload the TECMP converter builds from the bytes `p` behind the 28-byte TECMP header: every byte is
    either a LITERAL ZERO (the flags / reserved / error-position bytes of CAN, bytes 0–3 and 5 of LIN, the seven counters of the
    interface status the converter never sets, its type / status / feature bytes and its empty stream-id and vendor blocks, the
    26 header bytes and the empty device description of the capture-module status), a length / DLC byte computed from a length
    read from `p`, or a value read from `p` -/
def TecShape (p : Bytes) (pl : Payload) : Prop :=
  (∃ c, (pl.ty = tyCan ∨ pl.ty = tyCanFd) ∧ 5 ≤ p.length ∧ 5 + byteAt p 4 ≤ p.length ∧
      (c = tecmpCanCrc p (byteAt p 4) ∨ c = tecmpCanCrc p (byteAt p 4) % 65536) ∧
      pl.data = [0, 0, 0, 0] ++ beEnc 4 (beAt p 0 4) ++ beEnc 4 c ++
        [0, 0, UInt8.ofNat (dlcOf (byteAt p 4)), UInt8.ofNat (byteAt p 4)] ++ slice p 5 (byteAt p 4)) ∨
  (pl.ty = tyLin ∧ 2 ≤ p.length ∧ 2 + byteAt p 1 ≤ p.length ∧
      pl.data = [0, 0, 0, 0, UInt8.ofNat (byteAt p 0 &&& 0x3F), 0,
        UInt8.ofNat (if p.length ≤ 2 + byteAt p 1 then 0 else byteAt p (2 + byteAt p 1)), UInt8.ofNat (byteAt p 1)] ++
        slice p 2 (byteAt p 1)) ∨
  (pl.ty = tyCm ∧ 18 ≤ p.length ∧
      pl.data = zeros 26 ++ [0, 2, 0, 0] ++ cmString (decimal (beAt p 8 4)) ++
        cmString ([chr 'v'] ++ decimal (byteAt p 16) ++ [chr '.'] ++ decimal (byteAt p 17)) ++
        cmString ([chr 'v'] ++ decimal (byteAt p 13) ++ [chr '.'] ++ decimal (byteAt p 14) ++ [chr '.'] ++
          decimal (byteAt p 15)) ++ [0, 0]) ∨
  (∃ off, pl.ty = tyIf ∧ off + 12 ≤ p.length ∧
      pl.data = beEnc 4 (beAt p off 4) ++ beEnc 4 (beAt p (off + 4) 4) ++ zeros 12 ++ beEnc 4 (beAt p (off + 8) 4) ++ zeros 16)

/-- a packet of the TECMP path: the skeleton `tecmpPacket` (version 1, device id = byte 1, timestamp = bytes 16..23 of the
    buffer, every other header member 0) with a 32-bit interface id and a payload of one of the four layouts -/
def TecOut (b : Bytes) (x : Packet) : Prop :=
  ∃ i pl, x = tecmpPacket b i pl ∧ i < 2 ^ 32 ∧ TecShape (b.drop 28) pl

theorem slice_len_of_le (p : Bytes) (off n : Nat) (h : off + n ≤ p.length) : (slice p off n).length = n := by
  simp only [slice, List.length_take, List.length_drop]; omega

theorem busObj_bytes (a m e : Nat) :
    C15.busObj a m e = beEnc 4 a ++ beEnc 4 m ++ zeros 12 ++ beEnc 4 e ++ zeros 16 := by
  unfold C15.busObj
  rw [C15S.beEnc4_bytes a, C15S.beEnc4_bytes m, C15S.beEnc4_bytes e]
  simp [writeAt, ifDefault, zeros, List.replicate]

theorem cmObj_bytes (s2 s3 s4 : Bytes) :
    cmSetData cmDefault [] s2 s3 s4 [] = zeros 26 ++ [0, 2, 0, 0] ++ cmString s2 ++ cmString s3 ++ cmString s4 ++ [0, 0] := by
  have h1 : (resize cmDefault 26).take 26 = zeros 26 := by decide
  have h2 : cmString [] = [0, 2, 0, 0] := by decide
  have h3 : beEnc 2 ([] : Bytes).length = [0, 0] := by decide
  unfold cmSetData
  rw [h1, h2, h3, List.append_nil]

theorem can_out (b p : Bytes) : ∀ x ∈ tecmpCan b p, ∃ i pl, x = tecmpPacket b i pl ∧ i < 2 ^ 32 ∧ TecShape p pl := by
  intro x hx
  by_cases h5 : p.length < 5
  · simp [tecmpCan, h5] at hx
  · by_cases hd : p.length - 5 < byteAt p 4
    · simp [tecmpCan, h5, hd] at hx
    · rw [C15.tecmpCan_eq b p (by omega) (by omega)] at hx
      simp only [List.mem_singleton] at hx
      have hl : (slice p 5 (byteAt p 4)).length = byteAt p 4 := slice_len_of_le p 5 _ (by omega)
      have hn : (slice p 5 (byteAt p 4)).length < 256 := by rw [hl]; exact C15.byteAt_lt p 4
      refine ⟨_, _, hx, C03.beAt_lt b 12 4, Or.inl ⟨(if byteAt p 4 > 8 then tecmpCanCrc p (byteAt p 4)
        else tecmpCanCrc p (byteAt p 4) % 65536), ?_, by omega, by omega, ?_, ?_⟩⟩
      · show (if byteAt p 4 > 8 then tyCanFd else tyCan) = tyCan ∨ (if byteAt p 4 > 8 then tyCanFd else tyCan) = tyCanFd
        split
        · exact Or.inr rfl
        · exact Or.inl rfl
      · split
        · exact Or.inl rfl
        · exact Or.inr rfl
      · show C15.canObj _ _ _ = _
        rw [C15S.canObj_bytes _ _ _ hn, hl]

theorem lin_out (b p : Bytes) : ∀ x ∈ tecmpLin b p, ∃ i pl, x = tecmpPacket b i pl ∧ i < 2 ^ 32 ∧ TecShape p pl := by
  intro x hx
  by_cases h2 : p.length < 2
  · simp [tecmpLin, h2] at hx
  · by_cases hd : p.length - 2 < byteAt p 1
    · simp [tecmpLin, h2, hd] at hx
    · rw [C15.tecmpLin_eq b p (by omega) (by omega)] at hx
      simp only [List.mem_singleton] at hx
      have hl : (slice p 2 (byteAt p 1)).length = byteAt p 1 := slice_len_of_le p 2 _ (by omega)
      refine ⟨_, _, hx, C03.beAt_lt b 12 4, Or.inr (Or.inl ⟨rfl, by omega, by omega, ?_⟩)⟩
      show C15.linObj _ _ _ = _
      rw [C15S.linObj_bytes, hl]

theorem cm_out (b p : Bytes) : ∀ x ∈ tecmpCm b p, ∃ i pl, x = tecmpPacket b i pl ∧ i < 2 ^ 32 ∧ TecShape p pl := by
  intro x hx
  unfold tecmpCm at hx
  split at hx
  · simp at hx
  · split at hx
    · simp at hx
    · simp only [List.mem_singleton] at hx
      exact ⟨_, _, hx, C03.beAt_lt b 12 4, Or.inr (Or.inr (Or.inl ⟨rfl, by omega, cmObj_bytes _ _ _⟩))⟩

theorem busEntries_out (b p : Bytes) (v : Nat) : ∀ fuel off, ∀ x ∈ tecmpBusEntries b p v fuel off,
    ∃ i pl, x = tecmpPacket b i pl ∧ i < 2 ^ 32 ∧ TecShape p pl := by
  intro fuel
  induction fuel with
  | zero => intro off x hx; simp [tecmpBusEntries] at hx
  | succ fuel ih =>
    intro off x hx
    unfold tecmpBusEntries at hx
    split at hx
    · simp only [List.mem_cons] at hx
      rcases hx with hx | hx
      · exact ⟨_, _, hx, C03.beAt_lt p off 4, Or.inr (Or.inr (Or.inr ⟨off, rfl, by omega, busObj_bytes _ _ _⟩))⟩
      · exact ih _ x hx
    · simp at hx

theorem bus_out (b p : Bytes) : ∀ x ∈ tecmpBus b p, ∃ i pl, x = tecmpPacket b i pl ∧ i < 2 ^ 32 ∧ TecShape p pl := by
  unfold tecmpBus
  split
  · intro x hx; simp at hx
  · exact busEntries_out b p _ _ _

/-- **K2 / K4 for the TECMP conversion (finding 6).**  For EVERY buffer `b` (no hypothesis: any length, any content, any
    declared lengths): every packet `TECMP::Decoder::Decode` returns is `tecmpPacket` of the buffer's device id / timestamp with
    a 32-bit interface id, and its payload has, byte for byte, one of the four layouts of `TecShape` — in particular every byte
    the converter does not set from the input is 0. -/
theorem tecmp_out (b : Bytes) : ∀ x ∈ tecmpDecode b, TecOut b x := by
  unfold tecmpDecode TecOut
  dsimp only
  repeat' split
  all_goals first
    | (intro x hx; simp at hx; done)
    | exact cm_out _ _
    | exact can_out _ _
    | exact lin_out _ _
    | exact bus_out _ _

/-- the offsets the review names, read back: flags / reserved (0..3) and error position (12..13) of CAN, bytes 0..3 and 5 of LIN,
    the counters 8..19 and everything from 24 on of the interface status, the 26 header bytes of the capture-module status are
    zero in EVERY packet the TECMP path returns for ANY buffer -/
theorem tecmp_unset_bytes_zero (b : Bytes) : ∀ x ∈ tecmpDecode b, ∃ pl, x.payload = some pl ∧
    ((pl.ty = tyCan ∨ pl.ty = tyCanFd) → pl.data.take 4 = zeros 4 ∧ slice pl.data 12 2 = zeros 2) ∧
    (pl.ty = tyLin → pl.data.take 4 = zeros 4 ∧ slice pl.data 5 1 = zeros 1) ∧
    (pl.ty = tyIf → slice pl.data 8 12 = zeros 12 ∧ pl.data.drop 24 = zeros 16 ∧ pl.data.length = 40) ∧
    (pl.ty = tyCm → pl.data.take 26 = zeros 26 ∧ slice pl.data 26 4 = [0, 2, 0, 0]) := by
  intro x hx
  obtain ⟨i, pl, rfl, _, hs⟩ := tecmp_out b x hx
  refine ⟨pl, rfl, ?_⟩
  rcases hs with ⟨c, hty, _, _, _, hd⟩ | ⟨hty, _, _, hd⟩ | ⟨hty, _, hd⟩ | ⟨off, hty, _, hd⟩
  · refine ⟨fun _ => ?_, fun h => ?_, fun h => ?_, fun h => ?_⟩
    · rw [hd, C15S.beEnc4_bytes, C15S.beEnc4_bytes]
      exact ⟨rfl, rfl⟩
    all_goals (rcases hty with hty | hty <;> rw [hty] at h <;> exact absurd h (by decide))
  · refine ⟨fun h => ?_, fun _ => ?_, fun h => ?_, fun h => ?_⟩
    · rcases h with h | h <;> rw [hty] at h <;> exact absurd h (by decide)
    · rw [hd]; exact ⟨rfl, rfl⟩
    all_goals (rw [hty] at h; exact absurd h (by decide))
  · refine ⟨fun h => ?_, fun h => ?_, fun h => ?_, fun _ => ?_⟩
    · rcases h with h | h <;> rw [hty] at h <;> exact absurd h (by decide)
    · rw [hty] at h; exact absurd h (by decide)
    · rw [hty] at h; exact absurd h (by decide)
    · rw [hd]; exact ⟨rfl, rfl⟩
  · refine ⟨fun h => ?_, fun h => ?_, fun _ => ?_, fun h => ?_⟩
    · rcases h with h | h <;> rw [hty] at h <;> exact absurd h (by decide)
    · rw [hty] at h; exact absurd h (by decide)
    · rw [hd, C15S.beEnc4_bytes, C15S.beEnc4_bytes, C15S.beEnc4_bytes]
      exact ⟨rfl, rfl, rfl⟩
    · rw [hty] at h; exact absurd h (by decide)

/-- the ten members of a packet, the way `decode` returns them for ANY buffer: counter and segment type 0, a payload present,
    everything within its C type -/
structure AnyHdr (p : Packet) : Prop where
  seq : p.seq = 0
  segType : p.segType = 0
  payload : p.payload.isSome
  version : p.version < 256
  deviceId : p.deviceId < 65536
  streamId : p.streamId < 256
  ifId : p.ifId < 2 ^ 32
  vendorId : p.vendorId < 65536
  ts : p.ts < 2 ^ 64
  flags : p.flags < 256

/-- **K2, header fields, the whole entry point (finding 3).**  EVERY state, EVERY argument (null pointer, short buffer, TECMP
    message, capture-module frame, anything): every returned packet has sequence counter 0, segment type 0, a payload, and all
    members within their C types -/
theorem decode_fields_any (s : DecState) (buf : Option Bytes) : ∀ p ∈ (decode s buf).2, AnyHdr p := by
  intro p hp
  cases buf with
  | none => simp [decode, decodeWith] at hp
  | some b =>
    by_cases h8 : b.length < 8
    · simp [decode, decodeWith, h8] at hp
    · by_cases h0 : byteAt b 0 = 0
      · have hd : (decode s (some b)).2 = tecmpDecode b := by
          simp only [decode, decodeWith, if_neg h8, if_pos h0]
        rw [hd] at hp
        obtain ⟨i, pl, rfl, hi, _⟩ := tecmp_out b p hp
        exact ⟨rfl, rfl, rfl, show (1 : Nat) < 256 by decide, Nat.lt_trans (C15.byteAt_lt b 1) (by decide),
          show (0 : Nat) < 256 by decide, hi, show (0 : Nat) < 65536 by decide, C03.beAt_lt b 16 8,
          show (0 : Nat) < 256 by decide⟩
      · obtain ⟨h, _⟩ := decode_header_fields s b (by omega) h0 p hp
        exact ⟨h.seq, h.segType, h.payload, by rw [h.version]; exact C15.byteAt_lt b 0,
          by rw [h.deviceId]; exact C03.beAt_lt b 2 2, by rw [h.streamId]; exact C15.byteAt_lt b 5,
          h.ifId.2, h.vendorId.2, h.ts, h.flags⟩

/-- … and over ANY history of calls ("interleaved traffic"): every packet ever returned -/
theorem decodeAll_fields_any : ∀ (bufs : List (Option Bytes)) (s : DecState),
    ∀ p ∈ (decodeAll tecmpDecode s bufs).2, AnyHdr p := by
  intro bufs
  induction bufs with
  | nil => intro s p hp; simp [decodeAll] at hp
  | cons b bs ih =>
    intro s p hp
    simp only [decodeAll, List.mem_append] at hp
    rcases hp with hp | hp
    · exact decode_fields_any s b p hp
    · exact ih _ p hp

open AsamCmp.SrcGen in
/-- the same for the TRANSLATED constructor `Packet(msgType, data, size)` (the contract behind `PktOut` / `toPacket`): on a wire
    message lying anywhere in a memory (`pre`, `post` arbitrary) it yields an object whose `sequenceCounter` and `segmentType`
    are 0, whose `version` is the default 1 and device / stream id 0 (until the decoder's setters run), whose `interfaceId` is 0
    unless `msgType` is data and whose `vendorId` is 0 unless it is status / vendor -/
theorem wire_ctor_src_members (mt : Nat) (pre m post : Bytes) (size : Nat) (hmt : mt < 256) (h16 : 16 ≤ m.length)
    (hlen : 16 + beAt m 14 2 ≤ m.length) (hmem : (pre ++ m ++ post).length < 2 ^ 64) :
    ∃ st, Packet_ctor_u8_ptr_u64_pv (pre ++ m ++ post) mt pre.length size = some st ∧
      st.f_sequenceCounter = 0 ∧ st.f_segmentType = 0 ∧ st.f_version = 1 ∧ st.f_deviceId = 0 ∧ st.f_streamId = 0 ∧
      (mt ≠ 1 → st.f_interfaceId = 0) ∧ (mt ≠ 3 → mt ≠ 0xFF → st.f_vendorId = 0) ∧ st.f_payload.isSome := by
  have h := ofMsg_hdr (0, 0) 1 mt m
  refine ⟨_, SrcPv.wire_ctor_src mt pre m post size hmt h16 hlen hmem, rfl, rfl, rfl, rfl, rfl, h.ifId.1, h.vendorId.1, rfl⟩

/-! ## §4 reassembly: the delivered payload is the declared bytes, whatever pads the frames (finding 2) -/

/-- the registered `C20.reassembly_bytes_declared` speaks about the specification packet `M.expected` only; composed with
    `reassemble_single` it speaks about the DECODER's reassembly automaton: whatever was pending before (`p0`), running it over
    the frames of a well-formed message returns exactly one packet, at the last frame, nothing stays pending, and that packet's
    payload is `Packet::create` of the concatenation of the declared segment bytes.  (`hlen`: the 16-bit length field holds the
    total; for larger totals see `C05S.C05_bytes_single_total` / `C05S.C05_violation_witness`.) -/
theorem reassembly_decoder_bytes_declared (M : SegMsg) (hwf : M.WF) (hlen : M.body.length ≤ 65535) (p0 : Option Pending) :
    ∃ x, runLocal p0 M.frames = (none, [x]) ∧ (runLocal p0 M.frames.dropLast).2 = [] ∧
      x.payload = some (create (M.mt * 256 + byteAt M.first.1 13) M.body) ∧
      x.version = M.ver ∧ x.deviceId = M.ep.1 ∧ x.streamId = M.ep.2 ∧ x.seq = 0 ∧ x.segType = 0 := by
  obtain ⟨h1, h2⟩ := reassemble_single M hwf hlen p0
  exact ⟨M.expected, h1, h2, expected_payload M hwf hlen, rfl, rfl, rfl, rfl, rfl⟩

open AsamCmp.C05S in
/-- **K2 / K4 for reassembly on BYTES (finding 2).**  Two well-formed segmented messages (`WireMsg.WF`: the property's
    "reassembly" workloads — first / intermediary* / last, one per frame, consecutive counters) that agree in version, message
    type, the first segment's header fields and the concatenation of the DECLARED bytes — and differ arbitrarily in the bytes
    BEHIND the declared ones in every frame (pad bytes / following garbage), in how the bytes are split into segments, in the
    later segments' header fields, in the counters — are decoded, from any two decoder states, to the same single packet:
    nothing of the frames' padding reaches the delivered packet.  The packet is given with all its members; its payload is
    `Packet::create` of the declared bytes (cut at `total mod 2^16`). -/
theorem reassembly_ignores_padding (dev stream : Nat) (hd : dev < 65536) (hs : stream < 256) (W W' : WireMsg)
    (hW : W.WF) (hW' : W'.WF)
    (hsame : W.ver = W'.ver ∧ W.mt = W'.mt ∧ W.first.1 = W'.first.1 ∧ W.body = W'.body) (d d' : DecState) :
    (decodeAll tecmpDecode d (W.bufs dev stream)).2 = (decodeAll tecmpDecode d' (W'.bufs dev stream)).2 ∧
    (decodeAll tecmpDecode d (W.bufs dev stream)).2 =
      [bytePacket W.ver dev W.mt stream W.first.1 (W.body.take (W.body.length % 65536))] := by
  obtain ⟨_, _, _, h1⟩ := WireMsg.single dev stream hd hs W hW d
  obtain ⟨_, _, _, h2⟩ := WireMsg.single dev stream hd hs W' hW' d'
  obtain ⟨e1, e2, e3, e4⟩ := hsame
  refine ⟨?_, h1⟩
  rw [h1, h2]
  simp only [WireMsg.packet, e1, e2, e3, e4]

/-! ## §5 K5: same calls on fresh objects, different memory ⇒ identical results (finding 7), translated source -/

open AsamCmp.SrcGen AsamCmp.SrcHist in
/-- **K5 for the decoder (translated `Decoder::decode` + `TECMP::Decoder::Decode`).**  Two histories of calls on two freshly
    constructed decoders that hand over the same buffers (`Call.arg`: null pointer or the bytes `b`) — but with every buffer
    lying in a DIFFERENT memory (`pre`, `post` arbitrary and different: "whatever the heap contained before"), at different
    addresses, with different loop fuel —: both runs are defined (no read outside a buffer in any call), and they return, call
    by call, identical packets and leave the same pending table.  Hypotheses: `Call.Ok` (non-null address, memory below 2^63,
    fuel ≥ buffer length) and fewer than 2^64 − 2^16 bytes in total — the addressability conditions of `decode_history_src`. -/
theorem decoder_src_memory_independent (calls calls' : List Call) (fuel fuel' : Nat)
    (hok : ∀ c ∈ calls, c.Ok fuel) (hok' : ∀ c ∈ calls', c.Ok fuel')
    (htot : (calls.map Call.bytes).sum + 65536 < 2 ^ 64) (htot' : (calls'.map Call.bytes).sum + 65536 < 2 ^ 64)
    (hargs : calls.map Call.arg = calls'.map Call.arg) :
    ∃ t t' outs, srcDecodeRun fuel Decoder_default calls = some (SrcDec.tblSt t, outs) ∧
      srcDecodeRun fuel' Decoder_default calls' = some (SrcDec.tblSt t', outs) ∧ t.abs = t'.abs ∧
      outs = (decodeEach DecState.empty (calls.map Call.arg)).2 := by
  obtain ⟨t, h1, _, _, h4, _⟩ := decode_history_src calls fuel hok htot
  obtain ⟨t', k1, _, _, k4, _⟩ := decode_history_src calls' fuel' hok' htot'
  rw [← hargs] at k1 k4
  exact ⟨t, t', _, h1, k1, h4.trans k4.symm, rfl⟩

open AsamCmp.SrcGen AsamCmp.SrcHist in
/-- **K5 for the encoder (translated public methods).**  Two `Encoder` objects that agree on their LOGICAL state (device id,
    stream id, sequence counter, message type: `Corr` to the same model encoder) and differ arbitrarily in the scratch members
    (`cmpFrames`, `cmpFrameTemplate`, `bytesLeft`, `min/maxBytesPerMessage` — recycled buffers, residue of earlier or aborted
    calls), driven through the same history of setDeviceId / setStreamId / restart / encode(batch) / encode(packet) calls:
    both runs are defined and every call returns bit-identical frames and getter values. -/
theorem encoder_src_scratch_independent (ops : List Op) (fuel : Nat) (hf : 65536 ≤ fuel) (hok : ∀ op ∈ ops, op.Ok)
    (s t : Encoder_St) (e : Enc) (hs : Corr s e) (ht : Corr t e) :
    ∃ s' t' obs, srcEncRun fuel s ops = some (s', obs) ∧ srcEncRun fuel t ops = some (t', obs) ∧
      obs = (modelRun e ops).2 := by
  obtain ⟨s', h1, _⟩ := encode_history_from fuel hf ops s e hs hok
  obtain ⟨t', h2, _⟩ := encode_history_from fuel hf ops t e ht hok
  exact ⟨s', t', _, h1, h2, rfl⟩

/-! ## §6 K3: payloads built through the API (finding 4) -/

/-- closed form of every `setData`, for a prior object `b` of ANY length and content: the header bytes the builder does not own
    (taken from `b`, zero-extended when `b` is shorter), then ONLY bytes computed from the arguments.  Nothing of `b` behind the
    header survives (no "grow only" residue), and the result's length is header + arguments. -/
theorem setData_closed_form (b : Bytes) :
    (∀ d, canSetData b d = (resize b 16).take 14 ++ ([UInt8.ofNat (dlcOf (d.length % 256)), UInt8.ofNat d.length] ++ d)) ∧
    (∀ d, linSetData b d = (resize b 8).take 7 ++ ([UInt8.ofNat d.length] ++ d)) ∧
    (∀ d, ethSetData b d = (resize b 6).take 4 ++ (beEnc 2 d.length ++ d)) ∧
    (∀ d, analogSetData b d = resize b 16 ++ d) ∧
    (∀ s1 s2 s3 s4 v, cmSetData b s1 s2 s3 s4 v =
      resize b 26 ++ (cmString s1 ++ (cmString s2 ++ (cmString s3 ++ (cmString s4 ++ (beEnc 2 v.length ++ v)))))) ∧
    (∀ ids v, ifSetData b ids v =
      resize b 36 ++ (beEnc 2 ids.length ++ (ids ++ (zeros (ids.length % 2) ++ (beEnc 2 v.length ++ v))))) := by
  have ht : ∀ n, (resize b n).take n = resize b n := fun n => List.take_of_length_le (by simp)
  refine ⟨?_, ?_, ?_, ?_, ?_, ?_⟩
  · intro d; rw [C13S.can_setData_prior, C13.canSetData_eq _ _ (by simp)]
  · intro d; rw [C13S.lin_setData_prior, C13.linSetData_eq _ _ (by simp)]
  · intro d; rw [C13S.eth_setData_prior, C13.ethSetData_eq _ _ (by simp)]
  · intro d; rw [C13S.analog_setData_prior, C13.analogSetData_eq _ _ (by simp), ht]
  · intro s1 s2 s3 s4 v; rw [C13S.cm_setData_prior, C13.cmSetData_eq _ _ _ _ _ _ (by simp), ht]
  · intro ids v; rw [C13S.if_setData_prior, C13.ifSetData_eq _ _ _ (by simp), ht]

open AsamCmp.SrcGen in
/-- **K3 / K5 for the builders, translated source.**  The translated `setData` of the six payload classes, run on two objects
    `m₁`, `m₂` of ANY lengths and contents that agree on the (zero-extended) header bytes the builder does not own, with caller
    buffers `x`, `x'` that agree on the `n` bytes handed over (and differ behind them), at different `this`: defined, and
    bit-identical results.  So neither a longer previous content of the object, nor bytes behind the caller's data, nor the
    object's address reach the built payload.  (`n < 256` etc.: the data lengths the API's length fields can hold.) -/
theorem setData_src_canonical (m₁ m₂ x x' : Bytes) (this this' n : Nat) (hn : n ≤ x.length) (hn' : n ≤ x'.length)
    (hx : x.take n = x'.take n) :
    (n < 256 → (resize m₁ 16).take 14 = (resize m₂ 16).take 14 →
      CanPayloadBase_setData m₁ this x n = CanPayloadBase_setData m₂ this' x' n ∧
      CanPayloadBase_setData m₁ this x n = some (canSetData m₁ (x.take n))) ∧
    (n < 256 → (resize m₁ 8).take 7 = (resize m₂ 8).take 7 →
      LinPayload_setData m₁ this x n = LinPayload_setData m₂ this' x' n ∧
      LinPayload_setData m₁ this x n = some (linSetData m₁ (x.take n))) ∧
    (n < 65536 → (resize m₁ 6).take 4 = (resize m₂ 6).take 4 →
      EthernetPayload_setData m₁ this x n = EthernetPayload_setData m₂ this' x' n ∧
      EthernetPayload_setData m₁ this x n = some (ethSetData m₁ (x.take n))) ∧
    (n + 16 < 2 ^ 64 → resize m₁ 16 = resize m₂ 16 →
      AnalogPayload_setData m₁ this x n = AnalogPayload_setData m₂ this' x' n ∧
      AnalogPayload_setData m₁ this x n = some (analogSetData m₁ (x.take n))) := by
  obtain ⟨c1, c2, c3, c4, _, _⟩ := C13S.setData_canonical_any m₁ m₂
  refine ⟨?_, ?_, ?_, ?_⟩
  · intro h8 hh
    rw [SrcTie.can_setData_src m₁ x this n hn h8, SrcTie.can_setData_src m₂ x' this' n hn' h8, ← hx, c1 _ hh]
    exact ⟨rfl, rfl⟩
  · intro h8 hh
    rw [SrcTie.lin_setData_src m₁ x this n hn h8, SrcTie.lin_setData_src m₂ x' this' n hn' h8, ← hx, c2 _ hh]
    exact ⟨rfl, rfl⟩
  · intro h16 hh
    rw [SrcTie.eth_setData_src m₁ x this n hn h16, SrcTie.eth_setData_src m₂ x' this' n hn' h16, ← hx, c3 _ hh]
    exact ⟨rfl, rfl⟩
  · intro h64 hh
    rw [SrcTie.analog_setData_src m₁ x this n hn h64, SrcTie.analog_setData_src m₂ x' this' n hn' h64, ← hx, c4 _ hh]
    exact ⟨rfl, rfl⟩

open AsamCmp.SrcGen in
/-- the two status classes: interface status (stream-id list, pad byte, vendor data) and capture-module status (four strings,
    vendor data).  `c`, `vl` are the element counts handed over; the caller buffers may continue arbitrarily behind them. -/
theorem setData_src_canonical_status (m₁ m₂ : Bytes) (this this' : Nat) :
    (∀ (ids ids' vendor vendor' : Bytes) (c vl : Nat), c ≤ ids.length → c ≤ ids'.length → vl ≤ vendor.length →
      vl ≤ vendor'.length → c < 65536 → vl < 65536 → ids.take c = ids'.take c → vendor.take vl = vendor'.take vl →
      resize m₁ 36 = resize m₂ 36 →
      InterfacePayload_setData m₁ this ids c vendor vl = InterfacePayload_setData m₂ this' ids' c vendor' vl ∧
      InterfacePayload_setData m₁ this ids c vendor vl = some (ifSetData m₁ (ids.take c) (vendor.take vl))) ∧
    (∀ (d s hw sw v : Bytes), d.length < 65534 → s.length < 65534 → hw.length < 65534 → sw.length < 65534 →
      v.length < 65536 → resize m₁ 26 = resize m₂ 26 →
      CaptureModulePayload_setData m₁ this d s hw sw v = CaptureModulePayload_setData m₂ this' d s hw sw v ∧
      CaptureModulePayload_setData m₁ this d s hw sw v = some (cmSetData m₁ d s hw sw v)) := by
  obtain ⟨_, _, _, _, c5, c6⟩ := C13S.setData_canonical_any m₁ m₂
  refine ⟨?_, ?_⟩
  · intro ids ids' vendor vendor' c vl h1 h2 h3 h4 h5 h6 e1 e2 hh
    rw [SrcTie.if_setData_src m₁ ids vendor this c vl h1 h3 h5 h6,
      SrcTie.if_setData_src m₂ ids' vendor' this' c vl h2 h4 h5 h6, ← e1, ← e2, c6 _ _ hh]
    exact ⟨rfl, rfl⟩
  · intro d s hw sw v h1 h2 h3 h4 h5 hh
    rw [SrcTie.cm_setData_src m₁ d s hw sw v this h1 h2 h3 h4 h5, SrcTie.cm_setData_src m₂ d s hw sw v this' h1 h2 h3 h4 h5,
      c5 _ _ _ _ _ hh]
    exact ⟨rfl, rfl⟩

/-- `Packet::create`, every type code, every byte string: the payload either keeps its type and is LITERALLY the input bytes, or
    it is marked invalid and holds `d.length` ZERO bytes (the value-initialised `payloadData(size)` the rejected branch never
    copies into) — no third possibility, so an invalid packet handed to the encoder puts zeros, not residue, on the wire -/
theorem create_bytes (ty : Nat) (d : Bytes) :
    ((create ty d).ty = ty ∧ (create ty d).data = d) ∨ ((create ty d).ty = 0 ∧ (create ty d).data = zeros d.length) := by
  unfold create
  split
  · split
    · exact Or.inl ⟨rfl, rfl⟩
    · exact Or.inr ⟨rfl, rfl⟩
  · split
    · exact Or.inr ⟨rfl, rfl⟩
    · exact Or.inl ⟨rfl, rfl⟩

open AsamCmp.SrcGen in
/-- the translated constructors behind the builders: the default-constructed payload objects the TECMP converter starts from
    and `Payload(type, size)` (the rejected branch of `Packet::create`) hold exactly the model's all-zero defaults -/
theorem default_objects_src :
    CanPayload_ctor_v_obj = some ⟨canDefault, tyCan⟩ ∧ CanFdPayload_ctor_v_obj = some ⟨canDefault, tyCanFd⟩ ∧
    LinPayload_ctor_v_obj = some ⟨linDefault, tyLin⟩ ∧ CaptureModulePayload_ctor_v_obj = some ⟨cmDefault, tyCm⟩ ∧
    InterfacePayload_ctor_v_obj = some ⟨ifDefault, tyIf⟩ ∧
    (∀ ty n, Payload_ctor_PayloadType_u64_pv ty n = some ⟨zeros n, ty⟩) ∧
    (∀ ty pre d post, Payload_ctor_PayloadType_ptr_u64_pv (pre ++ d ++ post) ty pre.length d.length =
      some (SrcPv.plRepr (if ty = 0 then ⟨0, zeros d.length⟩ else ⟨ty, d⟩))) :=
  ⟨rfl, rfl, rfl, rfl, rfl, fun _ _ => rfl, SrcPv.payload_ctor_src⟩

/-! ## §7 non-vacuity: the hypotheses hold on literal, non-trivial inputs; the conclusions are literal values (finding 8) -/
namespace Ex
open AsamCmp.SrcGen AsamCmp.SrcEnc

instance (p : Packet) : Decidable p.Enc := by unfold Packet.Enc; exact inferInstance

/-- a CONTROL packet (message type 2) whose object carries non-zero interface id and vendor id members, a VENDOR packet (0xFF)
    and a STATUS packet (3): the three message kinds "whose header leaves id bytes unused" -/
def ctl : Packet :=
  { payload := some ⟨0x0205, [0xC1, 0xC2, 0xC3]⟩, version := 1, ts := 0x0102030405060708, ifId := 0xAABBCCDD, vendorId := 0xEEFF,
    flags := 0x80 }
def vnd : Packet := { payload := some ⟨0xFF42, [9, 8]⟩, version := 1, ts := 7, ifId := 0xAABBCCDD, vendorId := 0x1234 }
def sta : Packet := { payload := some ⟨0x0377, [5]⟩, version := 1, ts := 8, ifId := 0xAABBCCDD, vendorId := 0x4321 }
/-- encoder with history: counter 65535 (wraps), last message type 1 -/
def e0 : Enc := { dev := 0x0A0B, stream := 3, seqc := 65535, curMt := 1 }
/-- min 40 > 8 + used for all three frames: every frame is PADDED -/
def c0 : Ctx := ⟨40, 100⟩

/-- the three frames: reserved byte 0; bytes 8..11 of the control message header 0 (NOT the object's 0xAABBCCDD / 0xEEFF);
    bytes 8..9 of the vendor / status header 0, then the vendor id; zero padding to 40 -/
def frames : List Bytes :=
  [[1, 0, 0x0A, 0x0B, 2, 3, 0, 0,     1, 2, 3, 4, 5, 6, 7, 8,  0, 0, 0, 0,        0x80, 5, 0, 3,     0xC1, 0xC2, 0xC3] ++ zeros 13,
   [1, 0, 0x0A, 0x0B, 0xFF, 3, 0, 1,  0, 0, 0, 0, 0, 0, 0, 7,  0, 0, 0x12, 0x34,  0, 0x42, 0, 2,     9, 8] ++ zeros 14,
   [1, 0, 0x0A, 0x0B, 3, 3, 0, 2,     0, 0, 0, 0, 0, 0, 0, 8,  0, 0, 0x43, 0x21,  0, 0x77, 0, 1,     5] ++ zeros 15]

example : c0.ok = true ∧ ∀ p ∈ [ctl, vnd, sta], p.Enc := by decide +kernel
example : (e0.encode [ctl, vnd, sta] c0).2.map (EFrame.bytes c0.min) = frames := by decide +kernel
example := encoder_frames_determined e0 [ctl, vnd, sta] c0 (by decide)
example := encoder_bytes_determined e0 [ctl, vnd, sta] c0 (by decide)

/-- the control packet's members are within their C types; the translated serialisers, run by the kernel: zeros at 8..11 -/
theorem ctl_reg : PktReg ctl := by unfold PktReg; decide
example := raw_headers_src_unused_zero ctl ctl_reg
example : (Packet_getRawMessageHeader_obj (pktSt ctl) ctl.mt ctl.rawType ctl.payloadLength).map (·.2) =
    some [1, 2, 3, 4, 5, 6, 7, 8, 0, 0, 0, 0, 0x80, 5, 0, 3] := by decide +kernel

/-- an `Encoder` object whose scratch members hold residue: a template of 100 bytes 0xFF, two stale frames full of 0xEE … -/
def sStale : Encoder_St :=
  { f_minBytesPerMessage := 7, f_maxBytesPerMessage := 9, f_deviceId := 0x0A0B, f_streamId := 3,
    f_cmpFrameTemplate := List.replicate 100 0xFF, f_bytesLeft := 55, f_sequenceCounter := 65535, f_messageType := 1,
    f_cmpFrames := [List.replicate 64 0xEE, [1, 2, 3]] }
/-- … the TRANSLATED `Encoder::encode`, run by the kernel on it, returns the same three padded frames: no 0xFF / 0xEE anywhere -/
example : (Encoder_encode_range_obj 65536 sStale ([ctl, vnd, sta].map pktIn) 40 100).map (·.2) = some frames := by
  decide +kernel
example := encoder_src_bytes_determined sStale [ctl, vnd, sta] c0 65536 (by decide) (by decide) (by decide +kernel) (by decide)

/-- K5, encoder: the history setDeviceId / encode(packet) / encode(batch) from the default-constructed object and from an object
    with residue in every scratch member (same logical state): identical observations -/
def sDirty : Encoder_St :=
  { Encoder_default with f_cmpFrameTemplate := List.replicate 30 0xFF, f_cmpFrames := [[0xEE, 0xEE]], f_bytesLeft := 9,
                         f_minBytesPerMessage := 1, f_maxBytesPerMessage := 2 }
example : SrcHist.Corr sDirty (Enc.fresh 0 0) := ⟨rfl, rfl, rfl, rfl, rfl, rfl, rfl, by decide⟩
example := encoder_src_scratch_independent SrcHist.exOps 65536 (by decide) SrcHist.exOps_ok Encoder_default sDirty
  (Enc.fresh 0 0) SrcHist.corr_fresh ⟨rfl, rfl, rfl, rfl, rfl, rfl, rfl, by decide⟩
example : (SrcHist.srcEncRun 65536 sDirty SrcHist.exOps).map (·.2) =
    (SrcHist.srcEncRun 65536 Encoder_default SrcHist.exOps).map (·.2) := by decide +kernel

/-- a capture-module frame holding ONE unsegmented CONTROL message (message type 2) whose wire header has GARBAGE in the unused
    id bytes 8..11 (DE AD BE EF), followed by 13 pad bytes -/
def ctlFrame : Bytes :=
  [1, 0, 0x0A, 0x0B, 2, 3, 0, 0,
   1, 2, 3, 4, 5, 6, 7, 8, 0xDE, 0xAD, 0xBE, 0xEF, 0x80, 5, 0, 3, 0xC1, 0xC2, 0xC3] ++ zeros 13

/-- the decoded packet, all ten members: interface id and vendor id are 0 (not the wire garbage), counter and segment type 0 -/
example : (decodeAll tecmpDecode DecState.empty [some ctlFrame]).2 =
    [{ payload := some ⟨0x0205, [0xC1, 0xC2, 0xC3]⟩, version := 1, deviceId := 0x0A0B, streamId := 3, seq := 0,
       ts := 0x0102030405060708, ifId := 0, vendorId := 0, flags := 0x80, segType := 0 }] := by
  rw [← (C17b.runLL_refines [some ctlFrame]).2.2]
  decide +kernel
/-- `decode_header_fields` applies to it (and to every state) -/
example (s : DecState) := decode_header_fields s ctlFrame (by decide) (by decide)

/-- TECMP: a CAN-FD message, a bus status with vendor data, a capture-module status: every payload byte as a literal; all the
    bytes the converter does not set are 0 -/
example : (tecmpDecode SrcTec.exCanFd).map (·.payload) =
    [some ⟨tyCanFd, [0, 0, 0, 0, 0x9A, 0xBC, 0xDE, 0xF1, 0, 0xCC, 0xBB, 0xAA, 0, 0, 9, 12, 1, 2, 3, 4, 5, 6, 7, 8, 9, 10, 11, 12]⟩] := by
  decide +kernel
example : ((tecmpDecode SrcTec.exBusV).map (·.payload)).head? =
    some (some ⟨tyIf, [0, 0, 0, 0x0A, 0, 0, 0, 100] ++ zeros 12 ++ [0, 0, 0, 1] ++ zeros 16⟩) := by decide +kernel
example : (tecmpDecode (C15S.exCmHdr.bytes ++ C15S.exCmPay)).map (·.payload) =
    [some ⟨tyCm, zeros 26 ++ [0, 2, 0, 0] ++ [0, 10, 49, 50, 51, 52, 53, 54, 55, 56, 0, 0] ++ [0, 6, 118, 52, 46, 53, 0, 0] ++
      [0, 8, 118, 49, 46, 50, 46, 51, 0, 0] ++ [0, 0]⟩] := by decide +kernel
example := tecmp_out SrcTec.exCanFd
example := tecmp_unset_bytes_zero SrcTec.exBusV
/-- `tecmp_out` is not vacuous on these buffers -/
example : (tecmpDecode SrcTec.exCanFd).length = 1 ∧ (tecmpDecode SrcTec.exBusV).length = 3 := by decide +kernel

/-- reassembly: `C05S.WA` (segments of 0 / 3 / 5 declared bytes, trailing EE EE and DD, counters 65535, 0, 1) and a message with
    the same declared bytes cut 4 / 4, other trailing bytes, other counters, another last-segment header -/
def WA' : C05S.WireMsg :=
  ⟨1, 1, 17, (⟨1000, 3, 4, 8⟩, [0, 0, 0, 0], [0x11, 0x22, 0x33]), [], (⟨5, 5, 12, 2⟩, [0, 2, 0xAA, 0xBB], [0x77])⟩
example : C05S.WA.WF ∧ WA'.WF ∧ C05S.WA.ver = WA'.ver ∧ C05S.WA.mt = WA'.mt ∧ C05S.WA.first.1 = WA'.first.1 ∧
    C05S.WA.body = WA'.body := ⟨by decide, by decide, rfl, rfl, rfl, by decide⟩
example : C05S.WA.bufs 0x0200 1 ≠ WA'.bufs 0x0200 1 ∧ (WA'.bufs 0x0200 1).length = 2 := by decide
example (d d' : DecState) :
    (decodeAll tecmpDecode d (C05S.WA.bufs 0x0200 1)).2 = (decodeAll tecmpDecode d' (WA'.bufs 0x0200 1)).2 ∧
    (decodeAll tecmpDecode d (C05S.WA.bufs 0x0200 1)).2 = [C05S.pktA] := by
  obtain ⟨h1, h2⟩ := reassembly_ignores_padding 0x0200 1 (by decide) (by decide) C05S.WA WA' (by decide) (by decide)
    ⟨rfl, rfl, rfl, by decide⟩ d d'
  exact ⟨h1, h2.trans (by decide +kernel)⟩

/-- non-vacuity of the registered `C20.reassembly_bytes_declared`: a `SegMsg` satisfying `WF` and the length bound, and the
    conclusion as a literal: Ethernet payload of the 8 declared bytes -/
example : (C05S.WA.toSegMsg 0x0200 1).expected.payload = some ⟨tyEth, [0, 0, 0, 0, 0, 2, 0xAA, 0xBB]⟩ := by
  rw [C20.reassembly_bytes_declared _ (C05S.WireMsg.toSegMsg_wf _ _ _ (by decide)) (by decide)]
  decide +kernel

example (p0 : Option Pending) := reassembly_decoder_bytes_declared (C05S.WA.toSegMsg 0x0200 1)
  (C05S.WireMsg.toSegMsg_wf _ _ _ (by decide)) (by decide) p0

/-- K5, decoder: the two-call history of `SrcHist.exCalls` with the buffers in OTHER memories (garbage before and behind, other
    addresses), other fuel -/
def exCalls' : List SrcHist.Call :=
  [.buf [0xEE, 0xEE, 0xEE] SrcHist.exSeg1 [0xFF, 0xFF], .buf (List.replicate 9 0xAB) SrcHist.exSeg2 []]
theorem exCalls'_ok : ∀ c ∈ exCalls', c.Ok 100 := by
  intro c hc
  simp only [exCalls', List.mem_cons, List.not_mem_nil, or_false] at hc
  rcases hc with rfl | rfl <;> exact ⟨by decide, by decide, by decide⟩
example := decoder_src_memory_independent SrcHist.exCalls exCalls' 64 100 SrcHist.exCalls_ok exCalls'_ok (by decide) (by decide)
  (by decide)
example : (SrcHist.srcDecodeRun 100 Decoder_default exCalls').map (·.2) = some [[], [SrcHist.exPkt]] := by decide +kernel

/-- K3: a CAN object that held 8 data bytes (and 0xEE residue behind) vs. a fresh one with the same header fields: `setData` of
    2 bytes through the TRANSLATED builder gives the same 18 bytes — nothing of the longer previous content survives -/
def canOld : Bytes := [0, 0, 0, 0, 0, 0, 1, 0x23, 0, 0, 0, 0, 0, 0, 8, 8, 1, 2, 3, 4, 5, 6, 7, 8, 0xEE, 0xEE]
def canNew : Bytes := [0, 0, 0, 0, 0, 0, 1, 0x23, 0, 0, 0, 0, 0, 0, 0, 0]
example : CanPayloadBase_setData canOld 0 [0xAA, 0xBB, 0x99] 2 = CanPayloadBase_setData canNew 64 [0xAA, 0xBB] 2 ∧
    CanPayloadBase_setData canOld 0 [0xAA, 0xBB, 0x99] 2 = some (canSetData canOld ([0xAA, 0xBB, 0x99].take 2)) :=
  (setData_src_canonical canOld canNew [0xAA, 0xBB, 0x99] [0xAA, 0xBB] 0 64 2 (by decide) (by decide) (by decide)).1
    (by decide) (by decide)
example : CanPayloadBase_setData canOld 0 [0xAA, 0xBB, 0x99] 2 =
    some [0, 0, 0, 0, 0, 0, 1, 0x23, 0, 0, 0, 0, 0, 0, 2, 2, 0xAA, 0xBB] := by decide +kernel
example : canSetData canOld [0xAA, 0xBB] = [0, 0, 0, 0, 0, 0, 1, 0x23, 0, 0, 0, 0, 0, 0, 2, 2, 0xAA, 0xBB] := by decide

/-- `create_bytes`, both branches: an accepted Ethernet payload is the input; a rejected one (length field 9 > 3 bytes) is zeros -/
example : create tyEth [0, 0, 0, 0, 0, 3, 1, 2, 3] = ⟨tyEth, [0, 0, 0, 0, 0, 3, 1, 2, 3]⟩ ∧
    create tyEth [0, 0, 0, 0, 0, 9, 1, 2, 3] = ⟨0, [0, 0, 0, 0, 0, 0, 0, 0, 0]⟩ := by decide
/-- … and the encoder, handed the packet with the rejected payload, puts exactly these zeros on the wire (payload type byte 0) -/
example : ((Enc.fresh 1 2).encode [{ payload := some (create tyEth [0, 0, 0, 0, 0, 9, 1, 2, 3]) }] ⟨0, 100⟩).2.map (EFrame.bytes 0) =
    [[1, 0, 0, 1, 0, 2, 0, 1,   0, 0, 0, 0, 0, 0, 0, 0, 0, 0, 0, 0, 0, 0, 0, 9,   0, 0, 0, 0, 0, 0, 0, 0, 0]] := by decide +kernel

end Ex

end AsamCmp.C20S
