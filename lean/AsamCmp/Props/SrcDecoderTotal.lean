/-
  `Decoder::decode` as a whole, source level, with the TRANSLATED TECMP decoder plugged in: ONE theorem for every buffer of at
  least 8 bytes — CMP frame or TECMP message, no hypothesis on the first byte — plus the null-pointer and short-buffer cases.
  The translated `ASAM::CMP::Decoder::decode` (GeneratedSrcObj.lean) takes the TECMP decoder as a parameter; here the parameter
  is `SrcTec.tecmpExt`, i.e. the translation of `TECMP::Decoder::Decode` (GeneratedSrcTecmp.lean), and the result is compared with
  the FULL decoder model `decode = decodeWith tecmpDecode` (Tecmp.lean) that C01, C02, C04–C06, C15, C17, C18 are about.  Nothing
  of the decoding path is a contract any more except `mkPacket` (the `Packet(type, data, size)` constructor, whose translation is
  related to it in Props/SrcPacketValue.lean).
-/
import AsamCmp.Props.SrcDecoderE2E
import AsamCmp.Props.SrcTecmp
namespace AsamCmp.SrcDec
open AsamCmp AsamCmp.Src AsamCmp.SrcGen

theorem decodeLL_tecmp (t : Table) (b : Bytes) (h8 : 8 ≤ b.length) (h0 : byteAt b 0 = 0) :
    decodeLL t (some b) = (t, tecmpDecode b) := by
  have : ¬ b.length < 8 := by omega
  simp only [decodeLL, this, if_false, h0, if_true]

/-- EVERY buffer of at least 8 bytes (the frame header size) at a non-null address: the translated `Decoder::decode`, with the
    translated `TECMP::Decoder::Decode` as its TECMP branch, is defined, leaves exactly the model's pending table and returns
    exactly the model's packets -/
theorem decode_total_src (t : Table) (pre b post : Bytes) (fuel : Nat)
    (hT : C17b.TableOk t) (hR : TableReg t) (hpre : 0 < pre.length) (h8 : 8 ≤ b.length)
    (hmem : (pre ++ b ++ post).length < 2 ^ 63) (hf : b.length ≤ fuel) :
    ∃ t' outs, Decoder_decode_obj fuel (tblSt t) (pre ++ b ++ post) pre.length b.length (SrcTec.tecmpExt fuel) =
        some (tblSt t', outs) ∧
      C17b.TableOk t' ∧ t'.abs = (decode t.abs (some b)).1 ∧
      outs.map (Sum.elim toPacket SrcTec.tAbs) = (decode t.abs (some b)).2 := by
  by_cases h0 : byteAt b 0 = 0
  · obtain ⟨hsrc, hmap⟩ := SrcTec.decode_tecmp_src (tblSt t) pre b post fuel toPacket hpre h8 h0 (by omega) hf
      (fun _ => by
        have := C03.beAt_lt b 32 2
        have hbl : b.length ≤ (pre ++ b ++ post).length := by simp only [List.length_append]; omega
        omega)
    obtain ⟨_, k2, k3⟩ := C17b.decodeLL_refines t (some b) hT
    rw [decodeLL_tecmp t b h8 h0] at k2 k3
    exact ⟨t, _, hsrc, hT, k2, by rw [hmap]; exact k3⟩
  · obtain ⟨t', outs, h1, h2, h3, h4⟩ := decode_src_model t pre b post fuel (SrcTec.tecmpExt fuel) hT hR hpre h8 h0 hmem hf
    refine ⟨t', _, h1, h2, h3, ?_⟩
    rw [List.map_map, ← h4]
    rfl

/-- a null pointer (any size): nothing happens, as in the model -/
theorem decode_total_null_src (t : Table) (m : Bytes) (size fuel : Nat) :
    Decoder_decode_obj fuel (tblSt t) m 0 size (SrcTec.tecmpExt fuel) = some (tblSt t, []) ∧
    decode t.abs none = (t.abs, []) :=
  ⟨(decode_other_src (tblSt t) m 0 size fuel (SrcTec.tecmpExt fuel)).1, rfl⟩

/-- a buffer shorter than the 8-byte frame header at a non-null address: nothing happens (and nothing is read), as in the model -/
theorem decode_total_short_src (t : Table) (m b : Bytes) (data fuel : Nat) (hd : 0 < data) (hs : b.length < 8) :
    Decoder_decode_obj fuel (tblSt t) m data b.length (SrcTec.tecmpExt fuel) = some (tblSt t, []) ∧
    decode t.abs (some b) = (t.abs, []) := by
  refine ⟨(decode_other_src (tblSt t) m data b.length fuel (SrcTec.tecmpExt fuel)).2.1 hd hs, ?_⟩
  show decodeWith tecmpDecode t.abs (some b) = (t.abs, [])
  simp only [decodeWith, hs, if_true]

/-! ### the hypotheses are satisfiable: a TECMP message and a CMP frame, from the empty table -/

theorem tableOk_nil : C17b.TableOk [] := C17b.tableOk_empty
theorem tableReg_nil : TableReg [] := by intro x hx; simp at hx

/-- a CMP data frame (version 1, device 0x0102, message type 1, stream 7, counter 5) holding one unsegmented Ethernet message
    (payload type 8, declared length 8) and a second, truncated one -/
def exFrame : Bytes :=
  [1, 0, 1, 2, 1, 7, 0, 5,
   0, 0, 0, 0, 0, 0, 0, 9, 0, 0, 0, 3, 0, 8, 0, 8, 0, 0, 0, 0, 0, 2, 0xAA, 0xBB,
   0, 0, 0, 0, 0, 0, 0, 9, 0, 0, 0, 3, 0, 8, 0, 8, 0, 0]

example : ∃ t' outs, Decoder_decode_obj 64 (tblSt []) ([9] ++ SrcTec.exCanFd ++ [5, 5]) 1 49 (SrcTec.tecmpExt 64) = some (tblSt t', outs) ∧
    C17b.TableOk t' ∧ t'.abs = (decode (Table.abs []) (some SrcTec.exCanFd)).1 ∧
    outs.map (Sum.elim toPacket SrcTec.tAbs) = (decode (Table.abs []) (some SrcTec.exCanFd)).2 :=
  decode_total_src [] [9] SrcTec.exCanFd [5, 5] 64 tableOk_nil tableReg_nil (by decide) (by decide) (by decide) (by decide)
example : ((decode (Table.abs []) (some SrcTec.exCanFd)).2.map fun p => (p.payload.map (·.ty), p.deviceId)) = [(some tyCanFd, 7)] := by
  decide

example : ∃ t' outs, Decoder_decode_obj 64 (tblSt []) ([9] ++ exFrame ++ []) 1 50 (SrcTec.tecmpExt 64) = some (tblSt t', outs) ∧
    C17b.TableOk t' ∧ t'.abs = (decode (Table.abs []) (some exFrame)).1 ∧
    outs.map (Sum.elim toPacket SrcTec.tAbs) = (decode (Table.abs []) (some exFrame)).2 :=
  decode_total_src [] [9] exFrame [] 64 tableOk_nil tableReg_nil (by decide) (by decide) (by decide) (by decide)
/-- … on which the model delivers one packet and ignores the truncated message (evaluated through the low-level model, which
    `C17b.decodeLL_refines` proves equal to `decode`; `decode` itself recurses on a well-founded measure and does not evaluate
    in the kernel) -/
example : ((decodeLL [] (some exFrame)).2.map fun p => (p.payload.map (·.ty), p.deviceId, p.streamId, p.ifId)) =
    [(some tyEth, 0x0102, 7, 3)] := by decide

end AsamCmp.SrcDec
