/-
  Key type of the decoder's `std::unordered_map<Endpoint, SegmentedPacket, EndpointHash>`.  The map primitives of Src/Obj.lean
  (`mapFind`, `mapErase`, `mapPut`, `mapIndex`) compare keys structurally, as pairs (deviceId, streamId).  That is what the container
  does only if the key's `operator==` is equality of both members and the hash is a function of the key; both are translated from
  include/asam_cmp/decoder.h on every run and proved here, so a key comparison that ignores a member (merging endpoints: C05, C18)
  breaks an obligation.
-/
import AsamCmp.GeneratedSrcObj
namespace AsamCmp.SrcDec
open AsamCmp AsamCmp.Src AsamCmp.SrcGen

/-- `Endpoint::operator==` is equality of the pair (deviceId, streamId), for all values -/
theorem endpoint_eq_src (s : Decoder_Endpoint_St) (d st : Nat) :
    Decoder_Endpoint_operator___obj s d st = some (s, decide ((s.f_deviceId, s.f_streamId) = (d, st))) := by
  unfold Decoder_Endpoint_operator___obj
  by_cases h1 : s.f_deviceId = d <;> by_cases h2 : s.f_streamId = st <;> simp [h1, h2, pure]

/-- `EndpointHash::operator()` is defined for every key within the members' types (the `int` shift `streamId << 16` cannot overflow)
    and depends on the key only: equal keys hash equally, which is all `std::unordered_map` requires -/
theorem endpoint_hash_src (h : Decoder_EndpointHash_St) (d st : Nat) (hd : d < 65536) (hs : st < 256) :
    Decoder_EndpointHash_operator___obj h d st = some (h, d ||| st <<< 16) := by
  have hsh : st <<< 16 < 2 ^ 24 := by rw [Nat.shiftLeft_eq]; omega
  have e1 : sshl 32 st 16 = some (st <<< 16) := by
    unfold sshl
    rw [if_pos]
    exact ⟨by omega, by omega, by omega⟩
  have hor : d ||| st <<< 16 < 2 ^ 24 := Nat.or_lt_two_pow (by omega) hsh
  have e2 : sext 32 64 (d ||| st <<< 16) = d ||| st <<< 16 := by
    unfold sext
    rw [if_pos (by omega)]
  unfold Decoder_EndpointHash_operator___obj
  simp only [e1, e2, bind, Option.bind, pure]

/-- on keys within the members' types the hash is even injective -/
theorem endpoint_hash_inj (d1 s1 d2 s2 : Nat) (h1 : d1 < 65536) (h2 : d2 < 65536)
    (h : d1 ||| s1 <<< 16 = d2 ||| s2 <<< 16) : (d1, s1) = (d2, s2) := by
  have a1 : d1 ||| s1 <<< 16 = d1 + s1 * 65536 := by
    rw [Nat.shiftLeft_eq, Nat.or_comm, show s1 * 2 ^ 16 = 2 ^ 16 * s1 from Nat.mul_comm _ _, ← Nat.two_pow_add_eq_or_of_lt (by omega : d1 < 2 ^ 16)]
    omega
  have a2 : d2 ||| s2 <<< 16 = d2 + s2 * 65536 := by
    rw [Nat.shiftLeft_eq, Nat.or_comm, show s2 * 2 ^ 16 = 2 ^ 16 * s2 from Nat.mul_comm _ _, ← Nat.two_pow_add_eq_or_of_lt (by omega : d2 < 2 ^ 16)]
    omega
  rw [a1, a2] at h
  have : d1 = d2 ∧ s1 = s2 := by omega
  rw [this.1, this.2]

example : (Decoder_Endpoint_operator___obj ⟨0x1234, 7⟩ 0x1234 8).map (·.2) = some false := by decide
example : (Decoder_EndpointHash_operator___obj ⟨⟩ 0x1234 7).map (·.2) = some 0x71234 := by decide
end AsamCmp.SrcDec
