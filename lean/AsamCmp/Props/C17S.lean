/-
  C17 strengthened: additional theorems about the EXISTING definitions that close weaknesses an
  independent review found in the statements registered for property C17
  ("Decoder keeps reassembly state only for messages still in progress").

  Sections (numbers = the review's findings):
   §1  the byte bound measured against the WIRE: declared length fields, equality, trailing bytes
   §6  one-step release facts (abort / supersede / orphan) and "pending ⇒ last frame was a first or
       intermediary segment"
   §5  table level: number of entries, byte total, baseline
   §2  witnesses: literal histories on which something IS pending (by `decide`)
   §3  source level: whole histories of the TRANSLATED `Decoder::decode`, buffers of ANY length (`huge_frame_released`:
       a frame of 2^31 + 8 bytes and more releases the endpoint's pending entry like any other frame; while the
       remaining size was an `int` the source kept the entry the model erases)
   §4  TECMP / null / short buffers leave the table literally untouched (concrete TECMP decoder)
-/
import AsamCmp.Props.C17
import AsamCmp.Props.C17b
import AsamCmp.Props.C05b
import AsamCmp.Props.SrcDecoderTotal
namespace AsamCmp.C17S
open AsamCmp AsamCmp.C17b AsamCmp.C05b

/-! ## §1  Pending bytes against the wire -/

/-- a segment terminator is exactly a 16-byte header followed by as many bytes as the header's
    length field (offset 14, 2 bytes, big endian) DECLARES -/
def PFrame.Exact (f : PFrame) : Prop :=
  match f.term with
  | .seg m => m.length = 16 + beAt m 14 2
  | _ => True

theorem beAt_take (r : Bytes) (n off w : Nat) (h : off + w ≤ n) : beAt (r.take n) off w = beAt r off w := by
  unfold beAt slice
  rw [List.drop_take, List.take_take]
  congr 2
  omega

theorem beAt_drop (r : Bytes) (a off w : Nat) : beAt (r.drop a) off w = beAt r (a + off) w := by
  unfold beAt slice
  rw [List.drop_drop]

theorem slice_drop (r : Bytes) (a off n : Nat) : slice (r.drop a) off n = slice r (a + off) n := by
  unfold slice
  rw [List.drop_drop]

/-- what `walk` hands out as a segment is a contiguous piece of the bytes it walked over: it starts
    at some offset `k`, and is the 16 header bytes found there plus the number of bytes that header
    declares — nothing that follows in the buffer -/
theorem walk_seg_wire (ep : Ep) (ver mt : Nat) (r : Bytes) :
    ∀ m, (walk ep ver mt r).2 = .seg m →
      ∃ k, m = slice r k (16 + beAt r (k + 14) 2) ∧ k + 16 + beAt r (k + 14) 2 ≤ r.length ∧
        m.length = 16 + beAt m 14 2 ∧ beAt m 14 2 = beAt r (k + 14) 2 := by
  fun_induction walk ep ver mt r with
  | case1 r h0 => intro m h; cases h
  | case2 r h0 h1 => intro m h; cases h
  | case3 r h0 h1 len h2 =>
    intro m h
    simp only [Term.seg.injEq] at h
    subst h
    simp only [msgValid, Bool.not_eq_true, Bool.not_eq_false', Bool.and_eq_true, decide_eq_true_eq] at h1
    have hb : beAt (List.take (16 + len) r) 14 2 = len := beAt_take r (16 + len) 14 2 (by omega)
    refine ⟨0, ?_, ?_, ?_, ?_⟩
    · simp [slice, len]
    · simp only [Nat.zero_add]; show 16 + len ≤ r.length; omega
    · rw [hb, List.length_take]; omega
    · rw [hb]
  | case4 r h0 h1 len h2 p rest ih =>
    intro m h
    obtain ⟨k, e1, e2, e3, e4⟩ := ih m h
    simp only [msgValid, Bool.not_eq_true, Bool.not_eq_false', Bool.and_eq_true, decide_eq_true_eq] at h1
    have hl : 16 + len ≤ r.length := by
      have : len = beAt r 14 2 := rfl
      omega
    rw [beAt_drop] at e1 e2 e4
    rw [slice_drop] at e1
    rw [List.length_drop] at e2
    refine ⟨16 + len + k, ?_, ?_, e3, ?_⟩
    · rw [e1]; congr 2
    · have : 16 + len + k + 14 = 16 + len + (k + 14) := by omega
      rw [this]; omega
    · rw [e4]; congr 1

/-- every frame `parseFrame` yields is exact … -/
theorem parseFrame_exact (b : Bytes) : PFrame.Exact (parseFrame b) := by
  unfold PFrame.Exact
  split
  · rename_i m hm
    obtain ⟨k, _, _, h, _⟩ := walk_seg_wire _ _ _ _ m hm
    exact h
  · trivial

/-- … and its segment is a contiguous piece of the buffer behind the 8-byte frame header: 16 header
    bytes at some offset `pos ≥ 8` and exactly the bytes that header declares.  Bytes that follow in
    the buffer (padding, further messages) are not part of it. -/
theorem parseFrame_seg_wire (b : Bytes) (m : Bytes) (h : (parseFrame b).term = .seg m) :
    ∃ pos, 8 ≤ pos ∧ m = slice b pos (16 + beAt b (pos + 14) 2) ∧
      pos + 16 + beAt b (pos + 14) 2 ≤ b.length ∧ beAt m 14 2 = beAt b (pos + 14) 2 := by
  obtain ⟨k, e1, e2, _, e4⟩ := walk_seg_wire _ _ _ _ m h
  rw [beAt_drop] at e1 e2 e4
  rw [slice_drop] at e1
  rw [List.length_drop] at e2
  refine ⟨8 + k, by omega, ?_, ?_, ?_⟩
  · rw [e1]; congr 2
  · have : 8 + k + 14 = 8 + (k + 14) := by omega
    rw [this]; omega
  · rw [e4]; congr 1

/-- the segment bytes RECEIVED for the message in progress, read off the wire: the DECLARED payload
    length (header bytes 14–15) of its first segment plus those of the segments since -/
def declStep (acc : Nat) (f : PFrame) : Nat :=
  match f.term with
  | .seg m => if segTypeOf m = 4 then beAt m 14 2 else acc + beAt m 14 2
  | _ => 0

def declBytes (fs : List PFrame) : Nat := fs.foldl declStep 0

/-- pending bytes are EXACTLY 16 + `acc` -/
def BytesEq (p : Option Pending) (acc : Nat) : Prop :=
  match p with
  | none => True
  | some q => q.buf.length = 16 + acc

theorem localStep_bytes_eq (p : Option Pending) (f : PFrame) (acc : Nat) (hp : PendingOk p)
    (hf : PFrame.Exact f) (hb : BytesEq p acc) : BytesEq (localStep p f).1 (declStep acc f) := by
  obtain ⟨ep, ver, mt, seq, unseg, term⟩ := f
  cases term with
  | done => simp [localStep, BytesEq]
  | invalid => simp [localStep, BytesEq]
  | seg m =>
    simp only [PFrame.Exact] at hf
    simp only [localStep, declStep]
    by_cases h4 : segTypeOf m = 4
    · simp only [h4, if_true, BytesEq]; omega
    · simp only [h4, if_false]
      by_cases hu : unseg.isEmpty = true
      · simp only [hu, if_true]
        cases p with
        | none => simp [BytesEq]
        | some q =>
          simp only [PendingOk] at hp
          simp only [BytesEq] at hb
          obtain ⟨hlast, hbuf⟩ := hp
          have hlen : (fixLen (q.buf ++ List.drop 16 m)).length = q.buf.length + (m.length - 16) := by
            rw [fixLen_length] <;> simp <;> omega
          dsimp only
          generalize fixLen (q.buf ++ List.drop 16 m) = nb at hlen ⊢
          split
          · split
            · simp [BytesEq]
            · simp only [BytesEq]; omega
          · simp [BytesEq]
      · simp [hu, BytesEq]

theorem exact_wf (f : PFrame) (h : PFrame.Exact f) : f.WF := by
  unfold PFrame.Exact at h
  unfold PFrame.WF
  split
  · rename_i m hm
    rw [hm] at h
    simp only at h
    omega
  · trivial

theorem lrun_bytes_eq : ∀ (fs : List PFrame) (p : Option Pending) (acc : Nat), (∀ f ∈ fs, PFrame.Exact f) →
    PendingOk p → BytesEq p acc → BytesEq (lrun p fs) (fs.foldl declStep acc) := by
  intro fs
  induction fs with
  | nil => intro p acc _ _ hb; exact hb
  | cons f fs ih =>
    intro p acc hwf hp hb
    have hf := hwf f (List.mem_cons_self ..)
    have h2 := (localStep_refines p f hp (exact_wf f hf)).2
    have h3 := localStep_bytes_eq p f acc hp hf hb
    exact ih (localStep p f).1 _ (fun g hg => hwf g (List.mem_cons_of_mem _ hg)) h2 h3

theorem framesOf_exact (bufs : List (Option Bytes)) : ∀ f ∈ framesOf bufs, PFrame.Exact f := by
  induction bufs with
  | nil => intro f hf; simp [framesOf] at hf
  | cons b bs ih =>
    intro f hf
    unfold framesOf at hf
    split at hf
    · simp only [List.mem_cons] at hf
      rcases hf with rfl | hf
      · exact parseFrame_exact _
      · exact ih f hf
    · exact ih f hf

/-- **K6 against the wire, as an equality.**  After ANY history of buffers from a fresh decoder, the
    bytes held for endpoint `e` are exactly the 16 header bytes plus the payload lengths DECLARED by
    the segments of `e`'s open message (first segment and the accepted continuations since) — so in
    particular never more than the segment bytes received ("Pending bytes never exceed the segment
    bytes received for the open messages").  No hypotheses. -/
theorem pending_bytes_wire (bufs : List (Option Bytes)) (e : Ep) :
    match (decodeAll tecmpDecode DecState.empty bufs).1 e with
    | none => True
    | some q => q.buf.length = 16 + declBytes ((framesOf bufs).filter (fun f => f.ep = e)) := by
  rw [decodeAll_state, run_fst_at]
  have hex : ∀ f ∈ (framesOf bufs).filter (fun f => f.ep = e), PFrame.Exact f :=
    fun f hf => framesOf_exact bufs f (List.mem_filter.mp hf).1
  exact lrun_bytes_eq _ none 0 hex trivial trivial

/-- the existing bound's measure `openBytes` (which counts `m.length - 16`) coincides with the
    wire measure `declBytes` on everything `parseFrame` yields: the registered `≤` is about declared
    bytes too, and it is tight -/
theorem openBytes_eq_declBytes (fs : List PFrame) (h : ∀ f ∈ fs, PFrame.Exact f) :
    openBytes fs = declBytes fs := by
  unfold openBytes declBytes
  generalize 0 = acc
  induction fs generalizing acc with
  | nil => rfl
  | cons f fs ih =>
    simp only [List.foldl_cons]
    have hf := h f (List.mem_cons_self ..)
    have : openBytesStep acc f = declStep acc f := by
      obtain ⟨ep, ver, mt, seq, unseg, term⟩ := f
      cases term with
      | done => rfl
      | invalid => rfl
      | seg m =>
        simp only [PFrame.Exact] at hf
        simp only [openBytesStep, declStep]
        split <;> omega
    rw [this]
    exact ih (fun g hg => h g (List.mem_cons_of_mem _ hg)) _

/-- on the wire layout `segFrame` (frame header, segment header declaring `body.length`, the body,
    then ANY trailing bytes) the measure counts the body only: trailing bytes are never "segment
    bytes received".  Hypotheses: the header fields fit their wire widths, the flags byte carries the
    segment type (`SegHdr.WF`), the body fits the 16-bit length field. -/
theorem declStep_segFrame (ver dev mt stream seq : Nat) (h : SegHdr) (seg : Nat) (body trail : Bytes) (acc : Nat)
    (hv : 1 ≤ ver ∧ ver < 256) (hd : dev < 65536) (hm : mt < 256) (hs : stream < 256) (hq : seq < 65536)
    (hseg : seg = 4 ∨ seg = 8 ∨ seg = 12) (hh : h.WF seg) (hb : body.length < 65536) :
    declStep acc (parseFrame (segFrame ver dev mt stream seq h body trail)) =
      if seg = 4 then body.length else acc + body.length := by
  rw [segFrame_parse ver dev mt stream seq h seg body trail hv hd hm hs hq hseg hh hb]
  have hlen : beAt (h.bytes body.length ++ body) 14 2 = body.length := by
    have := segHdr_len h.ts h.idw h.flags h.ptype body.length body
    rw [Nat.mod_eq_of_lt hb] at this
    exact this
  have hty : segTypeOf (h.bytes body.length ++ body) = seg := by
    have h16 : (h.bytes body.length).length = 16 := segHdr_length ..
    rw [segTypeOf_append _ _ (by omega)]
    exact (segTypeOf_segHdr _ _ _ _ _ hh.2.2.1).trans hh.2.2.2.2.1
  simp only [declStep, hlen, hty]

/-! ## §6  One-step release facts; "pending ⇒ the last frame was a first or intermediary segment" -/

theorem openAfter_snoc (fs : List PFrame) (f : PFrame) : openAfter (fs ++ [f]) = openSpec (openAfter fs) f := by
  simp [openAfter, List.foldl_append]

/-- the specification automaton says "in progress" only right after a first or an intermediary
    segment -/
theorem open_last_frame (fs : List PFrame) (f : PFrame) (h : openAfter (fs ++ [f]) ≠ none) :
    ∃ m, f.term = .seg m ∧ (segTypeOf m = 4 ∨ segTypeOf m = 8) := by
  rw [openAfter_snoc] at h
  obtain ⟨ep, ver, mt, seq, unseg, term⟩ := f
  cases term with
  | done => exact absurd rfl h
  | invalid => exact absurd rfl h
  | seg m =>
    refine ⟨m, rfl, ?_⟩
    simp only [openSpec] at h
    by_cases h4 : segTypeOf m = 4
    · exact Or.inl h4
    · by_cases h8 : segTypeOf m = 8
      · exact Or.inr h8
      · simp [h4, h8] at h

/-- **K2 "⇒", in the words of the text.**  After any history of buffers: if the decoder holds data
    for endpoint `e`, then `e` was addressed by at least one frame, and the MOST RECENT frame
    addressed to `e` ended in a first (type 4: "opened") or an intermediary (type 8: "continued")
    segment.  No hypotheses. -/
theorem pending_last_frame (bufs : List (Option Bytes)) (e : Ep)
    (h : (decodeAll tecmpDecode DecState.empty bufs).1 e ≠ none) :
    ∃ earlier f, (framesOf bufs).filter (fun f => f.ep = e) = earlier ++ [f] ∧ f.ep = e ∧
      ∃ m, f.term = .seg m ∧ (segTypeOf m = 4 ∨ segTypeOf m = 8) := by
  have h1 := (C17_bytes bufs e).1
  generalize hL : (framesOf bufs).filter (fun f => f.ep = e) = L at h1
  have hopen : openAfter L ≠ none := by
    intro hn
    rw [hn] at h1
    cases hq : (decodeAll tecmpDecode DecState.empty bufs).1 e with
    | none => exact h hq
    | some q => rw [hq] at h1; cases h1
  have hne : L ≠ [] := by
    intro hnil
    rw [hnil] at hopen
    exact hopen rfl
  have hsplit := List.dropLast_concat_getLast hne
  have hmem : L.getLast hne ∈ (framesOf bufs).filter (fun f => f.ep = e) := by
    rw [hL]; exact List.getLast_mem hne
  refine ⟨L.dropLast, L.getLast hne, hsplit.symm, ?_, ?_⟩
  · simpa using (List.mem_filter.mp hmem).2
  · apply open_last_frame L.dropLast
    rw [hsplit]
    exact hopen

/-- **K4, one step (abort by mismatch).**  Something is pending; the next frame of the endpoint ends
    in a non-first segment whose version, message type or sequence counter does not continue the
    pending message: the buffer is released. -/
theorem abort_mismatch (q : Pending) (f : PFrame) (m : Bytes) (h : f.term = .seg m) (h4 : segTypeOf m ≠ 4)
    (hmis : ¬ (q.ver = f.ver ∧ q.mt = f.mt ∧ f.seq = (q.seq + 1) % 65536)) :
    (localStep (some q) f).1 = none := by
  unfold localStep
  simp only [h, h4, if_false]
  split
  · rfl
  · rename_i q' hq'
    split
    · rename_i hc
      split at hq'
      · cases hq'
        exact absurd ⟨hc.1, hc.2.1, hc.2.2.1⟩ hmis
      · cases hq'
    · rfl

/-- **K4, one step (abort by unsegmented traffic in the same frame).**  A non-first segment that
    arrives behind unsegmented messages in its frame never continues anything. -/
theorem abort_unseg_in_front (p : Option Pending) (f : PFrame) (m : Bytes) (h : f.term = .seg m)
    (h4 : segTypeOf m ≠ 4) (hu : f.unseg ≠ []) : (localStep p f).1 = none := by
  have hu' : f.unseg.isEmpty = false := by
    cases hx : f.unseg with
    | nil => exact absurd hx hu
    | cons a l => rfl
  unfold localStep
  simp only [h, h4, if_false, hu', Bool.false_eq_true]

/-- **orphan segments leave nothing behind** (the default entry `operator[]` creates is gone): a
    non-first segment for an endpoint with nothing pending -/
theorem orphan_releases (f : PFrame) (m : Bytes) (h : f.term = .seg m) (h4 : segTypeOf m ≠ 4) :
    (localStep none f).1 = none := by
  unfold localStep
  simp only [h, h4, if_false, ite_self]

/-- **K5, one step (supersede).**  A first segment replaces whatever was pending by exactly its own
    bytes: the old buffer is released (no byte of it survives), whatever it was. -/
theorem supersede_releases (p : Option Pending) (f : PFrame) (m : Bytes) (h : f.term = .seg m)
    (h4 : segTypeOf m = 4) : (localStep p f).1 = some ⟨m, 4, f.ver, f.mt, f.seq⟩ := by
  unfold localStep
  simp only [h, h4, if_true]

theorem openSpec_isSome_iff (o : Option (Nat × Nat × Nat)) (f : PFrame) :
    (openSpec o f).isSome = true ↔
      ∃ m, f.term = .seg m ∧ (segTypeOf m = 4 ∨ (segTypeOf m = 8 ∧ f.unseg = [] ∧
        ∃ v t q, o = some (v, t, q) ∧ v = f.ver ∧ t = f.mt ∧ f.seq = (q + 1) % 65536)) := by
  obtain ⟨ep, ver, mt, seq, unseg, term⟩ := f
  cases term with
  | done => simp [openSpec]
  | invalid => simp [openSpec]
  | seg m =>
    simp only [openSpec, Term.seg.injEq, exists_eq_left']
    by_cases h4 : segTypeOf m = 4
    · simp [h4]
    · by_cases h8 : segTypeOf m = 8
      · cases unseg with
        | cons a l => simp [h8]
        | nil =>
          cases o with
          | none => simp [h8]
          | some x =>
            obtain ⟨v, t, q⟩ := x
            simp only [h8, List.isEmpty_nil, and_self, if_true, true_and]
            by_cases hc : v = ver ∧ t = mt ∧ seq = (q + 1) % 65536
            · rw [if_pos hc]
              exact ⟨fun _ => Or.inr ⟨v, t, q, rfl, hc.1, hc.2.1, hc.2.2⟩, fun _ => rfl⟩
            · rw [if_neg hc]
              constructor
              · intro h; cases h
              · intro hx
                rcases hx with hx | hx
                · exact absurd hx (by decide)
                obtain ⟨v', t', q', he, h1, h2, h3⟩ := hx
                simp only [Option.some.injEq, Prod.mk.injEq] at he
                obtain ⟨rfl, rfl, rfl⟩ := he
                exact absurd ⟨h1, h2, h3⟩ hc
      · simp [h4, h8]

theorem decodeAll_snoc_state (s : DecState) (bufs : List (Option Bytes)) (x : Option Bytes) :
    (decodeAll tecmpDecode s (bufs ++ [x])).1 = (decodeWith tecmpDecode (decodeAll tecmpDecode s bufs).1 x).1 := by
  induction bufs generalizing s with
  | nil => simp [decodeAll]
  | cons b bs ih => simp only [List.cons_append, decodeAll, ih]

/-- every state the decoder reaches holds only real reassemblies in progress -/
theorem reachable_ok (bufs : List (Option Bytes)) (e : Ep) :
    PendingOk ((decodeAll tecmpDecode DecState.empty bufs).1 e) := by
  rw [decodeAll_state, run_fst_at]
  exact (lrun_refines _ none (fun f hf => framesOf_wf bufs f (List.mem_filter.mp hf).1) trivial).2

/-- **K2/K3/K4/K5 as ONE exact step, on bytes.**  After any history `bufs`, feed one more buffer `b`
    that is a capture-module frame ("frame": at least the 8 header bytes, first byte ≠ 0).  Then its
    endpoint holds data afterwards IF AND ONLY IF the frame ended in a first segment ("opened"), or
    in an intermediary segment alone in its frame whose version, message type and counter continue
    what was pending ("continued a still-incomplete message").  In every other case — last segment
    (completed), mismatch / orphan / unsegmented or invalid message / header-only frame (aborted) —
    nothing is held.  Every other endpoint keeps exactly what it had. -/
theorem frame_step_exact (bufs : List (Option Bytes)) (b : Bytes) (h8 : 8 ≤ b.length) (h0 : byteAt b 0 ≠ 0) :
    let s := (decodeAll tecmpDecode DecState.empty bufs).1
    let s' := (decodeAll tecmpDecode DecState.empty (bufs ++ [some b])).1
    let f := parseFrame b
    ((s' f.ep).isSome = true ↔
      ∃ m, f.term = .seg m ∧ (segTypeOf m = 4 ∨ (segTypeOf m = 8 ∧ f.unseg = [] ∧
        ∃ q, s f.ep = some q ∧ q.ver = f.ver ∧ q.mt = f.mt ∧ f.seq = (q.seq + 1) % 65536))) ∧
    ∀ e, e ≠ f.ep → s' e = s e := by
  intro s s' f
  have hs' : s' = (step s f).1 := by
    show (decodeAll tecmpDecode DecState.empty (bufs ++ [some b])).1 = _
    rw [decodeAll_snoc_state]
    have : ¬ b.length < 8 := by omega
    simp only [decodeWith, this, if_false, h0]
    rfl
  refine ⟨?_, ?_⟩
  · rw [hs', step_fst_same]
    have hr := (localStep_refines (s f.ep) f (reachable_ok bufs f.ep) (parseFrame_WF b)).1
    have : (localStep (s f.ep) f).1.isSome = (openSpec ((s f.ep).map Pending.descr) f).isSome := by
      rw [← hr, Option.isSome_map]
    rw [this, openSpec_isSome_iff]
    constructor
    · rintro ⟨m, hm, h⟩
      refine ⟨m, hm, ?_⟩
      rcases h with h | ⟨h8', hu, v, t, q, he, h1, h2, h3⟩
      · exact Or.inl h
      · right
        refine ⟨h8', hu, ?_⟩
        cases hq : s f.ep with
        | none => rw [hq] at he; cases he
        | some p =>
          rw [hq] at he
          simp only [Option.map_some, Pending.descr, Option.some.injEq, Prod.mk.injEq] at he
          obtain ⟨rfl, rfl, rfl⟩ := he
          exact ⟨p, rfl, h1, h2, h3⟩
    · rintro ⟨m, hm, h⟩
      refine ⟨m, hm, ?_⟩
      rcases h with h | ⟨h8', hu, q, he, h1, h2, h3⟩
      · exact Or.inl h
      · right
        exact ⟨h8', hu, q.ver, q.mt, q.seq, by rw [he]; rfl, h1, h2, h3⟩
  · intro e he
    rw [hs']
    exact step_fst_other s f e (Ne.symm he)

/-! ## §5  Table level: number of entries, byte total, baseline -/

theorem mem_find (t : Table) (h : (t.map (·.1)).Nodup) (x : Ep × SegPkt) (hx : x ∈ t) :
    t.find x.1 = some x.2 := by
  induction t with
  | nil => cases hx
  | cons y t ih =>
    simp only [List.map_cons, List.nodup_cons] at h
    rcases List.mem_cons.mp hx with rfl | hx'
    · exact find_cons_same t x.1 x.2
    · have hne : x.1 ≠ y.1 := by
        intro he
        apply h.1
        rw [← he]
        exact List.mem_map.mpr ⟨x, hx', rfl⟩
      have := find_cons_other t y.1 x.1 y.2 hne
      rw [this]
      exact ih h.2 hx'

/-- the frames of a history addressed to endpoint `e` -/
def framesAt (bufs : List (Option Bytes)) (e : Ep) : List PFrame :=
  (framesOf bufs).filter (fun f => f.ep = e)

theorem keys_iff_open (bufs : List (Option Bytes)) (e : Ep) :
    e ∈ (runLL [] bufs).1.map (·.1) ↔ (openAfter (framesAt bufs e)).isSome = true := by
  unfold framesAt
  rw [(table_entries bufs e).1, ← (C17_bytes bufs e).1, Option.isSome_map]

/-- **C17 on the real table, in the hook's terms (entry count and byte total), no hypotheses
    on the history.**  After ANY history of buffers from a fresh decoder:
    * COUNT: the table has exactly as many entries as there are endpoints with a message in
      progress (counted over any duplicate-free list `es` that covers the endpoints addressed);
    * KEYS: an endpoint has an entry iff its message is in progress; no endpoint has two;
    * BYTES, per entry: the entry's `payload` is exactly 16 + the DECLARED bytes of its open
      message's segments; hence the same in TOTAL;
    * BASELINE: if no endpoint has a message in progress the table is literally `[]`. -/
theorem table_total (bufs : List (Option Bytes)) :
    (∀ es : List Ep, es.Nodup → (∀ f ∈ framesOf bufs, f.ep ∈ es) →
      (runLL [] bufs).1.length = (es.filter (fun e => (openAfter (framesAt bufs e)).isSome)).length) ∧
    (∀ e, e ∈ (runLL [] bufs).1.map (·.1) ↔ (openAfter (framesAt bufs e)).isSome = true) ∧
    ((runLL [] bufs).1.map (·.1)).Nodup ∧
    (∀ x ∈ (runLL [] bufs).1, x.2.payload.length = 16 + declBytes (framesAt bufs x.1)) ∧
    ((runLL [] bufs).1.map (fun x => x.2.payload.length)).sum =
      ((runLL [] bufs).1.map (fun x => 16 + declBytes (framesAt bufs x.1))).sum ∧
    ((∀ e, openAfter (framesAt bufs e) = none) → (runLL [] bufs).1 = []) := by
  obtain ⟨hok, habs, _⟩ := runLL_refines bufs
  have hbytes : ∀ x ∈ (runLL [] bufs).1, x.2.payload.length = 16 + declBytes (framesAt bufs x.1) := by
    intro x hx
    have hf := mem_find _ hok.1 x hx
    have hw := pending_bytes_wire bufs x.1
    rw [← habs, abs_apply, hf] at hw
    exact hw
  refine ⟨?_, keys_iff_open bufs, hok.1, hbytes, ?_, ?_⟩
  · intro es hnd hcov
    have hp : ((runLL [] bufs).1.map (·.1)).Perm (es.filter (fun e => (openAfter (framesAt bufs e)).isSome)) := by
      rw [List.perm_ext_iff_of_nodup hok.1 (List.Nodup.sublist List.filter_sublist hnd)]
      intro e
      rw [keys_iff_open, List.mem_filter]
      constructor
      · intro h
        refine ⟨?_, h⟩
        cases hfr : framesAt bufs e with
        | nil => rw [hfr] at h; cases h
        | cons f fs =>
          have hm : f ∈ framesAt bufs e := by rw [hfr]; exact List.mem_cons_self ..
          obtain ⟨hm1, hm2⟩ := List.mem_filter.mp hm
          have : f.ep = e := by simpa using hm2
          rw [← this]
          exact hcov f hm1
      · exact fun h => h.2
    have := hp.length_eq
    rwa [List.length_map] at this
  · exact congrArg List.sum (List.map_congr_left hbytes)
  · intro hidle
    rw [List.eq_nil_iff_forall_not_mem]
    intro x hx
    have : x.1 ∈ (runLL [] bufs).1.map (·.1) := List.mem_map.mpr ⟨x, hx, rfl⟩
    rw [keys_iff_open, hidle x.1] at this
    cases this

/-- **K7 "however long it runs", on the real table.**  A history in which every endpoint's most
    recent frame did NOT end in a first or intermediary segment (so: no open messages) leaves the
    table literally empty — whatever happened before, however long the history. -/
theorem baseline_of_last_frames (bufs : List (Option Bytes))
    (h : ∀ e earlier f, framesAt bufs e = earlier ++ [f] →
      ∀ m, f.term = .seg m → segTypeOf m ≠ 4 ∧ segTypeOf m ≠ 8) :
    (runLL [] bufs).1 = [] := by
  apply (table_total bufs).2.2.2.2.2
  intro e
  cases ho : openAfter (framesAt bufs e) with
  | none => rfl
  | some d =>
    have hne : framesAt bufs e ≠ [] := by
      intro hnil; rw [hnil] at ho; cases ho
    have hsplit := List.dropLast_concat_getLast hne
    obtain ⟨m, hm, hty⟩ := open_last_frame _ ((framesAt bufs e).getLast hne) (by rw [hsplit, ho]; simp)
    have := h e _ _ hsplit.symm m hm
    rcases hty with hty | hty
    · exact absurd hty this.1
    · exact absurd hty this.2

/-! ## §3  Source level: whole histories of the translated `Decoder::decode` -/

section Source
open AsamCmp.Src AsamCmp.SrcGen AsamCmp.SrcDec

/-! ### the regularity invariant of the source-level theorems is preserved -/

/-- entries within their C types, payload at most 16 + `B` bytes -/
def RegB (B : Nat) (t : Table) : Prop := ∀ x ∈ t, x.2.seq < 65536 ∧ x.2.payload.length ≤ 16 + B

def PReg (B : Nat) (p : Option Pending) : Prop :=
  match p with
  | none => True
  | some q => q.seq < 65536 ∧ q.buf.length ≤ 16 + B

theorem preg_mono (B B' : Nat) (p : Option Pending) (h : B ≤ B') (hp : PReg B p) : PReg B' p := by
  cases p with
  | none => trivial
  | some q => exact ⟨hp.1, by have := hp.2; omega⟩

theorem localStep_reg (p : Option Pending) (f : PFrame) (B L : Nat) (hok : PendingOk p) (hp : PReg B p)
    (hseq : f.seq < 65536) (hm : ∀ m, f.term = .seg m → 16 ≤ m.length ∧ m.length ≤ L) :
    PReg (B + L) (localStep p f).1 := by
  obtain ⟨ep, ver, mt, seq, unseg, term⟩ := f
  cases term with
  | done => simp [localStep, PReg]
  | invalid => simp [localStep, PReg]
  | seg m =>
    obtain ⟨hm1, hm2⟩ := hm m rfl
    simp only [localStep]
    by_cases h4 : segTypeOf m = 4
    · simp only [h4, if_true, PReg]
      exact ⟨hseq, by omega⟩
    · simp only [h4, if_false]
      by_cases hu : unseg.isEmpty = true
      · simp only [hu, if_true]
        cases p with
        | none => simp [PReg]
        | some q =>
          simp only [PendingOk] at hok
          simp only [PReg] at hp
          have hlen : (fixLen (q.buf ++ List.drop 16 m)).length = q.buf.length + (m.length - 16) := by
            rw [fixLen_length] <;> simp <;> omega
          dsimp only
          generalize fixLen (q.buf ++ List.drop 16 m) = nb at hlen ⊢
          split
          · split
            · simp [PReg]
            · simp only [PReg]
              exact ⟨Nat.mod_lt _ (by decide), by omega⟩
          · simp [PReg]
      · simp [hu, PReg]

theorem regB_abs (B : Nat) (t : Table) (hnd : (t.map (·.1)).Nodup) :
    RegB B t ↔ ∀ e, PReg B (t.abs e) := by
  constructor
  · intro h e
    rw [abs_apply]
    cases hf : t.find e with
    | none => trivial
    | some v => exact h _ (find_mem t e v hf)
  · intro h x hx
    have := h x.1
    rw [abs_apply, mem_find t hnd x hx] at this
    exact this

theorem tableOk_pendingOk (t : Table) (h : TableOk t) (e : Ep) : PendingOk (t.abs e) := by
  rw [abs_apply]
  cases hf : t.find e with
  | none => trivial
  | some v => exact h.2 _ (find_mem t e v hf)

/-- one call of the low-level model keeps entries regular; the byte bound grows by at most the size
    of the buffer handed in -/
theorem decodeLL_reg (B : Nat) (t : Table) (buf : Option Bytes) (hok : TableOk t) (hr : RegB B t) :
    RegB (B + (buf.map List.length).getD 0) (decodeLL t buf).1 := by
  obtain ⟨hok', habs, _⟩ := decodeLL_refines t buf hok
  rw [regB_abs _ _ hok'.1, habs]
  have hr' := (regB_abs B t hok.1).mp hr
  intro e
  have hmono : PReg (B + (buf.map List.length).getD 0) (t.abs e) := preg_mono _ _ _ (by omega) (hr' e)
  cases buf with
  | none => exact hmono
  | some b =>
    show PReg _ ((decodeWith tecmpDecode t.abs (some b)).1 e)
    unfold decodeWith
    simp only
    split
    · exact hmono
    · split
      · exact hmono
      · by_cases he : (parseFrame b).ep = e
        · subst he
          rw [step_fst_same]
          apply localStep_reg _ _ B b.length (tableOk_pendingOk t hok _) (hr' _)
          · exact C03.beAt_two_lt b 6
          · intro m hm
            refine ⟨walk_seg_length _ _ _ _ m hm, ?_⟩
            obtain ⟨pos, _, _, hfit, hdecl⟩ := parseFrame_seg_wire b m hm
            have hex := parseFrame_exact b
            unfold PFrame.Exact at hex
            rw [hm] at hex
            simp only at hex
            omega
        · rw [step_fst_other _ _ _ he]
          exact hmono

theorem regB_tableReg (B : Nat) (t : Table) (h : RegB B t) (hB : B + 65552 < 2 ^ 64) : TableReg t := by
  intro x hx
  have := h x hx
  exact ⟨this.1, by omega⟩

/-- a buffer handed to `decode` as it sits in memory: the bytes `b` at address `pre.length` of the
    memory `pre ++ b ++ post` (so the pointer is non-null exactly when `pre` is non-empty) -/
structure MemBuf where
  pre : Bytes
  b : Bytes
  post : Bytes

/-- what the machine imposes on one call: non-null pointer, memory within the address space, and
    enough fuel for the translated loops.  No bound on `size` itself: the remaining size is a `std::size_t` -/
def MemBuf.Fits (fuel : Nat) (x : MemBuf) : Prop :=
  0 < x.pre.length ∧ (x.pre ++ x.b ++ x.post).length < 2 ^ 63 ∧ x.b.length ≤ fuel

/-- ONE call of the translated `Decoder::decode` (translated TECMP decoder plugged in) on ANY
    non-null buffer, of any length — short, TECMP or CMP frame: defined, and the member it leaves
    is literally the image of the low-level model's table -/
theorem decode_src_any (t : Table) (x : MemBuf) (fuel : Nat) (hT : TableOk t) (hR : TableReg t) (hx : x.Fits fuel) :
    ∃ outs, Decoder_decode_obj fuel (tblSt t) (x.pre ++ x.b ++ x.post) x.pre.length x.b.length (SrcTec.tecmpExt fuel) =
        some (tblSt (decodeLL t (some x.b)).1, outs) ∧
      outs.map (Sum.elim toPacket SrcTec.tAbs) = (decodeLL t (some x.b)).2 := by
  obtain ⟨hpre, hmem, hf⟩ := hx
  by_cases h8 : x.b.length < 8
  · have hm : decodeLL t (some x.b) = (t, []) := by simp only [decodeLL, h8, if_true]
    rw [hm]
    exact ⟨[], (decode_other_src (tblSt t) _ x.pre.length x.b.length fuel (SrcTec.tecmpExt fuel)).2.1 hpre h8, rfl⟩
  · have h8' : 8 ≤ x.b.length := by omega
    by_cases h0 : byteAt x.b 0 = 0
    · obtain ⟨hsrc, hmap⟩ := SrcTec.decode_tecmp_src (tblSt t) x.pre x.b x.post fuel toPacket hpre h8' h0 (by omega) hf
        (fun _ => by
          have := C03.beAt_lt x.b 32 2
          have hbl : x.b.length ≤ (x.pre ++ x.b ++ x.post).length := by simp only [List.length_append]; omega
          omega)
      rw [decodeLL_tecmp t x.b h8' h0]
      exact ⟨_, hsrc, hmap⟩
    · obtain ⟨outs, h1, h2⟩ := decode_src t x.pre x.b x.post fuel (SrcTec.tecmpExt fuel) hT hR hpre h8' h0 hmem hf
      refine ⟨_, h1, ?_⟩
      rw [List.map_map, ← h2]
      rfl

/-- a whole history of calls of the translated `Decoder::decode` on one decoder object -/
def runSrc (fuel : Nat) : Decoder_St → List MemBuf → Option (Decoder_St × List (PktOut ⊕ TPacket_St))
  | s, [] => some (s, [])
  | s, x :: xs =>
    match Decoder_decode_obj fuel s (x.pre ++ x.b ++ x.post) x.pre.length x.b.length (SrcTec.tecmpExt fuel) with
    | none => none
    | some (s', o) =>
      match runSrc fuel s' xs with
      | none => none
      | some (s'', o') => some (s'', o ++ o')

def totalBytes (xs : List MemBuf) : Nat := (xs.map (fun x => x.b.length)).sum

theorem runSrc_from (fuel : Nat) : ∀ (xs : List MemBuf) (t : Table) (B : Nat), TableOk t → RegB B t →
    (∀ x ∈ xs, x.Fits fuel) → B + totalBytes xs + 65552 < 2 ^ 64 →
    ∃ outs, runSrc fuel (tblSt t) xs = some (tblSt (runLL t (xs.map fun x => some x.b)).1, outs) ∧
      outs.map (Sum.elim toPacket SrcTec.tAbs) = (runLL t (xs.map fun x => some x.b)).2 := by
  intro xs
  induction xs with
  | nil => intro t B _ _ _ _; exact ⟨[], rfl, rfl⟩
  | cons x xs ih =>
    intro t B hT hR hfit hB
    have htb : totalBytes (x :: xs) = x.b.length + totalBytes xs := by simp [totalBytes]
    obtain ⟨o, h1, h2⟩ := decode_src_any t x fuel hT (regB_tableReg B t hR (by omega)) (hfit x (List.mem_cons_self ..))
    have hT' := (decodeLL_refines t (some x.b) hT).1
    have hR' := decodeLL_reg B t (some x.b) hT hR
    simp only [Option.map_some, Option.getD_some] at hR'
    obtain ⟨o', i1, i2⟩ := ih (decodeLL t (some x.b)).1 (B + x.b.length) hT' hR'
      (fun y hy => hfit y (List.mem_cons_of_mem _ hy)) (by omega)
    refine ⟨o ++ o', ?_, ?_⟩
    · simp only [runSrc, h1, i1, List.map_cons, runLL]
    · simp only [List.map_append, h2, i2, List.map_cons, runLL]

/-- **K1 at the level of the TRANSLATED SOURCE (finding 3), partial.**  Any history of calls of the
    translated `Decoder::decode` on a fresh decoder object, every buffer non-null, of any length,
    inside the address space: every call is defined, the member `segmentedPackets` after the history
    is literally the image of the low-level model's table `runLL [] …` — about which `table_total`,
    `table_entries`, `C17_bytes` speak — and the packets are the model's.
    PARTIAL because of the last hypothesis: the history's total byte count stays below 2^64 − 65552
    (the translation's vectors have no `max_size`, so an unbounded history could otherwise grow one
    payload past the range in which the `size_t` arithmetic of `addSegment` is exact).  Not a
    condition the property text names; no real history can violate it. -/
theorem runSrc_refines_partial (fuel : Nat) (xs : List MemBuf) (hfit : ∀ x ∈ xs, x.Fits fuel)
    (htot : totalBytes xs + 65552 < 2 ^ 64) :
    ∃ outs, runSrc fuel (tblSt []) xs = some (tblSt (runLL [] (xs.map fun x => some x.b)).1, outs) ∧
      outs.map (Sum.elim toPacket SrcTec.tAbs) = (runLL [] (xs.map fun x => some x.b)).2 :=
  runSrc_from fuel xs [] 0 tableOk_empty (fun x hx => by cases hx) hfit (by omega)


/-- **C17 for the member of the translated source, in the hook's terms — partial** (same extra
    hypothesis as `runSrc_refines_partial`).  After any history of calls (buffers non-null, of any
    length): `segmentedPackets` has an entry for exactly the endpoints whose message is in progress,
    one each; every entry's `payload` holds exactly 16 + the declared bytes of its open message; and
    if no message is open the member is literally empty. -/
theorem runSrc_pending_exact_partial (fuel : Nat) (xs : List MemBuf) (hfit : ∀ x ∈ xs, x.Fits fuel)
    (htot : totalBytes xs + 65552 < 2 ^ 64) :
    ∃ s outs, runSrc fuel (tblSt []) xs = some (s, outs) ∧
      (∀ e, e ∈ s.f_segmentedPackets.map (·.1) ↔
        (openAfter (framesAt (xs.map fun x => some x.b) e)).isSome = true) ∧
      (s.f_segmentedPackets.map (·.1)).Nodup ∧
      (∀ x ∈ s.f_segmentedPackets,
        x.2.f_payload.length = 16 + declBytes (framesAt (xs.map fun x => some x.b) x.1)) ∧
      ((∀ e, openAfter (framesAt (xs.map fun x => some x.b) e) = none) → s.f_segmentedPackets = []) := by
  obtain ⟨outs, h, _⟩ := runSrc_refines_partial fuel xs hfit htot
  obtain ⟨_, hkeys, hnd, hbytes, _, hidle⟩ := table_total (xs.map fun x => some x.b)
  have hk : (tblSt (runLL [] (xs.map fun x => some x.b)).1).f_segmentedPackets.map (·.1) =
      (runLL [] (xs.map fun x => some x.b)).1.map (·.1) := by
    simp only [tblSt, List.map_map]; rfl
  refine ⟨_, outs, h, ?_, ?_, ?_, ?_⟩
  · intro e; rw [hk]; exact hkeys e
  · rw [hk]; exact hnd
  · intro x hx
    simp only [tblSt, List.mem_map] at hx
    obtain ⟨y, hy, rfl⟩ := hx
    exact hbytes y hy
  · intro hi
    simp only [tblSt, hidle hi, List.map_nil]

/-! ## §2 witnesses -/

/-- first segment, endpoint (0x0102, 7), version 1, message type 1, counter 5: declares 2 bytes and is
    followed by 3 trailing bytes in its frame -/
def exFirst : Bytes :=
  [1, 0, 1, 2, 1, 7, 0, 5,
   0, 0, 0, 0, 0, 0, 0, 9, 0, 0, 0, 3, 0x04, 0x20, 0, 2, 0xAA, 0xBB, 0xEE, 0xEE, 0xEE]
/-- intermediary segment, same endpoint, counter 6: declares 3 bytes, 1 trailing byte -/
def exMid : Bytes :=
  [1, 0, 1, 2, 1, 7, 0, 6,
   0, 0, 0, 0, 0, 0, 0, 9, 0, 0, 0, 3, 0x08, 0x20, 0, 3, 0xCC, 0xDD, 0xEE, 0x77]
/-- last segment, same endpoint, counter 7: declares 1 byte -/
def exLast : Bytes :=
  [1, 0, 1, 2, 1, 7, 0, 7,
   0, 0, 0, 0, 0, 0, 0, 9, 0, 0, 0, 3, 0x0C, 0x20, 0, 1, 0xFF]
/-- first segment of ANOTHER endpoint (9, 2), counter 0: declares 1 byte -/
def exFirstB : Bytes :=
  [1, 0, 0, 9, 1, 2, 0, 0,
   0, 0, 0, 0, 0, 0, 0, 9, 0, 0, 0, 3, 0x04, 0x20, 0, 1, 0x11]

def exEntry : Ep × SegPkt :=
  ((0x0102, 7), ⟨[0, 0, 0, 0, 0, 0, 0, 9, 0, 0, 0, 3, 0x04, 0x20, 0, 2, 0xAA, 0xBB], 4, 1, 1, 5⟩)

set_option maxRecDepth 100000 in
theorem ex_first : decodeLL [] (some exFirst) = ([exEntry], []) := by decide

/-! ### the huge buffer -/

def hugeHdr : Bytes := [1, 0, 1, 2, 1, 7, 0, 6]
/-- a frame for endpoint (0x0102, 7), counter 6, whose `n` message bytes are all zero (an invalid
    message: payload type 0) -/
def hugeBuf (n : Nat) : Bytes := hugeHdr ++ zeros n

theorem hugeBuf_length (n : Nat) : (hugeBuf n).length = 8 + n := by
  unfold hugeBuf
  rw [List.length_append]
  simp only [zeros, List.length_replicate]
  rfl

theorem hugeBuf_byte (n i : Nat) (h : i < 8) : byteAt (hugeBuf n) i = byteAt hugeHdr i :=
  byteAt_append_left _ _ _ (by simpa [hugeHdr] using h)

theorem hugeBuf_dev (n : Nat) : beAt (hugeBuf n) 2 2 = 0x0102 := by
  unfold hugeBuf
  rw [C15.beAt_append_left _ _ _ _ (by decide)]
  decide

/-- the MODEL on that frame: the message bytes are invalid, so the endpoint's entry is erased -/
theorem decodeLL_huge (t : Table) (n : Nat) (hn : 0 < n) :
    decodeLL t (some (hugeBuf n)) = (t.erase (0x0102, 7), []) := by
  have hl : ¬ (hugeBuf n).length < 8 := by rw [hugeBuf_length]; omega
  have h0 : byteAt (hugeBuf n) 0 ≠ 0 := by rw [hugeBuf_byte n 0 (by decide)]; decide
  have hcur : (hugeBuf n).length - 8 = n := by rw [hugeBuf_length]; omega
  have hne : n ≠ 0 := by omega
  have hsl : slice (hugeBuf n) 8 n = zeros n := by
    unfold slice hugeBuf
    rw [List.drop_left' (by decide)]
    simp [zeros]
  have hv : msgValid (zeros n) = false := by
    simp [msgValid, C01.byteAt_zeros]
  unfold decodeLL
  simp only [hl, if_false, h0, hcur, hne, hugeBuf_dev, hugeBuf_byte n 5 (by decide)]
  have hfuel : n / 16 + 2 = (n / 16 + 1) + 1 := by omega
  rw [hfuel, loop_succ _ _ _ _ _ _ _ _ _ _ _ hne, hsl, hv]
  rfl

/-- the two-call history of the witness: a first segment for endpoint (0x0102, 7), then a frame of
    `8 + n` bytes for the same endpoint whose message bytes are invalid -/
def hugeHist (n : Nat) : List MemBuf := [⟨[9], exFirst, []⟩, ⟨[9], hugeBuf n, []⟩]

theorem runSrc_cons (fuel : Nat) (s s' s'' : Decoder_St) (x : MemBuf) (xs : List MemBuf)
    (o o' : List (PktOut ⊕ TPacket_St))
    (h1 : Decoder_decode_obj fuel s (x.pre ++ x.b ++ x.post) x.pre.length x.b.length (SrcTec.tecmpExt fuel) = some (s', o))
    (h2 : runSrc fuel s' xs = some (s'', o')) : runSrc fuel s (x :: xs) = some (s'', o ++ o') := by
  simp only [runSrc, h1, h2]

/-- the TRANSLATED source on that history, for EVERY size `8 + n` of the second frame (`n ≥ 1` message bytes; the memory
    `[9] ++ hugeBuf n` must fit the address space): both calls are defined, nothing is in progress on the endpoint by the
    specification automaton, the model's table is empty, and the member the translated `Decoder::decode` leaves is
    literally EMPTY — the first segment's 18 bytes are released, no packet is delivered -/
theorem huge_frame_released_gen (n : Nat) (hn : 0 < n) (hmem : n + 9 < 2 ^ 63) :
    openAfter (framesAt ((hugeHist n).map fun x => some x.b) (0x0102, 7)) = none ∧
    (runLL [] ((hugeHist n).map fun x => some x.b)).1 = [] ∧
    ∀ fuel, 29 ≤ fuel → 8 + n ≤ fuel → ∃ outs, runSrc fuel (tblSt []) (hugeHist n) = some (tblSt [], outs) ∧
      outs.map (Sum.elim toPacket SrcTec.tAbs) = [] := by
  have hmodel : runLL [] ((hugeHist n).map fun x => some x.b) = ([], []) := by
    show runLL [] [some exFirst, some (hugeBuf n)] = ([], [])
    simp only [runLL, ex_first, decodeLL_huge [exEntry] n hn]
    decide
  refine ⟨?_, by rw [hmodel], ?_⟩
  · have h := keys_iff_open ((hugeHist n).map fun x => some x.b) (0x0102, 7)
    rw [hmodel] at h
    cases ho : openAfter (framesAt ((hugeHist n).map fun x => some x.b) (0x0102, 7)) with
    | none => rfl
    | some d =>
      rw [ho] at h
      have := h.mpr rfl
      cases this
  · intro fuel hf1 hf2
    have hfit : ∀ x ∈ hugeHist n, x.Fits fuel := by
      intro x hx
      simp only [hugeHist, List.mem_cons, List.not_mem_nil, or_false] at hx
      rcases hx with rfl | rfl
      · refine ⟨by decide, by decide, ?_⟩
        show exFirst.length ≤ fuel
        have : exFirst.length = 29 := by decide
        omega
      · refine ⟨Nat.zero_lt_one, ?_, ?_⟩
        · show ([9] ++ hugeBuf n ++ []).length < 2 ^ 63
          simp only [List.length_append, List.length_singleton, List.length_nil, hugeBuf_length]
          omega
        · show (hugeBuf n).length ≤ fuel
          rw [hugeBuf_length]; exact hf2
    have htot : totalBytes (hugeHist n) + 65552 < 2 ^ 64 := by
      have : totalBytes (hugeHist n) = 29 + (8 + n) := by
        simp only [totalBytes, hugeHist, List.map_cons, List.map_nil, List.sum_cons, List.sum_nil, hugeBuf_length]
        have : exFirst.length = 29 := by decide
        omega
      omega
    obtain ⟨outs, h1, h2⟩ := runSrc_refines_partial fuel (hugeHist n) hfit htot
    rw [hmodel] at h1 h2
    exact ⟨outs, h1, h2⟩

/-- **a frame of 2^31 + 8 bytes releases the endpoint's pending entry (finding 3, REPAIRED in the source).**
    History: a first segment opens a message on endpoint (0x0102, 7); then a frame of 2^31 + 8 bytes
    for the same endpoint arrives whose message bytes are invalid — a frame that neither opens nor
    continues anything.
    * By the property's text (specification automaton) nothing is in progress on that endpoint any
      more, and the MODEL's table is empty — which is what `C17_bytes` / `table_entries` claim.
    * The TRANSLATED `Decoder::decode` (`std::size_t curSize = size - 8` is 2^31: the loop runs, `isValidPacket`
      rejects the message bytes, the endpoint's entry is erased) is defined on both calls and holds NOTHING afterwards.
    While `curSize` was an `int` (−2^31 here: neither the header-only `erase` nor the loop ran) the translated source
    still held the first segment's 18 bytes; the theorem in this place was the negative `huge_frame_violation`.
    The frame is handled like any other: this is `runSrc_refines_partial` on this history (`huge_frame_released_gen`
    for every size), and `decode_src_any` is the one-call statement for every table and every buffer. -/
theorem huge_frame_released :
    openAfter (framesAt ((hugeHist (2 ^ 31)).map fun x => some x.b) (0x0102, 7)) = none ∧
    (runLL [] ((hugeHist (2 ^ 31)).map fun x => some x.b)).1 = [] ∧
    ∀ fuel, 2 ^ 31 + 8 ≤ fuel → ∃ outs, runSrc fuel (tblSt []) (hugeHist (2 ^ 31)) = some (tblSt [], outs) ∧
      outs.map (Sum.elim toPacket SrcTec.tAbs) = [] := by
  obtain ⟨h1, h2, h3⟩ := huge_frame_released_gen (2 ^ 31) (by omega) (by omega)
  exact ⟨h1, h2, fun fuel hf => h3 fuel (by omega) (by omega)⟩

/-! ## §4  Buffers that are not capture-module frames -/


/-! ### Modelling limit (finding 4) — written down, not provable here

  "Memory" in every C17 statement (here and in Props/C17*.lean) means the CONTENTS of the decoder's
  single data member: the list of entries of `segmentedPackets` and the `size()` of each `payload`.
  Outside the observation, by the type of the models: `std::vector` capacity (geometric growth of
  `payload.resize`, up to 2× the `size()` the bounds talk about), the `unordered_map` bucket array
  (allocated by the first default-insert, never shrunk by `erase`), and any state a FUTURE second
  member / static cache might hold — the latter is caught only by the tool chain (the translated
  state `Decoder_St` has the one field `f_segmentedPackets`; a new member changes the generated type
  and breaks `tblSt`), not by a theorem statement.  "Baseline" in K7 therefore reads "no entries",
  not "no heap".  That the TECMP path cannot touch the table is, at model level, true by the type of
  `decodeWith`; the statement with content is the source-level one (`SrcTec.decode_tecmp_src`,
  used in `decode_src_any`), where the translated `TECMP::Decoder::Decode` is a function of the memory
  and has no access to the decoder's state.
  Finding 7 (an exception thrown by `getPacket()` between `addSegment` and `erase`) is likewise outside
  the models, which are total functions; the property's quantifier does not mention allocation failure. -/

/-- **TECMP / null / undersized buffers, with the CONCRETE TECMP decoder.**  A buffer that is not a
    capture-module frame (`bufEp = none`: null pointer, fewer than 8 bytes, or first byte 0 = TECMP)
    leaves the low-level table LITERALLY unchanged (not just its function view). -/
theorem non_frame_keeps_table (t : Table) (buf : Option Bytes) (h : bufEp buf = none) :
    (decodeLL t buf).1 = t := by
  cases buf with
  | none => rfl
  | some b =>
    unfold bufEp at h
    unfold decodeLL
    simp only at h ⊢
    split
    · rfl
    · rename_i h8
      rw [if_neg h8] at h
      split
      · rfl
      · rename_i h0
        rw [if_neg h0] at h
        cases h

/-- … so a history made of such buffers only — however long — leaves the table where it was; from a
    fresh decoder: empty (K7 for TECMP / undersized traffic, on the real table). -/
theorem non_frames_keep_table (t : Table) (bufs : List (Option Bytes)) (h : ∀ b ∈ bufs, bufEp b = none) :
    (runLL t bufs).1 = t := by
  induction bufs generalizing t with
  | nil => rfl
  | cons b bs ih =>
    simp only [runLL]
    rw [non_frame_keeps_table t b (h b (List.mem_cons_self ..))]
    exact ih t (fun x hx => h x (List.mem_cons_of_mem _ hx))



/-! ## §2  Witnesses: literal histories (finding 2) -/

section Witnesses
set_option maxRecDepth 100000

/-- (a) one first segment: ONE entry, keyed by (device, stream), holding the 16 header bytes + the 2
    DECLARED bytes — not the 3 trailing bytes of the frame -/
example : (runLL [] [some exFirst]).1 = [exEntry] := by decide
example : ((runLL [] [some exFirst]).1.map fun x => (x.1, x.2.payload.length)) = [((0x0102, 7), 16 + 2)] := by decide

/-- (b) first + intermediary: same key, grown by the 3 declared bytes (21 = 16 + 2 + 3), length
    field rewritten to 5, counter 6, last accepted type 8 -/
example : (runLL [] [some exFirst, some exMid]).1 =
    [((0x0102, 7), ⟨[0, 0, 0, 0, 0, 0, 0, 9, 0, 0, 0, 3, 0x04, 0x20, 0, 5, 0xAA, 0xBB, 0xCC, 0xDD, 0xEE], 8, 1, 1, 6⟩)] := by
  decide

/-- (c) first + intermediary + last: delivered (one packet, 6 payload bytes) and the table is empty -/
example : (runLL [] [some exFirst, some exMid, some exLast]).1 = [] := by decide
example : ((runLL [] [some exFirst, some exMid, some exLast]).2.map fun p => (p.deviceId, p.streamId, p.payload.map (·.data))) =
    [(0x0102, 7, some [0xAA, 0xBB, 0xCC, 0xDD, 0xEE, 0xFF])] := by decide

/-- (d) an orphan intermediary / an orphan last segment: nothing stays (no default entry) -/
example : (runLL [] [some exMid]).1 = [] := by decide
example : (runLL [] [some exLast]).1 = [] := by decide

/-- (e) two endpoints interleaved: two entries, each with its own bytes -/
example : ((runLL [] [some exFirst, some exFirstB, some exMid]).1.map fun x => (x.1, x.2.payload.length, x.2.seq)) =
    [((0x0102, 7), 21, 6), ((9, 2), 17, 0)] := by decide

/-- (f) abort: a second intermediary with the WRONG counter (6 again) releases the buffer; the other
    endpoint is untouched -/
example : ((runLL [] [some exFirst, some exFirstB, some exMid, some exMid]).1.map fun x => x.1) = [(9, 2)] := by decide

/-- (g) supersede: a new first segment replaces the old buffer -/
example : (runLL [] [some exFirst, some exMid, some exFirst]).1 = [exEntry] := by decide

/-- (h) null, undersized and TECMP buffers in between change nothing -/
example : (runLL [] [some exFirst, none, some [1, 2, 3], some SrcTec.exCanFd]).1 = [exEntry] := by decide

/-- the wire layout of the examples: `exFirst` IS `segFrame` with 2 body bytes and 3 trailing bytes -/
example : exFirst = segFrame 1 0x0102 1 7 5 ⟨9, 3, 4, 0x20⟩ [0xAA, 0xBB] [0xEE, 0xEE, 0xEE] := by decide
example : exMid = segFrame 1 0x0102 1 7 6 ⟨9, 3, 8, 0x20⟩ [0xCC, 0xDD, 0xEE] [0x77] := by decide

/-- `declStep_segFrame`: hypotheses satisfiable, conclusion a literal — the first segment counts 2
    (its body), not 5 (body + trailing) -/
example : declStep 1000 (parseFrame exFirst) = 2 := by
  have e : exFirst = segFrame 1 0x0102 1 7 5 ⟨9, 3, 4, 0x20⟩ [0xAA, 0xBB] [0xEE, 0xEE, 0xEE] := by decide
  rw [e, declStep_segFrame 1 0x0102 1 7 5 ⟨9, 3, 4, 0x20⟩ 4 [0xAA, 0xBB] [0xEE, 0xEE, 0xEE] 1000 (by decide) (by decide)
    (by decide) (by decide) (by decide) (by decide) (by unfold SegHdr.WF; decide) (by decide)]
  rfl
example : declStep 2 (parseFrame exMid) = 5 := by
  have e : exMid = segFrame 1 0x0102 1 7 6 ⟨9, 3, 8, 0x20⟩ [0xCC, 0xDD, 0xEE] [0x77] := by decide
  rw [e, declStep_segFrame 1 0x0102 1 7 6 ⟨9, 3, 8, 0x20⟩ 8 [0xCC, 0xDD, 0xEE] [0x77] 2 (by decide) (by decide)
    (by decide) (by decide) (by decide) (by decide) (by unfold SegHdr.WF; decide) (by decide)]
  rfl

/-- `table_total` / `pending_bytes_wire` on a literal history: the wire measure of the open message
    is 5 declared bytes (2 + 3), and the entry holds 16 + 5 -/
example : declBytes (framesAt [some exFirst, some exFirstB, some exMid] (0x0102, 7)) = 5 := by
  have ht : (runLL [] [some exFirst, some exFirstB, some exMid]).1 =
      [((0x0102, 7), ⟨[0, 0, 0, 0, 0, 0, 0, 9, 0, 0, 0, 3, 0x04, 0x20, 0, 5, 0xAA, 0xBB, 0xCC, 0xDD, 0xEE], 8, 1, 1, 6⟩),
       ((9, 2), ⟨[0, 0, 0, 0, 0, 0, 0, 9, 0, 0, 0, 3, 0x04, 0x20, 0, 1, 0x11], 4, 1, 1, 0⟩)] := by decide
  have h := (table_total [some exFirst, some exFirstB, some exMid]).2.2.2.1 _
    (by rw [ht]; exact List.mem_cons_self ..)
  simp only [List.length_cons, List.length_nil] at h
  omega

/-- `table_total`, count: over the covering list [(0x0102,7), (9,2), (1,1)] two endpoints are open -/
example : (runLL [] [some exFirst, some exFirstB, some exMid]).1.length = 2 := by decide

/-- `frame_step_exact`: its hypotheses on a literal frame -/
example : 8 ≤ exMid.length ∧ byteAt exMid 0 ≠ 0 := by decide

/-- one-step theorems on literal frames -/
def exSegMsg (flags : UInt8) : Bytes := [0, 0, 0, 0, 0, 0, 0, 9, 0, 0, 0, 3, flags, 0x20, 0, 1, 0x55]
example : (localStep (some ⟨exSegMsg 4, 4, 1, 1, 5⟩) ⟨(1, 2), 1, 1, 9, [], .seg (exSegMsg 8)⟩).1 = none :=
  abort_mismatch _ _ (exSegMsg 8) rfl (by decide) (by decide)
example : (localStep (some ⟨exSegMsg 4, 4, 1, 1, 5⟩) ⟨(1, 2), 1, 1, 6, [default], .seg (exSegMsg 8)⟩).1 = none :=
  abort_unseg_in_front _ _ (exSegMsg 8) rfl (by decide) (by decide)
example : (localStep none ⟨(1, 2), 1, 1, 6, [], .seg (exSegMsg 12)⟩).1 = none :=
  orphan_releases _ (exSegMsg 12) rfl (by decide)
example : (localStep (some ⟨exSegMsg 4 ++ [1, 2, 3], 8, 1, 1, 5⟩) ⟨(1, 2), 2, 1, 77, [], .seg (exSegMsg 4)⟩).1 =
    some ⟨exSegMsg 4, 4, 2, 1, 77⟩ :=
  supersede_releases _ _ (exSegMsg 4) rfl (by decide)

/-- `non_frames_keep_table`: hypothesis satisfiable on a null, an undersized and a TECMP buffer -/
example : ∀ b ∈ [none, some [1, 2, 3], some SrcTec.exCanFd], bufEp b = none := by decide

/-- `runSrc_refines_partial`: hypotheses satisfiable (two calls, fuel 64), and the member the
    TRANSLATED SOURCE leaves is the literal one-entry table of (b) -/
example : ∃ outs, runSrc 64 (tblSt []) [⟨[9], exFirst, [5]⟩, ⟨[9, 9], exMid, []⟩] =
    some (tblSt [((0x0102, 7), ⟨[0, 0, 0, 0, 0, 0, 0, 9, 0, 0, 0, 3, 0x04, 0x20, 0, 5, 0xAA, 0xBB, 0xCC, 0xDD, 0xEE], 8, 1, 1, 6⟩)], outs) := by
  obtain ⟨outs, h, _⟩ := runSrc_refines_partial 64 [⟨[9], exFirst, [5]⟩, ⟨[9, 9], exMid, []⟩]
    (by
      intro x hx
      simp only [List.mem_cons, List.not_mem_nil, or_false] at hx
      rcases hx with rfl | rfl <;> (unfold MemBuf.Fits; decide))
    (by decide)
  refine ⟨outs, ?_⟩
  rw [h]
  have : (runLL [] (([⟨[9], exFirst, [5]⟩, ⟨[9, 9], exMid, []⟩] : List MemBuf).map fun x => some x.b)).1 =
      [((0x0102, 7), ⟨[0, 0, 0, 0, 0, 0, 0, 9, 0, 0, 0, 3, 0x04, 0x20, 0, 5, 0xAA, 0xBB, 0xCC, 0xDD, 0xEE], 8, 1, 1, 6⟩)] := by
    decide
  rw [this]

/-- the translated source evaluated on a small frame of the same shape (`hugeBuf 40`: 40 invalid message bytes) with the
    pending entry: the entry is released.  (The call of `huge_frame_released` itself cannot be evaluated: it reads 2 GiB.) -/
example : (Decoder_decode_obj 48 (tblSt [exEntry]) ([9] ++ hugeBuf 40) 1 48 (SrcTec.tecmpExt 48)).map
      (fun r => (r.1.f_segmentedPackets.map fun e => (e.1, e.2.f_payload.length, e.2.f_segmentType), r.2.length)) =
    some ([], 0) := by decide

/-- `huge_frame_released_gen`: hypotheses satisfiable at both ends of the range the `int` mishandled -/
example := huge_frame_released_gen (2 ^ 32 - 1) (by omega) (by omega)


/-- `pending_last_frame`: its hypothesis holds on a literal history (evaluated through the table) -/
example : (decodeAll tecmpDecode DecState.empty [some exFirst, some exMid]).1 (0x0102, 7) ≠ none := by
  rw [← (runLL_refines [some exFirst, some exMid]).2.1]
  decide

theorem exLast_parse : parseFrame exLast =
    { ep := (0x0102, 7), ver := 1, mt := 1, seq := 7, unseg := [],
      term := .seg ((⟨9, 3, 12, 0x20⟩ : SegHdr).bytes 1 ++ [0xFF]) } := by
  have e : exLast = segFrame 1 0x0102 1 7 7 ⟨9, 3, 12, 0x20⟩ [0xFF] [] := by decide
  rw [e]
  exact segFrame_parse 1 0x0102 1 7 7 ⟨9, 3, 12, 0x20⟩ 12 [0xFF] [] (by decide) (by decide) (by decide) (by decide)
    (by decide) (by decide) (by unfold SegHdr.WF; decide) (by decide)

/-- `baseline_of_last_frames`: its hypothesis holds on a literal history whose only frame ends in a
    last segment (type 12) -/
example : ∀ e earlier f, framesAt [some exLast] e = earlier ++ [f] →
    ∀ m, f.term = .seg m → segTypeOf m ≠ 4 ∧ segTypeOf m ≠ 8 := by
  intro e earlier f hfr m hm
  have h8 : ¬ exLast.length < 8 := by decide
  have h0 : ¬ byteAt exLast 0 = 0 := by decide
  have hfo : framesOf [some exLast] = [parseFrame exLast] := by
    simp only [framesOf, bufEp, h8, h0, if_false]
  have hmem : f ∈ framesAt [some exLast] e := by rw [hfr]; simp
  unfold framesAt at hmem
  rw [hfo] at hmem
  have hf : f = parseFrame exLast := by
    have := (List.mem_filter.mp hmem).1
    simpa using this
  rw [hf, exLast_parse] at hm
  simp only [Term.seg.injEq] at hm
  subst hm
  decide

end Witnesses

end Source

end AsamCmp.C17S
