/-
  C18S  strengthening of C18 (endpoints are isolated from each other).

  Additional theorems about the EXISTING definitions (`decodeWith`, `decodeAll`, `bufEp`, `decode`, `tecmpDecode`,
  `C06S.decodeAllT`, `SrcHist.srcDecodeRun`, `SrcHist.decodeEach`, the translated `Endpoint::operator==`): nothing in the model
  is changed.  They close findings of the statement review of C18:

   §1 (finding 3)  the two ad-hoc folds of `C18_isolation` ARE `decodeAll` / `C06S.decodeAllT` (`fold_decodeAll`,
      `foldObs_decodeAllT`, `C18_isolation_sides`), and C18 restated on `decodeAll` itself (`C18_decodeAll`).
   §2 (finding 1)  the TAG-based reading ("the packets whose own device id / stream id are e's"): exact characterisation of when it
      coincides with the projected run (`C18_tag_reading_iff`, `tag_isolation_iff`), the conditional positive forms
      (`tag_isolation_partial`, `tag_isolation_no_tecmp`, `tag_isolation_stream_nonzero`), the view theorem (`tag_view`), the exact
      packet count (`tag_count`), and the NEGATIVE result: under the tag reading the property's text is violated by TECMP frames of a
      device d against the capture-module endpoint (d, 0) (`C18_tag_reading_violated`, `C18_tag_reading_violated_src` on the
      translated C++).
   §3 (finding 2)  source level over HISTORIES: the run of the translated `Decoder::decode` over any list of calls, observed at the
      calls that address `e`, is the run of the translated decoder over the projected list of calls (`C18_src_isolation_partial`); the key
      comparison of the container instantiated with the TRANSLATED `Endpoint::operator==` (`mapFind_keyEqSrc`, `mapErase_keyEqSrc`,
      `mapPut_keyEqSrc`) and what a comparison ignoring the stream id would do (`keyEq_device_only_merges`).
   §4 (finding 5)  `bufEp` pinned to the wire layout (`bufEp_frameHeader`, `bufEp_iff`, `bufEp_none_iff`, `bufEp_frameHeader_inj`).
   §5 (clauses (d)/(e), finding 6) on OUTPUTS, not only the state: removing any set of TECMP / short / null buffers from a history
      changes neither the final table nor what any capture-module call returns (`foreign_removed`).
   §6 (finding 7)  worked instances: three endpoints (1,0), (1,1), (2,0), TECMP traffic of device 1, a short buffer, a null
      pointer, an invalid message — on the low-level model and on the TRANSLATED decoder, evaluated by the kernel.
-/
import AsamCmp.Props.C18
import AsamCmp.Props.C05S
import AsamCmp.Props.C06S
import AsamCmp.Props.C15S
import AsamCmp.Props.C17S
import AsamCmp.Props.SrcHistory
import AsamCmp.Props.SrcEndpoint
namespace AsamCmp.C18S
open AsamCmp AsamCmp.C06S

/-! ## §1  the history functions of C18 are `decodeAll` (finding 3) -/

/-- the unfiltered fold used on the left of `C18_isolation` is `decodeAll` (with an accumulator) -/
theorem fold_decodeAll (t : Bytes → List Packet) : ∀ (bufs : List (Option Bytes)) (s : DecState) (acc : List Packet),
    bufs.foldl (fun (acc : DecState × List Packet) b =>
        let r := decodeWith t acc.1 b; (r.1, acc.2 ++ r.2)) (s, acc) =
      ((decodeAll t s bufs).1, acc ++ (decodeAll t s bufs).2) := by
  intro bufs
  induction bufs with
  | nil => intro s acc; simp [decodeAll]
  | cons b bs ih =>
    intro s acc
    simp only [List.foldl_cons, decodeAll]
    rw [ih, List.append_assoc]

/-- the fold with `if isE b then r.2 else []` used on the right of `C18_isolation` is the run `decodeAllT` (every packet tagged with
    the endpoint its BUFFER addresses) filtered to the tag `e` -/
theorem foldObs_decodeAllT (t : Bytes → List Packet) (e : Ep) :
    ∀ (bufs : List (Option Bytes)) (s : DecState) (acc : List Packet),
    bufs.foldl (fun (acc : DecState × List Packet) b =>
        let r := decodeWith t acc.1 b
        (r.1, acc.2 ++ (if (fun (b : Option Bytes) => bufEp b = some e) b then r.2 else []))) (s, acc) =
      ((decodeAll t s bufs).1, acc ++ ((decodeAllT t s bufs).2.filter (fun x => x.1 = some e)).map (·.2)) := by
  intro bufs
  induction bufs with
  | nil => intro s acc; simp [decodeAll, decodeAllT]
  | cons b bs ih =>
    intro s acc
    have key : (if (fun (b : Option Bytes) => bufEp b = some e) b then (decodeWith t s b).2 else []) =
        (((decodeWith t s b).2.map (fun p => (bufEp b, p))).filter (fun x => x.1 = some e)).map (·.2) := by
      by_cases hb : bufEp b = some e
      · simp only [hb, if_true]
        rw [List.filter_eq_self.2 (by intro x hx; obtain ⟨p, _, rfl⟩ := List.mem_map.1 hx; simp), List.map_map]
        exact (List.map_id _).symm
      · simp only [hb, if_false]
        rw [List.filter_eq_nil_iff.2 (by intro x hx; obtain ⟨p, _, rfl⟩ := List.mem_map.1 hx; simp [hb])]
        rfl
    simp only [List.foldl_cons, decodeAll, decodeAllT]
    rw [ih, List.filter_append, List.map_append, ← key, List.append_assoc]

/-- **C18 on `decodeAll`.**  For every TECMP path `t`, endpoint `e`, history `bufs` of arbitrary buffers and states agreeing at
    `e`: the packets returned by the calls whose buffer addresses `e` (`decodeAllT` filtered to the tag `e`, tags dropped) are,
    in order, exactly what `decodeAll` delivers on the projected history, and the entry of `e` in the final table is the same. -/
theorem C18_decodeAll (t : Bytes → List Packet) (e : Ep) (bufs : List (Option Bytes)) (s s' : DecState) (h : s e = s' e) :
    ((decodeAllT t s bufs).2.filter (fun x => x.1 = some e)).map (·.2) =
      (decodeAll t s' (bufs.filter (fun b => bufEp b = some e))).2 ∧
    (decodeAll t s bufs).1 e = (decodeAll t s' (bufs.filter (fun b => bufEp b = some e))).1 e := by
  obtain ⟨h1, h2⟩ := decodeAllT_filter t e bufs s s' h
  obtain ⟨u1, u2⟩ := decodeAllT_untag t s' (bufs.filter (fun b => bufEp b = some e))
  obtain ⟨v1, _⟩ := decodeAllT_untag t s bufs
  exact ⟨by rw [h1, u2], by rw [← v1, h2, u1]⟩

/-- the two sides of `C18_isolation`, literally as written there, are the two sides of `C18_decodeAll` -/
theorem C18_isolation_sides (tecmp : Bytes → List Packet) (e : Ep) (bufs : List (Option Bytes)) (s s' : DecState) :
    let isE := fun (b : Option Bytes) => bufEp b = some e
    ((bufs.filter isE).foldl (fun (acc : DecState × List Packet) b =>
        let r := decodeWith tecmp acc.1 b; (r.1, acc.2 ++ r.2)) (s', [])).2 =
      (decodeAll tecmp s' (bufs.filter (fun b => bufEp b = some e))).2 ∧
    (bufs.foldl (fun (acc : DecState × List Packet) b =>
        let r := decodeWith tecmp acc.1 b; (r.1, acc.2 ++ (if isE b then r.2 else []))) (s, [])).2 =
      ((decodeAllT tecmp s bufs).2.filter (fun x => x.1 = some e)).map (·.2) := by
  intro isE
  refine ⟨?_, ?_⟩
  · rw [fold_decodeAll]; rfl
  · exact (congrArg Prod.snd (foldObs_decodeAllT tecmp e bufs s [])).trans (List.nil_append _)

/-! ## §2  the tag-based reading (finding 1) -/

/-- a packet's OWN (device id, stream id) — what `getDeviceId()` / `getStreamId()` return -/
def tagOf (p : Packet) : Ep := (p.deviceId, p.streamId)

/-- what a call on a buffer that is no capture-module frame returns (it does not depend on the decoder state, `step_none`) -/
def foreignOut (t : Bytes → List Packet) (b : Option Bytes) : List Packet := (decodeWith t DecState.empty b).2

/-- the packets with tag `e` delivered by the calls of a history whose buffer is no capture-module frame (only TECMP buffers
    deliver anything, `foreignOut_cases`) -/
def tecmpHits (t : Bytes → List Packet) (e : Ep) (bufs : List (Option Bytes)) : List Packet :=
  bufs.flatMap fun b => if bufEp b = none then (foreignOut t b).filter (fun p => tagOf p = e) else []

theorem tecmpHits_cons (t : Bytes → List Packet) (e : Ep) (b : Option Bytes) (bs : List (Option Bytes)) :
    tecmpHits t e (b :: bs) =
      (if bufEp b = none then (foreignOut t b).filter (fun p => tagOf p = e) else []) ++ tecmpHits t e bs := by
  simp only [tecmpHits, List.flatMap_cons]

/-- `bufEp` exactly (wire level): a buffer addresses `e` iff it is non-null, has the 8 header bytes, its first byte (version) is
    not 0, its bytes 2–3 are `e`'s device id and its byte 5 is `e`'s stream id -/
theorem bufEp_iff (buf : Option Bytes) (e : Ep) :
    bufEp buf = some e ↔ ∃ b, buf = some b ∧ 8 ≤ b.length ∧ byteAt b 0 ≠ 0 ∧ beAt b 2 2 = e.1 ∧ byteAt b 5 = e.2 := by
  cases buf with
  | none => simp [bufEp]
  | some b =>
    unfold bufEp
    by_cases h8 : b.length < 8
    · simp only [h8, if_true]
      constructor
      · intro h; cases h
      · rintro ⟨b', hb, h8', _⟩; cases hb; omega
    · by_cases h0 : byteAt b 0 = 0
      · simp only [h8, h0, if_true, if_false]
        constructor
        · intro h; cases h
        · rintro ⟨b', hb, _, h0', _⟩; cases hb; exact absurd h0 h0'
      · simp only [h8, h0, if_false]
        have hep : (parseFrame b).ep = (beAt b 2 2, byteAt b 5) := rfl
        rw [hep]
        constructor
        · intro h
          have := Option.some.inj h
          exact ⟨b, rfl, by omega, h0, by rw [← this], by rw [← this]⟩
        · rintro ⟨b', hb, _, _, h2, h5⟩
          cases hb
          rw [h2, h5]

/-- … and it addresses no endpoint iff it is the null pointer, shorter than the 8 header bytes ("too short to be a frame") or
    starts with a zero byte (a TECMP message) -/
theorem bufEp_none_iff (buf : Option Bytes) :
    bufEp buf = none ↔ buf = none ∨ ∃ b, buf = some b ∧ (b.length < 8 ∨ byteAt b 0 = 0) := by
  cases buf with
  | none => simp [bufEp]
  | some b =>
    unfold bufEp
    by_cases h8 : b.length < 8
    · simp [h8]
    · by_cases h0 : byteAt b 0 = 0
      · simp [h8, h0]
      · simp [h8, h0]

/-- what a non-frame call returns: nothing, except for a TECMP buffer (≥ 8 bytes, first byte 0), where it is `t b` -/
theorem foreignOut_cases (t : Bytes → List Packet) (buf : Option Bytes) (h : bufEp buf = none) :
    foreignOut t buf = [] ∨ ∃ b, buf = some b ∧ 8 ≤ b.length ∧ byteAt b 0 = 0 ∧ foreignOut t buf = t b := by
  cases buf with
  | none => exact Or.inl rfl
  | some b =>
    by_cases h8 : b.length < 8
    · left; simp [foreignOut, decodeWith, h8]
    · by_cases h0 : byteAt b 0 = 0
      · right; exact ⟨b, rfl, by omega, h0, by simp [foreignOut, decodeWith, h8, h0]⟩
      · simp [bufEp, h8, h0] at h

theorem foreignOut_tecmp (t : Bytes → List Packet) (b : Bytes) (h8 : 8 ≤ b.length) (h0 : byteAt b 0 = 0) :
    foreignOut t (some b) = t b ∧ bufEp (some b) = none := by
  have : ¬ b.length < 8 := by omega
  exact ⟨by simp [foreignOut, decodeWith, this, h0], by simp [bufEp, this, h0]⟩

/-- one call on a buffer that is no capture-module frame: the table is untouched and the packets do not depend on it -/
theorem step_none (t : Bytes → List Packet) (s : DecState) (b : Option Bytes) (h : bufEp b = none) :
    (decodeWith t s b).1 = s ∧ (decodeWith t s b).2 = foreignOut t b := by
  refine ⟨decode_foreign_state t s b h, ?_⟩
  unfold bufEp at h
  unfold foreignOut decodeWith
  split
  · rfl
  · dsimp only at h
    split
    · rfl
    · split
      · rfl
      · rename_i h1 h2
        simp [h1, h2] at h

/-- one call on a frame of `e`: packets and new entry of `e` depend on the table only through the entry of `e`, and every
    returned packet carries `e` as its own (device id, stream id) -/
theorem step_own (t : Bytes → List Packet) (s s' : DecState) (b : Option Bytes) (e : Ep) (hb : bufEp b = some e)
    (h : s e = s' e) :
    (decodeWith t s b).2 = (decodeWith t s' b).2 ∧ (decodeWith t s b).1 e = (decodeWith t s' b).1 e ∧
    ∀ p ∈ (decodeWith t s b).2, tagOf p = e := by
  obtain ⟨bb, rfl, hep, hdec⟩ := decodeWith_of_bufEp t b e hb
  rw [hdec s, hdec s']
  refine ⟨by simp [step, hep, h], by simp [step, DecState.set, hep, h], ?_⟩
  intro p hp
  rw [← hep]
  exact delivered_tagged s bb p hp

/-- one call on a frame of another endpoint `x ≠ e`: the entry of `e` is untouched and no returned packet carries `e` -/
theorem step_other (t : Bytes → List Packet) (s : DecState) (b : Option Bytes) (x e : Ep) (hb : bufEp b = some x) (hx : x ≠ e) :
    (decodeWith t s b).1 e = s e ∧ ∀ p ∈ (decodeWith t s b).2, tagOf p ≠ e := by
  refine ⟨decode_other_endpoint t s b e (by rw [hb]; intro hc; exact hx (Option.some.inj hc)), ?_⟩
  intro p hp hc
  exact hx ((step_own t s s b x hb rfl).2.2 p hp ▸ hc)

/-- every packet returned by a capture-module call carries the endpoint the BUFFER addresses: on such calls the two readings of
    "delivered for endpoint `e`" (call attribution / the packet's own ids) coincide -/
theorem cmp_call_tagged (t : Bytes → List Packet) (s : DecState) (b : Option Bytes) (x : Ep) (hb : bufEp b = some x) :
    ∀ p ∈ (decodeWith t s b).2, tagOf p = x :=
  (step_own t s s b x hb rfl).2.2

theorem filter_tag_self (e : Ep) (l : List Packet) (h : ∀ p ∈ l, tagOf p = e) : l.filter (fun p => tagOf p = e) = l :=
  List.filter_eq_self.2 (by intro p hp; simp [h p hp])

theorem filter_tag_nil (e : Ep) (l : List Packet) (h : ∀ p ∈ l, tagOf p ≠ e) : l.filter (fun p => tagOf p = e) = [] :=
  List.filter_eq_nil_iff.2 (by intro p hp; simp [h p hp])

/-- the projection used by C18 -/
abbrev proj (e : Ep) (bufs : List (Option Bytes)) : List (Option Bytes) := bufs.filter (fun b => bufEp b = some e)

theorem proj_cons_own (e : Ep) (b : Option Bytes) (bs : List (Option Bytes)) (h : bufEp b = some e) :
    proj e (b :: bs) = b :: proj e bs := by simp [proj, h]

theorem proj_cons_not (e : Ep) (b : Option Bytes) (bs : List (Option Bytes)) (h : bufEp b ≠ some e) :
    proj e (b :: bs) = proj e bs := by simp [proj, h]

/-- **the tag view.**  What a consumer that demultiplexes by the packets' own ids sees for `e` depends on the history only through
    `e`'s frames AND the buffers that are no capture-module frames (i.e. the TECMP traffic): all other endpoints' frames can be
    removed without changing it — for every history and every TECMP path. -/
theorem tag_view (t : Bytes → List Packet) (e : Ep) : ∀ (bufs : List (Option Bytes)) (s s' : DecState), s e = s' e →
    (decodeAll t s bufs).2.filter (fun p => tagOf p = e) =
      (decodeAll t s' (bufs.filter (fun b => bufEp b = some e ∨ bufEp b = none))).2.filter (fun p => tagOf p = e) := by
  intro bufs
  induction bufs with
  | nil => intro s s' _; rfl
  | cons b bs ih =>
    intro s s' h
    cases hb : bufEp b with
    | none =>
      rw [List.filter_cons_of_pos (by simp [hb])]
      simp only [decodeAll]
      obtain ⟨a1, a2⟩ := step_none t s b hb
      obtain ⟨b1, b2⟩ := step_none t s' b hb
      rw [a1, a2, b1, b2, List.filter_append, List.filter_append, ih s s' h]
    | some x =>
      by_cases hx : x = e
      · subst hx
        rw [List.filter_cons_of_pos (by simp [hb])]
        simp only [decodeAll]
        obtain ⟨a1, a2, _⟩ := step_own t s s' b x hb h
        rw [List.filter_append, List.filter_append, a1, ih _ _ a2]
      · rw [List.filter_cons_of_neg (by simp [hb, hx])]
        simp only [decodeAll]
        obtain ⟨a1, a2⟩ := step_other t s b x e hb hx
        rw [List.filter_append, filter_tag_nil e _ a2, List.nil_append]
        exact ih _ _ (a1.trans h)

/-- every packet of a history consisting of `e`'s frames only carries `e` -/
theorem proj_tagged (t : Bytes → List Packet) (e : Ep) : ∀ (bufs : List (Option Bytes)) (s : DecState),
    (∀ b ∈ bufs, bufEp b = some e) → ∀ p ∈ (decodeAll t s bufs).2, tagOf p = e := by
  intro bufs
  induction bufs with
  | nil => intro s _ p hp; cases hp
  | cons b bs ih =>
    intro s h p hp
    simp only [decodeAll, List.mem_append] at hp
    rcases hp with hp | hp
    · exact cmp_call_tagged t s b e (h b List.mem_cons_self) p hp
    · exact ih _ (fun x hx => h x (List.mem_cons_of_mem _ hx)) p hp

/-- **exact count.**  The number of packets with tag `e` over a history = the number delivered on the projected history + the
    number of TECMP packets that happen to carry `e` -/
theorem tag_count (t : Bytes → List Packet) (e : Ep) : ∀ (bufs : List (Option Bytes)) (s s' : DecState), s e = s' e →
    ((decodeAll t s bufs).2.filter (fun p => tagOf p = e)).length =
      (decodeAll t s' (proj e bufs)).2.length + (tecmpHits t e bufs).length := by
  intro bufs
  induction bufs with
  | nil => intro s s' _; rfl
  | cons b bs ih =>
    intro s s' h
    rw [tecmpHits_cons]
    cases hb : bufEp b with
    | none =>
      rw [proj_cons_not e b bs (by simp [hb])]
      simp only [decodeAll, if_true]
      obtain ⟨a1, a2⟩ := step_none t s b hb
      rw [a1, a2, List.filter_append, List.length_append, List.length_append, ih s s' h]
      omega
    | some x =>
      by_cases hx : x = e
      · subst hx
        rw [proj_cons_own x b bs hb]
        simp only [decodeAll]
        obtain ⟨a1, a2, a3⟩ := step_own t s s' b x hb h
        rw [List.filter_append, filter_tag_self x _ a3, List.length_append, List.length_append, ih _ _ a2, a1]
        simp
        omega
      · rw [proj_cons_not e b bs (by simp [hb, hx])]
        simp only [decodeAll]
        obtain ⟨a1, a2⟩ := step_other t s b x e hb hx
        rw [List.filter_append, filter_tag_nil e _ a2, List.nil_append, ih _ _ (a1.trans h)]
        simp

/-- the tag reading coincides with the projected run PROVIDED no TECMP packet of the history carries `e`.
    `_partial`: the property's text has no such proviso; without it the statement is FALSE (`C18_tag_reading_violated`), and the
    proviso is exactly what is missing (`tag_isolation_iff`). -/
theorem tag_isolation_partial (t : Bytes → List Packet) (e : Ep) : ∀ (bufs : List (Option Bytes)) (s s' : DecState), s e = s' e →
    tecmpHits t e bufs = [] →
    (decodeAll t s bufs).2.filter (fun p => tagOf p = e) = (decodeAll t s' (proj e bufs)).2 := by
  intro bufs
  induction bufs with
  | nil => intro s s' _ _; rfl
  | cons b bs ih =>
    intro s s' h hh
    rw [tecmpHits_cons, List.append_eq_nil_iff] at hh
    obtain ⟨hh1, hh2⟩ := hh
    cases hb : bufEp b with
    | none =>
      rw [proj_cons_not e b bs (by simp [hb])]
      simp only [decodeAll]
      obtain ⟨a1, a2⟩ := step_none t s b hb
      rw [hb] at hh1
      simp only [if_true] at hh1
      rw [a1, a2, List.filter_append, hh1, List.nil_append]
      exact ih s s' h hh2
    | some x =>
      by_cases hx : x = e
      · subst hx
        rw [proj_cons_own x b bs hb]
        simp only [decodeAll]
        obtain ⟨a1, a2, a3⟩ := step_own t s s' b x hb h
        rw [List.filter_append, filter_tag_self x _ a3, ih _ _ a2 hh2, a1]
      · rw [proj_cons_not e b bs (by simp [hb, hx])]
        simp only [decodeAll]
        obtain ⟨a1, a2⟩ := step_other t s b x e hb hx
        rw [List.filter_append, filter_tag_nil e _ a2, List.nil_append]
        exact ih _ _ (a1.trans h) hh2

/-- **exact characterisation of the tag reading**, for every TECMP path, history, endpoint and pair of states agreeing at `e`:
    the packets carrying `e` are, in order, those of the projected run IF AND ONLY IF no TECMP packet of the history carries `e` -/
theorem tag_isolation_iff (t : Bytes → List Packet) (e : Ep) (bufs : List (Option Bytes)) (s s' : DecState) (h : s e = s' e) :
    (decodeAll t s bufs).2.filter (fun p => tagOf p = e) = (decodeAll t s' (proj e bufs)).2 ↔ tecmpHits t e bufs = [] := by
  constructor
  · intro heq
    have hc := tag_count t e bufs s s' h
    rw [heq] at hc
    exact List.eq_nil_of_length_eq_zero (by omega)
  · exact tag_isolation_partial t e bufs s s' h

/-- a history WITHOUT TECMP frames ("TECMP frames": at least 8 bytes, first byte 0; null pointers and short buffers may occur):
    the tag reading and the call-attribution reading coincide, and C18 holds in the tag reading -/
theorem tag_isolation_no_tecmp (t : Bytes → List Packet) (e : Ep) (bufs : List (Option Bytes)) (s s' : DecState) (h : s e = s' e)
    (hno : ∀ b, some b ∈ bufs → 8 ≤ b.length → byteAt b 0 ≠ 0) :
    (decodeAll t s bufs).2.filter (fun p => tagOf p = e) = (decodeAll t s' (proj e bufs)).2 := by
  apply tag_isolation_partial t e bufs s s' h
  unfold tecmpHits
  rw [List.flatMap_eq_nil_iff]
  intro b hb
  split
  · rename_i hn
    rcases foreignOut_cases t b hn with h1 | ⟨bb, rfl, h8, h0, _⟩
    · rw [h1]; rfl
    · exact absurd h0 (hno bb hb h8)
  · rfl

/-! ### the real TECMP path: packets carry (byte 1 of the buffer, 0) -/

/-- every packet of `TECMP::Decoder::Decode` carries the 8-bit device id of the TECMP header and stream id 0
    (`C15S.C15S_all_from_header`, restated on the tag) -/
theorem tecmp_tag (b : Bytes) : ∀ p ∈ tecmpDecode b, tagOf p = (byteAt b 1, 0) := by
  intro p hp
  obtain ⟨h1, _, _, _, h5, _⟩ := C15S.C15S_all_from_header b p hp
  simp only [tagOf, h1, h5]

/-- exactly which histories have TECMP packets that carry `e`: stream id 0 and a TECMP frame of device `e.1` that yields a packet -/
theorem tecmpHits_nil_iff (e : Ep) (bufs : List (Option Bytes)) :
    tecmpHits tecmpDecode e bufs = [] ↔
      e.2 ≠ 0 ∨ ∀ b, some b ∈ bufs → 8 ≤ b.length → byteAt b 0 = 0 → byteAt b 1 = e.1 → tecmpDecode b = [] := by
  unfold tecmpHits
  rw [List.flatMap_eq_nil_iff]
  constructor
  · intro hall
    by_cases h2 : e.2 = 0
    · right
      intro b hb h8 h0 h1
      have := hall (some b) hb
      obtain ⟨f1, f2⟩ := foreignOut_tecmp tecmpDecode b h8 h0
      rw [f2, f1] at this
      simp only [if_true] at this
      rw [filter_tag_self e _ (by
        intro p hp
        rw [tecmp_tag b p hp, h1, ← h2])] at this
      exact this
    · exact Or.inl h2
  · intro hor b hb
    split
    · rename_i hn
      rcases foreignOut_cases tecmpDecode b hn with h1 | ⟨bb, rfl, h8, h0, hout⟩
      · rw [h1]; rfl
      · rw [hout]
        rcases hor with h2 | hall
        · apply filter_tag_nil
          intro p hp hc
          rw [tecmp_tag bb p hp] at hc
          exact h2 (by rw [← hc])
        · by_cases h1 : byteAt bb 1 = e.1
          · rw [hall bb hb h8 h0 h1]; rfl
          · apply filter_tag_nil
            intro p hp hc
            rw [tecmp_tag bb p hp] at hc
            exact h1 (by rw [← hc])
    · rfl

/-- **C18 in the tag reading, on the real decoder `decode` (= `decodeWith tecmpDecode`), exactly.**  For every history of
    arbitrary buffers, every endpoint `e` and states agreeing at `e`: the delivered packets whose own (device id, stream id) is
    `e` are, in order, what the decoder delivers on `e`'s frames alone IF AND ONLY IF `e`'s stream id is not 0 or no TECMP frame
    of the 8-bit device `e.1` in the history yields a packet. -/
theorem C18_tag_reading_iff (e : Ep) (bufs : List (Option Bytes)) (s s' : DecState) (h : s e = s' e) :
    (decodeAll tecmpDecode s bufs).2.filter (fun p => tagOf p = e) = (decodeAll tecmpDecode s' (proj e bufs)).2 ↔
      (e.2 ≠ 0 ∨ ∀ b, some b ∈ bufs → 8 ≤ b.length → byteAt b 0 = 0 → byteAt b 1 = e.1 → tecmpDecode b = []) := by
  rw [tag_isolation_iff tecmpDecode e bufs s s' h, tecmpHits_nil_iff]

/-- capture-module endpoints with a stream id other than 0 (and, `tag_isolation_device_wide`, with a device id above 255) are
    isolated in the tag reading too, against ALL traffic including TECMP -/
theorem tag_isolation_stream_nonzero (e : Ep) (he : e.2 ≠ 0) (bufs : List (Option Bytes)) (s s' : DecState) (h : s e = s' e) :
    (decodeAll tecmpDecode s bufs).2.filter (fun p => tagOf p = e) = (decodeAll tecmpDecode s' (proj e bufs)).2 :=
  (C18_tag_reading_iff e bufs s s' h).2 (Or.inl he)

theorem tag_isolation_device_wide (e : Ep) (he : 256 ≤ e.1) (bufs : List (Option Bytes)) (s s' : DecState) (h : s e = s' e) :
    (decodeAll tecmpDecode s bufs).2.filter (fun p => tagOf p = e) = (decodeAll tecmpDecode s' (proj e bufs)).2 :=
  (C18_tag_reading_iff e bufs s s' h).2 (Or.inr (fun b _ _ _ h1 => by have := C15.byteAt_lt b 1; omega))

/-! ### the witness history (used for the negative result here and for the worked instances of §6)

Three capture-module endpoints A = (1,0), B = (1,1) (same device, other stream), C = (2,0) (other device, same stream); a TECMP
CAN-FD message of the 8-bit device 1; a 5-byte buffer; a null pointer; an invalid message for B between B's segments. -/

/-- frame of endpoint (dev, stream), counter `seq`, holding one Ethernet segment message with flags byte `fl` and 4 payload bytes -/
def segFrame (dev stream seq fl : UInt8) (body : Bytes) : Bytes :=
  [1, 0, 0, dev, 1, stream, 0, seq,  0, 0, 0, 0, 0, 0, 0, 9,  0, 0, 0, 3,  fl, 8, 0, 4] ++ body

def fA1 : Bytes := segFrame 1 0 5 0x04 [0, 0, 0, 0]
def fA2 : Bytes := segFrame 1 0 6 0x0C [0, 2, 0xAA, 0xBB]
def fB1 : Bytes := segFrame 1 1 1 0x04 [0, 0, 0, 0]
/-- a frame of B whose only message is 3 bytes long: invalid, B's reassembly is aborted -/
def fBinv : Bytes := [1, 0, 0, 1, 1, 1, 0, 2,  1, 2, 3]
def fB2 : Bytes := segFrame 1 1 3 0x0C [0, 2, 0xAA, 0xBB]
def fC1 : Bytes := segFrame 2 0 0 0x04 [0, 0, 0, 0]
def fC2 : Bytes := segFrame 2 0 1 0x0C [0, 2, 0xCC, 0xDD]
/-- `SrcTec.exCanFd` with TECMP device id 1 instead of 7 -/
def fT : Bytes :=
  [0, 1, 0, 9, 3, 3, 0, 3, 0, 0, 0, 0, 0x11, 0x22, 0x33, 0x44, 1, 2, 3, 4, 5, 6, 7, 8, 0, 5, 0, 0,
   0x9A, 0xBC, 0xDE, 0xF1, 12, 1, 2, 3, 4, 5, 6, 7, 8, 9, 10, 11, 12, 0xAA, 0xBB, 0xCC, 4]

def hist : List (Option Bytes) :=
  [some fA1, some fB1, some fT, some [1, 2, 3, 4, 5], none, some fBinv, some fC1, some fA2, some fB2, some fC2]

def pktOf (dev : Nat) (x y : UInt8) : Packet :=
  { payload := some ⟨tyEth, [0, 0, 0, 0, 0, 2, x, y]⟩, version := 1, deviceId := dev, streamId := 0, ts := 9, ifId := 3, flags := 4 }
def pktA : Packet := pktOf 1 0xAA 0xBB
def pktC : Packet := pktOf 2 0xCC 0xDD
/-- the packet the TECMP message converts to: it carries device id 1 and stream id 0 — the ids of endpoint A -/
def pktT : Packet :=
  { payload := some ⟨tyCanFd, [0, 0, 0, 0, 0x9A, 0xBC, 0xDE, 0xF1, 0, 0xCC, 0xBB, 0xAA, 0, 0, 9, 12, 1, 2, 3, 4, 5, 6, 7, 8, 9, 10, 11, 12]⟩,
    version := 1, deviceId := 1, streamId := 0, ts := 0x0102030405060708, ifId := 0x11223344 }

theorem hist_proj_A : proj (1, 0) hist = [some fA1, some fA2] := by decide +kernel
theorem hist_proj_B : proj (1, 1) hist = [some fB1, some fBinv, some fB2] := by decide +kernel
theorem hist_proj_C : proj (2, 0) hist = [some fC1, some fC2] := by decide +kernel

/-- what the whole history delivers: the TECMP packet, A's message (at A's last segment), C's message -/
theorem hist_out : (decodeAll tecmpDecode DecState.empty hist).2 = [pktT, pktA, pktC] := by
  rw [← (C17b.runLL_refines hist).2.2]
  decide +kernel

theorem hist_out_A : (decodeAll tecmpDecode DecState.empty [some fA1, some fA2]).2 = [pktA] := by
  rw [← (C17b.runLL_refines _).2.2]
  decide +kernel

/-- **the property's text is VIOLATED in the tag reading** (model = translated C++, `C18_tag_reading_violated_src`).  History
    `hist`; endpoint A = (1,0).  "The packets delivered for (device 1, stream 0)", read as the delivered packets whose own
    `getDeviceId()` / `getStreamId()` are (1,0), are `[pktT, pktA]`: the TECMP packet of the 8-bit TECMP device 1 is among them.
    The decoder fed with A's frames alone delivers `[pktA]`.  So a TECMP frame DOES change what is delivered for the
    capture-module endpoint (1,0) unless "delivered for" is read as "returned by a call whose BUFFER addresses the endpoint"
    (the reading of `C18_isolation`, under which the property holds).  The converter sets the device id only
    (src/tecmp_converter.cpp) and leaves stream id 0, so this affects exactly the endpoints (d, 0), d < 256
    (`C18_tag_reading_iff`). -/
theorem C18_tag_reading_violated :
    (decodeAll tecmpDecode DecState.empty hist).2.filter (fun p => tagOf p = (1, 0)) = [pktT, pktA] ∧
    (decodeAll tecmpDecode DecState.empty (proj (1, 0) hist)).2 = [pktA] ∧
    (decodeAll tecmpDecode DecState.empty hist).2.filter (fun p => tagOf p = (1, 0)) ≠
      (decodeAll tecmpDecode DecState.empty (proj (1, 0) hist)).2 := by
  rw [hist_out, hist_proj_A, hist_out_A]
  decide

/-- the minimal witness: ONE TECMP frame and nothing else.  The projection to (1,0) is the empty history. -/
theorem C18_tag_reading_violated_min :
    (decodeAll tecmpDecode DecState.empty [some fT]).2.filter (fun p => tagOf p = (1, 0)) = [pktT] ∧
    (decodeAll tecmpDecode DecState.empty (proj (1, 0) [some fT])).2 = [] := by
  decide +kernel

/-- the right-hand side of `C18_tag_reading_iff` fails on `hist` for (1,0) — the iff is not vacuous in either direction -/
example : ¬ ((1, 0) : Ep).2 ≠ 0 ∧ some fT ∈ hist ∧ 8 ≤ fT.length ∧ byteAt fT 0 = 0 ∧ byteAt fT 1 = ((1, 0) : Ep).1 ∧
    tecmpDecode fT ≠ [] := by decide
/-- … and holds for B = (1,1) and C = (2,0): there the tag reading gives the projected run, TECMP traffic of device 1 included -/
example : (decodeAll tecmpDecode DecState.empty hist).2.filter (fun p => tagOf p = (1, 1)) =
    (decodeAll tecmpDecode DecState.empty (proj (1, 1) hist)).2 :=
  tag_isolation_stream_nonzero (1, 1) (by decide) hist _ _ rfl
example : (decodeAll tecmpDecode DecState.empty hist).2.filter (fun p => tagOf p = (2, 0)) =
    (decodeAll tecmpDecode DecState.empty (proj (2, 0) hist)).2 :=
  (C18_tag_reading_iff (2, 0) hist _ _ rfl).2 (Or.inr (by
    intro b hb _ h0 h1
    simp only [hist, List.mem_cons, Option.some.injEq, List.not_mem_nil, or_false, reduceCtorEq, false_or] at hb
    rcases hb with rfl | rfl | rfl | rfl | rfl | rfl | rfl | rfl | rfl <;> revert h0 h1 <;> decide))
example : (decodeAll tecmpDecode DecState.empty hist).2.filter (fun p => tagOf p = (2, 0)) = [pktC] := by
  rw [hist_out]; decide


/-! ## §3  source level, over histories (finding 2) -/

section Src
open AsamCmp.Src AsamCmp.SrcGen AsamCmp.SrcDec AsamCmp.SrcHist

/-- per-call isolation on the model's run with the calls kept apart (`SrcHist.decodeEach`, the run `decode_history_src` speaks
    about): the packets returned by the calls whose buffer addresses `e`, call by call, are those of the run on the projected
    history -/
theorem decodeEach_filter (e : Ep) : ∀ (bufs : List (Option Bytes)) (s s' : DecState), s e = s' e →
    ((bufs.zip (decodeEach s bufs).2).filter (fun x => bufEp x.1 = some e)).map (·.2) = (decodeEach s' (proj e bufs)).2 ∧
    (decodeEach s bufs).1 e = (decodeEach s' (proj e bufs)).1 e := by
  intro bufs
  induction bufs with
  | nil => intro s s' h; exact ⟨rfl, h⟩
  | cons b bs ih =>
    intro s s' h
    by_cases hb : bufEp b = some e
    · have hs : (decode s b).2 = (decode s' b).2 ∧ (decode s b).1 e = (decode s' b).1 e ∧ _ :=
        step_own tecmpDecode s s' b e hb h
      obtain ⟨i1, i2⟩ := ih _ _ hs.2.1
      rw [proj_cons_own e b bs hb]
      simp only [decodeEach, List.zip_cons_cons]
      rw [List.filter_cons_of_pos (by simp [hb])]
      exact ⟨by rw [List.map_cons, i1, hs.1], i2⟩
    · have hs : (decode s b).1 e = s e := decodeWith_other tecmpDecode s b e hb
      obtain ⟨i1, i2⟩ := ih _ _ (hs.trans h)
      rw [proj_cons_not e b bs hb]
      simp only [decodeEach, List.zip_cons_cons]
      rw [List.filter_cons_of_neg (by simp [hb])]
      exact ⟨i1, i2⟩

theorem bytes_sum_filter (p : Call → Bool) (calls : List Call) :
    ((calls.filter p).map Call.bytes).sum ≤ (calls.map Call.bytes).sum := by
  induction calls with
  | nil => exact Nat.le_refl _
  | cons c cs ih =>
    by_cases hp : p c = true
    · rw [List.filter_cons_of_pos hp]; simp only [List.map_cons, List.sum_cons]; omega
    · rw [List.filter_cons_of_neg hp]; simp only [List.map_cons, List.sum_cons]; omega

theorem zip_filter_arg {α : Type} (e : Ep) : ∀ (calls : List Call) (outs : List α),
    ((calls.zip outs).filter (fun x => bufEp x.1.arg = some e)).map (·.2) =
      (((calls.map Call.arg).zip outs).filter (fun x => bufEp x.1 = some e)).map (·.2) := by
  intro calls
  induction calls with
  | nil => intro outs; rfl
  | cons c cs ih =>
    intro outs
    cases outs with
    | nil => rfl
    | cons o os =>
      simp only [List.map_cons, List.zip_cons_cons]
      by_cases hb : bufEp c.arg = some e
      · rw [List.filter_cons_of_pos (by simp [hb]), List.filter_cons_of_pos (by simp [hb]), List.map_cons, List.map_cons, ih]
      · rw [List.filter_cons_of_neg (by simp [hb]), List.filter_cons_of_neg (by simp [hb]), ih]

/-- tables whose function views agree at `e` hold the same entry for `e` -/
theorem find_eq_of_abs (t1 t2 : Table) (e : Ep) (h : t1.abs e = t2.abs e) : t1.find e = t2.find e := by
  rw [C17b.abs_apply, C17b.abs_apply] at h
  cases h1 : t1.find e with
  | none =>
    cases h2 : t2.find e with
    | none => rfl
    | some v => rw [h1, h2] at h; cases h
  | some u =>
    cases h2 : t2.find e with
    | none => rw [h1, h2] at h; cases h
    | some v =>
      rw [h1, h2] at h
      simp only [Option.map_some, Option.some.injEq, C17b.absP, Pending.mk.injEq] at h
      obtain ⟨a, b, c, d, f⟩ := h
      cases u; cases v
      simp only at a b c d f
      subst a b c d f
      rfl

/-- **C18 on the translated C++, over histories.**  For EVERY list of calls `decode(data, size)` on one `Decoder` object — null
    pointers, short buffers, TECMP messages, frames of any number of endpoints in any interleaving, well-formed or not —, each
    buffer in a memory of its own at a non-null address (`Call.Ok`, the hypotheses of `decode_history_src`) and fewer than
    2^64 − 2^16 bytes in total, and EVERY endpoint `e`:
    the run of the TRANSLATED `Decoder::decode` (translated `TECMP::Decoder::Decode` plugged in) from the freshly constructed
    decoder is defined on the whole history AND on the history projected to the calls whose buffer addresses `e`; it returns
    one list of packets per call; the lists returned by the calls that address `e` are, call by call and in order, exactly the
    lists the projected run returns; and the entry of `e` in the member `segmentedPackets` is the same after both runs.
    `_partial`: the property's text says "any history"; the hypotheses `hok` / `htot` are NOT in it — they are the memory-model
    side conditions inherited unchanged from `SrcHist.decode_history_src` (buffer at a non-null address of a memory shorter than
    2^63 bytes, `fuel` ≥ the buffer's length, fewer than 2^64 − 2^16 bytes handed over in total: `std::vector::size()` is a 64-bit
    quantity).  Nothing else is missing: no bound on a buffer's own length, no well-formedness, any number of endpoints. -/
theorem C18_src_isolation_partial (calls : List Call) (fuel : Nat) (hok : ∀ c ∈ calls, c.Ok fuel)
    (htot : (calls.map Call.bytes).sum + 65536 < 2 ^ 64) (e : Ep) :
    ∃ st outs st' outs',
      srcDecodeRun fuel Decoder_default calls = some (st, outs) ∧
      srcDecodeRun fuel Decoder_default (calls.filter (fun c => bufEp c.arg = some e)) = some (st', outs') ∧
      outs.length = calls.length ∧
      ((calls.zip outs).filter (fun x => bufEp x.1.arg = some e)).map (·.2) = outs' ∧
      mapFind st.f_segmentedPackets e = mapFind st'.f_segmentedPackets e := by
  have hd : tblSt [] = Decoder_default := rfl
  obtain ⟨t1, h1, _, j1⟩ := decode_history_from fuel calls 0 [] tableInv_fresh.1 hok (by omega)
  obtain ⟨t2, h2, _, j2⟩ := decode_history_from fuel (calls.filter (fun c => bufEp c.arg = some e)) 0 []
    tableInv_fresh.1 (fun c hc => hok c (List.mem_filter.1 hc).1)
    (by have := bytes_sum_filter (fun c => bufEp c.arg = some e) calls; omega)
  rw [hd] at h1 h2
  have hmap : (calls.filter (fun c => bufEp c.arg = some e)).map Call.arg = proj e (calls.map Call.arg) := by
    unfold proj
    rw [List.filter_map]
    rfl
  rw [hmap] at h2 j2
  obtain ⟨f1, f2⟩ := decodeEach_filter e (calls.map Call.arg) (Table.abs []) (Table.abs []) rfl
  refine ⟨_, _, _, _, h1, h2, ?_, ?_, ?_⟩
  · rw [decodeEach_length, List.length_map]
  · rw [zip_filter_arg, f1]
  · show mapFind (tmap t1) e = mapFind (tmap t2) e
    rw [map_find, map_find, find_eq_of_abs t1 t2 e (by rw [j1, j2, f2])]

/-! ### the key comparison of the container is the TRANSLATED `Endpoint::operator==` -/

/-- the translated `Endpoint::operator==` (include/asam_cmp/decoder.h) as a comparison of keys -/
def keyEqSrc (k1 k2 : Nat × Nat) : Bool :=
  match Decoder_Endpoint_operator___obj ⟨k1.1, k1.2⟩ k2.1 k2.2 with
  | some (_, r) => r
  | none => false

/-- it is defined for all keys, leaves its object alone, and is structural equality of the pair — both members -/
theorem keyEqSrc_eq (k1 k2 : Nat × Nat) :
    Decoder_Endpoint_operator___obj ⟨k1.1, k1.2⟩ k2.1 k2.2 = some (⟨k1.1, k1.2⟩, k1 == k2) ∧ keyEqSrc k1 k2 = (k1 == k2) := by
  have h := endpoint_eq_src ⟨k1.1, k1.2⟩ k2.1 k2.2
  have hb : decide ((k1.1, k1.2) = (k2.1, k2.2)) = (k1 == k2) := by
    obtain ⟨a, b⟩ := k1
    obtain ⟨c, d⟩ := k2
    by_cases hh : (a, b) = (c, d)
    · simp [hh]
    · simp only [hh, decide_false]
      exact (beq_eq_false_iff_ne.2 hh).symm
  refine ⟨by rw [h, hb], ?_⟩
  unfold keyEqSrc
  rw [h, hb]

/-- the operations of `std::unordered_map<Endpoint, T, …>` with the key comparison as a PARAMETER (what `Src/Obj.lean` fixes to
    structural equality of `Nat × Nat`) -/
def mapFindBy {α : Type} (eq : Nat × Nat → Nat × Nat → Bool) (m : SMap α) (k : Nat × Nat) : Option α :=
  (m.find? (fun x => eq x.1 k)).map (·.2)
def mapEraseBy {α : Type} (eq : Nat × Nat → Nat × Nat → Bool) (m : SMap α) (k : Nat × Nat) : SMap α :=
  m.filter (fun x => !eq x.1 k)
def mapPutBy {α : Type} (eq : Nat × Nat → Nat × Nat → Bool) (m : SMap α) (k : Nat × Nat) (v : α) : SMap α :=
  (k, v) :: mapEraseBy eq m k
def mapIndexBy {α : Type} (eq : Nat × Nat → Nat × Nat → Bool) (m : SMap α) (k : Nat × Nat) (d : α) : SMap α × α :=
  match mapFindBy eq m k with
  | some v => (m, v)
  | none => (mapPutBy eq m k d, d)

theorem keyEqSrc_fun : (fun (k1 k2 : Nat × Nat) => keyEqSrc k1 k2) = (fun k1 k2 => k1 == k2) := by
  funext k1 k2; exact (keyEqSrc_eq k1 k2).2

/-- a container whose key equality is the translated `Endpoint::operator==` behaves as the `SMap` primitives the translated
    `Decoder::decode` calls: all four operations coincide -/
theorem mapFind_keyEqSrc {α : Type} (m : SMap α) (k : Nat × Nat) : mapFindBy keyEqSrc m k = mapFind m k := by
  unfold mapFindBy mapFind
  simp only [(keyEqSrc_eq _ _).2]

theorem mapErase_keyEqSrc {α : Type} (m : SMap α) (k : Nat × Nat) : mapEraseBy keyEqSrc m k = mapErase m k := by
  unfold mapEraseBy mapErase
  simp only [(keyEqSrc_eq _ _).2, bne]

theorem mapPut_keyEqSrc {α : Type} (m : SMap α) (k : Nat × Nat) (v : α) : mapPutBy keyEqSrc m k v = mapPut m k v := by
  unfold mapPutBy mapPut
  rw [mapErase_keyEqSrc]

theorem mapIndex_keyEqSrc {α : Type} (m : SMap α) (k : Nat × Nat) (d : α) : mapIndexBy keyEqSrc m k d = mapIndex m k d := by
  unfold mapIndexBy mapIndex
  rw [mapFind_keyEqSrc, mapPut_keyEqSrc]
  cases mapFind m k <;> rfl

/-- what the reviewer's regression would do (a comparison that looks at the device id only): storing a first segment for (1,1)
    overwrites the pending entry of (1,0) — the parametrised operations distinguish the two comparisons, so the coincidence
    above is a real obligation on `operator==` -/
theorem keyEq_device_only_merges :
    mapFindBy (fun a b => a.1 == b.1) (mapPutBy (fun a b => a.1 == b.1) [((1, 0), "A")] (1, 1) "B") (1, 0) = some "B" ∧
    mapFindBy keyEqSrc (mapPutBy keyEqSrc [((1, 0), "A")] (1, 1) "B") (1, 0) = some "A" := by decide

end Src

/-! ## §4  the endpoint a buffer addresses, pinned to the wire layout (finding 5) -/

/-- a buffer that starts with the 8-byte ASAM CMP frame header written for (version, device, message type, stream, counter)
    addresses the endpoint (device mod 2^16, stream mod 2^8) — and none at all when the version byte is 0 -/
theorem bufEp_frameHeader (ver dev mt stream seq : Nat) (rest : Bytes) :
    bufEp (some (frameHeader ver dev mt stream seq ++ rest)) =
      if ver % 256 = 0 then none else some (dev % 65536, stream % 256) := by
  obtain ⟨f0, f2, _, f5, _, _⟩ := C01.parse_fields ver dev mt stream seq rest
  have hl : ¬ (frameHeader ver dev mt stream seq ++ rest).length < 8 := by
    rw [List.length_append, frameHeader_length]; omega
  have hep : ∀ b : Bytes, (parseFrame b).ep = (beAt b 2 2, byteAt b 5) := fun _ => rfl
  unfold bufEp
  simp only [hl, if_false, f0, hep, f2, f5]

/-- frames written for capture-module endpoints within their C types address the same table key iff device id AND stream id
    are equal: same device / other stream and other device / same stream are different endpoints -/
theorem bufEp_frameHeader_inj (ver dev mt stream seq ver' dev' mt' stream' seq' : Nat) (rest rest' : Bytes)
    (hv : ver % 256 ≠ 0) (hv' : ver' % 256 ≠ 0) (hd : dev < 65536) (hd' : dev' < 65536) (hs : stream < 256) (hs' : stream' < 256) :
    bufEp (some (frameHeader ver dev mt stream seq ++ rest)) = bufEp (some (frameHeader ver' dev' mt' stream' seq' ++ rest')) ↔
      dev = dev' ∧ stream = stream' := by
  rw [bufEp_frameHeader, bufEp_frameHeader, if_neg hv, if_neg hv', Nat.mod_eq_of_lt hd, Nat.mod_eq_of_lt hd',
    Nat.mod_eq_of_lt hs, Nat.mod_eq_of_lt hs']
  simp

example : bufEp (some (frameHeader 1 0x0102 1 7 5 ++ [1, 2, 3])) = some (0x0102, 7) := by decide
example : bufEp (some (frameHeader 0 0x0102 1 7 5 ++ [1, 2, 3])) = none := by decide
example : bufEp (some fA1) = some (1, 0) ∧ bufEp (some fB1) = some (1, 1) ∧ bufEp (some fC1) = some (2, 0) ∧
    bufEp (some fT) = none ∧ bufEp (some [1, 2, 3, 4, 5]) = none ∧ bufEp none = none := by decide

/-! ## §5  clauses (d) / (e) on OUTPUTS: removing TECMP frames / short buffers / null pointers (finding 6, 1 (ii)) -/

/-- **TECMP frames and buffers too short to be a frame never change what is delivered for capture-module endpoints**, stated
    honestly: remove ANY set of buffers that are no capture-module frames (`keep b = false` only for null / shorter than 8 bytes /
    first byte 0, `bufEp_none_iff`) from ANY history.  The final table is identical, and the packets returned by the calls on
    capture-module frames (`decodeAllT`, tag `some _`) are identical, in order — for every TECMP path `t`. -/
theorem foreign_removed (t : Bytes → List Packet) (keep : Option Bytes → Bool) (hk : ∀ b, keep b = false → bufEp b = none) :
    ∀ (bufs : List (Option Bytes)) (s : DecState),
    (decodeAll t s (bufs.filter keep)).1 = (decodeAll t s bufs).1 ∧
    (decodeAllT t s (bufs.filter keep)).2.filter (fun x => x.1.isSome) =
      (decodeAllT t s bufs).2.filter (fun x => x.1.isSome) := by
  intro bufs
  induction bufs with
  | nil => intro s; exact ⟨rfl, rfl⟩
  | cons b bs ih =>
    intro s
    by_cases hb : keep b = true
    · rw [List.filter_cons_of_pos hb]
      obtain ⟨i1, i2⟩ := ih (decodeWith t s b).1
      simp only [decodeAll, decodeAllT]
      exact ⟨i1, by rw [List.filter_append, List.filter_append, i2]⟩
    · rw [List.filter_cons_of_neg hb]
      have hn := hk b (by simpa using hb)
      obtain ⟨a1, _⟩ := step_none t s b hn
      obtain ⟨i1, i2⟩ := ih s
      simp only [decodeAll, decodeAllT, a1]
      refine ⟨i1, ?_⟩
      have hnil : ((decodeWith t s b).2.map (fun p => (bufEp b, p))).filter (fun x => x.1.isSome) = [] := by
        rw [List.filter_eq_nil_iff]
        intro x hx
        obtain ⟨p, _, rfl⟩ := List.mem_map.1 hx
        simp [hn]
      rw [List.filter_append, hnil, List.nil_append]
      exact i2

/-- in particular with ALL TECMP frames removed (buffers of at least 8 bytes whose first byte is 0) -/
theorem tecmp_removed (t : Bytes → List Packet) (bufs : List (Option Bytes)) (s : DecState) :
    let noTecmp := fun (b : Option Bytes) => match b with
      | some x => !(decide (8 ≤ x.length) && decide (byteAt x 0 = 0))
      | none => true
    (decodeAll t s (bufs.filter noTecmp)).1 = (decodeAll t s bufs).1 ∧
    (decodeAllT t s (bufs.filter noTecmp)).2.filter (fun x => x.1.isSome) =
      (decodeAllT t s bufs).2.filter (fun x => x.1.isSome) := by
  intro noTecmp
  apply foreign_removed t noTecmp
  intro b hb
  cases b with
  | none => rfl
  | some x =>
    simp only [noTecmp, Bool.not_eq_false', Bool.and_eq_true, decide_eq_true_eq] at hb
    exact (foreignOut_tecmp t x hb.1 hb.2).2

/-- … and a non-frame call returns what a FRESH decoder returns for that buffer (nothing of the reassembly state can come out
    of it), while the table is untouched: clauses (d)/(e) for a single call, outputs included -/
theorem foreign_call (t : Bytes → List Packet) (s : DecState) (buf : Option Bytes) (h : bufEp buf = none) :
    decodeWith t s buf = (s, (decodeWith t DecState.empty buf).2) := by
  obtain ⟨a1, a2⟩ := step_none t s buf h
  exact Prod.ext a1 a2

/-- a buffer shorter than the 8-byte frame header ("too short to be a frame"): nothing is returned and nothing changes -/
theorem short_call (t : Bytes → List Packet) (s : DecState) (b : Bytes) (h : b.length < 8) : decodeWith t s (some b) = (s, []) := by
  simp [decodeWith, h]


/-! ## §6  worked instances (finding 7): the witness history `hist` of §2 -/

section Instances
open AsamCmp.Src AsamCmp.SrcGen AsamCmp.SrcDec AsamCmp.SrcHist

/-- the whole history with every packet tagged by the endpoint its BUFFER addresses: the TECMP packet (tag `none`, although its
    own ids are (1,0)), A's reassembled message, C's reassembled message; B's message is aborted by the invalid frame -/
theorem hist_tagged : (decodeAllT tecmpDecode DecState.empty hist).2 =
    [(none, pktT), (some (1, 0), pktA), (some (2, 0), pktC)] := by decide +kernel

/-- instance of `C18_decodeAll` for A = (1,0): hypotheses none but `s e = s' e`; both sides literally `[pktA]` — between A's two
    segments the decoder saw a first segment of (1,1), a TECMP frame of device 1, a short buffer, a null pointer, an invalid
    frame of (1,1) and a first segment of (2,0) -/
example : ((decodeAllT tecmpDecode DecState.empty hist).2.filter (fun x => x.1 = some (1, 0))).map (·.2) =
      (decodeAll tecmpDecode DecState.empty (proj (1, 0) hist)).2 ∧
    ((decodeAllT tecmpDecode DecState.empty hist).2.filter (fun x => x.1 = some (1, 0))).map (·.2) = [pktA] ∧
    (decodeAll tecmpDecode DecState.empty (proj (1, 0) hist)).2 = [pktA] :=
  ⟨(C18_decodeAll tecmpDecode (1, 0) hist _ _ rfl).1, by rw [hist_tagged]; decide, by rw [hist_proj_A, hist_out_A]⟩

/-- B = (1,1), same device as A: nothing is delivered (its reassembly was aborted by its OWN invalid frame, not by foreign
    traffic), in the full and in the projected run -/
example : ((decodeAllT tecmpDecode DecState.empty hist).2.filter (fun x => x.1 = some (1, 1))).map (·.2) = [] ∧
    (decodeAll tecmpDecode DecState.empty (proj (1, 1) hist)).2 = [] := by
  refine ⟨by rw [hist_tagged]; decide, ?_⟩
  rw [← (C18_decodeAll tecmpDecode (1, 1) hist DecState.empty DecState.empty rfl).1, hist_tagged]
  decide

/-- C = (2,0), same stream id as A -/
example : ((decodeAllT tecmpDecode DecState.empty hist).2.filter (fun x => x.1 = some (2, 0))).map (·.2) = [pktC] ∧
    (decodeAll tecmpDecode DecState.empty (proj (2, 0) hist)).2 = [pktC] := by
  refine ⟨by rw [hist_tagged]; decide, ?_⟩
  rw [← (C18_decodeAll tecmpDecode (2, 0) hist DecState.empty DecState.empty rfl).1, hist_tagged]
  decide

/-- the registered `C18_isolation` itself on `hist` and A: its two folds evaluate to `[pktA]` -/
example :
    ((hist.filter (fun (b : Option Bytes) => bufEp b = some (1, 0))).foldl (fun (acc : DecState × List Packet) b =>
        let r := decodeWith tecmpDecode acc.1 b; (r.1, acc.2 ++ r.2)) (DecState.empty, [])).2 = [pktA] ∧
    (hist.foldl (fun (acc : DecState × List Packet) b =>
        let r := decodeWith tecmpDecode acc.1 b
        (r.1, acc.2 ++ (if (fun (b : Option Bytes) => bufEp b = some (1, 0)) b then r.2 else []))) (DecState.empty, [])).2 =
      [pktA] := by
  obtain ⟨h1, h2⟩ := C18_isolation_sides tecmpDecode (1, 0) hist DecState.empty DecState.empty
  refine ⟨h1.trans ?_, h2.trans ?_⟩
  · exact (congrArg (fun l => (decodeAll tecmpDecode DecState.empty l).2) hist_proj_A).trans hist_out_A
  · rw [hist_tagged]; decide

/-- `foreign_removed` on `hist`: dropping the TECMP frame, the short buffer and the null pointer leaves the capture-module
    deliveries `[(some (1,0), pktA), (some (2,0), pktC)]` and the (empty) final table unchanged -/
example : (decodeAllT tecmpDecode DecState.empty (hist.filter (fun b => (bufEp b).isSome))).2.filter (fun x => x.1.isSome) =
    [(some (1, 0), pktA), (some (2, 0), pktC)] := by
  rw [(foreign_removed tecmpDecode (fun b => (bufEp b).isSome) (by intro b hb; simpa using hb) hist DecState.empty).2, hist_tagged]
  decide


/-! ### further instances on `hist` -/

/-- `tag_view`: what a tag-demultiplexing consumer sees for (1,0) is determined by A's frames and the non-frames -/
example : hist.filter (fun b => bufEp b = some (1, 0) ∨ bufEp b = none) =
    [some fA1, some fT, some [1, 2, 3, 4, 5], none, some fA2] := by decide +kernel
example : (decodeAll tecmpDecode DecState.empty hist).2.filter (fun p => tagOf p = (1, 0)) =
    (decodeAll tecmpDecode DecState.empty
      (hist.filter (fun b => bufEp b = some (1, 0) ∨ bufEp b = none))).2.filter (fun p => tagOf p = (1, 0)) :=
  tag_view tecmpDecode (1, 0) hist _ _ rfl

/-- `tag_count`: 2 packets carry (1,0) = 1 from the projected run + 1 TECMP hit -/
example : tecmpHits tecmpDecode (1, 0) hist = [pktT] := by decide +kernel
example : ((decodeAll tecmpDecode DecState.empty hist).2.filter (fun p => tagOf p = (1, 0))).length = 1 + 1 := by
  rw [tag_count tecmpDecode (1, 0) hist _ DecState.empty rfl, hist_proj_A, hist_out_A]
  decide +kernel

/-- `tag_isolation_no_tecmp`: the history without its TECMP frame (short buffer and null pointer kept) satisfies the hypothesis,
    and the packets carrying (1,0) are then exactly `[pktA]` -/
def histNoT : List (Option Bytes) := hist.filter (fun b => b != some fT)

theorem histNoT_no_tecmp : ∀ b, some b ∈ histNoT → 8 ≤ b.length → byteAt b 0 ≠ 0 := by
  intro b hb
  have e : histNoT = [some fA1, some fB1, some [1, 2, 3, 4, 5], none, some fBinv, some fC1, some fA2, some fB2, some fC2] := by
    decide +kernel
  rw [e] at hb
  simp only [List.mem_cons, Option.some.injEq, List.not_mem_nil, or_false, reduceCtorEq, false_or] at hb
  rcases hb with rfl | rfl | rfl | rfl | rfl | rfl | rfl | rfl <;> decide

example : (decodeAll tecmpDecode DecState.empty histNoT).2.filter (fun p => tagOf p = (1, 0)) = [pktA] := by
  rw [tag_isolation_no_tecmp tecmpDecode (1, 0) histNoT _ DecState.empty rfl histNoT_no_tecmp]
  have e : proj (1, 0) histNoT = [some fA1, some fA2] := by decide +kernel
  rw [e, hist_out_A]

/-- `tecmp_removed` on `hist`: its filter removes exactly the TECMP frame -/
example : hist.filter (fun (b : Option Bytes) => match b with
      | some x => !(decide (8 ≤ x.length) && decide (byteAt x 0 = 0))
      | none => true) = histNoT := by decide +kernel

/-- `bufEp_iff` read on a literal: version 1, device bytes 0x01 0x02, stream byte 7 -/
example : bufEp (some [1, 0, 1, 2, 9, 7, 0, 0]) = some (0x0102, 7) :=
  (bufEp_iff _ _).2 ⟨_, rfl, by decide, by decide, by decide, by decide⟩

/-! ### the same history on the TRANSLATED `Decoder::decode`, evaluated by the kernel -/

/-- every buffer of `hist` in a memory of its own at address 1 (one byte in front, one behind); the null pointer with size 4 -/
def histCalls : List Call :=
  [.buf [9] fA1 [5], .buf [9] fB1 [5], .buf [9] fT [5], .buf [9] [1, 2, 3, 4, 5] [5], .null [7, 7] 4, .buf [9] fBinv [5],
   .buf [9] fC1 [5], .buf [9] fA2 [5], .buf [9] fB2 [5], .buf [9] fC2 [5]]

example : histCalls.map Call.arg = hist := rfl

instance (fuel : Nat) (c : Call) : Decidable (c.Ok fuel) := by
  cases c <;> (unfold Call.Ok; infer_instance)

theorem histCalls_ok : ∀ c ∈ histCalls, c.Ok 64 := by decide

/-- the translated decoder on the ten calls: defined; call by call it returns nothing except the TECMP packet at call 3, A's
    message at call 8 and C's at call 10; the member `segmentedPackets` is empty at the end -/
theorem histCalls_src : (srcDecodeRun 64 Decoder_default histCalls).map (fun r => (r.1.f_segmentedPackets.map (·.1), r.2)) =
    some ([], [[], [], [pktT], [], [], [], [], [pktA], [], [pktC]]) := by decide +kernel

/-- while the TECMP frame of device 1 is decoded (call 3) the table holds the open reassemblies of (1,1) and (1,0), and still
    does afterwards -/
example : (srcDecodeRun 64 Decoder_default (histCalls.take 3)).map (fun r => (r.1.f_segmentedPackets.map (·.1), r.2)) =
    some ([(1, 1), (1, 0)], [[], [], [pktT]]) := by decide +kernel

/-- the translated decoder on A's two calls alone -/
theorem histCalls_src_A :
    (srcDecodeRun 64 Decoder_default (histCalls.filter (fun c => bufEp c.arg = some (1, 0)))).map (·.2) = some [[], [pktA]] := by
  decide +kernel

/-- instance of `C18_src_isolation_partial` (hypotheses checked on `histCalls`), with the literal values: A's two calls return `[]` and
    `[pktA]` in the full run and in the projected run -/
example : ∃ st outs st' outs',
    srcDecodeRun 64 Decoder_default histCalls = some (st, outs) ∧
    srcDecodeRun 64 Decoder_default (histCalls.filter (fun c => bufEp c.arg = some (1, 0))) = some (st', outs') ∧
    ((histCalls.zip outs).filter (fun x => bufEp x.1.arg = some (1, 0))).map (·.2) = outs' ∧ outs' = [[], [pktA]] := by
  obtain ⟨st, outs, st', outs', h1, h2, _, h4, _⟩ := C18_src_isolation_partial histCalls 64 histCalls_ok (by decide) (1, 0)
  refine ⟨st, outs, st', outs', h1, h2, h4, ?_⟩
  have := histCalls_src_A
  rw [h2] at this
  exact Option.some.inj this

/-- **the tag-reading violation on the translated C++**: the packets the translated `Decoder::decode` returns over `histCalls`
    whose own ids are (1,0) are `[pktT, pktA]`; the translated decoder run on A's calls alone returns `[pktA]` -/
theorem C18_tag_reading_violated_src :
    (srcDecodeRun 64 Decoder_default histCalls).map (fun r => r.2.flatten.filter (fun p => tagOf p = (1, 0))) =
      some [pktT, pktA] ∧
    (srcDecodeRun 64 Decoder_default (histCalls.filter (fun c => bufEp c.arg = some (1, 0)))).map (fun r => r.2.flatten) =
      some [pktA] := by
  constructor <;> decide +kernel

/-! ### a source-level call from a NON-EMPTY table holding another endpoint's entry -/

/-- the entry the first segment of B = (1,1) leaves in the table -/
def entryB : Ep × SegPkt :=
  ((1, 1), ⟨[0, 0, 0, 0, 0, 0, 0, 9, 0, 0, 0, 3, 0x04, 8, 0, 4, 0, 0, 0, 0], 4, 1, 1, 1⟩)

theorem tbl_B : decodeLL [] (some fB1) = ([entryB], []) := by decide +kernel

theorem inv_B : TableInv 28 [entryB] := by
  have h := tableInv_decodeLL (some fB1) tableInv_fresh.1
  rw [tbl_B] at h
  exact h

/-- the hypotheses of `tableInv_preserved` (hence of `decode_total_src`: `TableOk`, `TableReg`) are satisfiable with a non-empty
    table holding ANOTHER endpoint's reassembly — the situation C18 is about: the first segment of A = (1,0) decoded by the
    translated `Decoder::decode` while B = (1,1) is pending … -/
example : ∃ t' outs, Decoder_decode_obj 64 (tblSt [entryB]) ([9] ++ fA1 ++ [5]) 1 28 (SrcTec.tecmpExt 64) = some (tblSt t', outs) ∧
    TableInv (28 + 28) t' ∧ t'.abs = (decode (Table.abs [entryB]) (some fA1)).1 ∧
    outs.map (Sum.elim toPacket SrcTec.tAbs) = (decode (Table.abs [entryB]) (some fA1)).2 :=
  tableInv_preserved 28 [entryB] [9] fA1 [5] 64 inv_B (by decide) (by decide) (by decide) (by decide)

/-- … leaves B's entry exactly as it was and adds A's -/
example : (Decoder_decode_obj 64 (tblSt [entryB]) ([9] ++ fA1 ++ [5]) 1 28 (SrcTec.tecmpExt 64)).map
      (fun r => (r.1.f_segmentedPackets.map (·.1), r.2.length)) = some ([(1, 0), (1, 1)], 0) := by
  decide +kernel
example : (Decoder_decode_obj 64 (tblSt [entryB]) ([9] ++ fA1 ++ [5]) 1 28 (SrcTec.tecmpExt 64)).map
      (fun r => (mapFind r.1.f_segmentedPackets (1, 1)).map
        (fun x => [x.f_payload, [UInt8.ofNat x.f_segmentType, UInt8.ofNat x.f_curVersion, UInt8.ofNat x.f_curMessageType,
          UInt8.ofNat x.f_curSegment]])) =
    some (some [entryB.2.payload, [4, 1, 1, 1]]) := by
  decide +kernel

end Instances

end AsamCmp.C18S
