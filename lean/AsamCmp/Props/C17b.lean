/-
  Refinement: the low-level decoder model (DecoderLL.lean: a transcription of src/decoder.cpp with
  the pending table as an association list supporting `erase`, assignment and the INSERTING
  `operator[]`, the message loop over read position and remaining size, and `SegmentedPacket` with
  its five members) refines the decoder model of Decoder.lean that the theorems C01, C02, C04, C05,
  C06, C17, C18 are about.  In particular the default entry that `operator[]` inserts when an orphan
  (non-first) segment arrives never survives the call — what C17 needs of the real table.
-/
import AsamCmp.DecoderLL
import AsamCmp.Props.C17
import AsamCmp.Lemmas.DecLLLoop
namespace AsamCmp.C17b
open AsamCmp

/-- table invariant: one entry per endpoint, and every stored entry is a real reassembly in
    progress — last accepted segment first or intermediary, at least the 16 header bytes — so in
    particular never a default-constructed entry -/
def TableOk (t : Table) : Prop :=
  (t.map (·.1)).Nodup ∧ ∀ x ∈ t, (x.2.segType = 4 ∨ x.2.segType = 8) ∧ 16 ≤ x.2.payload.length

theorem tableOk_empty : TableOk [] := by
  exact ok_nil

/-- one call: the invariant is preserved, the table's function view steps exactly like the model's
    state, and the returned packets are the model's — for EVERY buffer (null, short, TECMP, frames) -/
theorem decodeLL_refines (t : Table) (buf : Option Bytes) (h : TableOk t) :
    TableOk (decodeLL t buf).1 ∧
    (decodeLL t buf).1.abs = (decode t.abs buf).1 ∧
    (decodeLL t buf).2 = (decode t.abs buf).2 := by
  exact decodeLL_spec t buf h

/-- a whole history from the empty table -/
def runLL (t : Table) : List (Option Bytes) → Table × List Packet
  | [] => (t, [])
  | b :: bs =>
    let r := decodeLL t b
    let r' := runLL r.1 bs
    (r'.1, r.2 ++ r'.2)

/-- a whole history from any table satisfying the invariant (glue for `runLL_refines`) -/
theorem runLL_refines_from : ∀ (bufs : List (Option Bytes)) (t : Table), TableOk t →
    TableOk (runLL t bufs).1 ∧
    (runLL t bufs).1.abs = (decodeAll tecmpDecode t.abs bufs).1 ∧
    (runLL t bufs).2 = (decodeAll tecmpDecode t.abs bufs).2 := by
  intro bufs
  induction bufs with
  | nil => intro t h; exact ⟨h, rfl, rfl⟩
  | cons b bs ih =>
    intro t h
    obtain ⟨h1, h2, h3⟩ := decodeLL_refines t b h
    obtain ⟨i1, i2, i3⟩ := ih (decodeLL t b).1 h1
    have hd : decodeWith tecmpDecode t.abs b = decode t.abs b := rfl
    simp only [runLL, decodeAll, hd]
    rw [← h2, ← h3]
    exact ⟨i1, i2, by rw [i3]⟩

theorem runLL_refines (bufs : List (Option Bytes)) :
    TableOk (runLL [] bufs).1 ∧
    (runLL [] bufs).1.abs = (decodeAll tecmpDecode DecState.empty bufs).1 ∧
    (runLL [] bufs).2 = (decodeAll tecmpDecode DecState.empty bufs).2 := by
  have h := runLL_refines_from bufs [] tableOk_empty
  exact h

/-- C17 on the low-level table: after any history the table holds EXACTLY one entry per endpoint
    with a message in progress (the function view is `some` exactly there, keys are unique), and no
    default-constructed entry -/
theorem table_entries (bufs : List (Option Bytes)) (e : Ep) :
    (e ∈ (runLL [] bufs).1.map (·.1) ↔ ((decodeAll tecmpDecode DecState.empty bufs).1 e).isSome = true) ∧
    ((runLL [] bufs).1.map (·.1)).Nodup ∧ ∀ x ∈ (runLL [] bufs).1, x.2 ≠ ({} : SegPkt) := by
  obtain ⟨hok, habs, _⟩ := runLL_refines bufs
  refine ⟨?_, hok.1, ?_⟩
  · rw [← habs, mem_keys_iff, abs_apply, Option.isSome_map]
  · intro x hx hdef
    have hg := (hok.2 x hx).1
    rw [hdef] at hg
    rcases hg with hg | hg <;> cases hg

end AsamCmp.C17b
