/-
  Refinement: the low-level encoder model (EncoderLL.lean: a line-by-line transcription of
  src/encoder.cpp with byte vectors, `bytesLeft`, offsets `size - bytesLeft`, template copies and
  `resize`) computes exactly the serialisation of the structured encoder model (Encoder.lean) that
  the theorems C01, C06b, C07, C08, C09, C10 are about.  So those theorems hold of the low-level
  model too — offsets, widths and copy positions included.
-/
import AsamCmp.EncoderLL
import AsamCmp.Props.C07
import AsamCmp.Lemmas.EncLLLoop
namespace AsamCmp.C07b
open AsamCmp

/-- for EVERY encoder object (any history: `e` need not be idle), every batch of packets with a
    payload shorter than 2^16 (zero-length payloads included) and every configuration with
    25 ≤ max, min ≤ max: same frames, byte for byte, and the same encoder state afterwards -/
theorem encodeLL_refines (e : Enc) (batch : List Packet) (c : Ctx) (hc : c.ok = true)
    (hb : ∀ p ∈ batch, p.Enc) (hq : e.seqc < 65536) :
    (e.toLL.encode batch c).2 = (e.encode batch c).2.map (EFrame.bytes c.min) ∧
    (e.toLL.encode batch c).1.seqc = (e.encode batch c).1.seqc ∧
    (e.toLL.encode batch c).1.mt = (e.encode batch c).1.curMt ∧
    (e.toLL.encode batch c).1.dev = e.dev ∧ (e.toLL.encode batch c).1.stream = e.stream ∧
    (e.toLL.encode batch c).1.frames = [] ∧ (e.toLL.encode batch c).1.tmpl = [] := by
  exact encode_R e batch c hc hb

/-- hence C07/C08 hold of the low-level model: tiling its frames succeeds and the predicates hold -/
theorem C07_C08_lowlevel (e : Enc) (batch : List Packet) (c : Ctx) (hc : c.ok = true)
    (hb : ∀ p ∈ batch, p.Enc ∧ 1 ≤ p.data.length) (hq : e.seqc < 65536) :
    ∃ fs, tileFrames (e.toLL.encode batch c).2 = some fs ∧
      P_C07 c (batch.map Packet.data) fs = true ∧
      P_C08 c (batch.map fun p => (p.mt, p.data.length)) fs = true := by
  rw [(encodeLL_refines e batch c hc (fun p hp => (hb p hp).1) hq).1]
  exact C07_C08_bytes e batch c hc hb

end AsamCmp.C07b
