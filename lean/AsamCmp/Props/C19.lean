/-
  C19  Separate codec instances can be used concurrently.

  What Lean carries: the state-separation argument.  Each Encoder / Decoder / Status object is a
  value of the model with its own step function; the TECMP decoder and converter are pure functions.
  `interleave_independent`: under ANY schedule each instance produces the outputs of its solo run.
  The premise that there is no global component is the regenerated obligation
  `GenChecks.no_shared_state` (no mutable static storage in the objects built from /repo).
  PARTIAL: real thread schedules, the C++ memory model and data races inside libstdc++ / malloc are
  outside any model; they are observed with ThreadSanitizer.
-/
import AsamCmp.Conc
import AsamCmp.EncHist
import AsamCmp.Tecmp
import AsamCmp.Status
import AsamCmp.Props.GenChecks
namespace AsamCmp.C19
open AsamCmp

/-- an instance of any of the three stateful classes -/
inductive Inst
  | enc (e : Enc)
  | dec (d : DecState)
  | st (s : StatusSt)

inductive InstOp
  | enc (op : EncOp)
  | dec (buf : Option Bytes)
  | st (op : StOp)
  /-- the static TECMP decoder, callable from any thread -/
  | tecmp (b : Bytes)

inductive InstOut
  | frames (fs : List EFrame)
  | packets (ps : List Packet)
  | unit

/-- one API call on one object: reads and writes that object only -/
def instStep : Inst → InstOp → Inst × InstOut
  | .enc e, .enc op => let r := e.apply op; (.enc r.1, .frames r.2)
  | .dec d, .dec buf => let r := decode d buf; (.dec r.1, .packets r.2)
  | .st s, .st op => (.st (statusStep s op), .unit)
  | i, .tecmp b => (i, .packets (tecmpDecode b))
  | i, _ => (i, .unit)

/-- C19 (model level): whatever the interleaving of the calls of n threads, each driving its own
    object, every object behaves exactly as if it were used alone -/
theorem C19_interleaving (i : Nat) (sched : List (Nat × InstOp)) (st : Nat → Inst) :
    ((Conc.runSched instStep st sched).2.filter (fun x => x.1 = i)).map (·.2) =
      (Conc.runSolo instStep (st i) ((sched.filter (fun x => x.1 = i)).map (·.2))).2 ∧
    (Conc.runSched instStep st sched).1 i =
      (Conc.runSolo instStep (st i) ((sched.filter (fun x => x.1 = i)).map (·.2))).1 :=
  Conc.interleave_independent instStep i sched st

/-- the static TECMP path has no state at all: its result is a function of the buffer -/
theorem tecmp_stateless (i : Inst) (b : Bytes) : (instStep i (.tecmp b)).1 = i := by
  cases i <;> rfl

/-- the premise "no global component", as found in the objects built from /repo on this run -/
theorem no_shared_state : Generated.mutableStatics = [] := GenChecks.no_shared_state

end AsamCmp.C19
