/-
  C04  Decoded packets report exactly what is on the wire.

  For every well-formed capture-module frame carrying any number of unsegmented messages, decoding —
  on a decoder with any history — returns one packet per message in wire order whose device id, stream
  id, version, message type, timestamp, interface or vendor id, flags, payload type, length and payload
  bytes equal the big-endian fields at the offsets the ASAM CMP layout prescribes.  A payload whose
  inner structure is inconsistent with its length, or that carries bus-error flags, is returned marked
  invalid rather than misparsed, and a frame cut short yields exactly the packets of the messages it
  still contains completely.
-/
import AsamCmp.Tecmp
import AsamCmp.Lemmas.Wire
namespace AsamCmp.C04
open AsamCmp

/-- a message as the protocol lays it out: timestamp u64 @0, id word u32 @8 (interface id, or
    reserved u16 + vendor id u16), flags u8 @12, payload type u8 @13, payload length u16 @14, payload -/
structure WMsg where
  ts : Nat
  idw : Nat
  flags : Nat
  ptype : Nat
  body : Bytes

def WMsg.bytes (m : WMsg) : Bytes :=
  beEnc 8 m.ts ++ beEnc 4 m.idw ++ [UInt8.ofNat m.flags, UInt8.ofNat m.ptype] ++ beEnc 2 m.body.length ++ m.body

/-- in-range field values of an unsegmented message without the error-in-payload bit -/
def WMsg.WF (m : WMsg) : Prop :=
  m.ts < 2 ^ 64 ∧ m.idw < 2 ^ 32 ∧ m.flags < 256 ∧ m.flags &&& 0x4C = 0 ∧ 1 ≤ m.ptype ∧ m.ptype < 256 ∧ m.body.length < 65536

/-- frame header: version u8 @0, reserved @1, device id u16 @2, message type u8 @4, stream id u8 @5,
    sequence counter u16 @6 -/
structure WFrame where
  ver : Nat
  reserved : Nat
  dev : Nat
  mt : Nat
  stream : Nat
  seq : Nat
  msgs : List WMsg

def WFrame.bytes (F : WFrame) : Bytes :=
  [UInt8.ofNat F.ver, UInt8.ofNat F.reserved] ++ beEnc 2 F.dev ++ [UInt8.ofNat F.mt, UInt8.ofNat F.stream] ++ beEnc 2 F.seq ++
    F.msgs.flatMap WMsg.bytes

def WFrame.WF (F : WFrame) : Prop :=
  1 ≤ F.ver ∧ F.ver < 256 ∧ F.reserved < 256 ∧ F.dev < 65536 ∧ F.mt < 256 ∧ F.stream < 256 ∧ F.seq < 65536 ∧
  ∀ m ∈ F.msgs, m.WF

/-- the packet the decoder must report for message `m` of frame `F`: the typed payload when the
    payload's own structure is consistent (`create`: validators incl. the bus-error flag masks), the
    invalid-marked payload of the same length otherwise -/
def specPacket (F : WFrame) (m : WMsg) : Packet :=
  { payload := some (create (F.mt * 256 + m.ptype) m.body), version := F.ver, deviceId := F.dev, streamId := F.stream,
    seq := 0, ts := m.ts, ifId := if F.mt = 1 then m.idw else 0,
    vendorId := if F.mt = 3 ∨ F.mt = 0xFF then m.idw % 65536 else 0, flags := m.flags, segType := 0 }

/-- C04: whole frame, any decoder history -/
theorem C04_wire (F : WFrame) (hF : F.WF) (d : DecState) :
    (decode d (some F.bytes)).2 = F.msgs.map (specPacket F) := by
  obtain ⟨h1, h2, h3, h4, h5, h6, h7, hm⟩ := hF
  exact wire_whole (⟨WMsg.bytes, WMsg.ts, WMsg.idw, WMsg.flags, WMsg.ptype, WMsg.body, fun _ => rfl⟩ : MsgView WMsg)
    (reserved := F.reserved) (seq := F.seq) ⟨h1, h2, h3, h4, h5, h6, h7⟩ F.msgs hm d

/-- … and zero padding behind the messages changes nothing -/
theorem C04_pad (F : WFrame) (hF : F.WF) (d : DecState) (k : Nat) :
    (decode d (some (F.bytes ++ zeros k))).2 = F.msgs.map (specPacket F) := by
  obtain ⟨h1, h2, h3, h4, h5, h6, h7, hm⟩ := hF
  exact wire_pad (⟨WMsg.bytes, WMsg.ts, WMsg.idw, WMsg.flags, WMsg.ptype, WMsg.body, fun _ => rfl⟩ : MsgView WMsg)
    (reserved := F.reserved) (seq := F.seq) ⟨h1, h2, h3, h4, h5, h6, h7⟩ F.msgs hm d k

/-- number of leading messages wholly contained in the first `n` bytes behind the frame header -/
def fitCount : Nat → List WMsg → Nat
  | _, [] => 0
  | n, m :: ms => if 16 + m.body.length ≤ n then 1 + fitCount (n - (16 + m.body.length)) ms else 0

/-- … and a frame cut short at ANY offset yields exactly the packets of the messages it still
    contains completely -/
theorem C04_truncate (F : WFrame) (hF : F.WF) (d : DecState) (n : Nat) :
    (decode d (some (F.bytes.take n))).2 = ((F.msgs.take (fitCount (n - 8) F.msgs)).map (specPacket F)) := by
  obtain ⟨h1, h2, h3, h4, h5, h6, h7, hm⟩ := hF
  exact wire_truncate (⟨WMsg.bytes, WMsg.ts, WMsg.idw, WMsg.flags, WMsg.ptype, WMsg.body, fun _ => rfl⟩ : MsgView WMsg)
    (reserved := F.reserved) (seq := F.seq) ⟨h1, h2, h3, h4, h5, h6, h7⟩ F.msgs hm d fitCount
    (fun _ => rfl) (fun _ _ _ => rfl) n

/-- invalid-marked, not misparsed: a typed payload rejected by its validator is reported with
    type 0, the declared length and no bytes of the wire -/
theorem C04_invalid_marked (ty : Nat) (d : Bytes) (v : Bytes → Bool) (hv : validatorOf ty = some v) (hr : v d = false) :
    create ty d = ⟨0, zeros d.length⟩ ∧ (create ty d).isValid = false := by
  have e : create ty d = ⟨0, zeros d.length⟩ := by simp [create, hv, hr]
  refine ⟨e, ?_⟩
  rw [e]
  rfl

/-- non-vacuity: a CAN message with the CRC-error flag is reported invalid-marked -/
example : (create tyCan ([0, 1] ++ zeros 14)).isValid = false := by decide

end AsamCmp.C04
