/-
  Source-level C11 / C12 (part A): every field accessor of the wire records named by the API glue, translated from /repo's source on
  every run into a bit program (GeneratedSrcFields.lean), passes the decidable check of Src/BitProg.lean against the protocol
  layout table (Layout.lean) — evaluated by the kernel (`decide +kernel`, no extra axioms) — and therefore (`classCheck_sound`)
  does, for EVERY memory content, object position and in-range value, exactly what the table says: defined (no undefined
  behaviour, no access outside the header bytes), a getter returns the field and changes nothing, a setter changes exactly the
  field's bits (`setField` of the layout model, about which C11 / C12 are proved).  `*_coverage`: every field of the class has a
  getter entry and a setter entry, except the listed exemptions.
-/
import AsamCmp.GeneratedSrcFields
import AsamCmp.Lemmas.FieldCheckSound
namespace AsamCmp.SrcFields
open AsamCmp AsamCmp.Src.Bit AsamCmp.SrcGen

theorem cmphdr_checks : classCheck Layout.c_cmphdr entries_cmphdr = true := by decide +kernel
theorem cmphdr_src : ∀ e ∈ entries_cmphdr, ∃ f, Layout.c_cmphdr.find e.field = some f ∧ e.acc.Holds Layout.c_cmphdr.size f :=
  classCheck_sound _ _ cmphdr_checks
theorem cmphdr_coverage : coverageOk Layout.c_cmphdr entries_cmphdr [] = true := by decide +kernel

theorem msghdr_checks : classCheck Layout.c_msghdr entries_msghdr = true := by decide +kernel
theorem msghdr_src : ∀ e ∈ entries_msghdr, ∃ f, Layout.c_msghdr.find e.field = some f ∧ e.acc.Holds Layout.c_msghdr.size f :=
  classCheck_sound _ _ msghdr_checks
theorem msghdr_coverage : coverageOk Layout.c_msghdr entries_msghdr [] = true := by decide +kernel

theorem can_checks : classCheck Layout.c_can entries_can = true := by decide +kernel
theorem can_src : ∀ e ∈ entries_can, ∃ f, Layout.c_can.find e.field = some f ∧ e.acc.Holds Layout.c_can.size f :=
  classCheck_sound _ _ can_checks
theorem can_coverage : coverageOk Layout.c_can entries_can [] = true := by decide +kernel

end AsamCmp.SrcFields
