/-
  C06 end to end on bytes: the fault theorem of Props/C06.lean is about an abstract sent stream
  (`SStream`); here it is instantiated with what the ENCODER MODEL really emits and lifted to the
  byte buffers handed to `decode`.

  Whatever sub-multiset of the encoder's serialised frames arrives, in whatever order and
  multiplicity, and whichever copies of SEGMENT frames carry another version byte and / or message
  type byte — as long as two arrived copies of different segments of one packet that agree on
  (version, type) carry the original pair (the side condition forced by the property itself) —
  every packet the decoder delivers is one of the packets that were sent.
-/
import AsamCmp.Props.C01
import AsamCmp.Props.C06
import AsamCmp.Lemmas.FaultBytesCopy
namespace AsamCmp.C06b
open AsamCmp

/-- frame `i` of the encoder output holds a segment (then it holds exactly that one message) -/
def isSegFrame (fs : List EFrame) (i : Nat) : Bool :=
  match fs[i]? with
  | some f => f.msgs.any (fun m => m.seg != 0)
  | none => false

/-- index (in the batch) of the packet whose segment frame `i` carries -/
def segPacket (fs : List EFrame) (i : Nat) : Option Nat :=
  match fs[i]? with
  | some f => (f.msgs.find? (fun m => m.seg != 0)).map (·.idx)
  | none => none

/-- `b` arrived as a copy of serialised frame `i`; a copy of a segment frame may carry any non-zero
    version byte and any message type byte (equal to the originals or not) -/
inductive Arrived (fs : List EFrame) (min : Nat) : Bytes → Nat → Prop
  | clean (i : Nat) (f : EFrame) : fs[i]? = some f → Arrived fs min (EFrame.bytes min f) i
  | corrupted (i : Nat) (f : EFrame) (ver mt : Nat) : fs[i]? = some f → isSegFrame fs i = true →
      1 ≤ ver → ver < 256 → mt < 256 →
      Arrived fs min (writeAt (writeAt (EFrame.bytes min f) 0 [UInt8.ofNat ver]) 4 [UInt8.ofNat mt]) i

/-- side condition on what arrived: two copies of DIFFERENT segment frames of the same packet that
    agree on (version byte, type byte) carry the original pair -/
def SideB (fs : List EFrame) (min v : Nat) (arr : List Bytes) : Prop :=
  ∀ b ∈ arr, ∀ b' ∈ arr, ∀ i i' f, Arrived fs min b i → Arrived fs min b' i' → i ≠ i' →
    fs[i]? = some f → isSegFrame fs i = true → isSegFrame fs i' = true → segPacket fs i = segPacket fs i' →
    byteAt b 0 = byteAt b' 0 → byteAt b 4 = byteAt b' 4 → byteAt b 0 = v ∧ byteAt b 4 = f.mt

/-- C06 end to end: encoder model → bytes → faults → decoder model -/
theorem C06_bytes (e : Enc) (batch : List Packet) (c : Ctx) (v : Nat)
    (hc : c.ok = true) (hwf : ∀ p ∈ batch, p.WF) (hver : ∀ p ∈ batch, p.version = v)
    (hdev : e.dev < 65536) (hstream : e.stream < 256)
    (hN : (e.encode batch c).2.length < 65536)
    (arr : List Bytes)
    (harr : ∀ b ∈ arr, ∃ i, Arrived (e.encode batch c).2 c.min b i)
    (hside : SideB (e.encode batch c).2 c.min v arr) :
    ∀ p ∈ (decodeAll tecmpDecode DecState.empty (arr.map some)).2,
      clearSeg p ∈ batch.map (obsSent e.dev e.stream) := by
  intro p hp
  -- `Arrived` in the vocabulary of the lemma files, both directions
  have toP : ∀ b i, Arrived (e.encode batch c).2 c.min b i → ArrP (e.encode batch c).2 c.min b i := by
    intro b i h
    cases h with
    | clean i f hf => exact ⟨f, hf, Or.inl rfl⟩
    | corrupted i f ver mt hf hseg h1 h2 h3 =>
      refine ⟨f, hf, Or.inr ⟨ver, mt, ?_, h1, h2, h3, rfl⟩⟩
      simpa [isSegFrame, hf] using hseg
  have ofP : ∀ b i, ArrP (e.encode batch c).2 c.min b i → Arrived (e.encode batch c).2 c.min b i := by
    intro b i h
    obtain ⟨f, hf, hb⟩ := h
    rcases hb with rfl | ⟨ver, mt, hany, h1, h2, h3, rfl⟩
    · exact Arrived.clean i f hf
    · exact Arrived.corrupted i f ver mt hf (by simpa [isSegFrame, hf] using hany) h1 h2 h3
  have harr' : ∀ b ∈ arr, ∃ i, ArrP (e.encode batch c).2 c.min b i := by
    intro b hb
    obtain ⟨i, hi⟩ := harr b hb
    exact ⟨i, toP b i hi⟩
  by_cases hne : batch = []
  · -- nothing was sent, so nothing can have arrived
    subst hne
    cases arr with
    | nil => simp [decodeAll] at hp
    | cons b bs =>
      obtain ⟨i, f, hf, _⟩ := harr' b (by simp)
      rw [(encode_nil e c).1] at hf
      simp at hf
  · obtain ⟨p0, hp0⟩ := List.exists_mem_of_ne_nil batch hne
    obtain ⟨_, _, _, _, _, _, _, hv1, hv2, _⟩ := C01.wf_unpack (hwf p0 hp0)
    rw [hver p0 hp0] at hv1 hv2
    have hcap := (Ctx.ok_cap hc).1
    have hmemb : ∀ ip ∈ (List.range batch.length).zip batch, ip.2 ∈ batch := by
      intro ip hip
      rw [← zip_snd batch]; exact List.mem_map_of_mem hip
    let X : Setup :=
      { c := c, min := c.min, dev := e.dev, stream := e.stream, v := v,
        ib := (List.range batch.length).zip batch, fs := (e.encode batch c).2,
        hcap := hcap, hdev := hdev, hstream := hstream, hv1 := hv1, hv := hv2,
        hwf := fun ip hip => hwf _ (hmemb ip hip), hver := fun ip hip => hver _ (hmemb ip hip),
        hg := C01.encode_good e batch c v hcap hwf hver hv2,
        hflat := (encode_spec e batch c hcap).2.1, hN := hN }
    have hsideP : SideP X arr := by
      intro b hb b' hb' i i' f f' m m' ha ha' hii hf hf' hm hm' hs hs' hidx h0 h4
      have hf1 : (e.encode batch c).2[i]? = some f := hf
      have hf2 : (e.encode batch c).2[i']? = some f' := hf'
      exact hside b hb b' hb' i i' f (ofP b i ha) (ofP b' i' ha') hii hf1
        (by simp [isSegFrame, hf1, hm, hs]) (by simp [isSegFrame, hf2, hm', hs'])
        (by simp [segPacket, hf1, hf2, hm, hm', hs, hs', hidx]) h0 h4
    exact bytes_safe X batch hmemb arr harr' hsideP p hp

/-- … and recovery on bytes: from ANY decoder state, the clean frames of the whole batch, in order,
    are decoded to exactly the batch (this is C01 again, stated here for the record) -/
theorem C06_recovery_bytes (e : Enc) (d : DecState) (batch : List Packet) (c : Ctx) (v : Nat)
    (hc : c.ok = true) (hne : batch ≠ []) (hwf : ∀ p ∈ batch, p.WF) (hver : ∀ p ∈ batch, p.version = v)
    (hdev : e.dev < 65536) (hstream : e.stream < 256) :
    P_C01 e.dev e.stream batch
      (decodeAll tecmpDecode d (((e.encode batch c).2.map (EFrame.bytes c.min)).map some)).2 = true :=
  (C01.C01_roundtrip e d batch c v hc hne hwf hver hdev hstream).1

end AsamCmp.C06b
