/-
  Source-level tie, decoder part: the message-header and frame-header readers `Decoder::decode` uses and
  `SegmentedPacket::isValidSegmentType`, translated from /repo's source on every run (GeneratedSrc.lean), equal the model's
  `segTypeOf`, `beAt · 14 2`, the fields of `parseFrame`, and `validNext` — for every memory content and position.
-/
import AsamCmp.Props.SrcTie
set_option linter.unusedSimpArgs false
namespace AsamCmp.SrcTie
open AsamCmp AsamCmp.Src AsamCmp.SrcGen

/-- `MessageHeader::getSegmentType` (its `to_underlying` call is resolved by unification, whatever its generated name) -/
theorem segType_src (m : Bytes) (p : Nat) (h : p + 16 ≤ m.length) :
    MessageHeader_getSegmentType m p = some (segTypeOf (m.drop p)) := by
  unfold MessageHeader_getSegmentType segTypeOf
  simp (disch := omega) only [rd_drop, leAt_one, bind, some_bind]
  refine bind_of_eq (a := 12) rfl ?_
  src_norm

theorem isSegmented_src (m : Bytes) (p sz : Nat) (h : p + 16 ≤ m.length) :
    Decoder_isSegmentedPacket m p sz = some (segTypeOf (m.drop p) != 0) := by
  unfold Decoder_isSegmentedPacket
  rw [segType_src m p h]; rfl

theorem isFirstSegment_src (m : Bytes) (p sz : Nat) (h : p + 16 ≤ m.length) :
    Decoder_isFirstSegment m p sz = some (segTypeOf (m.drop p) == 4) := by
  unfold Decoder_isFirstSegment
  rw [segType_src m p h]; rfl

theorem payloadLength_src (m : Bytes) (p : Nat) (h : p + 16 ≤ m.length) :
    MessageHeader_getPayloadLength m p = some (beAt (m.drop p) 14 2) := by
  have hl : (m.drop p).length = m.length - p := List.length_drop
  unfold MessageHeader_getPayloadLength
  simp (disch := omega) only [rd_drop]
  src_norm

/-- the five frame-header readers that `Decoder::decode` uses are the fields of the model's `parseFrame` -/
theorem frame_header_src (b : Bytes) (h : 8 ≤ b.length) :
    CmpHeader_getVersion b 0 = some (parseFrame b).ver ∧
    CmpHeader_getDeviceId b 0 = some (parseFrame b).ep.1 ∧
    CmpHeader_getStreamId b 0 = some (parseFrame b).ep.2 ∧
    CmpHeader_getMessageType b 0 = some (parseFrame b).mt ∧
    CmpHeader_getSequenceCounter b 0 = some (parseFrame b).seq := by
  unfold CmpHeader_getVersion CmpHeader_getDeviceId CmpHeader_getStreamId CmpHeader_getMessageType
    CmpHeader_getSequenceCounter parseFrame
  simp (disch := omega) only [rd_eq, leAt_one, swap16_leAt, bind, some_bind, pure, Nat.zero_add, and_self]

/-- `SegmentedPacket::isValidSegmentType` on an object whose `segmentType` member holds one of the four enumerators -/
theorem validNext_src (m : Bytes) (this cur t : Nat)
    (h : this + off_Decoder_SegmentedPacket_segmentType + 1 ≤ m.length)
    (hc : byteAt m (this + off_Decoder_SegmentedPacket_segmentType) = cur)
    (hcur : cur = 0 ∨ cur = 4 ∨ cur = 8 ∨ cur = 12) :
    Decoder_SegmentedPacket_isValidSegmentType m this t = some (validNext cur t) := by
  unfold off_Decoder_SegmentedPacket_segmentType at h hc
  unfold Decoder_SegmentedPacket_isValidSegmentType validNext
  simp (disch := omega) only [rd_eq, leAt_one, hc]
  src_norm
  src_finish

end AsamCmp.SrcTie
